import Poulpy.Lemmas.BytesReaders
/-
Round-trip lemmas: the three HAL layouts (proof bodies of C18.vec_read_write / scalar_read_write / mat_read_write)
and the building blocks of the wrapper round trip (header fields, seeds, Distribution, inner leaf read).
-/
namespace Ser

def VecWF (x : VecZnx) : Prop :=
  x.n < 2 ^ 64 ∧ x.cols < 2 ^ 64 ∧ x.size < 2 ^ 64 ∧ x.maxSize < 2 ^ 64 ∧ x.n * x.cols < 2 ^ 64 ∧ x.data.length < 2 ^ 64



/-- round trip: every well-formed object satisfying the invariant is written without error (in both
build profiles) and read back — dimensions and the `n·cols·size·8` active bytes — by any receiver whose
buffer holds `n·cols·max_size·8` bytes; the unread tail of the stream is left for the next reader. -/
theorem vec_rt (x r : VecZnx) (p : Profile) (tail : Bytes) (hw : VecWF x) (hi : x.Inv)
    (hcap : x.n * x.cols * x.maxSize * 8 ≤ r.data.length) :
    ∃ bs, x.writeTo p = .ok bs ∧
      VecZnx.readFrom r (bs ++ tail) =
        .ok () ⟨x.n, x.cols, x.size, x.maxSize, x.data.take (x.n * x.cols * x.size * 8) ++ r.data.drop (x.n * x.cols * x.size * 8)⟩ tail := by
  obtain ⟨hn, hc, hs, hm, hnc, hd⟩ := hw
  obtain ⟨hsz, hbuf⟩ := hi
  have h1 : x.n * x.cols * x.size * 8 ≤ x.n * x.cols * x.maxSize * 8 :=
    Nat.mul_le_mul_right 8 (Nat.mul_le_mul_left _ hsz)
  have h2 : x.n * x.cols * x.size * 8 < 2 ^ 64 := by omega
  have h3 : x.n * x.cols * x.size < 2 ^ 64 := by omega
  have h4 : x.n * x.cols * x.maxSize * 8 < 2 ^ 64 := by omega
  refine ⟨leBytes 8 x.n ++ leBytes 8 x.cols ++ leBytes 8 x.size ++ leBytes 8 x.maxSize ++ leBytes 8 (x.n * x.cols * x.size * 8) ++
      x.data.take (x.n * x.cols * x.size * 8), ?_, ?_⟩
  · unfold VecZnx.writeTo
    simp only [bind, Outcome.bind, mulU_of_lt p hnc, mulU_of_lt p h3, mulU_of_lt p h2]
    have : ¬ x.data.length < x.n * x.cols * x.size * 8 := by omega
    simp only [this, ↓reduceIte]
  · unfold VecZnx.readFrom
    simp only [List.append_assoc]
    rw [readU64_le _ hn, readU64_le _ hc, readU64_le _ hs, readU64_le _ hm, readU64_le _ h2]
    rw [cm3x8_of_lt h2 (Or.inr hnc)]
    simp only [ne_eq, not_true_eq_false, ↓reduceIte, getS_bind]
    have hb : ¬ r.data.length < x.n * x.cols * x.size * 8 := by omega
    simp only [hb, ↓reduceIte, cm3x8_of_lt h4 (Or.inr hnc), Option.any_some, decide_eq_true_eq]
    have hc2 : ¬ ((decide (x.size > x.maxSize) || !decide (x.n * x.cols * x.maxSize * 8 ≤ r.data.length)) = true) := by
      simp; omega
    rw [if_neg hc2, readExactInto_bind]
    simp only [modifyS_apply]
    have hl : (List.take (x.n * x.cols * x.size * 8) x.data).length = x.n * x.cols * x.size * 8 := by
      simp; omega
    have hg : ¬ (x.n * x.cols * x.size * 8 > r.data.length) := by omega
    have hlt : ¬ ((List.take (x.n * x.cols * x.size * 8) x.data ++ tail).length < x.n * x.cols * x.size * 8) := by
      simp; omega
    simp only [hg, hlt, ↓reduceIte, List.take_left' hl, List.drop_left' hl]

def ScalarWF (x : ScalarZnx) : Prop := x.n < 2 ^ 64 ∧ x.cols < 2 ^ 64 ∧ x.data.length < 2 ^ 64

/-- round trip for `ScalarZnx`: `read (write x) = ok x` (dimensions, the `n·cols·8` active bytes; receiver bytes beyond
stay, stream tail unread) for any receiver whose buffer holds `n·cols·8` bytes, in both build profiles -/
theorem scalar_rt (x r : ScalarZnx) (p : Profile) (tail : Bytes) (hw : ScalarWF x) (hi : x.Inv)
    (hcap : x.n * x.cols * 8 ≤ r.data.length) :
    ∃ bs, x.writeTo p = .ok bs ∧
      ScalarZnx.readFrom r (bs ++ tail) = .ok () ⟨x.n, x.cols, x.data.take (x.n * x.cols * 8) ++ r.data.drop (x.n * x.cols * 8)⟩ tail := by
  obtain ⟨hn, hc, hd⟩ := hw
  unfold ScalarZnx.Inv at hi
  have h2 : x.n * x.cols * 8 < 2 ^ 64 := by omega
  have h1 : x.n * x.cols < 2 ^ 64 := by omega
  refine ⟨leBytes 8 x.n ++ leBytes 8 x.cols ++ leBytes 8 (x.n * x.cols * 8) ++ x.data.take (x.n * x.cols * 8), ?_, ?_⟩
  · unfold ScalarZnx.writeTo
    simp only [bind, Outcome.bind, mulU_of_lt p h1, mulU_of_lt p h2]
    have : ¬ x.data.length < x.n * x.cols * 8 := by omega
    simp only [this, ↓reduceIte]
  · unfold ScalarZnx.readFrom
    simp only [List.append_assoc]
    rw [readU64_le _ hn, readU64_le _ hc, readU64_le _ h2]
    simp only [checkedMul_of_lt h1, checkedMul_of_lt h2, Option.bind_some, ne_eq, not_true_eq_false, ↓reduceIte, getS_bind]
    have hb : ¬ r.data.length < x.n * x.cols * 8 := by omega
    rw [if_neg hb, readExactInto_bind]
    simp only [modifyS_apply]
    have hl : (List.take (x.n * x.cols * 8) x.data).length = x.n * x.cols * 8 := by simp; omega
    have hg : ¬ (x.n * x.cols * 8 > r.data.length) := by omega
    have hlt : ¬ ((List.take (x.n * x.cols * 8) x.data ++ tail).length < x.n * x.cols * 8) := by simp; omega
    simp only [hg, hlt, ↓reduceIte, List.take_left' hl, List.drop_left' hl]

/-- no partial product of the writer's / reader's length computation leaves `usize` (automatic when all
dimensions are non-zero, since then every partial product is below the buffer length) -/
def MatWF (m : MatZnx) : Prop :=
  m.n < 2 ^ 64 ∧ m.size < 2 ^ 64 ∧ m.rows < 2 ^ 64 ∧ m.colsIn < 2 ^ 64 ∧ m.colsOut < 2 ^ 64 ∧ m.data.length < 2 ^ 64 ∧
  m.n * m.colsOut < 2 ^ 64 ∧ m.n * m.colsOut * m.size < 2 ^ 64 ∧ m.n * m.colsOut * m.size * 8 < 2 ^ 64 ∧
  m.rows * m.colsIn < 2 ^ 64 ∧ m.rows * m.colsIn * m.n < 2 ^ 64 ∧ m.rows * m.colsIn * m.n * m.colsOut < 2 ^ 64 ∧
  m.rows * m.colsIn * m.n * m.colsOut * m.size < 2 ^ 64

theorem mat_len_assoc (rows ci n co size : Nat) : rows * ci * (n * co * size * 8) = rows * ci * n * co * size * 8 := by
  simp only [Nat.mul_assoc]

/-- round trip for `MatZnx` -/
theorem mat_rt (x r : MatZnx) (p : Profile) (tail : Bytes) (hw : MatWF x) (hi : x.Inv)
    (hcap : x.rows * x.colsIn * x.n * x.colsOut * x.size * 8 ≤ r.data.length) :
    ∃ bs, x.writeTo p = .ok bs ∧
      MatZnx.readFrom r (bs ++ tail) =
        .ok () ⟨x.n, x.size, x.rows, x.colsIn, x.colsOut,
          x.data.take (x.rows * x.colsIn * x.n * x.colsOut * x.size * 8) ++ r.data.drop (x.rows * x.colsIn * x.n * x.colsOut * x.size * 8)⟩ tail := by
  obtain ⟨hn, hs, hr, hci, hco, hd, p1, p2, p3, q1, q2, q3, q4⟩ := hw
  unfold MatZnx.Inv at hi
  have hL : x.rows * x.colsIn * x.n * x.colsOut * x.size * 8 < 2 ^ 64 := by omega
  have hw5 : x.rows * x.colsIn * (x.n * x.colsOut * x.size * 8) < 2 ^ 64 := by rw [mat_len_assoc]; exact hL
  refine ⟨leBytes 8 x.n ++ leBytes 8 x.size ++ leBytes 8 x.rows ++ leBytes 8 x.colsIn ++ leBytes 8 x.colsOut ++
      leBytes 8 (x.rows * x.colsIn * x.n * x.colsOut * x.size * 8) ++ x.data.take (x.rows * x.colsIn * x.n * x.colsOut * x.size * 8), ?_, ?_⟩
  · unfold MatZnx.writeTo MatZnx.bytesOf
    simp only [bind, Outcome.bind, mulU_of_lt p p1, mulU_of_lt p p2, mulU_of_lt p p3, mulU_of_lt p q1, mulU_of_lt p hw5, mat_len_assoc]
    have : ¬ x.data.length < x.rows * x.colsIn * x.n * x.colsOut * x.size * 8 := by omega
    simp only [this, ↓reduceIte]
  · unfold MatZnx.readFrom
    simp only [List.append_assoc]
    rw [readU64_le _ hn, readU64_le _ hs, readU64_le _ hr, readU64_le _ hci, readU64_le _ hco, readU64_le _ hL]
    have hcm : cmMat x.rows x.colsIn x.n x.colsOut x.size = some (x.rows * x.colsIn * x.n * x.colsOut * x.size * 8) := by
      unfold cmMat
      simp only [checkedMul_of_lt q1, checkedMul_of_lt q2, checkedMul_of_lt q3, checkedMul_of_lt q4, checkedMul_of_lt hL, Option.bind_some]
    rw [hcm]
    simp only [ne_eq, not_true_eq_false, ↓reduceIte, getS_bind]
    have hb : ¬ r.data.length < x.rows * x.colsIn * x.n * x.colsOut * x.size * 8 := by omega
    rw [if_neg hb, readExactInto_bind]
    simp only [modifyS_apply]
    have hl : (List.take (x.rows * x.colsIn * x.n * x.colsOut * x.size * 8) x.data).length = x.rows * x.colsIn * x.n * x.colsOut * x.size * 8 := by
      simp; omega
    have hg : ¬ (x.rows * x.colsIn * x.n * x.colsOut * x.size * 8 > r.data.length) := by omega
    have hlt : ¬ ((List.take (x.rows * x.colsIn * x.n * x.colsOut * x.size * 8) x.data ++ tail).length < x.rows * x.colsIn * x.n * x.colsOut * x.size * 8) := by
      simp; omega
    simp only [hg, hlt, ↓reduceIte, List.take_left' hl, List.drop_left' hl]

/-! ### wrapper round trip: building blocks -/

def vecMerge (x r : VecZnx) : VecZnx :=
  ⟨x.n, x.cols, x.size, x.maxSize, x.data.take (x.n * x.cols * x.size * 8) ++ r.data.drop (x.n * x.cols * x.size * 8)⟩
def scalarMerge (x r : ScalarZnx) : ScalarZnx :=
  ⟨x.n, x.cols, x.data.take (x.n * x.cols * 8) ++ r.data.drop (x.n * x.cols * 8)⟩
def matMerge (x r : MatZnx) : MatZnx :=
  ⟨x.n, x.size, x.rows, x.colsIn, x.colsOut,
    x.data.take (x.rows * x.colsIn * x.n * x.colsOut * x.size * 8) ++ r.data.drop (x.rows * x.colsIn * x.n * x.colsOut * x.size * 8)⟩

/-- source `x` is well formed and consistent, receiver `r` has the capacity -/
def VecRT (x r : VecZnx) : Prop := VecWF x ∧ x.Inv ∧ x.n * x.cols * x.maxSize * 8 ≤ r.data.length
def ScalarRT (x r : ScalarZnx) : Prop := ScalarWF x ∧ x.Inv ∧ x.n * x.cols * 8 ≤ r.data.length
def MatRT (x r : MatZnx) : Prop := MatWF x ∧ x.Inv ∧ x.rows * x.colsIn * x.n * x.colsOut * x.size * 8 ≤ r.data.length

theorem readVecAt_rt (x r : VecZnx) (h : VecRT x r) (p : Profile) (F : List Nat) (S : List SeedGroup) (m : Nat) (tail : Bytes) :
    ∃ bs, x.writeTo p = .ok bs ∧
      readVecAt 0 ⟨F, S, [.vec r], m⟩ (bs ++ tail) = .ok () ⟨F, S, [.vec (vecMerge x r)], m⟩ tail := by
  obtain ⟨bs, hw, hr⟩ := vec_rt x r p tail h.1 h.2.1 h.2.2
  refine ⟨bs, hw, ?_⟩
  simp [readVecAt, onLeaf, liftVec, hr, vecMerge]

theorem readScalarAt_rt (x r : ScalarZnx) (h : ScalarRT x r) (p : Profile) (F : List Nat) (S : List SeedGroup) (m : Nat) (tail : Bytes) :
    ∃ bs, x.writeTo p = .ok bs ∧
      readScalarAt 0 ⟨F, S, [.scalar r], m⟩ (bs ++ tail) = .ok () ⟨F, S, [.scalar (scalarMerge x r)], m⟩ tail := by
  obtain ⟨bs, hw, hr⟩ := scalar_rt x r p tail h.1 h.2.1 h.2.2
  refine ⟨bs, hw, ?_⟩
  simp [readScalarAt, onLeaf, liftScalar, hr, scalarMerge]

theorem readMatAt_rt (x r : MatZnx) (h : MatRT x r) (p : Profile) (F : List Nat) (S : List SeedGroup) (m : Nat) (tail : Bytes) :
    ∃ bs, x.writeTo p = .ok bs ∧
      readMatAt 0 ⟨F, S, [.mat r], m⟩ (bs ++ tail) = .ok () ⟨F, S, [.mat (matMerge x r)], m⟩ tail := by
  obtain ⟨bs, hw, hr⟩ := mat_rt x r p tail h.1 h.2.1 h.2.2
  refine ⟨bs, hw, ?_⟩
  simp [readMatAt, onLeaf, liftMat, hr, matMerge]

/-- `self.field_i = read_u32()?` followed by the rest of the reader -/
theorem setF_u32_step {α : Type} (i v : Nat) (hv : v < 2 ^ 32) (rest : Unit → Rd St α) (s : St) (hi : i < s.fields.length) (bs : Bytes) :
    (readU32 >>= fun a => setF i a >>= rest) s (leBytes 4 v ++ bs) = rest () { s with fields := s.fields.set i v } bs := by
  rw [readU32_le _ hv, bind_apply]
  simp [setF, hi]

theorem setF_u64_step {α : Type} (i v : Nat) (hv : v < 2 ^ 64) (rest : Unit → Rd St α) (s : St) (hi : i < s.fields.length) (bs : Bytes) :
    (readU64 >>= fun a => setF i a >>= rest) s (leBytes 8 v ++ bs) = rest () { s with fields := s.fields.set i v } bs := by
  rw [readU64_le _ hv, bind_apply]
  simp [setF, hi]

theorem rGLWE_rt (b b0 : Nat) (hb : b < 2 ^ 32) (x r : VecZnx) (h : VecRT x r) (p : Profile) (S S' : List SeedGroup) (m m' : Nat) (tail : Bytes) :
    ∃ bs, wGLWE p ⟨[b], S, [.vec x], m⟩ origin = .ok bs ∧
      rGLWE origin ⟨[b0], S', [.vec r], m'⟩ (bs ++ tail) = .ok () ⟨[b], S', [.vec (vecMerge x r)], m'⟩ tail := by
  obtain ⟨vb, hw, hr⟩ := readVecAt_rt x r h p [b] S' m' tail
  refine ⟨leBytes 4 b ++ vb, ?_, ?_⟩
  · simp [wGLWE, wF, wLeaf, origin, hw, bind, Outcome.bind]; rfl
  · unfold rGLWE origin
    simp only [List.append_assoc]
    rw [setF_u32_step 0 b hb _ _ (by simp)]
    simpa using hr

theorem rGGLWE_rt (b d b0 d0 : Nat) (hb : b < 2 ^ 32) (hd : d < 2 ^ 32) (x r : MatZnx) (h : MatRT x r) (p : Profile)
    (S S' : List SeedGroup) (m m' : Nat) (tail : Bytes) :
    ∃ bs, wGGLWE p ⟨[b, d], S, [.mat x], m⟩ origin = .ok bs ∧
      rGGLWE origin ⟨[b0, d0], S', [.mat r], m'⟩ (bs ++ tail) = .ok () ⟨[b, d], S', [.mat (matMerge x r)], m'⟩ tail := by
  obtain ⟨vb, hw, hr⟩ := readMatAt_rt x r h p [b, d] S' m' tail
  refine ⟨leBytes 4 b ++ (leBytes 4 d ++ vb), ?_, ?_⟩
  · simp [wGGLWE, wF, wLeaf, origin, hw, bind, Outcome.bind]; rfl
  · unfold rGGLWE origin
    simp only [List.append_assoc]
    rw [setF_u32_step 0 b hb _ _ (by simp), setF_u32_step (0 + 1) d hd _ _ (by simp)]
    simpa using hr

theorem rGLWESwitchingKey_rt (i o b d i0 o0 b0 d0 : Nat) (hi : i < 2 ^ 32) (ho : o < 2 ^ 32) (hb : b < 2 ^ 32) (hd : d < 2 ^ 32)
    (x r : MatZnx) (h : MatRT x r) (p : Profile) (S S' : List SeedGroup) (m m' : Nat) (tail : Bytes) :
    ∃ bs, wGLWESwitchingKey p ⟨[i, o, b, d], S, [.mat x], m⟩ origin = .ok bs ∧
      rGLWESwitchingKey origin ⟨[i0, o0, b0, d0], S', [.mat r], m'⟩ (bs ++ tail) =
        .ok () ⟨[i, o, b, d], S', [.mat (matMerge x r)], m'⟩ tail := by
  obtain ⟨vb, hw, hr⟩ := readMatAt_rt x r h p [i, o, b, d] S' m' tail
  refine ⟨leBytes 4 i ++ (leBytes 4 o ++ (leBytes 4 b ++ (leBytes 4 d ++ vb))), ?_, ?_⟩
  · simp [wGLWESwitchingKey, wGGLWE, wF, wLeaf, origin, hw, bind, Outcome.bind]; rfl
  · unfold rGLWESwitchingKey rGGLWE origin
    simp only [List.append_assoc]
    rw [setF_u32_step 0 i hi _ _ (by simp), setF_u32_step (0 + 1) o ho _ _ (by simp),
      setF_u32_step (0 + 2) b hb _ _ (by simp), setF_u32_step (0 + 2 + 1) d hd _ _ (by simp)]
    simpa using hr

theorem rGLWEAutomorphismKey_rt (g b d g0 b0 d0 : Nat) (hg : g < 2 ^ 64) (hb : b < 2 ^ 32) (hd : d < 2 ^ 32)
    (x r : MatZnx) (h : MatRT x r) (p : Profile) (S S' : List SeedGroup) (m m' : Nat) (tail : Bytes) :
    ∃ bs, wGLWEAutomorphismKey p ⟨[g, b, d], S, [.mat x], m⟩ origin = .ok bs ∧
      rGLWEAutomorphismKey origin ⟨[g0, b0, d0], S', [.mat r], m'⟩ (bs ++ tail) =
        .ok () ⟨[g, b, d], S', [.mat (matMerge x r)], m'⟩ tail := by
  obtain ⟨vb, hw, hr⟩ := readMatAt_rt x r h p [g, b, d] S' m' tail
  refine ⟨leBytes 8 g ++ (leBytes 4 b ++ (leBytes 4 d ++ vb)), ?_, ?_⟩
  · simp [wGLWEAutomorphismKey, wGGLWE, wF, wLeaf, origin, hw, bind, Outcome.bind]; rfl
  · unfold rGLWEAutomorphismKey rGGLWE origin
    simp only [List.append_assoc]
    rw [setF_u64_step 0 g hg _ _ (by simp), setF_u32_step (0 + 1) b hb _ _ (by simp), setF_u32_step (0 + 1 + 1) d hd _ _ (by simp)]
    simpa using hr

/-- `reader.read_exact(&mut self.seed)?` followed by the rest -/
theorem readSeedAt_step {α : Type} (rest : Unit → Rd St α) (F : List Nat) (g0 : SeedGroup) (L : List Leaf) (m : Nat)
    (sd : Bytes) (hsd : sd.length = 32) (bs : Bytes) :
    (readSeedAt 0 >>= rest) ⟨F, [g0], L, m⟩ (sd ++ bs) = rest () ⟨F, [⟨1, sd⟩], L, m⟩ bs := by
  rw [bind_apply]
  have h1 : ¬ (sd.length + bs.length < 32) := by omega
  simp [readSeedAt, h1, List.take_left' hsd, List.drop_left' hsd]

theorem rGLWECompressed_rt (a b a0 b0 : Nat) (ha : a < 2 ^ 32) (hb : b < 2 ^ 32) (sd : Bytes) (hsd : sd.length = 32) (g0 : SeedGroup)
    (x r : VecZnx) (h : VecRT x r) (p : Profile) (m m' : Nat) (tail : Bytes) :
    ∃ bs, wGLWECompressed p ⟨[a, b], [⟨1, sd⟩], [.vec x], m⟩ origin = .ok bs ∧
      rGLWECompressed origin ⟨[a0, b0], [g0], [.vec r], m'⟩ (bs ++ tail) =
        .ok () ⟨[a, b], [⟨1, sd⟩], [.vec (vecMerge x r)], m'⟩ tail := by
  obtain ⟨vb, hw, hr⟩ := readVecAt_rt x r h p [a, b] [⟨1, sd⟩] m' tail
  refine ⟨leBytes 4 a ++ (leBytes 4 b ++ (sd ++ vb)), ?_, ?_⟩
  · simp [wGLWECompressed, wF, wLeaf, wSeed, SeedGroup.bytes, origin, hw, hsd, bind, Outcome.bind]; rfl
  · unfold rGLWECompressed origin
    simp only [List.append_assoc]
    rw [setF_u32_step 0 a ha _ _ (by simp), setF_u32_step (0 + 1) b hb _ _ (by simp)]
    simp only [List.set_cons_zero, List.set_cons_succ]
    rw [readSeedAt_step _ _ _ _ _ sd hsd]
    simpa using hr

theorem readSeedsLoop_ok (total k : Nat) (done blk bs : Bytes) (F : List Nat) (L : List Leaf) (m : Nat) (hblk : blk.length = 32 * k) :
    readSeedsLoop 0 total k done ⟨F, [⟨total, done⟩], L, m⟩ (blk ++ bs) = .ok () ⟨F, [⟨total, done ++ blk⟩], L, m⟩ bs := by
  induction k generalizing done blk with
  | zero =>
    have : blk = [] := List.eq_nil_of_length_eq_zero (by simpa using hblk)
    subst this
    simp [readSeedsLoop, Rd.pure]
  | succ k ih =>
    unfold readSeedsLoop
    have h1 : ¬ (blk ++ bs).length < 32 := by simp; omega
    rw [if_neg h1]
    have ht : (blk ++ bs).take 32 = blk.take 32 := by
      rw [List.take_append_of_le_length (by omega)]
    have hd : (blk ++ bs).drop 32 = blk.drop 32 ++ bs := by
      rw [List.drop_append_of_le_length (by omega)]
    simp only [ht, hd, List.set_cons_zero]
    have hl : (blk.drop 32).length = 32 * k := by simp; omega
    rw [ih (done ++ blk.take 32) (blk.drop 32) hl]
    simp [List.append_assoc, List.take_append_drop]

/-- `seed_len = read_u32()?; self.seed = vec![..; seed_len]; for s in &mut self.seed { read_exact(s)? }` then the rest -/
theorem readSeedVecAt_step {α : Type} (rest : Unit → Rd St α) (F : List Nat) (g0 : SeedGroup) (L : List Leaf) (m : Nat)
    (c : Nat) (blk : Bytes) (hc : c < 2 ^ 32) (hblk : blk.length = 32 * c) (hm : c * 32 ≤ m) (bs : Bytes) :
    (readSeedVecAt 0 >>= rest) ⟨F, [g0], L, m⟩ (leBytes 4 c ++ (blk ++ bs)) = rest () ⟨F, [⟨c, blk⟩], L, m⟩ bs := by
  rw [bind_apply]
  unfold readSeedVecAt
  rw [readU32_le _ hc]
  simp only [getS_bind]
  have h0 : ¬ (0 ≥ ([g0] : List SeedGroup).length) := by simp
  have h2 : ¬ (c * 32 > m) := by omega
  simp only [h0, h2, ↓reduceIte]
  rw [bind_apply, modifyS_apply]
  simp only [List.set_cons_zero]
  rw [readSeedsLoop_ok c c [] blk bs F L m hblk]
  simp

theorem wSeedVec_eval (F : List Nat) (c : Nat) (blk : Bytes) (L : List Leaf) (m : Nat) (hblk : blk.length = 32 * c) :
    wSeedVec ⟨F, [⟨c, blk⟩], L, m⟩ 0 = .ok (leBytes 4 c ++ blk) := by
  simp [wSeedVec, SeedGroup.bytes, hblk]

theorem rGGLWECompressed_rt (f0 f1 f2 f3 e0 e1 e2 e3 : Nat) (h0 : f0 < 2 ^ 32) (h1 : f1 < 2 ^ 32) (h2 : f2 < 2 ^ 32) (h3 : f3 < 2 ^ 32)
    (c : Nat) (blk : Bytes) (hc : c < 2 ^ 32) (hblk : blk.length = 32 * c) (g0 : SeedGroup)
    (x r : MatZnx) (h : MatRT x r) (p : Profile) (m m' : Nat) (hm : c * 32 ≤ m') (tail : Bytes) :
    ∃ bs, wGGLWECompressed p ⟨[f0, f1, f2, f3], [⟨c, blk⟩], [.mat x], m⟩ origin = .ok bs ∧
      rGGLWECompressed origin ⟨[e0, e1, e2, e3], [g0], [.mat r], m'⟩ (bs ++ tail) =
        .ok () ⟨[f0, f1, f2, f3], [⟨c, blk⟩], [.mat (matMerge x r)], m'⟩ tail := by
  obtain ⟨vb, hw, hr⟩ := readMatAt_rt x r h p [f0, f1, f2, f3] [⟨c, blk⟩] m' tail
  refine ⟨leBytes 4 f0 ++ (leBytes 4 f1 ++ (leBytes 4 f2 ++ (leBytes 4 f3 ++ (leBytes 4 c ++ (blk ++ vb))))), ?_, ?_⟩
  · simp [wGGLWECompressed, wF, wLeaf, wSeedVec_eval _ _ _ _ _ hblk, origin, hw, bind, Outcome.bind]; rfl
  · unfold rGGLWECompressed origin
    simp only [List.append_assoc]
    rw [setF_u32_step 0 f0 h0 _ _ (by simp), setF_u32_step (0 + 1) f1 h1 _ _ (by simp),
      setF_u32_step (0 + 2) f2 h2 _ _ (by simp), setF_u32_step (0 + 3) f3 h3 _ _ (by simp)]
    simp only [List.set_cons_zero, List.set_cons_succ]
    rw [readSeedVecAt_step _ _ _ _ _ c blk hc hblk hm]
    simpa using hr

theorem rGLWESwitchingKeyCompressed_rt (i o f0 f1 f2 f3 i0 o0 e0 e1 e2 e3 : Nat) (hi : i < 2 ^ 32) (ho : o < 2 ^ 32)
    (h0 : f0 < 2 ^ 32) (h1 : f1 < 2 ^ 32) (h2 : f2 < 2 ^ 32) (h3 : f3 < 2 ^ 32)
    (c : Nat) (blk : Bytes) (hc : c < 2 ^ 32) (hblk : blk.length = 32 * c) (g0 : SeedGroup)
    (x r : MatZnx) (h : MatRT x r) (p : Profile) (m m' : Nat) (hm : c * 32 ≤ m') (tail : Bytes) :
    ∃ bs, wGLWESwitchingKeyCompressed p ⟨[i, o, f0, f1, f2, f3], [⟨c, blk⟩], [.mat x], m⟩ origin = .ok bs ∧
      rGLWESwitchingKeyCompressed origin ⟨[i0, o0, e0, e1, e2, e3], [g0], [.mat r], m'⟩ (bs ++ tail) =
        .ok () ⟨[i, o, f0, f1, f2, f3], [⟨c, blk⟩], [.mat (matMerge x r)], m'⟩ tail := by
  obtain ⟨vb, hw, hr⟩ := readMatAt_rt x r h p [i, o, f0, f1, f2, f3] [⟨c, blk⟩] m' tail
  refine ⟨leBytes 4 i ++ (leBytes 4 o ++ (leBytes 4 f0 ++ (leBytes 4 f1 ++ (leBytes 4 f2 ++ (leBytes 4 f3 ++ (leBytes 4 c ++ (blk ++ vb))))))), ?_, ?_⟩
  · simp [wGLWESwitchingKeyCompressed, wGGLWECompressed, wF, wLeaf, wSeedVec_eval _ _ _ _ _ hblk, origin, hw, bind, Outcome.bind]; rfl
  · unfold rGLWESwitchingKeyCompressed rGGLWECompressed origin
    simp only [List.append_assoc]
    rw [setF_u32_step 0 i hi _ _ (by simp), setF_u32_step (0 + 1) o ho _ _ (by simp),
      setF_u32_step (0 + 2) f0 h0 _ _ (by simp), setF_u32_step (0 + 2 + 1) f1 h1 _ _ (by simp),
      setF_u32_step (0 + 2 + 2) f2 h2 _ _ (by simp), setF_u32_step (0 + 2 + 3) f3 h3 _ _ (by simp)]
    simp only [List.set_cons_zero, List.set_cons_succ]
    rw [readSeedVecAt_step _ _ _ _ _ c blk hc hblk hm]
    simpa using hr

theorem rGLWEAutomorphismKeyCompressed_rt (g f0 f1 f2 f3 g' e0 e1 e2 e3 : Nat) (hg : g < 2 ^ 64)
    (h0 : f0 < 2 ^ 32) (h1 : f1 < 2 ^ 32) (h2 : f2 < 2 ^ 32) (h3 : f3 < 2 ^ 32)
    (c : Nat) (blk : Bytes) (hc : c < 2 ^ 32) (hblk : blk.length = 32 * c) (g0 : SeedGroup)
    (x r : MatZnx) (h : MatRT x r) (p : Profile) (m m' : Nat) (hm : c * 32 ≤ m') (tail : Bytes) :
    ∃ bs, wGLWEAutomorphismKeyCompressed p ⟨[g, f0, f1, f2, f3], [⟨c, blk⟩], [.mat x], m⟩ origin = .ok bs ∧
      rGLWEAutomorphismKeyCompressed origin ⟨[g', e0, e1, e2, e3], [g0], [.mat r], m'⟩ (bs ++ tail) =
        .ok () ⟨[g, f0, f1, f2, f3], [⟨c, blk⟩], [.mat (matMerge x r)], m'⟩ tail := by
  obtain ⟨vb, hw, hr⟩ := readMatAt_rt x r h p [g, f0, f1, f2, f3] [⟨c, blk⟩] m' tail
  refine ⟨leBytes 8 g ++ (leBytes 4 f0 ++ (leBytes 4 f1 ++ (leBytes 4 f2 ++ (leBytes 4 f3 ++ (leBytes 4 c ++ (blk ++ vb)))))), ?_, ?_⟩
  · simp [wGLWEAutomorphismKeyCompressed, wGGLWECompressed, wF, wLeaf, wSeedVec_eval _ _ _ _ _ hblk, origin, hw, bind, Outcome.bind]; rfl
  · unfold rGLWEAutomorphismKeyCompressed rGGLWECompressed origin
    simp only [List.append_assoc]
    rw [setF_u64_step 0 g hg _ _ (by simp), setF_u32_step (0 + 1) f0 h0 _ _ (by simp), setF_u32_step (0 + 1 + 1) f1 h1 _ _ (by simp),
      setF_u32_step (0 + 1 + 2) f2 h2 _ _ (by simp), setF_u32_step (0 + 1 + 3) f3 h3 _ _ (by simp)]
    simp only [List.set_cons_zero, List.set_cons_succ]
    rw [readSeedVecAt_step _ _ _ _ _ c blk hc hblk hm]
    simpa using hr

/-- a `Distribution` that its own codec reproduces (dist.rs drops the low mantissa byte of the `f64` variants and
has 56 payload bits for the `usize` variants) -/
def DistCanon (tag pl : Nat) : Prop :=
  tag ≤ 6 ∧ ((tag = 0 ∨ tag = 2 ∨ tag = 4) → pl < 2 ^ 56) ∧ ((tag = 1 ∨ tag = 3) → pl < 2 ^ 64 ∧ pl % 256 = 0) ∧
  ((tag = 5 ∨ tag = 6) → pl = 0)

theorem distWord_canon (tag pl : Nat) (h : DistCanon tag pl) :
    ∃ q, distWord tag pl = tag * 2 ^ 56 + q ∧ q < 2 ^ 56 ∧
      ((tag = 0 ∨ tag = 2 ∨ tag = 4) → q = pl) ∧ ((tag = 1 ∨ tag = 3) → q * 256 % 2 ^ 64 = pl) ∧ ((tag = 5 ∨ tag = 6) → pl = 0) := by
  obtain ⟨ht, hfix, hprob, hnone⟩ := h
  by_cases h0 : tag = 0 ∨ tag = 2 ∨ tag = 4
  · have hp := hfix h0
    refine ⟨pl, ?_, hp, fun _ => rfl, fun h1 => by omega, hnone⟩
    unfold distWord; rw [if_pos h0, or_add _ _ hp]; omega
  · by_cases h1 : tag = 1 ∨ tag = 3
    · obtain ⟨hp, hm⟩ := hprob h1
      have hq : pl / 256 < 2 ^ 56 := by omega
      refine ⟨pl / 256, ?_, hq, fun h => absurd h h0, fun _ => ?_, hnone⟩
      · unfold distWord; rw [if_neg h0, if_pos h1, or_add _ _ hq]
      · rw [Nat.div_mul_cancel (Nat.dvd_of_mod_eq_zero hm)]; exact Nat.mod_eq_of_lt hp
    · refine ⟨0, ?_, by decide, fun h => absurd h h0, fun h => absurd h h1, hnone⟩
      unfold distWord; rw [if_neg h0, if_neg h1]; omega

theorem readDistAt_step {α : Type} (rest : Unit → Rd St α) (t0 p0 : Nat) (Ft : List Nat) (S : List SeedGroup) (L : List Leaf) (m : Nat)
    (tag pl : Nat) (h : DistCanon tag pl) (bs : Bytes) :
    (readDistAt 0 >>= rest) ⟨t0 :: p0 :: Ft, S, L, m⟩ (leBytes 8 (distWord tag pl) ++ bs) = rest () ⟨tag :: pl :: Ft, S, L, m⟩ bs := by
  obtain ⟨q, hw, hq, hfix, hprob, hnone⟩ := distWord_canon tag pl h
  have ht := h.1
  obtain ⟨w, hwd, hw64, g1, g2⟩ : ∃ w, distWord tag pl = w ∧ w < 2 ^ 64 ∧ w / 2 ^ 56 = tag ∧ w % 2 ^ 56 = q :=
    ⟨_, hw, by omega, by omega, by omega⟩
  rw [bind_apply, hwd]
  unfold readDistAt
  rw [readU64_le _ hw64, g1, g2]
  by_cases h0 : tag = 0 ∨ tag = 2 ∨ tag = 4
  · rw [if_pos h0, hfix h0, bind_apply]
    simp [setF]
  · by_cases h1 : tag = 1 ∨ tag = 3
    · rw [if_neg h0, if_pos h1, hprob h1, bind_apply]
      simp [setF]
    · have h5 : tag = 5 ∨ tag = 6 := by omega
      rw [if_neg h0, if_neg h1, if_pos h5, hnone h5, bind_apply]
      simp [setF]

theorem rGLWEPublicKey_rt (tag pl b t0 p0 b0 : Nat) (hd : DistCanon tag pl) (hb : b < 2 ^ 32) (x r : VecZnx) (h : VecRT x r) (p : Profile)
    (S S' : List SeedGroup) (m m' : Nat) (tail : Bytes) :
    ∃ bs, wGLWEPublicKey p ⟨[tag, pl, b], S, [.vec x], m⟩ origin = .ok bs ∧
      rGLWEPublicKey origin ⟨[t0, p0, b0], S', [.vec r], m'⟩ (bs ++ tail) = .ok () ⟨[tag, pl, b], S', [.vec (vecMerge x r)], m'⟩ tail := by
  obtain ⟨vb, hw, hr⟩ := readVecAt_rt x r h p [tag, pl, b] S' m' tail
  refine ⟨leBytes 8 (distWord tag pl) ++ (leBytes 4 b ++ vb), ?_, ?_⟩
  · simp [wGLWEPublicKey, wGLWE, wDist, wF, wLeaf, origin, hw, bind, Outcome.bind]; rfl
  · unfold rGLWEPublicKey rGLWE origin
    simp only [List.append_assoc]
    rw [readDistAt_step _ _ _ _ _ _ _ tag pl hd, setF_u32_step (0 + 2) b hb _ _ (by simp)]
    simpa using hr

/-! ### the uniform statement -/

inductive SeedKind where
  | none
  | one
  | many
inductive LeafKind where
  | vec
  | scalar
  | mat

/-- the wrapper fields fit their wire widths (`ws[i]` bytes; 0 = one of the two `Distribution` fields) -/
def FieldsFit (ws F : List Nat) : Prop :=
  F.length = ws.length ∧ ∀ i, i < ws.length → ws.getD i 0 ≠ 0 → F.getD i 0 < 256 ^ ws.getD i 0

def SeedsOK : SeedKind → St → St → Prop
  | .none, _, _ => True
  | .one, x, s => ∃ sd g0, x.seeds = [⟨1, sd⟩] ∧ sd.length = 32 ∧ s.seeds = [g0]
  | .many, x, s => ∃ c blk g0, x.seeds = [⟨c, blk⟩] ∧ blk.length = 32 * c ∧ c < 2 ^ 32 ∧ c * 32 ≤ s.mem ∧ s.seeds = [g0]

def LeafOK : LeafKind → St → St → Prop
  | .vec, x, s => ∃ lx ls, x.leaves = [.vec lx] ∧ s.leaves = [.vec ls] ∧ VecRT lx ls
  | .scalar, x, s => ∃ lx ls, x.leaves = [.scalar lx] ∧ s.leaves = [.scalar ls] ∧ ScalarRT lx ls
  | .mat, x, s => ∃ lx ls, x.leaves = [.mat lx] ∧ s.leaves = [.mat ls] ∧ MatRT lx ls

/-- the receiver's layout after the read: the source's dimensions and active bytes over the receiver's buffer -/
def mergedLeaves (x s : St) : List Leaf :=
  match x.leaves, s.leaves with
  | [.vec a], [.vec b] => [.vec (vecMerge a b)]
  | [.scalar a], [.scalar b] => [.scalar (scalarMerge a b)]
  | [.mat a], [.mat b] => [.mat (matMerge a b)]
  | _, _ => s.leaves

def seedsAfter : SeedKind → St → St → List SeedGroup
  | .none, _, s => s.seeds
  | _, x, _ => x.seeds

/-- `read (write x) = ok x`: for every admissible source `x` and same-shaped receiver `s` with capacity, the writer
succeeds (both profiles) and the reader, on the written bytes followed by any tail, returns `ok` with the source's
fields, seeds, dimensions and active bytes, leaving the tail unread -/
def RoundTrips (ws : List Nat) (sk : SeedKind) (lk : LeafKind) (pub : Bool) (r : Rd St Unit) (w : Profile → St → Outcome Bytes) : Prop :=
  ∀ (p : Profile) (x s : St) (tail : Bytes), FieldsFit ws x.fields → s.fields.length = x.fields.length →
    (pub = true → DistCanon (x.fields.getD 0 0) (x.fields.getD 1 0)) → SeedsOK sk x s → LeafOK lk x s →
    ∃ bs, w p x = .ok bs ∧ r s (bs ++ tail) = .ok () ⟨x.fields, seedsAfter sk x s, mergedLeaves x s, s.mem⟩ tail

/-! ### destructuring of `FieldsFit` -/

theorem fit1 {w0 : Nat} {F : List Nat} (h : FieldsFit [w0] F) : ∃ a, F = [a] ∧ (w0 ≠ 0 → a < 256 ^ w0) := by
  obtain ⟨hl, hb⟩ := h
  rcases F with _ | ⟨a, _ | ⟨x, F⟩⟩ <;> simp at hl
  exact ⟨a, rfl, fun h => by simpa using hb 0 (by simp) (by simpa using h)⟩

theorem fit2 {w0 w1 : Nat} {F : List Nat} (h : FieldsFit [w0, w1] F) : ∃ a b, F = [a, b] ∧ (w0 ≠ 0 → a < 256 ^ w0) ∧ (w1 ≠ 0 → b < 256 ^ w1) := by
  obtain ⟨hl, hb⟩ := h
  rcases F with _ | ⟨a, _ | ⟨b, _ | ⟨x, F⟩⟩⟩ <;> simp at hl
  exact ⟨a, b, rfl, fun h => by simpa using hb 0 (by simp) (by simpa using h), fun h => by simpa using hb 1 (by simp) (by simpa using h)⟩

theorem fit3 {w0 w1 w2 : Nat} {F : List Nat} (h : FieldsFit [w0, w1, w2] F) : ∃ a b c, F = [a, b, c] ∧ (w0 ≠ 0 → a < 256 ^ w0) ∧ (w1 ≠ 0 → b < 256 ^ w1) ∧ (w2 ≠ 0 → c < 256 ^ w2) := by
  obtain ⟨hl, hb⟩ := h
  rcases F with _ | ⟨a, _ | ⟨b, _ | ⟨c, _ | ⟨x, F⟩⟩⟩⟩ <;> simp at hl
  exact ⟨a, b, c, rfl, fun h => by simpa using hb 0 (by simp) (by simpa using h), fun h => by simpa using hb 1 (by simp) (by simpa using h), fun h => by simpa using hb 2 (by simp) (by simpa using h)⟩

theorem fit4 {w0 w1 w2 w3 : Nat} {F : List Nat} (h : FieldsFit [w0, w1, w2, w3] F) : ∃ a b c d, F = [a, b, c, d] ∧ (w0 ≠ 0 → a < 256 ^ w0) ∧ (w1 ≠ 0 → b < 256 ^ w1) ∧ (w2 ≠ 0 → c < 256 ^ w2) ∧ (w3 ≠ 0 → d < 256 ^ w3) := by
  obtain ⟨hl, hb⟩ := h
  rcases F with _ | ⟨a, _ | ⟨b, _ | ⟨c, _ | ⟨d, _ | ⟨x, F⟩⟩⟩⟩⟩ <;> simp at hl
  exact ⟨a, b, c, d, rfl, fun h => by simpa using hb 0 (by simp) (by simpa using h), fun h => by simpa using hb 1 (by simp) (by simpa using h), fun h => by simpa using hb 2 (by simp) (by simpa using h), fun h => by simpa using hb 3 (by simp) (by simpa using h)⟩

theorem fit5 {w0 w1 w2 w3 w4 : Nat} {F : List Nat} (h : FieldsFit [w0, w1, w2, w3, w4] F) : ∃ a b c d e, F = [a, b, c, d, e] ∧ (w0 ≠ 0 → a < 256 ^ w0) ∧ (w1 ≠ 0 → b < 256 ^ w1) ∧ (w2 ≠ 0 → c < 256 ^ w2) ∧ (w3 ≠ 0 → d < 256 ^ w3) ∧ (w4 ≠ 0 → e < 256 ^ w4) := by
  obtain ⟨hl, hb⟩ := h
  rcases F with _ | ⟨a, _ | ⟨b, _ | ⟨c, _ | ⟨d, _ | ⟨e, _ | ⟨x, F⟩⟩⟩⟩⟩⟩ <;> simp at hl
  exact ⟨a, b, c, d, e, rfl, fun h => by simpa using hb 0 (by simp) (by simpa using h), fun h => by simpa using hb 1 (by simp) (by simpa using h), fun h => by simpa using hb 2 (by simp) (by simpa using h), fun h => by simpa using hb 3 (by simp) (by simpa using h), fun h => by simpa using hb 4 (by simp) (by simpa using h)⟩

theorem fit6 {w0 w1 w2 w3 w4 w5 : Nat} {F : List Nat} (h : FieldsFit [w0, w1, w2, w3, w4, w5] F) : ∃ a b c d e f, F = [a, b, c, d, e, f] ∧ (w0 ≠ 0 → a < 256 ^ w0) ∧ (w1 ≠ 0 → b < 256 ^ w1) ∧ (w2 ≠ 0 → c < 256 ^ w2) ∧ (w3 ≠ 0 → d < 256 ^ w3) ∧ (w4 ≠ 0 → e < 256 ^ w4) ∧ (w5 ≠ 0 → f < 256 ^ w5) := by
  obtain ⟨hl, hb⟩ := h
  rcases F with _ | ⟨a, _ | ⟨b, _ | ⟨c, _ | ⟨d, _ | ⟨e, _ | ⟨f, _ | ⟨x, F⟩⟩⟩⟩⟩⟩⟩ <;> simp at hl
  exact ⟨a, b, c, d, e, f, rfl, fun h => by simpa using hb 0 (by simp) (by simpa using h), fun h => by simpa using hb 1 (by simp) (by simpa using h), fun h => by simpa using hb 2 (by simp) (by simpa using h), fun h => by simpa using hb 3 (by simp) (by simpa using h), fun h => by simpa using hb 4 (by simp) (by simpa using h), fun h => by simpa using hb 5 (by simp) (by simpa using h)⟩

/-! ### the twelve reader/writer pairs of the single-layout types -/

theorem rt_glwe : RoundTrips [4] .none .vec false (rGLWE origin) (fun p s => wGLWE p s origin) := by
  intro p x s tail hf hl _ _ hleaf
  obtain ⟨b, hF, hb⟩ := fit1 hf
  obtain ⟨lx, ls, hxl, hsl, hrt⟩ := hleaf
  obtain ⟨xF, xS, xL, xm⟩ := x
  obtain ⟨sF, sS, sL, sm⟩ := s
  simp only at hF hxl hsl hl
  subst hF hxl hsl
  rcases sF with _ | ⟨b0, _ | ⟨y, t⟩⟩ <;> simp at hl
  obtain ⟨bs, h1, h2⟩ := rGLWE_rt b b0 (by simpa using hb (by decide)) lx ls hrt p xS sS xm sm tail
  exact ⟨bs, h1, by simpa [seedsAfter, mergedLeaves] using h2⟩

theorem rt_vec : RoundTrips [] .none .vec false (readVecAt 0) (fun p s => wLeaf p s 0) := by
  intro p x s tail hf hl _ _ hleaf
  obtain ⟨lx, ls, hxl, hsl, hrt⟩ := hleaf
  obtain ⟨xF, xS, xL, xm⟩ := x
  obtain ⟨sF, sS, sL, sm⟩ := s
  have hxF : xF = [] := List.eq_nil_of_length_eq_zero hf.1
  simp only at hxl hsl hl
  subst hxF hxl hsl
  have hsF : sF = [] := List.eq_nil_of_length_eq_zero (by simpa using hl)
  subst hsF
  obtain ⟨bs, h1, h2⟩ := readVecAt_rt lx ls hrt p [] sS sm tail
  exact ⟨bs, by simpa [wLeaf] using h1, by simpa [seedsAfter, mergedLeaves] using h2⟩

theorem rt_scalar : RoundTrips [] .none .scalar false (readScalarAt 0) (fun p s => wLeaf p s 0) := by
  intro p x s tail hf hl _ _ hleaf
  obtain ⟨lx, ls, hxl, hsl, hrt⟩ := hleaf
  obtain ⟨xF, xS, xL, xm⟩ := x
  obtain ⟨sF, sS, sL, sm⟩ := s
  have hxF : xF = [] := List.eq_nil_of_length_eq_zero hf.1
  simp only at hxl hsl hl
  subst hxF hxl hsl
  have hsF : sF = [] := List.eq_nil_of_length_eq_zero (by simpa using hl)
  subst hsF
  obtain ⟨bs, h1, h2⟩ := readScalarAt_rt lx ls hrt p [] sS sm tail
  exact ⟨bs, by simpa [wLeaf] using h1, by simpa [seedsAfter, mergedLeaves] using h2⟩

theorem rt_mat : RoundTrips [] .none .mat false (readMatAt 0) (fun p s => wLeaf p s 0) := by
  intro p x s tail hf hl _ _ hleaf
  obtain ⟨lx, ls, hxl, hsl, hrt⟩ := hleaf
  obtain ⟨xF, xS, xL, xm⟩ := x
  obtain ⟨sF, sS, sL, sm⟩ := s
  have hxF : xF = [] := List.eq_nil_of_length_eq_zero hf.1
  simp only at hxl hsl hl
  subst hxF hxl hsl
  have hsF : sF = [] := List.eq_nil_of_length_eq_zero (by simpa using hl)
  subst hsF
  obtain ⟨bs, h1, h2⟩ := readMatAt_rt lx ls hrt p [] sS sm tail
  exact ⟨bs, by simpa [wLeaf] using h1, by simpa [seedsAfter, mergedLeaves] using h2⟩

theorem rt_gglwe : RoundTrips [4, 4] .none .mat false (rGGLWE origin) (fun p s => wGGLWE p s origin) := by
  intro p x s tail hf hl hdist hseed hleaf
  obtain ⟨a, b, hF, ha, hb⟩ := fit2 hf
  obtain ⟨lx, ls, hxl, hsl, hrt⟩ := hleaf
  obtain ⟨xF, xS, xL, xm⟩ := x
  obtain ⟨sF, sS, sL, sm⟩ := s
  simp only at hF hxl hsl hl
  subst hF hxl hsl
  rcases sF with _ | ⟨a0, _ | ⟨b0, _ | ⟨y, t⟩⟩⟩ <;> simp at hl
  obtain ⟨bs, h1, h2⟩ := rGGLWE_rt a b a0 b0 (by simpa using ha (by decide)) (by simpa using hb (by decide)) lx ls hrt p xS sS xm sm tail
  exact ⟨bs, h1, by simpa [seedsAfter, mergedLeaves] using h2⟩

theorem rt_switching : RoundTrips [4, 4, 4, 4] .none .mat false (rGLWESwitchingKey origin) (fun p s => wGLWESwitchingKey p s origin) := by
  intro p x s tail hf hl hdist hseed hleaf
  obtain ⟨a, b, c, d, hF, ha, hb, hc, hd⟩ := fit4 hf
  obtain ⟨lx, ls, hxl, hsl, hrt⟩ := hleaf
  obtain ⟨xF, xS, xL, xm⟩ := x
  obtain ⟨sF, sS, sL, sm⟩ := s
  simp only at hF hxl hsl hl
  subst hF hxl hsl
  rcases sF with _ | ⟨a0, _ | ⟨b0, _ | ⟨c0, _ | ⟨d0, _ | ⟨y, t⟩⟩⟩⟩⟩ <;> simp at hl
  obtain ⟨bs, h1, h2⟩ := rGLWESwitchingKey_rt a b c d a0 b0 c0 d0 (by simpa using ha (by decide)) (by simpa using hb (by decide)) (by simpa using hc (by decide)) (by simpa using hd (by decide)) lx ls hrt p xS sS xm sm tail
  exact ⟨bs, h1, by simpa [seedsAfter, mergedLeaves] using h2⟩

theorem rt_autokey : RoundTrips [8, 4, 4] .none .mat false (rGLWEAutomorphismKey origin) (fun p s => wGLWEAutomorphismKey p s origin) := by
  intro p x s tail hf hl hdist hseed hleaf
  obtain ⟨a, b, c, hF, ha, hb, hc⟩ := fit3 hf
  obtain ⟨lx, ls, hxl, hsl, hrt⟩ := hleaf
  obtain ⟨xF, xS, xL, xm⟩ := x
  obtain ⟨sF, sS, sL, sm⟩ := s
  simp only at hF hxl hsl hl
  subst hF hxl hsl
  rcases sF with _ | ⟨a0, _ | ⟨b0, _ | ⟨c0, _ | ⟨y, t⟩⟩⟩⟩ <;> simp at hl
  obtain ⟨bs, h1, h2⟩ := rGLWEAutomorphismKey_rt a b c a0 b0 c0 (by simpa using ha (by decide)) (by simpa using hb (by decide)) (by simpa using hc (by decide)) lx ls hrt p xS sS xm sm tail
  exact ⟨bs, h1, by simpa [seedsAfter, mergedLeaves] using h2⟩

theorem rt_pubkey : RoundTrips [0, 0, 4] .none .vec true (rGLWEPublicKey origin) (fun p s => wGLWEPublicKey p s origin) := by
  intro p x s tail hf hl hdist hseed hleaf
  obtain ⟨a, b, c, hF, ha, hb, hc⟩ := fit3 hf
  obtain ⟨lx, ls, hxl, hsl, hrt⟩ := hleaf
  obtain ⟨xF, xS, xL, xm⟩ := x
  obtain ⟨sF, sS, sL, sm⟩ := s
  simp only at hF hxl hsl hl
  subst hF hxl hsl
  rcases sF with _ | ⟨a0, _ | ⟨b0, _ | ⟨c0, _ | ⟨y, t⟩⟩⟩⟩ <;> simp at hl
  obtain ⟨bs, h1, h2⟩ := rGLWEPublicKey_rt a b c a0 b0 c0 (by simpa using hdist rfl) (by simpa using hc (by decide)) lx ls hrt p xS sS xm sm tail
  exact ⟨bs, h1, by simpa [seedsAfter, mergedLeaves] using h2⟩

theorem rt_glwe_c : RoundTrips [4, 4] .one .vec false (rGLWECompressed origin) (fun p s => wGLWECompressed p s origin) := by
  intro p x s tail hf hl hdist hseed hleaf
  obtain ⟨a, b, hF, ha, hb⟩ := fit2 hf
  obtain ⟨lx, ls, hxl, hsl, hrt⟩ := hleaf
  obtain ⟨xF, xS, xL, xm⟩ := x
  obtain ⟨sF, sS, sL, sm⟩ := s
  obtain ⟨sd, g0, hxs, hsd, hss⟩ := hseed
  simp only at hF hxl hsl hl hxs hss
  subst hF hxl hsl hxs hss
  rcases sF with _ | ⟨a0, _ | ⟨b0, _ | ⟨y, t⟩⟩⟩ <;> simp at hl
  obtain ⟨bs, h1, h2⟩ := rGLWECompressed_rt a b a0 b0 (by simpa using ha (by decide)) (by simpa using hb (by decide)) sd hsd g0 lx ls hrt p xm sm tail
  exact ⟨bs, h1, by simpa [seedsAfter, mergedLeaves] using h2⟩

theorem rt_gglwe_c : RoundTrips [4, 4, 4, 4] .many .mat false (rGGLWECompressed origin) (fun p s => wGGLWECompressed p s origin) := by
  intro p x s tail hf hl hdist hseed hleaf
  obtain ⟨f0, f1, f2, f3, hF, hf0, hf1, hf2, hf3⟩ := fit4 hf
  obtain ⟨lx, ls, hxl, hsl, hrt⟩ := hleaf
  obtain ⟨xF, xS, xL, xm⟩ := x
  obtain ⟨sF, sS, sL, sm⟩ := s
  obtain ⟨c, blk, g0, hxs, hblk, hc, hm, hss⟩ := hseed
  simp only at hF hxl hsl hl hxs hss hm
  subst hF hxl hsl hxs hss
  rcases sF with _ | ⟨e0, _ | ⟨e1, _ | ⟨e2, _ | ⟨e3, _ | ⟨y, t⟩⟩⟩⟩⟩ <;> simp at hl
  obtain ⟨bs, h1, h2⟩ := rGGLWECompressed_rt f0 f1 f2 f3 e0 e1 e2 e3 (by simpa using hf0 (by decide)) (by simpa using hf1 (by decide)) (by simpa using hf2 (by decide)) (by simpa using hf3 (by decide)) c blk hc hblk g0 lx ls hrt p xm sm hm tail
  exact ⟨bs, h1, by simpa [seedsAfter, mergedLeaves] using h2⟩

theorem rt_switching_c : RoundTrips [4, 4, 4, 4, 4, 4] .many .mat false (rGLWESwitchingKeyCompressed origin) (fun p s => wGLWESwitchingKeyCompressed p s origin) := by
  intro p x s tail hf hl hdist hseed hleaf
  obtain ⟨f0, f1, f2, f3, f4, f5, hF, hf0, hf1, hf2, hf3, hf4, hf5⟩ := fit6 hf
  obtain ⟨lx, ls, hxl, hsl, hrt⟩ := hleaf
  obtain ⟨xF, xS, xL, xm⟩ := x
  obtain ⟨sF, sS, sL, sm⟩ := s
  obtain ⟨c, blk, g0, hxs, hblk, hc, hm, hss⟩ := hseed
  simp only at hF hxl hsl hl hxs hss hm
  subst hF hxl hsl hxs hss
  rcases sF with _ | ⟨e0, _ | ⟨e1, _ | ⟨e2, _ | ⟨e3, _ | ⟨e4, _ | ⟨e5, _ | ⟨y, t⟩⟩⟩⟩⟩⟩⟩ <;> simp at hl
  obtain ⟨bs, h1, h2⟩ := rGLWESwitchingKeyCompressed_rt f0 f1 f2 f3 f4 f5 e0 e1 e2 e3 e4 e5 (by simpa using hf0 (by decide)) (by simpa using hf1 (by decide)) (by simpa using hf2 (by decide)) (by simpa using hf3 (by decide)) (by simpa using hf4 (by decide)) (by simpa using hf5 (by decide)) c blk hc hblk g0 lx ls hrt p xm sm hm tail
  exact ⟨bs, h1, by simpa [seedsAfter, mergedLeaves] using h2⟩

theorem rt_autokey_c : RoundTrips [8, 4, 4, 4, 4] .many .mat false (rGLWEAutomorphismKeyCompressed origin) (fun p s => wGLWEAutomorphismKeyCompressed p s origin) := by
  intro p x s tail hf hl hdist hseed hleaf
  obtain ⟨f0, f1, f2, f3, f4, hF, hf0, hf1, hf2, hf3, hf4⟩ := fit5 hf
  obtain ⟨lx, ls, hxl, hsl, hrt⟩ := hleaf
  obtain ⟨xF, xS, xL, xm⟩ := x
  obtain ⟨sF, sS, sL, sm⟩ := s
  obtain ⟨c, blk, g0, hxs, hblk, hc, hm, hss⟩ := hseed
  simp only at hF hxl hsl hl hxs hss hm
  subst hF hxl hsl hxs hss
  rcases sF with _ | ⟨e0, _ | ⟨e1, _ | ⟨e2, _ | ⟨e3, _ | ⟨e4, _ | ⟨y, t⟩⟩⟩⟩⟩⟩ <;> simp at hl
  obtain ⟨bs, h1, h2⟩ := rGLWEAutomorphismKeyCompressed_rt f0 f1 f2 f3 f4 e0 e1 e2 e3 e4 (by simpa using hf0 (by decide)) (by simpa using hf1 (by decide)) (by simpa using hf2 (by decide)) (by simpa using hf3 (by decide)) (by simpa using hf4 (by decide)) c blk hc hblk g0 lx ls hrt p xm sm hm tail
  exact ⟨bs, h1, by simpa [seedsAfter, mergedLeaves] using h2⟩

/-! ### descriptors of the single-layout types (what the uniform statement is instantiated with) -/

/-- wire widths (bytes) of the wrapper fields in reader order; 0 marks the two `Distribution` fields -/
def hdrWidths : String → List Nat
  | "glwe" | "lwe" => [4]
  | "gglwe" | "ggsw" | "glwe_tensor_key" => [4, 4]
  | "glwe_switching_key" | "lwe_switching_key" | "lwe_to_glwe_key" | "glwe_to_lwe_key" => [4, 4, 4, 4]
  | "glwe_automorphism_key" => [8, 4, 4]
  | "glwe_public_key" => [0, 0, 4]
  | "glwe_compressed" | "lwe_compressed" => [4, 4]
  | "gglwe_compressed" | "ggsw_compressed" | "glwe_tensor_key_compressed" => [4, 4, 4, 4]
  | "glwe_switching_key_compressed" | "lwe_switching_key_compressed" | "lwe_to_glwe_key_compressed"
  | "glwe_to_lwe_key_compressed" => [4, 4, 4, 4, 4, 4]
  | "glwe_automorphism_key_compressed" => [8, 4, 4, 4, 4]
  | _ => []

def seedKind : String → SeedKind
  | "glwe_compressed" | "lwe_compressed" => .one
  | "gglwe_compressed" | "ggsw_compressed" | "glwe_tensor_key_compressed" | "glwe_switching_key_compressed"
  | "lwe_switching_key_compressed" | "lwe_to_glwe_key_compressed" | "glwe_to_lwe_key_compressed"
  | "glwe_automorphism_key_compressed" => .many
  | _ => .none

def leafKind : String → LeafKind
  | "vec" | "glwe" | "lwe" | "glwe_public_key" | "glwe_compressed" | "lwe_compressed" => .vec
  | "scalar" => .scalar
  | _ => .mat

def isPub (ty : String) : Bool := ty == "glwe_public_key"

end Ser
