import Poulpy.Lemmas.KsDecrypt
import Poulpy.Lemmas.AutoMul
import Poulpy.Lemmas.KsCompose

/-!
# End-to-end decryption theorems of the executed GLWE automorphisms `Ks.automorphism` and `Ks.automorphismFused`

`Ks.automorphism` = `Ks.keyswitch` with the automorphism key of `g = key.p` (which switches from `sk` to `σ_{g⁻¹}(sk)`), then the `i64`
kernel `vec_znx_automorphism_assign(g)` on every column; `Ks.automorphismFused f` = `convIn` ∘ `keyswitchInternal` ∘ per column
(`vec_znx_big_automorphism_assign(g)`, `vec_znx_big_{add,sub,sub_negate}_small_assign` of the converted input, `vec_znx_big_normalize`).

* `σ_mem`, `σ_bound`, `normInf_σ_le` — `σ_g` permutes the coefficients up to sign, so `‖σ_g e‖∞ ≤ ‖e‖∞`;
* `gal`, `ι_σ`, `ι_valP_map_σ`, `ι_valP_phase_σ` — under `ι : Poly → R N`, `σ_g` is the ring endomorphism `galHom`; the value of the phase of
  a ciphertext whose limbs all went through `σ_g`, under `sk = σ_g(sk')`, is the Galois image of the value of the phase under `sk'`;
* `keyswitch_digits` — the result digits of the executed key switch are `≤ 2^bout − 1`, hence the `i64` automorphism kernel is exact;
* **`glwe_automorphism_decrypts`**, `glwe_automorphism_assign_decrypts`;
* `bigAuto_exact`, `fusedApply_exact` (no wrap of the accumulator automorphism / add / sub / sub-negate, both accumulator widths),
  `ι_valP_phase_fused`, `ι_valP_phase_fit`;
* **`glwe_automorphism_fused_decrypts`** (the three forms at once, signs `sgA f`, `sgB f`), its instances
  `glwe_automorphism_{add,sub,sub_negate}_decrypts` and the in-place `glwe_automorphism_fused_assign_decrypts`;
* `automorphism_cols_phase` — the concrete `hsig` of the contract theorem `Ks.automorphism_phase_err`;
* closed instances: `N = 1, g = 1` and `N = 2, g = 3 ≡ −1`, both accumulator widths, the three fused forms.
-/

namespace KsDec
open Hal Core Core.Ops C02L AutoMul

/-! ### `σ_g` permutes the coefficients up to sign -/

/-- every coefficient of `σ_g a` is `±` a coefficient of `a` -/
theorem σ_mem (g : Int) (a : Poly) (hn : 0 < a.length) (hg : GalOk g a.length) :
    ∀ x ∈ σ g a, ∃ y ∈ a, x = y ∨ x = -y := by
  intro x hx
  obtain ⟨j, hj, rfl⟩ := List.getElem_of_mem hx
  have hl : (σ g a).length = a.length := σ_length g a
  obtain ⟨A, B, hAB⟩ := galOk_bezout hn hg
  have e : (j : Int) = ((j : Int) * A) * g + 2 * (a.length : Int) * ((j : Int) * B) := by
    have : (j : Int) = (j : Int) * (g * A + 2 * (a.length : Int) * B) := by rw [hAB]; ring
    conv_lhs => rw [this]
    ring
  have h1 : (σ g a)[j] = coeffZ id (σ g a) (j : Int) := by
    rw [coeffZ_of_lt id _ j hj]
    simp [List.getD_eq_getElem?_getD, List.getElem?_eq_getElem hj]
  have h2 : coeffZ id (σ g a) (j : Int) = coeffZ id (σ g a) (((j : Int) * A) * g) :=
    coeffZ_congr id _ _ _ (by rw [hl]; conv_lhs => rw [e]; rw [Int.add_mul_emod_self_left])
  rw [h1, h2, σ_coeffZ g a hn hg]
  unfold coeffZ
  have hs0 : 0 ≤ ((j : Int) * A) % (2 * (a.length : Int)) := Int.emod_nonneg _ (by omega)
  have hs1 : ((j : Int) * A) % (2 * (a.length : Int)) < 2 * (a.length : Int) := Int.emod_lt_of_pos _ (by omega)
  generalize ((j : Int) * A) % (2 * (a.length : Int)) = s at hs0 hs1
  simp only [id]
  split
  next h =>
    refine ⟨_, ?_, Or.inl rfl⟩
    rw [List.getD_eq_getElem?_getD, List.getElem?_eq_getElem h]
    exact List.getElem_mem h
  next h =>
    have h' : s.toNat - a.length < a.length := by omega
    refine ⟨_, ?_, Or.inr rfl⟩
    rw [List.getD_eq_getElem?_getD, List.getElem?_eq_getElem h']
    exact List.getElem_mem h'

/-- a uniform bound on the coefficients is preserved by `σ_g` -/
theorem σ_bound (g : Int) (a : Poly) (hn : 0 < a.length) (hg : GalOk g a.length) (B : Int) (h : ∀ x ∈ a, |x| ≤ B) :
    ∀ x ∈ σ g a, |x| ≤ B := by
  intro x hx
  obtain ⟨y, hy, e | e⟩ := σ_mem g a hn hg x hx
  · rw [e]; exact h y hy
  · rw [e, abs_neg]; exact h y hy

/-- **`‖σ_g e‖∞ ≤ ‖e‖∞`** -/
theorem normInf_σ_le (g : Int) (a : Poly) (hn : 0 < a.length) (hg : GalOk g a.length) : normInf (σ g a) ≤ normInf a :=
  normInf_le_of_forall (σ_bound g a hn hg _ (fun _ hx => abs_le_normInf hx)) (normInf_nonneg a)

/-! ### `σ_g` under `ι` is the ring endomorphism `galHom` -/

/-- the Galois endomorphism of `R N` attached to an admissible `g` -/
noncomputable abbrev gal (N : Nat) (g : Int) (hN : 0 < N) (hg : GalOk g N) : Ks.R N →+* Ks.R N :=
  galHom N (g % (2 * (N : Int))).toNat (galOk_odd hN hg)

theorem ι_σ (N : Nat) (g : Int) (hN : 0 < N) (hg : GalOk g N) (p : Poly) (hp : p.length = N) :
    Ks.ι N (σ g p) = gal N g hN hg (Ks.ι N p) :=
  mk_auto N g p hp hN hg

theorem gal_two_pow (N : Nat) (g : Int) (hN : 0 < N) (hg : GalOk g N) (k : Nat) :
    gal N g hN hg ((2 : Ks.R N) ^ k) = (2 : Ks.R N) ^ k := by
  rw [map_pow, map_ofNat]

/-- the value of a column whose limbs went through `σ_g` -/
theorem ι_valP_map_σ (N : Nat) (g : Int) (hN : 0 < N) (hg : GalOk g N) (b : Nat) (c : Col) (hc : LimbsN N c) :
    Ks.ι N (valP b N (c.map (σ g))) = gal N g hN hg (Ks.ι N (valP b N c)) := by
  have hc' : LimbsN N (c.map (σ g)) := by
    intro l hl
    obtain ⟨l0, h0, rfl⟩ := List.mem_map.mp hl
    rw [σ_length]; exact hc l0 h0
  rw [Core.ι_valP N b _ hc', Core.ι_valP N b c hc, map_sum, List.length_map]
  apply Finset.sum_congr rfl
  intro k hk
  have hk' : k < c.length := Finset.mem_range.mp hk
  rw [map_mul, map_pow, gal_two_pow]
  congr 1
  have e1 : limbOr0 N (c.map (σ g)) k = σ g (c[k]) := by
    simp [limbOr0, List.getD_eq_getElem?_getD, List.getElem?_eq_getElem hk']
  have e2 : limbOr0 N c k = c[k] := by
    simp [limbOr0, List.getD_eq_getElem?_getD, List.getElem?_eq_getElem hk']
  rw [e1, e2, ι_σ N g hN hg _ (hc _ (List.getElem_mem hk'))]

theorem getD_map_col (cols : List Col) (f : Col → Col) (hf : f [] = []) (i : Nat) :
    (cols.map f).getD i [] = f (cols.getD i []) := by
  simp only [List.getD_eq_getElem?_getD, List.getElem?_map]
  cases cols[i]? with
  | none => exact hf.symm
  | some c => rfl

/-- **`σ_g` on every limb of every column**: the phase under `sk = σ_g(sk')` is the Galois image of the phase under `sk'` -/
theorem ι_valP_phase_σ (N : Nat) (g : Int) (hN : 0 < N) (hg : GalOk g N) (b S : Nat) (sk sk' : List Poly) (cols : List Col)
    (hne : cols ≠ []) (hwf : ∀ c ∈ cols, ColWF N S c) (hlen : sk.length = sk'.length) (hsk' : Ks.AllLen N sk')
    (hsk : ∀ i, i < sk'.length → sk.getD i [] = σ g (sk'.getD i [])) :
    Ks.ι N (valP b N (phase sk (Ks.mkCt b N (cols.map (fun c => c.map (σ g))))))
      = gal N g hN hg (Ks.ι N (valP b N (phase sk' (Ks.mkCt b N cols)))) := by
  have hwf' : ∀ c ∈ cols.map (fun c => c.map (σ g)), ColWF N S c := by
    intro c hc
    obtain ⟨c0, h0, rfl⟩ := List.mem_map.mp hc
    refine ⟨by rw [List.length_map]; exact (hwf c0 h0).1, ?_⟩
    intro l hl
    obtain ⟨l0, hl0, rfl⟩ := List.mem_map.mp hl
    rw [σ_length]; exact (hwf c0 h0).2 l0 hl0
  have hne' : cols.map (fun c => c.map (σ g)) ≠ [] := by simpa using hne
  have hlimbs : ∀ i, LimbsN N (cols.getD i []) := by
    intro i l hl
    by_cases hi : i < cols.length
    · rw [List.getD_eq_getElem?_getD, List.getElem?_eq_getElem hi] at hl
      exact (hwf _ (List.getElem_mem hi)).2 l hl
    · rw [List.getD_eq_getElem?_getD, List.getElem?_eq_none (by omega)] at hl
      simp at hl
  rw [Core.ι_valP_phase_cols N hN b S sk _ hne' hwf', Core.ι_valP_phase_cols N hN b S sk' _ hne hwf, map_add, map_sum,
    List.length_map, hlen, getD_map_col _ _ rfl, ι_valP_map_σ N g hN hg b _ (hlimbs 0)]
  congr 1
  apply Finset.sum_congr rfl
  intro i hi
  have hi' : i < sk'.length := by have := Finset.mem_range.mp hi; omega
  have hmem : sk'.getD i [] ∈ sk' := by
    rw [List.getD_eq_getElem?_getD, List.getElem?_eq_getElem hi']; exact List.getElem_mem hi'
  rw [map_mul, getD_map_col _ _ rfl, ι_valP_map_σ N g hN hg b _ (hlimbs (i + 1)), hsk i hi', ι_σ N g hN hg _ (hsk' _ hmem)]

theorem dropL_length (N : Nat) (b : Nat) (sk : List Poly) (aB : Buf) (key : Ks.Key) (hc0 : 0 < key.mat.colsOut)
    (hM : ∀ j q, (key.mat.entry j q).length = N) : (Ks.dropL N b sk aB key).length = N := by
  unfold Ks.dropL
  apply Ks.sumPolys_range_length
  intro i _
  apply Ks.sumPolys_range_length
  intro di _
  apply Ks.sumPolys_range_length
  intro r _
  apply Ks.sumPolys_range_length
  intro l _
  exact Ks.dropTermL_length N _ sk _ key i di r l hc0 hM

theorem ksErr_length (N : Nat) (c1 c2 c3 : ℤ) (E1 G D E3 : Poly) (h1 : E1.length = N) (h2 : G.length = N) (h3 : D.length = N)
    (h4 : E3.length = N) : (ksErr c1 c2 c3 E1 G D E3).length = N := by
  simp [ksErr, h1, h2, h3, h4]

/-- the digits of the result of the executed key switch are `≤ 2^bout − 1` (same hypotheses as `glwe_keyswitch_value`) -/
theorem keyswitch_digits (big128 : Bool) (N bout sout rout : Nat) (a : Ks.Ct) (key : Ks.Key) (sIn skOut : List Poly)
    (EL KL : ℕ → ℕ → Poly) (Hin Hp : Int)
    (hN : 0 < N) (ha : GWF N a) (hrank : a.rank = key.rankIn) (hrout : rout = key.rankOut) (hc0 : 0 < key.mat.colsOut)
    (hD : 1 ≤ key.dsize) (hM : ∀ j q, (key.mat.entry j q).length = N) (hS : key.mat.rows * key.dsize ≤ key.mat.size)
    (hbi1 : 1 ≤ a.base2k) (hbi : a.base2k ≤ 62) (hbk1 : 1 ≤ key.base2k) (hbk : key.base2k ≤ 62) (hbo1 : 1 ≤ bout) (hbo : bout ≤ 62)
    (hIn0 : 0 ≤ Hin) (hIn : Hin + 8 ≤ 2 ^ 62) (hInB : ∀ c ∈ a.cols, ∀ l ∈ c, ∀ x ∈ l, |x| ≤ Hin)
    (hHp0 : 0 ≤ Hp) (hAcc : Hp + (Hin + 2 ^ key.base2k) + 8 ≤ 2 ^ (bitsOf big128 - 2))
    (hprod : ∀ aConv, Ks.convIn a key = .ok aConv → ∀ i, i < rout + 1 → ∀ l ∈ (prodOf rout aConv key).act i, ∀ x ∈ l, |x| ≤ Hp)
    (hEL : ∀ i r, (EL i r).length = N) (hKL : ∀ i r, (KL i r).length = N)
    (hkey : ∀ i, i < key.mat.colsIn → ∀ r, r < key.mat.rows →
      Gadget.val (Ks.radix N key.base2k) key.mat.size (Ks.keyPhase N skOut key.mat i r) =
        Ks.ι N (sIn.getD i []) * Ks.radix N key.base2k ^ (key.mat.size - (r + 1) * key.dsize) + Ks.ι N (EL i r)
          + Ks.radix N key.base2k ^ key.mat.size * Ks.ι N (KL i r)) :
    ∀ res, Ks.keyswitch big128 bout sout rout a key = .ok res → ∀ c ∈ res.cols, ∀ l ∈ c, ∀ x ∈ l, |x| ≤ 2 ^ bout - 1 := by
  intro res hres
  have hrank' : a.rank = key.mat.colsIn := hrank
  have hrout' : rout + 1 = key.mat.colsOut := by rw [hrout]; unfold Ks.Key.rankOut; omega
  have hpk : (0 : Int) < 2 ^ key.base2k := by positivity
  obtain ⟨aConv, hconv, gwC, hbC, hrC, hsC, hdigC, hph1⟩ := convIn_phase N a key Hin ha hbi1 hbi hbk1 hbk hIn0 hIn hInB
  have hbodymem : aConv.cols.getD 0 [] ∈ aConv.cols := col_mem 0 (by rw [gwC.len]; omega)
  have hHadd : Hp + (Hin + 2 ^ key.base2k) < 2 ^ (bitsOf big128 - 1) := by
    have h2 : (2 : Int) ^ (bitsOf big128 - 2) ≤ 2 ^ (bitsOf big128 - 1) :=
      pow_le_pow_right₀ (by norm_num) (by omega)
    linarith
  obtain ⟨resBig, hks, hbn, hwfacc, hbacc, hval⟩ := keyswitchInternal_value big128 N rout aConv key sIn skOut EL KL Hp (Hin + 2 ^ key.base2k)
    hN gwC hbC (hrC.trans hrank') hrout' hD hM hS hEL hKL hkey (by linarith) hHadd (hprod aConv hconv) (hdigC _ hbodymem)
  have hne : accCols rout resBig ≠ [] := by
    intro h; have := congrArg List.length h; simp [accCols] at this
  obtain ⟨cs, hok, hlen, hcwf, hdig, _⟩ := norm_stage big128 N bout sout key.base2k key.mat.size (Hp + (Hin + 2 ^ key.base2k))
    (accCols rout resBig) hbo1 hbo hbk1 hbk (by linarith) hAcc hne hwfacc hbacc
  have hno : Ks.normOut big128 bout sout rout resBig key = .ok (Ks.mkCt bout N cs) := by
    unfold Ks.normOut
    have e : (List.range (rout + 1)).map (fun i => Ks.bigNormalize big128 bout sout (resBig.act i) key.base2k resBig.n)
        = (accCols rout resBig).map (fun c => Ks.bigNormalize big128 bout sout c key.base2k N) := by
      unfold accCols; rw [List.map_map, hbn]; rfl
    rw [e, hok, hbn]
    rfl
  have hok2 : Ks.keyswitch big128 bout sout rout a key = .ok (Ks.mkCt bout N cs) := by
    unfold Ks.keyswitch
    rw [if_neg (by simpa using hrank), if_neg (by simpa using hrout)]
    have hnn : a.n = aConv.n := by rw [ha.1, gwC.1]
    simp only [hconv, Ks.obind, hnn, hks, hno]
  rw [hok2] at hres
  injection hres with hres
  subst hres
  exact hdig

/-! ### `glwe_automorphism`, end to end -/

/-- the secret an automorphism key of `g` switches to: `σ_{g⁻¹}(s)`; `σ_g` of it is `s` again -/
theorem secret_roundtrip (g gInv : Int) (sk : List Poly) (hinv : ∀ s ∈ sk, σ g (σ gInv s) = s) :
    ∀ i, i < (sk.map (σ gInv)).length → sk.getD i [] = σ g ((sk.map (σ gInv)).getD i []) := by
  intro i hi
  have hi' : i < sk.length := by simpa using hi
  simp only [List.getD_eq_getElem?_getD, List.getElem?_map, List.getElem?_eq_getElem hi', Option.map_some, Option.getD_some]
  exact (hinv _ (List.getElem_mem hi')).symm

/-- **`glwe_automorphism_decrypts`** — END-TO-END theorem of the executed `Ks.automorphism` (`glwe_automorphism`: `glwe_keyswitch` with the
automorphism key of `g = key.p`, then `vec_znx_automorphism_assign(g)` — the `i64` kernel — on every column of the result), all shapes of
`glwe_keyswitch_decrypts` (covered regime).  The key switches from `sk` to `σ_{g⁻¹}(sk)` (hypothesis `hkey`, the key relation under
`skOut = sk.map (σ gInv)`), `hinv` is `σ_g ∘ σ_{g⁻¹} = id` on the secret (`C03.autokey_secret_roundtrip`), `g` is admissible
(`GalOk g N`: any odd `g` when `N = 2^k`, `galOk_pow2`).  The `i64` automorphism kernel is exact on the result because its digits are
`≤ 2^bout − 1 < 2^63` (`keyswitch_digits`).

Conclusion: the call returns a well-formed `res` and, in `R N`,
`2^(b_in·s_a + b_key·S)·val(phase_sk res) = 2^(b_out·s_out + b_key·S)·σ_g(val(phase_sk a)) + σ_g(Err) + 2^(…)·Q` with `Err` the key-switch
error list of `glwe_keyswitch_decrypts`, and `‖σ_g(Err)‖∞ ≤` the same four-term bound (`normInf_σ_le`). -/
theorem glwe_automorphism_decrypts (big128 : Bool) (N bout sout rout : Nat) (a : Ks.Ct) (key : Ks.Key) (sk : List Poly) (gInv : Int)
    (EL KL : ℕ → ℕ → Poly) (Hin Hp : Int)
    (hN : 0 < N) (hg : GalOk key.p N) (hsk : Ks.AllLen N sk) (hinv : ∀ s ∈ sk, σ key.p (σ gInv s) = s)
    (ha : GWF N a) (hrank : a.rank = key.rankIn) (hrout : rout = key.rankOut) (hc0 : 0 < key.mat.colsOut)
    (hD : 1 ≤ key.dsize) (hM : ∀ j q, (key.mat.entry j q).length = N) (hS : key.mat.rows * key.dsize ≤ key.mat.size)
    (hbi1 : 1 ≤ a.base2k) (hbi : a.base2k ≤ 62) (hbk1 : 1 ≤ key.base2k) (hbk : key.base2k ≤ 62) (hbo1 : 1 ≤ bout) (hbo : bout ≤ 62)
    (hIn0 : 0 ≤ Hin) (hIn : Hin + 8 ≤ 2 ^ 62) (hInB : ∀ c ∈ a.cols, ∀ l ∈ c, ∀ x ∈ l, |x| ≤ Hin)
    (hHp0 : 0 ≤ Hp) (hAcc : Hp + (Hin + 2 ^ key.base2k) + 8 ≤ 2 ^ (bitsOf big128 - 2))
    (hprod : ∀ aConv, Ks.convIn a key = .ok aConv → ∀ i, i < rout + 1 → ∀ l ∈ (prodOf rout aConv key).act i, ∀ x ∈ l, |x| ≤ Hp)
    (hs : key.mat.colsIn ≤ sk.length)
    (hEL : ∀ i r, (EL i r).length = N) (hKL : ∀ i r, (KL i r).length = N)
    (hkey : ∀ i, i < key.mat.colsIn → ∀ r, r < key.mat.rows →
      Gadget.val (Ks.radix N key.base2k) key.mat.size (Ks.keyPhase N (sk.map (σ gInv)) key.mat i r) =
        Ks.ι N (sk.getD i []) * Ks.radix N key.base2k ^ (key.mat.size - (r + 1) * key.dsize) + Ks.ι N (EL i r)
          + Ks.radix N key.base2k ^ key.mat.size * Ks.ι N (KL i r))
    (hcov1 : convSize a key ≤ key.mat.size) (hcov2 : convSize a key ≤ key.mat.rows * key.dsize) :
    ∃ res aConv, Ks.automorphism big128 bout sout rout a key = .ok res ∧ Ks.convIn a key = .ok aConv ∧
      GWF N res ∧ res.base2k = bout ∧ res.size = sout ∧ res.rank = rout ∧
      ∃ (E1 E3 : Poly) (Q : Ks.R N), E1.length = N ∧ E3.length = N ∧
        normInf E1 ≤ (1 + snorm (min a.rank sk.length) sk) * C02.normTol (key.base2k * convSize a key) (a.base2k * a.size) ∧
        normInf E3 ≤ (1 + snorm (min rout (sk.map (σ gInv)).length) (sk.map (σ gInv))) *
          C02.normTol (bout * sout) (key.base2k * key.mat.size) ∧
        (2 : Ks.R N) ^ (a.base2k * a.size + key.base2k * key.mat.size) * Ks.ι N (valP bout N (phase sk res))
          = (2 : Ks.R N) ^ (bout * sout + key.base2k * key.mat.size) * Ks.ι N (σ key.p (valP a.base2k N (phase sk a)))
            + Ks.ι N (σ key.p (ksErr (2 ^ (bout * sout + key.base2k * (key.mat.size - convSize a key))) (2 ^ (a.base2k * a.size + bout * sout))
                (2 ^ (a.base2k * a.size)) E1 (Ks.errL N key.base2k (aDftOf aConv) key EL)
                (Ks.dropL N key.base2k (sk.map (σ gInv)) (aDftOf aConv) key) E3))
            + (2 : Ks.R N) ^ (a.base2k * a.size + bout * sout + key.base2k * key.mat.size) * Q ∧
        normInf (σ key.p (ksErr (2 ^ (bout * sout + key.base2k * (key.mat.size - convSize a key))) (2 ^ (a.base2k * a.size + bout * sout))
                (2 ^ (a.base2k * a.size)) E1 (Ks.errL N key.base2k (aDftOf aConv) key EL)
                (Ks.dropL N key.base2k (sk.map (σ gInv)) (aDftOf aConv) key) E3))
          ≤ 2 ^ (bout * sout + key.base2k * (key.mat.size - convSize a key)) *
              ((1 + snorm (min a.rank sk.length) sk) * C02.normTol (key.base2k * convSize a key) (a.base2k * a.size))
            + 2 ^ (a.base2k * a.size + bout * sout) * gadgetBound N key.base2k (aDftOf aConv) key EL
            + 2 ^ (a.base2k * a.size + bout * sout) * dropBound N key.base2k (sk.map (σ gInv)) (aDftOf aConv) key
            + 2 ^ (a.base2k * a.size) *
              ((1 + snorm (min rout (sk.map (σ gInv)).length) (sk.map (σ gInv))) *
                C02.normTol (bout * sout) (key.base2k * key.mat.size)) := by
  obtain ⟨r, aConv, hok, hconv, gwR, hbR, hsR, hrR, E1, E3, Q, hE1, hE3, hn1, hn3, hmain, hbound⟩ :=
    glwe_keyswitch_decrypts big128 N bout sout rout a key sk (sk.map (σ gInv)) EL KL Hin Hp hN ha hrank hrout hc0 hD hM hS hbi1 hbi hbk1 hbk
      hbo1 hbo hIn0 hIn hInB hHp0 hAcc hprod hs hEL hKL hkey hcov1 hcov2
  have hdig := keyswitch_digits big128 N bout sout rout a key sk (sk.map (σ gInv)) EL KL Hin Hp hN ha hrank hrout hc0 hD hM hS hbi1 hbi
    hbk1 hbk hbo1 hbo hIn0 hIn hInB hHp0 hAcc hprod hEL hKL hkey r hok
  -- the `i64` kernel is the exact `σ_g` on the result
  have hcolsσ : r.cols.map (vecAutomorphismAssignW w64 key.p) = r.cols.map (fun c => c.map (σ key.p)) := by
    apply List.map_congr_left
    intro c hc
    unfold vecAutomorphismAssignW
    apply List.map_congr_left
    intro l hl
    apply auto_w64_eq_id
    intro x hx
    have h1 := abs_le.mp (hdig c hc l hl x hx)
    have h2 : (2 : Int) ^ bout ≤ 2 ^ 62 := pow_le_pow_right₀ (by norm_num) hbo
    constructor <;> linarith
  have hwfσ : ∀ c ∈ r.cols.map (fun c => c.map (σ key.p)), ColWF N sout c := by
    intro c hc
    obtain ⟨c0, h0, rfl⟩ := List.mem_map.mp hc
    have := gwR.2.2 c0 h0
    rw [hsR] at this
    refine ⟨by rw [List.length_map]; exact this.1, ?_⟩
    intro l hl
    obtain ⟨l0, hl0, rfl⟩ := List.mem_map.mp hl
    rw [σ_length]; exact this.2 l0 hl0
  have hneσ : r.cols.map (fun c => c.map (σ key.p)) ≠ [] := by simpa using gwR.2.1
  obtain ⟨gwσ, szσ⟩ := gwf_mk (N := N) bout sout _ hneσ hwfσ
  have hres : Ks.automorphism big128 bout sout rout a key = .ok (Ks.ctMapCols r (vecAutomorphismAssignW w64 key.p)) := by
    unfold Ks.automorphism
    rw [hok]
    rfl
  have hcols : (Ks.ctMapCols r (vecAutomorphismAssignW w64 key.p)).cols = r.cols.map (fun c => c.map (σ key.p)) := hcolsσ
  have hsz : (Ks.ctMapCols r (vecAutomorphismAssignW w64 key.p)).size = sout := by
    unfold GLWE.size; rw [hcols]; exact szσ
  have hgw : GWF N (Ks.ctMapCols r (vecAutomorphismAssignW w64 key.p)) := by
    refine ⟨gwR.1, by rw [hcols]; exact hneσ, ?_⟩
    rw [hsz, hcols]
    exact hwfσ
  have hrk : (Ks.ctMapCols r (vecAutomorphismAssignW w64 key.p)).rank = rout := by
    unfold GLWE.rank; rw [hcols, List.length_map]; exact hrR
  have hph : phase sk (Ks.ctMapCols r (vecAutomorphismAssignW w64 key.p))
      = phase sk (Ks.mkCt bout N (r.cols.map (fun c => c.map (σ key.p)))) := by
    rw [← hcols]; rfl
  have hph' : phase (sk.map (σ gInv)) r = phase (sk.map (σ gInv)) (Ks.mkCt bout N r.cols) := rfl
  have hwfr : ∀ c ∈ r.cols, ColWF N sout c := by
    intro c hc; have := gwR.2.2 c hc; rwa [hsR] at this
  have hσph := ι_valP_phase_σ N key.p hN hg bout sout sk (sk.map (σ gInv)) r.cols gwR.2.1 hwfr (by simp)
    (allLen_map_σ gInv sk hsk) (secret_roundtrip key.p gInv sk hinv)
  obtain ⟨_, _, _, _, _, dA⟩ := aDft_spec aConv (by
    obtain ⟨aC, h1, g1, _⟩ := convIn_phase N a key Hin ha hbi1 hbi hbk1 hbk hIn0 hIn hInB
    rw [hconv] at h1; injection h1 with h1; rw [h1]; exact g1)
  have hGl : (Ks.errL N key.base2k (aDftOf aConv) key EL).length = N := Ks.errL_length N _ _ _ EL hEL
  have hDl := dropL_length N key.base2k (sk.map (σ gInv)) (aDftOf aConv) key hc0 hM
  have hErrl := ksErr_length N (2 ^ (bout * sout + key.base2k * (key.mat.size - convSize a key))) (2 ^ (a.base2k * a.size + bout * sout))
    (2 ^ (a.base2k * a.size)) E1 _ _ E3 hE1 hGl hDl hE3
  refine ⟨_, aConv, hres, hconv, hgw, hbR, hsz, hrk, E1, E3, gal N key.p hN hg Q, hE1, hE3, hn1, hn3, ?_, ?_⟩
  · have h := congrArg (gal N key.p hN hg) hmain
    rw [map_add, map_add, map_mul, map_mul, map_mul, gal_two_pow, gal_two_pow, gal_two_pow, hph', ← hσph,
      ← ι_σ N key.p hN hg _ (by simp), ← ι_σ N key.p hN hg _ hErrl, ← hph] at h
    exact h
  · exact le_trans (normInf_σ_le key.p _ (by rw [hErrl]; exact hN) (by rw [hErrl]; exact hg)) hbound

/-! ### the fused forms: exactness of the accumulator pipeline under head-room -/

/-- sign of the automorphed accumulator in the fused form -/
def sgA : Ks.Fused → ℤ
  | .add => 1 | .sub => 1 | .subNegate => -1
/-- sign of the (converted) input in the fused form -/
def sgB : Ks.Fused → ℤ
  | .add => 1 | .sub => -1 | .subNegate => 1

/-- the exact limb operation of the fused form: `x + y`, `x − y`, `y − x` -/
def fusedPoly : Ks.Fused → Poly → Poly → Poly
  | .add => polyAdd
  | .sub => polySub
  | .subNegate => fun x y => polySub y x

theorem polySub_add_scale (x y : Poly) : polySub x y = polyAdd x (polyScale (-1) y) := by
  unfold polySub polyAdd polyScale
  rw [List.zipWith_map_right]
  congr 1
  funext a b
  omega

theorem fusedPoly_length (f : Ks.Fused) (x y : Poly) : (fusedPoly f x y).length = min x.length y.length := by
  cases f <;> simp [fusedPoly, polySub, polyAdd, Nat.min_comm]

theorem ι_fusedPoly (N : Nat) (f : Ks.Fused) (x y : Poly) (h : x.length = y.length) :
    Ks.ι N (fusedPoly f x y) = (sgA f : Ks.R N) * Ks.ι N x + (sgB f : Ks.R N) * Ks.ι N y := by
  cases f
  · show Ks.ι N (polyAdd x y) = _
    rw [Ks.ι_add N _ _ h]; simp [sgA, sgB]
  · show Ks.ι N (polySub x y) = _
    rw [polySub_add_scale, Ks.ι_add N _ _ (by simp [h]), Ks.ι_polyScale]; simp [sgA, sgB]
  · show Ks.ι N (polySub y x) = _
    rw [polySub_add_scale, Ks.ι_add N _ _ (by simp [h]), Ks.ι_polyScale]; simp [sgA, sgB]; ring

theorem fusedPoly_bound (f : Ks.Fused) (x y : Poly) (X Y : Int) (hx : ∀ v ∈ x, |v| ≤ X) (hy : ∀ v ∈ y, |v| ≤ Y) :
    ∀ v ∈ fusedPoly f x y, |v| ≤ X + Y := by
  intro v hv
  obtain ⟨t, ht, rfl⟩ := List.getElem_of_mem hv
  rw [fusedPoly_length] at ht
  have h1 := hx _ (List.getElem_mem (by omega : t < x.length))
  have h2 := hy _ (List.getElem_mem (by omega : t < y.length))
  have a1 := abs_le.mp h1
  have a2 := abs_le.mp h2
  cases f <;> simp only [fusedPoly, polyAdd, polySub, List.getElem_zipWith] <;> rw [abs_le] <;> constructor <;> linarith

/-- the big automorphism is the exact `σ_g` on every limb under head-room -/
theorem bigAuto_exact (big128 : Bool) (p : Int) (c : Col) (H : Int) (hH : H < 2 ^ (bitsOf big128 - 1))
    (hc : ∀ l ∈ c, ∀ x ∈ l, |x| ≤ H) : Ks.bigAutomorphismAssign big128 p c = c.map (σ p) := by
  unfold Ks.bigAutomorphismAssign vecAutomorphismAssignW
  apply List.map_congr_left
  intro l hl
  cases big128 with
  | false =>
    have h63 : H < 2 ^ 63 := by simpa [bitsOf] using hH
    apply auto_w64_eq_id
    intro x hx
    have := abs_le.mp (hc l hl x hx)
    constructor <;> linarith
  | true =>
    have h127 : H < 2 ^ 127 := by simpa [bitsOf] using hH
    apply auto_w128_eq_id
    intro x hx
    have := abs_le.mp (hc l hl x hx)
    constructor <;> linarith

theorem znxSubW_exact (big128 : Bool) (X Y : Int) (hXY : X + Y < 2 ^ (bitsOf big128 - 1)) (x y : Poly)
    (hx : ∀ v ∈ x, |v| ≤ X) (hy : ∀ v ∈ y, |v| ≤ Y) : znxSubW (Ks.bigW big128) x y = polySub x y := by
  unfold znxSubW polySub
  induction x generalizing y with
  | nil => simp
  | cons a as ih =>
    cases y with
    | nil => simp
    | cons b bs =>
      have ha := abs_le.mp (hx a (by simp))
      have hb := abs_le.mp (hy b (by simp))
      simp only [List.zipWith_cons_cons]
      rw [ih bs (fun v hv => hx v (by simp [hv])) (fun v hv => hy v (by simp [hv]))]
      congr 1
      cases big128 with
      | false =>
        have h63 : X + Y < 2 ^ 63 := by simpa [bitsOf] using hXY
        show w64 (a - b) = a - b
        unfold w64; omega
      | true =>
        have h127 : X + Y < 2 ^ 127 := by simpa [bitsOf] using hXY
        show w128 (a - b) = a - b
        unfold w128; omega

theorem znxNegW_exact (big128 : Bool) (X : Int) (hX : X < 2 ^ (bitsOf big128 - 1)) (x : Poly)
    (hx : ∀ v ∈ x, |v| ≤ X) : znxNegateW (Ks.bigW big128) x = polyNeg x := by
  unfold znxNegateW polyNeg
  apply List.map_congr_left
  intro a ha
  have := abs_le.mp (hx a ha)
  cases big128 with
  | false =>
    have h63 : X < 2 ^ 63 := by simpa [bitsOf] using hX
    show w64 (-a) = -a
    unfold w64; omega
  | true =>
    have h127 : X < 2 ^ 127 := by simpa [bitsOf] using hX
    show w128 (-a) = -a
    unfold w128; omega

theorem polySub_zero_right (x : Poly) (N : Nat) (h : x.length = N) : polySub x (zeroP N) = x := by
  subst h
  unfold polySub zeroP
  apply List.ext_getElem (by simp)
  intro i h1 h2
  simp

theorem polySub_zero_left (x : Poly) (N : Nat) (h : x.length = N) : polySub (zeroP N) x = polyNeg x := by
  subst h
  unfold polySub zeroP polyNeg
  apply List.ext_getElem (by simp)
  intro i h1 h2
  simp

theorem swapZip_getElem? (fz : Poly → Poly → Poly) (g : Poly → Poly) (res a : Col) (j : Nat) :
    (List.zipWith fz (a.take (min a.length res.length)) (res.take (min a.length res.length))
        ++ (res.drop (min a.length res.length)).map g)[j]? =
      if j < res.length then some (if j < a.length then fz (a.getD j []) (res.getD j []) else g (res.getD j [])) else none := by
  rw [List.zipWith_comm]
  exact assignZip_getElem? (fun r a => fz a r) g res a j

theorem drop_min (res a : Col) : res.drop a.length = res.drop (min a.length res.length) := by
  rcases le_total a.length res.length with h | h
  · rw [min_eq_left h]
  · rw [min_eq_right h, List.drop_of_length_le h, List.drop_of_length_le (le_refl _)]

/-- **the fused accumulator operation never wraps under head-room** (`vec_znx_big_{add,sub,sub_negate}_small_assign`, both accumulator
widths): it is the exact limb-wise `res + a`, `res − a`, `a − res` with `a` zero-extended / truncated to the limbs of `res` -/
theorem fusedApply_exact {N : Nat} (f : Ks.Fused) (big128 : Bool) (X Y : Int) (hXY : X + Y < 2 ^ (bitsOf big128 - 1)) (hY0 : 0 ≤ Y)
    (res a : Col) (hr : LimbsN N res) (hres : ∀ l ∈ res, ∀ v ∈ l, |v| ≤ X) (ha : ∀ l ∈ a, ∀ v ∈ l, |v| ≤ Y) :
    f.apply big128 res a = List.zipWith (fusedPoly f) res (fit N res.length a) := by
  have hX : X < 2 ^ (bitsOf big128 - 1) := by linarith
  cases f with
  | add => exact bigAdd_exact (N := N) big128 X Y hXY res a hr hres ha
  | sub =>
    show vecSubAssignW (Ks.bigW big128) res a = List.zipWith polySub res (fit N res.length a)
    unfold vecSubAssignW
    have key : List.zipWith (znxSubW (Ks.bigW big128)) (res.take (min a.length res.length)) (a.take (min a.length res.length))
          ++ (res.drop (min a.length res.length)).map id
        = List.zipWith polySub res (fit N res.length a) := by
      apply List.ext_getElem?
      intro j
      rw [assignZip_getElem?]
      simp only [List.getElem?_zipWith, fit_getElem?]
      by_cases hj : j < res.length
      · simp only [hj, if_true, List.getElem?_eq_getElem hj]
        congr 1
        have e : res.getD j [] = res[j] := by simp [List.getD_eq_getElem?_getD, List.getElem?_eq_getElem hj]
        have hm : res[j] ∈ res := List.getElem_mem hj
        rw [e]
        by_cases h1 : j < a.length
        · simp only [h1, if_true, getD_eq_of_lt (N := N) a j h1]
          apply znxSubW_exact big128 X Y hXY _ _ (hres _ hm)
          have e2 : a.getD j (zeroP N) = a[j] := by simp [List.getD_eq_getElem?_getD, List.getElem?_eq_getElem h1]
          rw [e2]
          exact ha _ (List.getElem_mem h1)
        · simp only [h1, if_false, getD_of_ge (N := N) a j (by omega)]
          exact (polySub_zero_right _ N (hr _ hm)).symm
      · simp [hj]
    simp only [List.map_id] at key
    exact key
  | subNegate =>
    have key : List.zipWith (znxSubW (Ks.bigW big128)) (a.take (min a.length res.length)) (res.take (min a.length res.length))
          ++ (res.drop (min a.length res.length)).map (znxNegateW (Ks.bigW big128))
        = List.zipWith (fun x y => polySub y x) res (fit N res.length a) := by
      apply List.ext_getElem?
      intro j
      rw [swapZip_getElem?]
      simp only [List.getElem?_zipWith, fit_getElem?]
      by_cases hj : j < res.length
      · simp only [hj, if_true, List.getElem?_eq_getElem hj]
        congr 1
        have e : res.getD j [] = res[j] := by simp [List.getD_eq_getElem?_getD, List.getElem?_eq_getElem hj]
        have hm : res[j] ∈ res := List.getElem_mem hj
        rw [e]
        by_cases h1 : j < a.length
        · simp only [h1, if_true, getD_eq_of_lt (N := N) a j h1]
          have e2 : a.getD j (zeroP N) = a[j] := by simp [List.getD_eq_getElem?_getD, List.getElem?_eq_getElem h1]
          rw [e2]
          exact znxSubW_exact big128 Y X (by linarith) _ _ (ha _ (List.getElem_mem h1)) (hres _ hm)
        · simp only [h1, if_false, getD_of_ge (N := N) a j (by omega)]
          rw [polySub_zero_left _ N (hr _ hm)]
          exact znxNegW_exact big128 X hX _ (hres _ hm)
      · simp [hj]
    show Ks.bigSubSmallNegateAssign big128 res a = _
    unfold Ks.bigSubSmallNegateAssign
    cases big128 with
    | false =>
      simp only [Bool.false_eq_true, if_false]
      exact key
    | true =>
      simp only [if_true]
      unfold ntt120BigSubNegateAssign
      simp only [Nat.min_comm res.length a.length, drop_min res a]
      exact key

theorem fusedCol_wf {N S : Nat} (f : Ks.Fused) {x y : Col} (hx : ColWF N S x) (hy : ColWF N S y) :
    ColWF N S (List.zipWith (fusedPoly f) x y) := by
  refine ⟨by simp [hx.1, hy.1], ?_⟩
  intro l hl
  obtain ⟨j, hj, rfl⟩ := List.getElem_of_mem hl
  simp only [List.length_zipWith] at hj
  simp only [List.getElem_zipWith, fusedPoly_length]
  rw [hx.2 _ (List.getElem_mem _), hy.2 _ (List.getElem_mem _)]; simp

theorem fusedCol_bound (f : Ks.Fused) (x y : Col) (X Y : Int) (hx : ∀ l ∈ x, ∀ v ∈ l, |v| ≤ X) (hy : ∀ l ∈ y, ∀ v ∈ l, |v| ≤ Y) :
    ∀ l ∈ List.zipWith (fusedPoly f) x y, ∀ v ∈ l, |v| ≤ X + Y := by
  intro l hl
  obtain ⟨j, hj, rfl⟩ := List.getElem_of_mem hl
  simp only [List.length_zipWith] at hj
  simp only [List.getElem_zipWith]
  exact fusedPoly_bound f _ _ X Y (hx _ (List.getElem_mem (by omega : j < x.length))) (hy _ (List.getElem_mem (by omega : j < y.length)))

/-- value of a fused column -/
theorem ι_valP_fused (N b S : Nat) (f : Ks.Fused) (x y : Col) (hx : ColWF N S x) (hy : ColWF N S y) :
    Ks.ι N (valP b N (List.zipWith (fusedPoly f) x y))
      = (sgA f : Ks.R N) * Ks.ι N (valP b N x) + (sgB f : Ks.R N) * Ks.ι N (valP b N y) := by
  have hz := fusedCol_wf f hx hy
  rw [Core.ι_valP N b _ hz.2, Core.ι_valP N b _ hx.2, Core.ι_valP N b _ hy.2, hz.1, hx.1, hy.1, Finset.mul_sum, Finset.mul_sum,
    ← Finset.sum_add_distrib]
  apply Finset.sum_congr rfl
  intro k hk
  have hk' : k < S := Finset.mem_range.mp hk
  have hkx : k < x.length := by rw [hx.1]; exact hk'
  have hky : k < y.length := by rw [hy.1]; exact hk'
  have e1 : limbOr0 N (List.zipWith (fusedPoly f) x y) k = fusedPoly f x[k] y[k] := by
    simp [limbOr0, List.getD_eq_getElem?_getD, List.getElem?_zipWith, List.getElem?_eq_getElem hkx, List.getElem?_eq_getElem hky]
  have e2 : limbOr0 N x k = x[k] := by simp [limbOr0, List.getD_eq_getElem?_getD, List.getElem?_eq_getElem hkx]
  have e3 : limbOr0 N y k = y[k] := by simp [limbOr0, List.getD_eq_getElem?_getD, List.getElem?_eq_getElem hky]
  rw [e1, e2, e3, ι_fusedPoly N f _ _ (by rw [hx.2 _ (List.getElem_mem hkx), hy.2 _ (List.getElem_mem hky)])]
  ring

/-- the phase is linear over the fused column operation -/
theorem ι_valP_phase_fused (N : Nat) (hN : 0 < N) (b S : Nat) (f : Ks.Fused) (s : List Poly) (n : Nat) (p q : Nat → Col)
    (hp : ∀ j, j < n + 1 → ColWF N S (p j)) (hq : ∀ j, j < n + 1 → ColWF N S (q j)) :
    Ks.ι N (valP b N (phase s (Ks.mkCt b N ((List.range (n + 1)).map (fun j => List.zipWith (fusedPoly f) (p j) (q j))))))
      = (sgA f : Ks.R N) * Ks.ι N (valP b N (phase s (Ks.mkCt b N ((List.range (n + 1)).map p))))
        + (sgB f : Ks.R N) * Ks.ι N (valP b N (phase s (Ks.mkCt b N ((List.range (n + 1)).map q)))) := by
  have hmem : ∀ (g : Nat → Col), (∀ j, j < n + 1 → ColWF N S (g j)) → ∀ c ∈ (List.range (n + 1)).map g, ColWF N S c := by
    intro g hg c hc
    obtain ⟨j, hj, rfl⟩ := List.mem_map.mp hc
    exact hg j (List.mem_range.mp hj)
  have hne : ∀ (g : Nat → Col), (List.range (n + 1)).map g ≠ [] := by
    intro g h
    have := congrArg List.length h
    simp at this
  have hsum : ∀ j, j < n + 1 → ColWF N S (List.zipWith (fusedPoly f) (p j) (q j)) := fun j hj => fusedCol_wf f (hp j hj) (hq j hj)
  rw [Core.ι_valP_phase_cols N hN b S s _ (hne _) (hmem _ hsum), Core.ι_valP_phase_cols N hN b S s _ (hne _) (hmem _ hp),
    Core.ι_valP_phase_cols N hN b S s _ (hne _) (hmem _ hq)]
  simp only [List.length_map, List.length_range, Nat.add_sub_cancel]
  rw [getD_range_map _ 0 _ (by omega), getD_range_map _ 0 p (by omega), getD_range_map _ 0 q (by omega),
    ι_valP_fused N b S f _ _ (hp 0 (by omega)) (hq 0 (by omega))]
  have e : ∀ i ∈ Finset.range (min n s.length),
      Ks.ι N (s.getD i []) * Ks.ι N (valP b N (((List.range (n + 1)).map (fun j => List.zipWith (fusedPoly f) (p j) (q j))).getD (i + 1) []))
        = (sgA f : Ks.R N) * (Ks.ι N (s.getD i []) * Ks.ι N (valP b N (((List.range (n + 1)).map p).getD (i + 1) [])))
          + (sgB f : Ks.R N) * (Ks.ι N (s.getD i []) * Ks.ι N (valP b N (((List.range (n + 1)).map q).getD (i + 1) []))) := by
    intro i hi
    have hi' : i + 1 < n + 1 := by have := Finset.mem_range.mp hi; omega
    rw [getD_range_map _ _ _ hi', getD_range_map _ _ p hi', getD_range_map _ _ q hi', ι_valP_fused N b S f _ _ (hp _ hi') (hq _ hi')]
    ring
  rw [Finset.sum_congr rfl e, Finset.sum_add_distrib, ← Finset.mul_sum, ← Finset.mul_sum]
  ring

/-- the columns of a ciphertext zero-extended to `S ≥ size` limbs: the phase is scaled by `β^(S − size)` -/
theorem ι_valP_phase_fit (N : Nat) (hN : 0 < N) (b S : Nat) (s : List Poly) (a : Ks.Ct) (ha : GWF N a) (h : a.size ≤ S) :
    Ks.ι N (valP b N (phase s (Ks.mkCt b N ((List.range (a.rank + 1)).map (fun i => fit N S (a.cols.getD i []))))))
      = Ks.radix N b ^ (S - a.size) * Ks.ι N (valP b N (phase s a)) := by
  have hne : (List.range (a.rank + 1)).map (fun i => fit N S (a.cols.getD i [])) ≠ [] := by
    intro h; have := congrArg List.length h; simp at this
  have hwf : ∀ c ∈ (List.range (a.rank + 1)).map (fun i => fit N S (a.cols.getD i [])), ColWF N S c := by
    intro c hc
    obtain ⟨j, _, rfl⟩ := List.mem_map.mp hc
    exact fit_wf (ha.col_limbs j) S
  have e1 := Core.ι_valP_phase_cols N hN b S s _ hne hwf
  have e2 := Core.ι_valP_phase_cols N hN b a.size s a.cols ha.2.1 ha.2.2
  have hph : phase s (Ks.mkCt b N a.cols) = phase s a := rfl
  have hr : a.cols.length - 1 = a.rank := rfl
  rw [hph, hr] at e2
  simp only [List.length_map, List.length_range, Nat.add_sub_cancel] at e1
  rw [e1, e2, mul_add, Finset.mul_sum, getD_range_map _ 0 _ (by omega)]
  have hb := ha.col_wf 0 (Nat.zero_le _)
  rw [ι_valP_fit N b S _ hb.2 (by rw [hb.1]; exact h), hb.1]
  congr 1
  apply Finset.sum_congr rfl
  intro i hi
  have hi' : i < a.rank := by have := Finset.mem_range.mp hi; omega
  have hc := ha.col_wf (i + 1) (by omega)
  rw [getD_range_map _ _ _ (by omega), ι_valP_fit N b S _ hc.2 (by rw [hc.1]; exact h), hc.1]
  ring

/-! ### `glwe_automorphism_{add,sub,sub_negate}`, end to end -/

/-- **`glwe_automorphism_fused_decrypts`** — END-TO-END theorem of the executed fused forms `Ks.automorphismFused f`
(`glwe_automorphism_add`, `_sub`, `_sub_negate`; `f = .add / .sub / .subNegate`), all ranks (`rank_in = rank_out = rank(a)`, as the code
asserts), every `dsize ≥ 1`, three radices in `1..62`, both accumulator widths, covered regime, with the `res_dft` scratch entering zeroed
(`dft0 = Ks.zeroBuf N (rout+1) key.size`, what the callers' fresh scratch is).

Pipeline proved: `convIn_phase` (conversion), `keyswitchInternal_value` (accumulator, under `σ_{g⁻¹}(sk)`), per column the big automorphism is
the exact `σ_g` (`bigAuto_exact`), the big add / sub / sub-negate of the converted input never wraps (`fusedApply_exact`; head-room
`Hp + 2·(Hin + 2^b_key) + 8 ≤ 2^62` resp. `2^126`), `norm_stage` on the resulting columns.

Conclusion, in `R N` (`α = sgA f`, `β = sgB f`: `(1,1)`, `(1,−1)`, `(−1,1)`):
`2^(b_in·s_a + b_key·S)·val(phase_sk res) = α·(2^(b_out·s_out + b_key·S)·σ_g(val(phase_sk a)) + σ_g(Err_ks))
   + β·(2^(b_out·s_out + b_key·S)·val(phase_sk a) + c1·E₁) + 2^(b_in·s_a)·E₃ + 2^(…)·Q`
with `Err_ks = c1·E₁ + c2·(errL − dropL)` (conversion rounding, gadget error, dropped limbs), `E₃` the final normalisation rounding (now
under `sk`), and the explicit bounds. -/
theorem glwe_automorphism_fused_decrypts (f : Ks.Fused) (big128 : Bool) (N bout sout rout : Nat) (a : Ks.Ct) (key : Ks.Key)
    (sk : List Poly) (gInv : Int) (EL KL : ℕ → ℕ → Poly) (Hin Hp : Int)
    (hN : 0 < N) (hg : GalOk key.p N) (hsk : Ks.AllLen N sk) (hinv : ∀ s ∈ sk, σ key.p (σ gInv s) = s)
    (ha : GWF N a) (hrank : a.rank = key.rankIn) (hrout : rout = key.rankOut) (hra : a.rank = rout) (hc0 : 0 < key.mat.colsOut)
    (hD : 1 ≤ key.dsize) (hM : ∀ j q, (key.mat.entry j q).length = N) (hS : key.mat.rows * key.dsize ≤ key.mat.size)
    (hbi1 : 1 ≤ a.base2k) (hbi : a.base2k ≤ 62) (hbk1 : 1 ≤ key.base2k) (hbk : key.base2k ≤ 62) (hbo1 : 1 ≤ bout) (hbo : bout ≤ 62)
    (hIn0 : 0 ≤ Hin) (hIn : Hin + 8 ≤ 2 ^ 62) (hInB : ∀ c ∈ a.cols, ∀ l ∈ c, ∀ x ∈ l, |x| ≤ Hin)
    (hHp0 : 0 ≤ Hp) (hAcc : Hp + 2 * (Hin + 2 ^ key.base2k) + 8 ≤ 2 ^ (bitsOf big128 - 2))
    (hprod : ∀ aConv, Ks.convIn a key = .ok aConv → ∀ i, i < rout + 1 → ∀ l ∈ (prodOf rout aConv key).act i, ∀ x ∈ l, |x| ≤ Hp)
    (hs : key.mat.colsIn ≤ sk.length)
    (hEL : ∀ i r, (EL i r).length = N) (hKL : ∀ i r, (KL i r).length = N)
    (hkey : ∀ i, i < key.mat.colsIn → ∀ r, r < key.mat.rows →
      Gadget.val (Ks.radix N key.base2k) key.mat.size (Ks.keyPhase N (sk.map (σ gInv)) key.mat i r) =
        Ks.ι N (sk.getD i []) * Ks.radix N key.base2k ^ (key.mat.size - (r + 1) * key.dsize) + Ks.ι N (EL i r)
          + Ks.radix N key.base2k ^ key.mat.size * Ks.ι N (KL i r))
    (hcov1 : convSize a key ≤ key.mat.size) (hcov2 : convSize a key ≤ key.mat.rows * key.dsize) :
    ∃ res aConv, Ks.automorphismFused f big128 (Ks.zeroBuf N (rout + 1) key.size) bout sout rout a key = .ok res ∧
      Ks.convIn a key = .ok aConv ∧ GWF N res ∧ res.base2k = bout ∧ res.size = sout ∧ res.rank = rout ∧
      ∃ (E1 E3 : Poly) (Q : Ks.R N), E1.length = N ∧ E3.length = N ∧
        normInf E1 ≤ (1 + snorm (min a.rank sk.length) sk) * C02.normTol (key.base2k * convSize a key) (a.base2k * a.size) ∧
        normInf E3 ≤ (1 + snorm (min rout sk.length) sk) * C02.normTol (bout * sout) (key.base2k * key.mat.size) ∧
        (2 : Ks.R N) ^ (a.base2k * a.size + key.base2k * key.mat.size) * Ks.ι N (valP bout N (phase sk res))
          = (sgA f : Ks.R N) *
              ((2 : Ks.R N) ^ (bout * sout + key.base2k * key.mat.size) * Ks.ι N (σ key.p (valP a.base2k N (phase sk a)))
                + Ks.ι N (σ key.p (ksErr (2 ^ (bout * sout + key.base2k * (key.mat.size - convSize a key)))
                    (2 ^ (a.base2k * a.size + bout * sout)) 0 E1 (Ks.errL N key.base2k (aDftOf aConv) key EL)
                    (Ks.dropL N key.base2k (sk.map (σ gInv)) (aDftOf aConv) key) (zeroP N))))
            + (sgB f : Ks.R N) *
              ((2 : Ks.R N) ^ (bout * sout + key.base2k * key.mat.size) * Ks.ι N (valP a.base2k N (phase sk a))
                + Ks.ι N (polyScale (2 ^ (bout * sout + key.base2k * (key.mat.size - convSize a key))) E1))
            + Ks.ι N (polyScale (2 ^ (a.base2k * a.size)) E3)
            + (2 : Ks.R N) ^ (a.base2k * a.size + bout * sout + key.base2k * key.mat.size) * Q ∧
        normInf (σ key.p (ksErr (2 ^ (bout * sout + key.base2k * (key.mat.size - convSize a key)))
                    (2 ^ (a.base2k * a.size + bout * sout)) 0 E1 (Ks.errL N key.base2k (aDftOf aConv) key EL)
                    (Ks.dropL N key.base2k (sk.map (σ gInv)) (aDftOf aConv) key) (zeroP N)))
          ≤ 2 ^ (bout * sout + key.base2k * (key.mat.size - convSize a key)) *
              ((1 + snorm (min a.rank sk.length) sk) * C02.normTol (key.base2k * convSize a key) (a.base2k * a.size))
            + 2 ^ (a.base2k * a.size + bout * sout) * gadgetBound N key.base2k (aDftOf aConv) key EL
            + 2 ^ (a.base2k * a.size + bout * sout) * dropBound N key.base2k (sk.map (σ gInv)) (aDftOf aConv) key := by
  have hrank' : a.rank = key.mat.colsIn := hrank
  have hrout' : rout + 1 = key.mat.colsOut := by rw [hrout]; unfold Ks.Key.rankOut; omega
  have hpk : (0 : Int) < 2 ^ key.base2k := by positivity
  obtain ⟨aConv, hconv, gwC, hbC, hrC, hsC, hdigC, hph1⟩ := convIn_phase N a key Hin ha hbi1 hbi hbk1 hbk hIn0 hIn hInB
  have hbodymem : aConv.cols.getD 0 [] ∈ aConv.cols := col_mem 0 (by rw [gwC.len]; omega)
  have h2le : (2 : Int) ^ (bitsOf big128 - 2) ≤ 2 ^ (bitsOf big128 - 1) := pow_le_pow_right₀ (by norm_num) (by omega)
  generalize hHb : Hin + 2 ^ key.base2k = Hb at *
  have hHb0 : 0 ≤ Hb := by rw [← hHb]; linarith
  have hHadd : Hp + Hb < 2 ^ (bitsOf big128 - 1) := by linarith
  have hHadd2 : Hp + Hb + Hb < 2 ^ (bitsOf big128 - 1) := by linarith
  obtain ⟨resBig, hks, hbn, hwfacc, hbacc, hval⟩ := keyswitchInternal_value big128 N rout aConv key sk (sk.map (σ gInv)) EL KL Hp Hb
    hN gwC hbC (hrC.trans hrank') hrout' hD hM hS hEL hKL hkey hHb0 hHadd (hprod aConv hconv) (hdigC _ hbodymem)
  have hcov := covered_input_value N aConv key sk hN gwC (hrC.trans hrank') hs hD (by rw [hsC]; exact hcov1) (by rw [hsC]; exact hcov2)
  -- the columns of the pipeline
  have hactmem : ∀ i, i < rout + 1 → resBig.act i ∈ accCols rout resBig := fun i hi =>
    List.mem_map.mpr ⟨i, List.mem_range.mpr hi, rfl⟩
  have hXwf : ∀ i, i < rout + 1 → ColWF N key.mat.size ((resBig.act i).map (σ key.p)) := by
    intro i hi
    have := hwfacc _ (hactmem i hi)
    refine ⟨by rw [List.length_map]; exact this.1, ?_⟩
    intro l hl
    obtain ⟨l0, hl0, rfl⟩ := List.mem_map.mp hl
    rw [σ_length]; exact this.2 l0 hl0
  have hXb : ∀ i, i < rout + 1 → ∀ l ∈ (resBig.act i).map (σ key.p), ∀ v ∈ l, |v| ≤ Hp + Hb := by
    intro i hi l hl
    obtain ⟨l0, hl0, rfl⟩ := List.mem_map.mp hl
    have hlen := (hwfacc _ (hactmem i hi)).2 l0 hl0
    exact σ_bound key.p l0 (by rw [hlen]; exact hN) (by rw [hlen]; exact hg) _ (hbacc _ (hactmem i hi) l0 hl0)
  have hYwf : ∀ i, ColWF N key.mat.size (fit N key.mat.size (aConv.cols.getD i [])) := fun i => fit_wf (gwC.col_limbs i) _
  have hcolb : ∀ i, i < rout + 1 → ∀ l ∈ aConv.cols.getD i [], ∀ x ∈ l, |x| ≤ Hb := fun i hi =>
    hdigC _ (col_mem i (by rw [gwC.len, hrC, hra]; exact hi))
  have hstep : ∀ i, i < rout + 1 →
      f.apply big128 (Ks.bigAutomorphismAssign big128 key.p (resBig.act i)) (aConv.cols.getD i [])
        = List.zipWith (fusedPoly f) ((resBig.act i).map (σ key.p)) (fit N key.mat.size (aConv.cols.getD i [])) := by
    intro i hi
    rw [bigAuto_exact big128 key.p _ (Hp + Hb) hHadd (hbacc _ (hactmem i hi))]
    have := fusedApply_exact (N := N) f big128 (Hp + Hb) Hb hHadd2 hHb0 ((resBig.act i).map (σ key.p)) (aConv.cols.getD i [])
      (hXwf i hi).2 (hXb i hi) (hcolb i hi)
    rw [(hXwf i hi).1] at this
    exact this
  generalize hL : (List.range (rout + 1)).map (fun i =>
    List.zipWith (fusedPoly f) ((resBig.act i).map (σ key.p)) (fit N key.mat.size (aConv.cols.getD i []))) = L
  have hLne : L ≠ [] := by
    rw [← hL]; intro h; have := congrArg List.length h; simp at this
  have hLlen : L.length = rout + 1 := by rw [← hL]; simp
  have hLwf : ∀ c ∈ L, ColWF N key.mat.size c := by
    rw [← hL]
    intro c hc
    obtain ⟨i, hi, rfl⟩ := List.mem_map.mp hc
    exact fusedCol_wf f (hXwf i (List.mem_range.mp hi)) (hYwf i)
  have hLb : ∀ c ∈ L, ∀ l ∈ c, ∀ x ∈ l, |x| ≤ Hp + Hb + Hb := by
    rw [← hL]
    intro c hc
    obtain ⟨i, hi, rfl⟩ := List.mem_map.mp hc
    have hi' := List.mem_range.mp hi
    exact fusedCol_bound f _ _ (Hp + Hb) Hb (hXb i hi') (fit_bound N _ _ Hb hHb0 (hcolb i hi'))
  obtain ⟨cs, hok, hlen, hcwf, _, hph⟩ := norm_stage big128 N bout sout key.base2k key.mat.size (Hp + Hb + Hb) L
    hbo1 hbo hbk1 hbk (by linarith) (by linarith) hLne hLwf hLb
  have hcsne : cs ≠ [] := by
    intro h; rw [h, hLlen] at hlen; simp at hlen
  obtain ⟨gw, gs⟩ := gwf_mk (N := N) bout sout cs hcsne hcwf
  have hfused : Ks.automorphismFused f big128 (Ks.zeroBuf N (rout + 1) key.size) bout sout rout a key = .ok (Ks.mkCt bout N cs) := by
    unfold Ks.automorphismFused
    rw [if_neg (by rw [not_or, not_or]; exact ⟨not_not.mpr hrank, not_not.mpr hrout, not_not.mpr hra⟩)]
    have hks' : Ks.keyswitchInternal big128 (Ks.zeroBuf N (rout + 1) key.size) aConv key = .ok resBig := by
      rw [← gwC.1]; exact hks
    have e : (List.range (rout + 1)).map (fun i => Ks.bigNormalize big128 bout sout
          (f.apply big128 (Ks.bigAutomorphismAssign big128 key.p (resBig.act i)) (aConv.cols.getD i [])) key.base2k N)
        = L.map (fun c => Ks.bigNormalize big128 bout sout c key.base2k N) := by
      rw [← hL, List.map_map]
      apply List.map_congr_left
      intro i hi
      simp only [Function.comp]
      rw [hstep i (List.mem_range.mp hi)]
    simp only [hconv, Ks.obind, hks', hbn]
    rw [e, hok]
  obtain ⟨E1, Q1, hE1, hQ1, hn1, hr1⟩ := coeff_to_ring N hN _ _ _ _ _ _ _ _ (hph1 sk)
  obtain ⟨E3, Q3, hE3, hQ3, hn3, hr3⟩ := coeff_to_ring N hN _ _ _ _ _ _ _ _ (hph sk)
  rw [hLlen, Nat.add_sub_cancel] at hn3
  -- the phase of the pipeline columns
  have hLph := ι_valP_phase_fused N hN key.base2k key.mat.size f sk rout (fun i => (resBig.act i).map (σ key.p))
    (fun i => fit N key.mat.size (aConv.cols.getD i [])) hXwf (fun j _ => hYwf j)
  rw [hL] at hLph
  have hXmap : (List.range (rout + 1)).map (fun i => (resBig.act i).map (σ key.p))
      = (accCols rout resBig).map (fun c => c.map (σ key.p)) := by
    unfold accCols; rw [List.map_map]; rfl
  have hne : accCols rout resBig ≠ [] := by
    intro h; have := congrArg List.length h; simp [accCols] at this
  have hσ := ι_valP_phase_σ N key.p hN hg key.base2k key.mat.size sk (sk.map (σ gInv)) (accCols rout resBig) hne hwfacc (by simp)
    (allLen_map_σ gInv sk hsk) (secret_roundtrip key.p gInv sk hinv)
  have hYfit := ι_valP_phase_fit N hN key.base2k key.mat.size sk aConv gwC (by rw [hsC]; exact hcov1)
  rw [hrC, hra, hsC] at hYfit
  rw [hXmap, hσ, hYfit, hval, hcov, hsC] at hLph
  obtain ⟨_, _, _, _, _, dA⟩ := aDft_spec aConv gwC
  have hGl : (Ks.errL N key.base2k (aDftOf aConv) key EL).length = N := Ks.errL_length N _ _ _ EL hEL
  have hDl := dropL_length N key.base2k (sk.map (σ gInv)) (aDftOf aConv) key hc0 hM
  have hErrl := ksErr_length N (2 ^ (bout * sout + key.base2k * (key.mat.size - convSize a key))) (2 ^ (a.base2k * a.size + bout * sout))
    0 E1 _ _ (zeroP N) hE1 hGl hDl (by simp [zeroP])
  generalize hK : Ks.ι N (Ks.errL N key.base2k (aDftOf aConv) key KL)
      - ∑ i ∈ Finset.range key.mat.colsIn,
          Gadget.head (Ks.radix N key.base2k) key.dsize key.mat.rows (convSize a key) (Ks.inLimb N (aDftOf aConv) i)
            (Ks.keyPhase N (sk.map (σ gInv)) key.mat i) = K at hLph
  refine ⟨_, aConv, hfused, hconv, gw, rfl, gs, by show cs.length - 1 = rout; rw [hlen, hLlen]; rfl, E1, E3,
    (sgA f : Ks.R N) * (gal N key.p hN hg (Ks.ι N Q1) + gal N key.p hN hg K) + (sgB f : Ks.R N) * Ks.ι N Q1 + Ks.ι N Q3,
    hE1, hE3, hn1, hn3, ?_, ?_⟩
  · rw [ι_σ N key.p hN hg _ (by simp), ι_σ N key.p hN hg _ hErrl, ι_ksErr N _ _ _ _ _ _ _ hE1 hGl hDl (by simp [zeroP]),
      Ks.ι_polyScale, Ks.ι_polyScale]
    rw [Ks.radix_pow, Ks.radix_pow] at hLph
    have hrel : (2 : Ks.R N) ^ (key.base2k * (key.mat.size - convSize a key)) * (2 : Ks.R N) ^ (key.base2k * convSize a key)
        = (2 : Ks.R N) ^ (key.base2k * key.mat.size) := by
      rw [← pow_add, ← Nat.mul_add]
      congr 2
      omega
    push_cast at hr1 hr3 hLph ⊢
    simp only [pow_add] at hr1 hr3 hLph ⊢
    have hg1 := congrArg (gal N key.p hN hg) hr1
    simp only [map_add, map_sub, map_mul, zero_mul, add_zero, gal_two_pow] at hLph hg1 ⊢
    generalize (2 : Ks.R N) ^ (a.base2k * a.size) = x1 at *
    generalize (2 : Ks.R N) ^ (key.base2k * convSize a key) = xc at *
    generalize (2 : Ks.R N) ^ (key.base2k * (key.mat.size - convSize a key)) = xd at *
    generalize (2 : Ks.R N) ^ (key.base2k * key.mat.size) = xS at *
    generalize (2 : Ks.R N) ^ (bout * sout) = xo at *
    linear_combination x1 * hr3 + x1 * xo * hLph + xo * (sgA f : Ks.R N) * xd * hg1 + xo * (sgB f : Ks.R N) * xd * hr1
      + (xo * (sgA f : Ks.R N) * (gal N key.p hN hg (Ks.ι N (valP a.base2k N (phase sk a))) + x1 * gal N key.p hN hg (Ks.ι N Q1))
          + xo * (sgB f : Ks.R N) * (Ks.ι N (valP a.base2k N (phase sk a)) + x1 * Ks.ι N Q1)) * hrel
  · refine le_trans (normInf_σ_le key.p _ (by rw [hErrl]; exact hN) (by rw [hErrl]; exact hg)) ?_
    refine le_trans (normInf_ksErr_le _ _ _ _ _ _ _) ?_
    have p1 : (0 : Int) ≤ 2 ^ (bout * sout + key.base2k * (key.mat.size - convSize a key)) := by positivity
    have p2 : (0 : Int) ≤ 2 ^ (a.base2k * a.size + bout * sout) := by positivity
    rw [abs_of_nonneg p1, abs_of_nonneg p2, abs_zero, zero_mul, add_zero]
    have b2 : normInf (Ks.errL N key.base2k (aDftOf aConv) key EL) ≤ gadgetBound N key.base2k (aDftOf aConv) key EL :=
      Ks.normInf_errL_le N _ _ _ EL
    have b3 : normInf (Ks.dropL N key.base2k (sk.map (σ gInv)) (aDftOf aConv) key)
        ≤ dropBound N key.base2k (sk.map (σ gInv)) (aDftOf aConv) key := Ks.normInf_dropL_le N _ _ _ key
    have m1 := mul_le_mul_of_nonneg_left hn1 p1
    have m2 := mul_le_mul_of_nonneg_left b2 p2
    have m3 := mul_le_mul_of_nonneg_left b3 p2
    linarith

@[simp] theorem sgA_add : sgA .add = 1 := rfl
@[simp] theorem sgB_add : sgB .add = 1 := rfl
@[simp] theorem sgA_sub : sgA .sub = 1 := rfl
@[simp] theorem sgB_sub : sgB .sub = -1 := rfl
@[simp] theorem sgA_subNegate : sgA .subNegate = -1 := rfl
@[simp] theorem sgB_subNegate : sgB .subNegate = 1 := rfl

/-- **`glwe_automorphism_add_decrypts`** — `glwe_automorphism_add` (`res = σ_g(KS(a)) + a`): instance `f = .add` of `glwe_automorphism_fused_decrypts`
(`sgA`, `sgB` evaluate by `simp`: `sgA_*`, `sgB_*`). -/
theorem glwe_automorphism_add_decrypts (big128 : Bool) (N bout sout rout : Nat) (a : Ks.Ct) (key : Ks.Key)
    (sk : List Poly) (gInv : Int) (EL KL : ℕ → ℕ → Poly) (Hin Hp : Int)
    (hN : 0 < N) (hg : GalOk key.p N) (hsk : Ks.AllLen N sk) (hinv : ∀ s ∈ sk, σ key.p (σ gInv s) = s)
    (ha : GWF N a) (hrank : a.rank = key.rankIn) (hrout : rout = key.rankOut) (hra : a.rank = rout) (hc0 : 0 < key.mat.colsOut)
    (hD : 1 ≤ key.dsize) (hM : ∀ j q, (key.mat.entry j q).length = N) (hS : key.mat.rows * key.dsize ≤ key.mat.size)
    (hbi1 : 1 ≤ a.base2k) (hbi : a.base2k ≤ 62) (hbk1 : 1 ≤ key.base2k) (hbk : key.base2k ≤ 62) (hbo1 : 1 ≤ bout) (hbo : bout ≤ 62)
    (hIn0 : 0 ≤ Hin) (hIn : Hin + 8 ≤ 2 ^ 62) (hInB : ∀ c ∈ a.cols, ∀ l ∈ c, ∀ x ∈ l, |x| ≤ Hin)
    (hHp0 : 0 ≤ Hp) (hAcc : Hp + 2 * (Hin + 2 ^ key.base2k) + 8 ≤ 2 ^ (bitsOf big128 - 2))
    (hprod : ∀ aConv, Ks.convIn a key = .ok aConv → ∀ i, i < rout + 1 → ∀ l ∈ (prodOf rout aConv key).act i, ∀ x ∈ l, |x| ≤ Hp)
    (hs : key.mat.colsIn ≤ sk.length)
    (hEL : ∀ i r, (EL i r).length = N) (hKL : ∀ i r, (KL i r).length = N)
    (hkey : ∀ i, i < key.mat.colsIn → ∀ r, r < key.mat.rows →
      Gadget.val (Ks.radix N key.base2k) key.mat.size (Ks.keyPhase N (sk.map (σ gInv)) key.mat i r) =
        Ks.ι N (sk.getD i []) * Ks.radix N key.base2k ^ (key.mat.size - (r + 1) * key.dsize) + Ks.ι N (EL i r)
          + Ks.radix N key.base2k ^ key.mat.size * Ks.ι N (KL i r))
    (hcov1 : convSize a key ≤ key.mat.size) (hcov2 : convSize a key ≤ key.mat.rows * key.dsize) :
    ∃ res aConv, Ks.automorphismFused .add big128 (Ks.zeroBuf N (rout + 1) key.size) bout sout rout a key = .ok res ∧
      Ks.convIn a key = .ok aConv ∧ GWF N res ∧ res.base2k = bout ∧ res.size = sout ∧ res.rank = rout ∧
      ∃ (E1 E3 : Poly) (Q : Ks.R N), E1.length = N ∧ E3.length = N ∧
        normInf E1 ≤ (1 + snorm (min a.rank sk.length) sk) * C02.normTol (key.base2k * convSize a key) (a.base2k * a.size) ∧
        normInf E3 ≤ (1 + snorm (min rout sk.length) sk) * C02.normTol (bout * sout) (key.base2k * key.mat.size) ∧
        (2 : Ks.R N) ^ (a.base2k * a.size + key.base2k * key.mat.size) * Ks.ι N (valP bout N (phase sk res))
          = ((sgA .add : ℤ) : Ks.R N) *
              ((2 : Ks.R N) ^ (bout * sout + key.base2k * key.mat.size) * Ks.ι N (σ key.p (valP a.base2k N (phase sk a)))
                + Ks.ι N (σ key.p (ksErr (2 ^ (bout * sout + key.base2k * (key.mat.size - convSize a key)))
                    (2 ^ (a.base2k * a.size + bout * sout)) 0 E1 (Ks.errL N key.base2k (aDftOf aConv) key EL)
                    (Ks.dropL N key.base2k (sk.map (σ gInv)) (aDftOf aConv) key) (zeroP N))))
            + ((sgB .add : ℤ) : Ks.R N) *
              ((2 : Ks.R N) ^ (bout * sout + key.base2k * key.mat.size) * Ks.ι N (valP a.base2k N (phase sk a))
                + Ks.ι N (polyScale (2 ^ (bout * sout + key.base2k * (key.mat.size - convSize a key))) E1))
            + Ks.ι N (polyScale (2 ^ (a.base2k * a.size)) E3)
            + (2 : Ks.R N) ^ (a.base2k * a.size + bout * sout + key.base2k * key.mat.size) * Q ∧
        normInf (σ key.p (ksErr (2 ^ (bout * sout + key.base2k * (key.mat.size - convSize a key)))
                    (2 ^ (a.base2k * a.size + bout * sout)) 0 E1 (Ks.errL N key.base2k (aDftOf aConv) key EL)
                    (Ks.dropL N key.base2k (sk.map (σ gInv)) (aDftOf aConv) key) (zeroP N)))
          ≤ 2 ^ (bout * sout + key.base2k * (key.mat.size - convSize a key)) *
              ((1 + snorm (min a.rank sk.length) sk) * C02.normTol (key.base2k * convSize a key) (a.base2k * a.size))
            + 2 ^ (a.base2k * a.size + bout * sout) * gadgetBound N key.base2k (aDftOf aConv) key EL
            + 2 ^ (a.base2k * a.size + bout * sout) * dropBound N key.base2k (sk.map (σ gInv)) (aDftOf aConv) key :=
  glwe_automorphism_fused_decrypts .add big128 N bout sout rout a key sk gInv EL KL Hin Hp hN hg hsk hinv ha hrank hrout hra hc0 hD hM hS hbi1 hbi hbk1 hbk hbo1 hbo hIn0 hIn hInB hHp0 hAcc hprod hs hEL hKL hkey hcov1 hcov2

/-- **`glwe_automorphism_sub_decrypts`** — `glwe_automorphism_sub` (`res = σ_g(KS(a)) − a`): instance `f = .sub` of `glwe_automorphism_fused_decrypts`
(`sgA`, `sgB` evaluate by `simp`: `sgA_*`, `sgB_*`). -/
theorem glwe_automorphism_sub_decrypts (big128 : Bool) (N bout sout rout : Nat) (a : Ks.Ct) (key : Ks.Key)
    (sk : List Poly) (gInv : Int) (EL KL : ℕ → ℕ → Poly) (Hin Hp : Int)
    (hN : 0 < N) (hg : GalOk key.p N) (hsk : Ks.AllLen N sk) (hinv : ∀ s ∈ sk, σ key.p (σ gInv s) = s)
    (ha : GWF N a) (hrank : a.rank = key.rankIn) (hrout : rout = key.rankOut) (hra : a.rank = rout) (hc0 : 0 < key.mat.colsOut)
    (hD : 1 ≤ key.dsize) (hM : ∀ j q, (key.mat.entry j q).length = N) (hS : key.mat.rows * key.dsize ≤ key.mat.size)
    (hbi1 : 1 ≤ a.base2k) (hbi : a.base2k ≤ 62) (hbk1 : 1 ≤ key.base2k) (hbk : key.base2k ≤ 62) (hbo1 : 1 ≤ bout) (hbo : bout ≤ 62)
    (hIn0 : 0 ≤ Hin) (hIn : Hin + 8 ≤ 2 ^ 62) (hInB : ∀ c ∈ a.cols, ∀ l ∈ c, ∀ x ∈ l, |x| ≤ Hin)
    (hHp0 : 0 ≤ Hp) (hAcc : Hp + 2 * (Hin + 2 ^ key.base2k) + 8 ≤ 2 ^ (bitsOf big128 - 2))
    (hprod : ∀ aConv, Ks.convIn a key = .ok aConv → ∀ i, i < rout + 1 → ∀ l ∈ (prodOf rout aConv key).act i, ∀ x ∈ l, |x| ≤ Hp)
    (hs : key.mat.colsIn ≤ sk.length)
    (hEL : ∀ i r, (EL i r).length = N) (hKL : ∀ i r, (KL i r).length = N)
    (hkey : ∀ i, i < key.mat.colsIn → ∀ r, r < key.mat.rows →
      Gadget.val (Ks.radix N key.base2k) key.mat.size (Ks.keyPhase N (sk.map (σ gInv)) key.mat i r) =
        Ks.ι N (sk.getD i []) * Ks.radix N key.base2k ^ (key.mat.size - (r + 1) * key.dsize) + Ks.ι N (EL i r)
          + Ks.radix N key.base2k ^ key.mat.size * Ks.ι N (KL i r))
    (hcov1 : convSize a key ≤ key.mat.size) (hcov2 : convSize a key ≤ key.mat.rows * key.dsize) :
    ∃ res aConv, Ks.automorphismFused .sub big128 (Ks.zeroBuf N (rout + 1) key.size) bout sout rout a key = .ok res ∧
      Ks.convIn a key = .ok aConv ∧ GWF N res ∧ res.base2k = bout ∧ res.size = sout ∧ res.rank = rout ∧
      ∃ (E1 E3 : Poly) (Q : Ks.R N), E1.length = N ∧ E3.length = N ∧
        normInf E1 ≤ (1 + snorm (min a.rank sk.length) sk) * C02.normTol (key.base2k * convSize a key) (a.base2k * a.size) ∧
        normInf E3 ≤ (1 + snorm (min rout sk.length) sk) * C02.normTol (bout * sout) (key.base2k * key.mat.size) ∧
        (2 : Ks.R N) ^ (a.base2k * a.size + key.base2k * key.mat.size) * Ks.ι N (valP bout N (phase sk res))
          = ((sgA .sub : ℤ) : Ks.R N) *
              ((2 : Ks.R N) ^ (bout * sout + key.base2k * key.mat.size) * Ks.ι N (σ key.p (valP a.base2k N (phase sk a)))
                + Ks.ι N (σ key.p (ksErr (2 ^ (bout * sout + key.base2k * (key.mat.size - convSize a key)))
                    (2 ^ (a.base2k * a.size + bout * sout)) 0 E1 (Ks.errL N key.base2k (aDftOf aConv) key EL)
                    (Ks.dropL N key.base2k (sk.map (σ gInv)) (aDftOf aConv) key) (zeroP N))))
            + ((sgB .sub : ℤ) : Ks.R N) *
              ((2 : Ks.R N) ^ (bout * sout + key.base2k * key.mat.size) * Ks.ι N (valP a.base2k N (phase sk a))
                + Ks.ι N (polyScale (2 ^ (bout * sout + key.base2k * (key.mat.size - convSize a key))) E1))
            + Ks.ι N (polyScale (2 ^ (a.base2k * a.size)) E3)
            + (2 : Ks.R N) ^ (a.base2k * a.size + bout * sout + key.base2k * key.mat.size) * Q ∧
        normInf (σ key.p (ksErr (2 ^ (bout * sout + key.base2k * (key.mat.size - convSize a key)))
                    (2 ^ (a.base2k * a.size + bout * sout)) 0 E1 (Ks.errL N key.base2k (aDftOf aConv) key EL)
                    (Ks.dropL N key.base2k (sk.map (σ gInv)) (aDftOf aConv) key) (zeroP N)))
          ≤ 2 ^ (bout * sout + key.base2k * (key.mat.size - convSize a key)) *
              ((1 + snorm (min a.rank sk.length) sk) * C02.normTol (key.base2k * convSize a key) (a.base2k * a.size))
            + 2 ^ (a.base2k * a.size + bout * sout) * gadgetBound N key.base2k (aDftOf aConv) key EL
            + 2 ^ (a.base2k * a.size + bout * sout) * dropBound N key.base2k (sk.map (σ gInv)) (aDftOf aConv) key :=
  glwe_automorphism_fused_decrypts .sub big128 N bout sout rout a key sk gInv EL KL Hin Hp hN hg hsk hinv ha hrank hrout hra hc0 hD hM hS hbi1 hbi hbk1 hbk hbo1 hbo hIn0 hIn hInB hHp0 hAcc hprod hs hEL hKL hkey hcov1 hcov2

/-- **`glwe_automorphism_sub_negate_decrypts`** — `glwe_automorphism_sub_negate` (`res = a − σ_g(KS(a))`): instance `f = .subNegate` of `glwe_automorphism_fused_decrypts`
(`sgA`, `sgB` evaluate by `simp`: `sgA_*`, `sgB_*`). -/
theorem glwe_automorphism_sub_negate_decrypts (big128 : Bool) (N bout sout rout : Nat) (a : Ks.Ct) (key : Ks.Key)
    (sk : List Poly) (gInv : Int) (EL KL : ℕ → ℕ → Poly) (Hin Hp : Int)
    (hN : 0 < N) (hg : GalOk key.p N) (hsk : Ks.AllLen N sk) (hinv : ∀ s ∈ sk, σ key.p (σ gInv s) = s)
    (ha : GWF N a) (hrank : a.rank = key.rankIn) (hrout : rout = key.rankOut) (hra : a.rank = rout) (hc0 : 0 < key.mat.colsOut)
    (hD : 1 ≤ key.dsize) (hM : ∀ j q, (key.mat.entry j q).length = N) (hS : key.mat.rows * key.dsize ≤ key.mat.size)
    (hbi1 : 1 ≤ a.base2k) (hbi : a.base2k ≤ 62) (hbk1 : 1 ≤ key.base2k) (hbk : key.base2k ≤ 62) (hbo1 : 1 ≤ bout) (hbo : bout ≤ 62)
    (hIn0 : 0 ≤ Hin) (hIn : Hin + 8 ≤ 2 ^ 62) (hInB : ∀ c ∈ a.cols, ∀ l ∈ c, ∀ x ∈ l, |x| ≤ Hin)
    (hHp0 : 0 ≤ Hp) (hAcc : Hp + 2 * (Hin + 2 ^ key.base2k) + 8 ≤ 2 ^ (bitsOf big128 - 2))
    (hprod : ∀ aConv, Ks.convIn a key = .ok aConv → ∀ i, i < rout + 1 → ∀ l ∈ (prodOf rout aConv key).act i, ∀ x ∈ l, |x| ≤ Hp)
    (hs : key.mat.colsIn ≤ sk.length)
    (hEL : ∀ i r, (EL i r).length = N) (hKL : ∀ i r, (KL i r).length = N)
    (hkey : ∀ i, i < key.mat.colsIn → ∀ r, r < key.mat.rows →
      Gadget.val (Ks.radix N key.base2k) key.mat.size (Ks.keyPhase N (sk.map (σ gInv)) key.mat i r) =
        Ks.ι N (sk.getD i []) * Ks.radix N key.base2k ^ (key.mat.size - (r + 1) * key.dsize) + Ks.ι N (EL i r)
          + Ks.radix N key.base2k ^ key.mat.size * Ks.ι N (KL i r))
    (hcov1 : convSize a key ≤ key.mat.size) (hcov2 : convSize a key ≤ key.mat.rows * key.dsize) :
    ∃ res aConv, Ks.automorphismFused .subNegate big128 (Ks.zeroBuf N (rout + 1) key.size) bout sout rout a key = .ok res ∧
      Ks.convIn a key = .ok aConv ∧ GWF N res ∧ res.base2k = bout ∧ res.size = sout ∧ res.rank = rout ∧
      ∃ (E1 E3 : Poly) (Q : Ks.R N), E1.length = N ∧ E3.length = N ∧
        normInf E1 ≤ (1 + snorm (min a.rank sk.length) sk) * C02.normTol (key.base2k * convSize a key) (a.base2k * a.size) ∧
        normInf E3 ≤ (1 + snorm (min rout sk.length) sk) * C02.normTol (bout * sout) (key.base2k * key.mat.size) ∧
        (2 : Ks.R N) ^ (a.base2k * a.size + key.base2k * key.mat.size) * Ks.ι N (valP bout N (phase sk res))
          = ((sgA .subNegate : ℤ) : Ks.R N) *
              ((2 : Ks.R N) ^ (bout * sout + key.base2k * key.mat.size) * Ks.ι N (σ key.p (valP a.base2k N (phase sk a)))
                + Ks.ι N (σ key.p (ksErr (2 ^ (bout * sout + key.base2k * (key.mat.size - convSize a key)))
                    (2 ^ (a.base2k * a.size + bout * sout)) 0 E1 (Ks.errL N key.base2k (aDftOf aConv) key EL)
                    (Ks.dropL N key.base2k (sk.map (σ gInv)) (aDftOf aConv) key) (zeroP N))))
            + ((sgB .subNegate : ℤ) : Ks.R N) *
              ((2 : Ks.R N) ^ (bout * sout + key.base2k * key.mat.size) * Ks.ι N (valP a.base2k N (phase sk a))
                + Ks.ι N (polyScale (2 ^ (bout * sout + key.base2k * (key.mat.size - convSize a key))) E1))
            + Ks.ι N (polyScale (2 ^ (a.base2k * a.size)) E3)
            + (2 : Ks.R N) ^ (a.base2k * a.size + bout * sout + key.base2k * key.mat.size) * Q ∧
        normInf (σ key.p (ksErr (2 ^ (bout * sout + key.base2k * (key.mat.size - convSize a key)))
                    (2 ^ (a.base2k * a.size + bout * sout)) 0 E1 (Ks.errL N key.base2k (aDftOf aConv) key EL)
                    (Ks.dropL N key.base2k (sk.map (σ gInv)) (aDftOf aConv) key) (zeroP N)))
          ≤ 2 ^ (bout * sout + key.base2k * (key.mat.size - convSize a key)) *
              ((1 + snorm (min a.rank sk.length) sk) * C02.normTol (key.base2k * convSize a key) (a.base2k * a.size))
            + 2 ^ (a.base2k * a.size + bout * sout) * gadgetBound N key.base2k (aDftOf aConv) key EL
            + 2 ^ (a.base2k * a.size + bout * sout) * dropBound N key.base2k (sk.map (σ gInv)) (aDftOf aConv) key :=
  glwe_automorphism_fused_decrypts .subNegate big128 N bout sout rout a key sk gInv EL KL Hin Hp hN hg hsk hinv ha hrank hrout hra hc0 hD hM hS hbi1 hbi hbk1 hbk hbo1 hbo hIn0 hIn hInB hHp0 hAcc hprod hs hEL hKL hkey hcov1 hcov2

/-- **the in-place fused forms** `glwe_automorphism_{add,sub,sub_negate}_assign(res, key)` (`a = res`): the same function with the result shape of the
input (`f = .add / .sub / .subNegate`). -/
theorem glwe_automorphism_fused_assign_decrypts (f : Ks.Fused) (big128 : Bool) (N : Nat) (a : Ks.Ct) (key : Ks.Key)
    (sk : List Poly) (gInv : Int) (EL KL : ℕ → ℕ → Poly) (Hin Hp : Int)
    (hN : 0 < N) (hg : GalOk key.p N) (hsk : Ks.AllLen N sk) (hinv : ∀ s ∈ sk, σ key.p (σ gInv s) = s)
    (ha : GWF N a) (hrank : a.rank = key.rankIn) (hrout : a.rank = key.rankOut) (hc0 : 0 < key.mat.colsOut)
    (hD : 1 ≤ key.dsize) (hM : ∀ j q, (key.mat.entry j q).length = N) (hS : key.mat.rows * key.dsize ≤ key.mat.size)
    (hbi1 : 1 ≤ a.base2k) (hbi : a.base2k ≤ 62) (hbk1 : 1 ≤ key.base2k) (hbk : key.base2k ≤ 62)
    (hIn0 : 0 ≤ Hin) (hIn : Hin + 8 ≤ 2 ^ 62) (hInB : ∀ c ∈ a.cols, ∀ l ∈ c, ∀ x ∈ l, |x| ≤ Hin)
    (hHp0 : 0 ≤ Hp) (hAcc : Hp + 2 * (Hin + 2 ^ key.base2k) + 8 ≤ 2 ^ (bitsOf big128 - 2))
    (hprod : ∀ aConv, Ks.convIn a key = .ok aConv → ∀ i, i < a.rank + 1 → ∀ l ∈ (prodOf a.rank aConv key).act i, ∀ x ∈ l, |x| ≤ Hp)
    (hs : key.mat.colsIn ≤ sk.length)
    (hEL : ∀ i r, (EL i r).length = N) (hKL : ∀ i r, (KL i r).length = N)
    (hkey : ∀ i, i < key.mat.colsIn → ∀ r, r < key.mat.rows →
      Gadget.val (Ks.radix N key.base2k) key.mat.size (Ks.keyPhase N (sk.map (σ gInv)) key.mat i r) =
        Ks.ι N (sk.getD i []) * Ks.radix N key.base2k ^ (key.mat.size - (r + 1) * key.dsize) + Ks.ι N (EL i r)
          + Ks.radix N key.base2k ^ key.mat.size * Ks.ι N (KL i r))
    (hcov1 : convSize a key ≤ key.mat.size) (hcov2 : convSize a key ≤ key.mat.rows * key.dsize) :
    ∃ res aConv, Ks.automorphismFused f big128 (Ks.zeroBuf N (a.rank + 1) key.size) a.base2k a.size a.rank a key = .ok res ∧
      Ks.convIn a key = .ok aConv ∧ GWF N res ∧ res.base2k = a.base2k ∧ res.size = a.size ∧ res.rank = a.rank ∧
      ∃ (E1 E3 : Poly) (Q : Ks.R N), E1.length = N ∧ E3.length = N ∧
        normInf E1 ≤ (1 + snorm (min a.rank sk.length) sk) * C02.normTol (key.base2k * convSize a key) (a.base2k * a.size) ∧
        normInf E3 ≤ (1 + snorm (min a.rank sk.length) sk) * C02.normTol (a.base2k * a.size) (key.base2k * key.mat.size) ∧
        (2 : Ks.R N) ^ (a.base2k * a.size + key.base2k * key.mat.size) * Ks.ι N (valP a.base2k N (phase sk res))
          = (sgA f : Ks.R N) *
              ((2 : Ks.R N) ^ (a.base2k * a.size + key.base2k * key.mat.size) * Ks.ι N (σ key.p (valP a.base2k N (phase sk a)))
                + Ks.ι N (σ key.p (ksErr (2 ^ (a.base2k * a.size + key.base2k * (key.mat.size - convSize a key)))
                    (2 ^ (a.base2k * a.size + a.base2k * a.size)) 0 E1 (Ks.errL N key.base2k (aDftOf aConv) key EL)
                    (Ks.dropL N key.base2k (sk.map (σ gInv)) (aDftOf aConv) key) (zeroP N))))
            + (sgB f : Ks.R N) *
              ((2 : Ks.R N) ^ (a.base2k * a.size + key.base2k * key.mat.size) * Ks.ι N (valP a.base2k N (phase sk a))
                + Ks.ι N (polyScale (2 ^ (a.base2k * a.size + key.base2k * (key.mat.size - convSize a key))) E1))
            + Ks.ι N (polyScale (2 ^ (a.base2k * a.size)) E3)
            + (2 : Ks.R N) ^ (a.base2k * a.size + a.base2k * a.size + key.base2k * key.mat.size) * Q ∧
        normInf (σ key.p (ksErr (2 ^ (a.base2k * a.size + key.base2k * (key.mat.size - convSize a key)))
                    (2 ^ (a.base2k * a.size + a.base2k * a.size)) 0 E1 (Ks.errL N key.base2k (aDftOf aConv) key EL)
                    (Ks.dropL N key.base2k (sk.map (σ gInv)) (aDftOf aConv) key) (zeroP N)))
          ≤ 2 ^ (a.base2k * a.size + key.base2k * (key.mat.size - convSize a key)) *
              ((1 + snorm (min a.rank sk.length) sk) * C02.normTol (key.base2k * convSize a key) (a.base2k * a.size))
            + 2 ^ (a.base2k * a.size + a.base2k * a.size) * gadgetBound N key.base2k (aDftOf aConv) key EL
            + 2 ^ (a.base2k * a.size + a.base2k * a.size) * dropBound N key.base2k (sk.map (σ gInv)) (aDftOf aConv) key :=
  glwe_automorphism_fused_decrypts f big128 N a.base2k a.size a.rank a key sk gInv EL KL Hin Hp hN hg hsk hinv ha hrank hrout rfl hc0 hD hM hS hbi1 hbi hbk1 hbk hbi1 hbi hIn0 hIn hInB hHp0 hAcc hprod hs hEL hKL hkey hcov1 hcov2

/-- **`glwe_automorphism_assign_decrypts`** — the in-place form `glwe_automorphism_assign(res, key)`: the same function with the result shape of
the input (it requires `rank_in = rank_out`). -/
theorem glwe_automorphism_assign_decrypts (big128 : Bool) (N : Nat) (a : Ks.Ct) (key : Ks.Key) (sk : List Poly) (gInv : Int)
    (EL KL : ℕ → ℕ → Poly) (Hin Hp : Int)
    (hN : 0 < N) (hg : GalOk key.p N) (hsk : Ks.AllLen N sk) (hinv : ∀ s ∈ sk, σ key.p (σ gInv s) = s)
    (ha : GWF N a) (hrank : a.rank = key.rankIn) (hrout : a.rank = key.rankOut) (hc0 : 0 < key.mat.colsOut)
    (hD : 1 ≤ key.dsize) (hM : ∀ j q, (key.mat.entry j q).length = N) (hS : key.mat.rows * key.dsize ≤ key.mat.size)
    (hbi1 : 1 ≤ a.base2k) (hbi : a.base2k ≤ 62) (hbk1 : 1 ≤ key.base2k) (hbk : key.base2k ≤ 62)
    (hIn0 : 0 ≤ Hin) (hIn : Hin + 8 ≤ 2 ^ 62) (hInB : ∀ c ∈ a.cols, ∀ l ∈ c, ∀ x ∈ l, |x| ≤ Hin)
    (hHp0 : 0 ≤ Hp) (hAcc : Hp + (Hin + 2 ^ key.base2k) + 8 ≤ 2 ^ (bitsOf big128 - 2))
    (hprod : ∀ aConv, Ks.convIn a key = .ok aConv → ∀ i, i < a.rank + 1 → ∀ l ∈ (prodOf a.rank aConv key).act i, ∀ x ∈ l, |x| ≤ Hp)
    (hs : key.mat.colsIn ≤ sk.length)
    (hEL : ∀ i r, (EL i r).length = N) (hKL : ∀ i r, (KL i r).length = N)
    (hkey : ∀ i, i < key.mat.colsIn → ∀ r, r < key.mat.rows →
      Gadget.val (Ks.radix N key.base2k) key.mat.size (Ks.keyPhase N (sk.map (σ gInv)) key.mat i r) =
        Ks.ι N (sk.getD i []) * Ks.radix N key.base2k ^ (key.mat.size - (r + 1) * key.dsize) + Ks.ι N (EL i r)
          + Ks.radix N key.base2k ^ key.mat.size * Ks.ι N (KL i r))
    (hcov1 : convSize a key ≤ key.mat.size) (hcov2 : convSize a key ≤ key.mat.rows * key.dsize) :
    ∃ res aConv, Ks.automorphism big128 a.base2k a.size a.rank a key = .ok res ∧ Ks.convIn a key = .ok aConv ∧
      GWF N res ∧ res.base2k = a.base2k ∧ res.size = a.size ∧ res.rank = a.rank ∧
      ∃ (E1 E3 : Poly) (Q : Ks.R N), E1.length = N ∧ E3.length = N ∧
        normInf E1 ≤ (1 + snorm (min a.rank sk.length) sk) * C02.normTol (key.base2k * convSize a key) (a.base2k * a.size) ∧
        normInf E3 ≤ (1 + snorm (min a.rank (sk.map (σ gInv)).length) (sk.map (σ gInv))) *
          C02.normTol (a.base2k * a.size) (key.base2k * key.mat.size) ∧
        (2 : Ks.R N) ^ (a.base2k * a.size + key.base2k * key.mat.size) * Ks.ι N (valP a.base2k N (phase sk res))
          = (2 : Ks.R N) ^ (a.base2k * a.size + key.base2k * key.mat.size) * Ks.ι N (σ key.p (valP a.base2k N (phase sk a)))
            + Ks.ι N (σ key.p (ksErr (2 ^ (a.base2k * a.size + key.base2k * (key.mat.size - convSize a key))) (2 ^ (a.base2k * a.size + a.base2k * a.size))
                (2 ^ (a.base2k * a.size)) E1 (Ks.errL N key.base2k (aDftOf aConv) key EL)
                (Ks.dropL N key.base2k (sk.map (σ gInv)) (aDftOf aConv) key) E3))
            + (2 : Ks.R N) ^ (a.base2k * a.size + a.base2k * a.size + key.base2k * key.mat.size) * Q ∧
        normInf (σ key.p (ksErr (2 ^ (a.base2k * a.size + key.base2k * (key.mat.size - convSize a key))) (2 ^ (a.base2k * a.size + a.base2k * a.size))
                (2 ^ (a.base2k * a.size)) E1 (Ks.errL N key.base2k (aDftOf aConv) key EL)
                (Ks.dropL N key.base2k (sk.map (σ gInv)) (aDftOf aConv) key) E3))
          ≤ 2 ^ (a.base2k * a.size + key.base2k * (key.mat.size - convSize a key)) *
              ((1 + snorm (min a.rank sk.length) sk) * C02.normTol (key.base2k * convSize a key) (a.base2k * a.size))
            + 2 ^ (a.base2k * a.size + a.base2k * a.size) * gadgetBound N key.base2k (aDftOf aConv) key EL
            + 2 ^ (a.base2k * a.size + a.base2k * a.size) * dropBound N key.base2k (sk.map (σ gInv)) (aDftOf aConv) key
            + 2 ^ (a.base2k * a.size) *
              ((1 + snorm (min a.rank (sk.map (σ gInv)).length) (sk.map (σ gInv))) *
                C02.normTol (a.base2k * a.size) (key.base2k * key.mat.size)) :=
  glwe_automorphism_decrypts big128 N a.base2k a.size a.rank a key sk gInv EL KL Hin Hp hN hg hsk hinv ha hrank hrout hc0 hD hM hS hbi1 hbi hbk1 hbk hbi1 hbi hIn0 hIn hInB hHp0 hAcc hprod hs hEL hKL hkey hcov1 hcov2

/-! ### the contract hypothesis `hsig` of `Ks.automorphism_phase_err`, concretely -/

/-- **the `σ` step of `glwe_automorphism` on phases** — the concrete form of the contract hypothesis `hsig` of `Ks.automorphism_phase_err`
(KsCompose) for `M := Ks.R N`, `phOut r := ι(val(phase_sk r))`, `phMid r := ι(val(phase_{σ_{g⁻¹}(sk)} r))`, `sg := gal` (the Galois ring
endomorphism): it holds for every well-formed `r` whose coefficients are in the open `i64` range (no `i64::MIN`), which is what
`keyswitch_digits` provides for the result of the key switch.  (Without the range hypothesis `hsig` is false, so the abstract contract
theorems are superseded by `glwe_automorphism_decrypts` / `glwe_automorphism_fused_decrypts`.) -/
theorem automorphism_cols_phase (N : Nat) (g gInv : Int) (hN : 0 < N) (hg : GalOk g N) (r : Ks.Ct) (sk : List Poly)
    (hsk : Ks.AllLen N sk) (hinv : ∀ s ∈ sk, σ g (σ gInv s) = s) (gwR : GWF N r)
    (hdig : ∀ c ∈ r.cols, ∀ l ∈ c, ∀ x ∈ l, -(2 ^ 63) < x ∧ x < 2 ^ 63) :
    Ks.ι N (valP r.base2k N (phase sk (Ks.ctMapCols r (vecAutomorphismAssignW w64 g))))
      = gal N g hN hg (Ks.ι N (valP r.base2k N (phase (sk.map (σ gInv)) r))) := by
  have hcols : (Ks.ctMapCols r (vecAutomorphismAssignW w64 g)).cols = r.cols.map (fun c => c.map (σ g)) := by
    show r.cols.map (vecAutomorphismAssignW w64 g) = _
    apply List.map_congr_left
    intro c hc
    unfold vecAutomorphismAssignW
    apply List.map_congr_left
    intro l hl
    exact auto_w64_eq_id g l (hdig c hc l hl)
  have hph : phase sk (Ks.ctMapCols r (vecAutomorphismAssignW w64 g))
      = phase sk (Ks.mkCt r.base2k N (r.cols.map (fun c => c.map (σ g)))) := by
    rw [← hcols]; rfl
  have hph' : phase (sk.map (σ gInv)) r = phase (sk.map (σ gInv)) (Ks.mkCt r.base2k N r.cols) := rfl
  rw [hph, hph']
  exact ι_valP_phase_σ N g hN hg r.base2k r.size sk (sk.map (σ gInv)) r.cols gwR.2.1 gwR.2.2 (by simp)
    (allLen_map_σ gInv sk hsk) (secret_roundtrip g gInv sk hinv)

/-! ### closed instances (non-vacuity of the hypotheses, all discharged by evaluation) -/

/-- `N = 1`, `g = g⁻¹ = 1`: the rank-1 → rank-0 key `exKey3` (`dsize = 3`), key error defined by the key equation under `σ_{g⁻¹}(sk)` -/
def exELσ : ℕ → ℕ → Poly := Ks.keyErrL 1 4 (([[1]] : List Poly).map (σ 1)) Ks.AccumExample.exKey3 (fun _ => [1])

example (big128 : Bool) :
    ∃ res aConv, Ks.automorphism big128 3 2 0 exCt Ks.AccumExample.exKey3 = .ok res ∧ Ks.convIn exCt Ks.AccumExample.exKey3 = .ok aConv ∧
      GWF 1 res ∧ res.base2k = 3 ∧ res.size = 2 ∧ res.rank = 0 := by
  have hM := Ks.entry_length Ks.AccumExample.exKey3.mat 1 rfl (by decide)
  have hz : Ks.ι 1 [0] = 0 := Ks.ι_zero 1 1
  have hconv : Ks.convIn exCt Ks.AccumExample.exKey3 = .ok exCt := rfl
  obtain ⟨res, aConv, h1, h2, h3, h4, h5, h6, _⟩ :=
    glwe_automorphism_decrypts big128 1 3 2 0 exCt Ks.AccumExample.exKey3 [[1]] 1 exELσ (fun _ _ => [0]) 2 2
      (by decide) (galOk_one (by decide)) (by intro p hp; simp at hp; subst hp; rfl) (by intro s hs; simp at hs; subst hs; decide)
      (by decide) rfl rfl (by decide) (by decide) hM (by decide)
      (by decide) (by decide) (by decide) (by decide) (by decide) (by decide)
      (by norm_num) (by norm_num)
      (by intro c hc l hl x hx; revert x l c; decide)
      (by norm_num) (by cases big128 <;> (show (2 : ℤ) + (2 + 2 ^ 4) + 8 ≤ _; norm_num [bitsOf]))
      (by
        intro aConv h i hi l hl x hx
        rw [hconv] at h
        injection h with h
        subst h
        have hi0 : i = 0 := by omega
        subst hi0
        have key : ∀ l ∈ (prodOf 0 exCt Ks.AccumExample.exKey3).act 0, ∀ x ∈ l, |x| ≤ 2 := by decide
        exact key l hl x hx)
      (by decide)
      (fun i r => Ks.keyErrL_length 1 4 _ Ks.AccumExample.exKey3 _ i r (by decide) hM (fun _ => rfl))
      (fun _ _ => rfl)
      (by
        intro i hi r _
        have hi0 : i = 0 := by have : i < 1 := hi; omega
        subst hi0
        have h := Ks.keyErrL_spec 1 4 (([[1]] : List Poly).map (σ 1)) Ks.AccumExample.exKey3 (fun _ => [1]) 0 r (by decide) hM (fun _ => rfl)
        rw [hz, mul_zero, add_zero]
        exact h)
      (by decide) (by decide)
  exact ⟨res, aConv, h1, h2, h3, h4, h5, h6⟩

/-- `N = 2`, `g = 3 ≡ −1 (mod 4)` (so `g⁻¹ = 3`): a rank-1 → rank-1 automorphism key (`dsize = 1`, radix `2^4`, 2 limbs) -/
def exKeyG3 : Ks.Key := ⟨4, 1, 3, ⟨2, 1, 1, 2, 2, [[[[1, 0], [0, 0]], [[0, 0], [0, 0]]]]⟩⟩

/-- a rank-1 ciphertext of one limb, `N = 2` -/
def exCtN2 : Ks.Ct := Ks.mkCt 4 2 [[[2, 1]], [[1, 0]]]

/-- the secret `1 + X` -/
def exSk2 : List Poly := [[1, 1]]

def exELG3 : ℕ → ℕ → Poly := Ks.keyErrL 2 4 (exSk2.map (σ 3)) exKeyG3 (fun _ => [1, 1])

theorem exG3_ok : GalOk 3 2 := ⟨by decide, by decide⟩

theorem exG3_prod (aConv : Ks.Ct) (h : Ks.convIn exCtN2 exKeyG3 = .ok aConv) (i : Nat) (hi : i < 1 + 1) :
    ∀ l ∈ (prodOf 1 aConv exKeyG3).act i, ∀ x ∈ l, |x| ≤ 2 := by
  have hconv : Ks.convIn exCtN2 exKeyG3 = .ok exCtN2 := rfl
  rw [hconv] at h
  injection h with h
  subst h
  have : i = 0 ∨ i = 1 := by omega
  rcases this with rfl | rfl
  · decide
  · decide

theorem exG3_key (i : Nat) (hi : i < exKeyG3.mat.colsIn) (r : Nat) :
    Gadget.val (Ks.radix 2 exKeyG3.base2k) exKeyG3.mat.size (Ks.keyPhase 2 (exSk2.map (σ 3)) exKeyG3.mat i r) =
      Ks.ι 2 (exSk2.getD i []) * Ks.radix 2 exKeyG3.base2k ^ (exKeyG3.mat.size - (r + 1) * exKeyG3.dsize) + Ks.ι 2 (exELG3 i r)
        + Ks.radix 2 exKeyG3.base2k ^ exKeyG3.mat.size * Ks.ι 2 ([0, 0] : Poly) := by
  have hM := Ks.entry_length exKeyG3.mat 2 rfl (by decide)
  have hz : Ks.ι 2 [0, 0] = 0 := Ks.ι_zero 2 2
  have hi0 : i = 0 := by have : i < 1 := hi; omega
  subst hi0
  have h := Ks.keyErrL_spec 2 4 (exSk2.map (σ 3)) exKeyG3 (fun _ => [1, 1]) 0 r (by decide) hM (fun _ => rfl)
  rw [hz, mul_zero, add_zero]
  exact h

/-- `glwe_automorphism` with `g = 3` on `N = 2`, both accumulator widths -/
example (big128 : Bool) :
    ∃ res aConv, Ks.automorphism big128 3 2 1 exCtN2 exKeyG3 = .ok res ∧ Ks.convIn exCtN2 exKeyG3 = .ok aConv ∧
      GWF 2 res ∧ res.base2k = 3 ∧ res.size = 2 ∧ res.rank = 1 := by
  have hM := Ks.entry_length exKeyG3.mat 2 rfl (by decide)
  obtain ⟨res, aConv, h1, h2, h3, h4, h5, h6, _⟩ :=
    glwe_automorphism_decrypts big128 2 3 2 1 exCtN2 exKeyG3 exSk2 3 exELG3 (fun _ _ => [0, 0]) 2 2
      (by decide) exG3_ok (by intro p hp; simp [exSk2] at hp; subst hp; rfl) (by intro s hs; simp [exSk2] at hs; subst hs; decide)
      (by decide) rfl rfl (by decide) (by decide) hM (by decide)
      (by decide) (by decide) (by decide) (by decide) (by decide) (by decide)
      (by norm_num) (by norm_num)
      (by intro c hc l hl x hx; revert x l c; decide)
      (by norm_num) (by cases big128 <;> (show (2 : ℤ) + (2 + 2 ^ 4) + 8 ≤ _; norm_num [bitsOf]))
      exG3_prod (by decide)
      (fun i r => Ks.keyErrL_length 2 4 _ exKeyG3 _ i r (by decide) hM (fun _ => rfl))
      (fun _ _ => rfl)
      (fun i hi r _ => exG3_key i hi r)
      (by decide) (by decide)
  exact ⟨res, aConv, h1, h2, h3, h4, h5, h6⟩

/-- the three fused forms `glwe_automorphism_{add,sub,sub_negate}` with `g = 3` on `N = 2`, both accumulator widths -/
example (f : Ks.Fused) (big128 : Bool) :
    ∃ res aConv, Ks.automorphismFused f big128 (Ks.zeroBuf 2 (1 + 1) exKeyG3.size) 3 2 1 exCtN2 exKeyG3 = .ok res ∧
      Ks.convIn exCtN2 exKeyG3 = .ok aConv ∧ GWF 2 res ∧ res.base2k = 3 ∧ res.size = 2 ∧ res.rank = 1 := by
  have hM := Ks.entry_length exKeyG3.mat 2 rfl (by decide)
  obtain ⟨res, aConv, h1, h2, h3, h4, h5, h6, _⟩ :=
    glwe_automorphism_fused_decrypts f big128 2 3 2 1 exCtN2 exKeyG3 exSk2 3 exELG3 (fun _ _ => [0, 0]) 2 2
      (by decide) exG3_ok (by intro p hp; simp [exSk2] at hp; subst hp; rfl) (by intro s hs; simp [exSk2] at hs; subst hs; decide)
      (by decide) rfl rfl rfl (by decide) (by decide) hM (by decide)
      (by decide) (by decide) (by decide) (by decide) (by decide) (by decide)
      (by norm_num) (by norm_num)
      (by intro c hc l hl x hx; revert x l c; decide)
      (by norm_num) (by cases big128 <;> (show (2 : ℤ) + 2 * (2 + 2 ^ 4) + 8 ≤ _; norm_num [bitsOf]))
      exG3_prod (by decide)
      (fun i r => Ks.keyErrL_length 2 4 _ exKeyG3 _ i r (by decide) hM (fun _ => rfl))
      (fun _ _ => rfl)
      (fun i hi r _ => exG3_key i hi r)
      (by decide) (by decide)
  exact ⟨res, aConv, h1, h2, h3, h4, h5, h6⟩

end KsDec
