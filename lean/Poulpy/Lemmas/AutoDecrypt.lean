import Poulpy.Lemmas.KsDecrypt
import Poulpy.Lemmas.AutoMul
import Poulpy.Lemmas.KsCompose

/-!
# End-to-end decryption theorems of the executed GLWE automorphisms `Ks.automorphism`, `Ks.automorphismFused`
-/

namespace KsDec
open Hal Core Core.Ops C02L AutoMul

/-! ### `σ_g` permutes the coefficients up to sign -/

/-- every coefficient of `σ_g a` is `±` a coefficient of `a` -/
theorem σ_mem (g : Int) (a : Poly) (hn : 0 < a.length) (hg : GalOk g a.length) :
    ∀ x ∈ σ g a, ∃ y ∈ a, x = y ∨ x = -y := by
  intro x hx
  obtain ⟨j, hj, rfl⟩ := List.getElem_of_mem hx
  have hl : (σ g a).length = a.length := σ_length g a
  obtain ⟨A, B, hAB⟩ := galOk_bezout hn hg
  have e : (j : Int) = ((j : Int) * A) * g + 2 * (a.length : Int) * ((j : Int) * B) := by
    have : (j : Int) = (j : Int) * (g * A + 2 * (a.length : Int) * B) := by rw [hAB]; ring
    conv_lhs => rw [this]
    ring
  have h1 : (σ g a)[j] = coeffZ id (σ g a) (j : Int) := by
    rw [coeffZ_of_lt id _ j hj]
    simp [List.getD_eq_getElem?_getD, List.getElem?_eq_getElem hj]
  have h2 : coeffZ id (σ g a) (j : Int) = coeffZ id (σ g a) (((j : Int) * A) * g) :=
    coeffZ_congr id _ _ _ (by rw [hl]; conv_lhs => rw [e]; rw [Int.add_mul_emod_self_left])
  rw [h1, h2, σ_coeffZ g a hn hg]
  unfold coeffZ
  have hs0 : 0 ≤ ((j : Int) * A) % (2 * (a.length : Int)) := Int.emod_nonneg _ (by omega)
  have hs1 : ((j : Int) * A) % (2 * (a.length : Int)) < 2 * (a.length : Int) := Int.emod_lt_of_pos _ (by omega)
  generalize ((j : Int) * A) % (2 * (a.length : Int)) = s at hs0 hs1
  simp only [id]
  split
  next h =>
    refine ⟨_, ?_, Or.inl rfl⟩
    rw [List.getD_eq_getElem?_getD, List.getElem?_eq_getElem h]
    exact List.getElem_mem h
  next h =>
    have h' : s.toNat - a.length < a.length := by omega
    refine ⟨_, ?_, Or.inr rfl⟩
    rw [List.getD_eq_getElem?_getD, List.getElem?_eq_getElem h']
    exact List.getElem_mem h'

/-- a uniform bound on the coefficients is preserved by `σ_g` -/
theorem σ_bound (g : Int) (a : Poly) (hn : 0 < a.length) (hg : GalOk g a.length) (B : Int) (h : ∀ x ∈ a, |x| ≤ B) :
    ∀ x ∈ σ g a, |x| ≤ B := by
  intro x hx
  obtain ⟨y, hy, e | e⟩ := σ_mem g a hn hg x hx
  · rw [e]; exact h y hy
  · rw [e, abs_neg]; exact h y hy

/-- **`‖σ_g e‖∞ ≤ ‖e‖∞`** -/
theorem normInf_σ_le (g : Int) (a : Poly) (hn : 0 < a.length) (hg : GalOk g a.length) : normInf (σ g a) ≤ normInf a :=
  normInf_le_of_forall (σ_bound g a hn hg _ (fun _ hx => abs_le_normInf hx)) (normInf_nonneg a)

/-! ### `σ_g` under `ι` is the ring endomorphism `galHom` -/

/-- the Galois endomorphism of `R N` attached to an admissible `g` -/
noncomputable abbrev gal (N : Nat) (g : Int) (hN : 0 < N) (hg : GalOk g N) : Ks.R N →+* Ks.R N :=
  galHom N (g % (2 * (N : Int))).toNat (galOk_odd hN hg)

theorem ι_σ (N : Nat) (g : Int) (hN : 0 < N) (hg : GalOk g N) (p : Poly) (hp : p.length = N) :
    Ks.ι N (σ g p) = gal N g hN hg (Ks.ι N p) :=
  mk_auto N g p hp hN hg

theorem gal_two_pow (N : Nat) (g : Int) (hN : 0 < N) (hg : GalOk g N) (k : Nat) :
    gal N g hN hg ((2 : Ks.R N) ^ k) = (2 : Ks.R N) ^ k := by
  rw [map_pow, map_ofNat]

/-- the value of a column whose limbs went through `σ_g` -/
theorem ι_valP_map_σ (N : Nat) (g : Int) (hN : 0 < N) (hg : GalOk g N) (b : Nat) (c : Col) (hc : LimbsN N c) :
    Ks.ι N (valP b N (c.map (σ g))) = gal N g hN hg (Ks.ι N (valP b N c)) := by
  have hc' : LimbsN N (c.map (σ g)) := by
    intro l hl
    obtain ⟨l0, h0, rfl⟩ := List.mem_map.mp hl
    rw [σ_length]; exact hc l0 h0
  rw [Core.ι_valP N b _ hc', Core.ι_valP N b c hc, map_sum, List.length_map]
  apply Finset.sum_congr rfl
  intro k hk
  have hk' : k < c.length := Finset.mem_range.mp hk
  rw [map_mul, map_pow, gal_two_pow]
  congr 1
  have e1 : limbOr0 N (c.map (σ g)) k = σ g (c[k]) := by
    simp [limbOr0, List.getD_eq_getElem?_getD, List.getElem?_eq_getElem hk']
  have e2 : limbOr0 N c k = c[k] := by
    simp [limbOr0, List.getD_eq_getElem?_getD, List.getElem?_eq_getElem hk']
  rw [e1, e2, ι_σ N g hN hg _ (hc _ (List.getElem_mem hk'))]

end KsDec
