import Poulpy.Lemmas.KsDecrypt
import Poulpy.Lemmas.AutoMul
import Poulpy.Lemmas.KsCompose

/-!
# End-to-end decryption theorems of the executed GLWE automorphisms `Ks.automorphism`, `Ks.automorphismFused`
-/

namespace KsDec
open Hal Core Core.Ops C02L AutoMul

/-! ### `σ_g` permutes the coefficients up to sign -/

/-- every coefficient of `σ_g a` is `±` a coefficient of `a` -/
theorem σ_mem (g : Int) (a : Poly) (hn : 0 < a.length) (hg : GalOk g a.length) :
    ∀ x ∈ σ g a, ∃ y ∈ a, x = y ∨ x = -y := by
  intro x hx
  obtain ⟨j, hj, rfl⟩ := List.getElem_of_mem hx
  have hl : (σ g a).length = a.length := σ_length g a
  obtain ⟨A, B, hAB⟩ := galOk_bezout hn hg
  have e : (j : Int) = ((j : Int) * A) * g + 2 * (a.length : Int) * ((j : Int) * B) := by
    have : (j : Int) = (j : Int) * (g * A + 2 * (a.length : Int) * B) := by rw [hAB]; ring
    conv_lhs => rw [this]
    ring
  have h1 : (σ g a)[j] = coeffZ id (σ g a) (j : Int) := by
    rw [coeffZ_of_lt id _ j hj]
    simp [List.getD_eq_getElem?_getD, List.getElem?_eq_getElem hj]
  have h2 : coeffZ id (σ g a) (j : Int) = coeffZ id (σ g a) (((j : Int) * A) * g) :=
    coeffZ_congr id _ _ _ (by rw [hl]; conv_lhs => rw [e]; rw [Int.add_mul_emod_self_left])
  rw [h1, h2, σ_coeffZ g a hn hg]
  unfold coeffZ
  have hs0 : 0 ≤ ((j : Int) * A) % (2 * (a.length : Int)) := Int.emod_nonneg _ (by omega)
  have hs1 : ((j : Int) * A) % (2 * (a.length : Int)) < 2 * (a.length : Int) := Int.emod_lt_of_pos _ (by omega)
  generalize ((j : Int) * A) % (2 * (a.length : Int)) = s at hs0 hs1
  simp only [id]
  split
  next h =>
    refine ⟨_, ?_, Or.inl rfl⟩
    rw [List.getD_eq_getElem?_getD, List.getElem?_eq_getElem h]
    exact List.getElem_mem h
  next h =>
    have h' : s.toNat - a.length < a.length := by omega
    refine ⟨_, ?_, Or.inr rfl⟩
    rw [List.getD_eq_getElem?_getD, List.getElem?_eq_getElem h']
    exact List.getElem_mem h'

/-- a uniform bound on the coefficients is preserved by `σ_g` -/
theorem σ_bound (g : Int) (a : Poly) (hn : 0 < a.length) (hg : GalOk g a.length) (B : Int) (h : ∀ x ∈ a, |x| ≤ B) :
    ∀ x ∈ σ g a, |x| ≤ B := by
  intro x hx
  obtain ⟨y, hy, e | e⟩ := σ_mem g a hn hg x hx
  · rw [e]; exact h y hy
  · rw [e, abs_neg]; exact h y hy

/-- **`‖σ_g e‖∞ ≤ ‖e‖∞`** -/
theorem normInf_σ_le (g : Int) (a : Poly) (hn : 0 < a.length) (hg : GalOk g a.length) : normInf (σ g a) ≤ normInf a :=
  normInf_le_of_forall (σ_bound g a hn hg _ (fun _ hx => abs_le_normInf hx)) (normInf_nonneg a)

/-! ### `σ_g` under `ι` is the ring endomorphism `galHom` -/

/-- the Galois endomorphism of `R N` attached to an admissible `g` -/
noncomputable abbrev gal (N : Nat) (g : Int) (hN : 0 < N) (hg : GalOk g N) : Ks.R N →+* Ks.R N :=
  galHom N (g % (2 * (N : Int))).toNat (galOk_odd hN hg)

theorem ι_σ (N : Nat) (g : Int) (hN : 0 < N) (hg : GalOk g N) (p : Poly) (hp : p.length = N) :
    Ks.ι N (σ g p) = gal N g hN hg (Ks.ι N p) :=
  mk_auto N g p hp hN hg

theorem gal_two_pow (N : Nat) (g : Int) (hN : 0 < N) (hg : GalOk g N) (k : Nat) :
    gal N g hN hg ((2 : Ks.R N) ^ k) = (2 : Ks.R N) ^ k := by
  rw [map_pow, map_ofNat]

/-- the value of a column whose limbs went through `σ_g` -/
theorem ι_valP_map_σ (N : Nat) (g : Int) (hN : 0 < N) (hg : GalOk g N) (b : Nat) (c : Col) (hc : LimbsN N c) :
    Ks.ι N (valP b N (c.map (σ g))) = gal N g hN hg (Ks.ι N (valP b N c)) := by
  have hc' : LimbsN N (c.map (σ g)) := by
    intro l hl
    obtain ⟨l0, h0, rfl⟩ := List.mem_map.mp hl
    rw [σ_length]; exact hc l0 h0
  rw [Core.ι_valP N b _ hc', Core.ι_valP N b c hc, map_sum, List.length_map]
  apply Finset.sum_congr rfl
  intro k hk
  have hk' : k < c.length := Finset.mem_range.mp hk
  rw [map_mul, map_pow, gal_two_pow]
  congr 1
  have e1 : limbOr0 N (c.map (σ g)) k = σ g (c[k]) := by
    simp [limbOr0, List.getD_eq_getElem?_getD, List.getElem?_eq_getElem hk']
  have e2 : limbOr0 N c k = c[k] := by
    simp [limbOr0, List.getD_eq_getElem?_getD, List.getElem?_eq_getElem hk']
  rw [e1, e2, ι_σ N g hN hg _ (hc _ (List.getElem_mem hk'))]

theorem getD_map_col (cols : List Col) (f : Col → Col) (hf : f [] = []) (i : Nat) :
    (cols.map f).getD i [] = f (cols.getD i []) := by
  simp only [List.getD_eq_getElem?_getD, List.getElem?_map]
  cases cols[i]? with
  | none => exact hf.symm
  | some c => rfl

/-- **`σ_g` on every limb of every column**: the phase under `sk = σ_g(sk')` is the Galois image of the phase under `sk'` -/
theorem ι_valP_phase_σ (N : Nat) (g : Int) (hN : 0 < N) (hg : GalOk g N) (b S : Nat) (sk sk' : List Poly) (cols : List Col)
    (hne : cols ≠ []) (hwf : ∀ c ∈ cols, ColWF N S c) (hlen : sk.length = sk'.length) (hsk' : Ks.AllLen N sk')
    (hsk : ∀ i, i < sk'.length → sk.getD i [] = σ g (sk'.getD i [])) :
    Ks.ι N (valP b N (phase sk (Ks.mkCt b N (cols.map (fun c => c.map (σ g))))))
      = gal N g hN hg (Ks.ι N (valP b N (phase sk' (Ks.mkCt b N cols)))) := by
  have hwf' : ∀ c ∈ cols.map (fun c => c.map (σ g)), ColWF N S c := by
    intro c hc
    obtain ⟨c0, h0, rfl⟩ := List.mem_map.mp hc
    refine ⟨by rw [List.length_map]; exact (hwf c0 h0).1, ?_⟩
    intro l hl
    obtain ⟨l0, hl0, rfl⟩ := List.mem_map.mp hl
    rw [σ_length]; exact (hwf c0 h0).2 l0 hl0
  have hne' : cols.map (fun c => c.map (σ g)) ≠ [] := by simpa using hne
  have hlimbs : ∀ i, LimbsN N (cols.getD i []) := by
    intro i l hl
    by_cases hi : i < cols.length
    · rw [List.getD_eq_getElem?_getD, List.getElem?_eq_getElem hi] at hl
      exact (hwf _ (List.getElem_mem hi)).2 l hl
    · rw [List.getD_eq_getElem?_getD, List.getElem?_eq_none (by omega)] at hl
      simp at hl
  rw [Core.ι_valP_phase_cols N hN b S sk _ hne' hwf', Core.ι_valP_phase_cols N hN b S sk' _ hne hwf, map_add, map_sum,
    List.length_map, hlen, getD_map_col _ _ rfl, ι_valP_map_σ N g hN hg b _ (hlimbs 0)]
  congr 1
  apply Finset.sum_congr rfl
  intro i hi
  have hi' : i < sk'.length := by have := Finset.mem_range.mp hi; omega
  have hmem : sk'.getD i [] ∈ sk' := by
    rw [List.getD_eq_getElem?_getD, List.getElem?_eq_getElem hi']; exact List.getElem_mem hi'
  rw [map_mul, getD_map_col _ _ rfl, ι_valP_map_σ N g hN hg b _ (hlimbs (i + 1)), hsk i hi', ι_σ N g hN hg _ (hsk' _ hmem)]

theorem dropL_length (N : Nat) (b : Nat) (sk : List Poly) (aB : Buf) (key : Ks.Key) (hc0 : 0 < key.mat.colsOut)
    (hM : ∀ j q, (key.mat.entry j q).length = N) : (Ks.dropL N b sk aB key).length = N := by
  unfold Ks.dropL
  apply Ks.sumPolys_range_length
  intro i _
  apply Ks.sumPolys_range_length
  intro di _
  apply Ks.sumPolys_range_length
  intro r _
  apply Ks.sumPolys_range_length
  intro l _
  exact Ks.dropTermL_length N _ sk _ key i di r l hc0 hM

theorem ksErr_length (N : Nat) (c1 c2 c3 : ℤ) (E1 G D E3 : Poly) (h1 : E1.length = N) (h2 : G.length = N) (h3 : D.length = N)
    (h4 : E3.length = N) : (ksErr c1 c2 c3 E1 G D E3).length = N := by
  simp [ksErr, h1, h2, h3, h4]

/-- the digits of the result of the executed key switch are `≤ 2^bout − 1` (same hypotheses as `glwe_keyswitch_value`) -/
theorem keyswitch_digits (big128 : Bool) (N bout sout rout : Nat) (a : Ks.Ct) (key : Ks.Key) (sIn skOut : List Poly)
    (EL KL : ℕ → ℕ → Poly) (Hin Hp : Int)
    (hN : 0 < N) (ha : GWF N a) (hrank : a.rank = key.rankIn) (hrout : rout = key.rankOut) (hc0 : 0 < key.mat.colsOut)
    (hD : 1 ≤ key.dsize) (hM : ∀ j q, (key.mat.entry j q).length = N) (hS : key.mat.rows * key.dsize ≤ key.mat.size)
    (hbi1 : 1 ≤ a.base2k) (hbi : a.base2k ≤ 62) (hbk1 : 1 ≤ key.base2k) (hbk : key.base2k ≤ 62) (hbo1 : 1 ≤ bout) (hbo : bout ≤ 62)
    (hIn0 : 0 ≤ Hin) (hIn : Hin + 8 ≤ 2 ^ 62) (hInB : ∀ c ∈ a.cols, ∀ l ∈ c, ∀ x ∈ l, |x| ≤ Hin)
    (hHp0 : 0 ≤ Hp) (hAcc : Hp + (Hin + 2 ^ key.base2k) + 8 ≤ 2 ^ (bitsOf big128 - 2))
    (hprod : ∀ aConv, Ks.convIn a key = .ok aConv → ∀ i, i < rout + 1 → ∀ l ∈ (prodOf rout aConv key).act i, ∀ x ∈ l, |x| ≤ Hp)
    (hEL : ∀ i r, (EL i r).length = N) (hKL : ∀ i r, (KL i r).length = N)
    (hkey : ∀ i, i < key.mat.colsIn → ∀ r, r < key.mat.rows →
      Gadget.val (Ks.radix N key.base2k) key.mat.size (Ks.keyPhase N skOut key.mat i r) =
        Ks.ι N (sIn.getD i []) * Ks.radix N key.base2k ^ (key.mat.size - (r + 1) * key.dsize) + Ks.ι N (EL i r)
          + Ks.radix N key.base2k ^ key.mat.size * Ks.ι N (KL i r)) :
    ∀ res, Ks.keyswitch big128 bout sout rout a key = .ok res → ∀ c ∈ res.cols, ∀ l ∈ c, ∀ x ∈ l, |x| ≤ 2 ^ bout - 1 := by
  intro res hres
  have hrank' : a.rank = key.mat.colsIn := hrank
  have hrout' : rout + 1 = key.mat.colsOut := by rw [hrout]; unfold Ks.Key.rankOut; omega
  have hpk : (0 : Int) < 2 ^ key.base2k := by positivity
  obtain ⟨aConv, hconv, gwC, hbC, hrC, hsC, hdigC, hph1⟩ := convIn_phase N a key Hin ha hbi1 hbi hbk1 hbk hIn0 hIn hInB
  have hbodymem : aConv.cols.getD 0 [] ∈ aConv.cols := col_mem 0 (by rw [gwC.len]; omega)
  have hHadd : Hp + (Hin + 2 ^ key.base2k) < 2 ^ (bitsOf big128 - 1) := by
    have h2 : (2 : Int) ^ (bitsOf big128 - 2) ≤ 2 ^ (bitsOf big128 - 1) :=
      pow_le_pow_right₀ (by norm_num) (by omega)
    linarith
  obtain ⟨resBig, hks, hbn, hwfacc, hbacc, hval⟩ := keyswitchInternal_value big128 N rout aConv key sIn skOut EL KL Hp (Hin + 2 ^ key.base2k)
    hN gwC hbC (hrC.trans hrank') hrout' hD hM hS hEL hKL hkey (by linarith) hHadd (hprod aConv hconv) (hdigC _ hbodymem)
  have hne : accCols rout resBig ≠ [] := by
    intro h; have := congrArg List.length h; simp [accCols] at this
  obtain ⟨cs, hok, hlen, hcwf, hdig, _⟩ := norm_stage big128 N bout sout key.base2k key.mat.size (Hp + (Hin + 2 ^ key.base2k))
    (accCols rout resBig) hbo1 hbo hbk1 hbk (by linarith) hAcc hne hwfacc hbacc
  have hno : Ks.normOut big128 bout sout rout resBig key = .ok (Ks.mkCt bout N cs) := by
    unfold Ks.normOut
    have e : (List.range (rout + 1)).map (fun i => Ks.bigNormalize big128 bout sout (resBig.act i) key.base2k resBig.n)
        = (accCols rout resBig).map (fun c => Ks.bigNormalize big128 bout sout c key.base2k N) := by
      unfold accCols; rw [List.map_map, hbn]; rfl
    rw [e, hok, hbn]
    rfl
  have hok2 : Ks.keyswitch big128 bout sout rout a key = .ok (Ks.mkCt bout N cs) := by
    unfold Ks.keyswitch
    rw [if_neg (by simpa using hrank), if_neg (by simpa using hrout)]
    have hnn : a.n = aConv.n := by rw [ha.1, gwC.1]
    simp only [hconv, Ks.obind, hnn, hks, hno]
  rw [hok2] at hres
  injection hres with hres
  subst hres
  exact hdig

end KsDec
