import Poulpy.Lemmas.Fft64AvxNumeric

open Complex

namespace Fft64Avx
open F64 Fft64 NttMath

/-! ## `reim4_vec_mat1col_product_avx`: four real fused accumulators per slot -/

/-- exact partial sums `Σ ur·vr`, `Σ ur·vi`, `Σ ui·vi`, `Σ ui·vr` -/
structure E4 where
  r1 : ℝ
  i1 : ℝ
  r2 : ℝ
  i2 : ℝ

def stepE4 (e : E4) (u v : ℂ) : E4 := ⟨e.r1 + u.re * v.re, e.i1 + u.re * v.im, e.r2 + u.im * v.im, e.i2 + u.im * v.re⟩
def finE4 (e : E4) : ℂ := ⟨e.r1 - e.r2, e.i1 + e.i2⟩

theorem finE4_step (e : E4) (u v : ℂ) : finE4 (stepE4 e u v) = finE4 e + u * v := by
  apply Complex.ext <;> simp [finE4, stepE4] <;> ring

def Acc4Fin (s : Acc4) : Prop := Fin64 s.re1 ∧ Fin64 s.im1 ∧ Fin64 s.re2 ∧ Fin64 s.im2

/-- computed accumulators vs exact partial sums: each within `g`, each exact sum bounded by `A`, and the complex
partial sum bounded by `A` -/
def Rel4 (g A : ℝ) (s : Acc4) (e : E4) : Prop :=
  Acc4Fin s ∧ |val s.re1 - e.r1| ≤ g ∧ |val s.im1 - e.i1| ≤ g ∧ |val s.re2 - e.r2| ≤ g ∧ |val s.im2 - e.i2| ≤ g ∧
  |e.r1| ≤ A ∧ |e.i1| ≤ A ∧ |e.r2| ≤ A ∧ |e.i2| ≤ A ∧ ‖finE4 e‖ ≤ A

def Close4 (g A : ℝ) (sc : List Acc4) (se : List E4) : Prop := List.Forall₂ (Rel4 g A) sc se

/-- one fused accumulate `acc ← fl(x·y + acc)` against exact `e + X·Y` -/
theorem facc_step (acc x y : Nat) (e X Y g A εx Ax εy Ay : ℝ) (hacc : Fin64 acc) (hx : Fin64 x) (hy : Fin64 y)
    (h1 : |val acc - e| ≤ g) (h2 : |e| ≤ A) (hxe : |val x - X| ≤ εx) (hXa : |X| ≤ Ax) (hye : |val y - Y| ≤ εy) (hYa : |Y| ≤ Ay)
    (hAx : 1 ≤ Ax) (hAy : 1 ≤ Ay) (hg : 0 ≤ g) (hA : 0 ≤ A) (hεx : 0 ≤ εx) (hεy : 0 ≤ εy)
    (hbig : (A + g) + (Ax * Ay + ((Ax + εx) * εy + εx * Ay)) ≤ (2:ℝ) ^ (1001:Int)) :
    Fin64 (fma x y acc) ∧
    |val (fma x y acc) - (e + X * Y)| ≤ g + ((Ax + εx) * εy + εx * Ay) + u * ((A + g) + (Ax * Ay + ((Ax + εx) * εy + εx * Ay))) ∧
    |e + X * Y| ≤ A + Ax * Ay := by
  set q := (Ax + εx) * εy + εx * Ay with hq
  have hq0 : 0 ≤ q := by rw [hq]; positivity
  have hxm : |val x| ≤ Ax + εx := by have := abs_sub_abs_le_abs_sub (val x) X; linarith
  have hprod : |val x * val y - X * Y| ≤ q := by
    have e1 : val x * val y - X * Y = val x * (val y - Y) + (val x - X) * Y := by ring
    rw [e1]
    refine le_trans (abs_add_le _ _) ?_
    rw [abs_mul, abs_mul]
    have t1 : |val x| * |val y - Y| ≤ (Ax + εx) * εy := mul_le_mul hxm hye (abs_nonneg _) (by linarith)
    have t2 : |val x - X| * |Y| ≤ εx * Ay := mul_le_mul hxe hYa (abs_nonneg _) hεx
    linarith
  have hXY : |X * Y| ≤ Ax * Ay := by rw [abs_mul]; exact mul_le_mul hXa hYa (abs_nonneg _) (by linarith)
  have hsum : |val x * val y + val acc| ≤ (A + g) + (Ax * Ay + q) := by
    have e1 : val x * val y + val acc = (val x * val y - X * Y) + X * Y + (val acc - e) + e := by ring
    rw [e1]
    have := abs_add_le ((val x * val y - X * Y) + X * Y + (val acc - e)) e
    have := abs_add_le ((val x * val y - X * Y) + X * Y) (val acc - e)
    have := abs_add_le (val x * val y - X * Y) (X * Y)
    linarith
  have hlo : (2:ℝ) ^ (-1022:Int) ≤ (A + g) + (Ax * Ay + q) := by
    have : (2:ℝ) ^ (-1022:Int) ≤ 1 := zpow_le_one_of_nonpos₀ (by norm_num) (by norm_num)
    have : 1 ≤ Ax * Ay := by nlinarith
    linarith
  have hhi : (A + g) + (Ax * Ay + q) < (2:ℝ) ^ (1023:Int) := lt_of_le_of_lt hbig (two_pow_lt _ _ (by norm_num))
  obtain ⟨f, er⟩ := fma_err x y acc _ hx hy hacc hsum hlo hhi
  refine ⟨f, ?_, ?_⟩
  · have e1 : val (fma x y acc) - (e + X * Y) = (val (fma x y acc) - (val x * val y + val acc)) + (val x * val y - X * Y) + (val acc - e) := by ring
    rw [e1]
    have := abs_add_le ((val (fma x y acc) - (val x * val y + val acc)) + (val x * val y - X * Y)) (val acc - e)
    have := abs_add_le (val (fma x y acc) - (val x * val y + val acc)) (val x * val y - X * Y)
    linarith
  · have := abs_add_le e (X * Y); linarith


/-- input-error part of one product: `(Aa+Ea)·Eb + Ea·Ab` -/
noncomputable def qOf (Ea Aa Eb Ab : ℝ) : ℝ := (Aa + Ea) * Eb + Ea * Ab

theorem rel4_step (g A Ea Aa Eb Ab : ℝ) (hAa : 1 ≤ Aa) (hAb : 1 ≤ Ab) (hEa : 0 ≤ Ea) (hEb : 0 ≤ Eb) (hg : 0 ≤ g) (hA : 0 ≤ A)
    (hbig : (A + g) + (Aa * Ab + qOf Ea Aa Eb Ab) ≤ (2:ℝ) ^ (1001:Int))
    (s : Acc4) (e : E4) (uc vc : C64) (u v : ℂ) (hs : Rel4 g A s e)
    (hu : CFin uc ∧ ‖cval uc - u‖ ≤ Ea ∧ ‖u‖ ≤ Aa) (hv : CFin vc ∧ ‖cval vc - v‖ ≤ Eb ∧ ‖v‖ ≤ Ab) :
    Rel4 (accStep (qOf Ea Aa Eb Ab) (Aa * Ab) (g, A)).1 (accStep (qOf Ea Aa Eb Ab) (Aa * Ab) (g, A)).2
      (mat1colStep s uc vc) (stepE4 e u v) := by
  obtain ⟨⟨f1, f2, f3, f4⟩, g1, g2, g3, g4, a1, a2, a3, a4, an⟩ := hs
  obtain ⟨fu, eu, nu⟩ := hu
  obtain ⟨fv, ev, nv⟩ := hv
  have ur := le_trans (abs_re_le_norm (cval uc - u)) eu
  have ui := le_trans (abs_im_le_norm (cval uc - u)) eu
  have vr := le_trans (abs_re_le_norm (cval vc - v)) ev
  have vi := le_trans (abs_im_le_norm (cval vc - v)) ev
  simp only [Complex.sub_re, Complex.sub_im, cval_re, cval_im] at ur ui vr vi
  have nur := le_trans (abs_re_le_norm u) nu
  have nui := le_trans (abs_im_le_norm u) nu
  have nvr := le_trans (abs_re_le_norm v) nv
  have nvi := le_trans (abs_im_le_norm v) nv
  unfold qOf at hbig
  obtain ⟨k1, e1, b1⟩ := facc_step s.re1 uc.1 vc.1 e.r1 u.re v.re g A Ea Aa Eb Ab f1 fu.1 fv.1 g1 a1 ur nur vr nvr hAa hAb hg hA hEa hEb hbig
  obtain ⟨k2, e2, b2⟩ := facc_step s.im1 uc.1 vc.2 e.i1 u.re v.im g A Ea Aa Eb Ab f2 fu.1 fv.2 g2 a2 ur nur vi nvi hAa hAb hg hA hEa hEb hbig
  obtain ⟨k3, e3, b3⟩ := facc_step s.re2 uc.2 vc.2 e.r2 u.im v.im g A Ea Aa Eb Ab f3 fu.2 fv.2 g3 a3 ui nui vi nvi hAa hAb hg hA hEa hEb hbig
  obtain ⟨k4, e4, b4⟩ := facc_step s.im2 uc.2 vc.1 e.i2 u.im v.re g A Ea Aa Eb Ab f4 fu.2 fv.1 g4 a4 ui nui vr nvr hAa hAb hg hA hEa hEb hbig
  refine ⟨⟨k1, k2, k3, k4⟩, e1, e2, e3, e4, b1, b2, b3, b4, ?_⟩
  rw [finE4_step]
  refine le_trans (norm_add_le _ _) ?_
  rw [Complex.norm_mul]
  have : ‖u‖ * ‖v‖ ≤ Aa * Ab := mul_le_mul nu nv (norm_nonneg _) (by linarith)
  show _ ≤ A + Aa * Ab
  linarith

/-- one row on whole slot vectors -/
theorem close4_row (g A Ea Aa Eb Ab : ℝ) (hAa : 1 ≤ Aa) (hAb : 1 ≤ Ab) (hEa : 0 ≤ Ea) (hEb : 0 ≤ Eb) (hg : 0 ≤ g) (hA : 0 ≤ A)
    (hbig : (A + g) + (Aa * Ab + qOf Ea Aa Eb Ab) ≤ (2:ℝ) ^ (1001:Int)) :
    ∀ {sc : List Acc4} {se : List E4}, Close4 g A sc se → ∀ {uc vc : List C64} {u v : List ℂ}, Close Ea Aa uc u → Close Eb Ab vc v →
    Close4 (accStep (qOf Ea Aa Eb Ab) (Aa * Ab) (g, A)).1 (accStep (qOf Ea Aa Eb Ab) (Aa * Ab) (g, A)).2
      (mat1colRow sc uc vc) (List.zipWith (fun e uv => stepE4 e uv.1 uv.2) se (u.zip v)) := by
  intro sc se hs
  induction hs with
  | nil => intro _ _ _ _ _ _; simp [Close4, mat1colRow]
  | @cons s0 e0 _ _ h0 _ ih =>
    intro uc vc u v hu hv
    cases hu with
    | nil => simp [Close4, mat1colRow]
    | @cons u0c u0 _ _ hu0 hut =>
      cases hv with
      | nil => simp [Close4, mat1colRow]
      | @cons v0c v0 _ _ hv0 hvt =>
        simp only [mat1colRow, List.zip_cons_cons, List.zipWith_cons_cons]
        exact List.Forall₂.cons (rel4_step g A Ea Aa Eb Ab hAa hAb hEa hEb hg hA hbig s0 e0 u0c v0c u0 v0 h0 hu0 hv0) (ih hut hvt)

/-- accumulation over the rows -/
theorem fold_close4 (Ea Aa Eb Ab : ℝ) (hAa : 1 ≤ Aa) (hAb : 1 ≤ Ab) (hEa : 0 ≤ Ea) (hEb : 0 ≤ Eb) :
    ∀ {rowsC : List (List C64 × List C64)} {rowsE : List (List ℂ × List ℂ)},
      List.Forall₂ (fun rc re => Close Ea Aa rc.1 re.1 ∧ Close Eb Ab rc.2 re.2) rowsC rowsE →
    ∀ (g A : ℝ) (sc : List Acc4) (se : List E4), 0 ≤ g → 0 ≤ A → Close4 g A sc se →
      (accIter (qOf Ea Aa Eb Ab) (Aa * Ab) rowsC.length (g, A)).2 + (accIter (qOf Ea Aa Eb Ab) (Aa * Ab) rowsC.length (g, A)).1
        ≤ (2:ℝ) ^ (1001:Int) →
      Close4 (accIter (qOf Ea Aa Eb Ab) (Aa * Ab) rowsC.length (g, A)).1 (accIter (qOf Ea Aa Eb Ab) (Aa * Ab) rowsC.length (g, A)).2
        (rowsC.foldl (fun S r => mat1colRow S r.1 r.2) sc)
        (rowsE.foldl (fun S r => List.zipWith (fun e uv => stepE4 e uv.1 uv.2) S (r.1.zip r.2)) se) := by
  have hq : 0 ≤ qOf Ea Aa Eb Ab := by
    unfold qOf
    have h1 : 0 ≤ Aa + Ea := by linarith
    have h3 : 0 ≤ Ab := by linarith
    positivity
  have hap : 0 ≤ Aa * Ab := by positivity
  intro rowsC rowsE hrows
  induction hrows with
  | nil => intro g A sc se _ _ hc _; simpa [accIter] using hc
  | @cons rc re _ _ hr _ ih =>
    intro g A sc se hg hA hc hfin
    simp only [List.foldl_cons, List.length_cons, accIter]
    simp only [List.length_cons, accIter] at hfin
    obtain ⟨s1, s2, s3⟩ := accStep_mono _ _ hq hap (g, A) hg hA
    obtain ⟨_, _, i3⟩ := accIter_mono _ _ hq hap _ (accStep (qOf Ea Aa Eb Ab) (Aa * Ab) (g, A)) s1 s2
    have hS : (A + g) + (Aa * Ab + qOf Ea Aa Eb Ab) ≤ (2:ℝ) ^ (1001:Int) := by
      simp only at s3; linarith
    have step := close4_row g A Ea Aa Eb Ab hAa hAb hEa hEb hg hA hS hc hr.1 hr.2
    exact ih _ _ _ _ s1 s2 step hfin


/-- the final `re1 − re2`, `im1 + im2` -/
theorem close4_fin (g A : ℝ) (hg : 0 ≤ g) (hA : 0 ≤ A) (hbig : 2 * (A + g) ≤ (2:ℝ) ^ (1001:Int)) :
    ∀ {sc : List Acc4} {se : List E4}, Close4 g A sc se →
    Close (3 / 2 * (2 * g + u * (2 * (A + g)))) A (sc.map mat1colFin) (se.map finE4) := by
  intro sc se h
  unfold Close
  rw [List.forall₂_map_left_iff, List.forall₂_map_right_iff]
  refine List.Forall₂.imp ?_ h
  intro s e ⟨⟨f1, f2, f3, f4⟩, g1, g2, g3, g4, a1, a2, a3, a4, an⟩
  have hlt : 2 * (A + g) < (2:ℝ) ^ (1023:Int) := lt_of_le_of_lt hbig (two_pow_lt _ _ (by norm_num))
  have m1 : |val s.re1| ≤ A + g := by have := abs_sub_abs_le_abs_sub (val s.re1) e.r1; linarith
  have m2 : |val s.im1| ≤ A + g := by have := abs_sub_abs_le_abs_sub (val s.im1) e.i1; linarith
  have m3 : |val s.re2| ≤ A + g := by have := abs_sub_abs_le_abs_sub (val s.re2) e.r2; linarith
  have m4 : |val s.im2| ≤ A + g := by have := abs_sub_abs_le_abs_sub (val s.im2) e.i2; linarith
  obtain ⟨k1, e1⟩ := sub_err s.re1 s.re2 (2 * (A + g)) f1 f3 (by have := abs_sub (val s.re1) (val s.re2); linarith) hlt
  obtain ⟨k2, e2⟩ := add_err s.im1 s.im2 (2 * (A + g)) f2 f4 (by have := abs_add_le (val s.im1) (val s.im2); linarith) hlt
  have hu := u_pos
  refine ⟨⟨k1, k2⟩, ?_, an⟩
  apply norm_le_of_comp_abs _ _ (by positivity)
  · simp only [Complex.sub_re, cval_re, finE4, mat1colFin]
    have e' : val (sub s.re1 s.re2) - (e.r1 - e.r2) = (val (sub s.re1 s.re2) - (val s.re1 - val s.re2)) + (val s.re1 - e.r1) - (val s.re2 - e.r2) := by ring
    rw [e']
    have := abs_sub ((val (sub s.re1 s.re2) - (val s.re1 - val s.re2)) + (val s.re1 - e.r1)) (val s.re2 - e.r2)
    have := abs_add_le (val (sub s.re1 s.re2) - (val s.re1 - val s.re2)) (val s.re1 - e.r1)
    linarith
  · simp only [Complex.sub_im, cval_im, finE4, mat1colFin]
    have e' : val (add s.im1 s.im2) - (e.i1 + e.i2) = (val (add s.im1 s.im2) - (val s.im1 + val s.im2)) + (val s.im1 - e.i1) + (val s.im2 - e.i2) := by ring
    rw [e']
    have := abs_add_le ((val (add s.im1 s.im2) - (val s.im1 + val s.im2)) + (val s.im1 - e.i1)) (val s.im2 - e.i2)
    have := abs_add_le (val (add s.im1 s.im2) - (val s.im1 + val s.im2)) (val s.im1 - e.i1)
    linarith

/-- the four real partial sums recombine to the complex accumulation of the reference analysis -/
theorem fin_fold (rowsE : List (List ℂ × List ℂ)) : ∀ (se : List E4),
    (rowsE.foldl (fun S r => List.zipWith (fun e uv => stepE4 e uv.1 uv.2) S (r.1.zip r.2)) se).map finE4 =
    rowsE.foldl (fun s r => List.zipWith (fun s uv => s + uv.1 * uv.2) s (r.1.zip r.2)) (se.map finE4) := by
  induction rowsE with
  | nil => intro se; rfl
  | cons r rs ih =>
    intro se
    simp only [List.foldl_cons]
    rw [ih]
    congr 1
    generalize r.1.zip r.2 = l
    induction se generalizing l with
    | nil => simp
    | cons e es ihe =>
      cases l with
      | nil => simp
      | cons x xs => simp only [List.zipWith_cons_cons, List.map_cons, finE4_step, ihe]

theorem close4_zero (n : Nat) : Close4 0 0 (List.replicate n ⟨0, 0, 0, 0⟩) (List.replicate n ⟨0, 0, 0, 0⟩) := by
  have f0 : Fin64 0 := ⟨⟨false, 0, -1074⟩, by decide⟩
  have v0 : val 0 = 0 := by rw [val_of_decode (by decide : decode 0 = some ⟨false, 0, -1074⟩)]; simp [Dy.val]
  unfold Close4
  induction n with
  | zero => simp
  | succ n ih =>
    rw [List.replicate_succ, List.replicate_succ]
    refine List.Forall₂.cons ⟨⟨f0, f0, f0, f0⟩, ?_⟩ ih
    have hz : (⟨0, 0⟩ : ℂ) = 0 := by apply Complex.ext <;> simp
    simp [v0, finE4, hz]

theorem allOk_map {α β : Type} (f : α → Outcome β) (g : α → β) (l : List α) (h : ∀ a ∈ l, f a = .ok (g a)) :
    allOk (l.map f) = .ok (l.map g) := by
  induction l with
  | nil => rfl
  | cons a as ih =>
    simp only [List.map_cons]
    rw [h a (by simp)]
    unfold allOk
    rw [ih (fun b hb => h b (by simp [hb]))]


/-- input-error part of one slot product in the pipeline -/
noncomputable def QP (K : Nat) (τ Ma Mb : ℝ) : ℝ := qOf (EF K τ Ma) (AF K Ma) (EF K τ Mb) (AF K Mb)
/-- (error, magnitude) of each of the four real accumulators after `R` rows -/
noncomputable def accRA (K R : Nat) (τ Ma Mb : ℝ) : ℝ × ℝ := accIter (QP K τ Ma Mb) (AP K Ma Mb) R (0, 0)
/-- error of the recombined complex accumulator -/
noncomputable def EaccA (K R : Nat) (τ Ma Mb : ℝ) : ℝ :=
  3 / 2 * (2 * (accRA K R τ Ma Mb).1 + u * (2 * ((accRA K R τ Ma Mb).2 + (accRA K R τ Ma Mb).1)))

/-- **magnitude domain of the FFT64Avx vmp pipeline** (one output column through `reim4_vec_mat1col_product_avx`) -/
structure VmpDomainAvx (K R : Nat) (τ Ma Mb : ℝ) : Prop where
  τ0 : 0 ≤ τ
  τ1 : τ ≤ 1
  K900 : K ≤ 900
  R1 : 1 ≤ R
  Ma1 : 1 ≤ Ma
  Mb1 : 1 ≤ Mb
  ra : 2 ^ K * (1 + γf τ / 2) ^ K * (A0 Ma + 0) ≤ (2:ℝ) ^ (999:Int)
  rb : 2 ^ K * (1 + γf τ / 2) ^ K * (A0 Mb + 0) ≤ (2:ℝ) ^ (999:Int)
  racc : 2 * ((accRA K R τ Ma Mb).2 + (accRA K R τ Ma Mb).1) ≤ (2:ℝ) ^ (1001:Int)
  ri : 2 ^ K * (1 + γi τ / 2) ^ K * ((accRA K R τ Ma Mb).2 + EaccA K R τ Ma Mb) ≤ (2:ℝ) ^ (997:Int)
  r62 : (accRA K R τ Ma Mb).2 ≤ (2:ℝ) ^ (62:Nat)
  main : errB (γi τ) K (accRA K R τ Ma Mb).2 (EaccA K R τ Ma Mb) / 2 ^ K * (1 + u) + u * ((accRA K R τ Ma Mb).2 + 1) + η < 1 / 2

theorem dftOfAvx_eq (K : Nat) (omg : Array Nat) (a : List Int) (ha : ∀ x ∈ a, x.natAbs ≤ 2 ^ 50 - 1) :
    dftOfAvx K omg a = .ok (fwdAvx K omg (halves K (fromZnx a))) := by
  unfold dftOfAvx; rw [fromZnxAvx_eq a ha]

/-- **`fft64avx_vmp_exact`** (one output column, any number of rows, `ncols` odd: the `mat1col` kernel) -/
theorem vmpAvx_pipeline_exact (K : Nat) (hK2 : 2 ≤ K) (omg iomg : Array Nat) (τ Ma Mb : ℝ) (rows : List (Poly × Poly))
    (hacc : TableAccurate τ K omg iomg)
    (hlen : ∀ r ∈ rows, r.1.length = 2 ^ (K + 1) ∧ r.2.length = 2 ^ (K + 1))
    (hM : ∀ r ∈ rows, (∀ c ∈ r.1, c.natAbs ≤ 2 ^ 50 - 1 ∧ |(c:ℝ)| ≤ Ma) ∧ (∀ c ∈ r.2, c.natAbs ≤ 2 ^ 50 - 1 ∧ |(c:ℝ)| ≤ Mb))
    (hdom : VmpDomainAvx K rows.length τ Ma Mb) :
    vmpPipelineAvx K omg iomg 1 rows = .ok (Hal.sumPolys (2 ^ (K + 1)) (rows.map (fun r => Hal.negMul r.1 r.2))) := by
  have a1 := accF_of_flat τ _ K hacc.1 K 0 0 (by omega) (by norm_num)
  have a2 := accI_of_flat τ _ K hacc.2 K 0 0 (by omega) (by norm_num)
  rw [jval_zero] at a1 a2
  have hγ := γf_nonneg τ hdom.τ0
  have hAFa : 1 ≤ AF K Ma := by
    unfold AF A0; have : (1:ℝ) ≤ 2 ^ K := one_le_pow₀ (by norm_num); have := hdom.Ma1; nlinarith
  have hAFb : 1 ≤ AF K Mb := by
    unfold AF A0; have : (1:ℝ) ≤ 2 ^ K := one_le_pow₀ (by norm_num); have := hdom.Mb1; nlinarith
  have hEFa : 0 ≤ EF K τ Ma := errB_nonneg _ hγ _ _ _ (by unfold A0; have := hdom.Ma1; linarith) le_rfl
  have hEFb : 0 ≤ EF K τ Mb := errB_nonneg _ hγ _ _ _ (by unfold A0; have := hdom.Mb1; linarith) le_rfl
  -- the rows
  set gU := fun r : Poly × Poly => fwdAvx K omg (halves K (fromZnx r.1)) with hgU
  set gV := fun r : Poly × Poly => fwdAvx K omg (halves K (fromZnx r.2)) with hgV
  have hus : allOk (rows.map (fun r => dftOfAvx K omg r.1)) = .ok (rows.map gU) :=
    allOk_map _ gU rows (fun r hr => dftOfAvx_eq K omg r.1 (fun x hx => ((hM r hr).1 x hx).1))
  have hvs : allOk (rows.map (fun r => dftOfAvx K omg r.2)) = .ok (rows.map gV) :=
    allOk_map _ gV rows (fun r hr => dftOfAvx_eq K omg r.2 (fun x hx => ((hM r hr).2 x hx).1))
  set rowsC := (rows.map gU).zip (rows.map gV) with hrC
  set rowsE := rows.map (fun r => (fwdE K (1 / 4) (packC (2 ^ K) (r.1.map cc)), fwdE K (1 / 4) (packC (2 ^ K) (r.2.map cc)))) with hrE
  have hrCmap : rowsC = rows.map (fun r => (gU r, gV r)) := by
    rw [hrC, List.zip_map']
  have hrel : List.Forall₂ (fun rc re => Close (EF K τ Ma) (AF K Ma) rc.1 re.1 ∧ Close (EF K τ Mb) (AF K Mb) rc.2 re.2) rowsC rowsE := by
    rw [hrCmap, hrE, List.forall₂_map_left_iff, List.forall₂_map_right_iff, List.forall₂_same]
    intro r hr
    obtain ⟨f1, q1, _, c1⟩ := dftAvx_close K omg τ Ma r.1 hdom.τ0 hdom.τ1 hdom.Ma1 a1 (hlen r hr).1 (hM r hr).1 hdom.ra
    obtain ⟨f2, q2, _, c2⟩ := dftAvx_close K omg τ Mb r.2 hdom.τ0 hdom.τ1 hdom.Mb1 a1 (hlen r hr).2 (hM r hr).2 hdom.rb
    rw [dftOfAvx_eq K omg r.1 (fun x hx => ((hM r hr).1 x hx).1)] at q1
    rw [dftOfAvx_eq K omg r.2 (fun x hx => ((hM r hr).2 x hx).1)] at q2
    cases q1; cases q2
    exact ⟨c1, c2⟩
  have hlenC : rowsC.length = rows.length := by rw [hrCmap]; simp
  have hQeq : qOf (EF K τ Ma) (AF K Ma) (EF K τ Mb) (AF K Mb) = QP K τ Ma Mb := rfl
  have hAPeq : AF K Ma * AF K Mb = AP K Ma Mb := rfl
  have hq0 : 0 ≤ QP K τ Ma Mb := by
    unfold QP qOf
    have h1 : 0 ≤ AF K Ma + EF K τ Ma := by linarith
    have h3 : 0 ≤ AF K Mb := by linarith
    positivity
  have hap : 0 ≤ AP K Ma Mb := by unfold AP; positivity
  obtain ⟨hg0, hA0', hmono⟩ := accIter_mono _ _ hq0 hap rows.length (0, 0) le_rfl le_rfl
  change 0 ≤ (accRA K rows.length τ Ma Mb).1 at hg0
  change 0 ≤ (accRA K rows.length τ Ma Mb).2 at hA0'
  have fc := fold_close4 (EF K τ Ma) (AF K Ma) (EF K τ Mb) (AF K Mb) hAFa hAFb hEFa hEFb hrel 0 0 _ _ le_rfl le_rfl (close4_zero (2 ^ K))
    (by
      rw [hlenC, hQeq, hAPeq]
      have hs := add_nonneg hA0' hg0
      exact le_trans (by linarith : (accRA K rows.length τ Ma Mb).2 + (accRA K rows.length τ Ma Mb).1 ≤
        2 * ((accRA K rows.length τ Ma Mb).2 + (accRA K rows.length τ Ma Mb).1)) hdom.racc)
  rw [hlenC, hQeq, hAPeq] at fc
  change Close4 (accRA K rows.length τ Ma Mb).1 (accRA K rows.length τ Ma Mb).2 _ _ at fc
  have ff := close4_fin _ _ hg0 hA0' hdom.racc fc
  rw [fin_fold] at ff
  have hzero : (List.replicate (2 ^ K) (⟨0, 0, 0, 0⟩ : E4)).map finE4 = List.replicate (2 ^ K) (0:ℂ) := by
    rw [List.map_replicate]; congr 1; apply Complex.ext <;> simp [finE4]
  rw [hzero] at ff
  have hex := exact_fold K rows hlen (Hal.zeroP (2 ^ (K + 1))) (by simp [Hal.zeroP])
  rw [packC_zero, fwdE_zero, ← hrE] at hex
  rw [hex] at ff
  set c := Hal.sumPolys (2 ^ (K + 1)) (rows.map (fun r => Hal.negMul r.1 r.2)) with hc
  have hcdef : c = (rows.map (fun r => Hal.negMul r.1 r.2)).foldl Hal.polyAdd (Hal.zeroP (2 ^ (K + 1))) := rfl
  rw [← hcdef] at ff
  change Close (EaccA K rows.length τ Ma Mb) _ _ _ at ff
  have lc : c.length = 2 ^ (K + 1) := by
    rw [hcdef]; apply foldl_polyAdd_length _ _ _ (by simp [Hal.zeroP])
    intro p hp
    simp only [List.mem_map] at hp
    obtain ⟨r, hr, rfl⟩ := hp
    rw [Hal.negMul_length]; exact (hlen r hr).2
  have lpk := packC_length K (c.map cc) (by simpa using lc)
  have lacc : ((rowsC.foldl (fun S r => mat1colRow S r.1 r.2) (List.replicate (2 ^ K) ⟨0, 0, 0, 0⟩)).map mat1colFin).length = 2 ^ K := by
    rw [close_len ff, fwdE_length _ _ _ lpk]
  have hA1 : 1 ≤ (accRA K rows.length τ Ma Mb).2 := by
    unfold accRA; rw [accIter_snd]; simp only [zero_add]
    have hR : (1:ℝ) ≤ (rows.length : ℝ) := by exact_mod_cast hdom.R1
    have : 1 ≤ AP K Ma Mb := by unfold AP; nlinarith
    nlinarith
  have hEacc0 : 0 ≤ EaccA K rows.length τ Ma Mb := by
    unfold EaccA; have := u_pos; positivity
  have ci := invAvx_close K iomg τ hdom.τ0 hdom.τ1 _ _ _ _ hA1 hEacc0 lacc ff a2 hdom.ri
  rw [invE_fwdE _ _ _ lpk] at ci
  have hX : (packC (2 ^ K) (c.map cc)).map ((2:ℂ) ^ K * ·) =
      List.zipWith (fun x y => (2:ℂ) ^ K * (cc x + I * cc y)) (c.take (2 ^ K)) (c.drop (2 ^ K)) := by
    unfold packC
    rw [← List.map_take, ← List.map_drop, List.map_zipWith, List.zipWith_map]
  rw [hX] at ci
  have hEI : 0 ≤ errB (γi τ) K (accRA K rows.length τ Ma Mb).2 (EaccA K rows.length τ Ma Mb) :=
    errB_nonneg _ (γi_nonneg τ hdom.τ0) _ _ _ (by linarith) hEacc0
  have hdiv : 2 ^ K * (accRA K rows.length τ Ma Mb).2 / 2 ^ K = (accRA K rows.length τ Ma Mb).2 := by field_simp
  have fin := toZnxAvx_spec K hdom.K900 _ (2 ^ K * (accRA K rows.length τ Ma Mb).2) hEI (by positivity)
    (by rw [hdiv]; exact hdom.r62) (by rw [hdiv]; exact hdom.main) c lc _ ci
  have h8 : ¬ (2 * 2 ^ K < 8) := by
    have : 2 ^ 2 ≤ 2 ^ K := Nat.pow_le_pow_right (by norm_num) hK2
    omega
  unfold vmpPipelineAvx
  rw [if_neg h8, hus, hvs]; simp only
  unfold idftOfAvx vmpAccAvx
  rw [if_neg (by norm_num), ← hrC, fin]

end Fft64Avx
