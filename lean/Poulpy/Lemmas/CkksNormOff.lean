import Poulpy.Lemmas.KsDecrypt
import Poulpy.Model.Core.Mul
/-!
The normalisation stage of the products (`vec_znx_big_normalize` with the bit offset `cnv_offset_lo`), every kernel
hypothesis discharged by C08's total value theorems (`C08.normalize_value`, `C08.big_normalize128_value`: every offset):
the offset twin of `KsDec.norm_stage` (which is the offset-0 stage of the key switch).
-/

namespace Ckks.NormOff
open Hal Core Core.Ops C02L KsDec

theorem bigNormalizeOff_eq (big : Bool) (N rb rs : Nat) (off : Int) (c : Col) (ab : Nat) :
    Core.bigNormalizeOff big N rb rs off c ab = (if big then bigNormalizeCol128? else bigNormalizeCol64?) rb rs off c ab N := by
  unfold Core.bigNormalizeOff; cases big <;> rfl

/-- C08 on one column, any offset: the kernel returns `rs` limbs of `N` coefficients with `|digit| ≤ 2^rb − 1` and every coefficient
is `a·2^off` on the torus within one unit of the last limb -/
theorem kern_col_off (big : Bool) (N rb rs ab : Nat) (off : Int) (H : Int) (c : Col)
    (hrb1 : 1 ≤ rb) (hrb : rb ≤ 62) (hab1 : 1 ≤ ab) (hab : ab ≤ 62) (hH0 : 0 ≤ H) (hH : H + 8 ≤ 2 ^ (bitsOf big - 2))
    (hc : ∀ l ∈ c, ∀ x ∈ l, |x| ≤ H) :
    ∃ C, Core.bigNormalizeOff big N rb rs off c ab = some C ∧ ColWF N rs C ∧
      ∀ t, t < N → (∀ d ∈ coefAt C t, |d| ≤ 2 ^ rb - 1) ∧
        NormL.TorusNear (valI rb (coefAt C t)) (rb * rs) (valI ab (coefAt c t) * 2 ^ off.toNat) (ab * c.length + (-off).toNat) := by
  have hbound : ∀ t, ∀ x ∈ coefAt c t, |x| ≤ H := fun t => coefAt_bound hH0 hc t
  have hlen : ∀ t, (coefAt c t).length = c.length := fun t => by simp [coefAt]
  rw [bigNormalizeOff_eq]
  cases big with
  | false =>
    obtain ⟨C, hC⟩ := NormL.normalizeCol?_exists rb rs off c ab N hab1 hrb1
    have hinv := CoreEnc.mapCoefs?_inv _ _ _ _ hC
    refine ⟨C, hC, ⟨hinv.1, hinv.2.1⟩, ?_⟩
    intro t ht
    obtain ⟨o, ho, hco⟩ := hinv.2.2 t ht
    have ctx : NormL.CrossCtx 64 ab rb rs 0 H (coefAt c t) :=
      ⟨Or.inl rfl, hrb1, hrb, by omega, hab, hH0, by simpa [bitsOf] using hH, hbound t⟩
    have hv := C08.normalize_value ctx off ho
    rw [hlen] at hv
    rw [hco hv.1]
    exact ⟨hv.2.1, hv.2.2.1⟩
  | true =>
    obtain ⟨C, hC⟩ := NormL.bigNormalizeCol128?_exists rb rs off c ab N hab1 hrb1
    have hinv := CoreEnc.mapCoefs?_inv _ _ _ _ hC
    refine ⟨C, hC, ⟨hinv.1, hinv.2.1⟩, ?_⟩
    intro t ht
    obtain ⟨o, ho, hco⟩ := hinv.2.2 t ht
    have ctx : NormL.CrossCtx 128 ab rb rs 0 H (coefAt c t) :=
      ⟨Or.inr rfl, hrb1, hrb, by omega, hab, hH0, by simpa [bitsOf] using hH, hbound t⟩
    have hv := C08.big_normalize128_value ctx off ho
    rw [hlen] at hv
    rw [hco hv.1]
    exact ⟨hv.2.1, hv.2.2.1⟩

theorem mapM_some_map {α β : Type} (f : α → Option β) (g : α → β) :
    ∀ (L : List α), (∀ x ∈ L, f x = some (g x)) → L.mapM f = some (L.map g)
  | [], _ => rfl
  | x :: xs, h => by
    have hx := h x List.mem_cons_self
    have hxs := mapM_some_map f g xs (fun y hy => h y (List.mem_cons_of_mem _ hy))
    simp [List.mapM_cons, hx, hxs]

/-- **the normalisation stage with a bit offset**: a non-empty list `L` of accumulator columns (`S` limbs of `N` coefficients, radix `2^ab`,
coefficients within `H`) normalised column by column with `vec_znx_big_normalize(…, off)`: the loop returns, the result is well formed with
digits `≤ 2^rb − 1`, and for every secret, coefficient by coefficient,
`2^(ab·S + off⁻)·val(phase res) = 2^(off⁺)·2^(rb·rs)·val(phase L) + e + q·2^(rb·rs + ab·S + off⁻)`, `|e| ≤ (1 + Σ‖sᵢ‖₁)·2^(ab·S + off⁻)`. -/
theorem norm_stage_off (big : Bool) (N rb rs ab S : Nat) (off : Int) (H : Int) (L : List Col)
    (hrb1 : 1 ≤ rb) (hrb : rb ≤ 62) (hab1 : 1 ≤ ab) (hab : ab ≤ 62) (hH0 : 0 ≤ H) (hH : H + 8 ≤ 2 ^ (bitsOf big - 2))
    (hne : L ≠ []) (hwf : ∀ c ∈ L, ColWF N S c) (hb : ∀ c ∈ L, ∀ l ∈ c, ∀ x ∈ l, |x| ≤ H) :
    ∃ cs, L.mapM (fun c => Core.bigNormalizeOff big N rb rs off c ab) = some cs ∧ cs.length = L.length ∧
      (∀ c ∈ cs, ColWF N rs c) ∧ (∀ c ∈ cs, ∀ l ∈ c, ∀ x ∈ l, |x| ≤ 2 ^ rb - 1) ∧
      ∀ (s : List Poly) t, t < N → ∃ q e : Int,
        2 ^ (ab * S + (-off).toNat) * valCoeff rb (phase s (Ks.mkCt rb N cs)) t
          = 2 ^ off.toNat * 2 ^ (rb * rs) * valCoeff ab (phase s (Ks.mkCt ab N L)) t + e
            + q * 2 ^ (rb * rs + (ab * S + (-off).toNat)) ∧
        |e| ≤ (1 + snorm (min (L.length - 1) s.length) s) * 2 ^ (ab * S + (-off).toNat) := by
  have hk := fun c (hc : c ∈ L) => kern_col_off big N rb rs ab off H c hrb1 hrb hab1 hab hH0 hH (hb c hc)
  let Kd : Col → Col := fun c => (Core.bigNormalizeOff big N rb rs off c ab).getD []
  have hKd : ∀ c ∈ L, Core.bigNormalizeOff big N rb rs off c ab = some (Kd c) := by
    intro c hc
    obtain ⟨C, h, _⟩ := hk c hc
    simp only [Kd, h, Option.getD_some]
  have hKd' : ∀ c (hc : c ∈ L), ColWF N rs (Kd c) ∧
      ∀ t, t < N → (∀ d ∈ coefAt (Kd c) t, |d| ≤ 2 ^ rb - 1) ∧
        NormL.TorusNear (valI rb (coefAt (Kd c) t)) (rb * rs) (valI ab (coefAt c t) * 2 ^ off.toNat) (ab * c.length + (-off).toNat) := by
    intro c hc
    obtain ⟨C, h, h2⟩ := hk c hc
    have e : Kd c = C := by simp only [Kd, h, Option.getD_some]
    rw [e]; exact h2
  have hok : L.mapM (fun c => Core.bigNormalizeOff big N rb rs off c ab) = some (L.map Kd) := mapM_some_map _ Kd L hKd
  have hcswf : ∀ c ∈ L.map Kd, ColWF N rs c := by
    intro c hc
    obtain ⟨c0, hc0, rfl⟩ := List.mem_map.mp hc
    exact (hKd' c0 hc0).1
  have hcsne : L.map Kd ≠ [] := by simpa using hne
  refine ⟨L.map Kd, hok, by simp, hcswf, ?_, ?_⟩
  · intro c hc l hl x hx
    obtain ⟨c0, hc0, rfl⟩ := List.mem_map.mp hc
    obtain ⟨hw, hco⟩ := hKd' c0 hc0
    obtain ⟨t, ht, rfl⟩ := List.getElem_of_mem hx
    have htN : t < N := by rw [← hw.2 l hl]; exact ht
    apply (hco t htN).1
    unfold coefAt
    apply List.mem_map.mpr
    exact ⟨l, hl, by simp [List.getD_eq_getElem?_getD, List.getElem?_eq_getElem ht]⟩
  · intro s t ht
    obtain ⟨gr, szr⟩ := gwf_mk (N := N) rb rs (L.map Kd) hcsne hcswf
    obtain ⟨ga, sza⟩ := gwf_mk (N := N) ab S L hne hwf
    have hrk : (Ks.mkCt rb N (L.map Kd)).rank = L.length - 1 := by simp [GLWE.rank, Ks.mkCt]
    have hrka : (Ks.mkCt ab N L).rank = L.length - 1 := by simp [GLWE.rank, Ks.mkCt]
    have hpos : 0 < L.length := List.length_pos_of_ne_nil hne
    have := torus_phase3 gr gr ga rfl (by rw [hrk, hrka]) rb rb ab
      (2 ^ (ab * S + (-off).toNat)) 0 (2 ^ off.toNat * 2 ^ (rb * rs)) (2 ^ (rb * rs + (ab * S + (-off).toNat)))
      (2 ^ (ab * S + (-off).toNat))
      (fun i hi t ht => by
        rw [hrk] at hi
        have hi' : i < L.length := by omega
        have hcolr : col (Ks.mkCt rb N (L.map Kd)) i = Kd (L[i]) := by
          show (L.map Kd).getD i [] = _
          simp [List.getD_eq_getElem?_getD, List.getElem?_eq_getElem hi']
        have hcola : col (Ks.mkCt ab N L) i = L[i] := by
          show L.getD i [] = _
          simp [List.getD_eq_getElem?_getD, List.getElem?_eq_getElem hi']
        have hmem : L[i] ∈ L := List.getElem_mem hi'
        obtain ⟨_, hco⟩ := hKd' _ hmem
        obtain ⟨_, hnear⟩ := hco t ht
        rw [(hwf _ hmem).1] at hnear
        rw [hcolr, hcola, CoreEnc.valCoeff_eq, CoreEnc.valCoeff_eq]
        obtain ⟨q, e, hq, he⟩ := hnear
        exact ⟨q, e, by linear_combination hq, he⟩) s t ht
    rw [hrk] at this
    obtain ⟨q, e, he, hb'⟩ := this
    exact ⟨q, e, by linear_combination he, hb'⟩

/-- **same radix: balanced digits.**  When the accumulator and the result have the same radix (every product and key switch of the
CKKS layer), `vec_znx_big_normalize` is the `inter` kernel whose digits are balanced (`C08.normalize_inter_value`), for every offset:
`|d| ≤ 2^(b−1)` -/
theorem same_radix_balanced (big : Bool) (N b rs : Nat) (off : Int) (H : Int) (c C : Col)
    (hb1 : 1 ≤ b) (hb : b ≤ 62) (hH0 : 0 ≤ H) (hH : H + 8 ≤ 2 ^ (bitsOf big - 2)) (hc : ∀ l ∈ c, ∀ x ∈ l, |x| ≤ H)
    (h : Core.bigNormalizeOff big N b rs off c b = some C) : ∀ l ∈ C, ∀ x ∈ l, |x| ≤ 2 ^ (b - 1) := by
  have hbound : ∀ t, ∀ x ∈ coefAt c t, |x| ≤ H := fun t => coefAt_bound hH0 hc t
  have hp62 : (2 : Int) ^ b ≤ 2 ^ 62 := pow_le_pow_right₀ (by norm_num) hb
  rw [bigNormalizeOff_eq] at h
  have key : (∀ l ∈ C, l.length = N) ∧ ∀ t, t < N → ∀ d ∈ coefAt C t, |d| ≤ 2 ^ (b - 1) := by
    cases big with
    | false =>
      have hinv := CoreEnc.mapCoefs?_inv _ _ _ _ h
      refine ⟨hinv.2.1, fun t ht => ?_⟩
      obtain ⟨o, ho, hco⟩ := hinv.2.2 t ht
      simp only [normalizeCoef, if_true] at ho
      injection ho with ho
      have hr : NormL.HeadRoom 64 b 0 H := ⟨by norm_num, by omega, by omega, hH0, by
        have : H + 8 ≤ 2 ^ 62 := by simpa [bitsOf] using hH
        norm_num at hp62 ⊢; omega⟩
      have hv := C08.normalize_inter_value hr rs off (coefAt c t) (hbound t)
      rw [ho] at hv
      rw [hco hv.1]
      intro d hd
      have := hv.2.1 d hd
      unfold NormL.Balanced at this
      rw [abs_le]; constructor <;> linarith [this.1, this.2]
    | true =>
      have hinv := CoreEnc.mapCoefs?_inv _ _ _ _ h
      refine ⟨hinv.2.1, fun t ht => ?_⟩
      obtain ⟨o, ho, hco⟩ := hinv.2.2 t ht
      simp only [bigNormalizeCoef128, if_true] at ho
      injection ho with ho
      have hr : NormL.HeadRoom 128 b 0 H := ⟨by norm_num, by omega, by omega, hH0, by
        have : H + 8 ≤ 2 ^ 126 := by simpa [bitsOf] using hH
        norm_num at hp62 ⊢; omega⟩
      have hv := C08.normalize_inter_value hr rs off (coefAt c t) (hbound t)
      have hlen : o.length = rs := by rw [← ho, List.length_map]; exact hv.1
      rw [hco hlen, ← ho]
      intro d hd
      obtain ⟨d0, hd0, rfl⟩ := List.mem_map.mp hd
      have := hv.2.1 d0 hd0
      unfold NormL.Balanced at this
      have hh : (2 : Int) ^ (b - 1) ≤ 2 ^ 61 := pow_le_pow_right₀ (by norm_num) (by omega)
      have hw : w64 d0 = d0 := by
        unfold w64
        norm_num at hh
        omega
      rw [hw, abs_le]; constructor <;> linarith [this.1, this.2]
  intro l hl x hx
  obtain ⟨t, ht, rfl⟩ := List.getElem_of_mem hx
  have htN : t < N := by rw [← key.1 l hl]; exact ht
  apply key.2 t htN
  unfold coefAt
  apply List.mem_map.mpr
  exact ⟨l, hl, by simp [List.getD_eq_getElem?_getD, List.getElem?_eq_getElem ht]⟩

theorem mapM_mem {α β : Type} (f : α → Option β) : ∀ (L : List α) (cs : List β), L.mapM f = some cs →
    ∀ c ∈ cs, ∃ x ∈ L, f x = some c
  | [], cs, h => by simp at h; subst h; simp
  | x :: xs, cs, h => by
    simp only [List.mapM_cons, Option.bind_eq_bind, Option.bind_eq_some_iff] at h
    obtain ⟨y, hy, ys, hys, h⟩ := h
    simp only [Option.pure_def, Option.some.injEq] at h
    subst h
    intro c hc
    rcases List.mem_cons.mp hc with rfl | hc
    · exact ⟨x, by simp, hy⟩
    · obtain ⟨x', hx', h'⟩ := mapM_mem f xs ys hys c hc
      exact ⟨x', by simp [hx'], h'⟩

/-- the normalisation stage, same radix: balanced digits -/
theorem norm_stage_balanced (big : Bool) (N b rs : Nat) (off : Int) (H : Int) (L cs : List Col)
    (hb1 : 1 ≤ b) (hb : b ≤ 62) (hH0 : 0 ≤ H) (hH : H + 8 ≤ 2 ^ (bitsOf big - 2)) (hbd : ∀ c ∈ L, ∀ l ∈ c, ∀ x ∈ l, |x| ≤ H)
    (h : L.mapM (fun c => Core.bigNormalizeOff big N b rs off c b) = some cs) :
    ∀ c ∈ cs, ∀ l ∈ c, ∀ x ∈ l, |x| ≤ 2 ^ (b - 1) := by
  intro c hc
  obtain ⟨x, hx, hxc⟩ := mapM_mem _ L cs h c hc
  exact same_radix_balanced big N b rs off H x c hb1 hb hH0 hH (hbd x hx) hxc

end Ckks.NormOff
