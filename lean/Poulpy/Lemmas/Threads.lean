import Poulpy.Model.Threads
import Mathlib.Data.List.Nodup

namespace Threads

theorem divCeil_mul_ge (items threads : Nat) (ht : 0 < threads) : items ≤ threads * divCeil items threads := by
  unfold divCeil
  have h1 := Nat.div_add_mod items threads
  have h2 := Nat.mod_lt items ht
  simp only
  split
  · rw [Nat.mul_add]; omega
  · omega

theorem divCeil_pos (items threads : Nat) (hi : 0 < items) (ht : 0 < threads) : 0 < divCeil items threads := by
  have := divCeil_mul_ge items threads ht
  rcases Nat.eq_zero_or_pos (divCeil items threads) with h | h
  · rw [h] at this; omega
  · exact h

theorem aux_flatten (cs : Nat) (hcs : 0 < cs) : ∀ fuel off rem, rem ≤ fuel →
    (chunksMutAux cs fuel off rem).flatten = List.range' off rem := by
  intro fuel
  induction fuel with
  | zero => intro off rem h; have : rem = 0 := by omega
            subst this; simp [chunksMutAux]
  | succ f ih =>
    intro off rem h
    unfold chunksMutAux
    split
    · next h0 => subst h0; simp
    · next h0 =>
      simp only [List.flatten_cons]
      rw [ih _ _ (by omega)]
      have : rem = min rem cs + (rem - min rem cs) := by omega
      conv => rhs; rw [this]
      rw [← List.range'_append_1]

theorem aux_length (cs : Nat) (hcs : 0 < cs) : ∀ fuel off rem, rem ≤ fuel →
    (chunksMutAux cs fuel off rem).length * cs < rem + cs := by
  intro fuel
  induction fuel with
  | zero => intro off rem h; simp [chunksMutAux]; omega
  | succ f ih =>
    intro off rem h
    unfold chunksMutAux
    split
    · simp; omega
    · next h0 =>
      simp only [List.length_cons]
      have := ih (off + min rem cs) (rem - min rem cs) (by omega)
      rw [Nat.succ_mul]
      rcases Nat.lt_or_ge rem cs with hlt | hge
      · have e : rem - min rem cs = 0 := by omega
        rw [e] at this ⊢
        cases f with
        | zero => simp [chunksMutAux]; omega
        | succ f' => simp [chunksMutAux]; omega
      · have e : min rem cs = cs := by omega
        simp only [e] at this ⊢
        omega

theorem aux_get (cs : Nat) (hcs : 0 < cs) : ∀ fuel off rem k c, rem ≤ fuel →
    (chunksMutAux cs fuel off rem)[k]? = some c →
    c = List.range' (off + k * cs) (min cs (rem - k * cs)) ∧ k * cs < rem := by
  intro fuel
  induction fuel with
  | zero => intro off rem k c h; simp [chunksMutAux]
  | succ f ih =>
    intro off rem k c h
    unfold chunksMutAux
    split
    · simp
    · next h0 =>
      cases k with
      | zero =>
        simp only [List.getElem?_cons_zero, Option.some.injEq]
        intro hc; subst hc
        simp [Nat.min_comm]; omega
      | succ k' =>
        simp only [List.getElem?_cons_succ]
        intro hc
        have := ih _ _ _ _ (by omega) hc
        obtain ⟨h1, h2⟩ := this
        have e : min rem cs = cs := by omega
        simp only [e] at h1 h2
        rw [Nat.succ_mul]
        constructor
        · rw [h1]; congr 1 <;> omega
        · omega

theorem spawnList_get (base cs threads : Nat) (cks : List (List Nat)) (t : Nat) :
    (spawnList base cs threads cks)[t]? =
      if t < threads then (cks[t]?).map (fun ck => ck.zipIdx.map fun (p : Nat × Nat) =>
        ({ thread := t, scratch := t, slot := p.1, index := base + t * cs + p.2 } : Work)) else none := by
  unfold spawnList
  simp only [List.getElem?_map, List.getElem?_zipIdx, List.zip, List.getElem?_zipWith']
  by_cases ht : t < threads
  · simp [ht]
    cases cks[t]? <;> simp
  · have : (List.range threads)[t]? = none := by simp; omega
    simp [ht]

theorem spawnList_length (base cs threads : Nat) (cks : List (List Nat)) :
    (spawnList base cs threads cks).length = min threads cks.length := by
  simp [spawnList]

theorem spawnList_slots (base cs threads : Nat) (cks : List (List Nat)) (h : cks.length ≤ threads) :
    (spawnList base cs threads cks).map (fun q => q.map (·.slot)) = cks := by
  apply List.ext_getElem?
  intro t
  rw [List.getElem?_map, spawnList_get]
  by_cases ht : t < threads
  · simp only [ht, if_true, Option.map_map]
    cases hc : cks[t]? with
    | none => simp
    | some ck =>
      simp only [Option.map_some, Function.comp, List.map_map]
      congr 1
      have : ((fun (x : Work) => x.slot) ∘ fun (p : Nat × Nat) => ({ thread := t, scratch := t, slot := p.fst, index := base + t * cs + p.snd } : Work)) = Prod.fst := by
        funext p; rfl
      rw [this, List.zipIdx_map_fst]
  · have : cks[t]? = none := by simp; omega
    simp [ht, this]


/-- `chunk_size = items.div_ceil(threads).max(1)` -/
def chunkSize (items threads : Nat) : Nat := max (divCeil items threads) 1

theorem chunkSize_pos (items threads : Nat) : 0 < chunkSize items threads := by
  unfold chunkSize; omega

theorem chunkSize_mul_ge (items threads : Nat) (ht : 0 < threads) : items ≤ threads * chunkSize items threads := by
  have h := divCeil_mul_ge items threads ht
  have : threads * divCeil items threads ≤ threads * chunkSize items threads :=
    Nat.mul_le_mul_left _ (by unfold chunkSize; omega)
  omega

/-- structure of the loop for `threads ≥ 1` (any number of items, zero included) -/
theorem parLoop_ok (base items threads : Nat) (ht : 1 ≤ threads) :
    parLoop base items threads =
      .ok (spawnList base (chunkSize items threads) threads
        (chunksMutAux (chunkSize items threads) items base items)) := by
  have hcs := chunkSize_pos items threads
  unfold parLoop chunksMut
  have h1 : threads ≠ 0 := by omega
  have h2 : chunkSize items threads ≠ 0 := by omega
  unfold chunkSize at h2 ⊢
  simp [h1, h2]

theorem chunks_count_le (base items threads : Nat) (ht : 1 ≤ threads) :
    (chunksMutAux (chunkSize items threads) items base items).length ≤ threads := by
  have hcs := chunkSize_pos items threads
  have h1 := aux_length _ hcs items base items (Nat.le_refl _)
  have h2 := chunkSize_mul_ge items threads ht
  have : (chunksMutAux (chunkSize items threads) items base items).length * chunkSize items threads
      < (threads + 1) * chunkSize items threads := by
    rw [Nat.succ_mul, Nat.mul_comm threads]; rw [Nat.mul_comm] at h2; omega
  have := Nat.lt_of_mul_lt_mul_right this
  omega

theorem spawn_mem (cs threads : Nat) (hcs : 0 < cs) (fuel off rem : Nat) (hf : rem ≤ fuel) (t : Nat) (q : List Work)
    (hq : (spawnList off cs threads (chunksMutAux cs fuel off rem))[t]? = some q) :
    q ≠ [] ∧ ∀ w ∈ q, w.thread = t ∧ w.scratch = t ∧ w.index = w.slot := by
  rw [spawnList_get] at hq
  split at hq
  · cases hc : (chunksMutAux cs fuel off rem)[t]? with
    | none => simp [hc] at hq
    | some ck =>
      simp only [hc, Option.map_some, Option.some.injEq] at hq
      obtain ⟨h1, h2⟩ := aux_get cs hcs fuel off rem t ck hf hc
      subst hq
      constructor
      · intro h
        have : ck = [] := by simpa using h
        rw [this] at h1
        have : min cs (rem - t * cs) = 0 := by simpa using h1.symm
        omega
      · intro w hw
        simp only [List.mem_map] at hw
        obtain ⟨p, hp, rfl⟩ := hw
        refine ⟨rfl, rfl, ?_⟩
        obtain ⟨a, b⟩ := p
        rw [List.mem_zipIdx_iff_getElem?] at hp
        rw [h1, List.getElem?_eq_some_iff] at hp
        obtain ⟨hlt, hv⟩ := hp
        simp at hv
        simp; omega
  · simp at hq


/-- disjoint footprints: different output slot and different scratch window -/
def Indep (x y : Ev) : Prop := x.slot ≠ y.slot ∧ x.scratch ≠ y.scratch

theorem upd_ne {V : Type} (f : Nat → V) (i j : Nat) (v : V) (h : j ≠ i) : upd f i v j = f j := by
  simp [upd, h]

theorem upd_same {V : Type} (f : Nat → V) (i : Nat) (v : V) : upd f i v i = v := by
  simp [upd]

theorem upd_comm {V : Type} (f : Nat → V) (i j : Nat) (a b : V) (h : i ≠ j) :
    upd (upd f i a) j b = upd (upd f j b) i a := by
  funext k
  unfold upd
  by_cases h1 : k = j <;> by_cases h2 : k = i <;> simp [h1, h2]
  all_goals (intro h3; omega)

theorem stepEv_comm {V : Type} (micro : Nat → Nat → V × V → V × V) (x y : Ev) (h : Indep x y) (st : St V) :
    stepEv micro x (stepEv micro y st) = stepEv micro y (stepEv micro x st) := by
  obtain ⟨h1, h2⟩ := h
  unfold stepEv
  simp only [upd_ne _ _ _ _ h1, upd_ne _ _ _ _ h2, upd_ne _ _ _ _ (Ne.symm h1), upd_ne _ _ _ _ (Ne.symm h2)]
  rw [upd_comm _ _ _ _ _ h1, upd_comm _ _ _ _ _ h2]

theorem run_append {V : Type} (micro : Nat → Nat → V × V → V × V) (a b : List Ev) (st : St V) :
    run micro (a ++ b) st = run micro b (run micro a st) := by
  simp [run, List.foldl_append]

theorem run_cons {V : Type} (micro : Nat → Nat → V × V → V × V) (e : Ev) (b : List Ev) (st : St V) :
    run micro (e :: b) st = run micro b (stepEv micro e st) := rfl

theorem step_run_comm {V : Type} (micro : Nat → Nat → V × V → V × V) (e : Ev) :
    ∀ (l : List Ev) (st : St V), (∀ x ∈ l, Indep e x) → stepEv micro e (run micro l st) = run micro l (stepEv micro e st) := by
  intro l
  induction l with
  | nil => intro st _; rfl
  | cons x l ih =>
    intro st h
    rw [run_cons, run_cons, ih _ (fun y hy => h y (List.mem_cons_of_mem _ hy))]
    rw [stepEv_comm micro e x (h x (List.mem_cons_self))]

/-- the queues have pairwise disjoint footprints -/
def DisjointQ (qs : List (List Ev)) : Prop :=
  qs.Pairwise (fun q q' => ∀ x ∈ q, ∀ y ∈ q', Indep x y)

theorem popHead_spec (e : Ev) : ∀ (qs qs' : List (List Ev)), popHead e qs = some qs' →
    ∃ pre r post, qs = pre ++ (e :: r) :: post ∧ qs' = pre ++ r :: post := by
  intro qs
  induction qs with
  | nil => intro qs' h; simp [popHead] at h
  | cons q qs ih =>
    intro qs' h
    unfold popHead at h
    split at h
    · next e' r =>
      split at h
      · next he => subst he; simp at h; exact ⟨[], r, qs, rfl, h.symm⟩
      · cases hp : popHead e qs with
        | none => simp [hp] at h
        | some qs2 =>
          simp [hp] at h
          obtain ⟨pre, r2, post, h1, h2⟩ := ih qs2 hp
          exact ⟨(e' :: r) :: pre, r2, post, by simp [h1], by simp [← h, h2]⟩
    · cases hp : popHead e qs with
      | none => simp [hp] at h
      | some qs2 =>
        simp [hp] at h
        obtain ⟨pre, r2, post, h1, h2⟩ := ih qs2 hp
        exact ⟨[] :: pre, r2, post, by simp [h1], by simp [← h, h2]⟩

theorem interleave_eq_seq_aux {V : Type} (micro : Nat → Nat → V × V → V × V) :
    ∀ (sched : List Ev) (qs : List (List Ev)) (st : St V), DisjointQ qs → isInterleaving qs sched = true →
      run micro sched st = run micro qs.flatten st := by
  intro sched
  induction sched with
  | nil =>
    intro qs st _ h
    simp only [isInterleaving, List.all_eq_true, List.isEmpty_iff] at h
    have : qs.flatten = [] := by
      simp only [List.flatten_eq_nil_iff]; exact h
    rw [this]
  | cons e rest ih =>
    intro qs st hd h
    unfold isInterleaving at h
    cases hp : popHead e qs with
    | none => simp [hp] at h
    | some qs' =>
      simp only [hp] at h
      obtain ⟨pre, r, post, h1, h2⟩ := popHead_spec e qs qs' hp
      subst h1
      subst h2
      have hd' : DisjointQ (pre ++ r :: post) := by
        unfold DisjointQ at hd ⊢
        rw [List.pairwise_append] at hd ⊢
        obtain ⟨ha, hb, hc⟩ := hd
        rw [List.pairwise_cons] at hb ⊢
        refine ⟨ha, ⟨fun q' hq' x hx => hb.1 q' hq' x (List.mem_cons_of_mem _ hx), hb.2⟩, ?_⟩
        intro a ha' b hb'
        rcases List.mem_cons.1 hb' with hb' | hb'
        · rw [hb']
          intro x hx y hy
          exact hc a ha' (e :: r) (List.mem_cons_self) x hx y (List.mem_cons_of_mem _ hy)
        · exact hc a ha' b (List.mem_cons_of_mem _ hb')
      rw [run_cons, ih _ _ hd' h]
      simp only [List.flatten_append, List.flatten_cons, run_append, List.cons_append, run_cons]
      congr 2
      symm
      apply step_run_comm
      intro x hx
      obtain ⟨q, hq, hxq⟩ := List.mem_flatten.1 hx
      unfold DisjointQ at hd
      rw [List.pairwise_append] at hd
      have := hd.2.2 q hq (e :: r) (List.mem_cons_self) x hxq e (List.mem_cons_self)
      exact ⟨Ne.symm this.1, Ne.symm this.2⟩


theorem upd_upd {V : Type} (f : Nat → V) (i : Nat) (a b : V) : upd (upd f i a) i b = upd f i b := by
  funext k; unfold upd; by_cases h : k = i <;> simp [h]

theorem upd_self {V : Type} (f : Nat → V) (i : Nat) : upd f i (f i) = f := by
  funext k; unfold upd; by_cases h : k = i <;> simp [h]

theorem run_workEvs_aux {V : Type} (micro : Nat → Nat → V × V → V × V) (w : Work) (st : St V) :
    ∀ n, run micro ((List.range n).map fun pc => (⟨w.thread, w.scratch, w.slot, w.index, pc⟩ : Ev)) st =
      { outs := upd st.outs w.slot ((List.range n).foldl (fun p pc => micro w.index pc p) (st.outs w.slot, st.scr w.scratch)).1,
        scr := upd st.scr w.scratch ((List.range n).foldl (fun p pc => micro w.index pc p) (st.outs w.slot, st.scr w.scratch)).2 } := by
  intro n
  induction n with
  | zero => simp [run, upd_self]
  | succ n ih =>
    rw [List.range_succ, List.map_append, run_append, ih]
    simp only [List.map_cons, List.map_nil, run, List.foldl_nil, stepEv, upd_same, upd_upd,
      List.foldl_append, List.foldl_cons]

theorem run_workEvs {V : Type} (micro : Nat → Nat → V × V → V × V) (plen : Nat → Nat) (w : Work) (st : St V) :
    run micro (workEvs plen w) st =
      { outs := upd st.outs w.slot (itemRun micro plen w.index (st.outs w.slot, st.scr w.scratch)).1,
        scr := upd st.scr w.scratch (itemRun micro plen w.index (st.outs w.slot, st.scr w.scratch)).2 } := by
  unfold workEvs itemRun
  exact run_workEvs_aux micro w st _

/-- the output of an item does not depend on what its output slot and its scratch window held
before (C11 determinacy + C12 "scratch contents never matter", as a hypothesis on the work) -/
def Oblivious {V : Type} (micro : Nat → Nat → V × V → V × V) (plen : Nat → Nat) : Prop :=
  ∀ i p p', (itemRun micro plen i p).1 = (itemRun micro plen i p').1

theorem run_seq_outs {V : Type} (micro : Nat → Nat → V × V → V × V) (plen : Nat → Nat)
    (hob : Oblivious micro plen) : ∀ (ws : List Work) (st : St V), (∀ w ∈ ws, w.index = w.slot) → ∀ j,
    (run micro (threadSeq plen ws) st).outs j =
      if j ∈ ws.map (·.slot) then (itemRun micro plen j (st.outs j, st.scr 0)).1 else st.outs j := by
  intro ws
  induction ws with
  | nil => intro st _ j; simp [threadSeq, run]
  | cons w rest ih =>
    intro st hw j
    have e : threadSeq plen (w :: rest) = workEvs plen w ++ threadSeq plen rest := by
      simp [threadSeq]
    rw [e, run_append, ih _ (fun x hx => hw x (List.mem_cons_of_mem _ hx)) j, run_workEvs]
    have hwi := hw w List.mem_cons_self
    by_cases h1 : j ∈ rest.map (·.slot)
    · have h2 : j ∈ (w :: rest).map (·.slot) := by simp at h1 ⊢; exact Or.inr h1
      simp only [h1, h2, if_true]
      exact hob _ _ _
    · simp only [h1, if_false]
      by_cases h3 : j = w.slot
      · subst h3
        have h2 : w.slot ∈ (w :: rest).map (·.slot) := by simp
        rw [if_pos h2, upd_same, hwi]
        exact hob _ _ _
      · have h2 : ¬ j ∈ (w :: rest).map (·.slot) := by
          simp only [List.map_cons, List.mem_cons, not_or]; exact ⟨h3, h1⟩
        simp only [h2, if_false, upd_ne _ _ _ _ h3]

theorem mem_threadSeq (plen : Nat → Nat) (ws : List Work) (x : Ev) (h : x ∈ threadSeq plen ws) :
    ∃ w ∈ ws, x.slot = w.slot ∧ x.scratch = w.scratch ∧ x.thread = w.thread ∧ x.index = w.index := by
  simp only [threadSeq, workEvs, List.mem_flatMap, List.mem_map] at h
  obtain ⟨w, hw, pc, _, rfl⟩ := h
  exact ⟨w, hw, rfl, rfl, rfl, rfl⟩

theorem flatten_threadSeq (plen : Nat → Nat) (qs : List (List Work)) :
    (qs.map (threadSeq plen)).flatten = threadSeq plen qs.flatten := by
  induction qs with
  | nil => simp [threadSeq]
  | cons q qs ih => simp [threadSeq, List.flatMap_append] at ih ⊢; rw [ih]


theorem parLoop_disjoint (plen : Nat → Nat) (base items threads : Nat) (ht : 1 ≤ threads) :
    DisjointQ ((spawnList base (chunkSize items threads) threads
        (chunksMutAux (chunkSize items threads) items base items)).map (threadSeq plen)) := by
  have hcs := chunkSize_pos items threads
  have hlen := chunks_count_le base items threads ht
  have hslots := spawnList_slots base (chunkSize items threads) threads _ hlen
  have hflat := aux_flatten _ hcs items base items (Nat.le_refl _)
  generalize hqs : spawnList base (chunkSize items threads) threads
        (chunksMutAux (chunkSize items threads) items base items) = qs at hslots
  generalize hcks : chunksMutAux (chunkSize items threads) items base items = cks at *
  have hnd : cks.flatten.Nodup := by rw [hflat]; exact List.nodup_range'
  rw [List.nodup_flatten] at hnd
  have hpw := hnd.2
  unfold DisjointQ
  rw [List.pairwise_iff_getElem]
  intro i j hi' hj' hij x hx y hy
  simp only [List.length_map] at hi' hj'
  simp only [List.getElem_map] at hx hy
  obtain ⟨w, hw, hxs, hxc, _, _⟩ := mem_threadSeq plen _ x hx
  obtain ⟨v, hv, hys, hyc, _, _⟩ := mem_threadSeq plen _ y hy
  have hqi : qs[i]? = some qs[i] := List.getElem?_eq_getElem hi'
  have hqj : qs[j]? = some qs[j] := List.getElem?_eq_getElem hj'
  have mi := (spawn_mem _ threads hcs items base items (Nat.le_refl _) i qs[i] (by rw [hcks, hqs]; exact hqi)).2 w hw
  have mj := (spawn_mem _ threads hcs items base items (Nat.le_refl _) j qs[j] (by rw [hcks, hqs]; exact hqj)).2 v hv
  constructor
  · -- slots: different chunks of a duplicate-free flatten are disjoint
    have hlc : (qs.map (fun q => q.map (·.slot))).length = cks.length := by rw [hslots]
    simp only [List.length_map] at hlc
    rw [List.pairwise_iff_getElem] at hpw
    have hdis := hpw i j (by omega) (by omega) hij
    have e1 : cks[i]'(by omega) = qs[i].map (·.slot) := by
      have := congrArg (fun l => l[i]?) hslots
      simp [List.getElem?_map, hqi, List.getElem?_eq_getElem (show i < cks.length by omega)] at this
      exact this.symm
    have e2 : cks[j]'(by omega) = qs[j].map (·.slot) := by
      have := congrArg (fun l => l[j]?) hslots
      simp [List.getElem?_map, hqj, List.getElem?_eq_getElem (show j < cks.length by omega)] at this
      exact this.symm
    intro hEq
    apply hdis (a := x.slot)
    · rw [e1, hxs]; exact List.mem_map_of_mem hw
    · rw [e2, hEq, hys]; exact List.mem_map_of_mem hv
  · rw [hxc, hyc, mi.2.1, mj.2.1]; omega


/-- `split_at_mut` repeated `n` times from any window: region `j` starts at the first 64-byte boundary of the
window plus `j` rounded-up sizes, whenever the repaired size check holds. -/
theorem splitLoop_general (len : Nat) : ∀ (n : Nat) (w : Win),
    (n = 0 ∨ w.alignOffset + (n - 1) * nextMult64 len + len ≤ w.len) →
    ∃ rest, splitLoop n w len =
      .ok ((List.range n).map (fun j => (⟨w.start + w.alignOffset + j * nextMult64 len, len⟩ : Win)), rest) := by
  intro n
  induction n with
  | zero => intro w _; exact ⟨w, by simp [splitLoop]⟩
  | succ k ih =>
    intro w h
    have h' : w.alignOffset + k * nextMult64 len + len ≤ w.len := by
      rcases h with h | h
      · omega
      · simpa using h
    have hkR : 0 ≤ k * nextMult64 len := Nat.zero_le _
    have hlt : ¬ (w.len - w.alignOffset < len) := by omega
    unfold splitLoop
    simp only [takeAligned, hlt, if_false]
    set w' : Win := ⟨w.start + w.alignOffset + len, w.len - w.alignOffset - len⟩ with hw'
    have hA : (w.start + w.alignOffset) % 64 = 0 := by unfold Win.alignOffset; omega
    have hoff' : w'.alignOffset = (64 - len % 64) % 64 := by
      simp only [hw', Win.alignOffset]; omega
    have hstart' : w'.start + w'.alignOffset = w.start + w.alignOffset + nextMult64 len := by
      rw [hoff']; simp only [hw', nextMult64]; omega
    have hreq : k = 0 ∨ w'.alignOffset + (k - 1) * nextMult64 len + len ≤ w'.len := by
      rcases Nat.eq_zero_or_pos k with hk | hk
      · exact Or.inl hk
      · right
        rw [hoff']
        simp only [hw']
        have e : k * nextMult64 len = (k - 1) * nextMult64 len + nextMult64 len := by
          have : k = (k - 1) + 1 := by omega
          conv => lhs; rw [this, Nat.succ_mul]
        have hR : nextMult64 len = len + (64 - len % 64) % 64 := rfl
        omega
    obtain ⟨rest, hrest⟩ := ih w' hreq
    rw [hrest]
    refine ⟨rest, ?_⟩
    simp only [Outcome.ok.injEq, Prod.mk.injEq, and_true]
    rw [List.range_succ_eq_map]
    simp only [List.map_cons, List.map_map, Nat.zero_mul, Nat.add_zero, List.cons.injEq, true_and]
    apply List.map_congr_left
    intro a _
    simp only [Function.comp, Win.mk.injEq, and_true]
    rw [hstart', Nat.succ_mul]; omega

end Threads
