import Poulpy.Lemmas.CkksDotX
/-!
# C16: the dot products as calls of a program (pool level)
-/

namespace Ckks
open Hal Core Core.Ops C02L Ckks.Sem Ckks.CoreSem KsDec AutoMul

theorem zip3_maps {α β γ : Type} : ∀ (as : List α) (xs : List β) (ps : List γ), as.length = xs.length → ps.length = as.length →
    (as.zip (xs.zip ps)).map (fun y => y.2.1) = xs ∧ (as.zip (xs.zip ps)).map (fun y => y.2.2) = ps ∧
    (as.zip (xs.zip ps)).map (fun y => (y.1, y.2.2)) = as.zip ps ∧ (as.zip (xs.zip ps)).map (fun y => (y.1, y.2.1)) = as.zip xs
  | [], [], [], _, _ => by simp
  | [], [], _ :: _, _, h => by simp at h
  | [], _ :: _, _, h, _ => by simp at h
  | _ :: _, [], _, h, _ => by simp at h
  | _ :: _, _ :: _, [], _, h => by simp at h
  | a :: as, x :: xs, p :: ps, h1, h2 => by
    obtain ⟨i1, i2, i3, i4⟩ := zip3_maps as xs ps (by simpa using h1) (by simpa using h2)
    simp only [List.zip_cons_cons, List.map_cons, i1, i2, i3, i4, and_self]

theorem forall₂_mem_zip {α β : Type} {R : α → β → Prop} {as : List α} {xs : List β} (h : List.Forall₂ R as xs) :
    ∀ y ∈ as.zip xs, R y.1 y.2 := by
  induction h with
  | nil => simp
  | cons h0 _ ih =>
    intro y hy
    simp only [List.zip_cons_cons, List.mem_cons] at hy
    rcases hy with rfl | hy
    · exact h0
    · exact ih y hy

theorem mdAt_cts {pool : DPool} {a : Nat} {x : DCt} (h : pool[a]? = some x) : mdAt (DPool.cts pool) a = x.md := by
  have : (DPool.cts pool)[a]? = some x.ct := by rw [cts_getElem?, h]; rfl
  rw [mdAt_some this]; rfl

theorem le_maxBudget_cts {pool : DPool} {as : List Nat} {a : Nat} {x : DCt} (ha : a ∈ as) (h : pool[a]? = some x) :
    x.md.logBudget ≤ maxBudget (DPool.cts pool) as := by
  have := le_maxBudget (DPool.cts pool) as ha
  rwa [mdAt_cts h] at this

theorem sizeAt_set {P : Pool} {d : Nat} {cd m : Ct} (h : P[d]? = some cd) : sizeAt (P.set d m) d = m.size := by
  have hd : d < P.length := by
    rcases Nat.lt_or_ge d P.length with h1 | h1
    · exact h1
    · rw [List.getElem?_eq_none h1] at h; cases h
  simp [sizeAt, hd]

/-! ### `ckks_dot_product_pt_vec_znx` -/

def specDotPt (env : Env) (N : Nat) (σ : ℚ) (P mp : Pool) (τ : TS) (d : Nat) (as : List Nat) (pt : Pt) (pgs : List Col) : TS :=
  let top : ℚ := 2 ^ maxBudget P as / 2 ^ (env.base2k * sizeAt mp d)
  ⟨upd τ.M d (fun t => ((as.zip pgs).map (fun ap => (qNegMul (polyOf N (τ.M ap.1)) (ptMsg env N pt ap.2)).getD t 0)).sum),
   upd τ.E d (((as.zip pgs).map (fun ap => 2 * (σ * top) + N * ((τ.E ap.1 + σ / 2 ^ (mdAt P ap.1).logDelta) * ptBp env N pt ap.2))).sum),
   upd τ.B d (((as.zip pgs).map (fun ap => N * τ.B ap.1 * ptBp env N pt ap.2)).sum)⟩

/-- **`ckks_dot_product_pt_vec_znx`** on a pool — no contract -/
theorem xstep_dotPt {env : Env} (he : EnvOK env) {N r : Nat} (hN : 0 < N) {mk : MulKey} {ak : AutKeys} {pool : DPool}
    (hp : AllOK env N r pool) {d : Nat} {as : List Nat} {pt : Pt} {pgs : List Col} (hlen : pgs.length = as.length)
    (hpt : ∀ pg ∈ pgs, PtOK env N pt pg) {mp : Pool}
    (hm : stepR env (DPool.cts pool) (.dotPtZnx d as pt) = .ok mp)
    (hhi : ∀ cd, pool[d]? = some cd → ∀ a ∈ as, ∀ ca, pool[a]? = some ca → ∀ res : Ct, res.size = cd.g.size →
      ∀ q, mulPtParams env res ca.ct pt.md pt.maxK = .ok q →
        (cnvOffsetSplit env.base2k q.cnv).1 ≤ divCeil ca.md.effK env.base2k + pt.size - 1)
    (hroom : (pt.size : Int) * (N * 2 ^ env.base2k * 2 ^ env.base2k) + 8 ≤ 2 ^ (bitsOf mk.big - 2)) (s : List Poly) :
    XGoal env N r mk ak s pool (.dotPt d as pt pgs) mp (fun τ => specDotPt env N (sn r s) (DPool.cts pool) mp τ d as pt pgs) := by
  obtain ⟨cd, cs, m, hd, hg, hf, rfl⟩ := opN_ok' (show opN _ d as (fun cd cs => withPt env pt cd (dotPtZnx env cd cs pt)) = .ok mp from hm)
  obtain ⟨xd, hxd, rfl⟩ := cts_some hd
  obtain ⟨xs, hxs, rfl, hall⟩ := dgetAll_of_getAll pool d as cs hg
  have hl1 : as.length = xs.length := hall.length_eq
  obtain ⟨i1, i2, i3, i4⟩ := zip3_maps as xs pgs hl1 hlen
  have hσ : 0 ≤ sn r s := le_trans zero_le_one (sn_pos r s)
  -- membership facts of the zipped list
  have hmem : ∀ y ∈ as.zip (xs.zip pgs), y.1 ∈ as ∧ pool[y.1]? = some y.2.1 ∧ y.2.2 ∈ pgs := by
    intro y hy
    have h1 : (y.1, y.2.1) ∈ as.zip xs := by rw [← i4]; exact List.mem_map_of_mem hy
    have h2 : (y.1, y.2.2) ∈ as.zip pgs := by rw [← i3]; exact List.mem_map_of_mem hy
    exact ⟨(List.of_mem_zip h1).1, forall₂_mem_zip hall _ h1, (List.of_mem_zip h2).2⟩
  -- the value theorem for any tracking `f` of the operands
  have key : ∀ f : Nat → DCt → TOp, (∀ a x, (f a x).c = x) → (∀ y ∈ as.zip (xs.zip pgs), (f y.1 y.2.1).ok env N r s) →
      ∃ c', dDotPt env N mk.big xd xs pt pgs = .ok c' ∧ c'.ct = m ∧ DOK env N r c' ∧ c'.g.size = xd.g.size ∧
        (∀ t, t < N → Near (decC s c' t) (((as.zip (xs.zip pgs)).map (fun y => ptV env N pt (f y.1 y.2.1, y.2.2) t)).sum) (wrap c')
          (((as.zip (xs.zip pgs)).map (fun y => 2 * (sn r s * (2 ^ maxBudget (DPool.cts pool) as / 2 ^ (env.base2k * xd.g.size)))
            + ptE env N pt (sn r s) (f y.1 y.2.1, y.2.2))).sum)) ∧
        (∀ t, t < N → |((as.zip (xs.zip pgs)).map (fun y => ptV env N pt (f y.1 y.2.1, y.2.2) t)).sum|
          ≤ ((as.zip (xs.zip pgs)).map (fun y => ptB env N pt (f y.1 y.2.1, y.2.2))).sum) := by
    intro f hfc hfok
    have e1 : ((as.zip (xs.zip pgs)).map (fun y => (f y.1 y.2.1, y.2.2))).map (fun x => x.1.c) = xs := by
      rw [List.map_map]; simp only [Function.comp_def, hfc]; exact i1
    have e2 : ((as.zip (xs.zip pgs)).map (fun y => (f y.1 y.2.1, y.2.2))).map Prod.snd = pgs := by
      rw [List.map_map]; simp only [Function.comp_def]; exact i2
    have e3 : ((as.zip (xs.zip pgs)).map (fun y => (f y.1 y.2.1, y.2.2))).map (fun x => x.1.c.ct) = xs.map DCt.ct := by
      have : (fun x : TOp × Col => x.1.c.ct) = DCt.ct ∘ (fun x => x.1.c) := rfl
      rw [this, ← List.map_map, e1]
    obtain ⟨c', h1, hct, hok, hsz, hv, hb⟩ := dDotPt_tracks he hN (big := mk.big) (dst := xd) (pt := pt) s
      ((as.zip (xs.zip pgs)).map (fun y => (f y.1 y.2.1, y.2.2))) (hp.get hxd)
      (by
        intro x hx
        obtain ⟨y, hy, rfl⟩ := List.mem_map.mp hx
        exact ⟨hfok y hy, hpt _ (hmem y hy).2.2⟩)
      (m := m) (by rw [e3]; exact hf)
      (by
        intro x hx res hres q hq
        obtain ⟨y, hy, rfl⟩ := List.mem_map.mp hx
        obtain ⟨ha, hpa, _⟩ := hmem y hy
        simp only [hfc] at hq ⊢
        exact hhi xd hxd y.1 ha y.2.1 hpa res hres q hq)
      hroom (maxBudget (DPool.cts pool) as)
      (by
        intro x hx
        obtain ⟨y, hy, rfl⟩ := List.mem_map.mp hx
        obtain ⟨ha, hpa, _⟩ := hmem y hy
        simp only [hfc]
        exact le_maxBudget_cts ha hpa)
    rw [e1, e2] at h1
    refine ⟨c', h1, hct, hok, hsz, ?_, ?_⟩
    · intro t ht
      have := hv t ht
      simpa only [List.map_map, Function.comp_def] using this
    · intro t ht
      have := hb t ht
      simpa only [List.map_map, Function.comp_def] using this
  -- the data result, from the trivial tracking
  obtain ⟨c', h1, hct, hok, hsz', _, _⟩ := key (fun _ x => ⟨x, fun t => decC s x t, 0, supN N (fun t => decC s x t)⟩) (fun _ _ => rfl)
    (by
      intro y hy
      exact ⟨hp.get (hmem y hy).2.1, fun t _ => Near.refl _ _, fun t ht => le_supN N _ ht, le_refl _, supN_nonneg _ _⟩)
  refine ⟨pool.set d c', ?_, by rw [cts_set, hct], hp.set d hok, fun τ hτ => ?_⟩
  · simp only [xstep, dopN, hxd, hxs, dput, h1, Core.Ops.bind]
  · obtain ⟨c'', h1', _, _, _, hv, hb⟩ := key (fun a x => ⟨x, τ.M a, τ.E a, τ.B a⟩) (fun _ _ => rfl)
      (by
        intro y hy
        obtain ⟨_, hpa, _⟩ := hmem y hy
        exact ⟨hp.get hpa, hτ.1 y.1 y.2.1 hpa, hτ.2.1 y.1, hτ.2.2.1 y.1, hτ.2.2.2 y.1⟩)
    have : c'' = c' := by
      have := h1'.symm.trans h1
      injection this
    subst this
    have hsz : sizeAt ((DPool.cts pool).set d m) d = xd.g.size := by
      rw [sizeAt_set hd, ← hct]; exact hsz'
    simp only [specDotPt]
    rw [hsz]
    -- the sums over `as.zip (xs.zip pgs)` are the sums over `as.zip pgs`
    have cV : ∀ t, ((as.zip (xs.zip pgs)).map (fun y => ptV env N pt ((⟨y.2.1, τ.M y.1, τ.E y.1, τ.B y.1⟩ : TOp), y.2.2) t)).sum
        = ((as.zip pgs).map (fun ap => (qNegMul (polyOf N (τ.M ap.1)) (ptMsg env N pt ap.2)).getD t 0)).sum := by
      intro t
      rw [← i3, List.map_map]
      rfl
    have cE : ((as.zip (xs.zip pgs)).map (fun y => 2 * (sn r s * (2 ^ maxBudget (DPool.cts pool) as / 2 ^ (env.base2k * xd.g.size)))
          + ptE env N pt (sn r s) ((⟨y.2.1, τ.M y.1, τ.E y.1, τ.B y.1⟩ : TOp), y.2.2))).sum
        = ((as.zip pgs).map (fun ap => 2 * (sn r s * (2 ^ maxBudget (DPool.cts pool) as / 2 ^ (env.base2k * xd.g.size)))
          + N * ((τ.E ap.1 + sn r s / 2 ^ (mdAt (DPool.cts pool) ap.1).logDelta) * ptBp env N pt ap.2))).sum := by
      rw [← i3, List.map_map]
      congr 1
      apply List.map_congr_left
      intro y hy
      simp only [Function.comp_def, ptE, mdAt_cts (hmem y hy).2.1]
    have cB : ((as.zip (xs.zip pgs)).map (fun y => ptB env N pt ((⟨y.2.1, τ.M y.1, τ.E y.1, τ.B y.1⟩ : TOp), y.2.2))).sum
        = ((as.zip pgs).map (fun ap => N * τ.B ap.1 * ptBp env N pt ap.2)).sum := by
      rw [← i3, List.map_map]
      rfl
    refine hτ.set d c'' _ _ _ (fun t ht => ?_) (fun t ht => ?_) ?_ ?_
    · have := hv t ht
      rw [cV t, cE] at this
      exact this
    · have := hb t ht
      rw [cV t, cB] at this
      exact this
    · apply sum_map_nonneg
      intro ap _
      have h1 : 0 ≤ sn r s / 2 ^ (mdAt (DPool.cts pool) ap.1).logDelta := div_nonneg hσ (by positivity)
      have h2 := hτ.2.2.1 ap.1
      have h3 : 0 ≤ ptBp env N pt ap.2 := supN_nonneg _ _
      have h4 : (0 : ℚ) ≤ 2 ^ maxBudget (DPool.cts pool) as / 2 ^ (env.base2k * xd.g.size) := by positivity
      positivity
    · apply sum_map_nonneg
      intro ap _
      have h2 := hτ.2.2.2 ap.1
      have h3 : 0 ≤ ptBp env N pt ap.2 := supN_nonneg _ _
      positivity

/-! ### `ckks_dot_product_ct`, un-fused path -/

theorem opNN_ok' {P : Pool} {d : Nat} {as bs : List Nat} {f : Ct → List Ct → List Ct → Res Ct} {mp : Pool} (h : opNN P d as bs f = .ok mp) :
    ∃ cd cs ds m, P[d]? = some cd ∧ getAll P d as = some cs ∧ getAll P d bs = some ds ∧ f cd cs ds = .ok m ∧ mp = P.set d m := by
  unfold opNN at h
  cases hd : P[d]? with
  | none => simp [hd] at h
  | some cd =>
    cases ha : getAll P d as with
    | none => simp [hd, ha] at h
    | some cs =>
      cases hb : getAll P d bs with
      | none => simp [hd, ha, hb] at h
      | some ds =>
        simp only [hd, ha, hb] at h
        cases hf : f cd cs ds with
        | ok m => rw [hf] at h; simp only [putRes] at h; injection h with h; exact ⟨cd, cs, ds, m, rfl, rfl, rfl, hf, h.symm⟩
        | err e x => rw [hf] at h; simp [putRes] at h
        | panic p => rw [hf] at h; simp [putRes] at h

theorem forall₂_zip {α β γ δ : Type} {R1 : α → β → Prop} {R2 : γ → δ → Prop} {as : List α} {xs : List β} (h1 : List.Forall₂ R1 as xs) :
    ∀ {bs : List γ} {ys : List δ}, List.Forall₂ R2 bs ys →
      List.Forall₂ (fun (p : α × γ) (q : β × δ) => R1 p.1 q.1 ∧ R2 p.2 q.2) (as.zip bs) (xs.zip ys) := by
  induction h1 with
  | nil => intro bs ys _; simp
  | cons h0 _ ih =>
    intro bs ys h2
    cases h2 with
    | nil => simp
    | cons g0 g => exact List.Forall₂.cons ⟨h0, g0⟩ (ih g)

theorem dotCt_len {env : Env} {dst m : Ct} {as bs : List Ct} (h : dotCt env dst as bs = .ok m) : as.length = bs.length := by
  unfold dotCt at h
  split at h
  · cases h
  · split at h
    · cases h
    · next h2 => omega

def specDotCt (env : Env) (N : Nat) (σ Uc : ℚ) (P mp : Pool) (τ : TS) (d : Nat) (as bs : List Nat) : TS :=
  let top : ℚ := 2 ^ maxBudget P as / 2 ^ (env.base2k * sizeAt mp d)
  ⟨upd τ.M d (fun t => ((as.zip bs).map (fun ab => (qNegMul (polyOf N (τ.M ab.1)) (polyOf N (τ.M ab.2))).getD t 0)).sum),
   upd τ.E d (((as.zip bs).map (fun ab => (Uc + σ) * top + N * (τ.B ab.1 * (τ.E ab.2 + σ / 2 ^ (mdAt P ab.2).logDelta)
      + (τ.E ab.1 + σ / 2 ^ (mdAt P ab.1).logDelta) * (τ.B ab.2 + (τ.E ab.2 + σ / 2 ^ (mdAt P ab.2).logDelta))))).sum),
   upd τ.B d (((as.zip bs).map (fun ab => N * τ.B ab.1 * τ.B ab.2)).sum)⟩

/-- **`ckks_dot_product_ct`, un-fused path / single pair** on a pool, contract form -/
theorem xstep_dotCt {env : Env} (he : EnvOK env) {N r : Nat} (hN : 0 < N) {mk : MulKey} {ak : AutKeys} {pool : DPool}
    (hp : AllOK env N r pool) {d : Nat} {as bs : List Nat} {mp : Pool}
    (hm : stepR env (DPool.cts pool) (.dotCt d as bs) = .ok mp) (s : List Poly) {Uc : ℚ} (hUc : 0 ≤ Uc)
    (hun : ∀ xs ys, dgetAll pool d as = some xs → dgetAll pool d bs = some ys →
      xs.length = 1 ∨ dotUniform (xs.map DCt.ct) (ys.map DCt.ct) = false)
    (hadm : ∀ cd, pool[d]? = some cd → ∀ ab ∈ as.zip bs, ∀ ca cb, pool[ab.1]? = some ca → pool[ab.2]? = some cb →
      DotAdm env N r mk s Uc cd.g.size ca cb) :
    XGoal env N r mk ak s pool (.dotCt d as bs) mp (fun τ => specDotCt env N (sn r s) Uc (DPool.cts pool) mp τ d as bs) := by
  obtain ⟨cd, cs, ds, m, hd, hga, hgb, hf, rfl⟩ := opNN_ok' (show opNN _ d as bs (dotCt env) = .ok mp from hm)
  obtain ⟨xd, hxd, rfl⟩ := cts_some hd
  obtain ⟨xs, hxs, rfl, halla⟩ := dgetAll_of_getAll pool d as cs hga
  obtain ⟨ys, hys, rfl, hallb⟩ := dgetAll_of_getAll pool d bs ds hgb
  have hla : as.length = xs.length := halla.length_eq
  have hlb : bs.length = ys.length := hallb.length_eq
  have hxy : xs.length = ys.length := by have := dotCt_len hf; simpa using this
  have hσ : 0 ≤ sn r s := le_trans zero_le_one (sn_pos r s)
  have hZ := forall₂_mem_zip (forall₂_zip (R2 := fun b y => pool[b]? = some y) halla hallb)
  have j1 : ((as.zip bs).zip (xs.zip ys)).map Prod.fst = as.zip bs :=
    List.map_fst_zip (by simp only [List.length_zip]; omega)
  have j2 : ((as.zip bs).zip (xs.zip ys)).map Prod.snd = xs.zip ys :=
    List.map_snd_zip (by simp only [List.length_zip]; omega)
  have j3 : (xs.zip ys).map Prod.fst = xs := List.map_fst_zip (by omega)
  have j4 : (xs.zip ys).map Prod.snd = ys := List.map_snd_zip (by omega)
  have hmemab : ∀ z ∈ (as.zip bs).zip (xs.zip ys), z.1 ∈ as.zip bs := by
    intro z hz; rw [← j1]; exact List.mem_map_of_mem hz
  have key : ∀ f : Nat → DCt → TOp, (∀ a x, (f a x).c = x) →
      (∀ z ∈ (as.zip bs).zip (xs.zip ys), (f z.1.1 z.2.1).ok env N r s ∧ (f z.1.2 z.2.2).ok env N r s) →
      ∃ c', dDotCt env N mk xd xs ys = .ok c' ∧ c'.ct = m ∧ DOK env N r c' ∧ c'.g.size = xd.g.size ∧
        (∀ t, t < N → Near (decC s c' t) ((((as.zip bs).zip (xs.zip ys)).map (fun z => ctV N (f z.1.1 z.2.1, f z.1.2 z.2.2) t)).sum) (wrap c')
          ((((as.zip bs).zip (xs.zip ys)).map (fun z => (Uc + sn r s) * (2 ^ maxBudget (DPool.cts pool) as / 2 ^ (env.base2k * xd.g.size))
            + ctE N (sn r s) (f z.1.1 z.2.1, f z.1.2 z.2.2))).sum)) ∧
        (∀ t, t < N → |(((as.zip bs).zip (xs.zip ys)).map (fun z => ctV N (f z.1.1 z.2.1, f z.1.2 z.2.2) t)).sum|
          ≤ (((as.zip bs).zip (xs.zip ys)).map (fun z => ctB N (f z.1.1 z.2.1, f z.1.2 z.2.2))).sum) := by
    intro f hfc hfok
    have e1 : (((as.zip bs).zip (xs.zip ys)).map (fun z => (f z.1.1 z.2.1, f z.1.2 z.2.2))).map (fun x => x.1.c) = xs := by
      rw [List.map_map]; simp only [Function.comp_def, hfc]
      have : (fun z : (Nat × Nat) × (DCt × DCt) => z.2.1) = Prod.fst ∘ Prod.snd := rfl
      rw [this, ← List.map_map, j2, j3]
    have e2 : (((as.zip bs).zip (xs.zip ys)).map (fun z => (f z.1.1 z.2.1, f z.1.2 z.2.2))).map (fun x => x.2.c) = ys := by
      rw [List.map_map]; simp only [Function.comp_def, hfc]
      have : (fun z : (Nat × Nat) × (DCt × DCt) => z.2.2) = Prod.snd ∘ Prod.snd := rfl
      rw [this, ← List.map_map, j2, j4]
    have e3 : (((as.zip bs).zip (xs.zip ys)).map (fun z => (f z.1.1 z.2.1, f z.1.2 z.2.2))).map (fun x => x.1.c.ct) = xs.map DCt.ct := by
      have : (fun x : TOp × TOp => x.1.c.ct) = DCt.ct ∘ (fun x => x.1.c) := rfl
      rw [this, ← List.map_map, e1]
    have e4 : (((as.zip bs).zip (xs.zip ys)).map (fun z => (f z.1.1 z.2.1, f z.1.2 z.2.2))).map (fun x => x.2.c.ct) = ys.map DCt.ct := by
      have : (fun x : TOp × TOp => x.2.c.ct) = DCt.ct ∘ (fun x => x.2.c) := rfl
      rw [this, ← List.map_map, e2]
    obtain ⟨c', h1, hct, hok, hsz, hv, hb⟩ := dDotCt_tracks he hN (mk := mk) (dst := xd) s hUc
      (((as.zip bs).zip (xs.zip ys)).map (fun z => (f z.1.1 z.2.1, f z.1.2 z.2.2))) (hp.get hxd)
      (by
        intro x hx
        obtain ⟨z, hz, rfl⟩ := List.mem_map.mp hx
        exact hfok z hz)
      (m := m) (by rw [e3, e4]; exact hf)
      (by
        rw [e3, e4, List.length_map, List.length_zip, List.length_zip, List.length_zip]
        rcases hun xs ys hxs hys with h | h
        · left; omega
        · exact Or.inr h)
      (by
        intro x hx
        obtain ⟨z, hz, rfl⟩ := List.mem_map.mp hx
        simp only [hfc]
        exact hadm xd hxd z.1 (hmemab z hz) z.2.1 z.2.2 (hZ z hz).1 (hZ z hz).2)
      (maxBudget (DPool.cts pool) as)
      (by
        intro x hx
        obtain ⟨z, hz, rfl⟩ := List.mem_map.mp hx
        simp only [hfc]
        exact le_maxBudget_cts (List.of_mem_zip (hmemab z hz)).1 (hZ z hz).1)
    rw [e1, e2] at h1
    refine ⟨c', h1, hct, hok, hsz, ?_, ?_⟩
    · intro t ht
      have := hv t ht
      simpa only [List.map_map, Function.comp_def] using this
    · intro t ht
      have := hb t ht
      simpa only [List.map_map, Function.comp_def] using this
  obtain ⟨c', h1, hct, hok, hsz', _, _⟩ := key (fun _ x => ⟨x, fun t => decC s x t, 0, supN N (fun t => decC s x t)⟩) (fun _ _ => rfl)
    (by
      intro z hz
      exact ⟨⟨hp.get (hZ z hz).1, fun t _ => Near.refl _ _, fun t ht => le_supN N _ ht, le_refl _, supN_nonneg _ _⟩,
        ⟨hp.get (hZ z hz).2, fun t _ => Near.refl _ _, fun t ht => le_supN N _ ht, le_refl _, supN_nonneg _ _⟩⟩)
  refine ⟨pool.set d c', ?_, by rw [cts_set, hct], hp.set d hok, fun τ hτ => ?_⟩
  · simp only [xstep, hxd, hxs, hys, dput, h1, Core.Ops.bind]
  · obtain ⟨c'', h1', _, _, _, hv, hb⟩ := key (fun a x => ⟨x, τ.M a, τ.E a, τ.B a⟩) (fun _ _ => rfl)
      (by
        intro z hz
        obtain ⟨hpa, hpb⟩ := hZ z hz
        exact ⟨⟨hp.get hpa, hτ.1 _ _ hpa, hτ.2.1 _, hτ.2.2.1 _, hτ.2.2.2 _⟩, ⟨hp.get hpb, hτ.1 _ _ hpb, hτ.2.1 _, hτ.2.2.1 _, hτ.2.2.2 _⟩⟩)
    have : c'' = c' := by
      have := h1'.symm.trans h1
      injection this
    subst this
    have hsz : sizeAt ((DPool.cts pool).set d m) d = xd.g.size := by
      rw [sizeAt_set hd, ← hct]; exact hsz'
    simp only [specDotCt]
    rw [hsz]
    have cV : ∀ t, (((as.zip bs).zip (xs.zip ys)).map (fun z => ctV N ((⟨z.2.1, τ.M z.1.1, τ.E z.1.1, τ.B z.1.1⟩ : TOp),
          (⟨z.2.2, τ.M z.1.2, τ.E z.1.2, τ.B z.1.2⟩ : TOp)) t)).sum
        = ((as.zip bs).map (fun ab => (qNegMul (polyOf N (τ.M ab.1)) (polyOf N (τ.M ab.2))).getD t 0)).sum := by
      intro t
      conv_rhs => rw [← j1, List.map_map]
      rfl
    have cE : (((as.zip bs).zip (xs.zip ys)).map (fun z => (Uc + sn r s) * (2 ^ maxBudget (DPool.cts pool) as / 2 ^ (env.base2k * xd.g.size))
          + ctE N (sn r s) ((⟨z.2.1, τ.M z.1.1, τ.E z.1.1, τ.B z.1.1⟩ : TOp), (⟨z.2.2, τ.M z.1.2, τ.E z.1.2, τ.B z.1.2⟩ : TOp)))).sum
        = ((as.zip bs).map (fun ab => (Uc + sn r s) * (2 ^ maxBudget (DPool.cts pool) as / 2 ^ (env.base2k * xd.g.size))
          + N * (τ.B ab.1 * (τ.E ab.2 + sn r s / 2 ^ (mdAt (DPool.cts pool) ab.2).logDelta)
            + (τ.E ab.1 + sn r s / 2 ^ (mdAt (DPool.cts pool) ab.1).logDelta) * (τ.B ab.2 + (τ.E ab.2 + sn r s / 2 ^ (mdAt (DPool.cts pool) ab.2).logDelta))))).sum := by
      conv_rhs => rw [← j1, List.map_map]
      congr 1
      apply List.map_congr_left
      intro z hz
      simp only [Function.comp_def, ctE, mdAt_cts (hZ z hz).1, mdAt_cts (hZ z hz).2]
    have cB : (((as.zip bs).zip (xs.zip ys)).map (fun z => ctB N ((⟨z.2.1, τ.M z.1.1, τ.E z.1.1, τ.B z.1.1⟩ : TOp),
          (⟨z.2.2, τ.M z.1.2, τ.E z.1.2, τ.B z.1.2⟩ : TOp)))).sum
        = ((as.zip bs).map (fun ab => N * τ.B ab.1 * τ.B ab.2)).sum := by
      conv_rhs => rw [← j1, List.map_map]
      rfl
    refine hτ.set d c'' _ _ _ (fun t ht => ?_) (fun t ht => ?_) ?_ ?_
    · have := hv t ht
      rw [cV t, cE] at this
      exact this
    · have := hb t ht
      rw [cV t, cB] at this
      exact this
    · apply sum_map_nonneg
      intro ab _
      have h1 : 0 ≤ sn r s / 2 ^ (mdAt (DPool.cts pool) ab.1).logDelta := div_nonneg hσ (by positivity)
      have h2 : 0 ≤ sn r s / 2 ^ (mdAt (DPool.cts pool) ab.2).logDelta := div_nonneg hσ (by positivity)
      have := hτ.2.2.1 ab.1; have := hτ.2.2.1 ab.2; have := hτ.2.2.2 ab.1; have := hτ.2.2.2 ab.2
      have h4 : (0 : ℚ) ≤ 2 ^ maxBudget (DPool.cts pool) as / 2 ^ (env.base2k * xd.g.size) := by positivity
      positivity
    · apply sum_map_nonneg
      intro ab _
      have := hτ.2.2.2 ab.1; have := hτ.2.2.2 ab.2
      positivity

end Ckks
