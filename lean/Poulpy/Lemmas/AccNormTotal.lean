import Poulpy.Lemmas.NormStageOff

/-!
Accumulate-then-normalise with every hypothesis but the accumulator head-room discharged: both accumulator widths (`i64`, `i128`), any
radix pair, every bit offset.
-/

namespace Core
open Hal Core.Ops C02L KsDec Finset

/-- **no-overflow lemma, both accumulator widths** (`i64`: FFT64, `i128`: NTT120): `vec_znx_big_add_small_assign` is the exact limb-wise
sum when `|res| ≤ X`, `|a| ≤ Y`, `X + Y < 2^63` resp. `2^127`. -/
theorem bigAddSmallAssign_exact_w {N : Nat} (big128 : Bool) (X Y : Int) (hXY : X + Y < 2 ^ (bitsOf big128 - 1)) (res a : Col)
    (hr : LimbsN N res) (hres : ∀ l ∈ res, ∀ v ∈ l, |v| ≤ X) (ha : ∀ l ∈ a, ∀ v ∈ l, |v| ≤ Y) :
    bigAddSmallAssign big128 res a = C02L.colAdd res (fit N res.length a) :=
  KsDec.bigAdd_exact (N := N) big128 X Y hXY res a hr hres ha

/-- the `i128` (NTT120) twin of `bigAddSmallAssign_exact` -/
theorem bigAddSmallAssign_exact128 {N : Nat} (X Y : Int) (hXY : X + Y < 2 ^ 127) (res a : Col)
    (hr : LimbsN N res) (hres : ∀ l ∈ res, ∀ v ∈ l, |v| ≤ X) (ha : ∀ l ∈ a, ∀ v ∈ l, |v| ≤ Y) :
    bigAddSmallAssign true res a = C02L.colAdd res (fit N res.length a) :=
  bigAddSmallAssign_exact_w (N := N) true X Y (by simpa [bitsOf] using hXY) res a hr hres ha

theorem two_pow_cast (N k : Nat) : (((2 : Int) ^ k : Int) : Ks.R N) = (2 : Ks.R N) ^ k := by push_cast; rfl

/-- **normalise a list of accumulator columns, total form in `R N`**: the per-limb phases of `L` (as the gadget / convolution value
theorems state them) against the phase of the normalised result. -/
theorem norm_total_rows (big128 : Bool) (N rb rs ab S : Nat) (off : Int) (H : Int) (L : List Col) (hN : 0 < N)
    (hrb1 : 1 ≤ rb) (hrb : rb ≤ 62) (hab1 : 1 ≤ ab) (hab : ab ≤ 62) (hH0 : 0 ≤ H) (hH : H + 8 ≤ 2 ^ (bitsOf big128 - 2))
    (hne : L ≠ []) (hwf : ∀ c ∈ L, ColWF N S c) (hb : ∀ c ∈ L, ∀ l ∈ c, ∀ x ∈ l, |x| ≤ H) :
    ∃ cs, L.mapM (fun c => bigNormalizeOff big128 N rb rs off c ab) = some cs ∧ cs.length = L.length ∧
      (∀ c ∈ cs, ColWF N rs c) ∧ (∀ c ∈ cs, ∀ l ∈ c, ∀ x ∈ l, |x| ≤ 2 ^ rb - 1) ∧
      ∀ (s : List Poly), ∃ E Q : Poly, E.length = N ∧ Q.length = N ∧
        normInf E ≤ (1 + snorm (min (L.length - 1) s.length) s) * normTolOff (rb * rs) (ab * S) off ∧
        (2 : Ks.R N) ^ (ab * S + (-off).toNat) * Ks.ι N (valP rb N (phase s (Ks.mkCt rb N cs)))
          = (2 : Ks.R N) ^ (rb * rs) * (2 : Ks.R N) ^ off.toNat *
              (∑ l ∈ range S, Ks.ι N (Ks.phaseRow s (L.map (fun col => limbOr0 N col l))) * ((2 : Ks.R N) ^ ab) ^ (S - 1 - l))
            + Ks.ι N E + (2 : Ks.R N) ^ (rb * rs + (ab * S + (-off).toNat)) * Ks.ι N Q := by
  obtain ⟨cs, h1, h2, h3, h4, h5⟩ := norm_stage_ring big128 N rb rs ab S off H L hN hrb1 hrb hab1 hab hH0 hH hne hwf hb
  refine ⟨cs, h1, h2, h3, h4, ?_⟩
  intro s
  obtain ⟨E, Q, hE, hQ, hn, he⟩ := h5 s
  refine ⟨E, Q, hE, hQ, hn, ?_⟩
  rw [← ι_valP_phase_rows' N hN ab S s L hne hwf]
  have := he
  push_cast at this
  exact this

/-- **accumulate-then-normalise, total form**: `P_j + q_j` (exact by head-room, both widths) normalised column by column. -/
theorem acc_norm_total (big128 : Bool) (N rb rs ab S n : Nat) (off : Int) (X Y : Int) (P : List Col) (q : Nat → Col) (hN : 0 < N)
    (hrb1 : 1 ≤ rb) (hrb : rb ≤ 62) (hab1 : 1 ≤ ab) (hab : ab ≤ 62) (hX0 : 0 ≤ X) (hY0 : 0 ≤ Y)
    (hH : X + Y + 8 ≤ 2 ^ (bitsOf big128 - 2))
    (hPlen : P.length = n + 1) (hPwf : ∀ c ∈ P, ColWF N S c) (hPb : ∀ c ∈ P, ∀ l ∈ c, ∀ x ∈ l, |x| ≤ X)
    (hq : ∀ j, j < n + 1 → LimbsN N (q j)) (hqb : ∀ j, j < n + 1 → ∀ l ∈ q j, ∀ x ∈ l, |x| ≤ Y) :
    ∃ cs, (List.range (n + 1)).mapM (fun j => bigNormalizeOff big128 N rb rs off (bigAddSmallAssign big128 (P.getD j []) (q j)) ab) = some cs ∧
      cs.length = n + 1 ∧ (∀ c ∈ cs, ColWF N rs c) ∧ (∀ c ∈ cs, ∀ l ∈ c, ∀ x ∈ l, |x| ≤ 2 ^ rb - 1) ∧
      ∀ (s : List Poly), ∃ E Q : Poly, E.length = N ∧ Q.length = N ∧
        normInf E ≤ (1 + snorm (min n s.length) s) * normTolOff (rb * rs) (ab * S) off ∧
        (2 : Ks.R N) ^ (ab * S + (-off).toNat) * Ks.ι N (valP rb N (phase s (Ks.mkCt rb N cs)))
          = (2 : Ks.R N) ^ (rb * rs) * (2 : Ks.R N) ^ off.toNat *
              (∑ l ∈ range S, Ks.ι N (Ks.phaseRow s (P.map (fun col => limbOr0 N col l))) * ((2 : Ks.R N) ^ ab) ^ (S - 1 - l)
                + Ks.ι N (valP ab N (phase s (Ks.mkCt ab N ((List.range (n + 1)).map (fun j => fit N S (q j)))))))
            + Ks.ι N E + (2 : Ks.R N) ^ (rb * rs + (ab * S + (-off).toNat)) * Ks.ι N Q := by
  have hbits : (2 : Int) ^ (bitsOf big128 - 1) = 2 * 2 ^ (bitsOf big128 - 2) := by
    rw [← pow_succ']; congr 1; cases big128 <;> simp [bitsOf]
  have hXY : X + Y < 2 ^ (bitsOf big128 - 1) := by
    rw [hbits]
    have : (0 : Int) < 2 ^ (bitsOf big128 - 2) := by positivity
    linarith
  have hPget : ∀ j, j < n + 1 → ColWF N S (P.getD j []) ∧ ∀ l ∈ P.getD j [], ∀ x ∈ l, |x| ≤ X := by
    intro j hj
    have hj' : j < P.length := by rw [hPlen]; exact hj
    rw [List.getD_eq_getElem?_getD, List.getElem?_eq_getElem hj']
    exact ⟨hPwf _ (List.getElem_mem hj'), hPb _ (List.getElem_mem hj')⟩
  have hacc_eq : (List.range (n + 1)).map (fun j => bigAddSmallAssign big128 (P.getD j []) (q j))
      = (List.range (n + 1)).map (fun j => C02L.colAdd (P.getD j []) (fit N S (q j))) := by
    apply List.map_congr_left
    intro j hj
    have hj' := List.mem_range.mp hj
    rw [bigAddSmallAssign_exact_w (N := N) big128 X Y hXY _ _ (hPget j hj').1.2 (hPget j hj').2 (hqb j hj'), (hPget j hj').1.1]
  have hqwf : ∀ j, j < n + 1 → ColWF N S (fit N S (q j)) := fun j hj => fit_wf (hq j hj) S
  have hsumwf : ∀ c ∈ (List.range (n + 1)).map (fun j => C02L.colAdd (P.getD j []) (fit N S (q j))), ColWF N S c := by
    intro c hc
    obtain ⟨j, hj, rfl⟩ := List.mem_map.mp hc
    have hj' := List.mem_range.mp hj
    exact colAdd_wf (hPget j hj').1 (hqwf j hj')
  have hsumb : ∀ c ∈ (List.range (n + 1)).map (fun j => C02L.colAdd (P.getD j []) (fit N S (q j))), ∀ l ∈ c, ∀ x ∈ l, |x| ≤ X + Y := by
    intro c hc
    obtain ⟨j, hj, rfl⟩ := List.mem_map.mp hc
    have hj' := List.mem_range.mp hj
    exact colAdd_bound _ _ X Y (hPget j hj').2 (fit_bound N S _ Y hY0 (hqb j hj'))
  have hnes : (List.range (n + 1)).map (fun j => C02L.colAdd (P.getD j []) (fit N S (q j))) ≠ [] := by
    intro h; have := congrArg List.length h; simp at this
  obtain ⟨cs, h1, h2, h3, h4, h5⟩ := norm_stage_ring big128 N rb rs ab S off (X + Y) _ hN hrb1 hrb hab1 hab (by linarith) hH hnes hsumwf hsumb
  refine ⟨cs, ?_, by simpa using h2, h3, h4, ?_⟩
  · rw [mapM_comp (fun j => bigAddSmallAssign big128 (P.getD j []) (q j)) (fun c => bigNormalizeOff big128 N rb rs off c ab), hacc_eq]
    exact h1
  · intro s
    obtain ⟨E, Q, hE, hQ, hn, he⟩ := h5 s
    have e1 : ((List.range (n + 1)).map (fun j => C02L.colAdd (P.getD j []) (fit N S (q j)))).length - 1 = n := by simp
    rw [e1] at hn
    refine ⟨E, Q, hE, hQ, hn, ?_⟩
    have hadd := ι_valP_phase_add N hN ab S s n (fun j => P.getD j []) (fun j => fit N S (q j)) (fun j hj => (hPget j hj).1) hqwf
    have hPmap : (List.range (n + 1)).map (fun j => P.getD j []) = P := by
      apply List.ext_getElem
      · simp [hPlen]
      · intro i h1 h2
        simp [List.getD_eq_getElem?_getD, List.getElem?_eq_getElem h2]
    rw [hPmap] at hadd
    have hne : P ≠ [] := by intro h; rw [h] at hPlen; simp at hPlen
    rw [← ι_valP_phase_rows' N hN ab S s P hne hPwf, ← hadd]
    have := he
    push_cast at this
    exact this

end Core
