import Poulpy.Lemmas.Bytes
/-
Lifting of the HAL-reader facts to the wrapper readers: closure lemmas for three kinds of facts
about a reader `m : Rd St α` and small tactics that apply them along a `do` block.

* `Pres I m`      — `I` holds of the receiver after the call whatever the outcome, if it held before;
* `NoPanicOn I m` — no `panic` outcome from receivers satisfying `I`;
* `KeepL m` / `ErrKeepL m` — the HAL leaves are untouched (always / when an error is returned).
-/
namespace Ser

section
variable {α β : Type}

def Pres (I : St → Prop) (m : Rd St α) : Prop := ∀ s bs, I s → I (m s bs).state
def NoPanicOn (I : St → Prop) (m : Rd St α) : Prop := ∀ s bs, I s → (m s bs).isPanic = false
def KeepL (m : Rd St α) : Prop := ∀ s bs, (m s bs).state.leaves = s.leaves
def ErrKeepL (m : Rd St α) : Prop := ∀ s bs k s', m s bs = .err k s' → s'.leaves = s.leaves

/-- what the readers are shown to maintain: every leaf consistent with its buffer, buffer lengths
`L`, allocation limit `M` -/
def Keep (L : List Nat) (M : Nat) (s : St) : Prop :=
  s.Inv ∧ s.leaves.map Leaf.bufLen = L ∧ s.mem = M

/-! #### bind -/

theorem pres_bind {I : St → Prop} {m : Rd St α} {f : α → Rd St β} (hm : Pres I m) (hf : ∀ a, Pres I (f a)) :
    Pres I (m >>= f) := by
  intro s bs hI
  have h := hm s bs hI
  rw [bind_apply]
  cases hr : m s bs with
  | ok a s' r => rw [hr] at h; exact hf a s' r h
  | err k s' => rw [hr] at h; exact h
  | panic c s' => rw [hr] at h; exact h

theorem nopanic_bind {I : St → Prop} {m : Rd St α} {f : α → Rd St β} (hp : Pres I m) (hm : NoPanicOn I m)
    (hf : ∀ a, NoPanicOn I (f a)) : NoPanicOn I (m >>= f) := by
  intro s bs hI
  have h := hp s bs hI
  have h2 := hm s bs hI
  rw [bind_apply]
  cases hr : m s bs with
  | ok a s' r => rw [hr] at h; exact hf a s' r h
  | err k s' => rfl
  | panic c s' => rw [hr] at h2; exact h2

theorem keepL_bind {m : Rd St α} {f : α → Rd St β} (hm : KeepL m) (hf : ∀ a, KeepL (f a)) : KeepL (m >>= f) := by
  intro s bs
  have h := hm s bs
  rw [bind_apply]
  cases hr : m s bs with
  | ok a s' r => rw [hr] at h; simp only [Res.state] at h; rw [← h]; exact hf a s' r
  | err k s' => rw [hr] at h; exact h
  | panic c s' => rw [hr] at h; exact h

theorem errKeepL_bind {m : Rd St α} {f : α → Rd St β} (hm : KeepL m) (hf : ∀ a, ErrKeepL (f a)) : ErrKeepL (m >>= f) := by
  intro s bs k s' he
  have h := hm s bs
  rw [bind_apply] at he
  cases hr : m s bs with
  | ok a s1 r => rw [hr] at h he; simp only [Res.state] at h; rw [← h]; exact hf a s1 r k s' he
  | err k1 s1 => rw [hr] at h he; simp only [Res.state] at h; injection he with _ h2; rw [← h2]; exact h
  | panic c s1 => rw [hr] at he; cases he

theorem errKeepL_of_keepL {m : Rd St α} (hm : KeepL m) : ErrKeepL m := by
  intro s bs k s' he
  have h := hm s bs
  rw [he] at h; exact h

/-! #### if -/

theorem pres_ite {I : St → Prop} {c : Prop} [Decidable c] {a b : Rd St α} (ha : Pres I a) (hb : Pres I b) :
    Pres I (if c then a else b) := by split <;> assumption
theorem nopanic_ite {I : St → Prop} {c : Prop} [Decidable c] {a b : Rd St α} (ha : NoPanicOn I a) (hb : NoPanicOn I b) :
    NoPanicOn I (if c then a else b) := by split <;> assumption
theorem keepL_ite {c : Prop} [Decidable c] {a b : Rd St α} (ha : KeepL a) (hb : KeepL b) :
    KeepL (if c then a else b) := by split <;> assumption

/-! #### primitives that do not touch the receiver -/

theorem readN_state (n : Nat) (s : St) (bs : Bytes) : ((readN n : Rd St Bytes) s bs).state = s := by
  unfold readN; split <;> rfl
theorem readN_nopanic (n : Nat) (s : St) (bs : Bytes) : ((readN n : Rd St Bytes) s bs).isPanic = false := by
  unfold readN; split <;> rfl

theorem readU_state (k : Nat) (s : St) (bs : Bytes) :
    ((Rd.bind (readN k) (fun b => Rd.pure (leVal b)) : Rd St Nat) s bs).state = s := by
  by_cases h : bs.length < k <;> simp [Rd.bind, readN, Rd.pure, h, Res.state]
theorem readU_nopanic (k : Nat) (s : St) (bs : Bytes) :
    ((Rd.bind (readN k) (fun b => Rd.pure (leVal b)) : Rd St Nat) s bs).isPanic = false := by
  by_cases h : bs.length < k <;> simp [Rd.bind, readN, Rd.pure, h, Res.isPanic]

theorem pres_readU32 {I : St → Prop} : Pres I (readU32 : Rd St Nat) := fun s bs h => by
  unfold readU32; rw [readU_state]; exact h
theorem pres_readU64 {I : St → Prop} : Pres I (readU64 : Rd St Nat) := fun s bs h => by
  unfold readU64; rw [readU_state]; exact h
theorem nopanic_readU32 {I : St → Prop} : NoPanicOn I (readU32 : Rd St Nat) := fun s bs _ => by
  unfold readU32; exact readU_nopanic 4 s bs
theorem nopanic_readU64 {I : St → Prop} : NoPanicOn I (readU64 : Rd St Nat) := fun s bs _ => by
  unfold readU64; exact readU_nopanic 8 s bs
theorem keepL_readU32 : KeepL (readU32 : Rd St Nat) := fun s bs => by unfold readU32; rw [readU_state]
theorem keepL_readU64 : KeepL (readU64 : Rd St Nat) := fun s bs => by unfold readU64; rw [readU_state]

theorem pres_failWith {I : St → Prop} (k : String) : Pres I (failWith k : Rd St α) := fun _ _ h => h
theorem nopanic_failWith {I : St → Prop} (k : String) : NoPanicOn I (failWith k : Rd St α) := fun _ _ _ => rfl
theorem keepL_failWith (k : String) : KeepL (failWith k : Rd St α) := fun _ _ => rfl

theorem pres_pure {I : St → Prop} (a : α) : Pres I (Rd.pure a : Rd St α) := fun _ _ h => h
theorem nopanic_pure {I : St → Prop} (a : α) : NoPanicOn I (Rd.pure a : Rd St α) := fun _ _ _ => rfl
theorem keepL_pure (a : α) : KeepL (Rd.pure a : Rd St α) := fun _ _ => rfl

theorem pres_getS {I : St → Prop} : Pres I (getS : Rd St St) := fun _ _ h => h
theorem nopanic_getS {I : St → Prop} : NoPanicOn I (getS : Rd St St) := fun _ _ _ => rfl
theorem keepL_getS : KeepL (getS : Rd St St) := fun _ _ => rfl

theorem pres_getF {I : St → Prop} (i : Nat) : Pres I (getF i) := fun s bs h => by
  unfold getF; split <;> exact h
theorem nopanic_getF {I : St → Prop} (i : Nat) : NoPanicOn I (getF i) := fun s bs _ => by
  unfold getF; split <;> rfl
theorem keepL_getF (i : Nat) : KeepL (getF i) := fun s bs => by unfold getF; split <;> rfl

/-! #### primitives that touch fields / seeds only -/

theorem keep_of_leaves_mem {L : List Nat} {M : Nat} {s s' : St} (h : Keep L M s) (hl : s'.leaves = s.leaves)
    (hm : s'.mem = s.mem) : Keep L M s' := by
  obtain ⟨h1, h2, h3⟩ := h
  refine ⟨?_, ?_, ?_⟩
  · unfold St.Inv; rw [hl]; exact h1
  · rw [hl]; exact h2
  · rw [hm]; exact h3

theorem setF_leaves (i v : Nat) (s : St) (bs : Bytes) :
    (setF i v s bs).state.leaves = s.leaves ∧ (setF i v s bs).state.mem = s.mem ∧ (setF i v s bs).isPanic = false := by
  unfold setF; split <;> exact ⟨rfl, rfl, rfl⟩

theorem pres_setF {L : List Nat} {M : Nat} (i v : Nat) : Pres (Keep L M) (setF i v) := fun s bs h =>
  keep_of_leaves_mem h (setF_leaves i v s bs).1 (setF_leaves i v s bs).2.1
theorem nopanic_setF {I : St → Prop} (i v : Nat) : NoPanicOn I (setF i v) := fun s bs _ => (setF_leaves i v s bs).2.2
theorem keepL_setF (i v : Nat) : KeepL (setF i v) := fun s bs => (setF_leaves i v s bs).1

theorem modifySeeds_leaves (g : St → List SeedGroup) (s : St) (bs : Bytes) :
    ((modifyS (fun s => { s with seeds := g s }) : Rd St Unit) s bs).state.leaves = s.leaves := rfl

theorem readSeedAt_facts (i : Nat) (s : St) (bs : Bytes) :
    (readSeedAt i s bs).state.leaves = s.leaves ∧ (readSeedAt i s bs).state.mem = s.mem ∧ (readSeedAt i s bs).isPanic = false := by
  unfold readSeedAt; split
  · exact ⟨rfl, rfl, rfl⟩
  · split <;> exact ⟨rfl, rfl, rfl⟩

theorem pres_readSeedAt {L : List Nat} {M : Nat} (i : Nat) : Pres (Keep L M) (readSeedAt i) := fun s bs h =>
  keep_of_leaves_mem h (readSeedAt_facts i s bs).1 (readSeedAt_facts i s bs).2.1
theorem nopanic_readSeedAt {I : St → Prop} (i : Nat) : NoPanicOn I (readSeedAt i) := fun s bs _ => (readSeedAt_facts i s bs).2.2
theorem keepL_readSeedAt (i : Nat) : KeepL (readSeedAt i) := fun s bs => (readSeedAt_facts i s bs).1

theorem readSeedsLoop_facts (i total k : Nat) (done : Bytes) (s : St) (bs : Bytes) :
    (readSeedsLoop i total k done s bs).state.leaves = s.leaves ∧ (readSeedsLoop i total k done s bs).state.mem = s.mem ∧
    (readSeedsLoop i total k done s bs).isPanic = false := by
  induction k generalizing done s bs with
  | zero => exact ⟨rfl, rfl, rfl⟩
  | succ k ih =>
    unfold readSeedsLoop
    split
    · exact ⟨rfl, rfl, rfl⟩
    · exact ih _ _ _

theorem readSeedVecAt_leaves (i : Nat) (s : St) (bs : Bytes) :
    (readSeedVecAt i s bs).state.leaves = s.leaves ∧ (readSeedVecAt i s bs).state.mem = s.mem := by
  unfold readSeedVecAt
  simp only [readU32_bind, getS_bind]
  split; · exact ⟨rfl, rfl⟩
  split; · exact ⟨rfl, rfl⟩
  by_cases hc : leVal (List.take 4 bs) * 32 > s.mem
  · simp only [hc, ↓reduceIte]; exact ⟨rfl, rfl⟩
  simp only [hc, ↓reduceIte]
  rw [bind_apply, modifyS_apply]
  simp only []
  have h := readSeedsLoop_facts i (leVal (List.take 4 bs)) (leVal (List.take 4 bs)) []
    { s with seeds := s.seeds.set i ⟨leVal (List.take 4 bs), []⟩ } (List.drop 4 bs)
  exact ⟨h.1, h.2.1⟩

theorem leVal_take4_lt (bs : Bytes) : leVal (bs.take 4) < 2 ^ 32 := by
  have h := leVal_lt (bs.take 4)
  have h2 : (bs.take 4).length ≤ 4 := by simp; omega
  calc leVal (bs.take 4) < 256 ^ (bs.take 4).length := h
    _ ≤ 256 ^ 4 := Nat.pow_le_pow_right (by decide) h2
    _ = 2 ^ 32 := by decide

/-- the allocation of the seed vector cannot fail when one allocation of 2^37 bytes is granted -/
theorem readSeedVecAt_nopanic (i : Nat) (s : St) (bs : Bytes) (hm : 2 ^ 37 ≤ s.mem) :
    (readSeedVecAt i s bs).isPanic = false := by
  unfold readSeedVecAt
  simp only [readU32_bind, getS_bind]
  split; · rfl
  split; · rfl
  by_cases hc : leVal (List.take 4 bs) * 32 > s.mem
  · have := leVal_take4_lt bs; omega
  simp only [hc, ↓reduceIte]
  rw [bind_apply, modifyS_apply]
  simp only []
  exact (readSeedsLoop_facts i _ _ [] _ _).2.2

theorem pres_readSeedVecAt {L : List Nat} {M : Nat} (i : Nat) : Pres (Keep L M) (readSeedVecAt i) := fun s bs h =>
  keep_of_leaves_mem h (readSeedVecAt_leaves i s bs).1 (readSeedVecAt_leaves i s bs).2
theorem keepL_readSeedVecAt (i : Nat) : KeepL (readSeedVecAt i) := fun s bs => (readSeedVecAt_leaves i s bs).1
theorem nopanic_readSeedVecAt {L : List Nat} {M : Nat} (hM : 2 ^ 37 ≤ M) (i : Nat) : NoPanicOn (Keep L M) (readSeedVecAt i) :=
  fun s bs h => readSeedVecAt_nopanic i s bs (by rw [h.2.2]; exact hM)

/-! #### the inner HAL reads -/

theorem list_set_map_bufLen (ls : List Leaf) (i : Nat) (l l' : Leaf) (hi : ls[i]? = some l) (hb : l'.bufLen = l.bufLen) :
    (ls.set i l').map Leaf.bufLen = ls.map Leaf.bufLen := by
  rw [List.map_set]
  apply List.ext_getElem?
  intro j
  by_cases hj : j = i
  · subst hj
    rw [List.getElem?_set]
    simp only [List.length_map, List.getElem?_map, hi, Option.map_some, ↓reduceIte]
    split <;> simp_all
  · rw [List.getElem?_set_ne (Ne.symm hj)]

theorem inv_set (s : St) (i : Nat) (l' : Leaf) (h : s.Inv) (hl : l'.Inv) : St.Inv { s with leaves := s.leaves.set i l' } := by
  intro l hmem
  rcases List.mem_or_eq_of_mem_set hmem with h1 | h1
  · exact h l h1
  · rw [h1]; exact hl

/-- a lifted leaf reader `m` is *clean* when an error leaves the leaf untouched, success yields a leaf
satisfying its invariant with the same buffer length, and it never panics -/
def CleanLeaf (m : Leaf → Bytes → Option (Res Leaf Unit)) : Prop :=
  ∀ l bs r, m l bs = some r →
    match r with
    | .ok _ l' _ => l'.Inv ∧ l'.bufLen = l.bufLen
    | .err _ l' => l' = l
    | .panic _ _ => False

theorem clean_liftVec : CleanLeaf (liftVec VecZnx.readFrom) := by
  intro l bs r h
  cases l with
  | vec v =>
    simp only [liftVec, Option.some.injEq] at h
    have g := vec_read_good v bs
    cases hr : VecZnx.readFrom v bs with
    | ok a v' rest => rw [hr] at h g; subst h; exact vecOk_inv g
    | err k v' => rw [hr] at h g; subst h; simp only [Good] at g; simp [g]
    | panic c v' => rw [hr] at g; exact g.elim
  | scalar _ => simp [liftVec] at h
  | mat _ => simp [liftVec] at h

theorem clean_liftMat : CleanLeaf (liftMat MatZnx.readFrom) := by
  intro l bs r h
  cases l with
  | mat v =>
    simp only [liftMat, Option.some.injEq] at h
    have g := mat_read_good v bs
    cases hr : MatZnx.readFrom v bs with
    | ok a v' rest => rw [hr] at h g; subst h; exact matOk_inv g
    | err k v' => rw [hr] at h g; subst h; simp only [Good] at g; simp [g]
    | panic c v' => rw [hr] at g; exact g.elim
  | scalar _ => simp [liftMat] at h
  | vec _ => simp [liftMat] at h

theorem clean_liftScalar : CleanLeaf (liftScalar ScalarZnx.readFrom) := by
  intro l bs r h
  cases l with
  | scalar v =>
    simp only [liftScalar, Option.some.injEq] at h
    have g := scalar_read_good v bs
    cases hr : ScalarZnx.readFrom v bs with
    | ok a v' rest => rw [hr] at h g; subst h; exact scalarOk_inv g
    | err k v' => rw [hr] at h g; subst h; simp only [Good] at g; simp [g]
    | panic c v' => rw [hr] at g; exact g.elim
  | vec _ => simp [liftScalar] at h
  | mat _ => simp [liftScalar] at h

theorem list_set_self (ls : List Leaf) (i : Nat) (l : Leaf) (hi : ls[i]? = some l) : ls.set i l = ls := by
  apply List.ext_getElem?
  intro j
  by_cases hj : j = i
  · subst hj
    have hlt : j < ls.length := by
      rcases List.getElem?_eq_some_iff.mp hi with ⟨h, _⟩; exact h
    have hv : ls[j] = l := by
      rcases List.getElem?_eq_some_iff.mp hi with ⟨_, h⟩; exact h
    simp [List.getElem?_set, hlt, hv]
  · rw [List.getElem?_set_ne (Ne.symm hj)]

theorem onLeaf_facts {m : Leaf → Bytes → Option (Res Leaf Unit)} (hm : CleanLeaf m) (i : Nat) {L : List Nat} {M : Nat}
    (s : St) (bs : Bytes) (h : Keep L M s) :
    Keep L M (onLeaf i m s bs).state ∧ (onLeaf i m s bs).isPanic = false ∧
    (∀ k s', onLeaf i m s bs = .err k s' → s'.leaves = s.leaves) := by
  unfold onLeaf
  cases hi : s.leaves[i]? with
  | none => exact ⟨h, rfl, fun k s' he => by injection he with _ h2; rw [← h2]⟩
  | some l =>
    simp only []
    cases hr : m l bs with
    | none => exact ⟨h, rfl, fun k s' he => by injection he with _ h2; rw [← h2]⟩
    | some r =>
      have hc := hm l bs r hr
      cases r with
      | ok a l' rest =>
        simp only [] at hc
        refine ⟨⟨inv_set s i l' h.1 hc.1, ?_, h.2.2⟩, rfl, fun k s' he => by cases he⟩
        simp only [Res.state]
        rw [list_set_map_bufLen _ _ _ _ hi hc.2]; exact h.2.1
      | err k l' =>
        simp only [] at hc
        subst hc
        simp only [Res.state, list_set_self _ _ _ hi]
        exact ⟨h, rfl, fun k s' he => by injection he with _ h2; rw [← h2]⟩
      | panic c l' => exact hc.elim

theorem pres_onLeaf {m} (hm : CleanLeaf m) (i : Nat) {L : List Nat} {M : Nat} : Pres (Keep L M) (onLeaf i m) :=
  fun s bs h => (onLeaf_facts hm i s bs h).1
theorem nopanic_onLeaf {m} (hm : CleanLeaf m) (i : Nat) {L : List Nat} {M : Nat} : NoPanicOn (Keep L M) (onLeaf i m) :=
  fun s bs h => (onLeaf_facts hm i s bs h).2.1

/-- the error clause does not need the invariant -/
theorem errKeepL_onLeaf {m} (hm : CleanLeaf m) (i : Nat) : ErrKeepL (onLeaf i m) := by
  intro s bs k s' he
  unfold onLeaf at he
  cases hi : s.leaves[i]? with
  | none => rw [hi] at he; injection he with _ h2; rw [← h2]
  | some l =>
    rw [hi] at he
    simp only [] at he
    cases hr : m l bs with
    | none => rw [hr] at he; injection he with _ h2; rw [← h2]
    | some r =>
      have hc := hm l bs r hr
      rw [hr] at he
      cases r with
      | ok a l' rest => cases he
      | err k l' =>
        simp only [] at hc he
        subst hc
        injection he with _ h2
        rw [← h2]; simp only [list_set_self _ _ _ hi]
      | panic c l' => cases he

end

/-! #### loops and containers -/

section
variable {I : St → Prop}

theorem pres_rRep {r : Cur → Rd St Unit} {adv : Cur → Cur} (hr : ∀ c, Pres I (r c)) (k : Nat) (c : Cur) :
    Pres I (rRep r adv k c) := by
  induction k generalizing c with
  | zero => exact pres_pure ()
  | succ k ih => unfold rRep; exact pres_bind (hr c) (fun _ => ih _)

theorem nopanic_rRep {r : Cur → Rd St Unit} {adv : Cur → Cur} (hp : ∀ c, Pres I (r c)) (hr : ∀ c, NoPanicOn I (r c))
    (k : Nat) (c : Cur) : NoPanicOn I (rRep r adv k c) := by
  induction k generalizing c with
  | zero => exact nopanic_pure ()
  | succ k ih => unfold rRep; exact nopanic_bind (hp c) (hr c) (fun _ => ih _)

theorem pres_rKeys {r : Cur → Rd St Unit} {adv : Cur → Cur} (hr : ∀ c, Pres I (r c)) (c : Cur) : Pres I (rKeys r adv c) := by
  unfold rKeys
  refine pres_bind pres_readU64 (fun len => pres_bind (pres_getF _) (fun n => ?_))
  exact pres_ite (pres_failWith _) (pres_rRep hr _ _)

theorem nopanic_rKeys {r : Cur → Rd St Unit} {adv : Cur → Cur} (hp : ∀ c, Pres I (r c)) (hr : ∀ c, NoPanicOn I (r c)) (c : Cur) :
    NoPanicOn I (rKeys r adv c) := by
  unfold rKeys
  refine nopanic_bind pres_readU64 nopanic_readU64 (fun len => nopanic_bind (pres_getF _) (nopanic_getF _) (fun n => ?_))
  exact nopanic_ite (nopanic_failWith _) (nopanic_rRep hp hr _ _)
end

/-! ### tactic: walk a `do` block applying the closure lemmas -/

attribute [irreducible] Pres NoPanicOn KeepL ErrKeepL

macro "rd_step" : tactic => `(tactic| first
  | exact pres_readU32 | exact pres_readU64 | exact pres_setF _ _
  | exact pres_failWith _ | exact pres_pure _ | exact pres_getS | exact pres_getF _ | exact pres_readSeedAt _
  | exact pres_readSeedVecAt _ | exact pres_onLeaf clean_liftVec _ | exact pres_onLeaf clean_liftMat _
  | exact pres_onLeaf clean_liftScalar _
  | exact nopanic_readU32 | exact nopanic_readU64 | exact nopanic_setF _ _
  | exact nopanic_failWith _ | exact nopanic_pure _ | exact nopanic_getS | exact nopanic_getF _ | exact nopanic_readSeedAt _
  | exact nopanic_onLeaf clean_liftVec _ | exact nopanic_onLeaf clean_liftMat _ | exact nopanic_onLeaf clean_liftScalar _
  | exact keepL_readU32 | exact keepL_readU64 | exact keepL_setF _ _
  | exact keepL_failWith _ | exact keepL_pure _ | exact keepL_getS | exact keepL_getF _ | exact keepL_readSeedAt _
  | exact keepL_readSeedVecAt _
  | exact errKeepL_onLeaf clean_liftVec _ | exact errKeepL_onLeaf clean_liftMat _ | exact errKeepL_onLeaf clean_liftScalar _
  | assumption
  | apply pres_ite | apply nopanic_ite | apply keepL_ite
  | apply pres_bind | apply nopanic_bind | apply keepL_bind | apply errKeepL_bind
  | intro _)

end Ser
