import Poulpy.Lemmas.Fft64VmpNumeric
import Poulpy.Model.Fft64Cnv
import Poulpy.Lemmas.HalSpec

open Complex

namespace Fft64
open F64 NttMath

/-- the accumulation core shared by the vmp and the convolution pipelines: computed transform-domain rows `rowsC` that are
`(EF, AF)`-close to the exact transforms of integer rows `rows` (they need not come from `dftOf`: zero-filled limbs qualify) -/
theorem vmp_core (K : Nat) (iomg : Array Nat) (τ Ma Mb : ℝ) (rows : List (Poly × Poly)) (rowsC : List (List C64 × List C64))
    (hacci : AccI τ (twOf (invIdx K) iomg) K 0 0 (1 / 4))
    (hlen : ∀ r ∈ rows, r.1.length = 2 ^ (K + 1) ∧ r.2.length = 2 ^ (K + 1))
    (hrel : List.Forall₂ (fun rc (r : Poly × Poly) =>
      Close (EF K τ Ma) (AF K Ma) rc.1 (fwdE K (1 / 4) (packC (2 ^ K) (r.1.map cc))) ∧
      Close (EF K τ Mb) (AF K Mb) rc.2 (fwdE K (1 / 4) (packC (2 ^ K) (r.2.map cc)))) rowsC rows)
    (hdom : VmpDomain K rows.length τ Ma Mb) :
    idftOf K iomg (rowsC.foldl (fun acc r => List.zipWith (fun s uv => caddmul s uv.1 uv.2) acc (r.1.zip r.2))
        (List.replicate (2 ^ K) ((0:Nat), (0:Nat)))) =
      Hal.sumPolys (2 ^ (K + 1)) (rows.map (fun r => Hal.negMul r.1 r.2)) := by
  have a2 := hacci
  have hγ := γf_nonneg τ hdom.τ0
  have hAFa : 1 ≤ AF K Ma := by
    unfold AF A0; have : (1:ℝ) ≤ 2 ^ K := one_le_pow₀ (by norm_num); have := hdom.Ma1; nlinarith
  have hAFb : 1 ≤ AF K Mb := by
    unfold AF A0; have : (1:ℝ) ≤ 2 ^ K := one_le_pow₀ (by norm_num); have := hdom.Mb1; nlinarith
  have hEFa : 0 ≤ EF K τ Ma := errB_nonneg _ hγ _ _ _ (by unfold A0; have := hdom.Ma1; linarith) le_rfl
  have hEFb : 0 ≤ EF K τ Mb := errB_nonneg _ hγ _ _ _ (by unfold A0; have := hdom.Mb1; linarith) le_rfl
  set rowsE := rows.map (fun r => (fwdE K (1 / 4) (packC (2 ^ K) (r.1.map cc)), fwdE K (1 / 4) (packC (2 ^ K) (r.2.map cc)))) with hrE
  have hrel' : List.Forall₂ (fun rc re => Close (EF K τ Ma) (AF K Ma) rc.1 re.1 ∧ Close (EF K τ Mb) (AF K Mb) rc.2 re.2) rowsC rowsE := by
    rw [hrE, List.forall₂_map_right_iff]; exact hrel
  have hz : Close 0 0 (List.replicate (2 ^ K) ((0:Nat), (0:Nat))) (List.replicate (2 ^ K) (0:ℂ)) := by
    have f0 : Fin64 0 := ⟨⟨false, 0, -1074⟩, by decide⟩
    have v0 : val 0 = 0 := by rw [val_of_decode (by decide : decode 0 = some ⟨false, 0, -1074⟩)]; simp [Dy.val]
    have hc : cval (0, 0) = 0 := by apply Complex.ext <;> simp [cval, v0]
    unfold Close
    induction (2 ^ K) with
    | zero => simp
    | succ n ih => rw [List.replicate_succ, List.replicate_succ]; exact List.Forall₂.cons ⟨⟨f0, f0⟩, by simp [hc], by simp⟩ ih
  have hlenC : rowsC.length = rows.length := List.Forall₂.length_eq hrel
  have hEPeq : epOf (EF K τ Ma) (AF K Ma) (EF K τ Mb) (AF K Mb) = EP K τ Ma Mb := rfl
  have hAPeq : AF K Ma * AF K Mb = AP K Ma Mb := rfl
  have fc := fold_close (EF K τ Ma) (AF K Ma) (EF K τ Mb) (AF K Mb) hAFa hAFb hEFa hEFb hdom.rp hrel' 0 0 _ _ le_rfl le_rfl hz
    (by rw [hlenC, hEPeq, hAPeq]; exact hdom.racc)
  rw [hlenC, hEPeq, hAPeq] at fc
  change Close (accR K rows.length τ Ma Mb).1 (accR K rows.length τ Ma Mb).2 _ _ at fc
  -- exact side
  have hex := exact_fold K rows hlen (Hal.zeroP (2 ^ (K + 1))) (by simp [Hal.zeroP])
  rw [packC_zero, fwdE_zero] at hex
  rw [← hrE] at hex
  rw [hex] at fc
  set c := Hal.sumPolys (2 ^ (K + 1)) (rows.map (fun r => Hal.negMul r.1 r.2)) with hc
  have hcdef : c = (rows.map (fun r => Hal.negMul r.1 r.2)).foldl Hal.polyAdd (Hal.zeroP (2 ^ (K + 1))) := rfl
  rw [← hcdef] at fc
  have lc : c.length = 2 ^ (K + 1) := by
    rw [hcdef]; apply foldl_polyAdd_length _ _ _ (by simp [Hal.zeroP])
    intro p hp
    simp only [List.mem_map] at hp
    obtain ⟨r, hr, rfl⟩ := hp
    rw [Hal.negMul_length]; exact (hlen r hr).2
  have lpk := packC_length K (c.map cc) (by simpa using lc)
  have lacc : (rowsC.foldl (fun acc r => List.zipWith (fun s uv => caddmul s uv.1 uv.2) acc (r.1.zip r.2))
      (List.replicate (2 ^ K) ((0:Nat), (0:Nat)))).length = 2 ^ K := by
    rw [close_len fc, fwdE_length _ _ _ lpk]
  -- inverse transform
  have hep : 0 ≤ EP K τ Ma Mb := by
    unfold EP; have := κ_nonneg
    have h1 : 0 ≤ AF K Ma + EF K τ Ma := by linarith
    have h2 : 0 ≤ AF K Mb + EF K τ Mb := by linarith
    have h3 : 0 ≤ AF K Mb := by linarith
    positivity
  have hap : 0 ≤ AP K Ma Mb := by unfold AP; positivity
  obtain ⟨hE0, _, _⟩ := accIter_mono _ _ hep hap rows.length (0, 0) le_rfl le_rfl
  change 0 ≤ (accR K rows.length τ Ma Mb).1 at hE0
  have hA1 : 1 ≤ (accR K rows.length τ Ma Mb).2 := by
    unfold accR; rw [accIter_snd]; simp only [zero_add]
    have hR : (1:ℝ) ≤ (rows.length : ℝ) := by exact_mod_cast hdom.R1
    have : 1 ≤ AP K Ma Mb := by unfold AP; nlinarith
    nlinarith
  have ci := inv_err τ hdom.τ0 hdom.τ1 (twOf (invIdx K) iomg) K 0 0 (1 / 4) _ _ _ _ hA1 hE0 lacc fc a2 hdom.ri
  rw [invE_fwdE _ _ _ lpk] at ci
  obtain ⟨h1, h2⟩ := take_drop_len c K lc
  have hX : (packC (2 ^ K) (c.map cc)).map ((2:ℂ) ^ K * ·) =
      List.zipWith (fun x y => (2:ℂ) ^ K * (cc x + I * cc y)) (c.take (2 ^ K)) (c.drop (2 ^ K)) := by
    unfold packC
    rw [← List.map_take, ← List.map_drop, List.map_zipWith, List.zipWith_map]
  rw [hX] at ci
  have hEI : 0 ≤ errB (γi τ) K (accR K rows.length τ Ma Mb).2 (accR K rows.length τ Ma Mb).1 :=
    errB_nonneg _ (γi_nonneg τ hdom.τ0) _ _ _ (by linarith) hE0
  have hdiv : 2 ^ K * (accR K rows.length τ Ma Mb).2 / 2 ^ K = (accR K rows.length τ Ma Mb).2 := by field_simp
  obtain ⟨r1, r2⟩ := close_to K hdom.K1 _ (2 ^ K * (accR K rows.length τ Ma Mb).2) hEI (by rw [hdiv]; exact hdom.r62)
    (by rw [hdiv]; exact hdom.main) _ _ _ (by rw [h1, h2]) ci
  unfold idftOf toZnx flat
  rw [List.map_append, List.map_map, List.map_map]
  have e1 : (toI64 K ∘ Prod.fst) = fun w : C64 => toI64 K w.1 := rfl
  have e2 : (toI64 K ∘ Prod.snd) = fun w : C64 => toI64 K w.2 := rfl
  rw [e1, e2, r1, r2, List.take_append_drop]

theorem close_zero_vec (K : Nat) (E A : ℝ) (hE : 0 ≤ E) (hA : 0 ≤ A) :
    Close E A (List.replicate (2 ^ K) ((0:Nat), (0:Nat))) (List.replicate (2 ^ K) (0:ℂ)) := by
  have f0 : Fin64 0 := ⟨⟨false, 0, -1074⟩, by decide⟩
  have v0 : val 0 = 0 := by rw [val_of_decode (by decide : decode 0 = some ⟨false, 0, -1074⟩)]; simp [Dy.val]
  have hc : cval (0, 0) = 0 := by apply Complex.ext <;> simp [cval, v0]
  unfold Close
  induction (2 ^ K) with
  | zero => simp
  | succ n ih => rw [List.replicate_succ, List.replicate_succ]; exact List.Forall₂.cons ⟨⟨f0, f0⟩, by simp [hc, hE], by simp [hA]⟩ ih

/-- the inverse transform and output conversion of the all-`+0` vector give the zero polynomial -/
theorem idft_zero (K : Nat) (iomg : Array Nat) (τ Ma Mb : ℝ) (hacci : AccI τ (twOf (invIdx K) iomg) K 0 0 (1 / 4))
    (hdom : VmpDomain K 1 τ Ma Mb) :
    idftOf K iomg (List.replicate (2 ^ K) ((0:Nat), (0:Nat))) = Hal.zeroP (2 ^ (K + 1)) := by
  have hu := u_pos
  have hγi := γi_nonneg τ hdom.τ0
  set A := (accR K 1 τ Ma Mb).2 with hA
  set E := (accR K 1 τ Ma Mb).1 with hE
  have hap : 0 ≤ AP K Ma Mb := by rw [AP_eq]; have := hdom.Ma1; have := hdom.Mb1; positivity
  have hA1 : 1 ≤ A := by
    rw [hA]; unfold accR; rw [accIter_snd]; simp only [zero_add, Nat.cast_one, one_mul]
    rw [AP_eq]
    have hP1 : 1 ≤ Ma * Mb := by have := mul_le_mul hdom.Ma1 hdom.Mb1 (by norm_num) (by linarith [hdom.Ma1]); linarith
    have hQ1 : (1:ℝ) ≤ 4 ^ K := one_le_pow₀ (by norm_num)
    have : (1:ℝ) ≤ 4 ^ K * (Ma * Mb) := by have := mul_le_mul hQ1 hP1 (by norm_num) (by linarith); linarith
    linarith
  have hE0 : 0 ≤ E := by
    have hF1 : 1 ≤ (1 + γf τ / 2) ^ K := one_le_pow₀ (by have := γf_nonneg τ hdom.τ0; linarith)
    have hep : 0 ≤ EP K τ Ma Mb := by
      rw [EP_eq]
      have hκ := κ_nonneg
      have h1 : 1 ≤ ((1 + γf τ / 2) ^ K) ^ 2 := one_le_pow₀ hF1
      have : (1:ℝ) * 1 ≤ ((1 + γf τ / 2) ^ K) ^ 2 * (1 + 3 / 2 * κ) := mul_le_mul h1 (by linarith) (by norm_num) (by linarith)
      have : 0 ≤ ((1 + γf τ / 2) ^ K) ^ 2 * (1 + 3 / 2 * κ) - 1 := by linarith
      have := hdom.Ma1; have := hdom.Mb1
      positivity
    exact (accIter_mono _ _ hep hap 1 (0, 0) le_rfl le_rfl).1
  set g := (1 + γi τ / 2) ^ K with hg
  have hg1 : 1 ≤ g := one_le_pow₀ (by linarith)
  have hmono : errB (γi τ) K 1 0 ≤ errB (γi τ) K A E := by
    unfold errB
    apply mul_le_mul_of_nonneg_left _ (by positivity)
    have : g * (1 + 0) - 1 ≤ g * (A + E) - A := by nlinarith
    exact this
  have hz := close_zero_vec K 0 1 le_rfl (by norm_num)
  have hbig : 2 ^ K * (1 + γi τ / 2) ^ K * (1 + 0) ≤ (2:ℝ) ^ (997:Int) := by
    refine le_trans ?_ hdom.ri
    apply mul_le_mul_of_nonneg_left _ (by positivity)
    linarith
  have ci := inv_err τ hdom.τ0 hdom.τ1 (twOf (invIdx K) iomg) K 0 0 (1 / 4) 1 0 _ _ le_rfl le_rfl (by simp) hz hacci hbig
  have hfe : fwdE K (1 / 4) (List.replicate (2 ^ K) 0) = List.replicate (2 ^ K) 0 := fwdE_zero K _
  rw [← hfe, invE_fwdE _ _ _ (by simp)] at ci
  set c := Hal.zeroP (2 ^ (K + 1)) with hc
  have lc : c.length = 2 ^ (K + 1) := by simp [hc, Hal.zeroP]
  obtain ⟨h1, h2⟩ := take_drop_len c K lc
  have hX : (List.replicate (2 ^ K) (0:ℂ)).map ((2:ℂ) ^ K * ·) =
      List.zipWith (fun x y => (2:ℂ) ^ K * (cc x + I * cc y)) (c.take (2 ^ K)) (c.drop (2 ^ K)) := by
    have := packC_zero K
    rw [← this]
    unfold packC
    rw [← List.map_take, ← List.map_drop, List.map_zipWith, List.zipWith_map]
  rw [hX] at ci
  have hEI : 0 ≤ errB (γi τ) K 1 0 := errB_nonneg _ hγi _ _ _ (by norm_num) le_rfl
  have hdiv : (2:ℝ) ^ K * 1 / 2 ^ K = 1 := by field_simp
  have h2K : (0:ℝ) < 2 ^ K := by positivity
  have hmain : errB (γi τ) K 1 0 / 2 ^ K * (1 + u) + u * ((2:ℝ) ^ K * 1 / 2 ^ K) + η < 1 / 2 := by
    rw [hdiv]
    have h1 : errB (γi τ) K 1 0 / 2 ^ K * (1 + u) ≤ errB (γi τ) K A E / 2 ^ K * (1 + u) :=
      mul_le_mul_of_nonneg_right (div_le_div_of_nonneg_right hmono h2K.le) (by linarith)
    have h2 : u * 1 ≤ u * A := mul_le_mul_of_nonneg_left hA1 hu.le
    have := hdom.main
    linarith
  obtain ⟨r1, r2⟩ := close_to K hdom.K1 _ ((2:ℝ) ^ K * 1) hEI (by rw [hdiv]; norm_num) hmain _ _ _ (by rw [h1, h2]) ci
  unfold idftOf toZnx flat
  rw [List.map_append, List.map_map, List.map_map]
  have e1 : (toI64 K ∘ Prod.fst) = fun w : C64 => toI64 K w.1 := rfl
  have e2 : (toI64 K ∘ Prod.snd) = fun w : C64 => toI64 K w.2 := rfl
  rw [e1, e2, r1, r2, List.take_append_drop]

end Fft64

namespace Fft64Cnv
open F64 Fft64 Fft64Avx NttMath Hal

/-- integer limbs of a prepared column are well formed and bounded (the masked top limb included) -/
def PrepOK (K : Nat) (M : ℝ) (A : Col) : Prop :=
  ∀ limb ∈ A, limb.length = 2 ^ (K + 1) ∧ ∀ c ∈ limb, c.natAbs < 2 ^ 53 ∧ |(c:ℝ)| ≤ M

/-- computed prepared column vs the integer prepared column of the specification -/
def PrepRel (K : Nat) (τ M : ℝ) (pa : List (List C64)) (A : Col) : Prop :=
  pa.length = A.length ∧ ∀ j, Close (EF K τ M) (AF K M) (pa.getD j (zeroVec K))
    (fwdE K (1 / 4) (packC (2 ^ K) ((limbOr0 (2 * 2 ^ K) A j).map cc)))

theorem two_mul_pow (K : Nat) : 2 * 2 ^ K = 2 ^ (K + 1) := by rw [pow_succ]; ring

theorem close_zero_limb (K : Nat) (τ M : ℝ) (hτ0 : 0 ≤ τ) (hM : 1 ≤ M) :
    Close (EF K τ M) (AF K M) (zeroVec K) (fwdE K (1 / 4) (packC (2 ^ K) ((zeroP (2 * 2 ^ K)).map cc))) := by
  rw [two_mul_pow, packC_zero, fwdE_zero]
  have hγ := γf_nonneg τ hτ0
  have h1 : 0 ≤ EF K τ M := errB_nonneg _ hγ _ _ _ (by unfold A0; linarith) le_rfl
  have h2 : 0 ≤ AF K M := by unfold AF A0; positivity
  exact close_zero_vec K _ _ h1 h2

/-- **`convolution_prepare` computes, limb by limb, transforms close to those of `Hal.cnvPrepareCol`** -/
theorem cnvPrepare_rel (K : Nat) (omg : Array Nat) (τ M : ℝ) (rs : Nat) (mask : Int) (a : Col)
    (hτ0 : 0 ≤ τ) (hτ1 : τ ≤ 1) (hM : 1 ≤ M) (hacc : AccF τ (twOf (fwdIdx K) omg) K 0 0 (1 / 4))
    (hr : 2 ^ K * (1 + γf τ / 2) ^ K * (A0 M + 0) ≤ (2:ℝ) ^ (999:Int))
    (hok : PrepOK K M (cnvPrepareCol (2 * 2 ^ K) rs mask a)) :
    ∃ pa, cnvPrepare refOps K omg rs mask a = .ok pa ∧ PrepRel K τ M pa (cnvPrepareCol (2 * 2 ^ K) rs mask a) := by
  set n := 2 * 2 ^ K with hn
  set ms := min rs a.length with hms
  have hun : allOk ((List.range ms).map (fun j => refOps.dft K omg (limbOr0 n a j))) =
      .ok ((List.range ms).map (fun j => dftOf K omg (limbOr0 n a j))) :=
    allOk_map _ (fun j => dftOf K omg (limbOr0 n a j)) _ (fun j _ => rfl)
  have hAlen : (cnvPrepareCol n rs mask a).length = rs := by simp [cnvPrepareCol]
  have hAj : ∀ j, j < rs → limbOr0 n (cnvPrepareCol n rs mask a) j =
      (if j + 1 = ms then (limbOr0 n a j).map (maskCoeff mask) else if j < ms then limbOr0 n a j else zeroP n) := by
    intro j hj
    unfold limbOr0 cnvPrepareCol
    simp only [← hms]
    rw [mapRange_getD _ _ _ _ hj]
    rfl
  have hAge : ∀ j, rs ≤ j → limbOr0 n (cnvPrepareCol n rs mask a) j = zeroP n := by
    intro j hj
    unfold limbOr0 cnvPrepareCol
    rw [mapRange_getD_ge _ _ _ _ hj]
  have hlimb : ∀ j, j < rs → (limbOr0 n (cnvPrepareCol n rs mask a) j).length = 2 ^ (K + 1) ∧
      ∀ c ∈ limbOr0 n (cnvPrepareCol n rs mask a) j, c.natAbs < 2 ^ 53 ∧ |(c:ℝ)| ≤ M := by
    intro j hj
    apply hok
    unfold limbOr0
    have hjl : j < (cnvPrepareCol n rs mask a).length := by rw [hAlen]; exact hj
    have : (cnvPrepareCol n rs mask a).getD j (zeroP n) = (cnvPrepareCol n rs mask a)[j] := by
      rw [List.getD_eq_getElem?_getD, List.getElem?_eq_getElem hjl]; rfl
    rw [this]
    exact List.getElem_mem _
  have dclose : ∀ (l : Poly), l.length = 2 ^ (K + 1) → (∀ c ∈ l, c.natAbs < 2 ^ 53 ∧ |(c:ℝ)| ≤ M) →
      Close (EF K τ M) (AF K M) (dftOf K omg l) (fwdE K (1 / 4) (packC (2 ^ K) (l.map cc))) :=
    fun l h1 h2 => (dft_close K omg τ M l hτ0 hτ1 hM hacc h1 h2 hr).1
  unfold cnvPrepare
  simp only [← hn, ← hms]
  rw [hun]
  simp only
  by_cases h0 : ms = 0
  · rw [if_pos h0]
    refine ⟨_, rfl, by simp [hAlen], ?_⟩
    intro j
    by_cases hj : j < rs
    · rw [hAj j hj, if_neg (by omega), if_neg (by omega)]
      have : (List.replicate rs (zeroVec K)).getD j (zeroVec K) = zeroVec K := by simp [List.getD, hj]
      rw [this]
      exact close_zero_limb K τ M hτ0 hM
    · have : (List.replicate rs (zeroVec K)).getD j (zeroVec K) = zeroVec K := by simp [List.getD, hj]
      rw [hAge j (by omega), this]
      exact close_zero_limb K τ M hτ0 hM
  · rw [if_neg h0]
    simp only [refOps]
    refine ⟨_, rfl, by simp [hAlen], ?_⟩
    intro j
    by_cases hj : j < rs
    · rw [mapRange_getD _ _ _ _ hj]
      have hl := hlimb j hj
      rw [hAj j hj] at hl ⊢
      by_cases c1 : j + 1 = ms
      · rw [if_pos c1] at hl ⊢
        rw [if_pos c1]
        have : ms - 1 = j := by omega
        rw [this]
        exact dclose _ hl.1 hl.2
      · rw [if_neg c1] at hl ⊢
        rw [if_neg c1]
        by_cases c2 : j < ms
        · rw [if_pos c2] at hl ⊢
          rw [if_pos c2, mapRange_getD _ _ _ _ c2]
          exact dclose _ hl.1 hl.2
        · rw [if_neg c2, if_neg c2]
          exact close_zero_limb K τ M hτ0 hM
    · rw [hAge j (by omega), mapRange_getD_ge _ _ _ _ (by omega)]
      exact close_zero_limb K τ M hτ0 hM


theorem limbOr0_ok (K : Nat) (M : ℝ) (hM : 0 ≤ M) (A : Col) (hA : PrepOK K M A) (j : Nat) :
    (limbOr0 (2 * 2 ^ K) A j).length = 2 ^ (K + 1) := by
  unfold limbOr0
  by_cases hj : j < A.length
  · have : A.getD j (zeroP (2 * 2 ^ K)) = A[j] := by rw [List.getD_eq_getElem?_getD, List.getElem?_eq_getElem hj]; rfl
    rw [this]; exact (hA _ (List.getElem_mem _)).1
  · have : A.getD j (zeroP (2 * 2 ^ K)) = zeroP (2 * 2 ^ K) := by
      rw [List.getD_eq_getElem?_getD, List.getElem?_eq_none (by omega)]; rfl
    rw [this, two_mul_pow]; simp [zeroP]

/-- one output limb of the convolution: the accumulation core applied to the rows `(a[kk−j], b[j])` -/
theorem cnvLimb_exact (K : Nat) (iomg : Array Nat) (τ Ma Mb : ℝ) (pa pb : List (List C64)) (A B : Col) (kk : Nat)
    (hacci : AccI τ (twOf (invIdx K) iomg) K 0 0 (1 / 4))
    (hA : ∀ j, (limbOr0 (2 * 2 ^ K) A j).length = 2 ^ (K + 1)) (hB : ∀ j, (limbOr0 (2 * 2 ^ K) B j).length = 2 ^ (K + 1))
    (hra : PrepRel K τ Ma pa A) (hrb : PrepRel K τ Mb pb B)
    (hA1 : 1 ≤ A.length) (hB1 : 1 ≤ B.length)
    (hdom : ∀ R, 1 ≤ R → R ≤ min A.length B.length → VmpDomain K R τ Ma Mb) :
    idftOf K iomg (cnvLimb refOps K pa pb kk) = cnvCoeff (2 * 2 ^ K) A B kk := by
  have hd1 := hdom 1 le_rfl (by omega)
  have hMa0 : (0:ℝ) ≤ Ma := by have := hd1.Ma1; linarith
  have hMb0 : (0:ℝ) ≤ Mb := by have := hd1.Mb1; linarith
  have hz : zeroVec K = List.replicate (2 ^ K) ((0:Nat), (0:Nat)) := rfl
  have hzp : zeroP (2 * 2 ^ K) = zeroP (2 ^ (K + 1)) := by rw [two_mul_pow]
  unfold cnvLimb cnvCoeff
  rw [hra.1, hrb.1]
  by_cases hge : A.length + B.length ≤ kk
  · rw [if_pos hge, if_pos hge, hz, idft_zero K iomg τ Ma Mb hacci hd1, hzp]
  · rw [if_neg hge, if_neg hge]
    simp only
    set jMin := kk - (A.length - 1) with hjMin
    set jMax := min (kk + 1) B.length with hjMax
    set T := jMax - jMin with hT
    set rowsC := (List.range T).map (fun t => (pa.getD (kk - (jMin + t)) (zeroVec K), pb.getD (jMin + t) (zeroVec K))) with hrC
    set rows : List (Poly × Poly) := (List.range T).map (fun t => (limbOr0 (2 * 2 ^ K) A (kk - (jMin + t)), limbOr0 (2 * 2 ^ K) B (jMin + t))) with hrI
    have hfold : (List.range T).foldl (fun acc t =>
          List.zipWith (fun s uv => refOps.step s uv.1 uv.2) acc ((pa.getD (kk - (jMin + t)) (zeroVec K)).zip (pb.getD (jMin + t) (zeroVec K)))) (zeroVec K) =
        rowsC.foldl (fun acc r => List.zipWith (fun s uv => caddmul s uv.1 uv.2) acc (r.1.zip r.2)) (List.replicate (2 ^ K) ((0:Nat), (0:Nat))) := by
      rw [hrC, List.foldl_map]; rfl
    rw [hfold]
    have hsum : sumPolys (2 * 2 ^ K) ((List.range T).map (fun t => negMul (limbOr0 (2 * 2 ^ K) A (kk - (jMin + t))) (limbOr0 (2 * 2 ^ K) B (jMin + t)))) =
        sumPolys (2 ^ (K + 1)) (rows.map (fun r => negMul r.1 r.2)) := by
      rw [hrI, List.map_map, two_mul_pow]; rfl
    rw [hsum]
    by_cases hT0 : T = 0
    · have e1 : rowsC = [] := by rw [hrC, hT0]; rfl
      have e2 : rows = [] := by rw [hrI, hT0]; rfl
      rw [e1, e2]
      simp only [List.foldl_nil, List.map_nil]
      rw [idft_zero K iomg τ Ma Mb hacci hd1]; rfl
    · have hTlen : rows.length = T := by rw [hrI]; simp
      have hTle : T ≤ min A.length B.length := by omega
      apply vmp_core K iomg τ Ma Mb rows rowsC hacci
      · intro r hr
        rw [hrI] at hr
        simp only [List.mem_map, List.mem_range] at hr
        obtain ⟨t, _, rfl⟩ := hr
        exact ⟨hA _, hB _⟩
      · rw [hrC, hrI, List.forall₂_map_left_iff, List.forall₂_map_right_iff, List.forall₂_same]
        intro t _
        exact ⟨hra.2 _, hrb.2 _⟩
      · rw [hTlen]; exact hdom T (by omega) hTle

/-- **`fft64_cnv_matches_spec`** (over the model): `cnv_prepare_left/right` + `cnv_apply_dft` + `idft` on FFT64Ref compute
exactly the column `Hal.cnvApplyCol` of the exact bivariate product of the prepared (masked, zero-filled) operands -/
theorem cnv_pipeline_exact (K : Nat) (hK2 : 2 ≤ K) (omg iomg : Array Nat) (τ Ma Mb : ℝ) (rs off sl sr : Nat) (ml mr : Int)
    (a b : Col) (hacc : TableAccurate τ K omg iomg) (hsl : 1 ≤ sl) (hsr : 1 ≤ sr)
    (hA : PrepOK K Ma (cnvPrepareCol (2 * 2 ^ K) sl ml a)) (hB : PrepOK K Mb (cnvPrepareCol (2 * 2 ^ K) sr mr b))
    (hdom : ∀ R, 1 ≤ R → R ≤ min sl sr → VmpDomain K R τ Ma Mb) :
    cnvPipeline refOps K omg iomg rs off sl sr ml mr a b =
      .ok (cnvApplyCol (2 * 2 ^ K) rs off (cnvPrepareCol (2 * 2 ^ K) sl ml a) (cnvPrepareCol (2 * 2 ^ K) sr mr b)) := by
  have a1 := accF_of_flat τ _ K hacc.1 K 0 0 (by omega) (by norm_num)
  have a2 := accI_of_flat τ _ K hacc.2 K 0 0 (by omega) (by norm_num)
  rw [jval_zero] at a1 a2
  have hd1 := hdom 1 le_rfl (by omega)
  set A := cnvPrepareCol (2 * 2 ^ K) sl ml a with hAdef
  set B := cnvPrepareCol (2 * 2 ^ K) sr mr b with hBdef
  have hAlen : A.length = sl := by simp [hAdef, cnvPrepareCol]
  have hBlen : B.length = sr := by simp [hBdef, cnvPrepareCol]
  obtain ⟨pa, epa, rpa⟩ := cnvPrepare_rel K omg τ Ma sl ml a hd1.τ0 hd1.τ1 hd1.Ma1 a1 hd1.ra hA
  obtain ⟨pb, epb, rpb⟩ := cnvPrepare_rel K omg τ Mb sr mr b hd1.τ0 hd1.τ1 hd1.Mb1 a1 hd1.rb hB
  have h8 : ¬ (2 * 2 ^ K < 8) := by
    have : 2 ^ 2 ≤ 2 ^ K := Nat.pow_le_pow_right (by norm_num) hK2
    omega
  unfold cnvPipeline
  rw [epa, epb]; simp only
  unfold cnvApply
  rw [if_neg h8, if_neg (by rw [rpa.1, rpb.1, hAlen, hBlen]; omega)]
  unfold cnvApplyCol
  simp only [rpa.1, rpb.1]
  congr 1
  apply List.map_congr_left
  intro k _
  split
  · exact cnvLimb_exact K iomg τ Ma Mb pa pb A B _ a2 (limbOr0_ok K Ma (by have := hd1.Ma1; linarith) A hA) (limbOr0_ok K Mb (by have := hd1.Mb1; linarith) B hB)
      rpa rpb (by omega) (by omega) (by rw [hAlen, hBlen]; exact hdom)
  · rfl

end Fft64Cnv
