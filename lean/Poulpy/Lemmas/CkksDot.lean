import Poulpy.Lemmas.CkksAccSem
import Poulpy.Lemmas.CkksMulSem
/-!
# C16: `accumulate_unnormalized` and `ckks_dot_product_pt_vec_znx`, value theorems

`accumulate_sem` is generic in the terms: every term comes with a `TermSpec` (what its product into a scratch ciphertext with the
accumulator's layout returns and decodes to).  `dDotPt_sem` instantiates it with the discharged plaintext product
(`dMulPtInto_sem`): **no contract**.
-/

namespace Ckks
open Hal Core Core.Ops C02L Ckks.Sem Ckks.CoreSem KsDec

theorem tmpLike_gb {N b r : Nat} {d : DCt} {H : Int} (hd : GB N b r H d.g) : GB N b r 0 (tmpLike N d).g ∧ (tmpLike N d).g.size = d.g.size := by
  obtain ⟨⟨hn, hne, hcols⟩, hbk, hrk, _⟩ := hd
  have hlen : 0 < d.g.cols.length := List.length_pos_of_ne_nil hne
  have hsz : (tmpLike N d).g.size = d.g.size := by
    show ((zeroC N d.g.cols.length d.g.size).getD 0 []).length = d.g.size
    simp [zeroC, List.getD_eq_getElem?_getD, hlen]
  refine ⟨⟨⟨hn, ?_, ?_⟩, hbk, ?_, ?_⟩, hsz⟩
  · show zeroC N d.g.cols.length d.g.size ≠ []
    simp [zeroC]; omega
  · intro c hc
    rw [hsz]
    have : c = List.replicate d.g.size (List.replicate N 0) := by
      have : c ∈ zeroC N d.g.cols.length d.g.size := hc
      simp [zeroC] at this; exact this.2
    subst this
    refine ⟨by simp, ?_⟩
    intro l hl; simp at hl; rw [hl.2]; simp
  · show (zeroC N d.g.cols.length d.g.size).length - 1 = r
    simp only [zeroC, List.length_replicate]
    exact hrk
  · intro c hc l hl x hx
    have : c ∈ zeroC N d.g.cols.length d.g.size := hc
    simp [zeroC] at this
    rw [this.2] at hl
    simp at hl
    rw [hl.2] at hx
    simp at hx
    rw [hx.2]; simp

theorem tmpLike_ct (N : Nat) {d : DCt} {b r : Nat} {H : Int} (hd : GB N b r H d.g) : (tmpLike N d).ct = mulTmp d.ct := by
  simp only [DCt.ct, mulTmp, (tmpLike_gb hd).2]
  rfl

/-- what one term of an accumulation does: run on a scratch ciphertext with the accumulator's layout, if the metadata model returns
`Ok mt` the data returns a well-formed `tmp` with that metadata, budget at most `β0`, decoding — for the secrets `Sok` selects (all of
them, or those for which the operands are tracked) — to `V` within `E` -/
def TermSpec (env : Env) (N r sz : Nat) (β0 : Nat) (Sok : List Poly → Prop) (t : DCt → Outcome DCt) (tm : Ct → Res Ct)
    (V : List Poly → Nat → ℚ) (E : List Poly → ℚ) : Prop :=
  ∀ d : DCt, GB N env.base2k r 0 d.g → d.g.size = sz → ∀ mt, tm d.ct = .ok mt →
    ∃ tmp, t d = .ok tmp ∧ tmp.ct = mt ∧ DOK env N r tmp ∧ tmp.g.size = d.g.size ∧ tmp.md.logBudget ≤ β0 ∧
      ∀ s, Sok s → ∀ t', t' < N → Near (decC s tmp t') (V s t') (wrap tmp) (E s)

/-- the data fold of `accumulate_unnormalized` -/
def accFold (env : Env) (N : Nat) (r : Outcome DCt) (terms : List (DCt → Outcome DCt)) : Outcome DCt :=
  terms.foldl (fun (acc : Outcome DCt) t =>
    bind acc fun d =>
      bind (t (tmpLike N d)) fun tmp =>
      bind (addAssignData N false d tmp) fun g2 =>
      match addCtAssign env d.ct tmp.ct with
      | .ok m2 => .ok ⟨g2, m2.md⟩
      | _ => .panic "model") r

theorem accumulate_not_ok (env : Env) (tms : List (Ct → Res Ct)) {r : Res Ct} (hr : ∀ m, r ≠ .ok m) :
    ∀ m, tms.foldl (accStep env) r ≠ .ok m := by
  induction tms generalizing r with
  | nil => exact hr
  | cons c cs ih =>
    intro m
    simp only [List.foldl_cons]
    apply ih
    intro m'
    cases r with
    | ok x => exact absurd rfl (hr x)
    | err e x => simp [accStep, Res.bind]
    | panic p => simp [accStep, Res.bind]

/-- **`accumulate_unnormalized`**: the chain of "product into a temporary, `add_assign_unsafe`" -/
theorem accFold_sem {env : Env} (he : EnvOK env) {N r : Nat} (β0 : Nat) (Sok : List Poly → Prop)
    (terms : List ((DCt → Outcome DCt) × (Ct → Res Ct) × (List Poly → Nat → ℚ) × (List Poly → ℚ)))
    {sz : Nat} (hts : ∀ x ∈ terms, TermSpec env N r sz β0 Sok x.1 x.2.1 x.2.2.1 x.2.2.2)
    {d0 : DCt} {H0 : Int} (hHh : half env.base2k ≤ H0) (hH : H0 + terms.length * half env.base2k ≤ 2 ^ 62)
    (hd : GB N env.base2k r H0 d0.g) (hsz0 : d0.g.size = sz) (hβd : d0.md.logBudget ≤ β0) {mfin : Ct}
    (hm : (terms.map (fun x => x.2.1)).foldl (accStep env) (.ok d0.ct) = .ok mfin) :
    ∃ dfin, accFold env N (.ok d0) (terms.map (fun x => x.1)) = .ok dfin ∧ dfin.ct = mfin ∧
      GB N env.base2k r (H0 + terms.length * half env.base2k) dfin.g ∧
      dfin.g.size = d0.g.size ∧ dfin.md.logBudget ≤ d0.md.logBudget ∧
      ∀ s, Sok s → ∀ t, t < N → Near (decC s dfin t) (decC s d0 t + (terms.map (fun x => x.2.2.1 s t)).sum) (wrap dfin)
        ((terms.map (fun x => x.2.2.2 s + sn r s * (2 ^ β0 / 2 ^ (env.base2k * d0.g.size)))).sum) := by
  induction terms generalizing d0 H0 with
  | nil =>
    simp only [List.map_nil, List.foldl_nil] at hm
    injection hm with hm
    refine ⟨d0, rfl, hm, by simpa using hd, rfl, le_refl _, fun s _ t _ => ?_⟩
    simpa using Near.refl (decC s d0 t) (wrap d0)
  | cons x xs ih =>
    obtain ⟨tf, tm, V, U⟩ := x
    have hh0 := half_nonneg env.base2k
    simp only [List.length_cons] at hH ⊢
    push_cast at hH ⊢
    have hlen0 : (0 : Int) ≤ (xs.length : Int) * half env.base2k := by positivity
    simp only [List.map_cons, List.foldl_cons] at hm
    have hspec := hts (tf, tm, V, U) (by simp)
    obtain ⟨htg, htsz⟩ := tmpLike_gb hd
    cases h0 : tm (mulTmp d0.ct) with
    | ok mt =>
      obtain ⟨tmp, et, hct, hok, htsz', hβt, hvt⟩ := hspec (tmpLike N d0) htg (by rw [htsz]; exact hsz0) mt (by rw [tmpLike_ct N hd]; exact h0)
      have et' : tf (tmpLike N d0) = .ok tmp := et
      have hvt' : ∀ s, Sok s → ∀ t', t' < N → Near (decC s tmp t') (V s t') (wrap tmp) (U s) := hvt
      cases h1 : addCtAssign env d0.ct mt with
      | ok m1 =>
        have hstep : accStep env (.ok d0.ct) tm = .ok m1 := by simp only [accStep, Res.bind, h0, h1]
        rw [hstep] at hm
        have h1' : addCtAssign env d0.ct tmp.ct = .ok m1 := by rw [hct]; exact h1
        obtain ⟨g1, e1, hg1, sz1, hv1⟩ := accStep_sem he hHh (by linarith) hd hok h1'
        obtain ⟨hsz1, hb1⟩ := addCtAssign_shape h1'
        have hct1 : (⟨g1, m1.md⟩ : DCt).ct = m1 := ct_eq (by rw [hsz1, sz1]; rfl)
        have hβ1 : m1.md.logBudget ≤ d0.md.logBudget := by rw [hb1]; exact Nat.min_le_left _ _
        obtain ⟨dfin, e2, hctf, hgb, hsz, hbud, hv⟩ := ih (fun y hy => hts y (by simp [hy])) (d0 := ⟨g1, m1.md⟩) (H0 := H0 + half env.base2k)
          (by linarith) (by linarith) hg1 (by rw [← hsz0]; exact sz1) (le_trans hβ1 hβd) (by rw [hct1]; exact hm)
        refine ⟨dfin, ?_, hctf, hgb.mono (by linarith), by rw [hsz]; exact sz1, le_trans hbud hβ1, fun s hs t ht => ?_⟩
        · simp only [accFold, List.map_cons, List.foldl_cons]
          have : (Core.Ops.bind (Outcome.ok d0) fun d =>
              Core.Ops.bind (tf (tmpLike N d)) fun tmp =>
              Core.Ops.bind (addAssignData N false d tmp) fun g2 =>
              match addCtAssign env d.ct tmp.ct with
              | .ok m2 => .ok ⟨g2, m2.md⟩
              | _ => .panic "model") = Outcome.ok (⟨g1, m1.md⟩ : DCt) := by
            simp only [Core.Ops.bind, et', e1, h1']
          rw [this]
          exact e2
        · have a1 := hv s hs t ht
          have a2 := hv1 s t ht
          have a3 := hvt' s hs t ht
          have hσ : 0 ≤ sn r s := le_trans zero_le_one (sn_pos r s)
          have hβm : m1.md.logBudget ≤ tmp.md.logBudget := by rw [hb1]; exact Nat.min_le_right _ _
          -- decC d1 ≈ decC d0 + decC tmp ≈ decC d0 + V
          have a3' : Near (decC s d0 t + decC s tmp t) (decC s d0 t + V s t) (2 ^ m1.md.logBudget) (0 + U s) := by
            have := (a3.scale (dvd_one (β := tmp.md.logBudget) (β' := m1.md.logBudget) hβm))
            simp only [one_mul, abs_one] at this
            exact (Near.refl (decC s d0 t) _).add this
          have a4 : Near (decC s ⟨g1, m1.md⟩ t) (decC s d0 t + V s t) (2 ^ m1.md.logBudget)
              (sn r s * ulpG g1 m1.md.logBudget + (0 + U s)) := a2.trans a3'
          have a5 := (a4.scale (dvd_one (β := m1.md.logBudget) (β' := dfin.md.logBudget) hbud)).add
            (Near.refl ((xs.map (fun x => x.2.2.1 s t)).sum) (2 ^ dfin.md.logBudget))
          simp only [one_mul, abs_one] at a5
          set top : ℚ := 2 ^ β0 / 2 ^ (env.base2k * d0.g.size) with htop
          have hu1 : ulpG g1 m1.md.logBudget ≤ top := by
            unfold ulpG; rw [hg1.bk, sz1]
            apply div_le_div_of_nonneg_right _ (by positivity)
            exact pow_le_pow_right₀ (by norm_num) (le_trans hβ1 hβd)
          have a1' : Near (decC s dfin t) (decC s ⟨g1, m1.md⟩ t + (xs.map (fun x => x.2.2.1 s t)).sum) (2 ^ dfin.md.logBudget)
              ((xs.map (fun x => x.2.2.2 s + sn r s * top)).sum) := by
            have := a1
            simp only [wrap] at this
            rw [show (⟨g1, m1.md⟩ : DCt).g.size = d0.g.size from sz1] at this
            exact this
          have := (a1'.trans a5).mono (show (xs.map (fun x => x.2.2.2 s + sn r s * top)).sum
              + (sn r s * ulpG g1 m1.md.logBudget + (0 + U s) + 0)
              ≤ (U s + sn r s * top) + (xs.map (fun x => x.2.2.2 s + sn r s * top)).sum by
            have h1 : sn r s * ulpG g1 m1.md.logBudget ≤ sn r s * top := mul_le_mul_of_nonneg_left hu1 hσ
            linarith)
          simp only [List.map_cons, List.sum_cons, wrap]
          rw [show decC s d0 t + (V s t + (xs.map (fun x => x.2.2.1 s t)).sum)
            = decC s d0 t + V s t + (xs.map (fun x => x.2.2.1 s t)).sum by ring]
          exact this
      | err e x =>
        exfalso
        have hstep : accStep env (.ok d0.ct) tm = .err e x := by simp only [accStep, Res.bind, h0, h1]
        rw [hstep] at hm
        exact accumulate_not_ok env _ (r := .err e x) (by simp) mfin hm
      | panic p =>
        exfalso
        have hstep : accStep env (.ok d0.ct) tm = .panic p := by simp only [accStep, Res.bind, h0, h1]
        rw [hstep] at hm
        exact accumulate_not_ok env _ (r := .panic p) (by simp) mfin hm
    | err e x =>
      exfalso
      have hstep : accStep env (.ok d0.ct) tm = .err e d0.ct := by simp only [accStep, Res.bind, h0]
      rw [hstep] at hm
      exact accumulate_not_ok env _ (r := .err e d0.ct) (by simp) mfin hm
    | panic p =>
      exfalso
      have hstep : accStep env (.ok d0.ct) tm = .panic p := by simp only [accStep, Res.bind, h0]
      rw [hstep] at hm
      exact accumulate_not_ok env _ (r := .panic p) (by simp) mfin hm

theorem ptBuild_irrel {env : Env} {pt : Pt} {c c' : Ct} (h : ptBuild env pt c = none) : ptBuild env pt c' = none := by
  unfold ptBuild at h ⊢
  split at h
  · cases h
  · split at h
    · cases h
    · next h1 h2 => rw [if_neg h1, if_neg h2]

theorem withPt_none {env : Env} {pt : Pt} {c : Ct} (h : ptBuild env pt c = none) (f : Res Ct) : withPt env pt c f = f := by
  unfold withPt; rw [h]

theorem zip_map_fst_snd {α β : Type} (l : List (α × β)) : (l.map Prod.fst).zip (l.map Prod.snd) = l := by
  induction l with
  | nil => rfl
  | cons x xs ih => simp [ih]

/-- the value of one term of `ckks_dot_product_pt_vec_znx` -/
def dotPtTerm (env : Env) (N : Nat) (pt : Pt) (s : List Poly) (ap : DCt × Col) (t : Nat) : ℚ :=
  (qNegMul (decPG s N (Mask.masked N env.base2k ap.1.md.effK ap.1.g) ap.1.md.logBudget) (ptMsg env N pt ap.2)).getD t 0

/-- **`accumulate_unnormalized` followed by the final normalisation** (`dAccumulate`): `d0` is the first product (already in the
destination), every term is added un-normalised, one `glwe_normalize_assign` at the end (none when there is no further term). -/
theorem dAccumulate_sem {env : Env} (he : EnvOK env) {N r : Nat} (β0 : Nat) (Sok : List Poly → Prop)
    (terms : List ((DCt → Outcome DCt) × (Ct → Res Ct) × (List Poly → Nat → ℚ) × (List Poly → ℚ)))
    {sz : Nat} (hts : ∀ x ∈ terms, TermSpec env N r sz β0 Sok x.1 x.2.1 x.2.2.1 x.2.2.2)
    {d0 : DCt} (hd : DOK env N r d0) (hsz0 : d0.g.size = sz) (hβd : d0.md.logBudget ≤ β0)
    (hfit : ((terms.length : Int) + 1) * half env.base2k ≤ 2 ^ 62) {first : Outcome DCt} (hfirst : first = .ok d0) {mfin : Ct}
    (hm : (terms.map (fun x => x.2.1)).foldl (accStep env) (.ok d0.ct) = .ok mfin) :
    ∃ c', dAccumulate env N first (terms.map (fun x => x.1)) = .ok c' ∧ c'.ct = mfin ∧ DOK env N r c' ∧
      c'.g.size = d0.g.size ∧ c'.md.logBudget ≤ d0.md.logBudget ∧
      ∀ s, Sok s → ∀ t, t < N → Near (decC s c' t) (decC s d0 t + (terms.map (fun x => x.2.2.1 s t)).sum) (wrap c')
        ((terms.map (fun x => x.2.2.2 s + sn r s * (2 ^ β0 / 2 ^ (env.base2k * d0.g.size)))).sum) := by
  subst hfirst
  have hh0 := half_nonneg env.base2k
  obtain ⟨dfin, e2, hctf, hgb, hszf, hbud, hv⟩ := accFold_sem he β0 Sok terms hts (d0 := d0) (H0 := half env.base2k)
    (le_refl _) (by linarith) hd hsz0 hβd hm
  by_cases hre : terms = []
  · subst hre
    have e2' : dfin = d0 := by
      have := e2
      simp only [accFold, List.map_nil, List.foldl_nil] at this
      injection this with this
      exact this.symm
    subst e2'
    refine ⟨dfin, ?_, hctf, hd, rfl, le_refl _, hv⟩
    simp only [dAccumulate, List.map_nil, List.isEmpty_nil, if_true]
  · obtain ⟨g', e3, hg, sz', hvn⟩ := normalize_assign_stepH he.lo he.hi (by positivity) (by linarith) hgb dfin.md.logBudget
    refine ⟨⟨g', dfin.md⟩, ?_, ?_, hg, by rw [← hszf]; exact sz', hbud, fun s hs t ht => ?_⟩
    · have hne : (terms.map (fun x => x.1)).isEmpty = false := by
        cases terms with
        | nil => exact absurd rfl hre
        | cons _ _ => rfl
      have hfold : accFold env N (.ok d0) (terms.map (fun x => x.1)) = .ok dfin := e2
      show (if (terms.map (fun x => x.1)).isEmpty then _
        else Core.Ops.bind (accFold env N (.ok d0) (terms.map (fun x => x.1)))
          (fun d => Core.Ops.bind (glweNormalizeAssign N d.g) fun g' => .ok (⟨g', d.md⟩ : DCt))) = _
      rw [hne, hfold]
      simp only [Bool.false_eq_true, if_false, Core.Ops.bind, e3]
    · rw [← hctf]; simp only [DCt.ct, sz']
    · have a1 := hvn s t ht
      have a2 := hv s hs t ht
      have := a1.trans a2
      simpa [decC, wrap] using this

/-- the plaintext product as a term of an accumulation -/
theorem mulPt_termSpec {env : Env} {N r : Nat} (hN : 0 < N) (big : Bool) {a : DCt} {pt : Pt} {pg : Col} (sz β0 : Nat)
    (ha : Mask.MaskAdm N env.base2k r a.md.effK a.g) (hp : PtOK env N pt pg) {c0 : Ct} (hbld : ptBuild env pt c0 = none)
    (hhi : ∀ res : Ct, res.size = sz → ∀ q, mulPtParams env res a.ct pt.md pt.maxK = .ok q →
      (cnvOffsetSplit env.base2k q.cnv).1 ≤ divCeil a.md.effK env.base2k + pt.size - 1)
    (hroom : (pt.size : Int) * (N * 2 ^ env.base2k * 2 ^ env.base2k) + 8 ≤ 2 ^ (bitsOf big - 2))
    (hβ : a.md.logBudget ≤ β0) :
    TermSpec env N r sz β0 (fun _ => True) (fun d => dMulPtInto env N big d a pt pg) (fun c => mulPtZnxInto env c a.ct pt)
      (fun s t => dotPtTerm env N pt s (a, pg) t) (fun s => sn r s * (2 ^ β0 / 2 ^ (env.base2k * sz))) := by
  intro d hd hsz mt hmt
  have hm : withPt env pt d.ct (mulPtZnxInto env d.ct a.ct pt) = .ok mt := by
    rw [withPt_none (ptBuild_irrel hbld)]; exact hmt
  obtain ⟨c', hok, hct, hdok, hv⟩ := dMulPtInto_sem hN hd ha hp hm (hhi d.ct (by simpa [DCt.ct] using hsz)) hroom
  obtain ⟨_, q, hq, _, hmq⟩ := mulPtZnx_ok hmt
  have hmd : c'.md = ⟨q.delta, q.budget⟩ := by
    have := congrArg Ct.md hct
    simp only [DCt.ct] at this
    rw [this, hmq]
  have hsize : c'.g.size = d.g.size := by
    have := congrArg Ct.size hct
    simp only [DCt.ct] at this
    rw [this, hmq]; rfl
  have hbud : c'.md.logBudget ≤ β0 := by
    rw [hmd]
    have := mulPt_budget hq
    simp only [DCt.ct] at this
    show q.budget ≤ β0
    omega
  refine ⟨c', hok, hct, hdok, hsize, hbud, fun s _ t ht => (hv s t ht).mono ?_⟩
  have hσ : 0 ≤ sn r s := le_trans zero_le_one (sn_pos r s)
  apply mul_le_mul_of_nonneg_left _ hσ
  unfold ulp ulpG
  rw [hdok.bk, hsize, hsz]
  apply div_le_div_of_nonneg_right _ (by positivity)
  exact pow_le_pow_right₀ (by norm_num) hbud

/-- **`ckks_dot_product_pt_vec_znx`, no contract.**  The result decodes to the sum over the terms of (masked operand) ⋆ (plaintext
message), modulo `2^log_budget`, within `2n·(1 + Σ‖sᵢ‖₁)` units of the last limb at the largest operand budget `β0`; balanced digits.
Hypotheses beyond well-formedness: per term the covered offset regime, once the numeric head-room of the convolution accumulators;
the head-room of the un-normalised sum is `ensure_accumulation_fits`. -/
theorem dDotPt_sem {env : Env} (he : EnvOK env) {N r : Nat} (hN : 0 < N) {big : Bool} {dst : DCt} {aps : List (DCt × Col)} {pt : Pt}
    (hd : DOK env N r dst) (hadm : ∀ ap ∈ aps, Mask.MaskAdm N env.base2k r ap.1.md.effK ap.1.g ∧ PtOK env N pt ap.2)
    {m : Ct} (hm : withPt env pt dst.ct (dotPtZnx env dst.ct (aps.map (fun ap => ap.1.ct)) pt) = .ok m)
    (hhi : ∀ ap ∈ aps, ∀ res : Ct, res.size = dst.g.size → ∀ q, mulPtParams env res ap.1.ct pt.md pt.maxK = .ok q →
      (cnvOffsetSplit env.base2k q.cnv).1 ≤ divCeil ap.1.md.effK env.base2k + pt.size - 1)
    (hroom : (pt.size : Int) * (N * 2 ^ env.base2k * 2 ^ env.base2k) + 8 ≤ 2 ^ (bitsOf big - 2))
    (β0 : Nat) (hβ0 : ∀ ap ∈ aps, ap.1.md.logBudget ≤ β0) :
    ∃ c', dDotPt env N big dst (aps.map Prod.fst) pt (aps.map Prod.snd) = .ok c' ∧ c'.ct = m ∧ DOK env N r c' ∧
      ∀ s t, t < N → Near (decC s c' t) ((aps.map (fun ap => dotPtTerm env N pt s ap t)).sum) (wrap c')
        (2 * aps.length * (sn r s * (2 ^ β0 / 2 ^ (env.base2k * dst.g.size)))) := by
  obtain ⟨hbld, hal⟩ := withPt_ok2 hm
  have hσ : ∀ s, 0 ≤ sn r s := fun s => le_trans zero_le_one (sn_pos r s)
  match aps, hadm, hal, hhi, hβ0, hm with
  | [], _, hal, _, _, _ => simp [dotPtZnx] at hal
  | (a0, p0) :: rest, hadm, hal, hhi, hβ0, hm =>
    simp only [List.map_cons, dotPtZnx, dotWith, List.length_cons, List.length_map] at hal
    rw [if_neg (by omega)] at hal
    cases hfit : accFits env (rest.length + 1) with
    | false => simp [hfit] at hal
    | true =>
      simp only [hfit, Bool.not_true, Bool.false_eq_true, if_false] at hal
      cases h0 : mulPtZnxInto env dst.ct a0.ct pt with
      | ok m0 =>
        simp only [Res.bind, h0] at hal
        -- the first product
        have hm0 : withPt env pt dst.ct (mulPtZnxInto env dst.ct a0.ct pt) = .ok m0 := by rw [withPt_none hbld]; exact h0
        obtain ⟨ha0, hp0⟩ := hadm (a0, p0) (by simp)
        obtain ⟨d0, e0, hct0, hok0, hv0⟩ := dMulPtInto_sem hN hd ha0 hp0 hm0 (hhi (a0, p0) (by simp) dst.ct rfl) hroom
        obtain ⟨_, q0, hq0, _, hmq0⟩ := mulPtZnx_ok h0
        have hsz0 : d0.g.size = dst.g.size := by
          have := congrArg Ct.size hct0
          simp only [DCt.ct] at this
          rw [this, hmq0]; rfl
        have hβd0 : d0.md.logBudget ≤ β0 := by
          have h1 := congrArg Ct.md hct0
          simp only [DCt.ct] at h1
          rw [h1, hmq0]
          have := mulPt_budget hq0
          have := hβ0 (a0, p0) (by simp)
          simp only [DCt.ct] at *
          show q0.budget ≤ β0
          omega
        set top : ℚ := 2 ^ β0 / 2 ^ (env.base2k * dst.g.size) with htop
        -- the terms
        let terms : List ((DCt → Outcome DCt) × (Ct → Res Ct) × (List Poly → Nat → ℚ) × (List Poly → ℚ)) :=
          rest.map (fun ap => ((fun d => dMulPtInto env N big d ap.1 pt ap.2), (fun c => mulPtZnxInto env c ap.1.ct pt),
            (fun s t => dotPtTerm env N pt s ap t), (fun s => sn r s * top)))
        have hts : ∀ x ∈ terms, TermSpec env N r dst.g.size β0 (fun _ => True) x.1 x.2.1 x.2.2.1 x.2.2.2 := by
          intro x hx
          obtain ⟨ap, hap, rfl⟩ := List.mem_map.mp hx
          obtain ⟨h1, h2⟩ := hadm ap (by simp [hap])
          exact mulPt_termSpec hN big dst.g.size β0 h1 h2 hbld (hhi ap (by simp [hap])) hroom (hβ0 ap (by simp [hap]))
        have hlen : terms.length = rest.length := by simp [terms]
        have hbound := accFits_bound hfit he.lo
        push_cast at hbound
        have hmeta : (terms.map (fun x => x.2.1)).foldl (accStep env) (.ok d0.ct) = .ok m := by
          rw [hct0]
          have : terms.map (fun x => x.2.1) = (rest.map (fun ap => ap.1.ct)).map (fun a => fun t => mulPtZnxInto env t a pt) := by
            simp [terms, List.map_map, Function.comp_def]
          rw [this]
          exact hal
        obtain ⟨c', e2, hctf, hokf, _, hbud, hv⟩ := dAccumulate_sem he β0 (fun _ => True) terms hts hok0 hsz0 hβd0
          (by rw [hlen]; linarith) e0.symm.symm hmeta
        have hzip : (((a0, p0) :: rest).map Prod.fst).zip (((a0, p0) :: rest).map Prod.snd) = (a0, p0) :: rest := zip_map_fst_snd _
        have hmodel : dDotPt env N big dst (((a0, p0) :: rest).map Prod.fst) pt (((a0, p0) :: rest).map Prod.snd)
            = dAccumulate env N (dMulPtInto env N big dst a0 pt p0)
                (rest.map (fun (ap : DCt × Col) => fun t => dMulPtInto env N big t ap.1 pt ap.2)) := by
          have hm' : withPt env pt dst.ct (dotPtZnx env dst.ct ((((a0, p0) :: rest).map Prod.fst).map DCt.ct) pt) = .ok m := by
            simpa [List.map_map, Function.comp_def] using hm
          rw [dDotPt, withMeta_ok _ _ _ hm', hzip]
        have htermsD : terms.map (fun x => x.1) = rest.map (fun (ap : DCt × Col) => fun t => dMulPtInto env N big t ap.1 pt ap.2) := by
          simp [terms, List.map_map, Function.comp_def]
        have hu0 : ulp d0 ≤ top := by
          unfold ulp ulpG
          rw [hok0.bk, hsz0]
          apply div_le_div_of_nonneg_right _ (by positivity)
          exact pow_le_pow_right₀ (by norm_num) hβd0
        have htop0 : 0 ≤ top := by positivity
        refine ⟨c', by rw [hmodel, ← htermsD]; exact e2, hctf, hokf, fun s t ht => ?_⟩
        have hsumE : (terms.map (fun x => x.2.2.2 s + sn r s * (2 ^ β0 / 2 ^ (env.base2k * d0.g.size)))).sum
            = rest.length * (sn r s * top + sn r s * top) := by
          rw [hsz0]
          simp only [terms, List.map_map, Function.comp_def, List.map_const', List.sum_replicate, nsmul_eq_mul, htop]
        have hsumV : (terms.map (fun x => x.2.2.1 s t)).sum = (rest.map (fun ap => dotPtTerm env N pt s ap t)).sum := by
          simp only [terms, List.map_map, Function.comp_def]
        have a2 := hv s trivial t ht
        rw [hsumE, hsumV] at a2
        have a3 := ((hv0 s t ht).scale (dvd_one (β := d0.md.logBudget) (β' := c'.md.logBudget) hbud)).add
          (Near.refl ((rest.map (fun ap => dotPtTerm env N pt s ap t)).sum) (2 ^ c'.md.logBudget))
        simp only [one_mul, abs_one] at a3
        have := (a2.trans a3).mono (show (rest.length : ℚ) * (sn r s * top + sn r s * top) + (sn r s * ulp d0 + 0)
            ≤ 2 * (((a0, p0) :: rest).length : ℚ) * (sn r s * top) by
          have h1 : sn r s * ulp d0 ≤ sn r s * top := mul_le_mul_of_nonneg_left hu0 (hσ s)
          have h2 : 0 ≤ sn r s * top := mul_nonneg (hσ s) htop0
          simp only [List.length_cons]; push_cast; nlinarith)
        simp only [List.map_cons, List.sum_cons]
        simpa [decC, wrap, dotPtTerm] using this
      | err e x => simp only [Res.bind, h0] at hal; cases hal
      | panic p => simp only [Res.bind, h0] at hal; cases hal

end Ckks
