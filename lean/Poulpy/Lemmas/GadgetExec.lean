import Poulpy.Model.Core.Ks
import Poulpy.Lemmas.HalSpec
import Poulpy.Lemmas.NegMul
import Poulpy.Lemmas.GadgetAlg
import Poulpy.Lemmas.GadgetPhase
import Poulpy.Lemmas.GadgetAccum
import Poulpy.Lemmas.GadgetSum
import Poulpy.Lemmas.NegRing
import Poulpy.Lemmas.NegHal

/-!
The executed `Ks.gglweProductDft` instantiates the abstract accumulation `Gadget.acc`.

`ι N p` is the class of the coefficient list `p` in the commutative ring
`R N = ℤ[X]/(X^N+1)`; on lists of length `N` it turns `Hal.polyAdd` into `+`, `Hal.negMul` into `*`,
`Hal.zeroP` into `0` and `Hal.sumPolys` into a `Finset` sum.  With it the phase (under any secret) of
limb `l` of the executed product is, **for every digit size `dsize ≥ 1`**,
`Σ_{i < rank_in} Gadget.acc S dsize dnum a.size (limbs of input column i) (phases of the key rows of column i) l`
(`Ks.keyswitch_phase`), and `Gadget.gadget_identity_cols` then applies to the executable function by a
single Lean term (`Ks.keyswitch_value`).
-/

namespace Ks
open Hal Polynomial

/-- the ring `ℤ[X]/(X^N+1)` -/
abbrev R (N : ℕ) : Type := AdjoinRoot (X ^ N + 1 : ℤ[X])

/-- class of a coefficient list in `ℤ[X]/(X^N+1)` -/
noncomputable def ι (N : ℕ) (p : Poly) : R N := AdjoinRoot.mk (X ^ N + 1 : ℤ[X]) (toPoly p)

/-! ### `ι` is a ring-hom-like map on coefficient lists of length `N` -/

theorem toPoly_zeroP (n : Nat) : toPoly (zeroP n) = 0 := by
  induction n with
  | zero => rfl
  | succ k ih =>
    rw [Hal.zeroP_succ]
    show C (0 : ℤ) + X * toPoly (zeroP k) = 0
    rw [ih]; simp

theorem ι_zero (N n : Nat) : ι N (zeroP n) = 0 := by
  unfold ι
  rw [toPoly_zeroP, map_zero]

theorem ι_add (N : Nat) (a b : Poly) (h : a.length = b.length) : ι N (Hal.polyAdd a b) = ι N a + ι N b := by
  unfold ι
  show AdjoinRoot.mk _ (toPoly (addL a b)) = _
  rw [toPoly_addL a b h, map_add]

theorem ι_negMul (N : Nat) (a b : Poly) (hb : b.length = N) (hN : 0 < N) :
    ι N (Hal.negMul a b) = ι N a * ι N b := by
  unfold ι
  rw [Hal.negMul_eq]
  exact mk_negMul N a b hb hN

/-- `ι` of the executable sum over `j < m` is the `Finset` sum -/
theorem ι_sumPolys_range (N m : Nat) (f : Nat → Poly) (hf : ∀ j, j < m → (f j).length = N) :
    ι N (sumPolys N ((List.range m).map f)) = ∑ j ∈ Finset.range m, ι N (f j) := by
  induction m with
  | zero => simp [sumPolys, ι_zero]
  | succ m ih =>
    have hlen : (sumPolys N ((List.range m).map f)).length = N := by
      apply sumPolys_length
      intro p hp
      simp only [List.mem_map, List.mem_range] at hp
      obtain ⟨j, hj, rfl⟩ := hp
      exact hf j (by omega)
    have e : sumPolys N ((List.range (m + 1)).map f) = Hal.polyAdd (sumPolys N ((List.range m).map f)) (f m) := by
      unfold sumPolys
      rw [List.range_succ, List.map_append, List.foldl_append]
      rfl
    rw [e, ι_add N _ _ (by rw [hlen, hf m (by omega)]), ih (fun j hj => hf j (by omega)), Finset.sum_range_succ]

/-- `ι` of a conditional accumulation (the shape of `Ks.product_accum`) -/
theorem ι_foldl_cond (N m : Nat) (P : Nat → Prop) [DecidablePred P] (g : Nat → Poly) (init : Poly)
    (hg : ∀ k, (g k).length = N) (hi : init.length = N) :
    ((List.range m).foldl (fun acc k => if P k then Hal.polyAdd acc (g k) else acc) init).length = N ∧
    ι N ((List.range m).foldl (fun acc k => if P k then Hal.polyAdd acc (g k) else acc) init) =
      ι N init + ∑ k ∈ Finset.range m, if P k then ι N (g k) else 0 := by
  induction m with
  | zero => simp [hi]
  | succ m ih =>
    obtain ⟨ih1, ih2⟩ := ih
    rw [List.range_succ, List.foldl_append]
    simp only [List.foldl_cons, List.foldl_nil]
    by_cases hp : P m
    · simp only [hp, if_true]
      refine ⟨by rw [Hal.polyAdd_length, ih1, hg m]; simp, ?_⟩
      rw [ι_add N _ _ (by rw [ih1, hg m]), ih2, Finset.sum_range_succ, if_pos hp, add_assoc]
    · simp only [hp, if_false]
      refine ⟨ih1, ?_⟩
      rw [ih2, Finset.sum_range_succ, if_neg hp, add_zero]

/-! ### reindexing `j = r * n + i` -/

theorem sum_range_mul {M : Type*} [AddCommMonoid M] (k n : Nat) (g : Nat → M) :
    ∑ j ∈ Finset.range (k * n), g j = ∑ r ∈ Finset.range k, ∑ i ∈ Finset.range n, g (r * n + i) := by
  induction k with
  | zero => simp
  | succ k ih =>
    rw [Nat.succ_mul, Finset.sum_range_add, ih, Finset.sum_range_succ]


theorem min_mul_helper (s d n : Nat) : min (n * d) (s * n) = min s d * n := by
  rcases Nat.le_total s d with h | h
  · rw [Nat.min_eq_left h, Nat.min_eq_right (by rw [Nat.mul_comm n d]; exact Nat.mul_le_mul_right n h)]
  · rw [Nat.min_eq_right h, Nat.min_eq_left (by rw [Nat.mul_comm n d]; exact Nat.mul_le_mul_right n h), Nat.mul_comm]

theorem idx_lt (r i k n : Nat) (hr : r < k) (hi : i < n) : r * n + i < k * n := by
  have h1 : (r + 1) * n ≤ k * n := Nat.mul_le_mul_right n hr
  rw [Nat.succ_mul] at h1
  omega

theorem idx_mod (r i n : Nat) (hi : i < n) : (r * n + i) % n = i := by
  rw [Nat.add_comm, Nat.add_mul_mod_self_right, Nat.mod_eq_of_lt hi]

theorem idx_div (r i n : Nat) (hi : i < n) : (r * n + i) / n = r := by
  rw [Nat.add_comm, Nat.add_mul_div_right _ _ (by omega : 0 < n), Nat.div_eq_of_lt hi, Nat.zero_add]

/-! ### the two families of ring elements of the statement -/

/-- limb `m` of input column `i` (zero beyond `a.size`) -/
noncomputable def inLimb (N : Nat) (a : Buf) (i m : Nat) : R N := ι N (limbOr0 N (a.act i) m)

/-- limb `l` of the phase (under `sk`) of key row `r`, input column `i` -/
noncomputable def keyPhase (N : Nat) (sk : List Poly) (m : PMat) (i r l : Nat) : R N :=
  ι N (phaseRow sk (rowLimb m (r * m.colsIn + i) l))

theorem phaseRow_rowLimb_length (N : Nat) (sk : List Poly) (m : PMat) (j l : Nat) (hc : 0 < m.colsOut)
    (hM : ∀ j q, (m.entry j q).length = N) : (phaseRow sk (rowLimb m j l)).length = N := by
  apply phaseRow_length N
  · intro p hp
    unfold rowLimb at hp
    simp only [List.mem_map, List.mem_range] at hp
    obtain ⟨c, _, rfl⟩ := hp
    exact hM _ _
  · unfold rowLimb
    simp
    omega

/-- the `ι`-image of the row sum of one vector-matrix product, reindexed by `(column i, row r)` -/
theorem ι_vmp_sum (N : Nat) (sk : List Poly) (m : PMat) (aFlat : List Poly) (k l : Nat) (x : Nat → Nat → R N)
    (hN : 0 < N) (hc : 0 < m.colsOut) (hM : ∀ j q, (m.entry j q).length = N)
    (hk : min (m.colsIn * m.rows) aFlat.length = k * m.colsIn)
    (hx : ∀ r i, r < k → i < m.colsIn → ι N (aFlat.getD (r * m.colsIn + i) (zeroP N)) = x i r) :
    ι N (sumPolys N ((List.range (min (m.colsIn * m.rows) aFlat.length)).map (fun j =>
        Hal.negMul (aFlat.getD j (zeroP N)) (phaseRow sk (rowLimb m j l))))) =
      ∑ i ∈ Finset.range m.colsIn, ∑ r ∈ Finset.range k, x i r * keyPhase N sk m i r l := by
  rw [ι_sumPolys_range N _ _ (fun j _ => by
    rw [Hal.negMul_length]; exact phaseRow_rowLimb_length N sk m j l hc hM), hk, sum_range_mul, Finset.sum_comm]
  apply Finset.sum_congr rfl
  intro i hi
  apply Finset.sum_congr rfl
  intro r hr
  rw [ι_negMul N _ _ (phaseRow_rowLimb_length N sk m _ l hc hM) hN,
    hx r i (Finset.mem_range.mp hr) (Finset.mem_range.mp hi)]
  rfl

/-! ### `dsize = 1` -/

theorem keyswitch_phase_one (N : Nat) (sk : List Poly) (res a : Buf) (key : Key) (l : Nat) (h1 : key.dsize = 1)
    (hN : 0 < N) (hres : res.WF) (hcols : res.cols = key.mat.colsOut) (hc0 : 0 < key.mat.colsOut)
    (hsize : res.size = key.mat.size) (hresn : res.n = N) (han : a.n = N) (hacols : a.cols = key.mat.colsIn)
    (hM : ∀ j q, (key.mat.entry j q).length = N) :
    ι N (phaseRow sk ((List.range res.cols).map (fun c => limbOr0 N ((gglweProductDft res a key).act c) l))) =
      ∑ i ∈ Finset.range key.mat.colsIn,
        Gadget.acc key.mat.size key.dsize key.mat.rows a.size (inLimb N a i) (keyPhase N sk key.mat i) l := by
  subst hresn
  have e : gglweProductDft res a key = opVmp res a key.mat 0 := by
    unfold gglweProductDft; rw [if_pos h1]
  obtain ⟨s1, s2, s3, s4, _, _⟩ := opVmp_spec res a key.mat 0 hres
  rw [e, h1]
  by_cases hl : l < key.mat.size
  · have e2 : (List.range res.cols).map (fun c => limbOr0 res.n ((opVmp res a key.mat 0).act c) l) =
        bufRow (opVmp res a key.mat 0) l := by
      unfold bufRow; rw [s2, s4]
    rw [e2, opVmp_phase sk res a key.mat 0 l hres hcols hc0 (by omega) (by omega) hM]
    rw [ι_vmp_sum res.n sk key.mat a.flat (min a.size key.mat.rows) (l + 0) (fun i r => inLimb res.n a i r) hN hc0 hM
      (by rw [flat_length, hacols]; exact min_mul_helper _ _ _)
      (by
        intro r i hr hi
        have hr' : r < a.size := Nat.lt_of_lt_of_le hr (Nat.min_le_left _ _)
        rw [flat_getD a _ (by rw [hacols]; exact idx_lt r i a.size _ hr' hi), hacols, idx_mod r i _ hi, idx_div r i _ hi, han]
        rfl)]
    apply Finset.sum_congr rfl
    intro i _
    unfold Gadget.acc
    rw [Finset.sum_range_one]
    have hrows : Gadget.rowsOf a.size 1 key.mat.rows 0 = min a.size key.mat.rows := by
      unfold Gadget.rowsOf; simp
    rw [hrows]
    apply Finset.sum_congr rfl
    intro r _
    have hsz : Gadget.szOf key.mat.size 1 0 = key.mat.size := by unfold Gadget.szOf; omega
    have hidx : Gadget.limbIdx 1 r 0 = r := by unfold Gadget.limbIdx; omega
    rw [if_pos ⟨by omega, by rw [hsz]; exact hl⟩, hidx]
  · have hz : ∀ p ∈ (List.range res.cols).map (fun c => limbOr0 res.n ((opVmp res a key.mat 0).act c) l), p = zeroP res.n := by
      intro p hp
      simp only [List.mem_map, List.mem_range] at hp
      obtain ⟨c, hc, rfl⟩ := hp
      unfold limbOr0
      rw [List.getD_eq_getElem?_getD, List.getElem?_eq_none (by
        rw [Buf.act_length _ s1 c (by rw [s2]; exact hc), s3]; omega)]
      rfl
    rw [phaseRow_zero res.n sk _ hz (by simp; omega), ι_zero]
    symm
    apply Finset.sum_eq_zero
    intro i _
    unfold Gadget.acc
    apply Finset.sum_eq_zero
    intro di _
    apply Finset.sum_eq_zero
    intro r _
    rw [if_neg (by omega)]

/-! ### `dsize ≥ 2`: the passes -/

/-- phase of limb `l` of the product of pass `di` -/
def passPhaseX (sk : List Poly) (a : Buf) (key : Key) (n di l : Nat) : Poly :=
  phaseRow sk ((List.range key.mat.colsOut).map (fun c => passEntry a key n di l c))

theorem passEntry_lengthX (a : Buf) (key : Key) (n di l c : Nat) (hM : ∀ j q, (key.mat.entry j q).length = n) :
    (passEntry a key n di l c).length = n := by
  unfold passEntry vmpFlat
  simp only []
  rw [List.getD_eq_getElem?_getD]
  cases h : ((List.range (passSize key di * key.mat.colsOut)).map _)[l * key.mat.colsOut + c]? with
  | none => simp
  | some p =>
    have hmem := List.mem_of_getElem? h
    simp only [List.mem_map, List.mem_range] at hmem
    obtain ⟨r, _, rfl⟩ := hmem
    simp only [Option.getD_some]
    split
    · apply sumPolys_length
      intro q hq
      simp only [List.mem_map, List.mem_range] at hq
      obtain ⟨j, _, rfl⟩ := hq
      rw [Hal.negMul_length]; exact hM _ _
    · simp

theorem passPhaseX_length (sk : List Poly) (a : Buf) (key : Key) (n di l : Nat) (hc0 : 0 < key.mat.colsOut)
    (hM : ∀ j q, (key.mat.entry j q).length = n) : (passPhaseX sk a key n di l).length = n := by
  unfold passPhaseX
  apply phaseRow_length n
  · intro p hp
    simp only [List.mem_map, List.mem_range] at hp
    obtain ⟨c, _, rfl⟩ := hp
    exact passEntry_lengthX a key n di l c hM
  · simp; omega

/-- the phase is additive along a conditional accumulation (the shape of `product_accum`) -/
theorem phaseRow_foldl_condX (n C : Nat) (sk : List Poly) (K : List Nat) (P : Nat → Prop) [DecidablePred P]
    (f : Nat → Nat → Poly) (init : Nat → Poly) (hf : ∀ k c, (f k c).length = n) (hi : ∀ c, (init c).length = n) :
    phaseRow sk ((List.range C).map (fun c => K.foldl (fun acc k => if P k then polyAdd acc (f k c) else acc) (init c))) =
      K.foldl (fun acc k => if P k then polyAdd acc (phaseRow sk ((List.range C).map (f k))) else acc)
        (phaseRow sk ((List.range C).map init)) := by
  induction K generalizing init with
  | nil => simp
  | cons k ks ih =>
    simp only [List.foldl_cons]
    by_cases hp : P k
    · simp only [hp, if_true]
      rw [ih (fun c => polyAdd (init c) (f k c)) (by intro c; simp [hi c, hf k c])]
      congr 1
      have e : (List.range C).map (fun c => polyAdd (init c) (f k c)) =
          List.zipWith polyAdd ((List.range C).map init) ((List.range C).map (f k)) := by
        rw [List.zipWith_map_left, List.zipWith_map_right]
        simp [List.zipWith_self]
      rw [e]
      apply phaseRow_add n
      · intro p hp'; simp at hp'; obtain ⟨c, _, rfl⟩ := hp'; exact hi c
      · intro p hp'; simp at hp'; obtain ⟨c, _, rfl⟩ := hp'; exact hf k c
      · simp
    · simp only [hp, if_false]
      exact ih init hi

/-- selection `(step, offset) = (dsize, dsize−1−di)`: result limb `r` is input limb `Gadget.limbIdx dsize r di`
(read as zero when it does not exist) -/
theorem dft_select_limbIdxX (n dsize di rs : Nat) (a : Col) (r : Nat) (hd : 0 < dsize) (hdi : di < dsize) (hr : r < rs) :
    (dftApplyCol n dsize (dsize - di - 1) rs a).getD r (zeroP n) = limbOr0 n a (Gadget.limbIdx dsize r di) := by
  unfold dftApplyCol limbOr0
  rw [mapRange_getD _ _ _ _ hr]
  have e : dsize - di - 1 + r * dsize = Gadget.limbIdx dsize r di := by unfold Gadget.limbIdx; omega
  simp only [e]
  have hdef : ¬ Gadget.limbIdx dsize r di < a.length → a.getD (Gadget.limbIdx dsize r di) (zeroP n) = zeroP n := by
    intro h
    rw [List.getD_eq_getElem?_getD, List.getElem?_eq_none (by omega)]
    rfl
  by_cases h : r < min rs ((a.length + dsize - 1) / dsize)
  · rw [if_pos h]
    by_cases h' : Gadget.limbIdx dsize r di < a.length
    · rw [if_pos h']
    · rw [if_neg h', hdef h']
  · rw [if_neg h]
    have h2 : (a.length + dsize - 1) / dsize ≤ r := by omega
    have h3 : a.length + dsize - 1 < (r + 1) * dsize := by
      have := (Nat.div_lt_iff_lt_mul hd).mp (Nat.lt_succ_of_le h2)
      simpa [Nat.succ_mul] using this
    have h4 : ¬ Gadget.limbIdx dsize r di < a.length := by
      unfold Gadget.limbIdx
      rw [Nat.succ_mul] at h3
      omega
    rw [hdef h4]

/-- phase of the `dsize > 1` product as a fold over the passes (as `C03.keyswitch_phase_dsize_gt1`) -/
theorem phase_fold_gt1 (sk : List Poly) (res a : Buf) (key : Key) (hD : 2 ≤ key.dsize) (hres : res.WF)
    (hmax : res.maxSize = key.mat.size) (hcols : res.cols = key.mat.colsOut) (hc0 : 0 < key.mat.colsOut)
    (hn : res.n = a.n) (hM : ∀ j q, (key.mat.entry j q).length = res.n) (l : Nat) :
    phaseRow sk ((List.range res.cols).map (fun c => limbOr0 res.n ((gglweProductDft res a key).act c) l)) =
      (List.range (key.dsize - 1)).foldl
        (fun acc k => if l < passSize key (k + 1) then polyAdd acc (passPhaseX sk a key res.n (k + 1) l) else acc)
        (if l < passSize key 0 then passPhaseX sk a key res.n 0 l else zeroP res.n) := by
  have e1 : (List.range res.cols).map (fun c => limbOr0 res.n ((gglweProductDft res a key).act c) l) =
      (List.range res.cols).map (fun c => (List.range (key.dsize - 1)).foldl
        (fun acc k => if l < passSize key (k + 1) then polyAdd acc (passEntry a key res.n (k + 1) l c) else acc)
        (if l < passSize key 0 then passEntry a key res.n 0 l c else zeroP res.n)) := by
    apply List.map_congr_left
    intro c hc
    exact product_accum res a key hD hres hmax hcols hn l c (List.mem_range.mp hc)
  rw [e1, phaseRow_foldl_condX res.n res.cols sk _ (fun k => l < passSize key (k + 1))
    (fun k c => passEntry a key res.n (k + 1) l c) _ (fun k c => passEntry_lengthX a key res.n (k + 1) l c hM)
    (by intro c; split
        · exact passEntry_lengthX a key res.n 0 l c hM
        · simp)]
  unfold passPhaseX
  rw [← hcols]
  congr 1
  split
  · rfl
  · exact phaseRow_zero res.n sk _ (by intro p hp; simp at hp; exact hp.2.symm ▸ rfl) (by simp; omega)

/-- the `ι`-image of the phase of one pass: the `di`-th summand of `Gadget.acc`, summed over the input columns -/
theorem ι_passPhase (N : Nat) (sk : List Poly) (a : Buf) (key : Key) (di l : Nat) (hN : 0 < N)
    (hc0 : 0 < key.mat.colsOut) (hM : ∀ j q, (key.mat.entry j q).length = N) (hacols : a.cols = key.mat.colsIn)
    (hdi : di < key.dsize) (hl : l < passSize key di) :
    ι N (passPhaseX sk a key N di l) =
      if l + di < key.mat.size then
        ∑ i ∈ Finset.range key.mat.colsIn, ∑ r ∈ Finset.range (aiSize a key di),
          inLimb N a i (Gadget.limbIdx key.dsize r di) * keyPhase N sk key.mat i r (l + di)
      else 0 := by
  by_cases hlo : l + di < key.mat.size
  · rw [if_pos hlo]
    have e : passPhaseX sk a key N di l = phaseRow sk (flatRow key.mat.colsOut
        (vmpFlat N (aiFlatOf a key N di) key.mat di (passSize key di * key.mat.colsOut)) N l) := rfl
    rw [e, vmp_phase N sk _ key.mat di _ l hc0 (Nat.mul_le_mul_right _ hl) hlo hM]
    have hlen : (aiFlatOf a key N di).length = aiSize a key di * key.mat.colsIn := by
      unfold aiFlatOf; rw [mapRange_length, hacols]
    apply ι_vmp_sum N sk key.mat _ (aiSize a key di) (l + di) _ hN hc0 hM
    · rw [hlen, min_mul_helper, Nat.min_eq_left (by unfold aiSize; exact Nat.min_le_right _ _)]
    · intro r i hr hi
      unfold aiFlatOf
      rw [mapRange_getD _ _ _ _ (by rw [hacols]; exact idx_lt r i _ _ hr hi), hacols, idx_mod r i _ hi, idx_div r i _ hi]
      unfold limbOr0
      rw [dft_select_limbIdxX N key.dsize di _ _ r (by omega) hdi hr]
      rfl
  · rw [if_neg hlo]
    have hz : ∀ p ∈ (List.range key.mat.colsOut).map (fun c => passEntry a key N di l c), p = zeroP N := by
      intro p hp
      simp only [List.mem_map, List.mem_range] at hp
      obtain ⟨c, hc, rfl⟩ := hp
      unfold passEntry vmpFlat
      simp only []
      have h1 : (l + 1) * key.mat.colsOut ≤ passSize key di * key.mat.colsOut := Nat.mul_le_mul_right _ hl
      rw [Nat.succ_mul] at h1
      have h2 : key.mat.colsOut * key.mat.size ≤ key.mat.colsOut * (l + di) := Nat.mul_le_mul_left _ (by omega)
      rw [Nat.mul_add, Nat.mul_comm _ l, Nat.mul_comm _ di] at h2
      rw [mapRange_getD _ _ _ _ (by omega), if_neg (by omega)]
    unfold passPhaseX
    rw [phaseRow_zero N sk _ hz (by simp; omega), ι_zero]

theorem keyswitch_phase_gt1 (N : Nat) (sk : List Poly) (res a : Buf) (key : Key) (l : Nat) (hD : 2 ≤ key.dsize)
    (hN : 0 < N) (hres : res.WF) (hmax : res.maxSize = key.mat.size) (hcols : res.cols = key.mat.colsOut)
    (hc0 : 0 < key.mat.colsOut) (hresn : res.n = N) (han : a.n = N) (hacols : a.cols = key.mat.colsIn)
    (hM : ∀ j q, (key.mat.entry j q).length = N) :
    ι N (phaseRow sk ((List.range res.cols).map (fun c => limbOr0 N ((gglweProductDft res a key).act c) l))) =
      ∑ i ∈ Finset.range key.mat.colsIn,
        Gadget.acc key.mat.size key.dsize key.mat.rows a.size (inLimb N a i) (keyPhase N sk key.mat i) l := by
  subst hresn
  rw [phase_fold_gt1 sk res a key hD hres hmax hcols hc0 han.symm hM l]
  obtain ⟨_, h2⟩ := ι_foldl_cond res.n (key.dsize - 1) (fun k => l < passSize key (k + 1))
    (fun k => passPhaseX sk a key res.n (k + 1) l)
    (if l < passSize key 0 then passPhaseX sk a key res.n 0 l else zeroP res.n)
    (fun k => passPhaseX_length sk a key res.n (k + 1) l hc0 hM)
    (by split
        · exact passPhaseX_length sk a key res.n 0 l hc0 hM
        · simp [zeroP])
  rw [h2]
  have hinit : ι res.n (if l < passSize key 0 then passPhaseX sk a key res.n 0 l else zeroP res.n) =
      (fun di => if l < passSize key di then ι res.n (passPhaseX sk a key res.n di l) else 0) 0 := by
    beta_reduce
    split
    · rfl
    · exact ι_zero _ _
  have hsum : ι res.n (if l < passSize key 0 then passPhaseX sk a key res.n 0 l else zeroP res.n) +
      ∑ k ∈ Finset.range (key.dsize - 1), (if l < passSize key (k + 1) then ι res.n (passPhaseX sk a key res.n (k + 1) l) else 0) =
      ∑ di ∈ Finset.range key.dsize, (if l < passSize key di then ι res.n (passPhaseX sk a key res.n di l) else 0) := by
    have hd : key.dsize = (key.dsize - 1) + 1 := by omega
    conv => rhs; rw [hd, Finset.sum_range_succ']
    rw [hinit, add_comm]
  rw [hsum]
  unfold Gadget.acc
  rw [Finset.sum_comm]
  apply Finset.sum_congr rfl
  intro di hdi
  have hdi' : di < key.dsize := Finset.mem_range.mp hdi
  by_cases hcond : l + di < key.mat.size ∧ l < Gadget.szOf key.mat.size key.dsize di
  · simp only [if_pos hcond]
    have hl : l < passSize key di := hcond.2
    rw [if_pos hl, ι_passPhase res.n sk a key di l hN hc0 hM hacols hdi' hl, if_pos hcond.1]
    rfl
  · simp only [if_neg hcond, Finset.sum_const_zero]
    by_cases hl : l < passSize key di
    · rw [if_pos hl, ι_passPhase res.n sk a key di l hN hc0 hM hacols hdi' hl, if_neg (fun h => hcond ⟨h, hl⟩)]
    · rw [if_neg hl]

/-! ### every `dsize ≥ 1` -/

/-- **`keyswitch_phase`** — the executed `gglwe_product_dft` instantiates `Gadget.acc`, for every digit
size.  `key` is a prepared GGLWE with `dnum = key.mat.rows` rows, `rank_in = key.mat.colsIn` input columns,
`key.mat.colsOut` output columns of `S = key.mat.size` limbs, digit size `key.dsize ≥ 1`; `a` is the input
(`rank_in` columns of `a.size` limbs), `res` the result buffer (any previous content) of the shape the callers
allocate; all polynomials have `N` coefficients; `sk` is any secret.  In `ℤ[X]/(X^N+1)`, the phase of limb `l`
of the product is the sum over the input columns `i` of the abstract accumulation `Gadget.acc` of the limbs
`inLimb N a i` of column `i` against the phases `keyPhase N sk key.mat i r` of the key rows `r` of column `i`. -/
theorem keyswitch_phase (N : Nat) (sk : List Poly) (res a : Buf) (key : Key) (l : Nat) (hD : 1 ≤ key.dsize)
    (hN : 0 < N) (hres : res.WF) (hmax : res.maxSize = key.mat.size) (hsize : res.size = key.mat.size)
    (hcols : res.cols = key.mat.colsOut) (hc0 : 0 < key.mat.colsOut) (hresn : res.n = N) (han : a.n = N)
    (hacols : a.cols = key.mat.colsIn) (hM : ∀ j q, (key.mat.entry j q).length = N) :
    ι N (phaseRow sk ((List.range res.cols).map (fun c => limbOr0 N ((gglweProductDft res a key).act c) l))) =
      ∑ i ∈ Finset.range key.mat.colsIn,
        Gadget.acc key.mat.size key.dsize key.mat.rows a.size (inLimb N a i) (keyPhase N sk key.mat i) l := by
  by_cases h1 : key.dsize = 1
  · exact keyswitch_phase_one N sk res a key l h1 hN hres hcols hc0 hsize hresn han hacols hM
  · exact keyswitch_phase_gt1 N sk res a key l (by omega) hN hres hmax hcols hc0 hresn han hacols hM

/-- **`keyswitch_value`** — the gadget identity applied to the executable function by a single Lean term.
If, for every input column `i` and key row `r`, the phase of the key row has value
`s i · β^(S − (r+1)·dsize) + E i r` (`β` arbitrary, think of the class of the constant `2^base2k`), and
`dnum · dsize ≤ S`, then the value of the phase of the executed product is, summed over the input columns,
`s i · (used part of input column i) + Σ_r digit_r · E i r − dropped − β^S · head`. -/
theorem keyswitch_value (N : Nat) (sk : List Poly) (res a : Buf) (key : Key) (β : R N) (s : Nat → R N) (E : Nat → Nat → R N)
    (hD : 1 ≤ key.dsize) (hN : 0 < N) (hres : res.WF) (hmax : res.maxSize = key.mat.size) (hsize : res.size = key.mat.size)
    (hcols : res.cols = key.mat.colsOut) (hc0 : 0 < key.mat.colsOut) (hresn : res.n = N) (han : a.n = N)
    (hacols : a.cols = key.mat.colsIn) (hM : ∀ j q, (key.mat.entry j q).length = N)
    (hS : key.mat.rows * key.dsize ≤ key.mat.size)
    (hkey : ∀ i, i < key.mat.colsIn → ∀ r, r < key.mat.rows →
      Gadget.val β key.mat.size (keyPhase N sk key.mat i r) = s i * β ^ (key.mat.size - (r + 1) * key.dsize) + E i r) :
    ∑ l ∈ Finset.range key.mat.size,
        ι N (phaseRow sk ((List.range res.cols).map (fun c => limbOr0 N ((gglweProductDft res a key).act c) l))) *
          β ^ (key.mat.size - 1 - l) =
      ∑ i ∈ Finset.range key.mat.colsIn,
        (s i * Gadget.usedVal β key.mat.size key.dsize key.mat.rows a.size (inLimb N a i)
          + ∑ r ∈ Finset.range key.mat.rows, Gadget.digit β key.dsize key.mat.rows a.size (inLimb N a i) r * E i r
          - Gadget.dropped β key.mat.size key.dsize key.mat.rows a.size (inLimb N a i) (keyPhase N sk key.mat i)
          - β ^ key.mat.size * Gadget.head β key.dsize key.mat.rows a.size (inLimb N a i) (keyPhase N sk key.mat i)) := by
  rw [← Gadget.gadget_identity_cols β key.mat.size key.dsize key.mat.rows a.size key.mat.colsIn s (inLimb N a)
    (keyPhase N sk key.mat) E hD hS hkey]
  unfold Gadget.val
  rw [Finset.sum_comm]
  apply Finset.sum_congr rfl
  intro l _
  rw [keyswitch_phase N sk res a key l hD hN hres hmax hsize hcols hc0 hresn han hacols hM, Finset.sum_mul]

/-! ### non-vacuity: the `n = 1`, `dsize = 3` key of `Ks.AccumExample`, dirty result buffer, any secret -/

example (sk : List Poly) (l : Nat) :
    ι 1 (phaseRow sk ((List.range 1).map (fun c =>
        limbOr0 1 ((gglweProductDft AccumExample.dirty3 AccumExample.exA3 AccumExample.exKey3).act c) l))) =
      ∑ i ∈ Finset.range 1,
        Gadget.acc 4 3 1 1 (inLimb 1 AccumExample.exA3 i) (keyPhase 1 sk AccumExample.exKey3.mat i) l :=
  keyswitch_phase 1 sk AccumExample.dirty3 AccumExample.exA3 AccumExample.exKey3 l (by decide) (by decide)
    AccumExample.dirty3_WF rfl rfl rfl (by decide) rfl rfl rfl (entry_length AccumExample.exKey3.mat 1 rfl (by decide))

/-- the same key with `dsize = 1` (the other branch of the executed function) -/
example (sk : List Poly) (l : Nat) :
    ι 1 (phaseRow sk ((List.range 1).map (fun c =>
        limbOr0 1 ((gglweProductDft AccumExample.dirty3 AccumExample.exA3 { AccumExample.exKey3 with dsize := 1 }).act c) l))) =
      ∑ i ∈ Finset.range 1,
        Gadget.acc 4 1 1 1 (inLimb 1 AccumExample.exA3 i) (keyPhase 1 sk AccumExample.exKey3.mat i) l :=
  keyswitch_phase 1 sk AccumExample.dirty3 AccumExample.exA3 { AccumExample.exKey3 with dsize := 1 } l (by decide) (by decide)
    AccumExample.dirty3_WF rfl rfl rfl (by decide) rfl rfl rfl (entry_length AccumExample.exKey3.mat 1 rfl (by decide))

/-- `keyswitch_value` on the `dsize = 3` key: the error term is *defined* by the key equation, so `hkey` holds -/
example (sk : List Poly) (β : R 1) (s : Nat → R 1) :
    ∑ l ∈ Finset.range 4,
        ι 1 (phaseRow sk ((List.range 1).map (fun c =>
          limbOr0 1 ((gglweProductDft AccumExample.dirty3 AccumExample.exA3 AccumExample.exKey3).act c) l))) * β ^ (4 - 1 - l) =
      ∑ i ∈ Finset.range 1,
        (s i * Gadget.usedVal β 4 3 1 1 (inLimb 1 AccumExample.exA3 i)
          + ∑ r ∈ Finset.range 1, Gadget.digit β 3 1 1 (inLimb 1 AccumExample.exA3 i) r *
              (Gadget.val β 4 (keyPhase 1 sk AccumExample.exKey3.mat i r) - s i * β ^ (4 - (r + 1) * 3))
          - Gadget.dropped β 4 3 1 1 (inLimb 1 AccumExample.exA3 i) (keyPhase 1 sk AccumExample.exKey3.mat i)
          - β ^ 4 * Gadget.head β 3 1 1 (inLimb 1 AccumExample.exA3 i) (keyPhase 1 sk AccumExample.exKey3.mat i)) :=
  keyswitch_value 1 sk AccumExample.dirty3 AccumExample.exA3 AccumExample.exKey3 β s
    (fun i r => Gadget.val β 4 (keyPhase 1 sk AccumExample.exKey3.mat i r) - s i * β ^ (4 - (r + 1) * 3))
    (by decide) (by decide) AccumExample.dirty3_WF rfl rfl rfl (by decide) rfl rfl rfl
    (entry_length AccumExample.exKey3.mat 1 rfl (by decide)) (by decide)
    (fun i _ r _ => by
      show Gadget.val β 4 (keyPhase 1 sk AccumExample.exKey3.mat i r) = s i * β ^ (4 - (r + 1) * 3) +
        (Gadget.val β 4 (keyPhase 1 sk AccumExample.exKey3.mat i r) - s i * β ^ (4 - (r + 1) * 3))
      ring)

end Ks
