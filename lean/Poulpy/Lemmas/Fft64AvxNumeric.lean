import Poulpy.Lemmas.Fft64AvxTop
import Poulpy.Lemmas.Fft64Instance
import Mathlib.Tactic.IntervalCases

open Complex

namespace Fft64Avx
open F64 Fft64

theorem dom_numeric_strong (K : Nat) (hK : K ≤ 15) :
    (4:ℝ) ^ K * (9 / 4) * ((20 * K + 6) * u) * (2:ℝ) ^ (domBits K) ≤ 1 / 2 - 1 / 1024 := by
  interval_cases K <;> (unfold domBits u; norm_num)

/-- the common Ref/AVX domain in numbers: the same table as `Fft64.svpDomain_numeric` -/
theorem svpDomainX_numeric (K : Nat) (hK : K ≤ 15) (Ma Mb : ℝ) (hMa : 1 ≤ Ma) (hMb : 1 ≤ Mb)
    (h : Ma * Mb ≤ (2:ℝ) ^ (domBits K)) : SvpDomainX K τ51 Ma Mb := by
  refine ⟨svpDomain_numeric K hK Ma Mb hMa hMb h, by omega, ?_⟩
  rw [EI_div, AP_eq]
  have h1 := growth_le K hK
  have h2 := dom_numeric_strong K hK
  have hu := u_pos
  have hη := η_small
  have hu' : u ≤ 1 / 4096 := by
    unfold u
    calc (2:ℝ) ^ (-53:Int) ≤ (2:ℝ) ^ (-12:Int) := two_pow_le _ _ (by norm_num)
      _ = 1 / 4096 := by norm_num
  have hP0 : 0 ≤ Ma * Mb := by positivity
  have h4 : (0:ℝ) < 4 ^ K * (9 / 4) := by positivity
  have s1 : 4 ^ K * (9 / 4) * ((G K τ51 - 1) * (1 + u) + u) ≤ 4 ^ K * (9 / 4) * ((20 * K + 6) * u) :=
    mul_le_mul_of_nonneg_left h1 h4.le
  have s2 : 4 ^ K * (9 / 4) * ((G K τ51 - 1) * (1 + u) + u) * (Ma * Mb) ≤ 4 ^ K * (9 / 4) * ((20 * K + 6) * u) * (Ma * Mb) :=
    mul_le_mul_of_nonneg_right s1 hP0
  have s3 : 4 ^ K * (9 / 4) * ((20 * K + 6) * u) * (Ma * Mb) ≤ 4 ^ K * (9 / 4) * ((20 * K + 6) * u) * (2:ℝ) ^ (domBits K) :=
    mul_le_mul_of_nonneg_left h (by positivity)
  have e : 4 ^ K * (9 / 4) * (G K τ51 - 1) * (Ma * Mb) * (1 + u) + u * (4 ^ K * (9 / 4) * (Ma * Mb) + 1) + η =
      4 ^ K * (9 / 4) * ((G K τ51 - 1) * (1 + u) + u) * (Ma * Mb) + u + η := by ring
  rw [e]; linarith

/-- **numeric form**: for `n = 2·2^K ≤ 2^16`, tables accurate to `2^-51`, integer operands `|p_i| ≤ A`, `|x_i| ≤ B`,
`A·B ≤ 2^(domBits K)`: FFT64Avx returns the exact negacyclic product, hence the same integers as FFT64Ref -/
theorem svpAvx_exact_numeric (K : Nat) (hK : K ≤ 15) (omg iomg : Array Nat) (hacc : TableAccurate τ51 K omg iomg)
    (p x : List Int) (hp : p.length = 2 ^ (K + 1)) (hx : x.length = 2 ^ (K + 1)) (A B : Nat) (hA : 1 ≤ A) (hB : 1 ≤ B)
    (hpA : ∀ c ∈ p, c.natAbs ≤ A) (hxB : ∀ c ∈ x, c.natAbs ≤ B) (hAB : A * B ≤ 2 ^ domBits K) :
    svpPipelineAvx K omg iomg p x = .ok (Hal.negMul p x) ∧
    svpPipelineAvx K omg iomg p x = .ok (svpPipeline K omg iomg p x) := by
  have h48 : A * B ≤ 2 ^ 48 := le_trans hAB (Nat.pow_le_pow_right (by norm_num) (domBits_le K))
  have hA48 : A ≤ 2 ^ 48 := le_trans (Nat.le_mul_of_pos_right A (by omega)) h48
  have hB48 : B ≤ 2 ^ 48 := le_trans (Nat.le_mul_of_pos_left B (by omega)) h48
  have conv : ∀ (l : List Int) (M : Nat), M ≤ 2 ^ 48 → (∀ c ∈ l, c.natAbs ≤ M) →
      ∀ c ∈ l, c.natAbs ≤ 2 ^ 50 - 1 ∧ |(c:ℝ)| ≤ (M:ℝ) := by
    intro l M hM h c hc
    have h1 := h c hc
    refine ⟨by omega, ?_⟩
    have : |(c:ℝ)| = ((c.natAbs : Nat) : ℝ) := by rw [← Int.cast_abs, Int.abs_eq_natAbs]; simp
    rw [this]; exact_mod_cast h1
  have hd := svpDomainX_numeric K hK (A:ℝ) (B:ℝ) (by exact_mod_cast hA) (by exact_mod_cast hB) (by exact_mod_cast hAB)
  exact ⟨svpAvx_pipeline_exact K omg iomg τ51 A B p x hacc hp hx (conv p A hA48 hpA) (conv x B hB48 hxB) hd,
    svp_ref_avx_agree K omg iomg τ51 A B p x hacc hp hx (conv p A hA48 hpA) (conv x B hB48 hxB) hd⟩

end Fft64Avx
