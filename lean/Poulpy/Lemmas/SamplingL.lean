/-
Helper lemmas for C06: the word → digit map of `znx_fill_uniform_ref`.
-/
import Poulpy.Lemmas.CoreEncLin

namespace CoreEnc

theorem pow2k_eq {b : Nat} (hb : b ≤ 63) : Sampling.pow2k b = 2 ^ b := by
  unfold Sampling.pow2k
  rw [Nat.mod_eq_of_lt (by omega : b < 64), Nat.shiftLeft_eq, Nat.one_mul]
  exact Nat.mod_eq_of_lt (Nat.pow_lt_pow_right (by norm_num) (by omega))

theorem maskOf_and {b : Nat} (hb : b ≤ 63) (u : Nat) : u &&& Sampling.maskOf b = u % 2 ^ b := by
  unfold Sampling.maskOf
  rw [pow2k_eq hb]
  exact Nat.and_two_pow_sub_one_eq_mod u b

/-- the digit written for a raw word `u`: the balanced residue `(u mod 2^b) − 2^(b−1)` -/
theorem digitOfWord_eq {b : Nat} (hb1 : 1 ≤ b) (hb : b ≤ 63) (u : Nat) :
    Sampling.digitOfWord b u = ((u % 2 ^ b : Nat) : Int) - 2 ^ (b - 1) := by
  unfold Sampling.digitOfWord Sampling.digitOf Sampling.halfOf
  rw [maskOf_and hb, pow2k_eq hb, Nat.shiftRight_eq_div_pow, pow_one]
  have hhalf : 2 ^ b / 2 = 2 ^ (b - 1) := by
    have : b = (b - 1) + 1 := by omega
    conv_lhs => rw [this, pow_succ]
    simp
  rw [hhalf]
  have hlt : u % 2 ^ b < 2 ^ b := Nat.mod_lt _ (by positivity)
  have hle : (2 : Nat) ^ b ≤ 2 ^ 63 := Nat.pow_le_pow_right (by norm_num) hb
  have hhl : (2 : Nat) ^ (b - 1) ≤ 2 ^ 62 := Nat.pow_le_pow_right (by norm_num) (by omega)
  have h1 : ((u % 2 ^ b : Nat) : Int) < 2 ^ 63 := by exact_mod_cast lt_of_lt_of_le hlt hle
  have h0 : (0 : Int) ≤ ((u % 2 ^ b : Nat) : Int) := by positivity
  have h2 : ((2 ^ (b - 1) : Nat) : Int) ≤ 2 ^ 62 := by exact_mod_cast hhl
  have h3 : (0 : Int) ≤ ((2 ^ (b - 1) : Nat) : Int) := by positivity
  have hin : w64 ((u % 2 ^ b : Nat) : Int) = ((u % 2 ^ b : Nat) : Int) := w64_id (by rw [abs_lt]; constructor <;> linarith)
  rw [hin]
  rw [w64_id (by rw [abs_lt]; constructor <;> linarith)]
  push_cast
  ring

end CoreEnc
