import Poulpy.Lemmas.CmuxMachine
import Poulpy.Props.C03

/-!
The packed word, EXECUTED: the bit ciphertexts produced by the executed chain of CMux (`CmuxMachine`, error `≤ B1` at scale `2^(b·S)`) packed by
the executed `glwe_pack` (`Ks.pack`, C03's `glwe_pack_decrypts_noise` — the `PackCoeffContract` of `NoiseAlg.lean` as a theorem, same radix for
ciphertexts and automorphism keys, `dsize = 1` keys through `C03.merge_key_ok_of_d1`).  Slot `J` of the result, read as a decryptor reads it
(`KsDec.slotRead`: coefficient `J` of the phase, centred modulo `2^(b·rs)`), is the encoded bit up to `B1 / 2^(b·S) + Bp`.
-/

namespace WordExec
open Hal Core KsDec C02L Core.Ops

/-- the glue between the two coefficient readings: `u` = constant coefficient of the bit ciphertext (`A·u = A·m + e₁ + A·Q·q₁`, the BDD chain),
`val = u + e₂ + Q·q₂` (the pack), no wrap: the centred reading of `val` is `m` up to `e₁/A + e₂` -/
theorem slot_glue (A Q m u val e1 q1 e2 q2 B1 Bp : ℤ) (hA : 0 < A) (hQ : 0 < Q)
    (h1 : A * u = A * m + e1 + A * Q * q1) (hb1 : |e1| ≤ B1)
    (h2 : val = u + e2 + Q * q2) (hb2 : |e2| ≤ Bp)
    (hfit : 2 * (A * (|m| + Bp) + B1) < A * Q) :
    A * |cmod val Q - m| ≤ B1 + A * Bp := by
  -- `A ∣ e1`
  have hdvd : A ∣ e1 := by
    have : e1 = A * (u - m - Q * q1) := by linarith
    exact ⟨_, this⟩
  obtain ⟨e1', he1'⟩ := hdvd
  have hu : u = m + e1' + Q * q1 := by
    have : A * u = A * (m + e1' + Q * q1) := by rw [h1, he1']; ring
    exact mul_left_cancel₀ (ne_of_gt hA) this
  have habs1 : A * |e1'| ≤ B1 := by
    have : |e1| = A * |e1'| := by rw [he1', abs_mul, abs_of_pos hA]
    linarith
  have hval : val = (m + e1' + e2) + Q * (q1 + q2) := by rw [h2, hu]; ring
  -- no wrap
  have hsmall : 2 * |m + e1' + e2| < Q := by
    have h3 : |m + e1' + e2| ≤ |m| + |e1'| + |e2| := by
      refine le_trans (abs_add_le _ _) ?_
      have := abs_add_le m e1'
      linarith
    have h4 : A * (2 * |m + e1' + e2|) < A * Q := by nlinarith [abs_nonneg e1', abs_nonneg e2, abs_nonneg m]
    exact lt_of_mul_lt_mul_left h4 (le_of_lt hA)
  have hlt := abs_lt.mp (by linarith [abs_nonneg (m + e1' + e2)] : |m + e1' + e2| < Q)
  have hc : cmod val Q = m + e1' + e2 := by
    rw [hval]
    apply cmod_add_mul _ _ _ hQ
    · have := neg_abs_le (m + e1' + e2); omega
    · have := le_abs_self (m + e1' + e2); omega
  rw [hc]
  have : |m + e1' + e2 - m| ≤ |e1'| + |e2| := by
    have e : m + e1' + e2 - m = e1' + e2 := by ring
    rw [e]; exact abs_add_le _ _
  nlinarith [abs_nonneg e1', abs_nonneg e2]

/-- **the slot of the packed word, executed** (PackCoeffContract discharged by `C03.glwe_pack_decrypts_noise`): `x` the bit ciphertext at slot `J`
(`J` a multiple of the output gap) whose constant coefficient is `m` up to `B1` at scale `2^(b·Sg)` (what `C15Noise.bdd_eval_noise_executed` /
`add_bits_noise_executed` give for `m` = the encoded bit), `res` the executed `glwe_pack`, `Bp` with `2c·Bp ≥` C03's noise sum, no wrap:
the decryptor's reading of slot `J` is `m` up to `B1/2^(b·Sg) + Bp`. -/
theorem word_slot_executed (big128 : Bool) (K : ℕ) (hK : K + 1 ≤ 64) (keys : List Ks.Key) (sk : List Poly) (b S Sk rk Sg : ℕ)
    (hb62 : b ≤ 62) (H : ℤ) (hH : 2 ^ b - 1 ≤ H) (hh2 : NormL.HeadRoom 64 b 0 (H + H)) (BA : ℕ → ℤ) (hBA : ∀ i, 0 ≤ BA i)
    (hsk : Ks.AllLen (2 ^ K) sk) (hkeys : PackKeys big128 K b S Sk rk sk keys BA)
    (a : Ks.SlotMap) (logGapOut : ℕ) (res : Ks.Ct) (ha : ∀ j, OptInv (2 ^ K) b S rk H (a.get j))
    (h : Ks.pack big128 (2 ^ K) b keys b S a logGapOut = .ok res) (Bp : ℤ)
    (hBp : ∑ i ∈ Finset.range (K - logGapOut), 2 ^ (K - logGapOut - 1 - i) * mergeBeta b S Sk rk sk (BA i)
          + 2 * ∑ t ∈ Finset.range (K - (K - logGapOut)),
              (cc b S Sk * (2 * (1 + snorm (min rk sk.length) sk)) + BA (K - logGapOut + t)) ≤ (2 * cc b S Sk) * Bp)
    (J : ℕ) (hJ : J < 2 ^ K) (hgap : J % 2 ^ (K - (K - logGapOut)) = 0) (x : Ks.Ct) (hx : a.get J = some x)
    (m B1 : ℤ)
    (hbit : ∃ e1 q1 : ℤ, 2 ^ (b * Sg) * (valP b (2 ^ K) (phase sk x)).getD 0 0 = 2 ^ (b * Sg) * m + e1 + 2 ^ (b * Sg) * 2 ^ (b * S) * q1 ∧ |e1| ≤ B1)
    (hfit : 2 * (2 ^ (b * Sg) * (|m| + Bp) + B1) < 2 ^ (b * Sg) * 2 ^ (b * S)) :
    2 ^ (b * Sg) * |slotRead b S (2 ^ K) sk res J - m| ≤ B1 + 2 ^ (b * Sg) * Bp := by
  obtain ⟨e2, q2, he2, hb2⟩ := glwe_pack_decrypts_noise big128 K hK keys sk b S Sk rk hb62 H hH hh2 BA hBA hsk hkeys a logGapOut res ha h J hJ
  rw [if_pos hgap] at he2
  have hu : slotU b (2 ^ K) sk a J = (valP b (2 ^ K) (phase sk x)).getD 0 0 := by unfold slotU; rw [hx]
  rw [hu] at he2
  obtain ⟨e1, q1, h1, hb1⟩ := hbit
  have hc := cc_pos b S Sk
  have heB : |e2| ≤ Bp := by
    have : (2 * cc b S Sk) * |e2| ≤ (2 * cc b S Sk) * Bp := hb2.trans hBp
    exact le_of_mul_le_mul_left this (by linarith)
  unfold slotRead
  exact slot_glue (2 ^ (b * Sg)) (2 ^ (b * S)) m _ _ e1 q1 e2 q2 B1 Bp (by positivity) (by positivity) h1 hb1 he2 heB hfit

end WordExec
