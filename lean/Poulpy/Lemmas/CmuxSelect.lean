import Poulpy.Lemmas.EpConvert
import Poulpy.Lemmas.CswapTotal

/-!
CMux / Cswap on their INPUTS: the executed difference `d = t − f` (`glwe_sub`, exact under head-room: the column form of `C02.sub_phase`) has
phase `phase(t) − phase(f)`; the phase of columns fitted to `S` limbs is `β^{S−rs}` times the phase.
-/

namespace Core
open Hal Ks Finset C02L Core.Ops KsDec

/-- `glwe_sub` of two ciphertexts of `rs` limbs, exact under head-room -/
theorem glweSub_exact (N rs : Nat) (t f : List Col) (Hin : Int) (hH : Hin < 2 ^ 62) (hlen : t.length = f.length)
    (htw : ∀ c ∈ t, ColWF N rs c) (hfw : ∀ c ∈ f, ColWF N rs c)
    (htb : ∀ c ∈ t, ∀ l ∈ c, ∀ x ∈ l, |x| ≤ Hin) (hfb : ∀ c ∈ f, ∀ l ∈ c, ∀ x ∈ l, |x| ≤ Hin) :
    glweSubSameRank N rs t f = (List.range t.length).map (fun i => C02L.colAdd (t.getD i []) ((f.getD i []).map polyNeg)) := by
  unfold glweSubSameRank
  apply List.map_congr_left
  intro i hi
  have hi' := List.mem_range.mp hi
  have hif : i < f.length := by omega
  have e1 : t.getD i [] = t[i] := by simp [List.getD_eq_getElem?_getD, List.getElem?_eq_getElem hi']
  have e2 : f.getD i [] = f[i] := by simp [List.getD_eq_getElem?_getD, List.getElem?_eq_getElem hif]
  rw [e1, e2]
  have h1 := htw _ (List.getElem_mem hi')
  have h2 := hfw _ (List.getElem_mem hif)
  rw [vecSub_nf rs t[i] f[i] h1.2 h2.2 (small_of_bound _ Hin hH (htb _ (List.getElem_mem hi')))
    (small_of_bound _ Hin hH (hfb _ (List.getElem_mem hif))), fit_self h1.1, fit_self h2.1]

/-- the phase of `d = t − f` -/
theorem ι_valP_phase_sub (N : Nat) (hN : 0 < N) (b rs : Nat) (s : List Poly) (n : Nat) (t f : List Col)
    (htl : t.length = n + 1) (hfl : f.length = n + 1) (htw : ∀ c ∈ t, ColWF N rs c) (hfw : ∀ c ∈ f, ColWF N rs c) :
    ι N (valP b N (phase s (Ks.mkCt b N ((List.range (n + 1)).map (fun i => C02L.colAdd (t.getD i []) ((f.getD i []).map polyNeg))))))
      = ι N (valP b N (phase s (Ks.mkCt b N t))) - ι N (valP b N (phase s (Ks.mkCt b N f))) := by
  have hget : ∀ (L : List Col), L.length = n + 1 → (∀ c ∈ L, ColWF N rs c) → ∀ j, j < n + 1 → ColWF N rs (L.getD j []) := by
    intro L hl hw j hj
    have hj' : j < L.length := by rw [hl]; exact hj
    rw [List.getD_eq_getElem?_getD, List.getElem?_eq_getElem hj']; exact hw _ (List.getElem_mem hj')
  rw [ι_valP_phase_add N hN b rs s n (fun i => t.getD i []) (fun i => (f.getD i []).map polyNeg)
      (hget t htl htw) (fun j hj => neg_col_wf (hget f hfl hfw j hj)),
    ι_valP_phase_neg N hN b rs s n (fun i => f.getD i []) (hget f hfl hfw),
    range_map_getD t (n + 1) htl, range_map_getD f (n + 1) hfl]
  ring

/-- the phase of columns zero-extended to `S ≥ rs` limbs is `β^{S−rs}` times the phase -/
theorem ι_valP_phase_fit (N : Nat) (hN : 0 < N) (b rs S : Nat) (s : List Poly) (L : List Col) (hne : L ≠ [])
    (hw : ∀ c ∈ L, ColWF N rs c) (hS : rs ≤ S) :
    ι N (valP b N (phase s (Ks.mkCt b N ((List.range L.length).map (fun j => fit N S (L.getD j []))))))
      = ((2 : R N) ^ b) ^ (S - rs) * ι N (valP b N (phase s (Ks.mkCt b N L))) := by
  have hpos : 0 < L.length := List.length_pos_of_ne_nil hne
  have hcol : ∀ j, j < L.length → ColWF N rs (L.getD j []) := by
    intro j hj
    rw [List.getD_eq_getElem?_getD, List.getElem?_eq_getElem hj]; exact hw _ (List.getElem_mem hj)
  have hfw : ∀ c ∈ (List.range L.length).map (fun j => fit N S (L.getD j [])), ColWF N S c := by
    intro c hc
    obtain ⟨j, hj, rfl⟩ := List.mem_map.mp hc
    exact fit_wf (hcol j (List.mem_range.mp hj)).2 S
  have hfne : (List.range L.length).map (fun j => fit N S (L.getD j [])) ≠ [] := by
    intro h; apply hne; have := congrArg List.length h; simpa using this
  have hfit : ∀ j, j < L.length → ι N (valP b N (fit N S (L.getD j []))) = ((2 : R N) ^ b) ^ (S - rs) * ι N (valP b N (L.getD j [])) := by
    intro j hj
    have hc := hcol j hj
    have := ι_valP_fit N b S (L.getD j []) hc.2 (by rw [hc.1]; exact hS)
    rw [hc.1, Ks.radix_eq] at this
    exact this
  rw [ι_valP_phase_cols N hN b S s _ hfne hfw, ι_valP_phase_cols N hN b rs s L hne hw]
  simp only [List.length_map, List.length_range]
  rw [getD_range_map L.length 0 _ hpos, hfit 0 hpos, mul_add, Finset.mul_sum]
  congr 1
  apply Finset.sum_congr rfl
  intro i hi
  have hi' : i + 1 < L.length := by have := mem_range.mp hi; omega
  rw [getD_range_map L.length (i + 1) _ hi', hfit (i + 1) hi']
  ring

end Core
