import Poulpy.Lemmas.Ntt120Acc

/-!
NTT120 `vec_mat1col_product_bbb_ref` (q120b × q120b): the four 64-bit accumulators and the final
eight-term collapse never wrap for fewer than 10 000 rows of arbitrary `u64` inputs, for every split
point `16 ≤ h < 32` and reduction constants below `2^30` (Primes29, Primes30), and the result is
congruent to the exact dot product modulo the prime.
-/

namespace Ntt120

abbrev Pair := Nat × Nat

def Pair.u64 (p : Pair) : Prop := p.1 < 2 ^ 64 ∧ p.2 < 2 ^ 64

def Pair.a (p : Pair) : Nat := p.1 % 2 ^ 32 * (p.2 % 2 ^ 32)
def Pair.b (p : Pair) : Nat := p.1 % 2 ^ 32 * (p.2 / 2 ^ 32)
def Pair.c (p : Pair) : Nat := p.1 / 2 ^ 32 * (p.2 % 2 ^ 32)
def Pair.d (p : Pair) : Nat := p.1 / 2 ^ 32 * (p.2 / 2 ^ 32)

def Pair.s1 (p : Pair) : Nat := p.a % 2 ^ 32
def Pair.s2 (p : Pair) : Nat := p.a / 2 ^ 32 + p.b % 2 ^ 32 + p.c % 2 ^ 32
def Pair.s3 (p : Pair) : Nat := p.b / 2 ^ 32 + p.c / 2 ^ 32 + p.d % 2 ^ 32
def Pair.s4 (p : Pair) : Nat := p.d / 2 ^ 32

theorem Pair.parts_lt (p : Pair) (h : p.u64) : p.a < 2 ^ 64 ∧ p.b < 2 ^ 64 ∧ p.c < 2 ^ 64 ∧ p.d < 2 ^ 64 := by
  have h1 : p.1 % 2 ^ 32 < 2 ^ 32 := Nat.mod_lt _ (by decide)
  have h2 : p.2 % 2 ^ 32 < 2 ^ 32 := Nat.mod_lt _ (by decide)
  have h3 : p.1 / 2 ^ 32 < 2 ^ 32 := by have := h.1; omega
  have h4 : p.2 / 2 ^ 32 < 2 ^ 32 := by have := h.2; omega
  exact ⟨mul_u32_lt _ _ h1 h2, mul_u32_lt _ _ h1 h4, mul_u32_lt _ _ h3 h2, mul_u32_lt _ _ h3 h4⟩

/-- the four 32-bit columns of the schoolbook product recombine to `x·y` -/
theorem Pair.prod_split (p : Pair) : p.1 * p.2 = p.s1 + 2 ^ 32 * p.s2 + 2 ^ 64 * p.s3 + 2 ^ 96 * p.s4 := by
  have hx := Nat.mod_add_div p.1 (2 ^ 32)
  have hy := Nat.mod_add_div p.2 (2 ^ 32)
  have e : p.1 * p.2 = p.a + 2 ^ 32 * (p.b + p.c) + 2 ^ 64 * p.d := by
    unfold Pair.a Pair.b Pair.c Pair.d
    conv_lhs => rw [← hx, ← hy]
    ring
  unfold Pair.s1 Pair.s2 Pair.s3 Pair.s4
  have ha := Nat.mod_add_div p.a (2 ^ 32)
  have hb := Nat.mod_add_div p.b (2 ^ 32)
  have hc := Nat.mod_add_div p.c (2 ^ 32)
  have hd := Nat.mod_add_div p.d (2 ^ 32)
  rw [e]; omega

theorem Pair.s_lt (p : Pair) (h : p.u64) : p.s1 < 2 ^ 32 ∧ p.s2 < 3 * 2 ^ 32 ∧ p.s3 < 3 * 2 ^ 32 ∧ p.s4 < 2 ^ 32 := by
  obtain ⟨ha, hb, hc, hd⟩ := p.parts_lt h
  unfold Pair.s1 Pair.s2 Pair.s3 Pair.s4
  refine ⟨?_, ?_, ?_, ?_⟩ <;> omega

abbrev Acc4 := Nat × Nat × Nat × Nat

/-- one loop iteration of `vec_mat1col_product_bbb_ref` adds the four columns without wrapping
while every accumulator has `2^34` of head-room -/
theorem bbbAccK_eq (s : Acc4) (p : Pair) (hp : p.u64)
    (h1 : s.1 + 2 ^ 34 ≤ 2 ^ 64) (h2 : s.2.1 + 2 ^ 34 ≤ 2 ^ 64) (h3 : s.2.2.1 + 2 ^ 34 ≤ 2 ^ 64) (h4 : s.2.2.2 + 2 ^ 34 ≤ 2 ^ 64) :
    bbbAccK s p.1 p.2 = (s.1 + p.s1, s.2.1 + p.s2, s.2.2.1 + p.s3, s.2.2.2 + p.s4) := by
  obtain ⟨ha, hb, hc, hd⟩ := p.parts_lt hp
  unfold bbbAccK
  simp only [land_m32, shr_eq]
  have ea : p.1 % 2 ^ 32 * (p.2 % 2 ^ 32) = p.a := rfl
  have eb : p.1 % 2 ^ 32 * (p.2 / 2 ^ 32) = p.b := rfl
  have ec : p.1 / 2 ^ 32 * (p.2 % 2 ^ 32) = p.c := rfl
  have ed : p.1 / 2 ^ 32 * (p.2 / 2 ^ 32) = p.d := rfl
  rw [ea, eb, ec, ed, wu64_of_lt _ ha, wu64_of_lt _ hb, wu64_of_lt _ hc, wu64_of_lt _ hd]
  have i1 : wu64 (p.a / 2 ^ 32 + p.b % 2 ^ 32) = p.a / 2 ^ 32 + p.b % 2 ^ 32 := wu64_of_lt _ (by omega)
  have i2 : wu64 (p.b / 2 ^ 32 + p.c / 2 ^ 32) = p.b / 2 ^ 32 + p.c / 2 ^ 32 := wu64_of_lt _ (by omega)
  rw [i1, i2]
  have j1 : wu64 (p.a / 2 ^ 32 + p.b % 2 ^ 32 + p.c % 2 ^ 32) = p.s2 := by
    unfold Pair.s2; exact wu64_of_lt _ (by omega)
  have j2 : wu64 (p.b / 2 ^ 32 + p.c / 2 ^ 32 + p.d % 2 ^ 32) = p.s3 := by
    unfold Pair.s3; exact wu64_of_lt _ (by omega)
  rw [j1, j2]
  obtain ⟨l1, l2, l3, l4⟩ := p.s_lt hp
  have k1 : p.a % 2 ^ 32 = p.s1 := rfl
  have k4 : p.d / 2 ^ 32 = p.s4 := rfl
  rw [k1, k4, wu64_of_lt (s.1 + p.s1) (by omega), wu64_of_lt (s.2.1 + p.s2) (by omega),
    wu64_of_lt (s.2.2.1 + p.s3) (by omega), wu64_of_lt (s.2.2.2 + p.s4) (by omega)]

def sum1 (ps : List Pair) : Nat := (ps.map Pair.s1).sum
def sum2 (ps : List Pair) : Nat := (ps.map Pair.s2).sum
def sum3 (ps : List Pair) : Nat := (ps.map Pair.s3).sum
def sum4 (ps : List Pair) : Nat := (ps.map Pair.s4).sum
/-- the exact dot product `Σ x_i·y_i` -/
def dot2 (ps : List Pair) : Nat := (ps.map (fun p => p.1 * p.2)).sum

theorem dot2_split (ps : List Pair) : dot2 ps = sum1 ps + 2 ^ 32 * sum2 ps + 2 ^ 64 * sum3 ps + 2 ^ 96 * sum4 ps := by
  induction ps with
  | nil => rfl
  | cons p ps ih =>
    simp only [dot2, sum1, sum2, sum3, sum4, List.map_cons, List.sum_cons] at *
    rw [ih, Pair.prod_split]; ring

theorem sums_le (ps : List Pair) (h : ∀ p ∈ ps, p.u64) :
    sum1 ps ≤ ps.length * 2 ^ 32 ∧ sum2 ps ≤ ps.length * (3 * 2 ^ 32) ∧ sum3 ps ≤ ps.length * (3 * 2 ^ 32) ∧ sum4 ps ≤ ps.length * 2 ^ 32 := by
  induction ps with
  | nil => simp [sum1, sum2, sum3, sum4]
  | cons p ps ih =>
    obtain ⟨i1, i2, i3, i4⟩ := ih (fun p' hp' => h p' (by simp [hp']))
    obtain ⟨l1, l2, l3, l4⟩ := p.s_lt (h p (by simp))
    simp only [sum1, sum2, sum3, sum4, List.map_cons, List.sum_cons, List.length_cons] at *
    refine ⟨?_, ?_, ?_, ?_⟩ <;> (rw [Nat.add_mul, Nat.one_mul]; omega)

theorem bbb_fold (ps : List Pair) (h : ∀ p ∈ ps, p.u64) (s : Acc4)
    (h1 : s.1 + ps.length * 2 ^ 34 ≤ 2 ^ 64) (h2 : s.2.1 + ps.length * 2 ^ 34 ≤ 2 ^ 64)
    (h3 : s.2.2.1 + ps.length * 2 ^ 34 ≤ 2 ^ 64) (h4 : s.2.2.2 + ps.length * 2 ^ 34 ≤ 2 ^ 64) :
    ps.foldl (fun s t => bbbAccK s t.1 t.2) s =
      (s.1 + sum1 ps, s.2.1 + sum2 ps, s.2.2.1 + sum3 ps, s.2.2.2 + sum4 ps) := by
  induction ps generalizing s with
  | nil => simp [sum1, sum2, sum3, sum4]
  | cons p ps ih =>
    rw [List.foldl_cons]
    have hp := h p (by simp)
    have hlen : (p :: ps).length * 2 ^ 34 = ps.length * 2 ^ 34 + 2 ^ 34 := by
      rw [List.length_cons, Nat.add_mul, Nat.one_mul]
    rw [hlen, ← Nat.add_assoc] at h1 h2 h3 h4
    rw [bbbAccK_eq s p hp (by omega) (by omega) (by omega) (by omega)]
    obtain ⟨l1, l2, l3, l4⟩ := p.s_lt hp
    rw [ih (fun p' hp' => h p' (by simp [hp'])) (s.1 + p.s1, s.2.1 + p.s2, s.2.2.1 + p.s3, s.2.2.2 + p.s4)
      (by simp only []; omega) (by simp only []; omega) (by simp only []; omega) (by simp only []; omega)]
    simp only [sum1, sum2, sum3, sum4, List.map_cons, List.sum_cons]
    refine Prod.ext ?_ (Prod.ext ?_ (Prod.ext ?_ ?_)) <;> simp only [] <;> omega

/-- the un-wrapped value of the final eight-term collapse -/
def collapse4 (h p2l p2h p3l p3h p4l p4h s1 s2 s3 s4 : Nat) : Nat :=
  s1 % 2 ^ h + s1 / 2 ^ h * 2 ^ h + s2 % 2 ^ h * p2l + s2 / 2 ^ h * p2h + s3 % 2 ^ h * p3l + s3 / 2 ^ h * p3h +
    s4 % 2 ^ h * p4l + s4 / 2 ^ h * p4h

theorem lo_hi_mul_lt (s h p : Nat) (hh : 16 ≤ h) (hh2 : h < 32) (hs : s < 2 ^ 47) (hp : p < 2 ^ 30) :
    s % 2 ^ h * p < 2 ^ 61 ∧ s / 2 ^ h * p < 2 ^ 61 := by
  have hl : s % 2 ^ h < 2 ^ 31 := by
    have : s % 2 ^ h < 2 ^ h := Nat.mod_lt _ (Nat.two_pow_pos h)
    have : 2 ^ h ≤ 2 ^ 31 := Nat.pow_le_pow_right (by decide) (by omega)
    omega
  have hhi : s / 2 ^ h < 2 ^ 31 := by
    have h16 : 2 ^ 16 ≤ 2 ^ h := Nat.pow_le_pow_right (by decide) hh
    have : s / 2 ^ h ≤ s / 2 ^ 16 := Nat.div_le_div_left h16 (by decide)
    omega
  constructor
  · calc s % 2 ^ h * p < 2 ^ 31 * 2 ^ 30 := Nat.mul_lt_mul'' hl hp
      _ = 2 ^ 61 := by norm_num
  · calc s / 2 ^ h * p < 2 ^ 31 * 2 ^ 30 := Nat.mul_lt_mul'' hhi hp
      _ = 2 ^ 61 := by norm_num

theorem bbbFinalK_eq (h p2l p2h p3l p3h p4l p4h : Nat) (s : Acc4) (hh : 16 ≤ h) (hh2 : h < 32)
    (c2l : p2l < 2 ^ 30) (c2h : p2h < 2 ^ 30) (c3l : p3l < 2 ^ 30) (c3h : p3h < 2 ^ 30) (c4l : p4l < 2 ^ 30) (c4h : p4h < 2 ^ 30)
    (b1 : s.1 < 2 ^ 47) (b2 : s.2.1 < 2 ^ 47) (b3 : s.2.2.1 < 2 ^ 47) (b4 : s.2.2.2 < 2 ^ 47) :
    bbbFinalK h (wu64 (2 ^ h)) p2l p2h p3l p3h p4l p4h s = collapse4 h p2l p2h p3l p3h p4l p4h s.1 s.2.1 s.2.2.1 s.2.2.2 ∧
    collapse4 h p2l p2h p3l p3h p4l p4h s.1 s.2.1 s.2.2.1 s.2.2.2 < 2 ^ 64 := by
  unfold bbbFinalK collapse4
  simp only [land_maskOf _ h (by omega), shr_eq]
  have hpw : 2 ^ h < 2 ^ 64 := Nat.pow_lt_pow_right (by decide) (by omega)
  rw [wu64_of_lt _ hpw]
  obtain ⟨m2l, m2h⟩ := lo_hi_mul_lt s.2.1 h p2l hh hh2 b2 c2l
  obtain ⟨_, m2h'⟩ := lo_hi_mul_lt s.2.1 h p2h hh hh2 b2 c2h
  obtain ⟨m3l, _⟩ := lo_hi_mul_lt s.2.2.1 h p3l hh hh2 b3 c3l
  obtain ⟨_, m3h⟩ := lo_hi_mul_lt s.2.2.1 h p3h hh hh2 b3 c3h
  obtain ⟨m4l, _⟩ := lo_hi_mul_lt s.2.2.2 h p4l hh hh2 b4 c4l
  obtain ⟨_, m4h⟩ := lo_hi_mul_lt s.2.2.2 h p4h hh hh2 b4 c4h
  have hs1 : s.1 % 2 ^ h + s.1 / 2 ^ h * 2 ^ h = s.1 := by
    have := Nat.mod_add_div s.1 (2 ^ h); rw [Nat.mul_comm] at this; exact this
  have hs1' : s.1 / 2 ^ h * 2 ^ h ≤ s.1 := by omega
  rw [wu64_of_lt (s.1 / 2 ^ h * 2 ^ h) (by omega), wu64_of_lt (s.2.1 % 2 ^ h * p2l) (by omega),
    wu64_of_lt (s.2.1 / 2 ^ h * p2h) (by omega), wu64_of_lt (s.2.2.1 % 2 ^ h * p3l) (by omega),
    wu64_of_lt (s.2.2.1 / 2 ^ h * p3h) (by omega), wu64_of_lt (s.2.2.2 % 2 ^ h * p4l) (by omega),
    wu64_of_lt (s.2.2.2 / 2 ^ h * p4h) (by omega)]
  rw [wu64_of_lt (s.1 % 2 ^ h + s.1 / 2 ^ h * 2 ^ h) (by omega)]
  rw [wu64_of_lt (s.1 % 2 ^ h + s.1 / 2 ^ h * 2 ^ h + s.2.1 % 2 ^ h * p2l) (by omega)]
  rw [wu64_of_lt (s.1 % 2 ^ h + s.1 / 2 ^ h * 2 ^ h + s.2.1 % 2 ^ h * p2l + s.2.1 / 2 ^ h * p2h) (by omega)]
  rw [wu64_of_lt (s.1 % 2 ^ h + s.1 / 2 ^ h * 2 ^ h + s.2.1 % 2 ^ h * p2l + s.2.1 / 2 ^ h * p2h + s.2.2.1 % 2 ^ h * p3l) (by omega)]
  rw [wu64_of_lt (s.1 % 2 ^ h + s.1 / 2 ^ h * 2 ^ h + s.2.1 % 2 ^ h * p2l + s.2.1 / 2 ^ h * p2h + s.2.2.1 % 2 ^ h * p3l +
    s.2.2.1 / 2 ^ h * p3h) (by omega)]
  rw [wu64_of_lt (s.1 % 2 ^ h + s.1 / 2 ^ h * 2 ^ h + s.2.1 % 2 ^ h * p2l + s.2.1 / 2 ^ h * p2h + s.2.2.1 % 2 ^ h * p3l +
    s.2.2.1 / 2 ^ h * p3h + s.2.2.2 % 2 ^ h * p4l) (by omega)]
  rw [wu64_of_lt _ (by omega)]
  exact ⟨rfl, by omega⟩

theorem split_modEq (q h p2 p2h s k : Nat) (e1 : p2 ≡ 2 ^ k [MOD q]) (e2 : p2h ≡ 2 ^ (k + h) [MOD q]) :
    s % 2 ^ h * p2 + s / 2 ^ h * p2h ≡ 2 ^ k * s [MOD q] := by
  have hs : s = s % 2 ^ h + 2 ^ h * (s / 2 ^ h) := (Nat.mod_add_div s (2 ^ h)).symm
  have t1 : s % 2 ^ h * p2 ≡ s % 2 ^ h * 2 ^ k [MOD q] := Nat.ModEq.mul_left _ e1
  have t2 : s / 2 ^ h * p2h ≡ s / 2 ^ h * 2 ^ (k + h) [MOD q] := Nat.ModEq.mul_left _ e2
  have := t1.add t2
  have e : s % 2 ^ h * 2 ^ k + s / 2 ^ h * 2 ^ (k + h) = 2 ^ k * (s % 2 ^ h + 2 ^ h * (s / 2 ^ h)) := by
    rw [pow_add]; ring
  rw [← hs] at e
  rw [e] at this
  exact this

/-- **`vec_mat1col_product_bbb_ref`, one prime** -/
theorem bbbK_spec (q h p2l p2h p3l p3h p4l p4h : Nat) (ps : List Pair) (hps : ∀ p ∈ ps, p.u64) (hell : ps.length < 10000)
    (hh : 16 ≤ h) (hh2 : h < 32)
    (c2l : p2l < 2 ^ 30) (c2h : p2h < 2 ^ 30) (c3l : p3l < 2 ^ 30) (c3h : p3h < 2 ^ 30) (c4l : p4l < 2 ^ 30) (c4h : p4h < 2 ^ 30)
    (e2l : p2l ≡ 2 ^ 32 [MOD q]) (e2h : p2h ≡ 2 ^ (32 + h) [MOD q]) (e3l : p3l ≡ 2 ^ 64 [MOD q]) (e3h : p3h ≡ 2 ^ (64 + h) [MOD q])
    (e4l : p4l ≡ 2 ^ 96 [MOD q]) (e4h : p4h ≡ 2 ^ (96 + h) [MOD q]) :
    bbbK h (wu64 (2 ^ h)) p2l p2h p3l p3h p4l p4h ps = collapse4 h p2l p2h p3l p3h p4l p4h (sum1 ps) (sum2 ps) (sum3 ps) (sum4 ps) ∧
    collapse4 h p2l p2h p3l p3h p4l p4h (sum1 ps) (sum2 ps) (sum3 ps) (sum4 ps) < 2 ^ 64 ∧
    bbbK h (wu64 (2 ^ h)) p2l p2h p3l p3h p4l p4h ps ≡ dot2 ps [MOD q] := by
  unfold bbbK
  obtain ⟨l1, l2, l3, l4⟩ := sums_le ps hps
  have hb : ps.length * 2 ^ 34 < 2 ^ 48 := by omega
  rw [bbb_fold ps hps (0, 0, 0, 0) (by simp only []; omega) (by simp only []; omega) (by simp only []; omega) (by simp only []; omega)]
  simp only [Nat.zero_add]
  obtain ⟨ev, eb⟩ := bbbFinalK_eq h p2l p2h p3l p3h p4l p4h (sum1 ps, sum2 ps, sum3 ps, sum4 ps) hh hh2 c2l c2h c3l c3h c4l c4h
    (by simp only []; omega) (by simp only []; omega) (by simp only []; omega) (by simp only []; omega)
  simp only [] at ev eb
  rw [ev]
  refine ⟨rfl, eb, ?_⟩
  rw [dot2_split]
  unfold collapse4
  have r1 : sum1 ps % 2 ^ h + sum1 ps / 2 ^ h * 2 ^ h = sum1 ps := by
    have := Nat.mod_add_div (sum1 ps) (2 ^ h); rw [Nat.mul_comm] at this; exact this
  rw [r1]
  have a2 := split_modEq q h p2l p2h (sum2 ps) 32 e2l e2h
  have a3 := split_modEq q h p3l p3h (sum3 ps) 64 e3l e3h
  have a4 := split_modEq q h p4l p4h (sum4 ps) 96 e4l e4h
  have := ((Nat.ModEq.add_left (sum1 ps) a2).add a3).add a4
  simpa [Nat.add_assoc] using this

end Ntt120
