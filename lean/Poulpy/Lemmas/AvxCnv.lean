import Poulpy.Model.AvxCnv
import Poulpy.Lemmas.AvxNtt
/-
C10: `mul_i64_wrapping_avx2` is `i64::wrapping_mul` on every lane, and the repaired by-constant convolution kernels of FFT64Avx
are the reference kernels on all inputs (the three-region schedule of the two-coefficient kernel included).
-/
namespace Avx.Cnv
open Avx Ntt120

theorem toNat_slli32 (x : W) : (Ntt.slli_epi64 x 32).toNat = x.toNat * 2 ^ 32 % 2 ^ 64 := by
  simp [Ntt.slli_epi64, BitVec.toNat_shiftLeft, Nat.shiftLeft_eq]

/-- **`mul_i64_wrapping_avx2` = `i64::wrapping_mul`**, every pair of 64-bit lanes -/
theorem mul64_eq (a b : W) : mulI64WrappingAvx2 a b = a * b := by
  apply BitVec.eq_of_toNat_eq
  unfold mulI64WrappingAvx2
  simp only [Ntt.toNat_add, toNat_slli32, Ntt.toNat_mul_epu32, Ntt.toNat_srli32, BitVec.toNat_mul, wu64, Nat.shiftRight_eq_div_pow]
  have ha := Nat.div_add_mod a.toNat (2 ^ 32)
  have hb := Nat.div_add_mod b.toNat (2 ^ 32)
  have hah : a.toNat / 2 ^ 32 < 2 ^ 32 := Nat.div_lt_of_lt_mul (by have := a.isLt; omega)
  have hbh : b.toNat / 2 ^ 32 < 2 ^ 32 := Nat.div_lt_of_lt_mul (by have := b.isLt; omega)
  rw [Nat.mod_eq_of_lt hah, Nat.mod_eq_of_lt hbh]
  generalize a.toNat / 2 ^ 32 = ah at *
  generalize a.toNat % 2 ^ 32 = al at *
  generalize b.toNat / 2 ^ 32 = bh at *
  generalize b.toNat % 2 ^ 32 = bl at *
  have e : a.toNat * b.toNat = al * bl + (al * bh + ah * bl) * 2 ^ 32 + ah * bh * 2 ^ 64 := by
    rw [← ha, ← hb]; ring
  rw [e]
  generalize al * bl = p
  generalize al * bh + ah * bl = c
  generalize ah * bh = d
  omega

theorem mul64_fun : mulI64WrappingAvx2 = (fun a b : W => a * b) := by funext a b; exact mul64_eq a b

/-- the old kernel agrees with `wrapping_mul` exactly on operands that are sign extensions of their low 32 bits … -/
theorem mulEpi32Old_eq (a b : W) (ha : (a.truncate 32).signExtend 64 = a) (hb : (b.truncate 32).signExtend 64 = b) :
    mulEpi32Old a b = a * b := by unfold mulEpi32Old; rw [ha, hb]
/-- … and not beyond -/
theorem mulEpi32Old_differs : mulEpi32Old 3000000000#64 3#64 ≠ 3000000000#64 * 3#64 := by decide

/-! ### the schedule of the two-coefficient kernel -/

theorem accLoop_add (mul : W → W → W) (a b : List W) (k : Nat) :
    ∀ (c1 c2 j : Nat) (acc : List W), accLoop mul a b k (c1 + c2) j acc = accLoop mul a b k c2 (j + c1) (accLoop mul a b k c1 j acc) := by
  intro c1
  induction c1 with
  | zero => intro c2 j acc; simp [accLoop]
  | succ c1 ih =>
    intro c2 j acc
    have e : c1 + 1 + c2 = (c1 + c2) + 1 := by omega
    rw [e]
    simp only [accLoop]
    rw [ih]
    congr 1
    omega

theorem accLoop2_eq (mul : W → W → W) (a b : List W) (k0 k1 : Nat) :
    ∀ (cnt j : Nat) (x y : List W),
      accLoop2 mul a b k0 k1 cnt j (x, y) = (accLoop mul a b k0 cnt j x, accLoop mul a b k1 cnt j y) := by
  intro cnt
  induction cnt with
  | zero => intro j x y; rfl
  | succ cnt ih => intro j x y; simp only [accLoop2, accLoop]; rw [ih]

/-- `i64_convolution_by_real_const_2coeffs_avx` = two calls of the one-coefficient kernel (for any lane product), `a_size ≥ 1` -/
theorem coeff2Avx_eq (mul : W → W → W) (k : Nat) (a : List W) (aSize : Nat) (b : List W) (ha : 1 ≤ aSize) :
    coeff2Avx mul k a aSize b = coeff1 mul k a aSize b ++ coeff1 mul (k + 1) a aSize b := by
  unfold coeff2Avx coeff1
  simp only []
  by_cases h0 : k ≥ aSize + b.length
  · have h1 : k + 1 ≥ aSize + b.length := by omega
    simp only [h0, h1, if_true]
  · simp only [h0, if_false]
    have e0 : k + 1 - aSize = k - (aSize - 1) := by omega
    by_cases h1 : k + 1 ≥ aSize + b.length
    · simp only [h1, if_true, e0]
    · simp only [h1, if_false]
      have e1 : k + 1 + 1 - aSize = k + 1 - (aSize - 1) := by omega
      rw [accLoop2_eq]
      simp only []
      -- k0: regions 1 + 2; k1: regions 2 + 3
      have s0 : min (k + 1) b.length - (k + 1 - aSize) = (k + 1 + 1 - aSize - (k + 1 - aSize)) + (min (k + 1) b.length - (k + 1 + 1 - aSize)) := by omega
      have p0 : k + 1 - aSize + (k + 1 + 1 - aSize - (k + 1 - aSize)) = k + 1 + 1 - aSize := by omega
      have s1 : min (k + 1 + 1) b.length - (k + 1 + 1 - aSize) = (min (k + 1) b.length - (k + 1 + 1 - aSize)) + (min (k + 1 + 1) b.length - min (k + 1) b.length) := by omega
      have p1 : k + 1 + 1 - aSize + (min (k + 1) b.length - (k + 1 + 1 - aSize)) = min (k + 1) b.length := by omega
      congr 1
      · rw [← e0, s0, accLoop_add, p0]
      · rw [← e1, s1, accLoop_add, p1]

theorem coeff2Avx_eq_ref (k : Nat) (a : List W) (aSize : Nat) (b : List W) (ha : 1 ≤ aSize) :
    coeff2Avx mulI64WrappingAvx2 k a aSize b = coeff2Ref k a aSize b := by
  rw [mul64_fun, coeff2Avx_eq _ k a aSize b ha]; rfl

/-- **whole `i64_convolution_by_const`, FFT64Avx (repaired) = FFT64Ref**: every row count, offset, block and constant vector,
every `i64` value -/
theorem byConstAvx_eq_ref (dstSize offset : Nat) (a : List W) (aSize : Nat) (b : List W) (ha : 1 ≤ aSize) :
    byConstAvx dstSize offset a aSize b = byConstRef dstSize offset a aSize b := by
  unfold byConstAvx byConstRef
  have h2 : (fun k => coeff2Avx mulI64WrappingAvx2 k a aSize b) = (fun k => coeff2Ref k a aSize b) := by
    funext k; exact coeff2Avx_eq_ref k a aSize b ha
  rw [h2, mul64_fun]

/-- the kernels before the repair differ from the reference (the coordinator's witness: `3000000000·3`) -/
theorem byConstAvxOld_differs :
    byConstAvxOld 1 0 [3000000000#64, 1#64, -3000000000#64, 5#64, 6#64, 7#64, 8#64, 9#64] 1 [3#64]
      ≠ byConstRef 1 0 [3000000000#64, 1#64, -3000000000#64, 5#64, 6#64, 7#64, 8#64, 9#64] 1 [3#64] := by decide

end Avx.Cnv
