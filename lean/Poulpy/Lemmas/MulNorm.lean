import Poulpy.Model.Core.Mul
import Poulpy.Lemmas.CoreOpsNorm
import Poulpy.Lemmas.EpNorm

/-!
The final normalisation of the multiplication routines, modulo the value specification of the C08 kernel: a list of accumulator
columns normalised column by column (`List.mapM K`) has a phase related to the accumulator's phase exactly as the columns are.
-/

namespace Core
open Hal C02L Core.Ops

theorem mapM_comp {α β γ} (f : α → β) (K : β → Option γ) (l : List α) : l.mapM (fun x => K (f x)) = (l.map f).mapM K := by
  induction l with
  | nil => rfl
  | cons x xs ih => simp [List.mapM_cons, ih]

/-- column-wise kernel ⇒ phase relation with the explicit error `E₀ + Σ s_i ⋆ E_{i+1}` -/
theorem mapM_kernel_phase_modulo_norm {N : Nat} (K : Col → Option Col) (rb ab : Nat) (acc res : List Col)
    (hm : acc.mapM K = some res)
    (hres : GWF N (Ks.mkCt rb N res)) (hacc : GWF N (Ks.mkCt ab N acc))
    (A B : Int) (E : Nat → Poly) (hE : ∀ i, (E i).length = N)
    (hK : ∀ i, i < acc.length → ∀ C, K (acc.getD i []) = some C →
      polyScale A (valP rb N C) = polyAdd (polyScale B (valP ab N (acc.getD i []))) (E i))
    (s : List Poly) :
    polyScale A (valP rb N (phase s (Ks.mkCt rb N res)))
      = polyAdd (polyScale B (valP ab N (phase s (Ks.mkCt ab N acc)))) (errTo (min (acc.length - 1) s.length) s E) := by
  have hlen : res.length = acc.length := mapM_some_length _ _ _ hm
  have hrank : (Ks.mkCt ab N acc).rank = (Ks.mkCt rb N res).rank := by simp [GLWE.rank, Ks.mkCt, hlen]
  have hr' : (Ks.mkCt rb N res).rank = acc.length - 1 := by simp [GLWE.rank, Ks.mkCt, hlen]
  have hne : acc ≠ [] := by
    have := hacc.2.1
    simpa [Ks.mkCt] using this
  have hpos : 0 < acc.length := List.length_pos_of_ne_nil hne
  have h := phase_val_modulo_norm (N := N) hres hacc hrank A B E hE (by
    intro i hi
    rw [hr'] at hi
    have hi' : i < acc.length := by omega
    exact hK i hi' _ (mapM_some_getD K [] [] _ _ hm i hi')) s
  rw [hr'] at h
  exact h

end Core
