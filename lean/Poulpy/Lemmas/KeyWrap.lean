/-
Key generation as encryption, part 8: the key wrappers (`glwe_switching_key_encrypt_sk`, `glwe_automorphism_key_encrypt_sk`,
`glwe_tensor_key_encrypt_sk`, `glwe_to_lwe_key_encrypt_sk`, `lwe_to_glwe_key_encrypt_sk`, `lwe_switching_key_encrypt_sk`).
-/
import Poulpy.Lemmas.KeyEntry
import Poulpy.Lemmas.AutoMul
import Poulpy.Lemmas.LweDecrypt
import Poulpy.Lemmas.RingSwitch

namespace CoreEnc
open NormL Ks

theorem switchRing_same (n : Nat) (s : Poly) (h : s.length = n) : znxSwitchRing n s = s := by
  unfold znxSwitchRing; simp [h]

theorem map_switchRing_same (n : Nat) (l : List Poly) (h : ∀ s ∈ l, s.length = n) : l.map (znxSwitchRing n) = l := by
  induction l with
  | nil => rfl
  | cons a r ih => simp [switchRing_same n a (h a (by simp)), ih (fun s hs => h s (by simp [hs]))]

/-! ### secrets of smaller ring degree: `vec_znx_switch_ring` (`X ↦ X^(n/deg)`) -/

theorem upsample_mem (gap : Nat) (a : Poly) (x : Int) (h : x ∈ znxUpsample gap a) : x ∈ a ∨ x = 0 := by
  unfold znxUpsample at h
  rw [List.mem_flatMap] at h
  obtain ⟨y, hy, hx⟩ := h
  rcases List.mem_cons.mp hx with rfl | hx
  · exact Or.inl hy
  · exact Or.inr (List.eq_of_mem_replicate hx)

theorem upsample_norm1 (gap : Nat) (a : Poly) : norm1 (znxUpsample gap a) = norm1 a := by
  unfold znxUpsample norm1
  induction a with
  | nil => rfl
  | cons x r ih =>
    simp only [List.flatMap_cons, List.map_append, List.sum_append, List.map_cons, List.sum_cons, List.map_replicate, abs_zero,
      List.sum_replicate, smul_zero, add_zero]
    rw [ih]

/-- the embedding of a secret column of degree `d ∣ n` into the module's ring: `n` coefficients, same coefficient bound, same `‖·‖₁` -/
theorem switchRing_embed (n : Nat) (hn : 0 < n) (s : Poly) (hd : 0 < s.length) (hdiv : s.length ∣ n) :
    (znxSwitchRing n s).length = n ∧ (∀ B : Int, 0 ≤ B → (∀ x ∈ s, |x| ≤ B) → ∀ x ∈ znxSwitchRing n s, |x| ≤ B) ∧
    norm1 (znxSwitchRing n s) = norm1 s := by
  unfold znxSwitchRing
  simp only
  by_cases h1 : s.length = n
  · simp only [h1, if_true]
    exact ⟨trivial, fun B _ hB x hx => hB x hx, trivial⟩
  · have hle : s.length ≤ n := Nat.le_of_dvd hn hdiv
    have hlt : ¬ s.length > n := by omega
    rw [if_neg h1, if_neg hlt]
    have hg : 0 < n / s.length := Nat.div_pos hle hd
    refine ⟨by rw [upsample_length _ hg, Nat.mul_div_cancel' hdiv], ?_, upsample_norm1 _ _⟩
    intro B hB0 hB x hx
    rcases upsample_mem _ _ _ hx with h | h
    · exact hB x h
    · rw [h]; simpa using hB0

section
variable {bits b n size kxe rankOut rankIn rank dnum dsize : Nat} {H E : Int}

/-- **`glwe_switching_key_encrypt_sk`, secrets of any ring degree dividing `n`** (the API asserts only `deg ≤ n`): the key encrypts the
EMBEDDED input secret (`znxSwitchRing n` of every column of `sk_in`) under the EMBEDDED output secret (every column of `sk_out` embedded,
column `i` from column `i`), and records the two degrees -/
theorem glweSwitchingKey_wellformed_deg (c : KeyCtx bits b n size kxe rankOut H E) (hd : 1 ≤ dsize)
    (tmp0 : Col) (htl : tmp0.length = size) (htw : WF n tmp0)
    (skIn skOut : List Poly) (hin : ∀ s ∈ skIn, 0 < s.length ∧ s.length ∣ n ∧ ∀ x ∈ s, |x| ≤ 2 ^ 62)
    (hout : ∀ s ∈ skOut, 0 < s.length ∧ s.length ∣ n ∧ norm1 s * 2 ^ (b - 1) ≤ H)
    (xa : List Nat) (es : List Poly) (hes : ErrOk n E es (rankIn * dnum))
    (cells : List (Nat × List Col)) (xa' : List Nat) (es' : List Poly)
    (h : Core.glweSwitchingKeyEncryptSk tmp0 bits b n size kxe rankOut rankIn dnum dsize skIn skOut xa es = some (cells, xa', es')) :
    es' = es.drop (rankIn * dnum) ∧ skIn.length = rankIn ∧ skOut.length = rankOut ∧
    KeyWellFormed n b dsize size kxe dnum rankIn (Core.keyMat n dnum rankIn (rankOut + 1) size cells) (skOut.map (znxSwitchRing n))
      (fun i => ι n ((skIn.map (znxSwitchRing n)).getD i [])) (fun i r => es.getD (i * dnum + r) []) := by
  unfold Core.glweSwitchingKeyEncryptSk at h
  split at h
  · simp at h
  · have hl : skIn.length = rankIn ∧ skOut.length = rankOut := by
      unfold Core.gglweEncryptSkT at h
      split at h
      · simp at h
      · rename_i hne; simp only [List.length_map] at hne; omega
    obtain ⟨h1, h2⟩ := gglweEncryptSk_wellformed c hd tmp0 htl htw (skOut.map (znxSwitchRing n))
      (by
        intro s hs
        simp only [List.mem_map] at hs
        obtain ⟨s0, h0, rfl⟩ := hs
        rw [(switchRing_embed n c.hn s0 (hout s0 h0).1 (hout s0 h0).2.1).2.2]
        exact (hout s0 h0).2.2)
      (skIn.map (znxSwitchRing n))
      (by
        intro i hi
        have hi' : i < skIn.length := by omega
        rw [List.getD_eq_getElem?_getD, List.getElem?_map, List.getElem?_eq_getElem hi']
        simp only [Option.map_some, Option.getD_some]
        have hm := hin _ (List.getElem_mem hi')
        obtain ⟨e1, e2, _⟩ := switchRing_embed n c.hn skIn[i] hm.1 hm.2.1
        exact ⟨e1, e2 (2 ^ 62) (by norm_num) hm.2.2⟩)
      xa es hes cells xa' es' h
    refine ⟨h1, hl.1, hl.2, ?_⟩
    simpa using h2

/-- **`glwe_switching_key_compressed_encrypt_sk` + `decompress`, secrets of any ring degree dividing `n`**: the same statement, on the same
embedded secrets, as the standard routine -/
theorem glweSwitchingKeyCompressed_wellformed_deg (c : KeyCtx bits b n size kxe rankOut H E) (hd : 1 ≤ dsize)
    (tmp0 : Col) (htl : tmp0.length = size) (htw : WF n tmp0)
    (skIn skOut : List Poly) (hin : ∀ s ∈ skIn, 0 < s.length ∧ s.length ∣ n ∧ ∀ x ∈ s, |x| ≤ 2 ^ 62)
    (hout : ∀ s ∈ skOut, 0 < s.length ∧ s.length ∣ n ∧ norm1 s * 2 ^ (b - 1) ≤ H)
    (expand : List Nat → List Nat) (seedXa : List Nat) (es : List Poly) (hes : ErrOk n E es (rankIn * dnum))
    (cc : List (Nat × Core.CellC)) (cells : List (Nat × List Col))
    (h : Core.glweSwitchingKeyEncryptCompressedT tmp0 bits b n size kxe rankOut rankIn dnum dsize skIn skOut expand seedXa es = some cc)
    (hdec : Core.decompressCells b n rankOut expand cc = some cells) :
    skIn.length = rankIn ∧ skOut.length = rankOut ∧
    Core.gglweEncryptCompressedT tmp0 bits b n size kxe rankOut rankIn dnum dsize (skIn.map (znxSwitchRing n)) (skOut.map (znxSwitchRing n))
      expand seedXa es = some cc ∧
    KeyWellFormed n b dsize size kxe dnum rankIn (Core.keyMat n dnum rankIn (rankOut + 1) size cells) (skOut.map (znxSwitchRing n))
      (fun i => ι n ((skIn.map (znxSwitchRing n)).getD i [])) (fun i r => es.getD (i * dnum + r) []) := by
  unfold Core.glweSwitchingKeyEncryptCompressedT at h
  split at h
  · simp at h
  · split at h
    · simp at h
    · rename_i hne
      have hl : skIn.length = rankIn ∧ skOut.length = rankOut := by omega
      refine ⟨hl.1, hl.2, h, ?_⟩
      exact gglweCompressed_wellformed c hd tmp0 htl htw (skOut.map (znxSwitchRing n)) (by simp [hl.2])
        (by
          intro s hs
          simp only [List.mem_map] at hs
          obtain ⟨s0, h0, rfl⟩ := hs
          rw [(switchRing_embed n c.hn s0 (hout s0 h0).1 (hout s0 h0).2.1).2.2]
          exact (hout s0 h0).2.2)
        (skIn.map (znxSwitchRing n))
        (by
          intro i hi
          have hi' : i < skIn.length := by omega
          rw [List.getD_eq_getElem?_getD, List.getElem?_map, List.getElem?_eq_getElem hi']
          simp only [Option.map_some, Option.getD_some]
          have hm := hin _ (List.getElem_mem hi')
          obtain ⟨e1, e2, _⟩ := switchRing_embed n c.hn skIn[i] hm.1 hm.2.1
          exact ⟨e1, e2 (2 ^ 62) (by norm_num) hm.2.2⟩)
        expand seedXa es hes cc cells h hdec

end

section
variable {bits b n size kxe rankOut rankIn rank dnum dsize : Nat} {H E : Int}

/-- **`glwe_switching_key_encrypt_sk`** (secrets of the module's degree): the key is well formed with `s_in = sk_in`, under `sk_out` —
`hkey` of `C03.glwe_keyswitch_decrypts` / `KsSide` -/
theorem glweSwitchingKey_wellformed (c : KeyCtx bits b n size kxe rankOut H E) (hd : 1 ≤ dsize)
    (tmp0 : Col) (htl : tmp0.length = size) (htw : WF n tmp0)
    (skIn skOut : List Poly) (hin : ∀ s ∈ skIn, ScalarOk n s) (hout : ∀ s ∈ skOut, s.length = n ∧ norm1 s * 2 ^ (b - 1) ≤ H)
    (xa : List Nat) (es : List Poly) (hes : ErrOk n E es (rankIn * dnum))
    (cells : List (Nat × List Col)) (xa' : List Nat) (es' : List Poly)
    (h : Core.glweSwitchingKeyEncryptSk tmp0 bits b n size kxe rankOut rankIn dnum dsize skIn skOut xa es = some (cells, xa', es')) :
    es' = es.drop (rankIn * dnum) ∧ skIn.length = rankIn ∧
    KeyWellFormed n b dsize size kxe dnum rankIn (Core.keyMat n dnum rankIn (rankOut + 1) size cells) skOut
      (fun i => ι n (skIn.getD i [])) (fun i r => es.getD (i * dnum + r) []) := by
  unfold Core.glweSwitchingKeyEncryptSk at h
  split at h
  · simp at h
  · rw [map_switchRing_same n skIn (fun s hs => (hin s hs).1), map_switchRing_same n skOut (fun s hs => (hout s hs).1)] at h
    have hl : skIn.length = rankIn := by
      unfold Core.gglweEncryptSkT at h
      split at h
      · simp at h
      · omega
    obtain ⟨h1, h2⟩ := gglweEncryptSk_wellformed c hd tmp0 htl htw skOut (fun s hs => (hout s hs).2) skIn
      (fun i hi => hin _ (by rw [List.getD_eq_getElem?_getD, List.getElem?_eq_getElem (by omega)]; exact List.getElem_mem _))
      xa es hes cells xa' es' h
    exact ⟨h1, hl, h2⟩

theorem auto_eq_σ (g : Int) (s : Poly) (h : ∀ x ∈ s, |x| ≤ 2 ^ 62) : znxAutomorphism g s = AutoMul.σ g s := by
  apply AutoMul.auto_w64_eq_id
  intro x hx
  have := h x hx
  rw [abs_le] at this
  constructor <;> [linarith [this.1]; linarith [this.2]]

theorem map_auto_eq_σ (g : Int) (l : List Poly) (h : ∀ s ∈ l, ∀ x ∈ s, |x| ≤ 2 ^ 62) : l.map (znxAutomorphism g) = l.map (AutoMul.σ g) := by
  apply List.map_congr_left
  intro s hs
  exact auto_eq_σ g s (h s hs)

/-- **`glwe_automorphism_key_encrypt_sk`**: the key for the Galois element `p` is well formed with `s_in = sk` under the secret
`σ_{p⁻¹}(sk)` (`p⁻¹ = galois_element_inv(p)` modulo `2n`) — `hkey` of `C03.glwe_automorphism_decrypts` with `gInv = p⁻¹` -/
theorem glweAutomorphismKey_wellformed (c : KeyCtx bits b n size kxe rank H E) (hd : 1 ≤ dsize)
    (tmp0 : Col) (htl : tmp0.length = size) (htw : WF n tmp0) (p : Int)
    (sk : List Poly) (hsk : ∀ s ∈ sk, ScalarOk n s) (hskn : ∀ g, ∀ s ∈ sk, norm1 (AutoMul.σ g s) * 2 ^ (b - 1) ≤ H)
    (xa : List Nat) (es : List Poly) (hes : ErrOk n E es (rank * dnum))
    (cells : List (Nat × List Col)) (xa' : List Nat) (es' : List Poly)
    (h : Core.glweAutomorphismKeyEncryptSk tmp0 bits b n size kxe rank dnum dsize p sk xa es = some (cells, xa', es')) :
    ∃ gInv, galoisElementInv p (2 * (n : Int)) = Outcome.ok gInv ∧ es' = es.drop (rank * dnum) ∧ sk.length = rank ∧
      KeyWellFormed n b dsize size kxe dnum rank (Core.keyMat n dnum rank (rank + 1) size cells) (sk.map (AutoMul.σ gInv))
        (fun i => ι n (sk.getD i [])) (fun i r => es.getD (i * dnum + r) []) := by
  unfold Core.glweAutomorphismKeyEncryptSk at h
  cases hg : galoisElementInv p (2 * (n : Int)) with
  | ok gInv =>
    simp only [hg] at h
    rw [map_auto_eq_σ gInv sk (fun s hs => (hsk s hs).2)] at h
    have hl : sk.length = rank := by
      unfold Core.gglweEncryptSkT at h
      split at h
      · simp at h
      · omega
    obtain ⟨h1, h2⟩ := gglweEncryptSk_wellformed c hd tmp0 htl htw (sk.map (AutoMul.σ gInv))
      (by intro s hs; simp only [List.mem_map] at hs; obtain ⟨s0, h0, rfl⟩ := hs; exact hskn gInv s0 h0) sk
      (fun i hi => hsk _ (by rw [List.getD_eq_getElem?_getD, List.getElem?_eq_getElem (by omega)]; exact List.getElem_mem _))
      xa es hes cells xa' es' h
    refine ⟨gInv, rfl, h1, hl, ?_⟩
    simpa using h2
  | err k => simp [hg] at h
  | panic k => simp [hg] at h

/-- the embedded LWE secret of the model is the consumers' `embSk` -/
theorem embedLweSecret_eq (n : Nat) (s : Poly) (hs : ∀ x ∈ s, |x| ≤ 2 ^ 62) (e : Poly) (h : Core.embedLweSecret n s = some e) :
    s.length ≤ n ∧ [e] = KsDec.embSk n s := by
  unfold Core.embedLweSecret at h
  split at h
  · simp at h
  · rename_i hl
    simp only [Option.some.injEq] at h
    have hpad : s ++ List.replicate (n - s.length) 0 = Ks.padTo n s := by
      unfold Ks.padTo; rw [List.take_of_length_le (by omega)]
    refine ⟨by omega, ?_⟩
    unfold KsDec.embSk
    rw [← h, hpad, auto_eq_σ]
    intro x hx
    unfold Ks.padTo at hx
    rcases List.mem_append.mp hx with h1 | h1
    · exact hs x (List.mem_of_mem_take h1)
    · rw [List.mem_replicate] at h1; rw [h1.2]; norm_num

/-- **`glwe_to_lwe_key_encrypt_sk`**: `s_in = sk_glwe`, under `embSk n sk_lwe` — `hkey` of `C03.glwe_to_lwe_decrypts` -/
theorem glweToLweKey_wellformed (c : KeyCtx bits b n size kxe 1 H E)
    (tmp0 : Col) (htl : tmp0.length = size) (htw : WF n tmp0)
    (skLwe : Poly) (hlwe : ∀ x ∈ skLwe, |x| ≤ 2 ^ 62) (hlwen : ∀ s ∈ KsDec.embSk n skLwe, norm1 s * 2 ^ (b - 1) ≤ H)
    (skGlwe : List Poly) (hin : ∀ s ∈ skGlwe, ScalarOk n s)
    (xa : List Nat) (es : List Poly) (hes : ErrOk n E es (rankIn * dnum))
    (cells : List (Nat × List Col)) (xa' : List Nat) (es' : List Poly)
    (h : Core.glweToLweKeyEncryptSk tmp0 bits b n size kxe rankIn dnum skLwe skGlwe xa es = some (cells, xa', es')) :
    skLwe.length ≤ n ∧ es' = es.drop (rankIn * dnum) ∧ skGlwe.length = rankIn ∧
    KeyWellFormed n b 1 size kxe dnum rankIn (Core.keyMat n dnum rankIn 2 size cells) (KsDec.embSk n skLwe)
      (fun i => ι n (skGlwe.getD i [])) (fun i r => es.getD (i * dnum + r) []) := by
  unfold Core.glweToLweKeyEncryptSk at h
  cases he : Core.embedLweSecret n skLwe with
  | none => simp [he] at h
  | some e =>
    simp only [he] at h
    obtain ⟨hl, hemb⟩ := embedLweSecret_eq n skLwe hlwe e he
    rw [hemb] at h
    have hl2 : skGlwe.length = rankIn := by
      unfold Core.gglweEncryptSkT at h
      split at h
      · simp at h
      · omega
    obtain ⟨h1, h2⟩ := gglweEncryptSk_wellformed c (le_refl 1) tmp0 htl htw (KsDec.embSk n skLwe) hlwen skGlwe
      (fun i hi => hin _ (by rw [List.getD_eq_getElem?_getD, List.getElem?_eq_getElem (by omega)]; exact List.getElem_mem _))
      xa es hes cells xa' es' h
    exact ⟨hl, h1, hl2, h2⟩

/-- **`lwe_to_glwe_key_encrypt_sk`**: `s_in = embSk n sk_lwe`, under `sk_glwe` -/
theorem lweToGlweKey_wellformed (c : KeyCtx bits b n size kxe rankOut H E)
    (tmp0 : Col) (htl : tmp0.length = size) (htw : WF n tmp0)
    (skLwe : Poly) (hlwe : ∀ x ∈ skLwe, |x| ≤ 2 ^ 62)
    (skGlwe : List Poly) (hout : ∀ s ∈ skGlwe, norm1 s * 2 ^ (b - 1) ≤ H)
    (xa : List Nat) (es : List Poly) (hes : ErrOk n E es (1 * dnum))
    (cells : List (Nat × List Col)) (xa' : List Nat) (es' : List Poly)
    (h : Core.lweToGlweKeyEncryptSk tmp0 bits b n size kxe rankOut dnum skLwe skGlwe xa es = some (cells, xa', es')) :
    skLwe.length ≤ n ∧ es' = es.drop (1 * dnum) ∧
    KeyWellFormed n b 1 size kxe dnum 1 (Core.keyMat n dnum 1 (rankOut + 1) size cells) skGlwe
      (fun i => ι n ((KsDec.embSk n skLwe).getD i [])) (fun i r => es.getD (i * dnum + r) []) := by
  unfold Core.lweToGlweKeyEncryptSk at h
  cases he : Core.embedLweSecret n skLwe with
  | none => simp [he] at h
  | some e =>
    simp only [he] at h
    obtain ⟨hl, hemb⟩ := embedLweSecret_eq n skLwe hlwe e he
    rw [hemb] at h
    have hsc : ∀ i, i < 1 → ScalarOk n ((KsDec.embSk n skLwe).getD i []) := by
      intro i hi
      have : i = 0 := by omega
      subst this
      unfold KsDec.embSk
      simp only [List.getD_cons_zero]
      refine ⟨by rw [AutoMul.σ_length]; unfold Ks.padTo; simp; omega, ?_⟩
      have hneg : NegOn id (fun x : Int => |x| ≤ 2 ^ 62) :=
        ⟨fun x _ => by simp, fun x hx => by simpa using hx, by norm_num, rfl⟩
      exact auto_allP hneg (-1) _ (by
        intro y hy
        unfold Ks.padTo at hy
        rcases List.mem_append.mp hy with h1 | h1
        · exact hlwe y (List.mem_of_mem_take h1)
        · rw [List.mem_replicate] at h1; rw [h1.2]; norm_num)
    obtain ⟨h1, h2⟩ := gglweEncryptSk_wellformed c (le_refl 1) tmp0 htl htw skGlwe hout (KsDec.embSk n skLwe) hsc
      xa es hes cells xa' es' h
    exact ⟨hl, h1, h2⟩

theorem embSk_scalarOk (n : Nat) (s : Poly) (hl : s.length ≤ n) (hs : ∀ x ∈ s, |x| ≤ 2 ^ 62) : ∀ e ∈ KsDec.embSk n s, ScalarOk n e := by
  intro e he
  unfold KsDec.embSk at he
  simp only [List.mem_singleton] at he
  subst he
  refine ⟨by rw [AutoMul.σ_length]; unfold Ks.padTo; simp; omega, ?_⟩
  have hneg : NegOn id (fun x : Int => |x| ≤ 2 ^ 62) :=
    ⟨fun x _ => by simp, fun x hx => by simpa using hx, by norm_num, rfl⟩
  exact auto_allP hneg (-1) _ (by
    intro y hy
    unfold Ks.padTo at hy
    rcases List.mem_append.mp hy with h1 | h1
    · exact hs y (List.mem_of_mem_take h1)
    · rw [List.mem_replicate] at h1; rw [h1.2]; norm_num)

/-- **`lwe_switching_key_encrypt_sk`**: `s_in = embSk n sk_lwe_in` under `embSk n sk_lwe_out` — each LWE secret embedded with ITS OWN
dimension (zero-padded from `n_lwe_in`, resp. `n_lwe_out`, to `n`) — `hkey` of `C03.lwe_keyswitch_decrypts` (`KsSide … (embSk n sIn) (embSk n sOut)`) -/
theorem lweSwitchingKey_wellformed (c : KeyCtx bits b n size kxe 1 H E)
    (tmp0 : Col) (htl : tmp0.length = size) (htw : WF n tmp0)
    (skIn skOut : Poly) (hin : ∀ x ∈ skIn, |x| ≤ 2 ^ 62) (hout : ∀ x ∈ skOut, |x| ≤ 2 ^ 62)
    (houtn : ∀ s ∈ KsDec.embSk n skOut, norm1 s * 2 ^ (b - 1) ≤ H)
    (xa : List Nat) (es : List Poly) (hes : ErrOk n E es (1 * dnum))
    (cells : List (Nat × List Col)) (xa' : List Nat) (es' : List Poly)
    (h : Core.lweSwitchingKeyEncryptSk tmp0 bits b n size kxe dnum skIn skOut xa es = some (cells, xa', es')) :
    skIn.length ≤ n ∧ skOut.length ≤ n ∧ es' = es.drop (1 * dnum) ∧
    KeyWellFormed n b 1 size kxe dnum 1 (Core.keyMat n dnum 1 2 size cells) (KsDec.embSk n skOut)
      (fun i => ι n ((KsDec.embSk n skIn).getD i [])) (fun i r => es.getD (i * dnum + r) []) := by
  unfold Core.lweSwitchingKeyEncryptSk at h
  cases he1 : Core.embedLweSecret n skIn with
  | none => simp [he1] at h
  | some e1 =>
    cases he2 : Core.embedLweSecret n skOut with
    | none => simp [he1, he2] at h
    | some e2 =>
      simp only [he1, he2] at h
      obtain ⟨hl1, hemb1⟩ := embedLweSecret_eq n skIn hin e1 he1
      obtain ⟨hl2, hemb2⟩ := embedLweSecret_eq n skOut hout e2 he2
      rw [hemb1, hemb2] at h
      obtain ⟨h1, _, h3⟩ := glweSwitchingKey_wellformed c (le_refl 1) tmp0 htl htw (KsDec.embSk n skIn) (KsDec.embSk n skOut)
        (embSk_scalarOk n skIn hl1 hin) (fun s hs => ⟨(embSk_scalarOk n skOut hl2 hout s hs).1, houtn s hs⟩) xa es hes cells xa' es' h
      exact ⟨hl1, hl2, h1, h3⟩

/-! ### tensor secret -/

/-- the pairs `(i, j)`, `i ≤ j < rank`, in the order of `glwe_secret_tensor_prepare` (row-major upper triangle) -/
def tensorPairs (rank : Nat) : List (Nat × Nat) :=
  (List.range rank).flatMap (fun i => ((List.range rank).drop i).map (fun j => (i, j)))

/-- one entry of the tensor secret: the product normalised to one limb of radix `2^17` -/
theorem tensorSecret_entries {bits n : Nat} {Hp : Int} (hbits : bits = 64 ∨ bits = 128) (hr : HeadRoom bits 17 0 Hp)
    (sk : List Poly) (hprod : ∀ i j, ∀ x ∈ Hal.negMul (sk.getD j []) (sk.getD i []), |x| ≤ Hp)
    (pts : List Poly) (h : Core.tensorSecret bits n sk = some pts) :
    pts.length = (tensorPairs sk.length).length ∧
    ∀ (k : Nat) (ij : Nat × Nat), (tensorPairs sk.length)[k]? = some ij →
      ScalarOk n (pts.getD k []) ∧
      ((∀ x ∈ Hal.negMul (sk.getD ij.2 []) (sk.getD ij.1 []), |x| < 2 ^ 16) → (Hal.negMul (sk.getD ij.2 []) (sk.getD ij.1 [])).length = n →
        pts.getD k [] = Hal.negMul (sk.getD ij.2 []) (sk.getD ij.1 [])) := by
  obtain ⟨hl, hg⟩ := mapM_some_get _ _ pts h
  refine ⟨hl, ?_⟩
  intro k ij hk
  obtain ⟨y, hy1, hy2⟩ := hg k ij hk
  rw [bigNormalize_eq bits 17 1 n hbits] at hy1
  simp only [Option.map_some, Option.some.injEq] at hy1
  have hpk : pts.getD k [] = y := by rw [List.getD_eq_getElem?_getD, hy2]; rfl
  rw [hpk, ← hy1]
  set P := Hal.negMul (sk.getD ij.2 []) (sk.getD ij.1 []) with hP
  have hin : ∀ t, ∀ x ∈ coefAt [P] t, |x| ≤ Hp := by
    intro t x hx
    simp only [coefAt, List.map_cons, List.map_nil, List.mem_singleton] at hx
    rw [hx, List.getD_eq_getElem?_getD]
    cases hq : P[t]? with
    | none => simpa using hr.hH0
    | some v => exact hprod ij.1 ij.2 v (List.mem_of_getElem? hq)
  have hentry : ∀ t, t < n → ((mapCoefs n 1 (fun i => normOut bits 17 1 (coefAt [P] i))).getD 0 []).getD t 0
      = (normOut bits 17 1 (coefAt [P] t)).getD 0 0 := by
    intro t ht
    simp [mapCoefs, ofCoefs, List.getD_eq_getElem?_getD, ht]
  have hlen : ((mapCoefs n 1 (fun i => normOut bits 17 1 (coefAt [P] i))).getD 0 []).length = n := by
    simp [mapCoefs, ofCoefs]
  refine ⟨⟨hlen, ?_⟩, ?_⟩
  · intro x hx
    obtain ⟨t, ht, rfl⟩ := List.getElem_of_mem hx
    rw [hlen] at ht
    have e := hentry t ht
    rw [List.getD_eq_getElem?_getD, List.getElem?_eq_getElem (by rw [hlen]; exact ht)] at e
    simp only [Option.getD_some] at e
    rw [e]
    obtain ⟨o1, o2, _, _⟩ := normOut_spec hbits hr (by norm_num) 1 (coefAt [P] t) (hin t)
    have hm : (normOut bits 17 1 (coefAt [P] t)).getD 0 0 ∈ normOut bits 17 1 (coefAt [P] t) := by
      rw [List.getD_eq_getElem?_getD, List.getElem?_eq_getElem (by rw [o1]; norm_num)]; exact List.getElem_mem _
    have hb := o2 _ hm
    unfold Balanced at hb
    rw [abs_le]
    norm_num at hb ⊢
    constructor <;> linarith [hb.1, hb.2]
  · intro hsmall hPl
    apply List.ext_getElem (by rw [hlen, hPl])
    intro t h1 h2
    rw [hlen] at h1
    have e := hentry t h1
    rw [List.getD_eq_getElem?_getD, List.getElem?_eq_getElem (by rw [hlen]; exact h1)] at e
    simp only [Option.getD_some] at e
    rw [e]
    obtain ⟨o1, o2, _, o4⟩ := normOut_spec hbits hr (by norm_num) 1 (coefAt [P] t) (hin t)
    have hc : coefAt [P] t = [P[t]] := by
      simp [coefAt, List.getD_eq_getElem?_getD, List.getElem?_eq_getElem h2]
    obtain ⟨d, hd⟩ : ∃ d, normOut bits 17 1 (coefAt [P] t) = [d] := by
      match hno : normOut bits 17 1 (coefAt [P] t), o1 with
      | [d], _ => exact ⟨d, rfl⟩
    have hbal := o2 d (by rw [hd]; simp)
    obtain ⟨kk, hkk⟩ := o4 (by rw [hc]; simp)
    rw [hd, hc] at hkk
    simp only [valI, List.length_cons, List.length_nil, mul_zero, pow_zero, mul_one, List.length_singleton, zero_mul, zero_add] at hkk
    rw [hd]
    simp only [List.getD_cons_zero]
    have hx := hsmall P[t] (List.getElem_mem _)
    unfold Balanced at hbal
    rw [abs_lt] at hx
    norm_num at hkk hbal hx ⊢
    omega

/-! ### keys made of several matrices: blind-rotation key, GGLWE→GGSW key -/

/-- **`blind_rotation_key_encrypt_sk`** (standard and block-binary): the `i`-th element is a well-formed GGSW of the constant
polynomial `sk_lwe[i]` under `sk_glwe`, with the errors `i·dnum·(rank+1) …` of the running error source — `hkey` of `C04.ep_decrypts`
for every CMUX of `C14`/`C15`'s blind rotation (`m2 = ι [sk_lwe[i], 0, …]`, `σ_0 = 1`, `σ_{c+1} = ι s_c`) -/
theorem blindRotationKey_wellformed (c : KeyCtx bits b n size kxe rank H E)
    (tmp0 : Col) (htl : tmp0.length = size) (htw : WF n tmp0)
    (sk : List Poly) (hsk : ∀ s ∈ sk, norm1 s * 2 ^ (b - 1) ≤ H) :
    ∀ (skLwe : List Int) (hlwe : ∀ x ∈ skLwe, |x| ≤ 2 ^ 62) (xa : List Nat) (es : List Poly)
      (hes : ErrOk n E es (skLwe.length * (dnum * (rank + 1))))
      (out : List (List (Nat × List Col))) (xa' : List Nat) (es' : List Poly),
      Core.brkStdLoop tmp0 bits b n size kxe rank dnum sk skLwe xa es = some (out, xa', es') →
      out.length = skLwe.length ∧ es' = es.drop (skLwe.length * (dnum * (rank + 1))) ∧
      ∀ (i : Nat) (si : Int), skLwe[i]? = some si → ∃ cells, out[i]? = some cells ∧
        KeyWellFormed n b 1 size kxe dnum (rank + 1) (Core.keyMat n dnum (rank + 1) (rank + 1) size cells) sk
          (fun j => (if j = 0 then 1 else ι n (sk.getD (j - 1) [])) * ι n (si :: List.replicate (n - 1) 0))
          (fun j r => es.getD (i * (dnum * (rank + 1)) + (r * (rank + 1) + j)) []) := by
  intro skLwe
  induction skLwe with
  | nil =>
    intro _ xa es _ out xa' es' h
    simp only [Core.brkStdLoop, Option.some.injEq, Prod.mk.injEq] at h
    obtain ⟨rfl, _, rfl⟩ := h
    simp
  | cons s0 rest ih =>
    intro hlwe xa es hes out xa' es' h
    unfold Core.brkStdLoop at h
    cases hg : Core.ggswEncryptSkT tmp0 bits b n size kxe rank dnum 1 (s0 :: List.replicate (n - 1) 0) sk xa es with
    | none => simp [hg] at h
    | some q =>
      obtain ⟨cells, xa1, es1⟩ := q
      simp only [hg] at h
      cases hr : Core.brkStdLoop tmp0 bits b n size kxe rank dnum sk rest xa1 es1 with
      | none => simp [hr] at h
      | some q2 =>
        obtain ⟨out2, xa2, es2⟩ := q2
        simp only [hr, Option.some.injEq, Prod.mk.injEq] at h
        obtain ⟨rfl, rfl, rfl⟩ := h
        have hC : dnum * (rank + 1) ≤ (s0 :: rest).length * (dnum * (rank + 1)) := by
          simp only [List.length_cons]; rw [Nat.succ_mul]; omega
        have hpt : ScalarOk n (s0 :: List.replicate (n - 1) 0) := by
          refine ⟨by simp; have := c.hn; omega, ?_⟩
          intro x hx
          rcases List.mem_cons.mp hx with rfl | hx
          · exact hlwe _ (by simp)
          · rw [List.mem_replicate] at hx; rw [hx.2]; norm_num
        obtain ⟨hd1, hw1⟩ := ggswEncryptSk_wellformed c (le_refl 1) tmp0 htl htw sk hsk _ hpt xa es
          (fun k hk => hes k (by omega)) cells xa1 es1 hg
        obtain ⟨i1, i2, i3⟩ := ih (fun x hx => hlwe x (by simp [hx])) xa1 es1 (by
          intro k hk
          rw [hd1]
          have := hes (dnum * (rank + 1) + k) (by simp only [List.length_cons]; rw [Nat.succ_mul]; omega)
          simpa [List.getD_eq_getElem?_getD, List.getElem?_drop] using this) out2 xa2 es2 hr
        refine ⟨by simp [i1], ?_, ?_⟩
        · rw [i2, hd1, List.drop_drop]; congr 1; simp only [List.length_cons]; rw [Nat.succ_mul]; omega
        · intro i si hi
          cases i with
          | zero =>
            simp only [List.getElem?_cons_zero, Option.some.injEq] at hi
            subst hi
            refine ⟨cells, by simp, ?_⟩
            simpa using hw1
          | succ j =>
            simp only [List.getElem?_cons_succ] at hi
            obtain ⟨cs, h1, h2⟩ := i3 j si hi
            refine ⟨cs, by simpa using h1, ?_⟩
            have e : ∀ (jj r : Nat), es1.getD (j * (dnum * (rank + 1)) + (r * (rank + 1) + jj)) []
                = es.getD ((j + 1) * (dnum * (rank + 1)) + (r * (rank + 1) + jj)) [] := by
              intro jj r
              rw [hd1]
              simp only [List.getD_eq_getElem?_getD, List.getElem?_drop]
              congr 2
              rw [Nat.succ_mul]; omega
            simpa only [e] using h2

end

end CoreEnc
