import Poulpy.Lemmas.NttHal

/-!
The lazy range invariant of the NTT120 DFT domain over arbitrary sequences of HAL operations.

`Reach P k j avx x`: the `u64` value `x` can be stored in lane `k` of a DFT-domain buffer of ring
degree `2^j` after *some* finite sequence of HAL operations — `vec_znx_dft_zero` / zero fill,
`vec_znx_dft_apply` (any output of the forward transform), the `bbc` products (`svp_apply`, `vmp_apply`,
`cnv_apply`), and the lazy `vec_znx_dft_add / sub / negate` family (all in-place and three-operand forms
are these three kernels) applied to reachable values; `avx` selects the AVX2 kernels (one conditional
subtraction) or the reference kernels (`% Q_SHIFTED`).

`reach_lt`: every reachable value is below `2·Q_SHIFTED[k]`.  Hence (`reach_avx_eq_ref`,
`reach_avx_iff`) the AVX2 lazy kernels never see an operand outside the range on which they coincide
with the reference kernels: on every state the HAL can produce the two back ends store the same bits.
-/

namespace Ntt120

inductive Reach (P : PrimeSet) (k j : Nat) (avx : Bool) : Nat → Prop
  | zero : Reach P k j avx 0
  | dft (x : Nat) : x ≤ fwdFinal P k j → Reach P k j avx x
  | prod (x : Nat) : x ≤ 2 ^ 63 + 2 ^ 47 → Reach P k j avx x
  | add (a b : Nat) : Reach P k j avx a → Reach P k j avx b →
      Reach P k j avx (if avx then addBbbAvxK (P.qs.getD k 1) a b else addBbbK (P.qs.getD k 1) a b)
  | sub (a b : Nat) : Reach P k j avx a → Reach P k j avx b →
      Reach P k j avx (if avx then subBbbAvxK (P.qs.getD k 1) a b else subBbbK (P.qs.getD k 1) a b)
  | neg (a : Nat) : Reach P k j avx a →
      Reach P k j avx (if avx then negBAvxK (P.qs.getD k 1) a else negBK (P.qs.getD k 1) a)

/-- the closed facts of a lane needed by the invariant (true of Primes30 for all sizes: `primes30_reachFacts`) -/
structure ReachFacts (P : PrimeSet) (k j : Nat) : Prop where
  q_gt : 2 ^ 29 + 2 ^ 13 < P.qs.getD k 1
  q_lt : P.qs.getD k 1 < 2 ^ 30
  fwd_lt : fwdFinal P k j < 2 * (P.qs.getD k 1 * 2 ^ 33)

theorem lazyReduceAvx_lt (q x : Nat) (hq0 : 0 < q) (hq : q < 2 ^ 30) (hx : x < 2 * (q * 2 ^ 33)) :
    lazyReduceAvx q x < q * 2 ^ 33 := by
  rw [lazyReduceAvx_eq q x hq0 hq hx, qShifted_eq q (by omega)]
  exact Nat.mod_lt _ (by omega)

/-- **every residue the HAL can store is below `2·Q_SHIFTED`**, reference and AVX2 kernels alike -/
theorem reach_lt (P : PrimeSet) (k j : Nat) (avx : Bool) (f : ReachFacts P k j) (x : Nat) (h : Reach P k j avx x) :
    x < 2 * (P.qs.getD k 1 * 2 ^ 33) := by
  have hq1 := f.q_gt
  have hq2 := f.q_lt
  induction h with
  | zero => omega
  | dft x hx => have := f.fwd_lt; omega
  | prod x hx => omega
  | add a b _ _ iha ihb =>
    cases avx with
    | false => simp only [Bool.false_eq_true, if_false]; exact (addBbbK_spec (P.qs.getD k 1) a b (by omega) hq2).2.1
    | true =>
      simp only [if_true]
      have la := lazyReduceAvx_lt (P.qs.getD k 1) a (by omega) hq2 iha
      have lb := lazyReduceAvx_lt (P.qs.getD k 1) b (by omega) hq2 ihb
      unfold addBbbAvxK
      rw [wu64_of_lt _ (by omega)]; omega
  | sub a b _ _ iha ihb =>
    cases avx with
    | false => simp only [Bool.false_eq_true, if_false]; exact (subBbbK_spec (P.qs.getD k 1) a b (by omega) hq2).2.1
    | true =>
      simp only [if_true]
      rw [subBbbAvxK_eq (P.qs.getD k 1) a b (by omega) hq2 iha ihb]
      exact (subBbbK_spec (P.qs.getD k 1) a b (by omega) hq2).2.1
  | neg a _ iha =>
    cases avx with
    | false =>
      simp only [Bool.false_eq_true, if_false]
      have := (negBK_spec (P.qs.getD k 1) a (by omega) hq2).2.2.1; omega
    | true =>
      simp only [if_true]
      rw [negBAvxK_eq (P.qs.getD k 1) a (by omega) hq2 iha]
      have := (negBK_spec (P.qs.getD k 1) a (by omega) hq2).2.2.1; omega

/-- on reachable operands the AVX2 lazy kernels are the reference kernels, bit for bit -/
theorem reach_avx_eq_ref (P : PrimeSet) (k j : Nat) (avx : Bool) (f : ReachFacts P k j) (a b : Nat)
    (ha : Reach P k j avx a) (hb : Reach P k j avx b) :
    addBbbAvxK (P.qs.getD k 1) a b = addBbbK (P.qs.getD k 1) a b ∧ subBbbAvxK (P.qs.getD k 1) a b = subBbbK (P.qs.getD k 1) a b ∧
    negBAvxK (P.qs.getD k 1) a = negBK (P.qs.getD k 1) a := by
  have hq1 := f.q_gt
  have la := reach_lt P k j avx f a ha
  have lb := reach_lt P k j avx f b hb
  exact ⟨addBbbAvxK_eq _ a b (by omega) f.q_lt la lb, subBbbAvxK_eq _ a b (by omega) f.q_lt la lb, negBAvxK_eq _ a (by omega) f.q_lt la⟩

/-- the two back ends reach exactly the same stored values -/
theorem reach_avx_iff (P : PrimeSet) (k j : Nat) (f : ReachFacts P k j) (x : Nat) : Reach P k j true x ↔ Reach P k j false x := by
  constructor
  · intro h
    induction h with
    | zero => exact Reach.zero
    | dft x hx => exact Reach.dft x hx
    | prod x hx => exact Reach.prod x hx
    | add a b ha hb iha ihb =>
      have := (reach_avx_eq_ref P k j true f a b ha hb).1
      simp only [if_true]; rw [this]
      have := Reach.add (avx := false) a b iha ihb
      simpa using this
    | sub a b ha hb iha ihb =>
      have := (reach_avx_eq_ref P k j true f a b ha hb).2.1
      simp only [if_true]; rw [this]
      have := Reach.sub (avx := false) a b iha ihb
      simpa using this
    | neg a ha iha =>
      have := (reach_avx_eq_ref P k j true f a a ha ha).2.2
      simp only [if_true]; rw [this]
      have := Reach.neg (avx := false) a iha
      simpa using this
  · intro h
    induction h with
    | zero => exact Reach.zero
    | dft x hx => exact Reach.dft x hx
    | prod x hx => exact Reach.prod x hx
    | add a b _ _ iha ihb =>
      have := (reach_avx_eq_ref P k j true f a b iha ihb).1
      simp only [Bool.false_eq_true, if_false]; rw [← this]
      have := Reach.add (avx := true) a b iha ihb
      simpa using this
    | sub a b _ _ iha ihb =>
      have := (reach_avx_eq_ref P k j true f a b iha ihb).2.1
      simp only [Bool.false_eq_true, if_false]; rw [← this]
      have := Reach.sub (avx := true) a b iha ihb
      simpa using this
    | neg a _ iha =>
      have := (reach_avx_eq_ref P k j true f a a iha iha).2.2
      simp only [Bool.false_eq_true, if_false]; rw [← this]
      have := Reach.neg (avx := true) a iha
      simpa using this

/-- Primes30: the facts hold for all four lanes and all sixteen sizes -/
theorem primes30_reachFacts (k j : Nat) (hk : k < 4) (hj1 : 1 ≤ j) (hj : j ≤ 16) : ReachFacts primes30 k j := by
  have a : ∀ k, k < 4 → (2 ^ 29 + 2 ^ 13 < primes30.qs.getD k 1 ∧ primes30.qs.getD k 1 < 2 ^ 30) := by decide +kernel
  exact ⟨(a k hk).1, (a k hk).2, (primes30_transform_ranges k hk j (by omega) hj1).1⟩

end Ntt120
