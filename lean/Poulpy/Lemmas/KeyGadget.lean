/-
Key generation as encryption, part 3: the gadget plaintext `tmp_pt` (scalar on limb `(dsize−1) + row·dsize`, normalised in place):
shape, balanced limbs, value `s · 2^(b·(size − (row+1)·dsize))` modulo `2^(b·size)`.
-/
import Poulpy.Lemmas.KeyCellR
import Poulpy.Lemmas.CoreCmpT

namespace CoreEnc
open NormL Ks

theorem valI_cons' (b : Nat) (x : Int) (l : List Int) : valI b (x :: l) = x * 2 ^ (b * l.length) + valI b l := by
  simp [valI]

theorem valI_set_zero (b size limb : Nat) (x : Int) (h : limb < size) :
    valI b ((List.replicate size (0 : Int)).set limb x) = x * 2 ^ (b * (size - 1 - limb)) := by
  have e : (List.replicate size (0 : Int)).set limb x = List.replicate limb 0 ++ x :: List.replicate (size - 1 - limb) 0 := by
    apply List.ext_getElem
    · simp; omega
    · intro i h1 h2
      simp only [List.length_set, List.length_replicate] at h1
      rw [List.getElem_set]
      by_cases hi : limb = i
      · subst hi; simp
      · rw [if_neg hi, List.getElem_replicate]
        by_cases hlt : i < limb
        · rw [List.getElem_append_left (by simpa using hlt)]; simp
        · rw [List.getElem_append_right (by simp; omega)]
          simp only [List.length_replicate]
          have : i - limb = (i - limb - 1) + 1 := by omega
          rw [List.getElem_cons, dif_neg (by omega)]
          simp
  rw [e, valI_append, valI_replicate_zero, valI_cons', valI_replicate_zero]
  simp

/-- **the gadget plaintext**: for a scalar with `n` coefficients of magnitude at most `2^62` (secrets, products of secrets, caller
scalars), `tmp_pt` has `size` balanced limbs of `n` coefficients, and its value is the scalar at weight `2^(b·(size−(row+1)·dsize))`
modulo `2^(b·size)` (the carry out of the top limb of `vec_znx_normalize_assign` is dropped). -/
theorem gadgetPt_value {b n size dsize row : Nat} (hb1 : 1 ≤ b) (hb : b ≤ 61) (hd : 1 ≤ dsize) (s : Poly) (hs : s.length = n)
    (hsB : ∀ x ∈ s, |x| ≤ 2 ^ 62) (p : Col) (h : Core.gadgetPt b n size dsize row s = some p) :
    p.length = size ∧ WF n p ∧ Bounded (2 ^ (b - 1)) p ∧ (row + 1) * dsize ≤ size ∧
    ∃ K : Poly, K.length = n ∧
      ι n (valPoly b n p) = ι n s * (((2 : Int) ^ (b * (size - (row + 1) * dsize)) : Int) : R n)
        + (((2 : Int) ^ (b * size) : Int) : R n) * ι n K := by
  have hr := headRoom64 hb1 hb
  obtain ⟨pl, pw⟩ := gadgetPt_shape h
  unfold Core.gadgetPt at h
  simp only at h
  by_cases hc : dsize - 1 + row * dsize < size
  · rw [if_pos hc] at h
    simp only [Option.some.injEq] at h
    set limb := dsize - 1 + row * dsize with hlimb
    set raw := (Core.zeroCol n size).set limb (s.map (fun x => w64 (0 + x))) with hraw
    have hsid : s.map (fun x => w64 (0 + x)) = s := by
      apply List.ext_getElem (by simp)
      intro i h1 h2
      simp only [List.getElem_map, zero_add]
      apply w64_id
      have := hsB s[i] (List.getElem_mem _)
      have h63 : (2 : Int) ^ 62 < 2 ^ 63 := by norm_num
      linarith
    rw [hsid] at hraw
    have hrawlen : raw.length = size := by simp [hraw, Core.zeroCol]
    have hcoef : ∀ t, t < n → coefAt raw t = (List.replicate size (0 : Int)).set limb (s.getD t 0) := by
      intro t ht
      have := coefAt_zeroCol n size t
      simp only [coefAt] at this ⊢
      rw [hraw, List.map_set, this]
    have hrawB : ∀ t, t < n → ∀ x ∈ coefAt raw t, |x| ≤ 2 ^ 62 := by
      intro t ht x hx
      rw [hcoef t ht] at hx
      rcases List.mem_or_eq_of_mem_set hx with h1 | h1
      · simp at h1; rw [h1.2]; norm_num
      · rw [h1, List.getD_eq_getElem?_getD, List.getElem?_eq_getElem (by omega)]
        exact hsB _ (List.getElem_mem _)
    have hlenN : ∀ t, t < n → (normalizeAssignCoef b (coefAt raw t)).length = raw.length := by
      intro t ht
      rw [(normAssign_value hr _ (hrawB t ht)).1, coefAt_length]
    have e1 : size - 1 - limb = size - (row + 1) * dsize := by
      rw [hlimb, Nat.succ_mul]; omega
    refine ⟨pl, pw, ?_, by rw [Nat.succ_mul]; omega, ?_⟩
    · rw [← h]
      unfold normalizeAssignCol
      apply bounded_of_coef (mapCoefs_WF _ _ _)
      intro t ht v hv
      rw [coefAt_mapCoefs n raw.length _ t ht (hlenN t ht)] at hv
      have hbal := (normAssign_value hr _ (hrawB t ht)).2.1 v hv
      unfold Balanced at hbal
      rw [abs_le]; constructor <;> linarith [hbal.1, hbal.2]
    · obtain ⟨K, hK, hι⟩ := ι_of_cong (n := n) (M := 2 ^ (b * size)) (pow_ne_zero _ (by norm_num)) (valPoly b n p)
        (Hal.polyScale (2 ^ (b * (size - (row + 1) * dsize))) s) (by simp) (by simp [Hal.polyScale, hs])
        (by
          intro t ht
          obtain ⟨k, hk⟩ := torusEq_same (normAssign_value hr _ (hrawB t ht)).2.2
          refine ⟨k, ?_⟩
          rw [valPoly_getD b n _ t ht, polyScale_getD, ← h]
          unfold normalizeAssignCol
          rw [coefAt_mapCoefs n raw.length _ t ht (hlenN t ht), hk, hcoef t ht, valI_set_zero b size limb _ hc, e1]
          simp [hrawlen]
          ring)
      refine ⟨K, hK, ?_⟩
      rw [hι, ι_polyScale]
      ring
  · rw [if_neg hc] at h; simp at h

end CoreEnc
