import Poulpy.Lemmas.BytesWrap
/-
Per-reader instances of the closure lemmas (one per wrapper reader of Model/Bytes.lean and per fact),
and evaluation lemmas used by the round-trip statements.  Consumed by Props/C18.lean.
-/
namespace Ser
variable {L : List Nat} {M : Nat}

theorem readU64_le {σ β : Type} (v : Nat) (h : v < 2 ^ 64) (f : Nat → Rd σ β) (s : σ) (rest : Bytes) :
    (readU64 >>= f) s (leBytes 8 v ++ rest) = f v s rest := by
  have hl : ¬ (leBytes 8 v ++ rest).length < 8 := by simp [leBytes_length]
  rw [readU64_bind, take8_le v rest h, drop8_le, if_neg hl]
theorem readU32_le {σ β : Type} (v : Nat) (h : v < 2 ^ 32) (f : Nat → Rd σ β) (s : σ) (rest : Bytes) :
    (readU32 >>= f) s (leBytes 4 v ++ rest) = f v s rest := by
  have hl : ¬ (leBytes 4 v ++ rest).length < 4 := by simp [leBytes_length]
  rw [readU32_bind, take4_le v rest h, drop4_le, if_neg hl]
theorem or_add (t pl : Nat) (h : pl < 2 ^ 56) : t * 2 ^ 56 ||| pl = t * 2 ^ 56 + pl := by
  rw [Nat.mul_comm]; exact (Nat.two_pow_add_eq_or_of_lt h t).symm
/-- `Distribution::read_from` on a stream starting with the word `w` -/
theorem readDist_eval (w : Nat) (hw : w < 2 ^ 64) (tail : Bytes) :
    readDistAt 0 ⟨[9, 9], [], [], 0⟩ (leBytes 8 w ++ tail) =
      (if w / 2 ^ 56 = 0 ∨ w / 2 ^ 56 = 2 ∨ w / 2 ^ 56 = 4 then (.ok () ⟨[w / 2 ^ 56, w % 2 ^ 56], [], [], 0⟩ tail : Res St Unit)
       else if w / 2 ^ 56 = 1 ∨ w / 2 ^ 56 = 3 then .ok () ⟨[w / 2 ^ 56, w % 2 ^ 56 * 256 % 2 ^ 64], [], [], 0⟩ tail
       else if w / 2 ^ 56 = 5 ∨ w / 2 ^ 56 = 6 then .ok () ⟨[w / 2 ^ 56, 0], [], [], 0⟩ tail
       else .err "invalid" ⟨[9, 9], [], [], 0⟩) := by
  unfold readDistAt
  rw [readU64_le w hw]
  by_cases h0 : w / 2 ^ 56 = 0 ∨ w / 2 ^ 56 = 2 ∨ w / 2 ^ 56 = 4
  · simp only [h0, if_true]; rfl
  · by_cases h1 : w / 2 ^ 56 = 1 ∨ w / 2 ^ 56 = 3
    · simp only [h0, h1, if_true, if_false]; rfl
    · by_cases h5 : w / 2 ^ 56 = 5 ∨ w / 2 ^ 56 = 6
      · simp only [h0, h1, h5, if_true, if_false]; rfl
      · simp only [h0, h1, h5, if_false]; rfl
theorem pres_rGLWE (c : Cur) : Pres (Keep L M) (rGLWE c) := by unfold rGLWE readVecAt; repeat' rd_step
theorem pres_rGGLWE (c : Cur) : Pres (Keep L M) (rGGLWE c) := by unfold rGGLWE readMatAt; repeat' rd_step
theorem pres_rGLWESwitchingKey (c : Cur) : Pres (Keep L M) (rGLWESwitchingKey c) := by
  unfold rGLWESwitchingKey
  exact pres_bind pres_readU32 (fun _ => pres_bind (pres_setF _ _) (fun _ => pres_bind pres_readU32 (fun _ => pres_bind (pres_setF _ _) (fun _ => pres_rGGLWE _))))
theorem pres_rGLWEAutomorphismKey (c : Cur) : Pres (Keep L M) (rGLWEAutomorphismKey c) := by
  unfold rGLWEAutomorphismKey
  exact pres_bind pres_readU64 (fun _ => pres_bind (pres_setF _ _) (fun _ => pres_rGGLWE _))
theorem pres_readDistAt (i : Nat) : Pres (Keep L M) (readDistAt i) := by unfold readDistAt; repeat' rd_step
theorem pres_rGLWEPublicKey (c : Cur) : Pres (Keep L M) (rGLWEPublicKey c) := by
  unfold rGLWEPublicKey; exact pres_bind (pres_readDistAt _) (fun _ => pres_rGLWE _)
theorem pres_rGLWECompressed (c : Cur) : Pres (Keep L M) (rGLWECompressed c) := by
  unfold rGLWECompressed readVecAt; repeat' rd_step
theorem pres_rGGLWECompressed (c : Cur) : Pres (Keep L M) (rGGLWECompressed c) := by
  unfold rGGLWECompressed readMatAt; repeat' rd_step
theorem pres_rGLWESwitchingKeyCompressed (c : Cur) : Pres (Keep L M) (rGLWESwitchingKeyCompressed c) := by
  unfold rGLWESwitchingKeyCompressed
  exact pres_bind pres_readU32 (fun _ => pres_bind (pres_setF _ _) (fun _ => pres_bind pres_readU32 (fun _ => pres_bind (pres_setF _ _) (fun _ => pres_rGGLWECompressed _))))
theorem pres_rGLWEAutomorphismKeyCompressed (c : Cur) : Pres (Keep L M) (rGLWEAutomorphismKeyCompressed c) := by
  unfold rGLWEAutomorphismKeyCompressed
  exact pres_bind pres_readU64 (fun _ => pres_bind (pres_setF _ _) (fun _ => pres_rGGLWECompressed _))
theorem pres_rBlindRotationKey (c : Cur) : Pres (Keep L M) (rBlindRotationKey c) := by
  unfold rBlindRotationKey
  exact pres_bind (pres_readDistAt _) (fun _ => pres_rKeys (fun c => pres_rGGLWE c) _)
theorem pres_rBlindRotationKeyCompressed (c : Cur) : Pres (Keep L M) (rBlindRotationKeyCompressed c) := by
  unfold rBlindRotationKeyCompressed
  exact pres_bind (pres_readDistAt _) (fun _ => pres_rKeys (fun c => pres_rGGLWECompressed c) _)
theorem pres_readVecAt (i : Nat) : Pres (Keep L M) (readVecAt i) := pres_onLeaf clean_liftVec _
theorem pres_readScalarAt (i : Nat) : Pres (Keep L M) (readScalarAt i) := pres_onLeaf clean_liftScalar _
theorem pres_readMatAt (i : Nat) : Pres (Keep L M) (readMatAt i) := pres_onLeaf clean_liftMat _
theorem pres_rGGLWEToGGSWKey (c : Cur) : Pres (Keep L M) (rGGLWEToGGSWKey c) := pres_rKeys (fun c => pres_rGGLWE c) _
theorem pres_rGGLWEToGGSWKeyCompressed (c : Cur) : Pres (Keep L M) (rGGLWEToGGSWKeyCompressed c) :=
  pres_rKeys (fun c => pres_rGGLWECompressed c) _
theorem np_rGLWE (c : Cur) : NoPanicOn (Keep L M) (rGLWE c) := by unfold rGLWE readVecAt; repeat' rd_step
theorem np_rGGLWE (c : Cur) : NoPanicOn (Keep L M) (rGGLWE c) := by unfold rGGLWE readMatAt; repeat' rd_step
theorem np_rGLWESwitchingKey (c : Cur) : NoPanicOn (Keep L M) (rGLWESwitchingKey c) := by
  unfold rGLWESwitchingKey
  exact nopanic_bind pres_readU32 nopanic_readU32 (fun _ => nopanic_bind (pres_setF _ _) (nopanic_setF _ _) (fun _ => nopanic_bind pres_readU32 nopanic_readU32 (fun _ => nopanic_bind (pres_setF _ _) (nopanic_setF _ _) (fun _ => np_rGGLWE _))))
theorem np_rGLWEAutomorphismKey (c : Cur) : NoPanicOn (Keep L M) (rGLWEAutomorphismKey c) := by
  unfold rGLWEAutomorphismKey
  exact nopanic_bind pres_readU64 nopanic_readU64 (fun _ => nopanic_bind (pres_setF _ _) (nopanic_setF _ _) (fun _ => np_rGGLWE _))
theorem np_readDistAt (i : Nat) : NoPanicOn (Keep L M) (readDistAt i) := by unfold readDistAt; repeat' rd_step
theorem np_rGLWEPublicKey (c : Cur) : NoPanicOn (Keep L M) (rGLWEPublicKey c) := by
  unfold rGLWEPublicKey
  exact nopanic_bind (pres_readDistAt _) (np_readDistAt _) (fun _ => np_rGLWE _)
theorem np_rGLWECompressed (c : Cur) : NoPanicOn (Keep L M) (rGLWECompressed c) := by
  unfold rGLWECompressed readVecAt; repeat' rd_step
theorem np_rGGLWECompressed (hM : 2 ^ 37 ≤ M) (c : Cur) : NoPanicOn (Keep L M) (rGGLWECompressed c) := by
  unfold rGGLWECompressed readMatAt
  repeat' (first | exact nopanic_readSeedVecAt hM _ | rd_step)
theorem np_rGLWESwitchingKeyCompressed (hM : 2 ^ 37 ≤ M) (c : Cur) : NoPanicOn (Keep L M) (rGLWESwitchingKeyCompressed c) := by
  unfold rGLWESwitchingKeyCompressed
  exact nopanic_bind pres_readU32 nopanic_readU32 (fun _ => nopanic_bind (pres_setF _ _) (nopanic_setF _ _) (fun _ => nopanic_bind pres_readU32 nopanic_readU32 (fun _ => nopanic_bind (pres_setF _ _) (nopanic_setF _ _) (fun _ => np_rGGLWECompressed hM _))))
theorem np_rGLWEAutomorphismKeyCompressed (hM : 2 ^ 37 ≤ M) (c : Cur) : NoPanicOn (Keep L M) (rGLWEAutomorphismKeyCompressed c) := by
  unfold rGLWEAutomorphismKeyCompressed
  exact nopanic_bind pres_readU64 nopanic_readU64 (fun _ => nopanic_bind (pres_setF _ _) (nopanic_setF _ _) (fun _ => np_rGGLWECompressed hM _))
theorem np_rBlindRotationKey (c : Cur) : NoPanicOn (Keep L M) (rBlindRotationKey c) := by
  unfold rBlindRotationKey
  exact nopanic_bind (pres_readDistAt _) (np_readDistAt _)
    (fun _ => nopanic_rKeys (fun c => pres_rGGLWE c) (fun c => np_rGGLWE c) _)
theorem np_rBlindRotationKeyCompressed (hM : 2 ^ 37 ≤ M) (c : Cur) : NoPanicOn (Keep L M) (rBlindRotationKeyCompressed c) := by
  unfold rBlindRotationKeyCompressed
  exact nopanic_bind (pres_readDistAt _) (np_readDistAt _)
    (fun _ => nopanic_rKeys (fun c => pres_rGGLWECompressed c) (fun c => np_rGGLWECompressed hM c) _)
theorem np_readVecAt (i : Nat) : NoPanicOn (Keep L M) (readVecAt i) := nopanic_onLeaf clean_liftVec _
theorem np_readScalarAt (i : Nat) : NoPanicOn (Keep L M) (readScalarAt i) := nopanic_onLeaf clean_liftScalar _
theorem np_readMatAt (i : Nat) : NoPanicOn (Keep L M) (readMatAt i) := nopanic_onLeaf clean_liftMat _
theorem np_rGGLWEToGGSWKey (c : Cur) : NoPanicOn (Keep L M) (rGGLWEToGGSWKey c) :=
  nopanic_rKeys (fun c => pres_rGGLWE c) (fun c => np_rGGLWE c) _
theorem np_rGGLWEToGGSWKeyCompressed (hM : 2 ^ 37 ≤ M) (c : Cur) : NoPanicOn (Keep L M) (rGGLWEToGGSWKeyCompressed c) :=
  nopanic_rKeys (fun c => pres_rGGLWECompressed c) (fun c => np_rGGLWECompressed hM c) _
theorem ek_rGLWE (c : Cur) : ErrKeepL (rGLWE c) := by unfold rGLWE readVecAt; repeat' rd_step
theorem ek_rGGLWE (c : Cur) : ErrKeepL (rGGLWE c) := by unfold rGGLWE readMatAt; repeat' rd_step
theorem ek_rGLWESwitchingKey (c : Cur) : ErrKeepL (rGLWESwitchingKey c) := by
  unfold rGLWESwitchingKey
  exact errKeepL_bind keepL_readU32 (fun _ => errKeepL_bind (keepL_setF _ _) (fun _ => errKeepL_bind keepL_readU32 (fun _ => errKeepL_bind (keepL_setF _ _) (fun _ => ek_rGGLWE _))))
theorem ek_rGLWEAutomorphismKey (c : Cur) : ErrKeepL (rGLWEAutomorphismKey c) := by
  unfold rGLWEAutomorphismKey
  exact errKeepL_bind keepL_readU64 (fun _ => errKeepL_bind (keepL_setF _ _) (fun _ => ek_rGGLWE _))
theorem kl_readDistAt (i : Nat) : KeepL (readDistAt i) := by unfold readDistAt; repeat' rd_step
theorem ek_rGLWEPublicKey (c : Cur) : ErrKeepL (rGLWEPublicKey c) := by
  unfold rGLWEPublicKey; exact errKeepL_bind (kl_readDistAt _) (fun _ => ek_rGLWE _)
theorem ek_rGLWECompressed (c : Cur) : ErrKeepL (rGLWECompressed c) := by unfold rGLWECompressed readVecAt; repeat' rd_step
theorem ek_rGGLWECompressed (c : Cur) : ErrKeepL (rGGLWECompressed c) := by unfold rGGLWECompressed readMatAt; repeat' rd_step
theorem ek_rGLWESwitchingKeyCompressed (c : Cur) : ErrKeepL (rGLWESwitchingKeyCompressed c) := by
  unfold rGLWESwitchingKeyCompressed
  exact errKeepL_bind keepL_readU32 (fun _ => errKeepL_bind (keepL_setF _ _) (fun _ => errKeepL_bind keepL_readU32 (fun _ => errKeepL_bind (keepL_setF _ _) (fun _ => ek_rGGLWECompressed _))))
theorem ek_rGLWEAutomorphismKeyCompressed (c : Cur) : ErrKeepL (rGLWEAutomorphismKeyCompressed c) := by
  unfold rGLWEAutomorphismKeyCompressed
  exact errKeepL_bind keepL_readU64 (fun _ => errKeepL_bind (keepL_setF _ _) (fun _ => ek_rGGLWECompressed _))
theorem ek_readVecAt (i : Nat) : ErrKeepL (readVecAt i) := errKeepL_onLeaf clean_liftVec _
theorem ek_readScalarAt (i : Nat) : ErrKeepL (readScalarAt i) := errKeepL_onLeaf clean_liftScalar _
theorem ek_readMatAt (i : Nat) : ErrKeepL (readMatAt i) := errKeepL_onLeaf clean_liftMat _

/-! #### CircuitBootstrappingKey / BDDKey -/

theorem pres_readU8 {I : St → Prop} : Pres I (readU8 : Rd St Nat) := by
  unfold Pres; intro s bs h; unfold readU8; rw [readU_state]; exact h
theorem nopanic_readU8 {I : St → Prop} : NoPanicOn I (readU8 : Rd St Nat) := by
  unfold NoPanicOn; intro s bs _; unfold readU8; exact readU_nopanic 1 s bs

theorem pres_rAtkLoop (ca : Cur) (na k : Nat) : Pres (Keep L M) (rAtkLoop ca na k) := by
  induction k with
  | zero => exact pres_pure ()
  | succ k ih =>
    unfold rAtkLoop
    refine pres_bind pres_readU64 (fun gal => pres_bind pres_getS (fun s => ?_))
    cases findAtk s (ca.f + 1) na gal with
    | none => exact pres_failWith _
    | some j => exact pres_bind (pres_rGLWEAutomorphismKey _) (fun _ => ih)

theorem np_rAtkLoop (ca : Cur) (na k : Nat) : NoPanicOn (Keep L M) (rAtkLoop ca na k) := by
  induction k with
  | zero => exact nopanic_pure ()
  | succ k ih =>
    unfold rAtkLoop
    refine nopanic_bind pres_readU64 nopanic_readU64 (fun gal => nopanic_bind pres_getS nopanic_getS (fun s => ?_))
    cases findAtk s (ca.f + 1) na gal with
    | none => exact nopanic_failWith _
    | some j => exact nopanic_bind (pres_rGLWEAutomorphismKey _) (np_rGLWEAutomorphismKey _) (fun _ => ih)

theorem pres_rCircuitBootstrappingKey (c : Cur) : Pres (Keep L M) (rCircuitBootstrappingKey c) := by
  unfold rCircuitBootstrappingKey
  refine pres_bind (pres_rBlindRotationKey _) (fun _ => pres_bind (pres_getF _) (fun nb => pres_bind pres_readU64 (fun n =>
    pres_bind (pres_getF _) (fun na => pres_ite (pres_failWith _) ?_))))
  exact pres_bind (pres_rAtkLoop _ _ _) (fun _ => pres_rKeys (fun c => pres_rGGLWE c) _)

theorem np_rCircuitBootstrappingKey (c : Cur) : NoPanicOn (Keep L M) (rCircuitBootstrappingKey c) := by
  unfold rCircuitBootstrappingKey
  refine nopanic_bind (pres_rBlindRotationKey _) (np_rBlindRotationKey _) (fun _ =>
    nopanic_bind (pres_getF _) (nopanic_getF _) (fun nb => nopanic_bind pres_readU64 nopanic_readU64 (fun n =>
    nopanic_bind (pres_getF _) (nopanic_getF _) (fun na => nopanic_ite (nopanic_failWith _) ?_))))
  exact nopanic_bind (pres_rAtkLoop _ _ _) (np_rAtkLoop _ _ _)
    (fun _ => nopanic_rKeys (fun c => pres_rGGLWE c) (fun c => np_rGGLWE c) _)

theorem pres_rBDDKey (c : Cur) : Pres (Keep L M) (rBDDKey c) := by
  unfold rBDDKey
  refine pres_bind (pres_rCircuitBootstrappingKey _) (fun _ => pres_bind (pres_getF _) (fun nb => pres_bind (pres_getF _) (fun na =>
    pres_bind (pres_getF _) (fun nt => pres_bind pres_readU8 (fun tag => pres_bind (pres_getF _) (fun has => ?_))))))
  refine pres_ite (pres_ite (pres_failWith _) (pres_rGLWESwitchingKey _)) (pres_ite (pres_ite (pres_failWith _) ?_) (pres_failWith _))
  exact pres_bind (pres_rGLWESwitchingKey _) (fun _ => pres_rGLWESwitchingKey _)

theorem np_rBDDKey (c : Cur) : NoPanicOn (Keep L M) (rBDDKey c) := by
  unfold rBDDKey
  refine nopanic_bind (pres_rCircuitBootstrappingKey _) (np_rCircuitBootstrappingKey _) (fun _ =>
    nopanic_bind (pres_getF _) (nopanic_getF _) (fun nb => nopanic_bind (pres_getF _) (nopanic_getF _) (fun na =>
    nopanic_bind (pres_getF _) (nopanic_getF _) (fun nt => nopanic_bind pres_readU8 nopanic_readU8 (fun tag =>
    nopanic_bind (pres_getF _) (nopanic_getF _) (fun has => ?_))))))
  refine nopanic_ite (nopanic_ite (nopanic_failWith _) (np_rGLWESwitchingKey _))
    (nopanic_ite (nopanic_ite (nopanic_failWith _) ?_) (nopanic_failWith _))
  exact nopanic_bind (pres_rGLWESwitchingKey _) (np_rGLWESwitchingKey _) (fun _ => np_rGLWESwitchingKey _)

end Ser
