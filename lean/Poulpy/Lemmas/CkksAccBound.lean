import Poulpy.Lemmas.CoreEncDec
import Poulpy.Lemmas.CoreOpsShift
import Poulpy.Model.HalSpec
/-!
Numeric head-room of the convolution accumulators (`cnv_apply_dft` in the coefficient domain): every coefficient of every limb
of `cnvApplyCol n S off a b` is at most `|b| · N · Ha · Hb` when the digits of `a`, `b` are at most `Ha`, `Hb`
(`‖p ⋆ q‖∞ ≤ ‖p‖₁·‖q‖∞`, at most `|b|` limb pairs per output limb).
-/

namespace Ckks.AccBound
open Hal

theorem norm1_le (p : Poly) (H : Int) (h : ∀ x ∈ p, |x| ≤ H) : CoreEnc.norm1 p ≤ p.length * H := by
  unfold CoreEnc.norm1
  induction p with
  | nil => simp
  | cons x xs ih =>
    simp only [List.map_cons, List.sum_cons, List.length_cons]
    have h1 := h x (by simp)
    have h2 := ih (fun y hy => h y (by simp [hy]))
    push_cast
    linarith

theorem foldl_polyAdd_bound (l : List Poly) (B : Int) (h : ∀ p ∈ l, ∀ x ∈ p, |x| ≤ B) :
    ∀ (acc : Poly) (A : Int), (∀ x ∈ acc, |x| ≤ A) → ∀ x ∈ l.foldl polyAdd acc, |x| ≤ A + l.length * B := by
  induction l with
  | nil => intro acc A hA x hx; simpa using hA x hx
  | cons p ps ih =>
    intro acc A hA x hx
    simp only [List.foldl_cons] at hx
    have := ih (fun q hq => h q (by simp [hq])) (polyAdd acc p) (A + B)
      (C02L.polyAdd_bound acc p hA (h p (by simp))) x hx
    simp only [List.length_cons]; push_cast; linarith

theorem sumPolys_bound (n : Nat) (l : List Poly) (B : Int) (h : ∀ p ∈ l, ∀ x ∈ p, |x| ≤ B) :
    ∀ x ∈ sumPolys n l, |x| ≤ l.length * B := by
  intro x hx
  have := foldl_polyAdd_bound l B h (zeroP n) 0 (by intro y hy; simp [zeroP] at hy; simp [hy.2]) x hx
  simpa using this

theorem limbOr0_bound (n : Nat) (a : Col) (H : Int) (hH : 0 ≤ H) (h : ∀ l ∈ a, ∀ x ∈ l, |x| ≤ H) (i : Nat) :
    ∀ x ∈ limbOr0 n a i, |x| ≤ H := by
  intro x hx
  unfold limbOr0 at hx
  by_cases hi : i < a.length
  · rw [List.getD_eq_getElem?_getD, List.getElem?_eq_getElem hi] at hx
    exact h _ (List.getElem_mem hi) x hx
  · rw [List.getD_eq_getElem?_getD, List.getElem?_eq_none (by omega)] at hx
    simp [zeroP] at hx; simp [hx.2, hH]

theorem limbOr0_length (n : Nat) (a : Col) (h : ∀ l ∈ a, l.length = n) (i : Nat) : (limbOr0 n a i).length = n := by
  unfold limbOr0
  by_cases hi : i < a.length
  · rw [List.getD_eq_getElem?_getD, List.getElem?_eq_getElem hi]; exact h _ (List.getElem_mem hi)
  · rw [List.getD_eq_getElem?_getD, List.getElem?_eq_none (by omega)]; simp [zeroP]

theorem cnvCoeff_bound (n : Nat) (a b : Col) (Ha Hb : Int) (hHa : 0 ≤ Ha) (hHb : 0 ≤ Hb)
    (ha : ∀ l ∈ a, ∀ x ∈ l, |x| ≤ Ha) (hb : ∀ l ∈ b, ∀ x ∈ l, |x| ≤ Hb) (hla : ∀ l ∈ a, l.length = n) (k : Nat) :
    ∀ x ∈ cnvCoeff n a b k, |x| ≤ b.length * (n * Ha * Hb) := by
  intro x hx
  have hnn : (0 : Int) ≤ b.length * (n * Ha * Hb) := by positivity
  unfold cnvCoeff at hx
  split at hx
  · simp [zeroP] at hx; rw [hx.2]; simpa using hnn
  · have h1 := sumPolys_bound n _ (n * Ha * Hb) (by
      intro p hp y hy
      obtain ⟨t, _, rfl⟩ := List.mem_map.mp hp
      have h2 := CoreEnc.negMul_bound _ _ (limbOr0_bound n b Hb hHb hb _) y hy
      have h3 := norm1_le _ Ha (limbOr0_bound n a Ha hHa ha (k - (k - (a.length - 1) + t)))
      rw [limbOr0_length n a hla] at h3
      exact h2.trans (mul_le_mul_of_nonneg_right h3 hHb)) x hx
    refine h1.trans (mul_le_mul_of_nonneg_right ?_ (by positivity))
    simp only [List.length_map, List.length_range]
    have : min (k + 1) b.length - (k - (a.length - 1)) ≤ b.length := by omega
    exact_mod_cast this

/-- **accumulator bound** of one convolution column -/
theorem cnvApplyCol_bound (n S off : Nat) (a b : Col) (Ha Hb : Int) (hHa : 0 ≤ Ha) (hHb : 0 ≤ Hb)
    (ha : ∀ l ∈ a, ∀ x ∈ l, |x| ≤ Ha) (hb : ∀ l ∈ b, ∀ x ∈ l, |x| ≤ Hb) (hla : ∀ l ∈ a, l.length = n) :
    ∀ l ∈ cnvApplyCol n S off a b, ∀ x ∈ l, |x| ≤ b.length * (n * Ha * Hb) := by
  intro l hl x hx
  unfold cnvApplyCol at hl
  obtain ⟨k, _, rfl⟩ := List.mem_map.mp hl
  split at hx
  · exact cnvCoeff_bound n a b Ha Hb hHa hHb ha hb hla _ x hx
  · simp [zeroP] at hx; rw [hx.2]; simp; positivity

end Ckks.AccBound
