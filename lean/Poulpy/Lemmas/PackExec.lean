import Poulpy.Lemmas.PackJump
import Poulpy.Lemmas.TraceExec
import Poulpy.Lemmas.AdmCorollaries
import Poulpy.Lemmas.NoisyPack
import Poulpy.Lemmas.CkksBound

/-!
# The executed ring packing `Ks.pack` decrypts to the packed constant coefficients (end to end)

`Ks.mergeStep` (Model/Core/Pack.lean; `pack_internal` of glwe_packing.rs) merges, at level `i`, the ciphertexts of the slots `j` (`a`) and
`j + t_i` (`b`), `t_i = N/2^(i+1)`, along three code paths.  This file instantiates the executed-operation theorems (C02 for the exact
operations, `glwe_rsh`, `glwe_normalize_assign`; `AutoDecrypt` for `glwe_automorphism` and its fused forms) on every call of a merge,
composes them into the relation `(2c)•φ_out = c•U_i(φ_a, φ_b) + ι Err + (2cQ)•w` of `Lemmas/PackJump.lean`, and runs the induction over
`packLevel` / `packLevels` / `pack`:

* §1 the single operations with shapes, digit bounds and ring relations (`rsh1_spec`, `normAssign_spec`, `rotAssign_spec`, `rotate_spec`,
  `sub_spec`, `addAssign_spec`, `subAssign_spec`); §2 `MergeKeyOk`, `fused_spec` (fused forms, any `f`), `autoAssign_spec` (plain form);
* §3 the three code paths (`merge_both`, `merge_lo`, `merge_hi`) and **`merge_level_decrypts`**;
* §4 the level loops: `packLevel_relSh`, `SlotInv`, `PackKeys`, **`packLevels_inv`**;
* §5 the trace tail (`trace_same_layout`: `Ks.trace` in one layout) and **`glwe_pack_decrypts`** (ring form),
  **`glwe_pack_decrypts_coeff`** (every coefficient, every subset of slots), `packBound_closed`, **`glwe_pack_decrypts_noise`**;
* §6 a closed instance (`N = 1`); §7 **`combine_decrypts`**: one `combine` of the streaming packer (the binary-counter induction over
  `packCore` / `packerRun` is not done here).

All ciphertexts (inputs, result) share one layout: the radix `b` of the keys, `S` limbs, rank `rk` (no radix conversion on entry / exit).
-/

namespace KsDec
open Hal Core Core.Ops C02L AutoMul TraceJump PackJump Ckks.Bound

/-- the class of the value of the phase -/
noncomputable def vph (N b : ℕ) (sk : List Poly) (x : Ks.Ct) : Ks.R N := Ks.ι N (valP b N (phase sk x))

/-! ### 1. the single operations -/

theorem ι_of_normInf_zero (N : ℕ) (E : Poly) (h : normInf E ≤ 0) : Ks.ι N E = 0 := by
  have : E = zeroP E.length := by
    unfold zeroP
    rw [List.eq_replicate_iff]
    exact ⟨rfl, fun x hx => abs_eq_zero.mp (le_antisymm ((abs_le_normInf hx).trans h) (abs_nonneg x))⟩
  rw [this, Ks.ι_zero]

theorem ι_polyNeg_cls (N : ℕ) (a : Poly) : Ks.ι N (polyNeg a) = -Ks.ι N a := by
  rw [polyNeg_eq_scale, Ks.ι_polyScale]; simp

theorem cb_rot {H : ℤ} {c : Col} (k : ℤ) (hc : CB H c) : CB H (c.map (rotP k)) := by
  intro l hl x hx
  obtain ⟨l0, hl0, rfl⟩ := List.mem_map.mp hl
  obtain ⟨t, ht, rfl⟩ := List.mem_iff_getElem.mp hx
  rw [rotP_length] at ht
  obtain ⟨s, hs, ε, hε, h⟩ := rotP_coef k l0 t ht
  have := h l0 rfl
  rw [List.getD_eq_getElem?_getD, List.getElem?_eq_getElem (by rw [rotP_length]; exact ht), Option.getD_some] at this
  rw [this, abs_mul]
  have h1 : |ε| = 1 := by rcases hε with rfl | rfl <;> simp
  rw [h1, one_mul, List.getD_eq_getElem?_getD, List.getElem?_eq_getElem hs, Option.getD_some]
  exact hc l0 hl0 _ (List.getElem_mem hs)

theorem traceInv_of_same {N b S rk : ℕ} {H H' : ℤ} {x r : Ks.Ct} (hx : TraceInv N b S rk H x) (hs : Same x r) (hw : GWF N r)
    (hsz : r.size = x.size) (hb : GBound H' r) : TraceInv N b S rk H' r :=
  ⟨hw, hs.1.trans hx.2.1, hsz.trans hx.2.2.1, hs.rank.trans hx.2.2.2.1, hb⟩

theorem TraceInv.small {N b S rk : ℕ} {H : ℤ} {x : Ks.Ct} (hx : TraceInv N b S rk H x) (hH : H < 2 ^ 62) : GSmall x :=
  gsmall_of_gbound hx.2.2.2.2 hH

/-- `glwe_rsh(1, x)`: `2•φ(r) = φ(x) + ι e + (2·2^M)•k`, balanced digits -/
theorem rsh1_spec {N : ℕ} (hN : 0 < N) (b S rk : ℕ) (H : ℤ) (sk : List Poly) (x : Ks.Ct)
    (hx : TraceInv N b S rk H x) (hh : NormL.HeadRoom 64 b 0 H) :
    ∃ r, Core.Ops.glweRsh N 0 1 x = .ok r ∧ Ks.glweRsh 1 x = .ok r ∧ TraceInv N b S rk (2 ^ (b - 1)) r ∧
      ∃ (e : Poly) (k : Ks.R N), e.length = N ∧ normInf e ≤ 2 * (1 + snorm (min rk sk.length) sk) ∧
        2 • vph N b sk r = vph N b sk x + Ks.ι N e + (2 * 2 ^ (b * S) : ℤ) • k := by
  obtain ⟨hr, hb, hS, hrk, hbd⟩ := hx
  subst hb hS hrk
  obtain ⟨r1, hks, hcore, hbd1⟩ := ks_glweRsh_spec hr hh hbd 1
  obtain ⟨r1', hcore', hsame, hw1, hsz1, _, hph⟩ := C02.rsh_phase hr hh hbd 0 1
  obtain rfl : r1 = r1' := by
    have := hcore.symm.trans hcore'
    injection this
  obtain ⟨e, Qr, hel, hQr, hne, hrel1⟩ := coeff_to_ring N hN (phase sk r1) (phase sk x) x.base2k x.base2k 2 1 (2 * 2 ^ (x.base2k * x.size))
    (2 * (1 + snorm (min x.rank sk.length) sk)) (by
      intro t ht
      obtain ⟨q, e, he1, he2⟩ := hph sk t ht
      rw [pow_add, pow_add, pow_one] at he1
      rw [pow_add, pow_one] at he2
      exact rsh1_coeff _ _ e q (2 ^ (x.base2k * x.size)) _ (by positivity) he1 he2)
  refine ⟨r1, hcore, hks, ⟨hw1, hsame.1, hsz1, hsame.rank, hbd1⟩, e, Ks.ι N Qr, hel, hne, ?_⟩
  unfold vph
  have h := hrel1
  simp only [nsmul_eq_mul, zsmul_eq_mul]
  push_cast at h ⊢
  linear_combination h

/-- `glwe_normalize_assign(x)`: the value is kept modulo `2^M`, balanced digits -/
theorem normAssign_spec {N : ℕ} (hN : 0 < N) (b S rk : ℕ) (H : ℤ) (sk : List Poly) (x : Ks.Ct)
    (hx : TraceInv N b S rk H x) (hh : NormL.HeadRoom 64 b 0 H) :
    ∃ r, glweNormalizeAssign N x = .ok r ∧ TraceInv N b S rk (2 ^ (b - 1)) r ∧
      ∃ k : Ks.R N, vph N b sk r = vph N b sk x + (2 ^ (b * S) : ℤ) • k := by
  obtain ⟨hr, hb, hS, hrk, hbd⟩ := hx
  subst hb hS hrk
  obtain ⟨r, hok, hsame, hw, hsz, hph⟩ := C02.normalize_assign_phase hr hh hbd
  have hdig := normalize_assign_bound hr hh hbd hok
  obtain ⟨E, Qr, hEl, _, hnE, hrel⟩ := coeff_to_ring N hN (phase sk r) (phase sk x) x.base2k x.base2k 1 1 (2 ^ (x.base2k * x.size)) 0 (by
    intro t ht
    obtain ⟨q, hq⟩ := hph sk t ht
    refine ⟨q, 0, ?_, by simp⟩
    have hP : (0 : ℤ) < 2 ^ (x.base2k * x.size) := by positivity
    rw [pow_add] at hq
    have : 2 ^ (x.base2k * x.size) * valCoeff x.base2k (phase sk r) t
        = 2 ^ (x.base2k * x.size) * (valCoeff x.base2k (phase sk x) t + q * 2 ^ (x.base2k * x.size)) := by linarith
    have := mul_left_cancel₀ hP.ne' this
    linarith)
  refine ⟨r, hok, ⟨hw, hsame.1, hsz, hsame.rank, hdig⟩, Ks.ι N Qr, ?_⟩
  unfold vph
  rw [ι_of_normInf_zero N E hnE] at hrel
  simp only [zsmul_eq_mul]
  push_cast at hrel ⊢
  linear_combination hrel

theorem rotate_assign_cols {N : ℕ} (k : ℤ) {res : GLWE} (hr : GWF N res) (sr : GSmall res) {r' : GLWE}
    (h : glweRotateAssign N k res = .ok r') : Same res r' ∧ ∀ i, i ≤ res.rank → col r' i = (col res i).map (rotP k) := by
  unfold glweRotateAssign at h
  obtain ⟨r1, e1, s1, c1⟩ := forRange_spec (fun _ c => vecRotateAssignW w64 k c) (selfCol (vecRotateAssignW w64 k)) 0 (res.rank + 1) res
    (fun i r _ hi hl => selfCol_ok _ i r (by rw [hl, hr.len]; omega)) (by rw [hr.len])
  have : r1 = r' := by
    have := e1.symm.trans h
    injection this
  subst this
  refine ⟨s1, fun i hi => ?_⟩
  rw [c1 i]
  have h : 0 ≤ i ∧ i < res.rank + 1 := by omega
  rw [if_pos h, vecRotateAssign_nf _ _ (sr.col i)]

/-- `glwe_rotate_assign(k, x)`: exact, digits permuted -/
theorem rotAssign_spec {N : ℕ} (b S rk : ℕ) (H : ℤ) (hH : H < 2 ^ 62) (k : ℤ) (x : Ks.Ct) (hx : TraceInv N b S rk H x) :
    ∃ r, glweRotateAssign N k x = .ok r ∧ TraceInv N b S rk H r ∧
      ∀ sk, valP b N (phase sk r) = rotP k (valP b N (phase sk x)) := by
  have sx := hx.small hH
  obtain ⟨r, hok, hsame, hw, hsz, hph⟩ := C02.rotate_assign_phase k hx.1 sx
  obtain ⟨_, hcols⟩ := rotate_assign_cols k hx.1 sx hok
  refine ⟨r, hok, traceInv_of_same hx hsame hw hsz (gbound_of_same hx.1 hsame fun i hi => ?_), fun sk => ?_⟩
  · rw [hcols i hi]
    exact cb_rot k (gbound_col hx.2.2.2.2 i)
  · rw [hph sk, valP_map (linT_rot N k) b _ (phase_wf hx.1 sk).2]

/-! the zeroed scratch ciphertext `take_glwe(a)` -/

theorem zeroLike_cols_getD (x : Ks.Ct) (i : ℕ) :
    col (Ks.zeroLike x) i = (col x i).map (fun l => l.map (fun _ => (0 : ℤ))) := by
  unfold Ks.zeroLike col
  simp only
  rw [getD_map_col x.cols _ (by rfl) i]

theorem zeroLike_inv {N b S rk : ℕ} {H : ℤ} {x : Ks.Ct} (hx : TraceInv N b S rk H x) (hH : 0 ≤ H) :
    TraceInv N b S rk H (Ks.zeroLike x) := by
  obtain ⟨hr, hb, hS, hrk, hbd⟩ := hx
  have hsz : (Ks.zeroLike x).size = x.size := by
    show (col (Ks.zeroLike x) 0).length = (col x 0).length
    rw [zeroLike_cols_getD, List.length_map]
  have hrank : (Ks.zeroLike x).rank = x.rank := by
    unfold GLWE.rank Ks.zeroLike; simp
  refine ⟨⟨hr.1, ?_, ?_⟩, hb, hsz.trans hS, hrank.trans hrk, ?_⟩
  · unfold Ks.zeroLike; simpa using hr.2.1
  · intro c hc
    rw [hsz]
    unfold Ks.zeroLike at hc
    simp only [List.mem_map] at hc
    obtain ⟨c0, hc0, rfl⟩ := hc
    have := hr.2.2 c0 hc0
    refine ⟨by rw [List.length_map]; exact this.1, ?_⟩
    intro l hl
    obtain ⟨l0, hl0, rfl⟩ := List.mem_map.mp hl
    rw [List.length_map]; exact this.2 l0 hl0
  · intro c hc l hl v hv
    unfold Ks.zeroLike at hc
    simp only [List.mem_map] at hc
    obtain ⟨c0, _, rfl⟩ := hc
    obtain ⟨l0, _, rfl⟩ := List.mem_map.mp hl
    obtain ⟨_, _, rfl⟩ := List.mem_map.mp hv
    simpa using hH

theorem rotate_cols {N : ℕ} (k : ℤ) {res a : GLWE} (hr : GWF N res) (ha : GWF N a) (hbk : res.base2k = a.base2k)
    (hrank : a.rank = res.rank) (sa : GSmall a) {r' : GLWE} (h : glweRotate N k res a = .ok r') :
    Same res r' ∧ ∀ i, i ≤ res.rank → col r' i = (fit N res.size (col a i)).map (rotP k) := by
  unfold glweRotate at h
  rw [check_true _ _ (beq_true ha.1), check_true _ _ (beq_true hr.1), check_true _ _ (beq_true hbk),
    check_true _ _ (by simp [hrank])] at h
  obtain ⟨r1, e1, s1, c1⟩ := forRange_spec (fun i _ => vecRotate k N res.size (col a i)) (fromCol a (vecRotate k N res.size))
    0 (a.rank + 1) res
    (fun i r _ hi hl => fromCol_ok a _ i r (by rw [ha.len]; omega) (by rw [hl, hr.len]; omega)) (by rw [hr.len]; omega)
  obtain ⟨r2, e2, s2, c2⟩ := forRange_spec (fun _ _ => vecZero N res.size) (selfCol (fun _ => vecZero N res.size))
    (a.rank + 1) (res.rank + 1) r1 (fun i r h1 h2 _ => by omega) (by rw [s1.2.2.2, hr.len])
  rw [e1] at h; simp only [Ops.bind] at h
  have : r2 = r' := by
    have := e2.symm.trans h
    injection this
  subst this
  refine ⟨s1.trans s2, fun i hi => ?_⟩
  rw [c2 i, c1 i]
  have h3 : ¬ (a.rank + 1 ≤ i ∧ i < res.rank + 1) := by omega
  have h1 : 0 ≤ i ∧ i < a.rank + 1 := by omega
  rw [if_neg h3, if_pos h1, vecRotate_nf k _ _ (sa.col i)]

/-- `glwe_rotate(k, tmp, x)` into a scratch ciphertext of the layout of `x` -/
theorem rotate_spec {N : ℕ} (b S rk : ℕ) (H : ℤ) (hH0 : 0 ≤ H) (hH : H < 2 ^ 62) (k : ℤ) (x sh : Ks.Ct) (hx : TraceInv N b S rk H x)
    (hsh : TraceInv N b S rk H sh) :
    ∃ r, glweRotate N k sh x = .ok r ∧ TraceInv N b S rk H r ∧
      ∀ sk, valP b N (phase sk r) = rotP k (valP b N (phase sk x)) := by
  have sx := hx.small hH
  have hbk : sh.base2k = x.base2k := hsh.2.1.trans hx.2.1.symm
  have hrk : x.rank = sh.rank := hx.2.2.2.1.trans hsh.2.2.2.1.symm
  have hszz : sh.size = x.size := hsh.2.2.1.trans hx.2.2.1.symm
  obtain ⟨r, hok, hsame, hw, hsz, hph⟩ := C02.rotate_phase k hsh.1 hx.1 sx hbk (by simp [hrk])
  obtain ⟨_, hcols⟩ := rotate_cols k hsh.1 hx.1 hbk hrk sx hok
  refine ⟨r, hok, traceInv_of_same hsh hsame hw hsz (gbound_of_same hsh.1 hsame fun i hi => ?_), fun sk => ?_⟩
  · rw [hcols i hi]
    exact cb_rot k (cb_fit hH0 (gbound_col hx.2.2.2.2 i))
  · rw [hph sk, hszz, fit_self (phase_wf hx.1 sk).1, valP_map (linT_rot N k) b _ (phase_wf hx.1 sk).2]

/-- `glwe_sub(tmp, x, y)` -/
theorem sub_spec {N : ℕ} (b S rk : ℕ) (Hx Hy : ℤ) (hHx0 : 0 ≤ Hx) (hHy0 : 0 ≤ Hy) (hHx : Hx < 2 ^ 62) (hHy : Hy < 2 ^ 62)
    (x y sh : Ks.Ct) (hx : TraceInv N b S rk Hx x) (hy : TraceInv N b S rk Hy y) (hsh : TraceInv N b S rk Hx sh) :
    ∃ r, glweSub N sh x y = .ok r ∧ TraceInv N b S rk (Hx + Hy) r ∧
      ∀ sk, vph N b sk r = vph N b sk x - vph N b sk y := by
  have sx := hx.small hHx
  have sy := hy.small hHy
  have hbx : x.base2k = sh.base2k := hx.2.1.trans hsh.2.1.symm
  have hby : y.base2k = sh.base2k := hy.2.1.trans hsh.2.1.symm
  have hrx : x.rank = sh.rank := hx.2.2.2.1.trans hsh.2.2.2.1.symm
  have hry : y.rank = sh.rank := hy.2.2.2.1.trans hsh.2.2.2.1.symm
  have hsx : sh.size = x.size := hsh.2.2.1.trans hx.2.2.1.symm
  have hsy : sh.size = y.size := hsh.2.2.1.trans hy.2.2.1.symm
  obtain ⟨r, hok, hsame, hw, hsz, hph⟩ := C02.sub_phase hsh.1 hx.1 hy.1 sx sy hbx hby (rankRule3_same hrx hry)
  obtain ⟨_, hcols⟩ := sub_into_cols hsh.1 hx.1 hy.1 hrx hry hbx hby sx sy hok
  refine ⟨r, hok, traceInv_of_same hsh hsame hw hsz (gbound_of_same hsh.1 hsame fun i hi => ?_), fun sk => ?_⟩
  · rw [hcols i hi]
    exact cb_colAdd (cb_fit hHx0 (gbound_col hx.2.2.2.2 i)) (cb_neg (cb_fit hHy0 (gbound_col hy.2.2.2.2 i)))
  · unfold vph
    have wx := phase_wf hx.1 sk
    have wy := phase_wf hy.1 sk
    rw [hph sk]
    conv_lhs => rw [hsx, fit_self wx.1, ← hsx, hsy, fit_self wy.1]
    have wy' : ColWF N x.size ((phase sk y).map polyNeg) := by
      refine ⟨by rw [List.length_map, wy.1, ← hsy, hsx], ?_⟩
      intro l hl
      obtain ⟨l0, hl0, rfl⟩ := List.mem_map.mp hl
      rw [polyNeg_length]; exact wy.2 l0 hl0
    rw [valP_colAdd b wx wy', valP_map (linT_neg N) b _ wy.2, Ks.ι_add _ _ _ (by simp), ι_polyNeg_cls]
    ring

/-- `glwe_add_assign(x, y)` -/
theorem addAssign_spec {N : ℕ} (b S rk : ℕ) (Hx Hy : ℤ) (hHy0 : 0 ≤ Hy) (hHx : Hx < 2 ^ 62) (hHy : Hy < 2 ^ 62)
    (x y : Ks.Ct) (hx : TraceInv N b S rk Hx x) (hy : TraceInv N b S rk Hy y) :
    ∃ r, glweAddAssign N x y = .ok r ∧ TraceInv N b S rk (Hx + Hy) r ∧
      ∀ sk, vph N b sk r = vph N b sk x + vph N b sk y := by
  have sx := hx.small hHx
  have sy := hy.small hHy
  have hbk : x.base2k = y.base2k := hx.2.1.trans hy.2.1.symm
  have hrk : y.rank = x.rank := hy.2.2.2.1.trans hx.2.2.2.1.symm
  have hsy : x.size = y.size := hx.2.2.1.trans hy.2.2.1.symm
  obtain ⟨r, hok, hsame, hw, hsz, hph⟩ := C02.add_assign_phase hx.1 hy.1 sx sy hbk (le_of_eq hrk)
  obtain ⟨_, hcols⟩ := add_assign_cols hx.1 hy.1 hbk hrk sx sy hok
  refine ⟨r, hok, traceInv_of_same hx hsame hw hsz (gbound_of_same hx.1 hsame fun i hi => ?_), fun sk => ?_⟩
  · rw [hcols i hi]
    exact cb_colAdd (gbound_col hx.2.2.2.2 i) (cb_fit hHy0 (gbound_col hy.2.2.2.2 i))
  · unfold vph
    have wx := phase_wf hx.1 sk
    have wy := phase_wf hy.1 sk
    rw [hph sk, hsy, fit_self wy.1]
    rw [← hsy] at wy
    rw [valP_colAdd b wx wy, Ks.ι_add _ _ _ (by simp)]

/-- `glwe_sub_assign(x, y)` -/
theorem subAssign_spec {N : ℕ} (b S rk : ℕ) (Hx Hy : ℤ) (hHy0 : 0 ≤ Hy) (hHx : Hx < 2 ^ 62) (hHy : Hy < 2 ^ 62)
    (x y : Ks.Ct) (hx : TraceInv N b S rk Hx x) (hy : TraceInv N b S rk Hy y) :
    ∃ r, glweSubAssign N x y = .ok r ∧ TraceInv N b S rk (Hx + Hy) r ∧
      ∀ sk, vph N b sk r = vph N b sk x - vph N b sk y := by
  have sx := hx.small hHx
  have sy := hy.small hHy
  have hbk : x.base2k = y.base2k := hx.2.1.trans hy.2.1.symm
  have hrk : y.rank = x.rank := hy.2.2.2.1.trans hx.2.2.2.1.symm
  have hsy : x.size = y.size := hx.2.2.1.trans hy.2.2.1.symm
  obtain ⟨r, hok, hsame, hw, hsz, hph⟩ := C02.sub_assign_phase hx.1 hy.1 sx sy hbk (by simp [hrk])
  obtain ⟨_, hcols⟩ := sub_assign_cols hx.1 hy.1 hbk hrk sx sy hok
  refine ⟨r, hok, traceInv_of_same hx hsame hw hsz (gbound_of_same hx.1 hsame fun i hi => ?_), fun sk => ?_⟩
  · rw [hcols i hi]
    exact cb_colAdd (gbound_col hx.2.2.2.2 i) (cb_neg (cb_fit hHy0 (gbound_col hy.2.2.2.2 i)))
  · unfold vph
    have wx := phase_wf hx.1 sk
    have wy := phase_wf hy.1 sk
    rw [hph sk, hsy, fit_self wy.1]
    have wy' : ColWF N x.size ((phase sk y).map polyNeg) := by
      refine ⟨by rw [List.length_map, wy.1, hsy], ?_⟩
      intro l hl
      obtain ⟨l0, hl0, rfl⟩ := List.mem_map.mp hl
      rw [polyNeg_length]; exact wy.2 l0 hl0
    rw [valP_colAdd b wx wy', valP_map (linT_neg N) b _ wy.2, Ks.ι_add _ _ _ (by simp), ι_polyNeg_cls]
    ring

/-! ### 2. the automorphism calls of a merge -/

/-- what a merge level needs from its automorphism key: the hypotheses of a trace level (`TraceKeyOk`: shape, key relation, head-room for
balanced inputs, noise bound `BA` of the fused forms) and the same noise bound for the plain `glwe_automorphism` (the `both` code path),
whose final normalisation rounding is measured under `σ_{g⁻¹}(sk)` -/
structure MergeKeyOk (big128 : Bool) (N b S rk : Nat) (sk : List Poly) (key : Ks.Key) (gInv : Int) (EL KL : ℕ → ℕ → Poly)
    (Dm BA : Int) : Prop where
  tr : TraceKeyOk big128 N b S rk sk key gInv EL KL Dm BA
  hnoiseP : ∀ a : Ks.Ct, GWF N a → a.base2k = b → a.size = S → a.rank = rk → GBound (2 ^ (b - 1)) a →
    2 ^ (b * S + b * S) * gadgetBound N b (aDftOf a) key EL
      + 2 ^ (b * S + b * S) * dropBound N b (sk.map (σ gInv)) (aDftOf a) key
      + 2 ^ (b * S) * ((1 + snorm (min rk (sk.map (σ gInv)).length) (sk.map (σ gInv))) * C02.normTol (b * S) (b * key.mat.size)) ≤ BA

/-- the scale of the relations: `c = 2^(M + b·S_key)`, `M = b·S` -/
def cc (b S Sk : ℕ) : ℤ := 2 ^ (b * S + b * Sk)

theorem cc_pos (b S Sk : ℕ) : 0 < cc b S Sk := by unfold cc; positivity

/-- the fused forms `glwe_automorphism_{add,sub_negate}` on a balanced input (result shape = input shape, scratch zeroed):
`c•φ(r) = α·c•σ_g(φ(x)) + β·c•φ(x) + ι EA + (c·2^M)•k`, `(α, β) = (sgA f, sgB f)`, `‖EA‖∞ ≤ BA`, digits `≤ 2^b − 1` -/
theorem fused_spec (f : Ks.Fused) (big128 : Bool) {N : ℕ} (hN : 0 < N) (b S rk : ℕ) (hb1 : 1 ≤ b) (hb62 : b ≤ 62) (x : Ks.Ct) (key : Ks.Key)
    (sk : List Poly) (gInv : Int) (EL KL : ℕ → ℕ → Poly) (Dm BA : Int) (hsk : Ks.AllLen N sk) (hg : GalOk key.p N)
    (hx : TraceInv N b S rk (2 ^ (b - 1)) x) (hk : TraceKeyOk big128 N b S rk sk key gInv EL KL Dm BA) :
    ∃ r, Ks.automorphismFused f big128 (Ks.zeroBuf N (rk + 1) key.size) b S rk x key = .ok r ∧ TraceInv N b S rk (2 ^ b - 1) r ∧
      ∃ (EA : Poly) (k : Ks.R N), EA.length = N ∧ normInf EA ≤ BA ∧
        cc b S key.mat.size • vph N b sk r
          = (sgA f * cc b S key.mat.size) • Ks.ι N (σ key.p (valP b N (phase sk x))) + (sgB f * cc b S key.mat.size) • vph N b sk x
            + Ks.ι N EA + (cc b S key.mat.size * 2 ^ (b * S)) • k := by
  obtain ⟨hw1, hb1', hsz1, hrk1, hbd1⟩ := hx
  have hkb : key.base2k = b := hk.hbk
  have hp1 : (0 : Int) < 2 ^ (b - 1) := by positivity
  have hIn : (2 : Int) ^ (b - 1) + 8 ≤ 2 ^ 62 := by
    have : (2 : Int) ^ (b - 1) ≤ 2 ^ 61 := pow_le_pow_right₀ (by norm_num) (by omega)
    linarith
  have hconv : Ks.convIn x key = .ok x := convIn_same x key (by rw [hb1', hkb])
  have hcs : convSize x key = S := by rw [convSize_same_radix x key (by rw [hb1', hkb]), hsz1]
  have hrout' : x.rank + 1 = key.mat.colsOut := by
    rw [hrk1, hk.hrout]; have := hk.hc0; unfold Ks.Key.rankOut; omega
  have hprod := prodOf_conv_bound N x.rank x key (2 ^ (b - 1)) Dm hw1 hrout' hk.hD (by rw [hb1']; exact hb1) (by rw [hb1']; exact hb62)
    (by rw [hkb]; exact hb1) (by rw [hkb]; exact hb62) hp1.le hIn hbd1 hk.hDm0 hk.hm
  have hHp0 := prodBound_nonneg key.dsize key.mat.colsIn key.mat.rows N (2 ^ (b - 1) + 2 ^ key.base2k) Dm (by positivity) hk.hDm0
  have hAcc : prodBound key.dsize key.mat.colsIn key.mat.rows N (2 ^ (b - 1) + 2 ^ key.base2k) Dm
      + 2 * (2 ^ (b - 1) + 2 ^ key.base2k) + 8 ≤ 2 ^ (bitsOf big128 - 2) := by rw [hkb]; exact hk.hAcc
  obtain ⟨r2, aConv, hfused, hconv', gw2, hb2, hs2, hr2, E1, E3, Q, hE1, hE3, hn1, hn3, hmain, hbound⟩ :=
    glwe_automorphism_fused_decrypts f big128 N x.base2k x.size x.rank x key sk gInv EL KL (2 ^ (b - 1))
      (prodBound key.dsize key.mat.colsIn key.mat.rows N (2 ^ (b - 1) + 2 ^ key.base2k) Dm) hN hg hsk hk.hinv hw1
      (by rw [hrk1]; exact hk.hrank) (by rw [hrk1]; exact hk.hrout) rfl hk.hc0 hk.hD hk.hM hk.hS
      (by rw [hb1']; exact hb1) (by rw [hb1']; exact hb62) (by rw [hkb]; exact hb1) (by rw [hkb]; exact hb62)
      (by rw [hb1']; exact hb1) (by rw [hb1']; exact hb62) hp1.le hIn hbd1 hHp0 hAcc hprod hk.hs hk.hEL hk.hKL hk.hkey
      (by rw [hcs]; exact hk.hcov1) (by rw [hcs]; exact hk.hcov2)
  have hdig := automorphismFused_digits f big128 N x.base2k x.size x.rank x key sk gInv EL KL (2 ^ (b - 1))
      (prodBound key.dsize key.mat.colsIn key.mat.rows N (2 ^ (b - 1) + 2 ^ key.base2k) Dm) hN hg hw1
      (by rw [hrk1]; exact hk.hrank) (by rw [hrk1]; exact hk.hrout) rfl hk.hc0 hk.hD hk.hM hk.hS
      (by rw [hb1']; exact hb1) (by rw [hb1']; exact hb62) (by rw [hkb]; exact hb1) (by rw [hkb]; exact hb62)
      (by rw [hb1']; exact hb1) (by rw [hb1']; exact hb62) hp1.le hIn hbd1 hHp0 hAcc hprod hk.hEL hk.hKL hk.hkey r2 hfused
  rw [hconv] at hconv'
  injection hconv' with hconv'
  subst hconv'
  rw [hb1'] at hb2 hdig
  rw [hsz1] at hs2
  rw [hrk1] at hr2
  have hGl : (Ks.errL N key.base2k (aDftOf x) key EL).length = N := Ks.errL_length N _ _ _ EL hk.hEL
  have hDl := dropL_length N key.base2k (sk.map (σ gInv)) (aDftOf x) key hk.hc0 hk.hM
  have hErrl := ksErr_length N (2 ^ (x.base2k * x.size + key.base2k * (key.mat.size - convSize x key)))
    (2 ^ (x.base2k * x.size + x.base2k * x.size)) 0 E1 _ _ (zeroP N) hE1 hGl hDl (by simp [zeroP])
  rw [hb1', hsz1, hkb, hcs] at hmain hbound hErrl hn1
  rw [hb1', hsz1, hkb] at hn3
  rw [hrk1] at hn1 hn3 hbound
  generalize hERR : ksErr (2 ^ (b * S + b * (key.mat.size - S))) (2 ^ (b * S + b * S)) 0 E1
    (Ks.errL N b (aDftOf x) key EL) (Ks.dropL N b (sk.map (σ gInv)) (aDftOf x) key) (zeroP N) = ERR at hmain hbound hErrl
  have hσl : (σ key.p ERR).length = N := by rw [σ_length, hErrl]
  have hn1' : normInf E1 ≤ 0 := by
    have : C02.normTol (b * S) (b * S) = 0 := by simp [C02.normTol]
    rw [this, mul_zero] at hn1
    exact hn1
  have hE1z : Ks.ι N E1 = 0 := ι_of_normInf_zero N E1 hn1'
  have hnoise := hk.hnoise x hw1 hb1' hsz1 hrk1 hbd1
  have hsg : |sgA f| = 1 := by cases f <;> simp [sgA]
  refine ⟨r2, by rw [hrk1, hb1', hsz1] at hfused; exact hfused, ⟨gw2, hb2, hs2, hr2, hdig⟩,
    polyAdd (polyScale (sgA f) (σ key.p ERR)) (polyScale (2 ^ (b * S)) E3), Q, by simp [hσl, hE3], ?_, ?_⟩
  · have a1 := normInf_polyAdd_le (polyScale (sgA f) (σ key.p ERR)) (polyScale (2 ^ (b * S)) E3)
    rw [normInf_polyScale, normInf_polyScale, hsg, one_mul] at a1
    have p2 : (0 : Int) ≤ 2 ^ (b * S) := by positivity
    rw [abs_of_nonneg p2] at a1
    have m3 := mul_le_mul_of_nonneg_left hn3 p2
    have : C02.normTol (b * S) (b * S) = 0 := by simp [C02.normTol]
    rw [this] at hbound
    simp only [mul_zero] at hbound
    linarith
  · unfold vph cc
    rw [Ks.ι_add N _ _ (by simp [hσl, hE3]), Ks.ι_polyScale, Ks.ι_polyScale]
    simp only [Ks.ι_polyScale, hE1z] at hmain
    simp only [zsmul_eq_mul]
    push_cast at hmain ⊢
    linear_combination hmain

/-- the plain `glwe_automorphism_assign` on a balanced input: `c•φ(r) = c•σ_g(φ(x)) + ι EA + (c·2^M)•k`, `‖EA‖∞ ≤ BA`, digits `≤ 2^b − 1` -/
theorem autoAssign_spec (big128 : Bool) {N : ℕ} (hN : 0 < N) (b S rk : ℕ) (hb1 : 1 ≤ b) (hb62 : b ≤ 62) (x : Ks.Ct) (key : Ks.Key)
    (sk : List Poly) (gInv : Int) (EL KL : ℕ → ℕ → Poly) (Dm BA : Int) (hsk : Ks.AllLen N sk) (hg : GalOk key.p N)
    (hx : TraceInv N b S rk (2 ^ (b - 1)) x) (hk : MergeKeyOk big128 N b S rk sk key gInv EL KL Dm BA) :
    ∃ r, Ks.autoAssign big128 x key = .ok r ∧ TraceInv N b S rk (2 ^ b - 1) r ∧
      ∃ (EA : Poly) (k : Ks.R N), EA.length = N ∧ normInf EA ≤ BA ∧
        cc b S key.mat.size • vph N b sk r
          = cc b S key.mat.size • Ks.ι N (σ key.p (valP b N (phase sk x))) + Ks.ι N EA + (cc b S key.mat.size * 2 ^ (b * S)) • k := by
  obtain ⟨hw1, hb1', hsz1, hrk1, hbd1⟩ := hx
  have hnoiseP := hk.hnoiseP x hw1 hb1' hsz1 hrk1 hbd1
  have hk := hk.tr
  have hkb : key.base2k = b := hk.hbk
  have hp1 : (0 : Int) < 2 ^ (b - 1) := by positivity
  have hIn : (2 : Int) ^ (b - 1) + 8 ≤ 2 ^ 62 := by
    have : (2 : Int) ^ (b - 1) ≤ 2 ^ 61 := pow_le_pow_right₀ (by norm_num) (by omega)
    linarith
  have hconv : Ks.convIn x key = .ok x := convIn_same x key (by rw [hb1', hkb])
  have hcs : convSize x key = S := by rw [convSize_same_radix x key (by rw [hb1', hkb]), hsz1]
  have hrout' : x.rank + 1 = key.mat.colsOut := by
    rw [hrk1, hk.hrout]; have := hk.hc0; unfold Ks.Key.rankOut; omega
  have hprod := prodOf_conv_bound N x.rank x key (2 ^ (b - 1)) Dm hw1 hrout' hk.hD (by rw [hb1']; exact hb1) (by rw [hb1']; exact hb62)
    (by rw [hkb]; exact hb1) (by rw [hkb]; exact hb62) hp1.le hIn hbd1 hk.hDm0 hk.hm
  have hHp0 := prodBound_nonneg key.dsize key.mat.colsIn key.mat.rows N (2 ^ (b - 1) + 2 ^ key.base2k) Dm (by positivity) hk.hDm0
  have hAcc : prodBound key.dsize key.mat.colsIn key.mat.rows N (2 ^ (b - 1) + 2 ^ key.base2k) Dm
      + (2 ^ (b - 1) + 2 ^ key.base2k) + 8 ≤ 2 ^ (bitsOf big128 - 2) := by
    have := hk.hAcc
    rw [hkb]
    have p : (0 : ℤ) < 2 ^ b := by positivity
    linarith
  obtain ⟨r2, aConv, hauto, hconv', gw2, hb2, hs2, hr2, E1, E3, Q, hE1, hE3, hn1, hn3, hmain, hbound⟩ :=
    glwe_automorphism_decrypts big128 N x.base2k x.size x.rank x key sk gInv EL KL (2 ^ (b - 1))
      (prodBound key.dsize key.mat.colsIn key.mat.rows N (2 ^ (b - 1) + 2 ^ key.base2k) Dm) hN hg hsk hk.hinv hw1
      (by rw [hrk1]; exact hk.hrank) (by rw [hrk1]; exact hk.hrout) hk.hc0 hk.hD hk.hM hk.hS
      (by rw [hb1']; exact hb1) (by rw [hb1']; exact hb62) (by rw [hkb]; exact hb1) (by rw [hkb]; exact hb62)
      (by rw [hb1']; exact hb1) (by rw [hb1']; exact hb62) hp1.le hIn hbd1 hHp0 hAcc hprod hk.hs hk.hEL hk.hKL hk.hkey
      (by rw [hcs]; exact hk.hcov1) (by rw [hcs]; exact hk.hcov2)
  -- the digits of the result
  have hdig : GBound (2 ^ b - 1) r2 := by
    have h := hauto
    unfold Ks.automorphism at h
    obtain ⟨r0, hks, h⟩ := Ks.obind_ok h
    injection h with h
    subst h
    have hd0 := keyswitch_digits big128 N x.base2k x.size x.rank x key sk (sk.map (σ gInv)) EL KL (2 ^ (b - 1))
      (prodBound key.dsize key.mat.colsIn key.mat.rows N (2 ^ (b - 1) + 2 ^ key.base2k) Dm) hN hw1
      (by rw [hrk1]; exact hk.hrank) (by rw [hrk1]; exact hk.hrout) hk.hc0 hk.hD hk.hM hk.hS
      (by rw [hb1']; exact hb1) (by rw [hb1']; exact hb62) (by rw [hkb]; exact hb1) (by rw [hkb]; exact hb62)
      (by rw [hb1']; exact hb1) (by rw [hb1']; exact hb62) hp1.le hIn hbd1 hHp0 hAcc hprod hk.hEL hk.hKL hk.hkey r0 hks
    have hcolsσ : r0.cols.map (vecAutomorphismAssignW w64 key.p) = r0.cols.map (fun c => c.map (σ key.p)) := by
      apply List.map_congr_left
      intro c hc
      unfold vecAutomorphismAssignW
      apply List.map_congr_left
      intro l hl
      apply auto_w64_eq_id
      intro v hv
      have h1 := abs_le.mp (hd0 c hc l hl v hv)
      have h2 : (2 : Int) ^ x.base2k ≤ 2 ^ 62 := pow_le_pow_right₀ (by norm_num) (by rw [hb1']; exact hb62)
      constructor <;> linarith
    have hcols : (Ks.ctMapCols r0 (vecAutomorphismAssignW w64 key.p)).cols = r0.cols.map (fun c => c.map (σ key.p)) := hcolsσ
    intro c hc l hl v hv
    have hlen : l.length = N := (gw2.2.2 c hc).2 l hl
    rw [hcols] at hc
    obtain ⟨c0, hc0, rfl⟩ := List.mem_map.mp hc
    obtain ⟨l0, hl0, rfl⟩ := List.mem_map.mp hl
    rw [σ_length] at hlen
    have := σ_bound key.p l0 (by rw [hlen]; exact hN) (by rw [hlen]; exact hg) _ (hd0 c0 hc0 l0 hl0) v hv
    rw [hb1'] at this
    exact this
  rw [hconv] at hconv'
  injection hconv' with hconv'
  subst hconv'
  rw [hb1'] at hb2
  rw [hsz1] at hs2
  rw [hrk1] at hr2
  have hGl : (Ks.errL N key.base2k (aDftOf x) key EL).length = N := Ks.errL_length N _ _ _ EL hk.hEL
  have hDl := dropL_length N key.base2k (sk.map (σ gInv)) (aDftOf x) key hk.hc0 hk.hM
  have hErrl := ksErr_length N (2 ^ (x.base2k * x.size + key.base2k * (key.mat.size - convSize x key)))
    (2 ^ (x.base2k * x.size + x.base2k * x.size)) (2 ^ (x.base2k * x.size)) E1 _ _ E3 hE1 hGl hDl hE3
  rw [hb1', hsz1, hkb, hcs] at hmain hbound hErrl
  rw [hrk1] at hbound
  generalize hERR : ksErr (2 ^ (b * S + b * (key.mat.size - S))) (2 ^ (b * S + b * S)) (2 ^ (b * S)) E1
    (Ks.errL N b (aDftOf x) key EL) (Ks.dropL N b (sk.map (σ gInv)) (aDftOf x) key) E3 = ERR at hmain hbound hErrl
  refine ⟨r2, hauto, ⟨gw2, hb2, hs2, hr2, hdig⟩, σ key.p ERR, Q, by rw [σ_length, hErrl], ?_, ?_⟩
  · have : C02.normTol (b * S) (b * S) = 0 := by simp [C02.normTol]
    rw [this] at hbound
    simp only [mul_zero, zero_add] at hbound
    linarith
  · unfold vph cc
    simp only [zsmul_eq_mul]
    push_cast at hmain ⊢
    linear_combination hmain

/-! ### 3. the three code paths of a merge -/

theorem headRoom_mono {bits b lsh : ℕ} {H H' : ℤ} (h : NormL.HeadRoom bits b lsh H) (h0 : 0 ≤ H') (hle : H' ≤ H) :
    NormL.HeadRoom bits b lsh H' := ⟨h.hbits, h.hlsh, h.hbb, h0, by linarith [h.hH]⟩

theorem TraceInv.mono {N b S rk : ℕ} {H H' : ℤ} {x : Ks.Ct} (hx : TraceInv N b S rk H x) (hle : H ≤ H') : TraceInv N b S rk H' x :=
  ⟨hx.1, hx.2.1, hx.2.2.1, hx.2.2.2.1, GBound.mono hx.2.2.2.2 hle⟩

/-- the bound on the error of one merge, relative to the scale `2c`: two rounding units of `glwe_rsh` (`2(1+‖sk‖₁)` each, scaled by `c`)
and twice the automorphism noise of the level's key -/
def mergeBeta (b S Sk rk : ℕ) (sk : List Poly) (BA : ℤ) : ℤ :=
  cc b S Sk * (4 * (1 + snorm (min rk sk.length) sk)) + 2 * BA

/-- the rotation amount of `pack_internal` is `t_i` -/
theorem mergeT_eq (K i : ℕ) : ((2 ^ (Ks.log2Nat (2 ^ K) - i - 1) : ℕ) : ℤ) = ((tt K i : ℕ) : ℤ) := by
  unfold tt Ks.log2Nat
  rw [Nat.log2_two_pow, Nat.sub_right_comm]

/-- the conclusion of a merge: shape and digits of the result, and
`(2c)•φ(r) = c•U_i(φ_a, φ_b) + ι Err + (2c·2^M)•w`, `‖Err‖∞ ≤ mergeBeta` -/
def MergeOut (K i b S Sk rk : ℕ) (H β : ℤ) (sk : List Poly) (pa pb : Ks.R (2 ^ K)) (r : Ks.Ct) : Prop :=
  TraceInv (2 ^ K) b S rk H r ∧ ∃ (ErrL : Poly) (w0 : Ks.R (2 ^ K)), ErrL.length = 2 ^ K ∧ normInf ErrL ≤ β ∧
    (2 * cc b S Sk) • vph (2 ^ K) b sk r = cc b S Sk • U K i pa pb + Ks.ι (2 ^ K) ErrL + (2 * cc b S Sk * 2 ^ (b * S)) • w0

/-- **the `both` code path** of `pack_internal`: rotate / sub / rsh / add / rsh / normalize / automorphism / sub / normalize / rotate -/
theorem merge_both (big128 : Bool) (K i : ℕ) (hi : i < K) (b S rk : ℕ) (hb62 : b ≤ 62) (H : ℤ) (hH : 2 ^ b - 1 ≤ H)
    (hh2 : NormL.HeadRoom 64 b 0 (H + H)) (key : Ks.Key) (sk : List Poly) (gInv : Int) (EL KL : ℕ → ℕ → Poly) (Dm BA : Int)
    (hsk : Ks.AllLen (2 ^ K) sk) (hg : IsLvl (2 ^ K) key.p i)
    (hk : MergeKeyOk big128 (2 ^ K) b S rk sk key gInv EL KL Dm BA)
    (a bb sh : Ks.Ct) (ha : TraceInv (2 ^ K) b S rk H a) (hbb : TraceInv (2 ^ K) b S rk H bb) :
    ∃ r, Ks.mergeStep big128 (2 ^ K) i key (some a) (some bb) sh = .ok (some r) ∧
      MergeOut K i b S key.mat.size rk H (mergeBeta b S key.mat.size rk sk BA) sk (vph (2 ^ K) b sk a) (vph (2 ^ K) b sk bb) r := by
  have hN : 0 < 2 ^ K := by positivity
  have hb1 : 1 ≤ b := hh2.hlsh
  have hpb : (1 : ℤ) ≤ 2 ^ (b - 1) := one_le_pow₀ (by norm_num)
  have hpb2 : (2 : ℤ) ^ b = 2 * 2 ^ (b - 1) := by
    rw [show b = (b - 1) + 1 by omega, pow_succ]; simp; ring
  have hH0 : 0 ≤ H := by linarith
  have hH62 : H < 2 ^ 62 := by
    have := hh2.hH
    have p : (0 : ℤ) < 2 ^ b := by positivity
    norm_num at this ⊢
    linarith
  have hbal62 : (2 : ℤ) ^ (b - 1) < 2 ^ 62 := by
    have : (2 : Int) ^ (b - 1) ≤ 2 ^ 61 := pow_le_pow_right₀ (by norm_num) (by omega)
    linarith
  have hdig62 : (2 : ℤ) ^ b - 1 < 2 ^ 62 := by
    have : (2 : Int) ^ b ≤ 2 ^ 62 := pow_le_pow_right₀ (by norm_num) hb62
    linarith
  -- 1. a1 = X^{-t}·a
  obtain ⟨a1, ok1, inv1, v1⟩ := rotAssign_spec b S rk H hH62 (-((2 ^ (Ks.log2Nat (2 ^ K) - i - 1) : ℕ) : ℤ)) a ha
  -- 2. tmp1 = a1 - b
  obtain ⟨tmp1, ok2, inv2, v2⟩ := sub_spec b S rk H H hH0 hH0 hH62 hH62 a1 bb (Ks.zeroLike a) inv1 hbb (zeroLike_inv ha hH0)
  -- 3. tmp2 = rsh1 tmp1
  obtain ⟨tmp2, ok3, _, inv3, e1, k1, he1, hne1, v3⟩ := rsh1_spec hN b S rk (H + H) sk tmp1 inv2 hh2
  -- 4. a2 = a1 + b
  obtain ⟨a2, ok4, inv4, v4⟩ := addAssign_spec b S rk H H hH0 hH62 hH62 a1 bb inv1 hbb
  -- 5. a3 = rsh1 a2
  obtain ⟨a3, ok5, _, inv5, e2, k2, he2, hne2, v5⟩ := rsh1_spec hN b S rk (H + H) sk a2 inv4 hh2
  -- 6. tmp3 = normalize tmp2
  obtain ⟨tmp3, ok6, inv6, k3, v6⟩ := normAssign_spec hN b S rk (2 ^ (b - 1)) sk tmp2 inv3
    (headRoom_mono hh2 (by positivity) (by linarith))
  -- 7. tmp4 = σ(tmp3)
  obtain ⟨tmp4, ok7, inv7, EA, k4, hEA, hnEA, v7⟩ := autoAssign_spec big128 hN b S rk hb1 hb62 tmp3 key sk gInv EL KL Dm BA hsk hg.1 inv6 hk
  -- 8. a4 = a3 - tmp4
  obtain ⟨a4, ok8, inv8, v8⟩ := subAssign_spec b S rk (2 ^ (b - 1)) (2 ^ b - 1) (by linarith) hbal62 hdig62 a3 tmp4 inv5 inv7
  -- 9. a5 = normalize a4
  obtain ⟨a5, ok9, inv9, k5, v9⟩ := normAssign_spec hN b S rk (2 ^ (b - 1) + (2 ^ b - 1)) sk a4 inv8
    (headRoom_mono hh2 (by linarith) (by linarith))
  -- 10. a6 = X^t·a5
  obtain ⟨a6, ok10, inv10, v10⟩ := rotAssign_spec b S rk (2 ^ (b - 1)) hbal62 (((2 ^ (Ks.log2Nat (2 ^ K) - i - 1) : ℕ) : ℤ)) a5 inv9
  refine ⟨a6, ?_, inv10.mono (by linarith), ?_⟩
  · simp only [Ks.mergeStep, ok1, ok2, ok3, ok4, ok5, ok6, ok7, ok8, ok9, ok10, Ks.obind]
  -- the ring relations
  have hlv : ∀ y : Poly, y.length = 2 ^ K → Ks.ι (2 ^ K) (σ key.p y) = sig (2 ^ K) (lvl (2 ^ K) i) (Ks.ι (2 ^ K) y) :=
    fun y hy => ι_σ_lvl (2 ^ K) hN key.p i hg y hy
  have r1 : rt (2 ^ K) ^ tt K i * vph (2 ^ K) b sk a1 = vph (2 ^ K) b sk a := by
    unfold vph
    rw [v1 sk, mergeT_eq]
    exact ι_rotP_neg (2 ^ K) hN (tt K i) _ (by simp)
  have r10 : vph (2 ^ K) b sk a6 = rt (2 ^ K) ^ tt K i * vph (2 ^ K) b sk a5 := by
    unfold vph
    rw [v10 sk, mergeT_eq]
    exact ι_rotP_nat (2 ^ K) hN (tt K i) _ (by simp)
  have r7 : cc b S key.mat.size • vph (2 ^ K) b sk tmp4
      = cc b S key.mat.size • sig (2 ^ K) (lvl (2 ^ K) i) (vph (2 ^ K) b sk tmp3) + Ks.ι (2 ^ K) EA
        + (cc b S key.mat.size * 2 ^ (b * S)) • k4 := by
    have h := v7
    rw [hlv _ (by simp)] at h
    exact h
  generalize hc : cc b S key.mat.size = c at *
  generalize hQ : (2 : ℤ) ^ (b * S) = Q at *
  generalize hX : rt (2 ^ K) ^ tt K i = X at *
  have hc0 : 0 ≤ c := by rw [← hc]; exact (cc_pos _ _ _).le
  let inner : Poly := polyAdd (polyAdd (polyScale c e2) (polyScale (-c) (σ key.p e1))) (polyScale (-2) EA)
  have hinnerl : inner.length = 2 ^ K := by simp [inner, he1, he2, hEA, σ_length]
  refine ⟨rotP (tt K i : ℤ) inner, X * (k2 - sig (2 ^ K) (lvl (2 ^ K) i) k1 - sig (2 ^ K) (lvl (2 ^ K) i) k3 - k4 + k5),
    by rw [rotP_length, hinnerl], ?_, ?_⟩
  · have n0 := normInf_rotP_le (tt K i : ℤ) inner
    have n1 := normInf_polyAdd_le (polyAdd (polyScale c e2) (polyScale (-c) (σ key.p e1))) (polyScale (-2) EA)
    have n2 := normInf_polyAdd_le (polyScale c e2) (polyScale (-c) (σ key.p e1))
    have n3 := normInf_σ_le key.p e1 (by rw [he1]; exact hN) (by rw [he1]; exact hg.1)
    simp only [normInf_polyScale, abs_neg, abs_of_nonneg hc0, abs_two] at n1 n2
    have m1 := mul_le_mul_of_nonneg_left hne1 hc0
    have m2 := mul_le_mul_of_nonneg_left hne2 hc0
    have m3 := mul_le_mul_of_nonneg_left n3 hc0
    unfold mergeBeta
    rw [hc]
    show normInf (rotP (tt K i : ℤ) inner) ≤ _
    nlinarith
  · have hιinner : Ks.ι (2 ^ K) (rotP (tt K i : ℤ) inner)
        = X * ((c : Ks.R (2 ^ K)) * Ks.ι (2 ^ K) e2 - (c : Ks.R (2 ^ K)) * sig (2 ^ K) (lvl (2 ^ K) i) (Ks.ι (2 ^ K) e1)
            - 2 * Ks.ι (2 ^ K) EA) := by
      rw [ι_rotP_nat (2 ^ K) hN (tt K i) inner hinnerl, hX]
      show X * Ks.ι (2 ^ K) (polyAdd (polyAdd (polyScale c e2) (polyScale (-c) (σ key.p e1))) (polyScale (-2) EA)) = _
      rw [Ks.ι_add _ _ _ (by simp [he1, he2, hEA, σ_length]), Ks.ι_add _ _ _ (by simp [he1, he2, σ_length]),
        Ks.ι_polyScale, Ks.ι_polyScale, Ks.ι_polyScale, hlv e1 he1]
      push_cast; ring
    have s3 := congrArg (sig (2 ^ K) (lvl (2 ^ K) i)) v3
    have s6 := congrArg (sig (2 ^ K) (lvl (2 ^ K) i)) v6
    rw [hιinner, ← U_both K i hi _ _ _ (hX ▸ r1), ← v2 sk, hX]
    have e8 := v8 sk
    have e4 := v4 sk
    simp only [nsmul_eq_mul, zsmul_eq_mul, map_add, map_mul, map_natCast, map_intCast] at s3 s6 v5 v9 r7 ⊢
    push_cast at s3 s6 v5 v9 r7 ⊢
    linear_combination (2 * (c : Ks.R (2 ^ K))) * r10 + (2 * (c : Ks.R (2 ^ K)) * X) * v9 + (2 * (c : Ks.R (2 ^ K)) * X) * e8
      + ((c : Ks.R (2 ^ K)) * X) * v5 + ((c : Ks.R (2 ^ K)) * X) * e4 - (2 * X) * r7 - (2 * (c : Ks.R (2 ^ K)) * X) * s6
      - ((c : Ks.R (2 ^ K)) * X) * s3

/-- **the `only a` code path**: `glwe_rsh(1, a)`, `glwe_automorphism_add_assign(a, key)` (a trace level) -/
theorem merge_lo (big128 : Bool) (K i : ℕ) (b S rk : ℕ) (hb62 : b ≤ 62) (H : ℤ) (hH : 2 ^ b - 1 ≤ H)
    (hh : NormL.HeadRoom 64 b 0 H) (key : Ks.Key) (sk : List Poly) (gInv : Int) (EL KL : ℕ → ℕ → Poly) (Dm BA : Int)
    (hsk : Ks.AllLen (2 ^ K) sk) (hg : IsLvl (2 ^ K) key.p i)
    (hk : TraceKeyOk big128 (2 ^ K) b S rk sk key gInv EL KL Dm BA)
    (a sh : Ks.Ct) (ha : TraceInv (2 ^ K) b S rk H a) :
    ∃ r, Ks.mergeStep big128 (2 ^ K) i key (some a) none sh = .ok (some r) ∧
      MergeOut K i b S key.mat.size rk H (mergeBeta b S key.mat.size rk sk BA) sk (vph (2 ^ K) b sk a) 0 r := by
  have hN : 0 < 2 ^ K := by positivity
  have hb1 : 1 ≤ b := hh.hlsh
  obtain ⟨a1, ok1, _, inv1, e, k, he, hne, v1⟩ := rsh1_spec hN b S rk H sk a ha hh
  obtain ⟨r, ok2, inv2, EA, k', hEA, hnEA, v2⟩ := fused_spec .add big128 hN b S rk hb1 hb62 a1 key sk gInv EL KL Dm BA hsk hg.1 inv1 hk
  refine ⟨r, ?_, inv2.mono hH, ?_⟩
  · simp only [Ks.mergeStep, ok1, Ks.obind, Ks.autoAddAssign, inv1.1.1, inv1.2.1, inv1.2.2.1, inv1.2.2.2.1, ok2]
  have hlv : ∀ y : Poly, y.length = 2 ^ K → Ks.ι (2 ^ K) (σ key.p y) = sig (2 ^ K) (lvl (2 ^ K) i) (Ks.ι (2 ^ K) y) :=
    fun y hy => ι_σ_lvl (2 ^ K) hN key.p i hg y hy
  have r2 : cc b S key.mat.size • vph (2 ^ K) b sk r
      = cc b S key.mat.size • sig (2 ^ K) (lvl (2 ^ K) i) (vph (2 ^ K) b sk a1) + cc b S key.mat.size • vph (2 ^ K) b sk a1
        + Ks.ι (2 ^ K) EA + (cc b S key.mat.size * 2 ^ (b * S)) • k' := by
    have h := v2
    rw [hlv _ (by simp)] at h
    unfold vph at h ⊢
    simpa using h
  generalize hc : cc b S key.mat.size = c at *
  generalize hQ : (2 : ℤ) ^ (b * S) = Q at *
  have hc0 : 0 ≤ c := by rw [← hc]; exact (cc_pos _ _ _).le
  refine ⟨polyAdd (polyScale c (stepL key.p e)) (polyScale 2 EA), k + sig (2 ^ K) (lvl (2 ^ K) i) k + k',
    by simp [stepL_length, he, hEA], ?_, ?_⟩
  · have n1 := normInf_polyAdd_le (polyScale c (stepL key.p e)) (polyScale 2 EA)
    have n2 := normInf_stepL_le key.p e (by rw [he]; exact hN) (by rw [he]; exact hg.1)
    simp only [normInf_polyScale, abs_of_nonneg hc0, abs_two] at n1
    have m1 := mul_le_mul_of_nonneg_left hne hc0
    have m2 := mul_le_mul_of_nonneg_left n2 hc0
    unfold mergeBeta
    rw [hc]
    nlinarith
  · rw [Ks.ι_add _ _ _ (by simp [stepL_length, he, hEA]), Ks.ι_polyScale, Ks.ι_polyScale, ι_stepL (2 ^ K) hN key.p i hg e he]
    have s1 := congrArg (sig (2 ^ K) (lvl (2 ^ K) i)) v1
    unfold U TraceJump.step
    simp only [nsmul_eq_mul, zsmul_eq_mul, map_add, map_mul, map_natCast, map_intCast, map_zero, add_zero, mul_zero] at s1 v1 r2 ⊢
    push_cast at s1 v1 r2 ⊢
    linear_combination (2 : Ks.R (2 ^ K)) * r2 + (c : Ks.R (2 ^ K)) * s1 + (c : Ks.R (2 ^ K)) * v1

/-- **the `only b` code path**: `glwe_rotate(t, tmp, b)`, `glwe_rsh(1, tmp)`, `glwe_automorphism_sub_negate(res, tmp, key)`;
`sh` = the ciphertext whose layout the scratch and the destination take -/
theorem merge_hi (big128 : Bool) (K i : ℕ) (hi : i < K) (b S rk : ℕ) (hb62 : b ≤ 62) (H : ℤ) (hH : 2 ^ b - 1 ≤ H)
    (hh2 : NormL.HeadRoom 64 b 0 (H + H)) (key : Ks.Key) (sk : List Poly) (gInv : Int) (EL KL : ℕ → ℕ → Poly) (Dm BA : Int)
    (hsk : Ks.AllLen (2 ^ K) sk) (hg : IsLvl (2 ^ K) key.p i)
    (hk : TraceKeyOk big128 (2 ^ K) b S rk sk key gInv EL KL Dm BA)
    (bb sh : Ks.Ct) (hbb : TraceInv (2 ^ K) b S rk H bb) (hsh : TraceInv (2 ^ K) b S rk H sh) :
    ∃ r, Ks.mergeStep big128 (2 ^ K) i key none (some bb) sh = .ok (some r) ∧
      MergeOut K i b S key.mat.size rk H (mergeBeta b S key.mat.size rk sk BA) sk 0 (vph (2 ^ K) b sk bb) r := by
  have hN : 0 < 2 ^ K := by positivity
  have hb1 : 1 ≤ b := hh2.hlsh
  have hpb : (0 : ℤ) < 2 ^ b := by positivity
  have hH0 : 0 ≤ H := by
    have : (1 : ℤ) ≤ 2 ^ b := one_le_pow₀ (by norm_num)
    linarith
  have hH62 : H < 2 ^ 62 := by
    have := hh2.hH
    norm_num at this ⊢
    linarith
  have hh : NormL.HeadRoom 64 b 0 H := headRoom_mono hh2 hH0 (by linarith)
  obtain ⟨tmp1, ok1, inv1, v1⟩ := rotate_spec b S rk H hH0 hH62 (((2 ^ (Ks.log2Nat (2 ^ K) - i - 1) : ℕ) : ℤ)) bb (Ks.zeroLike sh) hbb
    (zeroLike_inv hsh hH0)
  obtain ⟨tmp2, ok2, _, inv2, e, k, he, hne, v2⟩ := rsh1_spec hN b S rk H sk tmp1 inv1 hh
  obtain ⟨r, ok3, inv3, EA, k', hEA, hnEA, v3⟩ := fused_spec .subNegate big128 hN b S rk hb1 hb62 tmp2 key sk gInv EL KL Dm BA hsk hg.1 inv2 hk
  refine ⟨r, ?_, inv3.mono hH, ?_⟩
  · simp only [Ks.mergeStep, ok1, ok2, Ks.obind, Ks.autoSubNegate, inv2.1.1, hsh.2.1, hsh.2.2.1, hsh.2.2.2.1, ok3]
  have hlv : ∀ y : Poly, y.length = 2 ^ K → Ks.ι (2 ^ K) (σ key.p y) = sig (2 ^ K) (lvl (2 ^ K) i) (Ks.ι (2 ^ K) y) :=
    fun y hy => ι_σ_lvl (2 ^ K) hN key.p i hg y hy
  have r1 : vph (2 ^ K) b sk tmp1 = rt (2 ^ K) ^ tt K i * vph (2 ^ K) b sk bb := by
    unfold vph
    rw [v1 sk, mergeT_eq]
    exact ι_rotP_nat (2 ^ K) hN (tt K i) _ (by simp)
  have r3 : cc b S key.mat.size • vph (2 ^ K) b sk r
      = -(cc b S key.mat.size • sig (2 ^ K) (lvl (2 ^ K) i) (vph (2 ^ K) b sk tmp2)) + cc b S key.mat.size • vph (2 ^ K) b sk tmp2
        + Ks.ι (2 ^ K) EA + (cc b S key.mat.size * 2 ^ (b * S)) • k' := by
    have h := v3
    rw [hlv _ (by simp)] at h
    unfold vph at h ⊢
    simpa using h
  generalize hc : cc b S key.mat.size = c at *
  generalize hQ : (2 : ℤ) ^ (b * S) = Q at *
  have hc0 : 0 ≤ c := by rw [← hc]; exact (cc_pos _ _ _).le
  refine ⟨polyAdd (polyAdd (polyScale c e) (polyScale (-c) (σ key.p e))) (polyScale 2 EA), k - sig (2 ^ K) (lvl (2 ^ K) i) k + k',
    by simp [σ_length, he, hEA], ?_, ?_⟩
  · have n1 := normInf_polyAdd_le (polyAdd (polyScale c e) (polyScale (-c) (σ key.p e))) (polyScale 2 EA)
    have n2 := normInf_polyAdd_le (polyScale c e) (polyScale (-c) (σ key.p e))
    have n3 := normInf_σ_le key.p e (by rw [he]; exact hN) (by rw [he]; exact hg.1)
    simp only [normInf_polyScale, abs_neg, abs_of_nonneg hc0, abs_two] at n1 n2
    have m1 := mul_le_mul_of_nonneg_left hne hc0
    have m3 := mul_le_mul_of_nonneg_left n3 hc0
    unfold mergeBeta
    rw [hc]
    nlinarith
  · rw [Ks.ι_add _ _ _ (by simp [σ_length, he, hEA]), Ks.ι_add _ _ _ (by simp [σ_length, he]), Ks.ι_polyScale, Ks.ι_polyScale,
      Ks.ι_polyScale, hlv e he, ← U_hi K i hi, ← r1]
    have s2 := congrArg (sig (2 ^ K) (lvl (2 ^ K) i)) v2
    simp only [nsmul_eq_mul, zsmul_eq_mul, map_add, map_mul, map_natCast, map_intCast] at s2 v2 r3 ⊢
    push_cast at s2 v2 r3 ⊢
    linear_combination (2 : Ks.R (2 ^ K)) * r3 + (c : Ks.R (2 ^ K)) * v2 - (c : Ks.R (2 ^ K)) * s2

/-- the class of the phase value of an optional ciphertext (absent = `0`) -/
noncomputable def ov (K b : ℕ) (sk : List Poly) (o : Option Ks.Ct) : Ks.R (2 ^ K) := Ks.optPh (vph (2 ^ K) b sk) o

/-- every present ciphertext has the running layout and digit bound -/
def OptInv (N b S rk : ℕ) (H : ℤ) (o : Option Ks.Ct) : Prop := ∀ x, o = some x → TraceInv N b S rk H x

theorem mergeBeta_nonneg (b S Sk rk : ℕ) (sk : List Poly) (BA : ℤ) (hBA : 0 ≤ BA) : 0 ≤ mergeBeta b S Sk rk sk BA := by
  unfold mergeBeta
  have h1 := snorm_nonneg (min rk sk.length) sk
  have h2 := (cc_pos b S Sk).le
  have : 0 ≤ cc b S Sk * (4 * (1 + snorm (min rk sk.length) sk)) := mul_nonneg h2 (by linarith)
  linarith

/-- **`merge_level_decrypts`** — one executed merge `Ks.mergeStep` at level `i` (all four presence cases).  Operands: present ones are well
formed, in the key radix `b`, `S` limbs, rank `rk`, digits `≤ H` (`2^b − 1 ≤ H`, C08 head-room for `2H`: the un-normalised `a·X^{−t} ± b`);
`sh` (used only on the `only b` path) has the same layout.  Key of the level: `MergeKeyOk` (noise bound `BA`).  Then the result is present iff
an operand is, has the same layout and digits `≤ H`, and with `c = 2^(M + b·S_key)`, `M = b·S`, in `R = ℤ[X]/(X^N+1)`:
`(2c)•φ(r) = c•U_i(φ_a, φ_b) + ι Err + (2c·2^M)•w`, `‖Err‖∞ ≤ c·4(1+‖sk‖₁) + 2·BA` (absent = `0`). -/
theorem merge_level_decrypts (big128 : Bool) (K i : ℕ) (hi : i < K) (b S rk : ℕ) (hb62 : b ≤ 62) (H : ℤ) (hH : 2 ^ b - 1 ≤ H)
    (hh2 : NormL.HeadRoom 64 b 0 (H + H)) (key : Ks.Key) (sk : List Poly) (gInv : Int) (EL KL : ℕ → ℕ → Poly) (Dm BA : Int)
    (hBA : 0 ≤ BA) (hsk : Ks.AllLen (2 ^ K) sk) (hg : IsLvl (2 ^ K) key.p i)
    (hk : MergeKeyOk big128 (2 ^ K) b S rk sk key gInv EL KL Dm BA)
    (a bo : Option Ks.Ct) (sh : Ks.Ct) (ha : OptInv (2 ^ K) b S rk H a) (hb : OptInv (2 ^ K) b S rk H bo)
    (hsh : a = none → bo.isSome → TraceInv (2 ^ K) b S rk H sh)
    (r : Option Ks.Ct) (h : Ks.mergeStep big128 (2 ^ K) i key a bo sh = .ok r) :
    OptInv (2 ^ K) b S rk H r ∧ r.isSome = (a.isSome || bo.isSome) ∧
      ∃ (ErrL : Poly) (w0 : Ks.R (2 ^ K)), ErrL.length = 2 ^ K ∧ normInf ErrL ≤ mergeBeta b S key.mat.size rk sk BA ∧
        (2 * cc b S key.mat.size) • ov K b sk r
          = cc b S key.mat.size • U K i (ov K b sk a) (ov K b sk bo) + Ks.ι (2 ^ K) ErrL
            + (2 * cc b S key.mat.size * 2 ^ (b * S)) • w0 := by
  have hH0 : 0 ≤ H := by
    have : (1 : ℤ) ≤ 2 ^ b := one_le_pow₀ (by norm_num)
    linarith
  have fin : ∀ (pa pb : Ks.R (2 ^ K)) (x : Ks.Ct),
      MergeOut K i b S key.mat.size rk H (mergeBeta b S key.mat.size rk sk BA) sk pa pb x →
      OptInv (2 ^ K) b S rk H (some x) ∧ ∃ (ErrL : Poly) (w0 : Ks.R (2 ^ K)), ErrL.length = 2 ^ K ∧
        normInf ErrL ≤ mergeBeta b S key.mat.size rk sk BA ∧
        (2 * cc b S key.mat.size) • ov K b sk (some x)
          = cc b S key.mat.size • U K i pa pb + Ks.ι (2 ^ K) ErrL + (2 * cc b S key.mat.size * 2 ^ (b * S)) • w0 := by
    intro pa pb x hx
    refine ⟨fun y hy => ?_, hx.2⟩
    injection hy with hy
    subst hy
    exact hx.1
  cases a with
  | some a =>
    cases bo with
    | some bb =>
      obtain ⟨x, hx, hout⟩ := merge_both big128 K i hi b S rk hb62 H hH hh2 key sk gInv EL KL Dm BA hsk hg hk a bb sh
        (ha a rfl) (hb bb rfl)
      rw [hx] at h
      injection h with h
      subst h
      obtain ⟨g1, g2⟩ := fin _ _ x hout
      exact ⟨g1, rfl, g2⟩
    | none =>
      obtain ⟨x, hx, hout⟩ := merge_lo big128 K i b S rk hb62 H hH (headRoom_mono hh2 hH0 (by linarith)) key sk gInv EL KL Dm BA
        hsk hg hk.tr a sh (ha a rfl)
      rw [hx] at h
      injection h with h
      subst h
      obtain ⟨g1, g2⟩ := fin _ _ x hout
      exact ⟨g1, rfl, g2⟩
  | none =>
    cases bo with
    | some bb =>
      obtain ⟨x, hx, hout⟩ := merge_hi big128 K i hi b S rk hb62 H hH hh2 key sk gInv EL KL Dm BA hsk hg hk.tr bb sh
        (hb bb rfl) (hsh rfl rfl)
      rw [hx] at h
      injection h with h
      subst h
      obtain ⟨g1, g2⟩ := fin _ _ x hout
      exact ⟨g1, rfl, g2⟩
    | none =>
      simp only [Ks.mergeStep] at h
      injection h with h
      subst h
      refine ⟨fun y hy => (by cases hy), rfl, zeroP (2 ^ K), 0, by simp [zeroP], ?_, ?_⟩
      · rw [normInf_zeroP]; exact mergeBeta_nonneg _ _ _ _ _ _ hBA
      · simp [ov, Ks.ι_zero, U_zero]

/-! ### 4. the level loops -/

/-- `packLevel_rel` with the layout operand `pack_internal` actually passes (`hi` itself on the `only hi` path) -/
theorem packLevel_relSh (R : Option Ks.Ct → Option Ks.Ct → Option Ks.Ct → Prop) (N : Nat) (big128 : Bool) (key : Ks.Key) (i t : Nat)
    (hR : ∀ a b r, Ks.mergeStep big128 N i key a b (b.getD (Ks.mkCt 0 N [])) = .ok r → R a b r)
    (js : List Nat) (hnd : js.Nodup) (hlt : ∀ j ∈ js, j < t) (m m' : Ks.SlotMap)
    (h : Ks.packLevel big128 N i t key js m = .ok m') :
    (∀ j ∈ js, R (m.get j) (m.get (j + t)) (m'.get j)) ∧
    (∀ j ∈ js, m'.get (j + t) = none) ∧
    (∀ k, k ∉ js → (∀ j ∈ js, k ≠ j + t) → m'.get k = m.get k) := by
  induction js generalizing m with
  | nil =>
    simp only [Ks.packLevel] at h
    injection h with h
    subst h
    simp
  | cons j js ih =>
    simp only [Ks.packLevel] at h
    obtain ⟨r, hr, h⟩ := Ks.obind_ok h
    have hjt : j < t := hlt j List.mem_cons_self
    obtain ⟨hjn, hnd'⟩ := List.nodup_cons.mp hnd
    have hlt' : ∀ x ∈ js, x < t := fun x hx => hlt x (List.mem_cons_of_mem _ hx)
    have hmr := hR _ _ r hr
    have g2 : ∃ m2 : Ks.SlotMap, Ks.packLevel big128 N i t key js m2 = .ok m' ∧
        ∀ k, m2.get k = if k = j then r else if k = j + t then none else m.get k := by
      cases r with
      | some c =>
        refine ⟨((m.remove j).remove (j + t)).insert j c, h, fun k => ?_⟩
        simp only [Ks.SlotMap.get_insert, Ks.SlotMap.get_remove]
        by_cases h1 : k = j
        · simp [h1]
        · by_cases h2 : k = j + t <;> simp [h1, h2]
      | none =>
        refine ⟨(m.remove j).remove (j + t), h, fun k => ?_⟩
        simp only [Ks.SlotMap.get_remove]
        by_cases h1 : k = j
        · simp [h1]
        · by_cases h2 : k = j + t <;> simp [h1, h2]
    obtain ⟨m2, h2, g2⟩ := g2
    obtain ⟨I1, I2, I3⟩ := ih hnd' hlt' m2 h2
    have hj' : ∀ x ∈ js, j ≠ x + t := fun x _ => by omega
    refine ⟨?_, ?_, ?_⟩
    · intro x hx
      rcases List.mem_cons.mp hx with hx | hx
      · subst hx
        rw [I3 x hjn hj', g2, if_pos rfl]
        exact hmr
      · have hxt := hlt' x hx
        have hxj : x ≠ j := fun e => hjn (e ▸ hx)
        have := I1 x hx
        rw [g2, g2, if_neg hxj, if_neg (by omega), if_neg (by omega), if_neg (by omega)] at this
        exact this
    · intro x hx
      rcases List.mem_cons.mp hx with hx | hx
      · subst hx
        rw [I3 (x + t) (fun hm => by have := hlt' _ hm; omega)
          (fun y hy e => hjn (by have : x = y := by omega
                                 exact this ▸ hy)), g2, if_neg (by omega), if_pos rfl]
      · exact I2 x hx
    · intro k hk hk'
      have hkj : k ≠ j := fun e => hk (e ▸ List.mem_cons_self)
      have hkjt : k ≠ j + t := hk' j List.mem_cons_self
      rw [I3 k (fun hm => hk (List.mem_cons_of_mem _ hm)) (fun y hy => hk' y (List.mem_cons_of_mem _ hy)), g2,
        if_neg hkj, if_neg hkjt]

/-- the invariant of slot `j` after `i` levels: `(2^i c)•φ = c•A + ι Err + w`, `w` a wrap below level `i`, `‖Err‖∞ ≤ Bd` -/
def SlotInv (K i : ℕ) (c Q : ℤ) (b : ℕ) (sk : List Poly) (A : Ks.R (2 ^ K)) (Bd : ℤ) (o : Option Ks.Ct) : Prop :=
  ∃ (ErrL : Poly) (w : Ks.R (2 ^ K)), ErrL.length = 2 ^ K ∧ normInf ErrL ≤ Bd ∧ Wrap K i (2 ^ K * (c * Q)) w ∧
    (2 ^ i * c) • ov K b sk o = c • A + Ks.ι (2 ^ K) ErrL + w

/-- the hypothesis on the key list: every key carrying the Galois element of a level is admissible for that level, all with `S_key` limbs -/
def PackKeys (big128 : Bool) (K b S Sk rk : ℕ) (sk : List Poly) (keys : List Ks.Key) (BA : ℕ → ℤ) : Prop :=
  ∀ i p key, Ks.traceGalois (2 ^ K) i = .ok p → key ∈ keys → key.p = p →
    key.mat.size = Sk ∧ ∃ gInv EL KL Dm, MergeKeyOk big128 (2 ^ K) b S rk sk key gInv EL KL Dm (BA i)

theorem levelKey_spec (K : ℕ) (hK : K + 1 ≤ 64) (keys : List Ks.Key) (i : ℕ) (key : Ks.Key) (h : Ks.levelKey (2 ^ K) keys i = .ok key) :
    ∃ p, Ks.traceGalois (2 ^ K) i = .ok p ∧ key ∈ keys ∧ key.p = p ∧ IsLvl (2 ^ K) key.p i := by
  unfold Ks.levelKey at h
  obtain ⟨p, hp, h⟩ := Ks.obind_ok h
  cases hf : keys.find? (fun k => k.p == p) with
  | none => rw [hf] at h; simp at h
  | some k =>
    rw [hf] at h
    injection h with h
    subst h
    have hkp : k.p = p := by
      have := List.find?_some hf
      simpa using this
    exact ⟨p, hp, List.mem_of_find?_eq_some hf, hkp, by rw [hkp]; exact traceGalois_isLvl K i hK p hp⟩

/-- **the `L` first levels of `glwe_pack`, executed**: slot `j < 2^(K−L)` of the executed slot map satisfies the level-`L` invariant for
the tree operator `packVal` over the input phases, with the error bound `errB` of the level bounds `mergeBeta`; the other slots are consumed -/
theorem packLevels_inv (big128 : Bool) (K : ℕ) (hK : K + 1 ≤ 64) (keys : List Ks.Key) (sk : List Poly) (b S Sk rk : ℕ) (hb62 : b ≤ 62)
    (H : ℤ) (hH : 2 ^ b - 1 ≤ H) (hh2 : NormL.HeadRoom 64 b 0 (H + H)) (BA : ℕ → ℤ) (hBA : ∀ i, 0 ≤ BA i)
    (hsk : Ks.AllLen (2 ^ K) sk) (hkeys : PackKeys big128 K b S Sk rk sk keys BA)
    (L : ℕ) (hL : L ≤ K) (m m' : Ks.SlotMap) (hm : ∀ j, OptInv (2 ^ K) b S rk H (m.get j)) (hm2 : ∀ j, 2 ^ K ≤ j → m.get j = none)
    (h : Ks.packLevels big128 (2 ^ K) keys (List.range L) m = .ok m') :
    (∀ j, j < 2 ^ (K - L) → SlotInv K L (cc b S Sk) (2 ^ (b * S)) b sk (packVal K (fun j => ov K b sk (m.get j)) L j)
      (errB (fun i => mergeBeta b S Sk rk sk (BA i)) L) (m'.get j)) ∧
    (∀ j, 2 ^ (K - L) ≤ j → m'.get j = none) ∧ (∀ j, OptInv (2 ^ K) b S rk H (m'.get j)) := by
  have hlog : Ks.log2Nat (2 ^ K) = K := by unfold Ks.log2Nat; exact Nat.log2_two_pow
  induction L generalizing m' with
  | zero =>
    simp only [List.range_zero, Ks.packLevels] at h
    injection h with h
    subst h
    refine ⟨fun j _ => ⟨zeroP (2 ^ K), 0, by simp [zeroP], by rw [normInf_zeroP]; exact le_refl _, Wrap.zero _ _ _, ?_⟩,
      fun j hj => hm2 j hj, hm⟩
    simp [packVal, Ks.ι_zero]
  | succ L ih =>
    rw [List.range_succ, Ks.packLevels_append] at h
    obtain ⟨m1, h1, h⟩ := Ks.obind_ok h
    obtain ⟨J1, J2, J3⟩ := ih (Nat.le_of_succ_le hL) m1 h1
    simp only [Ks.packLevels] at h
    obtain ⟨key, hk, h⟩ := Ks.obind_ok h
    obtain ⟨m2, h2, h⟩ := Ks.obind_ok h
    injection h with h
    subst h
    obtain ⟨p, hp, hmem, hkp, hlvl⟩ := levelKey_spec K hK keys L key hk
    obtain ⟨hSk, gInv, EL, KL, Dm, hkey⟩ := hkeys L p key hp hmem hkp
    have hLK : L < K := hL
    rw [hlog] at h2
    have e2 : 2 ^ (K - L) = 2 ^ (K - 1 - L) + 2 ^ (K - 1 - L) := by
      have : K - L = (K - 1 - L) + 1 := by omega
      rw [this, pow_succ]
      omega
    have e3 : K - (L + 1) = K - 1 - L := by omega
    obtain ⟨P1, P2, P3⟩ := packLevel_relSh
      (fun a bo r => OptInv (2 ^ K) b S rk H a → OptInv (2 ^ K) b S rk H bo →
        OptInv (2 ^ K) b S rk H r ∧ r.isSome = (a.isSome || bo.isSome) ∧
        ∃ (ErrL : Poly) (w0 : Ks.R (2 ^ K)), ErrL.length = 2 ^ K ∧ normInf ErrL ≤ mergeBeta b S key.mat.size rk sk (BA L) ∧
          (2 * cc b S key.mat.size) • ov K b sk r
            = cc b S key.mat.size • U K L (ov K b sk a) (ov K b sk bo) + Ks.ι (2 ^ K) ErrL
              + (2 * cc b S key.mat.size * 2 ^ (b * S)) • w0)
      (2 ^ K) big128 key L (2 ^ (K - 1 - L))
      (fun a bo r hr ha hb => merge_level_decrypts big128 K L hLK b S rk hb62 H hH hh2 key sk gInv EL KL Dm (BA L) (hBA L) hsk hlvl hkey
        a bo _ ha hb (fun _ hbs => by
          cases bo with
          | none => simp at hbs
          | some bb => exact hb bb rfl) r hr)
      (List.range (2 ^ (K - 1 - L))) List.nodup_range (fun j hj => List.mem_range.mp hj) m1 m2 h2
    rw [hSk] at P1
    rw [e3]
    refine ⟨fun j hj => ?_, fun j hj => ?_, fun j => ?_⟩
    · obtain ⟨_, _, EL', w0, hEl, hnE, hrel⟩ := P1 j (List.mem_range.mpr hj) (J3 j) (J3 _)
      obtain ⟨Ea, wa, hEa, hnEa, hwa, hra⟩ := J1 j (by omega)
      obtain ⟨Eb, wb, hEb, hnEb, hwb, hrb⟩ := J1 (j + 2 ^ (K - 1 - L)) (by omega)
      obtain ⟨ErrL, w, hlen, hn, hw, hr⟩ := packStep_compose K L hLK (cc b S Sk) (2 ^ (b * S)) key.p hlvl _ _ _ _ _ wa wb w0 Ea Eb EL'
        hEa hEb hEl hra hwa hrb hwb hrel
      refine ⟨ErrL, w, hlen, ?_, hw, hr⟩
      have p2 : (0 : ℤ) ≤ 2 ^ L := by positivity
      have := mul_le_mul_of_nonneg_left hnE p2
      show normInf ErrL ≤ 4 * errB _ L + 2 ^ L * mergeBeta b S Sk rk sk (BA L)
      linarith
    · by_cases hj2 : j < 2 ^ (K - L)
      · have := P2 (j - 2 ^ (K - 1 - L)) (List.mem_range.mpr (by omega))
        rwa [Nat.sub_add_cancel hj] at this
      · rw [P3 j (fun hmem => by have := List.mem_range.mp hmem; omega)
          (fun y hy => by have := List.mem_range.mp hy; omega)]
        exact J2 j (by omega)
    · by_cases hj1 : j < 2 ^ (K - 1 - L)
      · exact (P1 j (List.mem_range.mpr hj1) (J3 j) (J3 _)).1
      · by_cases hj2 : j < 2 ^ (K - L)
        · have := P2 (j - 2 ^ (K - 1 - L)) (List.mem_range.mpr (by omega))
          rw [Nat.sub_add_cancel (by omega)] at this
          rw [this]
          intro y hy; cases hy
        · rw [P3 j (fun hmem => by have := List.mem_range.mp hmem; omega)
            (fun y hy => by have := List.mem_range.mp hy; omega)]
          exact J3 j

/-! ### 5. the trace tail and `glwe_pack` -/

/-- the canonical Galois element of level `i` -/
theorem isLvl_lvl (K i : ℕ) : IsLvl (2 ^ K) ((lvl (2 ^ K) i : ℕ) : ℤ) i := by
  have hodd := lvl_odd (2 ^ K) i (by positivity)
  refine ⟨galOk_pow2 K (by
    have := Nat.odd_iff.mp hodd
    omega), ?_⟩
  have e2 : (2 * ((2 ^ K : ℕ) : ℤ)) = ((2 * 2 ^ K : ℕ) : ℤ) := by push_cast; rfl
  rw [e2, ← Int.natCast_mod, Int.toNat_natCast, Nat.mod_mod]

/-- `glwe_copy` into the same layout keeps the columns -/
theorem copy_same {N b S rk : ℕ} {H : ℤ} {x : Ks.Ct} (hx : TraceInv N b S rk H x) :
    TraceInv N b S rk H (Ks.glweCopy b S x) ∧ ∀ sk, phase sk (Ks.glweCopy b S x) = phase sk x := by
  have hc : x.cols.map (fun c => vecCopy x.n S c) = x.cols := by
    conv_rhs => rw [← List.map_id x.cols]
    apply List.map_congr_left
    intro c hc
    have := (hx.1.2.2 c hc).1
    rw [hx.2.2.1] at this
    rw [vecCopy_nf, fit_self this]; rfl
  have e : Ks.glweCopy b S x = { x with k := 0 } := by
    unfold Ks.glweCopy Ks.mkCt
    rw [hc, ← hx.2.1]
  rw [e]
  exact ⟨⟨hx.1, hx.2.1, hx.2.2.1, hx.2.2.2.1, hx.2.2.2.2⟩, fun sk => rfl⟩

theorem divCeil_same (S b : ℕ) (hb : 1 ≤ b) : Ks.divCeil (S * b) b = S := by
  unfold Ks.divCeil
  have : S * b + b - 1 = b * S + (b - 1) := by
    rw [Nat.mul_comm]; omega
  rw [this, Nat.mul_add_div (by omega), Nat.div_eq_of_lt (by omega), Nat.add_zero]

/-- **`glwe_trace` on a ciphertext already in the key radix, result in the same layout** (`Ks.trace`: the entry / exit copies are the
identity on the columns; the loop is `glwe_trace_assign_decrypts`) -/
theorem trace_same_layout (big128 : Bool) (K : ℕ) (hK : K + 1 ≤ 64) (keys : List Ks.Key) (sk : List Poly) (b S Sk rk : ℕ) (hb62 : b ≤ 62)
    (H : ℤ) (hH : 2 ^ b - 1 ≤ H) (hh : NormL.HeadRoom 64 b 0 H) (BA : ℕ → ℤ)
    (hsk : Ks.AllLen (2 ^ K) sk) (hkeys : PackKeys big128 K b S Sk rk sk keys BA)
    (skip : ℕ) (a0 res : Ks.Ct) (ha0 : TraceInv (2 ^ K) b S rk H a0) (h : Ks.trace big128 b keys skip b S a0 = .ok res) :
    skip ≤ K ∧ TraceInv (2 ^ K) b S rk H res ∧
    ∃ (ErrL : Poly) (z : Ks.R (2 ^ K)), ErrL.length = 2 ^ K ∧
      normInf ErrL ≤ 2 ^ (K - skip) * ∑ t ∈ Finset.range (K - skip),
        (cc b S Sk * (2 * (1 + snorm (min rk sk.length) sk)) + BA (skip + t)) ∧
      (cc b S Sk * 2 ^ (K - skip)) • vph (2 ^ K) b sk res
        = cc b S Sk • traceOp (2 ^ K) (List.range' skip (K - skip)) (vph (2 ^ K) b sk a0) + Ks.ι (2 ^ K) ErrL
          + (cc b S Sk * 2 ^ (K - skip) * 2 ^ (b * S)) • z := by
  have hb1 : 1 ≤ b := hh.hlsh
  unfold Ks.trace at h
  simp only at h
  obtain ⟨tmp, h1, h'⟩ := Ks.obind_ok h
  rw [if_pos ha0.2.1, ha0.2.1, ha0.2.2.1, Nat.max_self, divCeil_same S b hb1] at h1
  injection h1 with h1
  subst h1
  clear h
  obtain ⟨t, h2, h⟩ := Ks.obind_ok h'
  obtain ⟨invT, phT⟩ := copy_same ha0
  obtain ⟨hle, g1, g2, g3, g4, g5, ErrL, z, hl, hn, hrel⟩ := glwe_trace_assign_decrypts big128 K skip hK keys sk (Ks.glweCopy b S a0) t Sk H BA
    hsk invT.1 hh hb62 hH invT.2.2.2.2
    (fun i p key hp hmem hkp => by
      obtain ⟨e1, gInv, EL, KL, Dm, hk⟩ := hkeys i p key hp hmem hkp
      refine ⟨e1, gInv, EL, KL, Dm, ?_⟩
      rw [invT.2.2.1, invT.2.2.2.1]
      exact hk.tr) h2
  rw [if_pos trivial] at h
  injection h with h
  subst h
  have invt : TraceInv (2 ^ K) b S rk H t := ⟨g1, g2, g3.trans invT.2.2.1, g4.trans invT.2.2.2.1, g5⟩
  obtain ⟨invR, phR⟩ := copy_same invt
  refine ⟨hle, invR, ErrL, z, hl, ?_, ?_⟩
  · rw [invT.2.2.1, invT.2.2.2.1] at hn
    exact hn
  · unfold vph cc
    have e : (List.range (K - skip)).map (fun t => skip + t) = List.range' skip (K - skip) := List.range'_eq_map_range.symm
    rw [phR sk, ← phT sk]
    rw [invT.2.2.1, e] at hrel
    exact hrel

/-- constant coefficient of the phase of the input ciphertext of slot `J` (absent slot: `0`) -/
def slotU (b N : ℕ) (sk : List Poly) (a : Ks.SlotMap) (J : ℕ) : ℤ :=
  match a.get J with
  | some x => (valP b N (phase sk x)).getD 0 0
  | none => 0

theorem trace_full_ov (K b : ℕ) (sk : List Poly) (a : Ks.SlotMap) (J : ℕ) :
    traceOp (2 ^ K) (List.range' 0 K) (ov K b sk (a.get J)) = (2 ^ K * slotU b (2 ^ K) sk a J : ℤ) • (1 : Ks.R (2 ^ K)) := by
  cases hJ : a.get J with
  | none => simp [ov, slotU, hJ, traceOp_zero]
  | some x =>
    simp only [ov, slotU, hJ, Ks.optPh_some]
    exact trace_full_coeff0 K _ (by simp)

/-- the error bound of `glwe_pack` relative to the scale `2^K·c`: the `L = K − log_gap_out` merge levels (`errB`, through the `K − L` trace
levels) and the trace levels -/
def packBound (K L b S Sk rk : ℕ) (sk : List Poly) (BA : ℕ → ℤ) : ℤ :=
  2 ^ (K - L) * errB (fun i => mergeBeta b S Sk rk sk (BA i)) L
    + 2 ^ L * (2 ^ (K - L) * ∑ t ∈ Finset.range (K - L), (cc b S Sk * (2 * (1 + snorm (min rk sk.length) sk)) + BA (L + t)))

/-- **`glwe_pack_decrypts`** — END-TO-END theorem of the executed `Ks.pack` (`glwe_pack`), ring form, `N = 2^K`, every subset of slots.

Hypotheses: every input ciphertext is well formed, in the radix `b` of the keys, `S` limbs, rank `rk`, digits `≤ H` (`2^b − 1 ≤ H`, C08
head-room for `2H`); the result is requested in the same layout (`res_base2k = b`, `res_size = S`); every key of the list carrying the Galois
element of a level is `MergeKeyOk` for that level (noise bound `BA i ≥ 0`), all with `S_key` limbs.  With `L = K − log_gap_out`,
`G = 2^(K−L)`, `c = 2^(M + b·S_key)`, `M = b·S`, `u_J` = constant coefficient of the phase of the ciphertext of slot `J` (`0` if absent):

`(2^K·c) • φ(res) = c • Σ_{k<2^L} X^{k·G}·(2^K·u_{k·G}) + ι Err + (2^K·c·2^M) • z`, `‖Err‖∞ ≤ packBound`:

modulo `2^M` (all integer wraps of the `rsh` / `normalize` / key-switch steps of all merges and trace levels are collected into one multiple of
`2^K·c·2^M`: `PackJump.wrap_U`, `wrap_scale`) the result decrypts to `Σ_J X^J·u_J` over the slots `J ∈ G·ℕ`, plus noise `≤ packBound/(2^K c)`. -/
theorem glwe_pack_decrypts (big128 : Bool) (K : ℕ) (hK : K + 1 ≤ 64) (keys : List Ks.Key) (sk : List Poly) (b S Sk rk : ℕ) (hb62 : b ≤ 62)
    (H : ℤ) (hH : 2 ^ b - 1 ≤ H) (hh2 : NormL.HeadRoom 64 b 0 (H + H)) (BA : ℕ → ℤ) (hBA : ∀ i, 0 ≤ BA i)
    (hsk : Ks.AllLen (2 ^ K) sk) (hkeys : PackKeys big128 K b S Sk rk sk keys BA)
    (a : Ks.SlotMap) (logGapOut : ℕ) (res : Ks.Ct) (ha : ∀ j, OptInv (2 ^ K) b S rk H (a.get j))
    (h : Ks.pack big128 (2 ^ K) b keys b S a logGapOut = .ok res) :
    TraceInv (2 ^ K) b S rk H res ∧
    ∃ (ErrL : Poly) (z : Ks.R (2 ^ K)), ErrL.length = 2 ^ K ∧ normInf ErrL ≤ packBound K (K - logGapOut) b S Sk rk sk BA ∧
      (2 ^ K * cc b S Sk) • Ks.ι (2 ^ K) (valP b (2 ^ K) (phase sk res))
        = cc b S Sk • (∑ k ∈ Finset.range (2 ^ (K - logGapOut)), rt (2 ^ K) ^ (k * 2 ^ (K - (K - logGapOut))) *
            ((2 ^ K * slotU b (2 ^ K) sk a (k * 2 ^ (K - (K - logGapOut))) : ℤ) • (1 : Ks.R (2 ^ K))))
          + Ks.ι (2 ^ K) ErrL + (2 ^ K * cc b S Sk * 2 ^ (b * S)) • z := by
  have hN : 0 < 2 ^ K := by positivity
  have hlog : Ks.log2Nat (2 ^ K) = K := by unfold Ks.log2Nat; exact Nat.log2_two_pow
  have hH0 : 0 ≤ H := by
    have : (1 : ℤ) ≤ 2 ^ b := one_le_pow₀ (by norm_num)
    linarith
  have hh : NormL.HeadRoom 64 b 0 H := headRoom_mono hh2 hH0 (by linarith)
  unfold Ks.pack at h
  cases a with
  | nil => simp at h
  | cons p a =>
    simp only at h
    split at h
    · simp at h
    · rename_i hany
      rw [hlog] at h
      obtain ⟨m, hm, h⟩ := Ks.obind_ok h
      generalize hLdef : K - logGapOut = L at *
      have hL : L ≤ K := by omega
      have hb2 : ∀ j, 2 ^ K ≤ j → Ks.SlotMap.get (p :: a) j = none := fun j hj =>
        Ks.SlotMap.get_none_of_any (p :: a) (2 ^ K) (by simpa using hany) j hj
      obtain ⟨J1, _, J3⟩ := packLevels_inv big128 K hK keys sk b S Sk rk hb62 H hH hh2 BA hBA hsk hkeys L hL (p :: a) m ha hb2 hm
      cases h0 : m.get 0 with
      | none => rw [h0] at h; simp at h
      | some a0 =>
        rw [h0] at h
        simp only at h
        have inv0 : TraceInv (2 ^ K) b S rk H a0 := J3 0 a0 h0
        obtain ⟨_, invR, ET, z, hETl, hnET, htr⟩ := trace_same_layout big128 K hK keys sk b S Sk rk hb62 H hH hh BA hsk hkeys L a0 res inv0 h
        obtain ⟨EL, w, hELl, hnEL, hw, hinv⟩ := J1 0 (Nat.pos_of_ne_zero (by positivity))
        rw [h0] at hinv
        obtain ⟨y, hy⟩ := hw
        have hgs : ∀ i ∈ List.range' L (K - L), IsLvl (2 ^ K) ((fun i => ((lvl (2 ^ K) i : ℕ) : ℤ)) i) i := fun i _ => isLvl_lvl K i
        have hTE := ι_traceOpL (2 ^ K) hN (fun i => ((lvl (2 ^ K) i : ℕ) : ℤ)) (List.range' L (K - L)) hgs EL hELl
        have hnTE := normInf_traceOpL_le (2 ^ K) hN (fun i => ((lvl (2 ^ K) i : ℕ) : ℤ)) (List.range' L (K - L))
          (fun i hi => (hgs i hi).1) EL hELl
        rw [List.length_range'] at hnTE
        generalize hTEL : traceOpL (fun i => ((lvl (2 ^ K) i : ℕ) : ℤ)) (List.range' L (K - L)) EL = TEL at *
        have hTELl : TEL.length = 2 ^ K := by rw [← hTEL, traceOpL_length, hELl]
        refine ⟨invR, polyAdd TEL (polyScale (2 ^ L) ET), y + z, by simp [hTELl, hETl], ?_, ?_⟩
        · have n1 := normInf_polyAdd_le TEL (polyScale (2 ^ L) ET)
          rw [normInf_polyScale, abs_of_nonneg (by positivity)] at n1
          have p1 : (0 : ℤ) ≤ 2 ^ (K - L) := by positivity
          have p2 : (0 : ℤ) ≤ 2 ^ L := by positivity
          have m1 := mul_le_mul_of_nonneg_left hnEL p1
          have m2 := mul_le_mul_of_nonneg_left hnET p2
          unfold packBound
          linarith
        · have hT := congrArg (traceOp (2 ^ K) (List.range' L (K - L))) hinv
          rw [traceOp_zsmul, traceOp_add, traceOp_add, traceOp_zsmul, hy, ← hTE, traceOp_packVal K _ L hL 0] at hT
          have hsum : (∑ k ∈ Finset.range (2 ^ L), rt (2 ^ K) ^ (k * 2 ^ (K - L)) *
                traceOp (2 ^ K) (List.range' 0 K) (ov K b sk (Ks.SlotMap.get (p :: a) (0 + k * 2 ^ (K - L)))))
              = ∑ k ∈ Finset.range (2 ^ L), rt (2 ^ K) ^ (k * 2 ^ (K - L)) *
                ((2 ^ K * slotU b (2 ^ K) sk (p :: a) (k * 2 ^ (K - L)) : ℤ) • (1 : Ks.R (2 ^ K))) := by
            apply Finset.sum_congr rfl
            intro k _
            rw [Nat.zero_add, trace_full_ov]
          rw [hsum] at hT
          generalize (∑ k ∈ Finset.range (2 ^ L), rt (2 ^ K) ^ (k * 2 ^ (K - L)) *
                ((2 ^ K * slotU b (2 ^ K) sk (p :: a) (k * 2 ^ (K - L)) : ℤ) • (1 : Ks.R (2 ^ K)))) = SS at *
          have hpow : (2 : Ks.R (2 ^ K)) ^ K = 2 ^ L * 2 ^ (K - L) := by rw [← pow_add]; congr 1; omega
          rw [Ks.ι_add _ _ _ (by simp [hTELl, hETl]), Ks.ι_polyScale]
          unfold ov vph at hT
          unfold vph at htr
          simp only [Ks.optPh_some, zsmul_eq_mul] at hT htr ⊢
          push_cast at hT htr ⊢
          linear_combination (2 ^ L : Ks.R (2 ^ K)) * htr + hT
            + ((cc b S Sk : Ks.R (2 ^ K)) * Ks.ι (2 ^ K) (valP b (2 ^ K) (phase sk res))
                - (cc b S Sk : Ks.R (2 ^ K)) * 2 ^ (b * S) * z) * hpow

/-- **`glwe_pack_decrypts_coeff`** — the same read at every coefficient (the form of `PackCoeffContract` / `WordMachine.pack_spec`): for every
coefficient `J < N` of the value of the phase of the executed result,
`val(φ(res))[J] = (u_J if 2^(K−L) ∣ J, else 0) + e + 2^M·q`, `2^K·c·|e| ≤ packBound`,
`u_J` the constant coefficient of the phase of the input ciphertext of slot `J` (`0` for an absent slot): every present slot `J ∈ 2^(K−L)·ℕ`
delivers its message at coefficient `J`, every other coefficient of the phase is noise only. -/
theorem glwe_pack_decrypts_coeff (big128 : Bool) (K : ℕ) (hK : K + 1 ≤ 64) (keys : List Ks.Key) (sk : List Poly) (b S Sk rk : ℕ)
    (hb62 : b ≤ 62) (H : ℤ) (hH : 2 ^ b - 1 ≤ H) (hh2 : NormL.HeadRoom 64 b 0 (H + H)) (BA : ℕ → ℤ) (hBA : ∀ i, 0 ≤ BA i)
    (hsk : Ks.AllLen (2 ^ K) sk) (hkeys : PackKeys big128 K b S Sk rk sk keys BA)
    (a : Ks.SlotMap) (logGapOut : ℕ) (res : Ks.Ct) (ha : ∀ j, OptInv (2 ^ K) b S rk H (a.get j))
    (h : Ks.pack big128 (2 ^ K) b keys b S a logGapOut = .ok res) (J : ℕ) (hJ : J < 2 ^ K) :
    ∃ e q : ℤ, (valP b (2 ^ K) (phase sk res)).getD J 0
        = (if J % 2 ^ (K - (K - logGapOut)) = 0 then slotU b (2 ^ K) sk a J else 0) + e + 2 ^ (b * S) * q ∧
      (2 ^ K * cc b S Sk) * |e| ≤ packBound K (K - logGapOut) b S Sk rk sk BA := by
  obtain ⟨_, ErrL, z, hl, hn, hrel⟩ := glwe_pack_decrypts big128 K hK keys sk b S Sk rk hb62 H hH hh2 BA hBA hsk hkeys a logGapOut res ha h
  generalize hLdef : K - logGapOut = L at *
  have hL : L ≤ K := by omega
  have hG : 0 < 2 ^ (K - L) := by positivity
  have hnG : 2 ^ L * 2 ^ (K - L) = 2 ^ K := by rw [← pow_add]; congr 1; omega
  obtain ⟨e, q, he, hb⟩ := pack_read_coeff (2 ^ K) (2 ^ (K - L)) (2 ^ L) (by positivity) hG (le_of_eq hnG) (cc b S Sk) (2 ^ K) (2 ^ (b * S))
    (mul_pos (by positivity) (cc_pos _ _ _)) (fun k => slotU b (2 ^ K) sk a (k * 2 ^ (K - L)))
    (valP b (2 ^ K) (phase sk res)) ErrL z (by simp) hl hrel J hJ
  refine ⟨e, q, ?_, hb.trans hn⟩
  rw [he]
  congr 2
  have hdiv : J / 2 ^ (K - L) < 2 ^ L := by
    rw [Nat.div_lt_iff_lt_mul hG, hnG]; exact hJ
  by_cases hm : J % 2 ^ (K - L) = 0
  · rw [if_pos ⟨hm, hdiv⟩, if_pos hm, Nat.div_mul_cancel (Nat.dvd_of_mod_eq_zero hm)]
  · rw [if_neg (fun hc => hm hc.1), if_neg hm]

/-- closed form of the bound: `2·packBound = 2^K·(Σ_{i<L} 2^(L−1−i)·β_i + 2·Σ_{trace levels} (c·2(1+‖sk‖₁) + BA_i))`, `β_i = mergeBeta`
(`2^(L−1−i)` = number of merges of level `i` in the tree) -/
theorem packBound_closed (K L b S Sk rk : ℕ) (hL : L ≤ K) (sk : List Poly) (BA : ℕ → ℤ) :
    2 * packBound K L b S Sk rk sk BA
      = 2 ^ K * (∑ i ∈ Finset.range L, 2 ^ (L - 1 - i) * mergeBeta b S Sk rk sk (BA i)
          + 2 * ∑ t ∈ Finset.range (K - L), (cc b S Sk * (2 * (1 + snorm (min rk sk.length) sk)) + BA (L + t))) := by
  have hpow : (2 : ℤ) ^ K = 2 ^ (K - L) * 2 ^ L := by rw [← pow_add]; congr 1; omega
  have h := errB_closed (fun i => mergeBeta b S Sk rk sk (BA i)) L
  unfold packBound
  rw [hpow]
  linear_combination (2 ^ (K - L) : ℤ) * h

/-- **the noise of `glwe_pack`, normalised**: in the coefficient relation of `glwe_pack_decrypts_coeff`,
`2c·|e| ≤ Σ_{i<L} 2^(L−1−i)·(c·4(1+‖sk‖₁) + 2·BA_i) + 2·Σ_{i=L}^{K−1} (c·2(1+‖sk‖₁) + BA_i)`: per merge two rounding units of `glwe_rsh` and the
automorphism noise `BA_i / c` of the level's key, per trace level one rounding unit and `BA_i / c` -/
theorem glwe_pack_decrypts_noise (big128 : Bool) (K : ℕ) (hK : K + 1 ≤ 64) (keys : List Ks.Key) (sk : List Poly) (b S Sk rk : ℕ)
    (hb62 : b ≤ 62) (H : ℤ) (hH : 2 ^ b - 1 ≤ H) (hh2 : NormL.HeadRoom 64 b 0 (H + H)) (BA : ℕ → ℤ) (hBA : ∀ i, 0 ≤ BA i)
    (hsk : Ks.AllLen (2 ^ K) sk) (hkeys : PackKeys big128 K b S Sk rk sk keys BA)
    (a : Ks.SlotMap) (logGapOut : ℕ) (res : Ks.Ct) (ha : ∀ j, OptInv (2 ^ K) b S rk H (a.get j))
    (h : Ks.pack big128 (2 ^ K) b keys b S a logGapOut = .ok res) (J : ℕ) (hJ : J < 2 ^ K) :
    ∃ e q : ℤ, (valP b (2 ^ K) (phase sk res)).getD J 0
        = (if J % 2 ^ (K - (K - logGapOut)) = 0 then slotU b (2 ^ K) sk a J else 0) + e + 2 ^ (b * S) * q ∧
      (2 * cc b S Sk) * |e| ≤ ∑ i ∈ Finset.range (K - logGapOut), 2 ^ (K - logGapOut - 1 - i) * mergeBeta b S Sk rk sk (BA i)
          + 2 * ∑ t ∈ Finset.range (K - (K - logGapOut)),
              (cc b S Sk * (2 * (1 + snorm (min rk sk.length) sk)) + BA (K - logGapOut + t)) := by
  obtain ⟨e, q, he, hb⟩ := glwe_pack_decrypts_coeff big128 K hK keys sk b S Sk rk hb62 H hH hh2 BA hBA hsk hkeys a logGapOut res ha h J hJ
  refine ⟨e, q, he, ?_⟩
  have hc := packBound_closed K (K - logGapOut) b S Sk rk (Nat.sub_le _ _) sk BA
  have hp : (0 : ℤ) < 2 ^ K := by positivity
  have : 2 ^ K * ((2 * cc b S Sk) * |e|) ≤ 2 ^ K * (∑ i ∈ Finset.range (K - logGapOut),
      2 ^ (K - logGapOut - 1 - i) * mergeBeta b S Sk rk sk (BA i)
        + 2 * ∑ t ∈ Finset.range (K - (K - logGapOut)),
            (cc b S Sk * (2 * (1 + snorm (min rk sk.length) sk)) + BA (K - logGapOut + t))) := by
    rw [← hc]; linarith
  exact le_of_mul_le_mul_left this hp

/-! ### 6. a closed instance (`N = 2^0 = 1`: one slot, no level; every hypothesis on the ciphertext discharged by evaluation) -/

example : Ks.pack false (2 ^ 0) 4 [] 4 2 [(0, exCtT)] 0 = .ok { exCtT with k := 0 } := rfl

example : ∃ e q : ℤ, (valP 4 (2 ^ 0) (phase [[1]] ({ exCtT with k := 0 } : Ks.Ct))).getD 0 0
      = slotU 4 (2 ^ 0) [[1]] [(0, exCtT)] 0 + e + 2 ^ (4 * 2) * q ∧ (2 * cc 4 2 3) * |e| ≤ 0 := by
  have hinv : TraceInv (2 ^ 0) 4 2 1 (2 ^ 60) exCtT := by
    refine ⟨by decide, rfl, rfl, rfl, ?_⟩
    intro c hc l hl x hx
    simp [exCtT, Ks.mkCt] at hc
    rcases hc with rfl | rfl <;> simp at hl <;> rcases hl with rfl | rfl <;> simp at hx <;> subst hx <;> norm_num
  obtain ⟨e, q, he, hb⟩ := glwe_pack_decrypts_noise false 0 (by norm_num) [] [[1]] 4 2 3 1 (by norm_num) (2 ^ 60) (by norm_num)
    ⟨by norm_num, by norm_num, by norm_num, by norm_num, by norm_num⟩ (fun _ => 0) (fun _ => le_refl _)
    (by intro p hp; simp at hp; subst hp; rfl) (fun i p key _ hm => absurd hm List.not_mem_nil) [(0, exCtT)] 0 ({ exCtT with k := 0 } : Ks.Ct)
    (by
      intro j x hx
      have : j = 0 ∧ x = exCtT := by
        unfold Ks.SlotMap.get at hx
        by_cases hj : j = 0
        · subst hj; simp at hx; exact ⟨rfl, hx.symm⟩
        · simp [Ne.symm hj] at hx
      rw [this.2]; exact hinv)
    rfl 0 (by norm_num)
  exact ⟨e, q, by simpa using he, by simpa using hb⟩

/-! ### 7. the streaming packer: one `combine` -/

/-- what an accumulator holds: its ciphertext if `value`, nothing otherwise -/
def accO (acc : Ks.Acc) : Option Ks.Ct := if acc.value then some acc.data else none

/-- **`combine_decrypts`** — one executed `combine(acc, b, i)` of the streaming `GLWEPacker` (`Ks.combine`: the merge of level `i` with the
accumulator as lower operand, layout of the scratch / destination = the accumulator's): the relation of `merge_level_decrypts` between what the
accumulator held, the incoming ciphertext and what the accumulator holds afterwards; `value` = disjunction of the presences. -/
theorem combine_decrypts (big128 : Bool) (K : ℕ) (hK : K + 1 ≤ 64) (keys : List Ks.Key) (sk : List Poly) (b S Sk rk : ℕ) (hb62 : b ≤ 62)
    (H : ℤ) (hH : 2 ^ b - 1 ≤ H) (hh2 : NormL.HeadRoom 64 b 0 (H + H)) (BA : ℕ → ℤ) (hBA : ∀ i, 0 ≤ BA i)
    (hsk : Ks.AllLen (2 ^ K) sk) (hkeys : PackKeys big128 K b S Sk rk sk keys BA)
    (i : ℕ) (hi : i < K) (acc acc1 : Ks.Acc) (bo : Option Ks.Ct) (hacc : TraceInv (2 ^ K) b S rk H acc.data)
    (hb : OptInv (2 ^ K) b S rk H bo) (h : Ks.combine big128 (2 ^ K) keys acc bo i = .ok acc1) :
    TraceInv (2 ^ K) b S rk H acc1.data ∧ acc1.value = (acc.value || bo.isSome) ∧ acc1.control = acc.control ∧
      ∃ (ErrL : Poly) (w0 : Ks.R (2 ^ K)), ErrL.length = 2 ^ K ∧ normInf ErrL ≤ mergeBeta b S Sk rk sk (BA i) ∧
        (2 * cc b S Sk) • ov K b sk (accO acc1)
          = cc b S Sk • U K i (ov K b sk (accO acc)) (ov K b sk bo) + Ks.ι (2 ^ K) ErrL + (2 * cc b S Sk * 2 ^ (b * S)) • w0 := by
  have core : ∀ (a : Option Ks.Ct) (key : Ks.Key) (r : Option Ks.Ct), OptInv (2 ^ K) b S rk H a →
      Ks.levelKey (2 ^ K) keys i = .ok key → Ks.mergeStep big128 (2 ^ K) i key a bo acc.data = .ok r →
      OptInv (2 ^ K) b S rk H r ∧ r.isSome = (a.isSome || bo.isSome) ∧
      ∃ (ErrL : Poly) (w0 : Ks.R (2 ^ K)), ErrL.length = 2 ^ K ∧ normInf ErrL ≤ mergeBeta b S Sk rk sk (BA i) ∧
        (2 * cc b S Sk) • ov K b sk r
          = cc b S Sk • U K i (ov K b sk a) (ov K b sk bo) + Ks.ι (2 ^ K) ErrL + (2 * cc b S Sk * 2 ^ (b * S)) • w0 := by
    intro a key r ha hk hr
    obtain ⟨p, hp, hmem, hkp, hlvl⟩ := levelKey_spec K hK keys i key hk
    obtain ⟨hSk, gInv, EL, KL, Dm, hkey⟩ := hkeys i p key hp hmem hkp
    have := merge_level_decrypts big128 K i hi b S rk hb62 H hH hh2 key sk gInv EL KL Dm (BA i) (hBA i) hsk hlvl hkey a bo acc.data ha hb
      (fun _ _ => hacc) r hr
    rw [hSk] at this
    exact this
  unfold Ks.combine at h
  cases hv : acc.value with
  | true =>
    rw [hv] at h
    have key2 : (Ks.obind (Ks.levelKey (2 ^ K) keys i) fun key =>
        Ks.obind (Ks.mergeStep big128 (2 ^ K) i key (some acc.data) bo acc.data) fun r =>
          Outcome.ok { data := r.getD acc.data, value := true, control := acc.control }) = .ok acc1 := by
      cases bo <;> simpa using h
    obtain ⟨key, hk, h'⟩ := Ks.obind_ok key2
    obtain ⟨r, hr, h'⟩ := Ks.obind_ok h'
    injection h' with h'
    subst h'
    obtain ⟨c1, c2, c3⟩ := core (some acc.data) key r (fun x hx => by injection hx with hx; subst hx; exact hacc) hk hr
    cases r with
    | none => simp at c2
    | some r' =>
      refine ⟨c1 r' rfl, by simp, rfl, ?_⟩
      simpa [accO, hv] using c3
  | false =>
    rw [hv] at h
    cases bo with
    | some x =>
      simp only [Bool.false_eq_true, if_false] at h
      obtain ⟨key, hk, h'⟩ := Ks.obind_ok h
      obtain ⟨r, hr, h'⟩ := Ks.obind_ok h'
      injection h' with h'
      subst h'
      obtain ⟨c1, c2, c3⟩ := core none key r (fun _ hx => by cases hx) hk hr
      cases r with
      | none => simp at c2
      | some r' =>
        refine ⟨c1 r' rfl, by simp, rfl, ?_⟩
        simpa [accO, hv] using c3
    | none =>
      simp only [Bool.false_eq_true, if_false] at h
      injection h with h
      subst h
      refine ⟨hacc, by simp [hv], rfl, zeroP (2 ^ K), 0, by simp [zeroP], ?_, ?_⟩
      · rw [normInf_zeroP]; exact mergeBeta_nonneg _ _ _ _ _ _ (hBA i)
      · simp [accO, hv, ov, Ks.ι_zero, U_zero]

end KsDec
