import Poulpy.Lemmas.RingCoeff

/-! The three scalar domains: `i64` (`w64`), `i128` (`w128`), exact integers (`id`). -/

def I64 (x : Int) : Prop := -(2 ^ 63) ≤ x ∧ x < 2 ^ 63
def I128 (x : Int) : Prop := -(2 ^ 127) ≤ x ∧ x < 2 ^ 127

theorem negOn64 : NegOn w64 I64 where
  invol := by intro x hx; unfold w64 I64 at *; omega
  closed := by intro x _; unfold w64 I64 at *; omega
  zero := by unfold I64; omega
  wzero := by unfold w64; omega

theorem negOn128 : NegOn w128 I128 where
  invol := by intro x hx; unfold w128 I128 at *; omega
  closed := by intro x _; unfold w128 I128 at *; omega
  zero := by unfold I128; omega
  wzero := by unfold w128; omega

theorem negOnZ : NegOn id (fun _ => True) where
  invol := by intro x _; simp
  closed := by intro x _; trivial
  zero := trivial
  wzero := rfl

theorem w64_of_I64 {x : Int} (h : I64 x) : w64 x = x := by unfold w64 I64 at *; omega
theorem w64_I64 (x : Int) : I64 (w64 x) := by unfold w64 I64; omega
theorem w64_congr (x : Int) : w64 x % 2 ^ 64 = x % 2 ^ 64 := by unfold w64; omega
theorem w128_of_I128 {x : Int} (h : I128 x) : w128 x = x := by unfold w128 I128 at *; omega
theorem w128_I128 (x : Int) : I128 (w128 x) := by unfold w128 I128; omega
theorem w128_congr (x : Int) : w128 x % 2 ^ 128 = x % 2 ^ 128 := by unfold w128; omega
