import Poulpy.Lemmas.CkksSemOps
import Poulpy.Lemmas.CkksPt
/-!
Program-level value semantics of the linear CKKS fragment (C16): along any straight-line program of
ciphertext additions, subtractions, negations, multiplications / divisions by powers of two and
rescalings on which the metadata model returns `Ok`, the data-path model returns `Ok`, carries the
metadata of the metadata model, keeps every ciphertext well formed with balanced digits, and every
ciphertext decodes to the value of the same program run on the plaintext polynomials, modulo
`2^log_budget`, up to the accumulated error `specE` (each call adds its own roundings, in units of the
last limb of its result, times `1 + Σ‖sᵢ‖₁`; the errors of the operands are carried through the
operation's linear map).
-/

namespace Ckks
open Core Core.Ops C02L Ckks.Sem Ckks.CoreSem

/-! ### composing `Near` through a linear map -/

theorem _root_.Ckks.Sem.Near.scale {x y m m' ε l : ℚ} (h : Near x y m ε) (hd : ∃ n : ℤ, l * m = n * m') :
    Near (l * x) (l * y) m' (|l| * ε) := by
  obtain ⟨q, e, a, b⟩ := h
  obtain ⟨n, hn⟩ := hd
  refine ⟨q * n, l * e, ?_, by rw [abs_mul]; gcongr⟩
  rw [a]; push_cast
  have : l * (y + e + q * m) = l * y + l * e + q * (l * m) := by ring
  rw [this, hn]; ring

theorem dvd_one {β β' : ℕ} (h : β' ≤ β) : ∃ n : ℤ, (1 : ℚ) * 2 ^ β = n * 2 ^ β' := by
  obtain ⟨j, rfl⟩ : ∃ j, β = β' + j := ⟨β - β', by omega⟩
  exact ⟨2 ^ j, by push_cast; rw [pow_add]; ring⟩

theorem dvd_neg {β β' : ℕ} (h : β' ≤ β) : ∃ n : ℤ, (-1 : ℚ) * 2 ^ β = n * 2 ^ β' := by
  obtain ⟨j, rfl⟩ : ∃ j, β = β' + j := ⟨β - β', by omega⟩
  exact ⟨-2 ^ j, by push_cast; rw [pow_add]; ring⟩

theorem dvd_sg (sub : Bool) {β β' : ℕ} (h : β' ≤ β) : ∃ n : ℤ, sg sub * 2 ^ β = n * 2 ^ β' := by
  cases sub
  · simpa [sg] using dvd_one h
  · simpa [sg] using dvd_neg h

theorem dvd_pow {β β' bits : ℕ} (h : β' ≤ β + bits) : ∃ n : ℤ, (2 : ℚ) ^ bits * 2 ^ β = n * 2 ^ β' := by
  obtain ⟨j, hj⟩ : ∃ j, β + bits = β' + j := ⟨β + bits - β', by omega⟩
  exact ⟨2 ^ j, by push_cast; rw [← pow_add, ← pow_add, Nat.add_comm bits β, hj, Nat.add_comm]⟩

theorem dvd_inv {β β' bits : ℕ} (h : β' + bits ≤ β) : ∃ n : ℤ, ((2 : ℚ) ^ bits)⁻¹ * 2 ^ β = n * 2 ^ β' := by
  obtain ⟨j, rfl⟩ : ∃ j, β = β' + bits + j := ⟨β - (β' + bits), by omega⟩
  refine ⟨2 ^ j, ?_⟩
  push_cast
  rw [pow_add, pow_add]
  have : (2 : ℚ) ^ bits ≠ 0 := by positivity
  field_simp

theorem abs_sg (sub : Bool) : |sg sub| = 1 := by cases sub <;> simp [sg]

/-- unary: `x ≈ l·y` and `y ≈ M` give `x ≈ l·M` -/
theorem _root_.Ckks.Sem.Near.comp1 {x y M ε E l : ℚ} {β β' : ℕ} (h1 : Near x (l * y) (2 ^ β') ε) (h2 : Near y M (2 ^ β) E)
    (hd : ∃ n : ℤ, l * 2 ^ β = n * 2 ^ β') : Near x (l * M) (2 ^ β') (ε + |l| * E) :=
  h1.trans (h2.scale hd)

/-- unary with a known addend -/
theorem _root_.Ckks.Sem.Near.comp1c {x y M ε E l c : ℚ} {β β' : ℕ} (h1 : Near x (l * y + c) (2 ^ β') ε) (h2 : Near y M (2 ^ β) E)
    (hd : ∃ n : ℤ, l * 2 ^ β = n * 2 ^ β') : Near x (l * M + c) (2 ^ β') (ε + (|l| * E + 0)) :=
  h1.trans ((h2.scale hd).add (Near.refl c _))

/-- binary: `x ≈ la·ya + lb·yb` -/
theorem _root_.Ckks.Sem.Near.comp2 {x ya yb Ma Mb ε Ea Eb la lb : ℚ} {βa βb β' : ℕ} (h1 : Near x (la * ya + lb * yb) (2 ^ β') ε)
    (ha : Near ya Ma (2 ^ βa) Ea) (hb : Near yb Mb (2 ^ βb) Eb)
    (hda : ∃ n : ℤ, la * 2 ^ βa = n * 2 ^ β') (hdb : ∃ n : ℤ, lb * 2 ^ βb = n * 2 ^ β') :
    Near x (la * Ma + lb * Mb) (2 ^ β') (ε + (|la| * Ea + |lb| * Eb)) :=
  h1.trans ((ha.scale hda).add (hb.scale hdb))

/-! ### the plaintext-level program and its error budget -/

def upd {α : Type} (f : Nat → α) (d : Nat) (v : α) : Nat → α := fun j => if j = d then v else f j

theorem upd_self {α : Type} (f : Nat → α) (d : Nat) : upd f d (f d) = f := by
  funext j; unfold upd; split <;> simp_all

/-- the program on plaintext coefficient vectors (slot `j`, coefficient `t`) -/
def specM (M : Nat → Nat → ℚ) : LOp → Nat → Nat → ℚ
  | .add sub d a b => upd M d (fun t => 1 * M a t + sg sub * M b t)
  | .addAssign sub d a => upd M d (fun t => 1 * M d t + sg sub * M a t)
  | .neg d a => upd M d (fun t => -1 * M a t)
  | .negAssign d => upd M d (fun t => -1 * M d t)
  | .mulPow2 d a bits => upd M d (fun t => 2 ^ bits * M a t)
  | .mulPow2Assign d bits => upd M d (fun t => 2 ^ bits * M d t)
  | .divPow2 d a bits => upd M d (fun t => (2 ^ bits)⁻¹ * M a t)
  | .divPow2Assign d bits => upd M d (fun t => (2 ^ bits)⁻¹ * M d t)
  | .rescale d _ a => upd M d (fun t => 1 * M a t)
  | .rescaleAssign d _ => upd M d (fun t => 1 * M d t)
  | .align _ _ => M
  | .addPt sub d a pt pg => upd M d (fun t => 1 * M a t + sg sub * ((valCoeff pt.base2k pg t : ℚ) / 2 ^ pt.md.logDelta))
  | .addPtAssign sub d pt pg => upd M d (fun t => 1 * M d t + sg sub * ((valCoeff pt.base2k pg t : ℚ) / 2 ^ pt.md.logDelta))

/-- the error budget: `σ = 1 + Σ‖sᵢ‖₁`, `u` = one unit of the last limb of the result of this call -/
def specE (σ u : ℚ) (E : Nat → ℚ) : LOp → Nat → ℚ
  | .add _ d a b => upd E d (2 * σ * u + (1 * E a + 1 * E b))
  | .addAssign _ d a => upd E d (σ * u + (1 * E d + 1 * E a))
  | .neg d a => upd E d (σ * u + 1 * E a)
  | .negAssign d => upd E d (0 + 1 * E d)
  | .mulPow2 d a bits => upd E d (σ * u + 2 ^ bits * E a)
  | .mulPow2Assign d bits => upd E d (0 + 2 ^ bits * E d)
  | .divPow2 d a bits => upd E d (σ * u + (2 ^ bits)⁻¹ * E a)
  | .divPow2Assign d bits => upd E d (0 + (2 ^ bits)⁻¹ * E d)
  | .rescale d _ a => upd E d (σ * u + 1 * E a)
  | .rescaleAssign d _ => upd E d (0 + 1 * E d)
  | .align _ _ => E
  | .addPt _ d a _ _ => upd E d (2 * σ * u + (1 * E a + 0))
  | .addPtAssign _ d _ _ => upd E d (σ * u + (1 * E d + 0))

/-- destination slot -/
def LOp.dst : LOp → Nat
  | .add _ d _ _ | .addAssign _ d _ | .neg d _ | .negAssign d | .mulPow2 d _ _ | .mulPow2Assign d _
  | .divPow2 d _ _ | .divPow2Assign d _ | .rescale d _ _ | .rescaleAssign d _ | .align d _
  | .addPt _ d _ _ _ | .addPtAssign _ d _ _ => d

/-- the plaintext operands of a call are well formed -/
def LOp.PtsOK (env : Env) (N : Nat) : LOp → Prop
  | .addPt _ _ _ pt pg => PtOK env N pt pg
  | .addPtAssign _ _ pt pg => PtOK env N pt pg
  | _ => True

/-- one unit of the last limb at the scale of the decoded value, from the metadata alone -/
def ulpM (env : Env) (c : Ct) : ℚ := 2 ^ c.md.logBudget / 2 ^ (env.base2k * c.size)

theorem ulp_eq_ulpM {env : Env} {N r : Nat} {c : DCt} (h : DOK env N r c) : ulp c = ulpM env c.ct := by
  simp only [ulp, ulpG, ulpM, DCt.ct, h.bk]

/-- every ciphertext of the pool decodes to its plaintext up to its error budget -/
def Tracks (s : List Poly) (N : Nat) (pool : DPool) (M : Nat → Nat → ℚ) (E : Nat → ℚ) : Prop :=
  ∀ j c, pool[j]? = some c → ∀ t, t < N → Near (decC s c t) (M j t) (wrap c) (E j)

def AllOK (env : Env) (N r : Nat) (pool : DPool) : Prop := ∀ c ∈ pool, DOK env N r c

theorem AllOK.get {env : Env} {N r : Nat} {pool : DPool} (h : AllOK env N r pool) {j : Nat} {c : DCt}
    (hc : pool[j]? = some c) : DOK env N r c := h c (List.mem_of_getElem? hc)

theorem AllOK.set {env : Env} {N r : Nat} {pool : DPool} (h : AllOK env N r pool) (d : Nat) {c : DCt}
    (hc : DOK env N r c) : AllOK env N r (pool.set d c) := by
  intro x hx
  rcases List.mem_or_eq_of_mem_set hx with h1 | rfl
  · exact h x h1
  · exact hc

theorem Tracks.set {s : List Poly} {N : Nat} {pool : DPool} {M : Nat → Nat → ℚ} {E : Nat → ℚ}
    (h : Tracks s N pool M E) (d : Nat) (c' : DCt) (m : Nat → ℚ) (e : ℚ)
    (hd : ∀ t, t < N → Near (decC s c' t) (m t) (wrap c') e) :
    Tracks s N (pool.set d c') (upd M d m) (upd E d e) := by
  intro j c hj t ht
  by_cases hjd : j = d
  · subst hjd
    have : c = c' := by
      rw [List.getElem?_set] at hj
      split at hj
      · split at hj <;> simp_all
      · simp_all
    subst this
    simpa [upd] using hd t ht
  · rw [List.getElem?_set_ne (Ne.symm hjd)] at hj
    simpa [upd, hjd] using h j c hj t ht

theorem cts_getElem? (pool : DPool) (j : Nat) : (DPool.cts pool)[j]? = (pool[j]?).map DCt.ct := by
  simp [DPool.cts]

theorem cts_set (pool : DPool) (d : Nat) (c : DCt) : DPool.cts (pool.set d c) = (DPool.cts pool).set d c.ct := by
  simp [DPool.cts, List.map_set]


/-! ### unpacking the pool operators -/

theorem putRes_ok' {pool : Pool} {d : Nat} {r : Res Ct} {mp : Pool} (h : putRes pool d r = .ok mp) :
    ∃ m, r = .ok m ∧ mp = pool.set d m := by
  cases r with
  | ok c => simp only [putRes] at h; injection h with h; exact ⟨c, rfl, h.symm⟩
  | err e c => simp [putRes] at h
  | panic p => simp [putRes] at h

theorem op1_ok' {P : Pool} {d : Nat} {f : Ct → Res Ct} {mp : Pool} (h : op1 P d f = .ok mp) :
    ∃ cd m, P[d]? = some cd ∧ f cd = .ok m ∧ mp = P.set d m := by
  unfold op1 at h
  cases hd : P[d]? with
  | none => simp [hd] at h
  | some cd =>
    simp only [hd] at h
    obtain ⟨m, h1, h2⟩ := putRes_ok' h
    exact ⟨cd, m, rfl, h1, h2⟩

theorem op2_ok' {P : Pool} {d a : Nat} {f : Ct → Ct → Res Ct} {mp : Pool} (h : op2 P d a f = .ok mp) :
    ∃ cd ca m, P[d]? = some cd ∧ P[a]? = some ca ∧ d ≠ a ∧ f cd ca = .ok m ∧ mp = P.set d m := by
  unfold op2 at h
  cases hd : P[d]? with
  | none => simp [hd] at h
  | some cd =>
    cases ha : P[a]? with
    | none => simp [hd, ha] at h
    | some ca =>
      simp only [hd, ha] at h
      by_cases hda : d = a
      · simp [hda] at h
      · simp only [hda, if_false] at h
        obtain ⟨m, h1, h2⟩ := putRes_ok' h
        exact ⟨cd, ca, m, rfl, rfl, hda, h1, h2⟩

theorem op3_ok' {P : Pool} {d a b : Nat} {f : Ct → Ct → Ct → Res Ct} {mp : Pool} (h : op3 P d a b f = .ok mp) :
    ∃ cd ca cb m, P[d]? = some cd ∧ P[a]? = some ca ∧ P[b]? = some cb ∧ d ≠ a ∧ d ≠ b ∧ f cd ca cb = .ok m ∧
      mp = P.set d m := by
  unfold op3 at h
  cases hd : P[d]? with
  | none => simp [hd] at h
  | some cd =>
    cases ha : P[a]? with
    | none => simp [hd, ha] at h
    | some ca =>
      cases hb : P[b]? with
      | none => simp [hd, ha, hb] at h
      | some cb =>
        simp only [hd, ha, hb] at h
        by_cases hda : d = a ∨ d = b
        · simp [hda] at h
        · simp only [hda, if_false] at h
          obtain ⟨m, h1, h2⟩ := putRes_ok' h
          exact ⟨cd, ca, cb, m, rfl, rfl, rfl, fun e => hda (Or.inl e), fun e => hda (Or.inr e), h1, h2⟩

theorem cts_some {pool : DPool} {j : Nat} {c : Ct} (h : (DPool.cts pool)[j]? = some c) :
    ∃ x, pool[j]? = some x ∧ x.ct = c := by
  rw [cts_getElem?] at h
  cases hx : pool[j]? with
  | none => simp [hx] at h
  | some x => simp [hx] at h; exact ⟨x, rfl, h⟩

/-- one unit of the last limb of slot `d` of a metadata pool -/
def ulpAt (env : Env) (mp : Pool) (d : Nat) : ℚ :=
  match mp[d]? with
  | some c => ulpM env c
  | none => 0

theorem ulpAt_set {env : Env} {P : Pool} {d : Nat} {cd m : Ct} (h : P[d]? = some cd) : ulpAt env (P.set d m) d = ulpM env m := by
  have hd : d < P.length := by
    rcases Nat.lt_or_ge d P.length with h1 | h1
    · exact h1
    · rw [List.getElem?_eq_none h1] at h; cases h
  simp [ulpAt, List.getElem?_set, hd]


/-! ### budgets only shrink (so that the operand's modulus is a multiple of the result's) -/

theorem addCtInto_budget {env : Env} {dst a b m : Ct} (h : addCtInto env dst a b = .ok m) :
    m.md.logBudget ≤ a.md.logBudget ∧ m.md.logBudget ≤ b.md.logBudget := by
  have := addShiftAB_spec env dst a b m h; omega

theorem addCtAssign_budget {env : Env} {dst a m : Ct} (h : addCtAssign env dst a = .ok m) :
    m.md.logBudget ≤ dst.md.logBudget ∧ m.md.logBudget ≤ a.md.logBudget := by
  have := assignShiftDA_spec env dst a m h; omega

theorem negInto_budget {env : Env} {dst a m : Ct} (h : negInto env dst a = .ok m) : m.md.logBudget ≤ a.md.logBudget := by
  simp only [negInto, shiftInto] at h; grind

theorem mulPow2Into_budget {env : Env} {dst a m : Ct} {bits : Nat} (h : mulPow2Into env dst a bits = .ok m) :
    m.md.logBudget ≤ a.md.logBudget + bits := by
  have := unaryShift_spec env dst a m h bits; omega

theorem divPow2Into_budget {env : Env} {dst a m : Ct} {bits : Nat} (h : divPow2Into env dst a bits = .ok m) :
    m.md.logBudget + bits ≤ a.md.logBudget := by
  have := divPow2_spec env dst a m bits h; omega

theorem divPow2Assign_budget {env : Env} {c m : Ct} {bits : Nat} (h : divPow2Assign env c bits = .ok m) :
    m.md.logBudget + bits ≤ c.md.logBudget := by
  simp only [divPow2Assign] at h; grind

theorem rescaleInto_budget {env : Env} {dst src m : Ct} {k : Nat} (h : rescaleInto env dst k src = .ok m) :
    m.md.logBudget ≤ src.md.logBudget := by
  have := rescaleInto_spec env dst src m k h; omega

theorem rescaleAssign_budget {env : Env} {c m : Ct} {k : Nat} (h : rescaleAssign env c k = .ok m) :
    m.md.logBudget ≤ c.md.logBudget := by
  simp only [rescaleAssign] at h; grind

theorem wrap_ct {c : DCt} {m : Ct} (h : c.ct = m) : wrap c = 2 ^ m.md.logBudget := by
  subst h; rfl

/-! ### one call -/

theorem dop1_ok {pool : DPool} {d : Nat} {cd c' : DCt} {f : DCt → Outcome DCt} (hd : pool[d]? = some cd)
    (h : f cd = .ok c') : dop1 pool d f = .ok (pool.set d c') := by
  simp only [dop1, hd, dput, h, Core.Ops.bind]

theorem dop2_ok {pool : DPool} {d a : Nat} {cd ca c' : DCt} {f : DCt → DCt → Outcome DCt} (hd : pool[d]? = some cd)
    (ha : pool[a]? = some ca) (hda : d ≠ a) (h : f cd ca = .ok c') : dop2 pool d a f = .ok (pool.set d c') := by
  simp only [dop2, hd, ha, hda, if_false, dput, h, Core.Ops.bind]

theorem dop3_ok {pool : DPool} {d a b : Nat} {cd ca cb c' : DCt} {f : DCt → DCt → DCt → Outcome DCt}
    (hd : pool[d]? = some cd) (ha : pool[a]? = some ca) (hb : pool[b]? = some cb) (hda : d ≠ a) (hdb : d ≠ b)
    (h : f cd ca cb = .ok c') : dop3 pool d a b f = .ok (pool.set d c') := by
  simp only [dop3, hd, ha, hb, hda, hdb, or_self, if_false, dput, h, Core.Ops.bind]

/-- the shape of the conclusion of one call -/
def StepGoal (env : Env) (N r : Nat) (pool : DPool) (op : LOp) (mp : Pool) : Prop :=
  ∃ pool', dstep env N pool op = .ok pool' ∧ DPool.cts pool' = mp ∧ AllOK env N r pool' ∧
    ∀ s M E, Tracks s N pool M E →
      Tracks s N pool' (specM M op) (specE (sn r s) (ulpAt env mp op.dst) E op)

theorem sn_nonneg (r : Nat) (s : List Poly) : 0 ≤ sn r s := le_trans zero_le_one (sn_pos r s)

/-- **one call of the linear fragment**: if the metadata model returns `Ok`, the data path returns `Ok` with
that metadata, well-formedness is kept, and the decoded values follow the plaintext program within `specE` -/
theorem dstep_sem {env : Env} (he : EnvOK env) {N r : Nat} {pool : DPool} (hp : AllOK env N r pool) (op : LOp)
    (hpt : op.PtsOK env N) {mp : Pool} (hm : stepR env (DPool.cts pool) op.toOp = .ok mp) : StepGoal env N r pool op mp := by
  cases op with
  | add sub d a b =>
    obtain ⟨cd, ca, cb, m, hd, ha, hb, hda, hdb, hf, rfl⟩ := op3_ok' (show op3 _ d a b (addCtInto env) = .ok mp from hm)
    obtain ⟨xd, hxd, rfl⟩ := cts_some hd
    obtain ⟨xa, hxa, rfl⟩ := cts_some ha
    obtain ⟨xb, hxb, rfl⟩ := cts_some hb
    obtain ⟨c', h1, hct, hok, hv⟩ := dAddInto_sem he (hp.get hxd) (hp.get hxa) (hp.get hxb) sub hf
    refine ⟨pool.set d c', dop3_ok hxd hxa hxb hda hdb h1, by rw [cts_set, hct], hp.set d hok, fun s M E ht => ?_⟩
    simp only [LOp.dst, specM, specE]
    rw [ulpAt_set hd, ← hct, ← ulp_eq_ulpM hok]
    refine ht.set d c' _ _ fun t htN => ?_
    have hbud := addCtInto_budget hf
    have h0 := hv s t htN
    rw [← one_mul (decC s xa t), wrap_ct hct] at h0
    have := h0.comp2 (ht a xa hxa t htN) (ht b xb hxb t htN)
      (dvd_one hbud.1) (dvd_sg sub hbud.2)
    rw [wrap_ct hct]
    simpa [abs_sg] using this
  | addAssign sub d a =>
    obtain ⟨cd, ca, m, hd, ha, hda, hf, rfl⟩ := op2_ok' (show op2 _ d a (addCtAssign env) = .ok mp from hm)
    obtain ⟨xd, hxd, rfl⟩ := cts_some hd
    obtain ⟨xa, hxa, rfl⟩ := cts_some ha
    obtain ⟨c', h1, hct, hok, hv⟩ := dAddAssign_sem he (hp.get hxd) (hp.get hxa) sub hf
    refine ⟨pool.set d c', dop2_ok hxd hxa hda h1, by rw [cts_set, hct], hp.set d hok, fun s M E ht => ?_⟩
    simp only [LOp.dst, specM, specE]
    rw [ulpAt_set hd, ← hct, ← ulp_eq_ulpM hok]
    refine ht.set d c' _ _ fun t htN => ?_
    have hbud := addCtAssign_budget hf
    have h0 := hv s t htN
    rw [← one_mul (decC s xd t), wrap_ct hct] at h0
    have := h0.comp2 (ht d xd hxd t htN) (ht a xa hxa t htN) (dvd_one hbud.1) (dvd_sg sub hbud.2)
    rw [wrap_ct hct]
    simpa [abs_sg] using this
  | neg d a =>
    obtain ⟨cd, ca, m, hd, ha, hda, hf, rfl⟩ := op2_ok' (show op2 _ d a (negInto env) = .ok mp from hm)
    obtain ⟨xd, hxd, rfl⟩ := cts_some hd
    obtain ⟨xa, hxa, rfl⟩ := cts_some ha
    obtain ⟨c', h1, hct, hok, hv⟩ := dNegInto_sem he (hp.get hxd) (hp.get hxa) hf
    refine ⟨pool.set d c', dop2_ok hxd hxa hda h1, by rw [cts_set, hct], hp.set d hok, fun s M E ht => ?_⟩
    simp only [LOp.dst, specM, specE]
    rw [ulpAt_set hd, ← hct, ← ulp_eq_ulpM hok]
    refine ht.set d c' _ _ fun t htN => ?_
    have h0 := (hv s t htN).mono (one_unit (sn_nonneg r s) (le_of_lt (ulp_pos c')) (trl_le_one _ _ _ _))
    rw [neg_eq_neg_one_mul, wrap_ct hct] at h0
    have := h0.comp1 (ht a xa hxa t htN) (dvd_neg (negInto_budget hf))
    rw [wrap_ct hct]
    simpa using this
  | negAssign d =>
    obtain ⟨cd, m, hd, hf, rfl⟩ := op1_ok' (show op1 _ d (fun cd => .ok cd) = .ok mp from hm)
    obtain ⟨xd, hxd, rfl⟩ := cts_some hd
    injection hf with hf
    subst hf
    obtain ⟨c', h1, hct, hok, hv⟩ := dNegAssign_sem he (hp.get hxd)
    refine ⟨pool.set d c', dop1_ok hxd h1, by rw [cts_set, hct], hp.set d hok, fun s M E ht => ?_⟩
    simp only [specM, specE]
    refine ht.set d c' _ _ fun t htN => ?_
    have h0 := hv s t htN
    rw [neg_eq_neg_one_mul, wrap_ct hct] at h0
    have := h0.comp1 (ht d xd hxd t htN) (dvd_neg (Nat.le_refl _))
    rw [wrap_ct hct]
    simpa using this
  | mulPow2 d a bits =>
    obtain ⟨cd, ca, m, hd, ha, hda, hf, rfl⟩ := op2_ok' (show op2 _ d a (fun cd ca => mulPow2Into env cd ca bits) = .ok mp from hm)
    obtain ⟨xd, hxd, rfl⟩ := cts_some hd
    obtain ⟨xa, hxa, rfl⟩ := cts_some ha
    obtain ⟨c', h1, hct, hok, hv⟩ := dMulPow2Into_sem he (hp.get hxd) (hp.get hxa) bits hf
    refine ⟨pool.set d c', dop2_ok hxd hxa hda h1, by rw [cts_set, hct], hp.set d hok, fun s M E ht => ?_⟩
    simp only [LOp.dst, specM, specE]
    rw [ulpAt_set hd, ← hct, ← ulp_eq_ulpM hok]
    refine ht.set d c' _ _ fun t htN => ?_
    have h0 := (hv s t htN).mono (one_unit (sn_nonneg r s) (le_of_lt (ulp_pos c')) (trl_le_one _ _ _ _))
    rw [mul_comm, wrap_ct hct] at h0
    have := h0.comp1 (ht a xa hxa t htN) (dvd_pow (mulPow2Into_budget hf))
    rw [wrap_ct hct]
    simpa [abs_of_pos (two_pow_pos bits)] using this
  | mulPow2Assign d bits =>
    obtain ⟨cd, m, hd, hf, rfl⟩ := op1_ok' (show op1 _ d (fun cd => .ok cd) = .ok mp from hm)
    obtain ⟨xd, hxd, rfl⟩ := cts_some hd
    injection hf with hf
    subst hf
    obtain ⟨c', h1, hct, hok, hv⟩ := dMulPow2Assign_sem he (hp.get hxd) bits
    refine ⟨pool.set d c', dop1_ok hxd h1, by rw [cts_set, hct], hp.set d hok, fun s M E ht => ?_⟩
    simp only [specM, specE]
    refine ht.set d c' _ _ fun t htN => ?_
    have h0 := hv s t htN
    rw [mul_comm, wrap_ct hct] at h0
    have := h0.comp1 (ht d xd hxd t htN) (dvd_pow (Nat.le_add_right _ _))
    rw [wrap_ct hct]
    simpa [abs_of_pos (two_pow_pos bits)] using this
  | divPow2 d a bits =>
    obtain ⟨cd, ca, m, hd, ha, hda, hf, rfl⟩ := op2_ok' (show op2 _ d a (fun cd ca => divPow2Into env cd ca bits) = .ok mp from hm)
    obtain ⟨xd, hxd, rfl⟩ := cts_some hd
    obtain ⟨xa, hxa, rfl⟩ := cts_some ha
    obtain ⟨c', h1, hct, hok, hv⟩ := dDivPow2Into_sem he (hp.get hxd) (hp.get hxa) bits hf
    refine ⟨pool.set d c', dop2_ok hxd hxa hda h1, by rw [cts_set, hct], hp.set d hok, fun s M E ht => ?_⟩
    simp only [LOp.dst, specM, specE]
    rw [ulpAt_set hd, ← hct, ← ulp_eq_ulpM hok]
    refine ht.set d c' _ _ fun t htN => ?_
    have h0 := (hv s t htN).mono (one_unit (sn_nonneg r s) (le_of_lt (ulp_pos c')) (trl_le_one _ _ _ _))
    rw [div_eq_inv_mul, wrap_ct hct] at h0
    have := h0.comp1 (ht a xa hxa t htN) (dvd_inv (divPow2Into_budget hf))
    rw [wrap_ct hct]
    simpa [abs_of_pos (inv_pos.mpr (two_pow_pos bits))] using this
  | divPow2Assign d bits =>
    obtain ⟨cd, m, hd, hf, rfl⟩ := op1_ok' (show op1 _ d (fun cd => divPow2Assign env cd bits) = .ok mp from hm)
    obtain ⟨xd, hxd, rfl⟩ := cts_some hd
    obtain ⟨c', h1, hct, hok, hv⟩ := dDivPow2Assign_sem (hp.get hxd) bits hf
    refine ⟨pool.set d c', dop1_ok hxd h1, by rw [cts_set, hct], hp.set d hok, fun s M E ht => ?_⟩
    simp only [specM, specE]
    refine ht.set d c' _ _ fun t htN => ?_
    have := (ht d xd hxd t htN).scale (l := ((2 : ℚ) ^ bits)⁻¹) (m' := 2 ^ m.md.logBudget) (dvd_inv (divPow2Assign_budget hf))
    rw [hv s t, div_eq_inv_mul, wrap_ct hct]
    simpa [abs_of_pos (inv_pos.mpr (two_pow_pos bits))] using this
  | rescale d k a =>
    obtain ⟨cd, ca, m, hd, ha, hda, hf, rfl⟩ := op2_ok' (show op2 _ d a (fun cd ca => rescaleInto env cd k ca) = .ok mp from hm)
    obtain ⟨xd, hxd, rfl⟩ := cts_some hd
    obtain ⟨xa, hxa, rfl⟩ := cts_some ha
    obtain ⟨c', h1, hct, hok, hv⟩ := dRescaleInto_sem he (hp.get hxd) (hp.get hxa) k hf
    refine ⟨pool.set d c', dop2_ok hxd hxa hda h1, by rw [cts_set, hct], hp.set d hok, fun s M E ht => ?_⟩
    simp only [LOp.dst, specM, specE]
    rw [ulpAt_set hd, ← hct, ← ulp_eq_ulpM hok]
    refine ht.set d c' _ _ fun t htN => ?_
    have h0 := (hv s t htN).mono (one_unit (sn_nonneg r s) (le_of_lt (ulp_pos c')) (trl_le_one _ _ _ _))
    rw [← one_mul (decC s xa t), wrap_ct hct] at h0
    have := h0.comp1 (ht a xa hxa t htN) (dvd_one (rescaleInto_budget hf))
    rw [wrap_ct hct]
    simpa using this
  | rescaleAssign d k =>
    obtain ⟨cd, m, hd, hf, rfl⟩ := op1_ok' (show op1 _ d (fun cd => rescaleAssign env cd k) = .ok mp from hm)
    obtain ⟨xd, hxd, rfl⟩ := cts_some hd
    obtain ⟨c', h1, hct, hok, hv⟩ := dRescaleAssign_sem he (hp.get hxd) k hf
    refine ⟨pool.set d c', dop1_ok hxd h1, by rw [cts_set, hct], hp.set d hok, fun s M E ht => ?_⟩
    simp only [specM, specE]
    refine ht.set d c' _ _ fun t htN => ?_
    have h0 := hv s t htN
    rw [← one_mul (decC s xd t), wrap_ct hct] at h0
    have := h0.comp1 (ht d xd hxd t htN) (dvd_one (rescaleAssign_budget hf))
    rw [wrap_ct hct]
    simpa using this


  | align a b =>
    have hm' : alignStep env (DPool.cts pool) a b = .ok mp := hm
    unfold alignStep at hm'
    cases ha : (DPool.cts pool)[a]? with
    | none => simp [ha] at hm'
    | some ca =>
      cases hb : (DPool.cts pool)[b]? with
      | none => simp [ha, hb] at hm'
      | some cb =>
        simp only [ha, hb] at hm'
        obtain ⟨xa, hxa, rfl⟩ := cts_some ha
        obtain ⟨xb, hxb, rfl⟩ := cts_some hb
        by_cases hab : a = b
        · simp [hab] at hm'
        · simp only [hab, if_false] at hm'
          by_cases hlt : xa.ct.md.logBudget < xb.ct.md.logBudget
          · simp only [hlt, if_true, usub, Nat.le_of_lt hlt] at hm'
            obtain ⟨m, hf, rfl⟩ := putRes_ok' hm'
            obtain ⟨c', h1, hct, hok, hv⟩ := dRescaleAssign_sem he (hp.get hxb) _ hf
            refine ⟨pool.set b c', ?_, by rw [cts_set, hct], hp.set b hok, fun s M E ht => ?_⟩
            · have hlt' : xa.md.logBudget < xb.md.logBudget := hlt
              simp only [dstep, hxa, hxb, hab, if_false, hlt', if_true, dput]
              have h1' : dRescaleAssign env N xb (xb.md.logBudget - xa.md.logBudget) = .ok c' := h1
              rw [h1']; rfl
            · simp only [specM, specE]
              have := ht.set b c' (fun t => M b t) (E b) fun t htN => by
                have h0 := hv s t htN
                rw [← one_mul (decC s xb t), wrap_ct hct] at h0
                have := h0.comp1 (ht b xb hxb t htN) (dvd_one (rescaleAssign_budget hf))
                rw [wrap_ct hct]
                simpa using this
              rwa [upd_self, upd_self] at this
          · have hge : xb.ct.md.logBudget ≤ xa.ct.md.logBudget := Nat.le_of_not_lt hlt
            simp only [hlt, if_false, usub, hge, if_true] at hm'
            obtain ⟨m, hf, rfl⟩ := putRes_ok' hm'
            obtain ⟨c', h1, hct, hok, hv⟩ := dRescaleAssign_sem he (hp.get hxa) _ hf
            refine ⟨pool.set a c', ?_, by rw [cts_set, hct], hp.set a hok, fun s M E ht => ?_⟩
            · have hlt' : ¬ xa.md.logBudget < xb.md.logBudget := hlt
              simp only [dstep, hxa, hxb, hab, if_false, hlt', dput]
              have h1' : dRescaleAssign env N xa (xa.md.logBudget - xb.md.logBudget) = .ok c' := h1
              rw [h1']; rfl
            · simp only [specM, specE]
              have := ht.set a c' (fun t => M a t) (E a) fun t htN => by
                have h0 := hv s t htN
                rw [← one_mul (decC s xa t), wrap_ct hct] at h0
                have := h0.comp1 (ht a xa hxa t htN) (dvd_one (rescaleAssign_budget hf))
                rw [wrap_ct hct]
                simpa using this
              rwa [upd_self, upd_self] at this

  | addPt sub d a pt pg =>
    obtain ⟨cd, ca, m, hd, ha, hda, hf, rfl⟩ := op2_ok' (show op2 _ d a (fun cd ca => withPt env pt cd (addPtZnxInto env cd ca pt)) = .ok mp from hm)
    obtain ⟨xd, hxd, rfl⟩ := cts_some hd
    obtain ⟨xa, hxa, rfl⟩ := cts_some ha
    obtain ⟨c', h1, hct, hok, hv⟩ := dAddPtInto_sem he (hp.get hxd) (hp.get hxa) sub hpt hf
    refine ⟨pool.set d c', dop2_ok hxd hxa hda h1, by rw [cts_set, hct], hp.set d hok, fun s M E ht => ?_⟩
    simp only [LOp.dst, specM, specE]
    rw [ulpAt_set hd, ← hct, ← ulp_eq_ulpM hok]
    refine ht.set d c' _ _ fun t htN => ?_
    obtain ⟨_, hal⟩ := withPt_ok2 hf
    have hbud : m.md.logBudget ≤ xa.ct.md.logBudget := by
      simp only [addPtZnxInto] at hal
      cases h1' : shiftInto env xd.ct xa.ct 0 with
      | ok m1 =>
        rw [h1'] at hal
        obtain ⟨rfl, _, _⟩ := ptAlign_ok2 (show ptAlign env m1 pt = .ok m from hal)
        have := unaryShift_spec env xd.ct xa.ct m h1' 0; omega
      | err e c => rw [h1'] at hal; cases hal
      | panic p => rw [h1'] at hal; cases hal
    have hbk : env.base2k = pt.base2k := by
      simp only [addPtZnxInto] at hal
      cases h1' : shiftInto env xd.ct xa.ct 0 with
      | ok m1 => rw [h1'] at hal; exact (ptAlign_ok2 (show ptAlign env m1 pt = .ok m from hal)).2.1
      | err e c => rw [h1'] at hal; cases hal
      | panic p => rw [h1'] at hal; cases hal
    have h0 := hv s t htN
    rw [← one_mul (decC s xa t), wrap_ct hct, hbk] at h0
    have := h0.comp1c (ht a xa hxa t htN) (dvd_one hbud)
    rw [wrap_ct hct]
    simpa using this
  | addPtAssign sub d pt pg =>
    obtain ⟨cd, m, hd, hf, rfl⟩ := op1_ok' (show op1 _ d (fun cd => withPt env pt cd (addPtZnxAssign env cd pt)) = .ok mp from hm)
    obtain ⟨xd, hxd, rfl⟩ := cts_some hd
    obtain ⟨c', h1, hct, hok, hv⟩ := dAddPtAssign_sem he (hp.get hxd) sub hpt hf
    refine ⟨pool.set d c', dop1_ok hxd h1, by rw [cts_set, hct], hp.set d hok, fun s M E ht => ?_⟩
    simp only [LOp.dst, specM, specE]
    rw [ulpAt_set hd, ← hct, ← ulp_eq_ulpM hok]
    refine ht.set d c' _ _ fun t htN => ?_
    obtain ⟨_, hal⟩ := withPt_ok2 hf
    obtain ⟨rfl, hbk, _⟩ := ptAlign_ok2 (show ptAlign env xd.ct pt = .ok m from hal)
    have h0 := hv s t htN
    rw [← one_mul (decC s xd t), wrap_ct hct, hbk] at h0
    have := h0.comp1c (ht d xd hxd t htN) (dvd_one (Nat.le_refl _))
    rw [wrap_ct hct]
    simpa using this

/-! ### programs -/

/-- the plaintext program and its error budget along the metadata run (`σ = 1 + Σ‖sᵢ‖₁`): the budget of a
call is computed from the metadata of its result alone -/
def specRun (env : Env) (σ : ℚ) : Pool → (Nat → Nat → ℚ) → (Nat → ℚ) → List LOp → (Nat → Nat → ℚ) × (Nat → ℚ)
  | _, M, E, [] => (M, E)
  | P, M, E, op :: rest =>
    match stepR env P op.toOp with
    | .ok P' => specRun env σ P' (specM M op) (specE σ (ulpAt env P' op.dst) E op) rest
    | _ => (M, E)

/-- **programs of the linear fragment.**  If the metadata model runs the program to `Ok mp`, the data-path
model runs it to `Ok pool'` with `pool'.cts = mp`, every ciphertext stays well formed with balanced digits,
and every ciphertext decodes to the plaintext program within the accumulated budget, for every secret. -/
theorem drun_sem {env : Env} (he : EnvOK env) {N r : Nat} (ops : List LOp) (hops : ∀ op ∈ ops, op.PtsOK env N)
    {pool : DPool} (hp : AllOK env N r pool) {mp : Pool} (hm : run env (DPool.cts pool) (ops.map LOp.toOp) = .ok mp) :
    ∃ pool', drun env N pool ops = .ok pool' ∧ DPool.cts pool' = mp ∧ AllOK env N r pool' ∧
      ∀ s M E, Tracks s N pool M E →
        Tracks s N pool' (specRun env (sn r s) (DPool.cts pool) M E ops).1 (specRun env (sn r s) (DPool.cts pool) M E ops).2 := by
  induction ops generalizing pool with
  | nil =>
    simp only [List.map_nil, run] at hm
    injection hm with hm
    exact ⟨pool, rfl, hm, hp, fun s M E ht => ht⟩
  | cons op rest ih =>
    simp only [List.map_cons, run] at hm
    cases h1 : stepR env (DPool.cts pool) op.toOp with
    | ok P' =>
      rw [h1] at hm
      obtain ⟨pool1, e1, c1, ok1, t1⟩ := dstep_sem he hp op (hops op (by simp)) h1
      subst c1
      obtain ⟨pool', e2, c2, ok2, t2⟩ := ih (fun o ho => hops o (by simp [ho])) ok1 hm
      refine ⟨pool', by simp only [drun, e1, Core.Ops.bind]; exact e2, c2, ok2, fun s M E ht => ?_⟩
      simp only [specRun, h1]
      exact t2 s _ _ (t1 s M E ht)
    | err e P' => rw [h1] at hm; cases hm
    | panic p => rw [h1] at hm; cases hm

end Ckks
