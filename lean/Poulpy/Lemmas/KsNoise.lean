import Poulpy.Lemmas.GadgetExec
import Poulpy.Lemmas.GadgetAlg

/-!
Coefficient-wise noise bound for the gadget error of the **executed** key-switch product
`Ks.gglweProductDft res a key`, for every digit size `dsize ≥ 1`, every `rank_in`, `rank_out`, `dnum`
and all sizes.

`Ks.keyswitch_value` (GadgetExec.lean) is an identity in the ring `R N = ℤ[X]/(X^N+1)` with an abstract
radix `β` and abstract errors `E i r : R N`; a ring element has no size.  Here the radix is the class
`radix N b` of the constant `2^b`, the errors of the key rows are coefficient lists `EL i r : Poly`, and
the error term of the identity is exhibited as the class `ι N (errL …)` of an explicit coefficient list
`errL = Σ_{i<rank_in} Σ_{r<dnum} digitL i r ⋆ EL i r` (`⋆ = Hal.negMul`, the exact negacyclic product),
whose `‖·‖∞` is bounded by `Σ_i Σ_r ‖digitL i r‖₁ · ‖EL i r‖∞`.  The digits `digitL i r` are the lists
`Σ_{di<dsize, row r in use at di} 2^(b·di) · a_i[limbIdx dsize r di]` the code forms, with
`‖digitL i r‖₁ ≤ Σ_di 2^(b·di) ‖a_i[limbIdx r di]‖₁`.

The limbs dropped by the size truncation of the passes (`Gadget.dropped`) are also exhibited as a
coefficient list `dropL`, with its own `‖·‖∞` bound.  The hypothesis on the key rows is always
satisfiable: `keyErrL` is the list-level error *defined* by the key equation (`keyErrL_spec`).
-/

namespace Ks
open Hal Polynomial

/-! ### the radix `2^b` in `ℤ[X]/(X^N+1)`, and `ι` of a scaled list -/

/-- the class of the constant `2^b` in `ℤ[X]/(X^N+1)` -/
noncomputable def radix (N b : ℕ) : R N := (((2 : ℤ) ^ b : ℤ) : R N)

theorem radix_eq (N b : ℕ) : radix N b = (2 : R N) ^ b := by
  unfold radix; push_cast; rfl

theorem radix_pow (N b k : ℕ) : radix N b ^ k = (((2 : ℤ) ^ (b * k) : ℤ) : R N) := by
  unfold radix; push_cast; rw [pow_mul]

/-- `ι` turns the scaling of a coefficient list by an integer into multiplication by (the class of) that integer;
no length hypothesis is needed -/
theorem ι_polyScale (N : ℕ) (c : ℤ) (p : Poly) : ι N (Hal.polyScale c p) = (c : R N) * ι N p := by
  unfold ι
  show AdjoinRoot.mk _ (toPoly (smulL c p)) = _
  rw [toPoly_smulL, map_mul, AdjoinRoot.mk_C, eq_intCast]

theorem ι_ite_zero (N : ℕ) (c : Prop) [Decidable c] (p : Poly) :
    ι N (if c then p else zeroP N) = if c then ι N p else 0 := by
  split
  · rfl
  · exact ι_zero N N

/-! ### `‖·‖₁` of sums and scalings, per-term `‖·‖∞` bound of a sum -/

/-- triangle inequality for `‖·‖₁` (no length hypothesis: `polyAdd` truncates) -/
theorem norm1_polyAdd_le (a b : Poly) : norm1 (Hal.polyAdd a b) ≤ norm1 a + norm1 b := by
  induction a generalizing b with
  | nil =>
    have : Hal.polyAdd [] b = [] := by simp [polyAdd]
    rw [this]; simpa using norm1_nonneg b
  | cons x xs ih =>
    cases b with
    | nil =>
      have : Hal.polyAdd (x :: xs) [] = [] := by simp [polyAdd]
      rw [this]; simpa using norm1_nonneg (x :: xs)
    | cons y ys =>
      rw [polyAdd_cons, norm1_cons, norm1_cons, norm1_cons]
      have h1 : |x + y| ≤ |x| + |y| := abs_add_le x y
      have h2 := ih ys
      omega

/-- `‖c·a‖₁ = |c|·‖a‖₁` -/
theorem norm1_polyScale (c : ℤ) (a : Poly) : norm1 (Hal.polyScale c a) = |c| * norm1 a := by
  induction a with
  | nil => simp [polyScale]
  | cons x xs ih => rw [polyScale_cons, norm1_cons, norm1_cons, ih, abs_mul, mul_add]

/-- `‖p‖₁ ≤ |p| · ‖p‖∞` -/
theorem norm1_le_length_mul_normInf (p : Poly) : norm1 p ≤ (p.length : ℤ) * normInf p := by
  induction p with
  | nil => simp
  | cons x xs ih =>
    rw [norm1_cons, normInf_cons, List.length_cons]
    have h1 := le_max_left |x| (normInf xs)
    have h2 := le_max_right |x| (normInf xs)
    have h3 : (xs.length : ℤ) * normInf xs ≤ (xs.length : ℤ) * max |x| (normInf xs) :=
      Int.mul_le_mul_of_nonneg_left h2 (Int.natCast_nonneg _)
    push_cast
    rw [add_mul, one_mul]
    omega

/-- `‖·‖₁` of a conditional accumulation (the shape of `digitL`) -/
theorem norm1_foldl_cond_le (m : ℕ) (P : ℕ → Prop) [DecidablePred P] (g : ℕ → Poly) (init : Poly) :
    norm1 ((List.range m).foldl (fun acc k => if P k then Hal.polyAdd acc (g k) else acc) init) ≤
      norm1 init + ∑ k ∈ Finset.range m, if P k then norm1 (g k) else 0 := by
  induction m with
  | zero => simp
  | succ m ih =>
    rw [List.range_succ, List.foldl_append, Finset.sum_range_succ]
    simp only [List.foldl_cons, List.foldl_nil]
    by_cases hp : P m
    · simp only [hp, if_true]
      have h1 := norm1_polyAdd_le
        ((List.range m).foldl (fun acc k => if P k then Hal.polyAdd acc (g k) else acc) init) (g m)
      omega
    · simp only [hp, if_false]
      omega

/-- **per-term** `‖·‖∞` bound of a `polyAdd`-fold of a mapped list -/
theorem normInf_foldl_map_le {α : Type} (l : List α) (f : α → Poly) (B : α → ℤ) (acc : Poly)
    (h : ∀ x ∈ l, normInf (f x) ≤ B x) :
    normInf ((l.map f).foldl Hal.polyAdd acc) ≤ normInf acc + (l.map B).sum := by
  induction l generalizing acc with
  | nil => simp
  | cons x xs ih =>
    rw [List.map_cons, List.foldl_cons, List.map_cons, List.sum_cons]
    have h1 := ih (Hal.polyAdd acc (f x)) (fun y hy => h y (by simp [hy]))
    have h2 := normInf_polyAdd_le acc (f x)
    have h3 := h x (by simp)
    omega

/-- **per-term** bound: `‖Σ_{x∈l} f x‖∞ ≤ Σ_{x∈l} B x` when `‖f x‖∞ ≤ B x` (no length hypothesis) -/
theorem normInf_sumPolys_map_le {α : Type} (n : ℕ) (l : List α) (f : α → Poly) (B : α → ℤ)
    (h : ∀ x ∈ l, normInf (f x) ≤ B x) : normInf (sumPolys n (l.map f)) ≤ (l.map B).sum := by
  have h1 := normInf_foldl_map_le l f B (zeroP n) h
  rw [normInf_zeroP] at h1
  unfold sumPolys
  omega

/-- the same over `j < m`, as a `Finset` sum -/
theorem normInf_sumPolys_range_le (n m : ℕ) (f : ℕ → Poly) (B : ℕ → ℤ) (h : ∀ j, j < m → normInf (f j) ≤ B j) :
    normInf (sumPolys n ((List.range m).map f)) ≤ ∑ j ∈ Finset.range m, B j := by
  induction m with
  | zero => simp [sumPolys, normInf_zeroP]
  | succ m ih =>
    have e : sumPolys n ((List.range (m + 1)).map f) = Hal.polyAdd (sumPolys n ((List.range m).map f)) (f m) := by
      unfold sumPolys
      rw [List.range_succ, List.map_append, List.foldl_append]
      rfl
    rw [e, Finset.sum_range_succ]
    have h1 := normInf_polyAdd_le (sumPolys n ((List.range m).map f)) (f m)
    have h2 := ih (fun j hj => h j (by omega))
    have h3 := h m (by omega)
    omega

theorem sumPolys_range_length (n m : ℕ) (f : ℕ → Poly) (hf : ∀ j, j < m → (f j).length = n) :
    (sumPolys n ((List.range m).map f)).length = n := by
  apply sumPolys_length
  intro p hp
  simp only [List.mem_map, List.mem_range] at hp
  obtain ⟨j, hj, rfl⟩ := hp
  exact hf j hj

/-- a buffer whose stored limbs all have `N` coefficients reads limbs of `N` coefficients everywhere
(limbs that do not exist read as `zeroP N`): the hypothesis `hA` of the theorems below -/
theorem limbOr0_act_length (N : ℕ) (a : Buf) (h : ∀ col ∈ a.data, ∀ p ∈ col, p.length = N) (c l : ℕ) :
    (limbOr0 N (a.act c) l).length = N := by
  unfold limbOr0
  apply getD_length_of_all
  intro p hp
  unfold Buf.act at hp
  have hp' := List.mem_of_mem_take hp
  rw [List.getD_eq_getElem?_getD] at hp'
  cases hc : a.data[c]? with
  | none => simp [hc] at hp'
  | some col =>
    simp only [hc, Option.getD_some] at hp'
    exact h col (List.mem_of_getElem? hc) p hp'

/-! ### the digits, as coefficient lists -/

/-- digit `r` (in base `2^(b·dsize)`) of input column `i`, as the code forms it: the limbs
`limbIdx dsize r di`, `di < dsize`, of the rows in use, weighted by `2^(b·di)` -/
def digitL (N b : ℕ) (a : Buf) (key : Key) (i r : ℕ) : Poly :=
  (List.range key.dsize).foldl (fun acc di =>
      if r < Gadget.rowsOf a.size key.dsize key.mat.rows di
      then Hal.polyAdd acc (Hal.polyScale ((2 : ℤ) ^ (b * di)) (limbOr0 N (a.act i) (Gadget.limbIdx key.dsize r di)))
      else acc) (zeroP N)

/-- `digitL` has `N` coefficients and its class is the abstract `Gadget.digit` of the limbs of column `i` -/
theorem digitL_spec (N b : ℕ) (a : Buf) (key : Key) (i r : ℕ)
    (hA : ∀ c l, (limbOr0 N (a.act c) l).length = N) :
    (digitL N b a key i r).length = N ∧
    ι N (digitL N b a key i r) =
      Gadget.digit (radix N b) key.dsize key.mat.rows a.size (inLimb N a i) r := by
  have h := ι_foldl_cond N key.dsize (fun di => r < Gadget.rowsOf a.size key.dsize key.mat.rows di)
    (fun di => Hal.polyScale ((2 : ℤ) ^ (b * di)) (limbOr0 N (a.act i) (Gadget.limbIdx key.dsize r di))) (zeroP N)
    (fun k => by rw [Hal.polyScale_length]; exact hA _ _) (zeroP_length N)
  refine ⟨h.1, ?_⟩
  unfold digitL
  rw [h.2, ι_zero, zero_add]
  unfold Gadget.digit
  apply Finset.sum_congr rfl
  intro di _
  split
  · rw [ι_polyScale, radix_pow, mul_comm]; rfl
  · rfl

theorem digitL_length (N b : ℕ) (a : Buf) (key : Key) (i r : ℕ)
    (hA : ∀ c l, (limbOr0 N (a.act c) l).length = N) : (digitL N b a key i r).length = N :=
  (digitL_spec N b a key i r hA).1

theorem ι_digitL (N b : ℕ) (a : Buf) (key : Key) (i r : ℕ)
    (hA : ∀ c l, (limbOr0 N (a.act c) l).length = N) :
    ι N (digitL N b a key i r) =
      Gadget.digit (radix N b) key.dsize key.mat.rows a.size (inLimb N a i) r :=
  (digitL_spec N b a key i r hA).2

/-- **(c) size of a digit**: `‖digitL i r‖₁ ≤ Σ_{di<dsize} 2^(b·di) · ‖a_i[limbIdx r di]‖₁` -/
theorem norm1_digitL_le (N b : ℕ) (a : Buf) (key : Key) (i r : ℕ) :
    norm1 (digitL N b a key i r) ≤
      ∑ di ∈ Finset.range key.dsize,
        (2 : ℤ) ^ (b * di) * norm1 (limbOr0 N (a.act i) (Gadget.limbIdx key.dsize r di)) := by
  have h := norm1_foldl_cond_le key.dsize (fun di => r < Gadget.rowsOf a.size key.dsize key.mat.rows di)
    (fun di => Hal.polyScale ((2 : ℤ) ^ (b * di)) (limbOr0 N (a.act i) (Gadget.limbIdx key.dsize r di))) (zeroP N)
  rw [norm1_zeroP, zero_add] at h
  refine le_trans h (Finset.sum_le_sum ?_)
  intro di _
  have hnn : (0 : ℤ) ≤ (2 : ℤ) ^ (b * di) * norm1 (limbOr0 N (a.act i) (Gadget.limbIdx key.dsize r di)) :=
    mul_nonneg (pow_nonneg (by decide) _) (norm1_nonneg _)
  split
  · rw [norm1_polyScale, abs_pow, abs_two]
  · exact hnn

/-- digits of limbs with coefficients bounded by `B`: `‖digitL i r‖₁ ≤ (Σ_{di<dsize} 2^(b·di)) · N · B` -/
theorem norm1_digitL_le_of_bound (N b : ℕ) (a : Buf) (key : Key) (i r : ℕ) (B : ℤ)
    (hA : ∀ c l, (limbOr0 N (a.act c) l).length = N)
    (hB : ∀ l, normInf (limbOr0 N (a.act i) l) ≤ B) :
    norm1 (digitL N b a key i r) ≤ (∑ di ∈ Finset.range key.dsize, (2 : ℤ) ^ (b * di)) * ((N : ℤ) * B) := by
  refine le_trans (norm1_digitL_le N b a key i r) ?_
  rw [Finset.sum_mul]
  apply Finset.sum_le_sum
  intro di _
  apply Int.mul_le_mul_of_nonneg_left _ (pow_nonneg (by decide) _)
  have h1 := norm1_le_length_mul_normInf (limbOr0 N (a.act i) (Gadget.limbIdx key.dsize r di))
  rw [hA] at h1
  exact le_trans h1 (Int.mul_le_mul_of_nonneg_left (hB _) (Int.natCast_nonneg _))

/-! ### the gadget error, as a coefficient list -/

/-- the gadget error `Σ_{i<rank_in} Σ_{r<dnum} digitL i r ⋆ EL i r` (pairs `(i, r)` enumerated as `q = i·dnum + r`) -/
def errL (N b : ℕ) (a : Buf) (key : Key) (EL : ℕ → ℕ → Poly) : Poly :=
  sumPolys N ((List.range (key.mat.colsIn * key.mat.rows)).map (fun q =>
    Hal.negMul (digitL N b a key (q / key.mat.rows) (q % key.mat.rows)) (EL (q / key.mat.rows) (q % key.mat.rows))))

theorem errL_length (N b : ℕ) (a : Buf) (key : Key) (EL : ℕ → ℕ → Poly) (hEL : ∀ i r, (EL i r).length = N) :
    (errL N b a key EL).length = N :=
  sumPolys_range_length N _ _ (fun j _ => by rw [Hal.negMul_length]; exact hEL _ _)

/-- the class of `errL` is the error term `Σ_i Σ_r digit_r(a_i) · E i r` of `keyswitch_value` -/
theorem ι_errL (N b : ℕ) (a : Buf) (key : Key) (EL : ℕ → ℕ → Poly) (hN : 0 < N)
    (hA : ∀ c l, (limbOr0 N (a.act c) l).length = N) (hEL : ∀ i r, (EL i r).length = N) :
    ι N (errL N b a key EL) =
      ∑ i ∈ Finset.range key.mat.colsIn, ∑ r ∈ Finset.range key.mat.rows,
        Gadget.digit (radix N b) key.dsize key.mat.rows a.size (inLimb N a i) r * ι N (EL i r) := by
  unfold errL
  rw [ι_sumPolys_range N _ _ (fun j _ => by rw [Hal.negMul_length]; exact hEL _ _), sum_range_mul]
  apply Finset.sum_congr rfl
  intro i _
  apply Finset.sum_congr rfl
  intro r hr
  have hr' : r < key.mat.rows := Finset.mem_range.mp hr
  rw [idx_div i r _ hr', idx_mod i r _ hr', ι_negMul N _ _ (hEL i r) hN, ι_digitL N b a key i r hA]

/-- **(b) the noise bound**: `‖errL‖∞ ≤ Σ_{i<rank_in} Σ_{r<dnum} ‖digitL i r‖₁ · ‖EL i r‖∞` (unconditional) -/
theorem normInf_errL_le (N b : ℕ) (a : Buf) (key : Key) (EL : ℕ → ℕ → Poly) :
    normInf (errL N b a key EL) ≤
      ∑ i ∈ Finset.range key.mat.colsIn, ∑ r ∈ Finset.range key.mat.rows,
        norm1 (digitL N b a key i r) * normInf (EL i r) := by
  unfold errL
  refine le_trans (normInf_sumPolys_range_le N _ _
    (fun q => norm1 (digitL N b a key (q / key.mat.rows) (q % key.mat.rows)) *
      normInf (EL (q / key.mat.rows) (q % key.mat.rows)))
    (fun j _ => normInf_negMul_le _ _)) (le_of_eq ?_)
  rw [sum_range_mul]
  apply Finset.sum_congr rfl
  intro i _
  apply Finset.sum_congr rfl
  intro r hr
  have hr' : r < key.mat.rows := Finset.mem_range.mp hr
  rw [idx_div i r _ hr', idx_mod i r _ hr']

/-- uniform version: input limbs bounded by `B`, key errors bounded by `BE`:
`‖errL‖∞ ≤ rank_in · dnum · (Σ_{di<dsize} 2^(b·di)) · N · B · BE` -/
theorem normInf_errL_le_of_bounds (N b : ℕ) (a : Buf) (key : Key) (EL : ℕ → ℕ → Poly) (B BE : ℤ)
    (hA : ∀ c l, (limbOr0 N (a.act c) l).length = N)
    (hB : ∀ i l, normInf (limbOr0 N (a.act i) l) ≤ B)
    (hE : ∀ i r, normInf (EL i r) ≤ BE) :
    normInf (errL N b a key EL) ≤
      (key.mat.colsIn : ℤ) * ((key.mat.rows : ℤ) *
        ((∑ di ∈ Finset.range key.dsize, (2 : ℤ) ^ (b * di)) * ((N : ℤ) * B) * BE)) := by
  refine le_trans (normInf_errL_le N b a key EL) ?_
  have hterm : ∀ i r, norm1 (digitL N b a key i r) * normInf (EL i r) ≤
      (∑ di ∈ Finset.range key.dsize, (2 : ℤ) ^ (b * di)) * ((N : ℤ) * B) * BE := by
    intro i r
    have h1 := norm1_digitL_le_of_bound N b a key i r B hA (hB i)
    have h2 := hE i r
    have h3 := norm1_nonneg (digitL N b a key i r)
    have h4 := normInf_nonneg (EL i r)
    exact mul_le_mul h1 h2 h4 (le_trans h3 h1)
  refine le_trans (Finset.sum_le_sum (fun i _ => Finset.sum_le_sum (fun r _ => hterm i r))) (le_of_eq ?_)
  simp only [Finset.sum_const, Finset.card_range, nsmul_eq_mul]

/-! ### (a)+(b): the executed key switch -/

/-- **`keyswitch_executed_noise_bound`** — the gadget error of the executed `gglwe_product_dft`, with a
coefficient-wise bound.  Hypotheses as `Ks.keyswitch_value` (every `dsize ≥ 1`, `rank_in = key.mat.colsIn`,
`rank_out + 1 = key.mat.colsOut`, `dnum = key.mat.rows`, `S = key.mat.size` limbs, any result buffer content, any
secret `sk`), with the radix `β = radix N b` (the class of `2^b`) and key errors given as coefficient lists `EL i r`
of `N` coefficients: the phase of key row `r` of input column `i` has value `s i · β^(S − (r+1)·dsize) + ι (EL i r)`.
All limbs of `a` have `N` coefficients (`hA`).  Then

* (a) the value of the phase of the executed product is
  `Σ_i s i · (used part of input column i) + ι(errL) − Σ_i dropped_i − β^S · Σ_i head_i`, where the error is the class
  of the explicit coefficient list `errL = Σ_i Σ_r digitL i r ⋆ EL i r`;
* (b) `‖errL‖∞ ≤ Σ_{i<rank_in} Σ_{r<dnum} ‖digitL i r‖₁ · ‖EL i r‖∞`.

(`norm1_digitL_le` bounds `‖digitL i r‖₁` by `Σ_{di<dsize} 2^(b·di) ‖a_i[limbIdx r di]‖₁`.) -/
theorem keyswitch_executed_noise_bound (N b : ℕ) (sk : List Poly) (res a : Buf) (key : Key) (s : ℕ → R N)
    (EL : ℕ → ℕ → Poly)
    (hD : 1 ≤ key.dsize) (hN : 0 < N) (hres : res.WF) (hmax : res.maxSize = key.mat.size) (hsize : res.size = key.mat.size)
    (hcols : res.cols = key.mat.colsOut) (hc0 : 0 < key.mat.colsOut) (hresn : res.n = N) (han : a.n = N)
    (hacols : a.cols = key.mat.colsIn) (hM : ∀ j q, (key.mat.entry j q).length = N)
    (hS : key.mat.rows * key.dsize ≤ key.mat.size)
    (hkey : ∀ i, i < key.mat.colsIn → ∀ r, r < key.mat.rows →
      Gadget.val (radix N b) key.mat.size (keyPhase N sk key.mat i r) =
        s i * radix N b ^ (key.mat.size - (r + 1) * key.dsize) + ι N (EL i r))
    (hA : ∀ c l, (limbOr0 N (a.act c) l).length = N) (hEL : ∀ i r, (EL i r).length = N) :
    (∑ l ∈ Finset.range key.mat.size,
        ι N (phaseRow sk ((List.range res.cols).map (fun c => limbOr0 N ((gglweProductDft res a key).act c) l))) *
          radix N b ^ (key.mat.size - 1 - l) =
      ∑ i ∈ Finset.range key.mat.colsIn,
          s i * Gadget.usedVal (radix N b) key.mat.size key.dsize key.mat.rows a.size (inLimb N a i)
        + ι N (errL N b a key EL)
        - ∑ i ∈ Finset.range key.mat.colsIn,
            Gadget.dropped (radix N b) key.mat.size key.dsize key.mat.rows a.size (inLimb N a i) (keyPhase N sk key.mat i)
        - radix N b ^ key.mat.size * ∑ i ∈ Finset.range key.mat.colsIn,
            Gadget.head (radix N b) key.dsize key.mat.rows a.size (inLimb N a i) (keyPhase N sk key.mat i)) ∧
    normInf (errL N b a key EL) ≤
      ∑ i ∈ Finset.range key.mat.colsIn, ∑ r ∈ Finset.range key.mat.rows,
        norm1 (digitL N b a key i r) * normInf (EL i r) := by
  refine ⟨?_, normInf_errL_le N b a key EL⟩
  rw [keyswitch_value N sk res a key (radix N b) s (fun i r => ι N (EL i r)) hD hN hres hmax hsize hcols hc0 hresn han
    hacols hM hS hkey, ι_errL N b a key EL hN hA hEL, Finset.mul_sum]
  simp only [Finset.sum_sub_distrib, Finset.sum_add_distrib]

/-! ### (d) the dropped limbs, as a coefficient list -/

/-- one dropped product limb: pass `di`, row `r`, limb `l` with `szOf S dsize di ≤ l` and `l + di < S` -/
def dropTermL (N b : ℕ) (sk : List Poly) (a : Buf) (key : Key) (i di r l : ℕ) : Poly :=
  if Gadget.szOf key.mat.size key.dsize di ≤ l ∧ l + di < key.mat.size then
    Hal.polyScale ((2 : ℤ) ^ (b * (key.mat.size - 1 - l)))
      (Hal.negMul (limbOr0 N (a.act i) (Gadget.limbIdx key.dsize r di))
        (phaseRow sk (rowLimb key.mat (r * key.mat.colsIn + i) (l + di))))
  else zeroP N

/-- `Σ_i Gadget.dropped …` as a coefficient list -/
def dropL (N b : ℕ) (sk : List Poly) (a : Buf) (key : Key) : Poly :=
  sumPolys N ((List.range key.mat.colsIn).map (fun i =>
    sumPolys N ((List.range key.dsize).map (fun di =>
      sumPolys N ((List.range (Gadget.rowsOf a.size key.dsize key.mat.rows di)).map (fun r =>
        sumPolys N ((List.range key.mat.size).map (fun l => dropTermL N b sk a key i di r l))))))))

theorem dropTermL_length (N b : ℕ) (sk : List Poly) (a : Buf) (key : Key) (i di r l : ℕ)
    (hc0 : 0 < key.mat.colsOut) (hM : ∀ j q, (key.mat.entry j q).length = N) :
    (dropTermL N b sk a key i di r l).length = N := by
  unfold dropTermL
  split
  · rw [Hal.polyScale_length, Hal.negMul_length]
    exact phaseRow_rowLimb_length N sk key.mat _ _ hc0 hM
  · exact zeroP_length N

theorem ι_dropTermL (N b : ℕ) (sk : List Poly) (a : Buf) (key : Key) (i di r l : ℕ) (hN : 0 < N)
    (hc0 : 0 < key.mat.colsOut) (hM : ∀ j q, (key.mat.entry j q).length = N) :
    ι N (dropTermL N b sk a key i di r l) =
      if Gadget.szOf key.mat.size key.dsize di ≤ l ∧ l + di < key.mat.size then
        inLimb N a i (Gadget.limbIdx key.dsize r di) * keyPhase N sk key.mat i r (l + di) *
          radix N b ^ (key.mat.size - 1 - l)
      else 0 := by
  unfold dropTermL
  rw [ι_ite_zero]
  split
  · rw [ι_polyScale, ι_negMul N _ _ (phaseRow_rowLimb_length N sk key.mat _ _ hc0 hM) hN, radix_pow, mul_comm]
    rfl
  · rfl

theorem normInf_dropTermL_le (N b : ℕ) (sk : List Poly) (a : Buf) (key : Key) (i di r l : ℕ) :
    normInf (dropTermL N b sk a key i di r l) ≤
      if Gadget.szOf key.mat.size key.dsize di ≤ l ∧ l + di < key.mat.size then
        (2 : ℤ) ^ (b * (key.mat.size - 1 - l)) *
          (norm1 (limbOr0 N (a.act i) (Gadget.limbIdx key.dsize r di)) *
            normInf (phaseRow sk (rowLimb key.mat (r * key.mat.colsIn + i) (l + di))))
      else 0 := by
  unfold dropTermL
  split
  · rw [normInf_polyScale, abs_pow, abs_two]
    exact Int.mul_le_mul_of_nonneg_left (normInf_negMul_le _ _) (pow_nonneg (by decide) _)
  · rw [normInf_zeroP]

/-- the class of `dropL` is the dropped part of the identity -/
theorem ι_dropL (N b : ℕ) (sk : List Poly) (a : Buf) (key : Key) (hN : 0 < N)
    (hc0 : 0 < key.mat.colsOut) (hM : ∀ j q, (key.mat.entry j q).length = N) :
    ι N (dropL N b sk a key) =
      ∑ i ∈ Finset.range key.mat.colsIn,
        Gadget.dropped (radix N b) key.mat.size key.dsize key.mat.rows a.size (inLimb N a i) (keyPhase N sk key.mat i) := by
  have hT := fun i di r l => dropTermL_length N b sk a key i di r l hc0 hM
  have h4 : ∀ i di r, (sumPolys N ((List.range key.mat.size).map (fun l => dropTermL N b sk a key i di r l))).length = N :=
    fun i di r => sumPolys_range_length N _ _ (fun l _ => hT i di r l)
  have h3 : ∀ i di, (sumPolys N ((List.range (Gadget.rowsOf a.size key.dsize key.mat.rows di)).map (fun r =>
      sumPolys N ((List.range key.mat.size).map (fun l => dropTermL N b sk a key i di r l))))).length = N :=
    fun i di => sumPolys_range_length N _ _ (fun r _ => h4 i di r)
  have h2 : ∀ i, (sumPolys N ((List.range key.dsize).map (fun di =>
      sumPolys N ((List.range (Gadget.rowsOf a.size key.dsize key.mat.rows di)).map (fun r =>
        sumPolys N ((List.range key.mat.size).map (fun l => dropTermL N b sk a key i di r l))))))).length = N :=
    fun i => sumPolys_range_length N _ _ (fun di _ => h3 i di)
  unfold dropL
  rw [ι_sumPolys_range N _ _ (fun i _ => h2 i)]
  apply Finset.sum_congr rfl
  intro i _
  rw [ι_sumPolys_range N _ _ (fun di _ => h3 i di)]
  unfold Gadget.dropped
  apply Finset.sum_congr rfl
  intro di _
  rw [ι_sumPolys_range N _ _ (fun r _ => h4 i di r)]
  apply Finset.sum_congr rfl
  intro r _
  rw [ι_sumPolys_range N _ _ (fun l _ => hT i di r l)]
  apply Finset.sum_congr rfl
  intro l _
  exact ι_dropTermL N b sk a key i di r l hN hc0 hM

/-- `‖dropL‖∞ ≤ Σ_i Σ_di Σ_{r<rowsOf di} Σ_{l<S, dropped} 2^(b·(S−1−l)) · ‖a_i[limbIdx r di]‖₁ · ‖φ_{i,r}[l+di]‖∞` (unconditional) -/
theorem normInf_dropL_le (N b : ℕ) (sk : List Poly) (a : Buf) (key : Key) :
    normInf (dropL N b sk a key) ≤
      ∑ i ∈ Finset.range key.mat.colsIn, ∑ di ∈ Finset.range key.dsize,
        ∑ r ∈ Finset.range (Gadget.rowsOf a.size key.dsize key.mat.rows di), ∑ l ∈ Finset.range key.mat.size,
          if Gadget.szOf key.mat.size key.dsize di ≤ l ∧ l + di < key.mat.size then
            (2 : ℤ) ^ (b * (key.mat.size - 1 - l)) *
              (norm1 (limbOr0 N (a.act i) (Gadget.limbIdx key.dsize r di)) *
                normInf (phaseRow sk (rowLimb key.mat (r * key.mat.colsIn + i) (l + di))))
          else 0 := by
  unfold dropL
  refine normInf_sumPolys_range_le N _ _ _ (fun i _ => ?_)
  refine normInf_sumPolys_range_le N _ _ _ (fun di _ => ?_)
  refine normInf_sumPolys_range_le N _ _ _ (fun r _ => ?_)
  refine normInf_sumPolys_range_le N _ _ _ (fun l _ => ?_)
  exact normInf_dropTermL_le N b sk a key i di r l

/-- **`keyswitch_executed_noise_bound_drop`** — as `keyswitch_executed_noise_bound`, with the dropped limbs also
exhibited as a coefficient list with a `‖·‖∞` bound: the value of the phase of the executed product is
`Σ_i s i · used_i + ι(errL) − ι(dropL) − β^S · Σ_i head_i`. -/
theorem keyswitch_executed_noise_bound_drop (N b : ℕ) (sk : List Poly) (res a : Buf) (key : Key) (s : ℕ → R N)
    (EL : ℕ → ℕ → Poly)
    (hD : 1 ≤ key.dsize) (hN : 0 < N) (hres : res.WF) (hmax : res.maxSize = key.mat.size) (hsize : res.size = key.mat.size)
    (hcols : res.cols = key.mat.colsOut) (hc0 : 0 < key.mat.colsOut) (hresn : res.n = N) (han : a.n = N)
    (hacols : a.cols = key.mat.colsIn) (hM : ∀ j q, (key.mat.entry j q).length = N)
    (hS : key.mat.rows * key.dsize ≤ key.mat.size)
    (hkey : ∀ i, i < key.mat.colsIn → ∀ r, r < key.mat.rows →
      Gadget.val (radix N b) key.mat.size (keyPhase N sk key.mat i r) =
        s i * radix N b ^ (key.mat.size - (r + 1) * key.dsize) + ι N (EL i r))
    (hA : ∀ c l, (limbOr0 N (a.act c) l).length = N) (hEL : ∀ i r, (EL i r).length = N) :
    (∑ l ∈ Finset.range key.mat.size,
        ι N (phaseRow sk ((List.range res.cols).map (fun c => limbOr0 N ((gglweProductDft res a key).act c) l))) *
          radix N b ^ (key.mat.size - 1 - l) =
      ∑ i ∈ Finset.range key.mat.colsIn,
          s i * Gadget.usedVal (radix N b) key.mat.size key.dsize key.mat.rows a.size (inLimb N a i)
        + ι N (errL N b a key EL) - ι N (dropL N b sk a key)
        - radix N b ^ key.mat.size * ∑ i ∈ Finset.range key.mat.colsIn,
            Gadget.head (radix N b) key.dsize key.mat.rows a.size (inLimb N a i) (keyPhase N sk key.mat i)) ∧
    normInf (errL N b a key EL) ≤
      (∑ i ∈ Finset.range key.mat.colsIn, ∑ r ∈ Finset.range key.mat.rows,
        norm1 (digitL N b a key i r) * normInf (EL i r)) ∧
    normInf (dropL N b sk a key) ≤
      ∑ i ∈ Finset.range key.mat.colsIn, ∑ di ∈ Finset.range key.dsize,
        ∑ r ∈ Finset.range (Gadget.rowsOf a.size key.dsize key.mat.rows di), ∑ l ∈ Finset.range key.mat.size,
          if Gadget.szOf key.mat.size key.dsize di ≤ l ∧ l + di < key.mat.size then
            (2 : ℤ) ^ (b * (key.mat.size - 1 - l)) *
              (norm1 (limbOr0 N (a.act i) (Gadget.limbIdx key.dsize r di)) *
                normInf (phaseRow sk (rowLimb key.mat (r * key.mat.colsIn + i) (l + di))))
          else 0 := by
  obtain ⟨h1, h2⟩ := keyswitch_executed_noise_bound N b sk res a key s EL hD hN hres hmax hsize hcols hc0 hresn han
    hacols hM hS hkey hA hEL
  exact ⟨by rw [h1, ι_dropL N b sk a key hN hc0 hM], h2, normInf_dropL_le N b sk a key⟩

/-- for `dsize ≤ 2` nothing is dropped -/
theorem ι_dropL_eq_zero (N b : ℕ) (sk : List Poly) (a : Buf) (key : Key) (hN : 0 < N)
    (hc0 : 0 < key.mat.colsOut) (hM : ∀ j q, (key.mat.entry j q).length = N) (h2 : key.dsize ≤ 2) :
    ι N (dropL N b sk a key) = 0 := by
  rw [ι_dropL N b sk a key hN hc0 hM]
  exact Finset.sum_eq_zero (fun i _ => Gadget.dropped_eq_zero _ _ _ _ _ _ _ h2)

/-! ### the key hypothesis is always satisfiable: the error *defined* by the key equation -/

/-- list-level value of `S` limbs at radix `2^b` (last limb weight 1) -/
def valL (N b S : ℕ) (φL : ℕ → Poly) : Poly :=
  sumPolys N ((List.range S).map (fun l => Hal.polyScale ((2 : ℤ) ^ (b * (S - 1 - l))) (φL l)))

theorem valL_length (N b S : ℕ) (φL : ℕ → Poly) (hφ : ∀ l, (φL l).length = N) : (valL N b S φL).length = N :=
  sumPolys_range_length N _ _ (fun l _ => by rw [Hal.polyScale_length]; exact hφ l)

theorem ι_valL (N b S : ℕ) (φL : ℕ → Poly) (hφ : ∀ l, (φL l).length = N) :
    ι N (valL N b S φL) = Gadget.val (radix N b) S (fun l => ι N (φL l)) := by
  unfold valL Gadget.val
  rw [ι_sumPolys_range N _ _ (fun l _ => by rw [Hal.polyScale_length]; exact hφ l)]
  apply Finset.sum_congr rfl
  intro l _
  rw [ι_polyScale, radix_pow, mul_comm]

/-- the error of key row `r` of input column `i` under the secret `sk`, relative to the message `sL i`:
`value of the phase of the row − 2^(b·(S − (r+1)·dsize)) · sL i` -/
def keyErrL (N b : ℕ) (sk : List Poly) (key : Key) (sL : ℕ → Poly) (i r : ℕ) : Poly :=
  Hal.polyAdd (valL N b key.mat.size (fun l => phaseRow sk (rowLimb key.mat (r * key.mat.colsIn + i) l)))
    (Hal.polyScale (-((2 : ℤ) ^ (b * (key.mat.size - (r + 1) * key.dsize)))) (sL i))

theorem keyErrL_length (N b : ℕ) (sk : List Poly) (key : Key) (sL : ℕ → Poly) (i r : ℕ)
    (hc0 : 0 < key.mat.colsOut) (hM : ∀ j q, (key.mat.entry j q).length = N) (hsL : ∀ i, (sL i).length = N) :
    (keyErrL N b sk key sL i r).length = N := by
  unfold keyErrL
  rw [Hal.polyAdd_length, Hal.polyScale_length, hsL,
    valL_length N b _ _ (fun l => phaseRow_rowLimb_length N sk key.mat _ l hc0 hM), Nat.min_self]

/-- the key relation of `keyswitch_executed_noise_bound` holds for `EL := keyErrL`, `s i := ι (sL i)`, for every key -/
theorem keyErrL_spec (N b : ℕ) (sk : List Poly) (key : Key) (sL : ℕ → Poly) (i r : ℕ)
    (hc0 : 0 < key.mat.colsOut) (hM : ∀ j q, (key.mat.entry j q).length = N) (hsL : ∀ i, (sL i).length = N) :
    Gadget.val (radix N b) key.mat.size (keyPhase N sk key.mat i r) =
      ι N (sL i) * radix N b ^ (key.mat.size - (r + 1) * key.dsize) + ι N (keyErrL N b sk key sL i r) := by
  have hφ := fun l => phaseRow_rowLimb_length N sk key.mat (r * key.mat.colsIn + i) l hc0 hM
  unfold keyErrL
  rw [ι_add N _ _ (by rw [Hal.polyScale_length, hsL, valL_length N b _ _ hφ]), ι_valL N b _ _ hφ, ι_polyScale, radix_pow]
  have e : Gadget.val (radix N b) key.mat.size (fun l => ι N (phaseRow sk (rowLimb key.mat (r * key.mat.colsIn + i) l))) =
      Gadget.val (radix N b) key.mat.size (keyPhase N sk key.mat i r) := rfl
  rw [e]
  push_cast
  ring

/-! ### non-vacuity: the `n = 1`, `dsize = 3` key of `Ks.AccumExample`, dirty result buffer, any secret, any radix -/

/-- all hypotheses of `keyswitch_executed_noise_bound_drop` (hence of `keyswitch_executed_noise_bound`) hold on the
`dsize = 3` example: the key errors are *defined* by the key equation (`keyErrL`), for any secret `sk`, any
messages `sL i` of one coefficient and any radix `2^b` -/
example (b : ℕ) (sk : List Poly) (sL : ℕ → Poly) (hsL : ∀ i, (sL i).length = 1) :
    (∑ l ∈ Finset.range 4,
        ι 1 (phaseRow sk ((List.range 1).map (fun c =>
          limbOr0 1 ((gglweProductDft AccumExample.dirty3 AccumExample.exA3 AccumExample.exKey3).act c) l))) *
          radix 1 b ^ (4 - 1 - l) =
      ∑ i ∈ Finset.range 1, ι 1 (sL i) * Gadget.usedVal (radix 1 b) 4 3 1 1 (inLimb 1 AccumExample.exA3 i)
        + ι 1 (errL 1 b AccumExample.exA3 AccumExample.exKey3 (keyErrL 1 b sk AccumExample.exKey3 sL))
        - ι 1 (dropL 1 b sk AccumExample.exA3 AccumExample.exKey3)
        - radix 1 b ^ 4 * ∑ i ∈ Finset.range 1,
            Gadget.head (radix 1 b) 3 1 1 (inLimb 1 AccumExample.exA3 i) (keyPhase 1 sk AccumExample.exKey3.mat i)) ∧
    normInf (errL 1 b AccumExample.exA3 AccumExample.exKey3 (keyErrL 1 b sk AccumExample.exKey3 sL)) ≤
      (∑ i ∈ Finset.range 1, ∑ r ∈ Finset.range 1,
        norm1 (digitL 1 b AccumExample.exA3 AccumExample.exKey3 i r) *
          normInf (keyErrL 1 b sk AccumExample.exKey3 sL i r)) ∧
    normInf (dropL 1 b sk AccumExample.exA3 AccumExample.exKey3) ≤
      ∑ i ∈ Finset.range 1, ∑ di ∈ Finset.range 3,
        ∑ r ∈ Finset.range (Gadget.rowsOf 1 3 1 di), ∑ l ∈ Finset.range 4,
          if Gadget.szOf 4 3 di ≤ l ∧ l + di < 4 then
            (2 : ℤ) ^ (b * (4 - 1 - l)) *
              (norm1 (limbOr0 1 (AccumExample.exA3.act i) (Gadget.limbIdx 3 r di)) *
                normInf (phaseRow sk (rowLimb AccumExample.exKey3.mat (r * 1 + i) (l + di))))
          else 0 :=
  have hM := entry_length AccumExample.exKey3.mat 1 rfl (by decide)
  keyswitch_executed_noise_bound_drop 1 b sk AccumExample.dirty3 AccumExample.exA3 AccumExample.exKey3
    (fun i => ι 1 (sL i)) (keyErrL 1 b sk AccumExample.exKey3 sL)
    (by decide) (by decide) AccumExample.dirty3_WF rfl rfl rfl (by decide) rfl rfl rfl hM (by decide)
    (fun i _ r _ => keyErrL_spec 1 b sk AccumExample.exKey3 sL i r (by decide) hM hsL)
    (limbOr0_act_length 1 AccumExample.exA3 (by decide))
    (fun i r => keyErrL_length 1 b sk AccumExample.exKey3 sL i r (by decide) hM hsL)

/-- the digit of the example evaluated (`b = 4`): only digit offset `di = 2` has a row in use, so the digit is
`2^(4·2) · a₀ = 256`, and `norm1_digitL_le` is tight on it -/
example : digitL 1 4 AccumExample.exA3 AccumExample.exKey3 0 0 = [256] ∧
    norm1 (digitL 1 4 AccumExample.exA3 AccumExample.exKey3 0 0) = 256 ∧
    (∑ di ∈ Finset.range 3, (2 : ℤ) ^ (4 * di) *
      norm1 (limbOr0 1 (AccumExample.exA3.act 0) (Gadget.limbIdx 3 0 di))) = 256 := by
  decide

end Ks
