import Poulpy.Lemmas.CkksBound
import Poulpy.Lemmas.CkksSem
/-!
Decoded-value form of the core GLWE operations the CKKS linear layer calls (C16 value semantics).

`decG s g β t` is coefficient `t` of the message a GLWE `g` carries under the secret `s` when its
budget is `β`: the exact phase (integers, no wrap) read on `base2k·size` bits, times `2^β`.  Every
lemma here says: the core call returns `ok`, keeps the shape, bounds the limbs of the result (so that
the next core call has its head-room), and moves `decG` as the real-number operation does, modulo
`2^β'` and up to an explicit number of units of the result's last limb (`ulpG`).
-/

namespace Ckks.CoreSem
open Hal Core Core.Ops C02L CoreEnc NormL Ckks.Sem Ckks.Bound

/-- well-formed of degree `N`, radix `2^b`, rank `r`, limbs bounded by `H` -/
structure GB (N b r : Nat) (H : Int) (g : GLWE) : Prop where
  wf : GWF N g
  bk : g.base2k = b
  rk : g.rank = r
  nb : GBound H g

/-- balanced digits -/
abbrev half (b : Nat) : Int := 2 ^ (b - 1)
/-- sum of two balanced digits -/
abbrev full (b : Nat) : Int := 2 ^ b

theorem half_nonneg (b : Nat) : 0 ≤ half b := by unfold half; positivity
theorem full_nonneg (b : Nat) : 0 ≤ full b := by unfold full; positivity
theorem half_le_full (b : Nat) : half b ≤ full b := pow_le_pow_right₀ (by norm_num) (by omega)
theorem half_add_half {b : Nat} (hb : 1 ≤ b) : half b + half b = full b := by
  unfold half full
  obtain ⟨c, rfl⟩ : ∃ c, b = c + 1 := ⟨b - 1, by omega⟩
  simp [pow_succ]; ring
theorem full_le_61 {b : Nat} (hb : b ≤ 61) : full b ≤ 2 ^ 61 := pow_le_pow_right₀ (by norm_num) hb
theorem half_lt_62 {b : Nat} (hb : b ≤ 61) : half b < 2 ^ 62 :=
  lt_of_le_of_lt ((half_le_full b).trans (full_le_61 hb)) (by norm_num)

theorem GB.mono {N b r : Nat} {H H' : Int} {g : GLWE} (h : GB N b r H g) (hh : H ≤ H') : GB N b r H' g :=
  ⟨h.wf, h.bk, h.rk, gbound_mono h.nb hh⟩

/-- the head-room of the C08 kernels for limbs up to `2^b`, radix at most `2^61` -/
theorem headroom {b : Nat} (hb1 : 1 ≤ b) (hb61 : b ≤ 61) : HeadRoom 64 b 0 (full b) :=
  ⟨by norm_num, by omega, by omega, full_nonneg b, by
    have := full_le_61 hb61
    have h2 : (2 : Int) ^ b = full b := rfl
    rw [h2]; norm_num; linarith⟩

/-- decoded coefficient `t` of `g` at budget `β` under the secret `s` -/
def decG (s : List Poly) (g : GLWE) (β t : Nat) : ℚ :=
  dec (valCoeff g.base2k (phase s g) t) (g.base2k * g.size) β

/-- one unit of the last limb of `g`, at the scale of the decoded value -/
def ulpG (g : GLWE) (β : Nat) : ℚ := 2 ^ β / 2 ^ (g.base2k * g.size)

/-- `1 + Σᵢ ‖sᵢ‖₁` over the `r` mask columns: the factor of every rounding in the phase -/
def sn (r : Nat) (s : List Poly) : ℚ := ((1 + snorm (min r s.length) s : Int) : ℚ)

theorem sn_pos (r : Nat) (s : List Poly) : 1 ≤ sn r s := by
  unfold sn
  have := snorm_nonneg (min r s.length) s
  exact_mod_cast (by linarith : (1 : Int) ≤ 1 + snorm (min r s.length) s)

theorem ulpG_pos (g : GLWE) (β : Nat) : 0 < ulpG g β := by unfold ulpG; positivity

/-- `1` when an operand of `as` limbs loses limbs in a result of `rs` limbs -/
def trq (rs as : Nat) : ℚ := if as ≤ rs then 0 else 1

theorem trq_nonneg (rs as : Nat) : 0 ≤ trq rs as := by unfold trq; split <;> norm_num
theorem trq_le_one (rs as : Nat) : trq rs as ≤ 1 := by unfold trq; split <;> norm_num

theorem valCoeff_map_neg (b : Nat) (c : Col) (t : Nat) : valCoeff b (c.map polyNeg) t = - valCoeff b c t := by
  induction c using List.reverseRecOn with
  | nil => simp [valCoeff]
  | append_singleton ys l ih =>
    rw [List.map_append, valCoeff_append, valCoeff_append, ih]
    simp only [List.map_cons, List.map_nil, List.length_singleton, valCoeff, List.foldl_cons, List.foldl_nil, zero_mul, zero_add]
    have : (polyNeg l).getD t 0 = - l.getD t 0 := by
      simp only [polyNeg, List.getD_eq_getElem?_getD, List.getElem?_map]
      cases l[t]? <;> simp
    rw [this]; ring

/-- fitting an operand of balanced digits to `rs` limbs: exact when it is not longer, within one unit
of the last kept limb otherwise -/
theorem fit_rel (b N rs : Nat) (hb : 1 ≤ b) (p : Col) (t : Nat) (hbal : ∀ l ∈ p, |l.getD t 0| ≤ 2 ^ (b - 1)) :
    ∃ e : Int, 2 ^ (b * p.length) * valCoeff b (fit N rs p) t = 2 ^ (b * rs) * valCoeff b p t + e ∧
      |e| ≤ (if p.length ≤ rs then 0 else 2 ^ (b * p.length)) := by
  by_cases h : p.length ≤ rs
  · refine ⟨0, ?_, by simp [h]⟩
    rw [valCoeff_fit_extend b N rs p t h]
    have : b * rs = b * p.length + b * (rs - p.length) := by rw [← Nat.mul_add]; congr 1; omega
    rw [this, pow_add]; ring
  · have h' : rs ≤ p.length := by omega
    have hs := valCoeff_fit_truncate b N rs p t h'
    have ht := C02.truncation_within_one_unit b hb p rs t (fun l hl => hbal l (List.mem_of_mem_drop hl))
    refine ⟨-(2 ^ (b * rs) * valCoeff b (p.drop rs) t), ?_, ?_⟩
    · have : b * p.length = b * rs + b * (p.length - rs) := by rw [← Nat.mul_add]; congr 1; omega
      rw [hs, this, pow_add]; ring
    · simp only [h, if_false]
      rw [abs_neg, abs_mul, abs_of_pos (by positivity : (0 : Int) < 2 ^ (b * rs))]
      have : b * p.length = b * rs + b * (p.length - rs) := by rw [← Nat.mul_add]; congr 1; omega
      rw [this, pow_add]
      exact le_of_lt (mul_lt_mul_of_pos_left ht (by positivity))

theorem bal_of_cb {H : Int} (hH : 0 ≤ H) {c : Col} (hc : CB H c) (t : Nat) : ∀ l ∈ c, |l.getD t 0| ≤ H := by
  intro l hl
  rw [List.getD_eq_getElem?_getD]
  cases e : l[t]? with
  | none => simpa using hH
  | some v => simpa using hc l hl v (List.mem_of_getElem? e)


theorem cast_abs_le {e B : Int} (h : |e| ≤ B) : |(e : ℚ)| ≤ (B : ℚ) := by
  rw [← Int.cast_abs]; exact_mod_cast h

/-- **exact kernels, all limb counts.**  A result whose columns are `σo·fit(oᵢ) + σa·fit(aᵢ)` (operands of
balanced digits) carries `σo·dec(o) + σa·dec(a)`, up to one unit of its last limb (times `1 + Σ‖sᵢ‖₁`) per
operand that is longer than the result. -/
theorem exact3_near {N b r : Nat} (hb1 : 1 ≤ b) {r' o a : GLWE} (wr : GWF N r') (hrb : r'.base2k = b) (hrr : r'.rank = r)
    (ho : GB N b r (half b) o) (ha : GB N b r (half b) a) (σo σa : Int)
    (hcol : ∀ i, i ≤ r → ∀ t, t < N → valCoeff b (col r' i) t
      = σo * valCoeff b (fit N r'.size (col o i)) t + σa * valCoeff b (fit N r'.size (col a i)) t)
    (β : Nat) (s : List Poly) (t : Nat) (ht : t < N) :
    Near (decG s r' β t) (σo * decG s o β t + σa * decG s a β t) (2 ^ β)
      (sn r s * (|(σo : ℚ)| * trq r'.size o.size + |(σa : ℚ)| * trq r'.size a.size) * ulpG r' β) := by
  subst hrb
  have hob := ho.bk
  have hab := ha.bk
  set b := r'.base2k with hbdef
  set Pr := b * r'.size
  set Po := b * o.size
  set Pa := b * a.size
  let tO : Int := if o.size ≤ r'.size then 0 else 1
  let tA : Int := if a.size ≤ r'.size then 0 else 1
  have htO0 : 0 ≤ tO := by simp only [tO]; split <;> norm_num
  have htA0 : 0 ≤ tA := by simp only [tA]; split <;> norm_num
  have key := torus_phase3 wr ho.wf ha.wf (by rw [ho.rk, hrr]) (by rw [ha.rk, hrr]) b b b
    (2 ^ (Po + Pa)) (σo * 2 ^ (Pr + Pa)) (σa * 2 ^ (Pr + Po)) 0 ((|σo| * tO + |σa| * tA) * 2 ^ (Po + Pa))
    (fun i hi t ht => by
      rw [hrr] at hi
      have hol : (col o i).length = o.size := (ho.wf.col_wf i (by rw [ho.rk]; exact hi)).1
      have hal : (col a i).length = a.size := (ha.wf.col_wf i (by rw [ha.rk]; exact hi)).1
      obtain ⟨eo, ho1, ho2⟩ := fit_rel b N r'.size hb1 (col o i) t (bal_of_cb (half_nonneg b) (gbound_col ho.nb i) t)
      obtain ⟨ea, ha1, ha2⟩ := fit_rel b N r'.size hb1 (col a i) t (bal_of_cb (half_nonneg b) (gbound_col ha.nb i) t)
      rw [hol] at ho1 ho2
      rw [hal] at ha1 ha2
      refine ⟨0, σo * 2 ^ Pa * eo + σa * 2 ^ Po * ea, ?_, ?_⟩
      · rw [hcol i hi t ht]
        have e1 : (2 : Int) ^ (Po + Pa) = 2 ^ Po * 2 ^ Pa := pow_add _ _ _
        have e2 : (2 : Int) ^ (Pr + Pa) = 2 ^ Pr * 2 ^ Pa := pow_add _ _ _
        have e3 : (2 : Int) ^ (Pr + Po) = 2 ^ Pr * 2 ^ Po := pow_add _ _ _
        rw [e1, e2, e3]
        linear_combination (σo * 2 ^ Pa) * ho1 + (σa * 2 ^ Po) * ha1
      · have hA : (0 : Int) < 2 ^ Pa := by positivity
        have hO : (0 : Int) < 2 ^ Po := by positivity
        have b1 : |σo * 2 ^ Pa * eo| ≤ |σo| * tO * 2 ^ (Po + Pa) := by
          rw [abs_mul, abs_mul, abs_of_pos hA, pow_add]
          have : |eo| ≤ tO * 2 ^ Po := by
            simp only [tO]; split
            · simpa [*] using ho2
            · simpa [*] using ho2
          calc |σo| * 2 ^ Pa * |eo| ≤ |σo| * 2 ^ Pa * (tO * 2 ^ Po) := by gcongr
            _ = |σo| * tO * (2 ^ Po * 2 ^ Pa) := by ring
        have b2 : |σa * 2 ^ Po * ea| ≤ |σa| * tA * 2 ^ (Po + Pa) := by
          rw [abs_mul, abs_mul, abs_of_pos hO, pow_add]
          have : |ea| ≤ tA * 2 ^ Pa := by
            simp only [tA]; split
            · simpa [*] using ha2
            · simpa [*] using ha2
          calc |σa| * 2 ^ Po * |ea| ≤ |σa| * 2 ^ Po * (tA * 2 ^ Pa) := by gcongr
            _ = |σa| * tA * (2 ^ Po * 2 ^ Pa) := by ring
        calc |σo * 2 ^ Pa * eo + σa * 2 ^ Po * ea| ≤ |σo * 2 ^ Pa * eo| + |σa * 2 ^ Po * ea| := abs_add_le _ _
          _ ≤ |σo| * tO * 2 ^ (Po + Pa) + |σa| * tA * 2 ^ (Po + Pa) := add_le_add b1 b2
          _ = (|σo| * tO + |σa| * tA) * 2 ^ (Po + Pa) := by ring) s t ht
  obtain ⟨q, e, hrel, he⟩ := key
  have hrel' : 2 ^ (Po + Pa) * valCoeff b (phase s r') t
      = σo * 2 ^ (Pr + Pa) * valCoeff b (phase s o) t + σa * 2 ^ (Pr + Po) * valCoeff b (phase s a) t + e := by
    rw [hrel]; ring
  have hU : |(e : ℚ)| ≤ (sn r s * (|(σo : ℚ)| * trq r'.size o.size + |(σa : ℚ)| * trq r'.size a.size)) * 2 ^ (Po + Pa) := by
    have := cast_abs_le he
    rw [hrr] at this
    push_cast at this
    have e1 : ((tO : Int) : ℚ) = trq r'.size o.size := by simp only [tO, trq]; split <;> simp
    have e2 : ((tA : Int) : ℚ) = trq r'.size a.size := by simp only [tA, trq]; split <;> simp
    rw [e1, e2] at this
    simp only [sn]
    push_cast
    linarith
  have := dec_of_exact3 _ _ _ e σo σa Pr Po Pa β _ hrel' hU
  simp only [decG, ulpG, hob, hab]
  rw [show sn r s * (|(σo : ℚ)| * trq r'.size o.size + |(σa : ℚ)| * trq r'.size a.size) * (2 ^ β / 2 ^ (b * r'.size))
      = sn r s * (|(σo : ℚ)| * trq r'.size o.size + |(σa : ℚ)| * trq r'.size a.size) * 2 ^ β / 2 ^ Pr by ring]
  exact this


/-! ### the shift kernels -/

/-- `1` when `glwe_lsh(res, a, k)` drops low bits of `a` -/
def trl (b rs as k : Nat) : ℚ := if b * as ≤ b * rs + k then 0 else 1

theorem trl_nonneg (b rs as k : Nat) : 0 ≤ trl b rs as k := by unfold trl; split <;> norm_num
theorem trl_le_one (b rs as k : Nat) : trl b rs as k ≤ 1 := by unfold trl; split <;> norm_num

theorem lshTol_cast (b rs as k : Nat) : ((C02.lshTol b rs as k : Int) : ℚ) = trl b rs as k * 2 ^ (b * as) := by
  unfold C02.lshTol trl; split <;> simp

/-- **`glwe_lsh(res, a, k)`**: `dec(r') = dec(a)·2^bits` when the budgets satisfy `k + β' = βa + bits` -/
theorem lsh_step {N b r : Nat} (hb1 : 1 ≤ b) (hb61 : b ≤ 61) {res a : GLWE} {Hres : Int}
    (hr : GB N b r Hres res) (ha : GB N b r (full b) a) (k β' βa bits : Nat) (hk : k + β' = βa + bits) :
    ∃ r', glweLsh N res a k = .ok r' ∧ GB N b r (half b) r' ∧ r'.size = res.size ∧
      ∀ s t, t < N → Near (decG s r' β' t) (decG s a βa t * 2 ^ bits) (2 ^ β')
        (sn r s * trl b res.size a.size k * ulpG r' β') := by
  obtain ⟨hrw, hrb, hrr, _⟩ := hr
  subst hrb
  have hh := headroom hb1 hb61
  have hrank : a.rank ≤ res.rank := by rw [ha.rk, hrr]
  obtain ⟨r', h1, hs, w, sz, hp⟩ := C02.lsh_phase hrw ha.wf ha.bk.symm hrank hh ha.nb k
  refine ⟨r', h1, ⟨w, hs.1, by rw [hs.rank, hrr], lsh_bound hrw ha.wf ha.bk.symm hrank hh ha.nb k h1⟩, sz, fun s t ht => ?_⟩
  obtain ⟨q, e, hrel, he⟩ := hp s t ht
  have hU : |(e : ℚ)| ≤ (sn r s * trl res.base2k res.size a.size k) * 2 ^ (res.base2k * a.size) := by
    have := cast_abs_le he
    rw [hrr] at this
    push_cast at this
    rw [lshTol_cast] at this
    simp only [sn]; push_cast; linarith
  have := dec_of_lsh _ _ e q (res.base2k * res.size) (res.base2k * a.size) k β' βa bits _ hrel hU hk
  simp only [decG, ulpG, hs.1, sz, ha.bk]
  rw [show sn r s * trl res.base2k res.size a.size k * (2 ^ β' / 2 ^ (res.base2k * res.size))
      = sn r s * trl res.base2k res.size a.size k * 2 ^ β' / 2 ^ (res.base2k * res.size) by ring]
  exact this

/-- **`glwe_lsh_add(res, a, k)`** -/
theorem lsh_add_step {N b r : Nat} (hb1 : 1 ≤ b) (hb61 : b ≤ 61) {res a : GLWE}
    (hr : GB N b r (half b) res) (ha : GB N b r (full b) a) (k β' βa : Nat) (hk : k + β' = βa) :
    ∃ r', glweLshAdd N res a k = .ok r' ∧ GB N b r (full b) r' ∧ r'.size = res.size ∧
      ∀ s t, t < N → Near (decG s r' β' t) (decG s res β' t + decG s a βa t) (2 ^ β') (sn r s * ulpG r' β') := by
  obtain ⟨hrw, hrb, hrr, hrn⟩ := hr
  subst hrb
  have hh := headroom hb1 hb61
  have hrank : a.rank ≤ res.rank := by rw [ha.rk, hrr]
  have h62 : half res.base2k ≤ 2 ^ 62 := le_of_lt (half_lt_62 hb61)
  obtain ⟨r', h1, hs, w, sz, hp⟩ := C02.lsh_add_phase hrw ha.wf ha.bk.symm hrank hh (by omega) ha.nb
    (gbound_mono hrn h62) k
  have hbd := lsh_add_bound hrw ha.wf ha.bk.symm hrank hh (by omega) ha.nb (half_nonneg _) h62 hrn k h1
  rw [show half res.base2k + 2 ^ (res.base2k - 1) = full res.base2k from half_add_half hb1] at hbd
  refine ⟨r', h1, ⟨w, hs.1, by rw [hs.rank, hrr], hbd⟩, sz, fun s t ht => ?_⟩
  obtain ⟨q, e, hrel, he⟩ := hp s t ht
  have hU : |(e : ℚ)| ≤ sn r s * 2 ^ (res.base2k * a.size) := by
    have := cast_abs_le he
    rw [hrr] at this
    push_cast at this
    simp only [sn]; push_cast; linarith
  have := dec_of_lsh_acc (valCoeff res.base2k (phase s r') t) (valCoeff res.base2k (phase s res) t)
    (valCoeff res.base2k (phase s a) t) e q 1 (res.base2k * res.size) (res.base2k * a.size) k β' βa _
    (by rw [hrel]; ring) hU hk
  simp only [decG, ulpG, hs.1, sz, ha.bk]
  rw [show sn r s * (2 ^ β' / 2 ^ (res.base2k * res.size)) = sn r s * 2 ^ β' / 2 ^ (res.base2k * res.size) by ring]
  simpa using this

/-- **`glwe_lsh_sub(res, a, k)`** -/
theorem lsh_sub_step {N b r : Nat} (hb1 : 1 ≤ b) (hb61 : b ≤ 61) {res a : GLWE}
    (hr : GB N b r (half b) res) (ha : GB N b r (full b) a) (k β' βa : Nat) (hk : k + β' = βa) :
    ∃ r', glweLshSub N res a k = .ok r' ∧ GB N b r (full b) r' ∧ r'.size = res.size ∧
      ∀ s t, t < N → Near (decG s r' β' t) (decG s res β' t - decG s a βa t) (2 ^ β') (sn r s * ulpG r' β') := by
  obtain ⟨hrw, hrb, hrr, hrn⟩ := hr
  subst hrb
  have hh := headroom hb1 hb61
  have hrank : a.rank ≤ res.rank := by rw [ha.rk, hrr]
  have h62 : half res.base2k ≤ 2 ^ 62 := le_of_lt (half_lt_62 hb61)
  obtain ⟨r', h1, hs, w, sz, hp⟩ := C02.lsh_sub_phase hrw ha.wf ha.bk.symm hrank hh (by omega) ha.nb
    (gbound_mono hrn h62) k
  have hbd := lsh_sub_bound hrw ha.wf ha.bk.symm hrank hh (by omega) ha.nb (half_nonneg _) h62 hrn k h1
  rw [show half res.base2k + 2 ^ (res.base2k - 1) = full res.base2k from half_add_half hb1] at hbd
  refine ⟨r', h1, ⟨w, hs.1, by rw [hs.rank, hrr], hbd⟩, sz, fun s t ht => ?_⟩
  obtain ⟨q, e, hrel, he⟩ := hp s t ht
  have hU : |(e : ℚ)| ≤ sn r s * 2 ^ (res.base2k * a.size) := by
    have := cast_abs_le he
    rw [hrr] at this
    push_cast at this
    simp only [sn]; push_cast; linarith
  have := dec_of_lsh_acc (valCoeff res.base2k (phase s r') t) (valCoeff res.base2k (phase s res) t)
    (valCoeff res.base2k (phase s a) t) e q (-1) (res.base2k * res.size) (res.base2k * a.size) k β' βa _
    (by rw [hrel]; ring) hU hk
  simp only [decG, ulpG, hs.1, sz, ha.bk]
  rw [show sn r s * (2 ^ β' / 2 ^ (res.base2k * res.size)) = sn r s * 2 ^ β' / 2 ^ (res.base2k * res.size) by ring]
  simpa [sub_eq_add_neg] using this

/-- **`glwe_lsh_assign(res, k)`**, exact -/
theorem lsh_assign_step {N b r : Nat} (hb1 : 1 ≤ b) (hb61 : b ≤ 61) {res : GLWE}
    (hr : GB N b r (full b) res) (k β' β bits : Nat) (hk : k + β' = β + bits) :
    ∃ r', glweLshAssign N res k = .ok r' ∧ GB N b r (half b) r' ∧ r'.size = res.size ∧
      ∀ s t, t < N → Near (decG s r' β' t) (decG s res β t * 2 ^ bits) (2 ^ β') 0 := by
  obtain ⟨hrw, hrb, hrr, hrn⟩ := hr
  subst hrb
  have hh := headroom hb1 hb61
  obtain ⟨r', h1, hs, w, sz, hp⟩ := C02.lsh_assign_phase hrw hh hrn k
  refine ⟨r', h1, ⟨w, hs.1, by rw [hs.rank, hrr], lsh_assign_bound hrw hh hrn k h1⟩, sz, fun s t ht => ?_⟩
  obtain ⟨q, hq⟩ := hp s t ht
  have := dec_of_lsh_assign _ _ q (res.base2k * res.size) k β' β bits hq hk
  simpa only [decG, hs.1, sz] using this

/-- **`glwe_normalize_assign(res)`**, exact -/
theorem normalize_assign_step {N b r : Nat} (hb1 : 1 ≤ b) (hb61 : b ≤ 61) {res : GLWE}
    (hr : GB N b r (full b) res) (β : Nat) :
    ∃ r', glweNormalizeAssign N res = .ok r' ∧ GB N b r (half b) r' ∧ r'.size = res.size ∧
      ∀ s t, t < N → Near (decG s r' β t) (decG s res β t) (2 ^ β) 0 := by
  obtain ⟨hrw, hrb, hrr, hrn⟩ := hr
  subst hrb
  have hh := headroom hb1 hb61
  obtain ⟨r', h1, hs, w, sz, hp⟩ := C02.normalize_assign_phase hrw hh hrn
  refine ⟨r', h1, ⟨w, hs.1, by rw [hs.rank, hrr], normalize_assign_bound hrw hh hrn h1⟩, sz, fun s t ht => ?_⟩
  obtain ⟨q, hq⟩ := hp s t ht
  have := dec_of_lsh_assign _ _ q (res.base2k * res.size) 0 β β 0 (by rw [hq]; ring) (by omega)
  simpa only [decG, hs.1, sz, pow_zero, mul_one] using this


/-! ### the exact kernels -/

theorem GB.small {N b r : Nat} {g : GLWE} (h : GB N b r (half b) g) (hb61 : b ≤ 61) : GSmall g :=
  gsmall_of_gbound h.nb (half_lt_62 hb61)

theorem cb_full_add {b : Nat} (hb1 : 1 ≤ b) {x y : Col} (hx : CB (half b) x) (hy : CB (half b) y) : CB (full b) (colAdd x y) := by
  have := cb_colAdd hx hy
  rwa [half_add_half hb1] at this

/-- **`glwe_add_into(res, a, b)`**, any limb counts -/
theorem add_into_step {N b r : Nat} (hb1 : 1 ≤ b) (hb61 : b ≤ 61) {res x y : GLWE} {Hres : Int}
    (hr : GB N b r Hres res) (hx : GB N b r (half b) x) (hy : GB N b r (half b) y) (β : Nat) :
    ∃ r', glweAddInto N res x y = .ok r' ∧ GB N b r (full b) r' ∧ r'.size = res.size ∧
      ∀ s t, t < N → Near (decG s r' β t) (decG s x β t + decG s y β t) (2 ^ β)
        (sn r s * (trq res.size x.size + trq res.size y.size) * ulpG r' β) := by
  have hra : x.rank = res.rank := by rw [hx.rk, hr.rk]
  have hrb : y.rank = res.rank := by rw [hy.rk, hr.rk]
  have hab : x.base2k = y.base2k := by rw [hx.bk, hy.bk]
  have hrbk : res.base2k = y.base2k := by rw [hr.bk, hy.bk]
  obtain ⟨r', h1, hs, w, sz, _⟩ := C02.add_phase hr.wf hx.wf hy.wf (hx.small hb61) (hy.small hb61) hab hrbk
    (rankRule3_same hra hrb)
  obtain ⟨_, hc⟩ := add_into_cols hr.wf hx.wf hy.wf hra hrb hab hrbk (hx.small hb61) (hy.small hb61) h1
  have hbd : GBound (full b) r' := gbound_of_same hr.wf hs fun i hi => by
    rw [hc i hi]
    exact cb_full_add hb1 (cb_fit (half_nonneg b) (gbound_col hx.nb i)) (cb_fit (half_nonneg b) (gbound_col hy.nb i))
  have hrb' : r'.base2k = b := by rw [hs.1, hr.bk]
  have hrr' : r'.rank = r := by rw [hs.rank, hr.rk]
  refine ⟨r', h1, ⟨w, hrb', hrr', hbd⟩, sz, fun s t ht => ?_⟩
  have := exact3_near hb1 w hrb' hrr' hx hy 1 1 (fun i hi t _ => by
    rw [hc i (by rw [hr.rk]; exact hi), sz,
      valCoeff_colAdd b (fit_wf (hx.wf.col_limbs i) _) (fit_wf (hy.wf.col_limbs i) _) t]; ring) β s t ht
  rw [sz] at this
  simpa using this

/-- **`glwe_sub(res, a, b)`**, any limb counts -/
theorem sub_into_step {N b r : Nat} (hb1 : 1 ≤ b) (hb61 : b ≤ 61) {res x y : GLWE} {Hres : Int}
    (hr : GB N b r Hres res) (hx : GB N b r (half b) x) (hy : GB N b r (half b) y) (β : Nat) :
    ∃ r', glweSub N res x y = .ok r' ∧ GB N b r (full b) r' ∧ r'.size = res.size ∧
      ∀ s t, t < N → Near (decG s r' β t) (decG s x β t - decG s y β t) (2 ^ β)
        (sn r s * (trq res.size x.size + trq res.size y.size) * ulpG r' β) := by
  have hra : x.rank = res.rank := by rw [hx.rk, hr.rk]
  have hrb : y.rank = res.rank := by rw [hy.rk, hr.rk]
  have hab : x.base2k = res.base2k := by rw [hx.bk, hr.bk]
  have hrbk : y.base2k = res.base2k := by rw [hr.bk, hy.bk]
  obtain ⟨r', h1, hs, w, sz, _⟩ := C02.sub_phase hr.wf hx.wf hy.wf (hx.small hb61) (hy.small hb61) hab hrbk
    (rankRule3_same hra hrb)
  obtain ⟨_, hc⟩ := sub_into_cols hr.wf hx.wf hy.wf hra hrb hab hrbk (hx.small hb61) (hy.small hb61) h1
  have hbd : GBound (full b) r' := gbound_of_same hr.wf hs fun i hi => by
    rw [hc i hi]
    exact cb_full_add hb1 (cb_fit (half_nonneg b) (gbound_col hx.nb i))
      (cb_neg (cb_fit (half_nonneg b) (gbound_col hy.nb i)))
  have hrb' : r'.base2k = b := by rw [hs.1, hr.bk]
  have hrr' : r'.rank = r := by rw [hs.rank, hr.rk]
  refine ⟨r', h1, ⟨w, hrb', hrr', hbd⟩, sz, fun s t ht => ?_⟩
  have := exact3_near hb1 w hrb' hrr' hx hy 1 (-1) (fun i hi t _ => by
    rw [hc i (by rw [hr.rk]; exact hi), sz,
      valCoeff_colAdd b (fit_wf (hx.wf.col_limbs i) _) ⟨by simp, fun l hl => by
        simp only [List.mem_map] at hl
        obtain ⟨l0, hl0, rfl⟩ := hl
        simpa [polyNeg] using (fit_wf (hy.wf.col_limbs i) res.size).2 l0 hl0⟩ t, valCoeff_map_neg]; ring) β s t ht
  rw [sz] at this
  simpa [sub_eq_add_neg] using this

/-- **`glwe_add_assign(res, a)`** -/
theorem add_assign_step {N b r : Nat} (hb1 : 1 ≤ b) (hb61 : b ≤ 61) {res x : GLWE}
    (hr : GB N b r (half b) res) (hx : GB N b r (half b) x) (β : Nat) :
    ∃ r', glweAddAssign N res x = .ok r' ∧ GB N b r (full b) r' ∧ r'.size = res.size ∧
      ∀ s t, t < N → Near (decG s r' β t) (decG s res β t + decG s x β t) (2 ^ β)
        (sn r s * trq res.size x.size * ulpG r' β) := by
  have hra : x.rank = res.rank := by rw [hx.rk, hr.rk]
  have hbk : res.base2k = x.base2k := by rw [hr.bk, hx.bk]
  obtain ⟨r', h1, hs, w, sz, _⟩ := C02.add_assign_phase hr.wf hx.wf (hr.small hb61) (hx.small hb61) hbk (by omega)
  obtain ⟨_, hc⟩ := add_assign_cols hr.wf hx.wf hbk hra (hr.small hb61) (hx.small hb61) h1
  have hbd : GBound (full b) r' := gbound_of_same hr.wf hs fun i hi => by
    rw [hc i hi]
    exact cb_full_add hb1 (gbound_col hr.nb i) (cb_fit (half_nonneg b) (gbound_col hx.nb i))
  have hrb' : r'.base2k = b := by rw [hs.1, hr.bk]
  have hrr' : r'.rank = r := by rw [hs.rank, hr.rk]
  refine ⟨r', h1, ⟨w, hrb', hrr', hbd⟩, sz, fun s t ht => ?_⟩
  have := exact3_near hb1 w hrb' hrr' hr hx 1 1 (fun i hi t _ => by
    have hi' : i ≤ res.rank := by rw [hr.rk]; exact hi
    rw [hc i hi', sz, fit_self (hr.wf.col_wf i hi').1,
      valCoeff_colAdd b (hr.wf.col_wf i hi') (fit_wf (hx.wf.col_limbs i) _) t]; ring) β s t ht
  rw [sz] at this
  have h0 : trq res.size res.size = 0 := by simp [trq]
  simpa [h0] using this

/-- **`glwe_sub_assign(res, a)`** -/
theorem sub_assign_step {N b r : Nat} (hb1 : 1 ≤ b) (hb61 : b ≤ 61) {res x : GLWE}
    (hr : GB N b r (half b) res) (hx : GB N b r (half b) x) (β : Nat) :
    ∃ r', glweSubAssign N res x = .ok r' ∧ GB N b r (full b) r' ∧ r'.size = res.size ∧
      ∀ s t, t < N → Near (decG s r' β t) (decG s res β t - decG s x β t) (2 ^ β)
        (sn r s * trq res.size x.size * ulpG r' β) := by
  have hra : x.rank = res.rank := by rw [hx.rk, hr.rk]
  have hbk : res.base2k = x.base2k := by rw [hr.bk, hx.bk]
  obtain ⟨r', h1, hs, w, sz, _⟩ := C02.sub_assign_phase hr.wf hx.wf (hr.small hb61) (hx.small hb61) hbk (by simp [hra])
  obtain ⟨_, hc⟩ := sub_assign_cols hr.wf hx.wf hbk hra (hr.small hb61) (hx.small hb61) h1
  have hbd : GBound (full b) r' := gbound_of_same hr.wf hs fun i hi => by
    rw [hc i hi]
    exact cb_full_add hb1 (gbound_col hr.nb i) (cb_neg (cb_fit (half_nonneg b) (gbound_col hx.nb i)))
  have hrb' : r'.base2k = b := by rw [hs.1, hr.bk]
  have hrr' : r'.rank = r := by rw [hs.rank, hr.rk]
  refine ⟨r', h1, ⟨w, hrb', hrr', hbd⟩, sz, fun s t ht => ?_⟩
  have := exact3_near hb1 w hrb' hrr' hr hx 1 (-1) (fun i hi t _ => by
    have hi' : i ≤ res.rank := by rw [hr.rk]; exact hi
    rw [hc i hi', sz, fit_self (hr.wf.col_wf i hi').1,
      valCoeff_colAdd b (hr.wf.col_wf i hi') ⟨by simp, fun l hl => by
        simp only [List.mem_map] at hl
        obtain ⟨l0, hl0, rfl⟩ := hl
        simpa [polyNeg] using (fit_wf (hx.wf.col_limbs i) res.size).2 l0 hl0⟩ t, valCoeff_map_neg]; ring) β s t ht
  rw [sz] at this
  have h0 : trq res.size res.size = 0 := by simp [trq]
  simpa [h0, sub_eq_add_neg] using this

/-- **`glwe_negate(res, a)`** -/
theorem negate_step {N b r : Nat} (hb1 : 1 ≤ b) (hb61 : b ≤ 61) {res x : GLWE} {Hres : Int}
    (hr : GB N b r Hres res) (hx : GB N b r (half b) x) (β : Nat) :
    ∃ r', glweNegate N res x = .ok r' ∧ GB N b r (half b) r' ∧ r'.size = res.size ∧
      ∀ s t, t < N → Near (decG s r' β t) (- decG s x β t) (2 ^ β) (sn r s * trq res.size x.size * ulpG r' β) := by
  have hra : x.rank = res.rank := by rw [hx.rk, hr.rk]
  have hbk : res.base2k = x.base2k := by rw [hr.bk, hx.bk]
  obtain ⟨r', h1, hs, w, sz, _⟩ := C02.negate_phase hr.wf hx.wf (hx.small hb61) hbk hra
  obtain ⟨_, hc⟩ := negate_cols hr.wf hx.wf hbk hra (hx.small hb61) h1
  have hbd : GBound (half b) r' := gbound_of_same hr.wf hs fun i hi => by
    rw [hc i hi]
    exact cb_neg (cb_fit (half_nonneg b) (gbound_col hx.nb i))
  have hrb' : r'.base2k = b := by rw [hs.1, hr.bk]
  have hrr' : r'.rank = r := by rw [hs.rank, hr.rk]
  refine ⟨r', h1, ⟨w, hrb', hrr', hbd⟩, sz, fun s t ht => ?_⟩
  have := exact3_near hb1 w hrb' hrr' hx hx 0 (-1) (fun i hi t _ => by
    rw [hc i (by rw [hr.rk]; exact hi), sz, valCoeff_map_neg]; ring) β s t ht
  rw [sz] at this
  simpa using this

/-- **`glwe_negate_assign(res)`**, exact -/
theorem negate_assign_step {N b r : Nat} (hb1 : 1 ≤ b) (hb61 : b ≤ 61) {res : GLWE}
    (hr : GB N b r (half b) res) (β : Nat) :
    ∃ r', glweNegateAssign N res = .ok r' ∧ GB N b r (half b) r' ∧ r'.size = res.size ∧
      ∀ s t, t < N → Near (decG s r' β t) (- decG s res β t) (2 ^ β) 0 := by
  obtain ⟨r', h1, hs, w, sz, _⟩ := C02.negate_assign_phase hr.wf (hr.small hb61)
  obtain ⟨_, hc⟩ := negate_assign_cols hr.wf (hr.small hb61) h1
  have hbd : GBound (half b) r' := gbound_of_same hr.wf hs fun i hi => by
    rw [hc i hi]
    exact cb_neg (gbound_col hr.nb i)
  have hrb' : r'.base2k = b := by rw [hs.1, hr.bk]
  have hrr' : r'.rank = r := by rw [hs.rank, hr.rk]
  refine ⟨r', h1, ⟨w, hrb', hrr', hbd⟩, sz, fun s t ht => ?_⟩
  have := exact3_near hb1 w hrb' hrr' hr hr 0 (-1) (fun i hi t _ => by
    have hi' : i ≤ res.rank := by rw [hr.rk]; exact hi
    rw [hc i hi', sz, fit_self (hr.wf.col_wf i hi').1, valCoeff_map_neg]; ring) β s t ht
  rw [sz] at this
  have h0 : trq res.size res.size = 0 := by simp [trq]
  simpa [h0] using this

end Ckks.CoreSem
