/-
Helper lemmas for C08: runs of step kernels over one coefficient's limbs (`Model/VecNorm.lean`):
the carry-chain value lemma (induction over the limb list) and its variants.
-/
import Poulpy.Lemmas.NormStep

namespace NormL

theorem valI_append (b : Nat) (l1 l2 : List Int) :
    valI b (l1 ++ l2) = valI b l1 * 2 ^ (b * l2.length) + valI b l2 := by
  induction l1 with
  | nil => simp [valI]
  | cons x rest ih =>
    simp only [List.cons_append, valI, List.length_append, ih]
    have : (2 : Int) ^ (b * (rest.length + l2.length)) = 2 ^ (b * rest.length) * 2 ^ (b * l2.length) := by
      rw [← pow_add]; congr 1; ring
    rw [this]; ring

theorem valI_replicate_zero (b n : Nat) : valI b (List.replicate n 0) = 0 := by
  induction n with
  | zero => simp [valI]
  | succ n ih => simp [List.replicate_succ, valI, ih]

theorem valI_singleton (b : Nat) (x : Int) : valI b [x] = x := by simp [valI]

theorem pow_mul_succ (b n : Nat) : (2 : Int) ^ (b * (n + 1)) = 2 ^ b * 2 ^ (b * n) := by
  rw [← pow_add]; congr 1; ring

/-- a vector of balanced digits is (strictly) less than one unit of the next limb up -/
theorem valI_balanced_bound {b : Nat} (hb : 1 ≤ b) (ds : List Int) (h : ∀ d ∈ ds, Balanced b d) :
    |valI b ds| < 2 ^ (b * ds.length) := by
  induction ds with
  | nil => simp [valI]
  | cons x rest ih =>
    have hx := (h x (by simp)).abs_le
    have ih' := ih (fun d hd => h d (by simp [hd]))
    simp only [valI, List.length_cons]
    have hP := two_pow_pos (b * rest.length)
    have h1 : |x * 2 ^ (b * rest.length)| ≤ 2 ^ (b - 1) * 2 ^ (b * rest.length) := by
      rw [abs_mul, abs_of_pos hP]; exact mul_le_mul_of_nonneg_right hx (le_of_lt hP)
    have h2 := abs_add_le (x * 2 ^ (b * rest.length)) (valI b rest)
    have h3 := half_le_full hb
    have h4 : (1 : Int) ≤ 2 ^ (b - 1) := by
      have := two_pow_le (Nat.zero_le (b - 1)); simpa using this
    rw [pow_mul_succ, ← h3]
    nlinarith

section
variable {bits b lsh : Nat} {H : Int}

/-- **carry-chain value lemma**: a run of middle steps preserves the value,
`Σ digits + carry_out·2^(b·len) = (Σ limbs)·2^lsh + carry_in`, produces balanced digits and keeps
the carry within the invariant. -/
theorem middleRun_spec (hr : HeadRoom bits b lsh H) (l : List Int) (hl : ∀ x ∈ l, |x| ≤ H)
    (c0 : Int) (hc0 : |c0| ≤ H + 3) :
    valI b (middleRun bits b lsh l c0).1 + (middleRun bits b lsh l c0).2 * 2 ^ (b * l.length)
        = valI b l * 2 ^ lsh + c0 ∧
    (middleRun bits b lsh l c0).1.length = l.length ∧
    (∀ d ∈ (middleRun bits b lsh l c0).1, Balanced b d) ∧
    |(middleRun bits b lsh l c0).2| ≤ H + 3 := by
  induction l with
  | nil => simp [middleRun, valI, hc0]
  | cons x rest ih =>
    obtain ⟨iv, il, ib, ic⟩ := ih (fun y hy => hl y (by simp [hy]))
    have hs := middleStepS_spec hr (hl x (by simp)) ic
    simp only [middleRun, valI, List.length_cons, il]
    refine ⟨?_, trivial, ?_, hs.2.2⟩
    · rw [pow_mul_succ]
      linear_combination (2 ^ (b * rest.length)) * (-hs.1) + iv
    · intro d hd
      rcases List.mem_cons.mp hd with h | h
      · rw [h]; exact hs.2.1
      · exact ib d h

theorem middleRun_nil (c0 : Int) : middleRun bits b lsh [] c0 = ([], c0) := rfl

/-- the carry of the discarded low limbs is the carry of a middle run started at 0 -/
theorem carryOnlyRun_eq (hr : HeadRoom bits b lsh H) (l : List Int) (hl : ∀ x ∈ l, |x| ≤ H) :
    carryOnlyRun bits b lsh l = if l = [] then none else some (middleRun bits b lsh l 0).2 := by
  induction l with
  | nil => simp [carryOnlyRun]
  | cons x rest ih =>
    have ih' := ih (fun y hy => hl y (by simp [hy]))
    simp only [carryOnlyRun, ih', middleRun]
    by_cases hre : rest = []
    · subst hre
      simp [middleRun, firstStepS_eq_middle hr (hl x (by simp))]
    · simp [hre]

theorem carryOnlyRun_getD (hr : HeadRoom bits b lsh H) (l : List Int) (hl : ∀ x ∈ l, |x| ≤ H) :
    (carryOnlyRun bits b lsh l).getD 0 = (middleRun bits b lsh l 0).2 := by
  rw [carryOnlyRun_eq hr l hl]
  by_cases h : l = []
  · subst h; simp [middleRun]
  · simp [h]

/-- a block whose top limb gets the final step: the value is preserved modulo `2^(b·len)` -/
theorem finalTopRun_spec (hr : HeadRoom bits b lsh H) (l : List Int) (hl : ∀ x ∈ l, |x| ≤ H)
    (c0 : Int) (hc0 : |c0| ≤ H + 3) :
    (∃ q : Int, valI b (finalTopRun bits b lsh l c0) + q * 2 ^ (b * l.length) = valI b l * 2 ^ lsh + c0) ∧
    (finalTopRun bits b lsh l c0).length = l.length ∧
    (∀ d ∈ finalTopRun bits b lsh l c0, Balanced b d) := by
  cases l with
  | nil => exact ⟨⟨c0, by simp [finalTopRun, valI]⟩, rfl, by simp [finalTopRun]⟩
  | cons x rest =>
    obtain ⟨iv, il, ib, ic⟩ := middleRun_spec hr rest (fun y hy => hl y (by simp [hy])) c0 hc0
    obtain ⟨⟨q, hq⟩, hbal⟩ := finalStepS_spec hr (hl x (by simp)) ic
    simp only [finalTopRun, valI, List.length_cons, il]
    refine ⟨⟨q, ?_⟩, trivial, ?_⟩
    · rw [pow_mul_succ]
      linear_combination (2 ^ (b * rest.length)) * (-hq) + iv
    · intro d hd
      rcases List.mem_cons.mp hd with h | h
      · rw [h]; exact hbal
      · exact ib d h

theorem lowerRun_eq (hr : HeadRoom bits b lsh H) (l : List Int) (hl : ∀ x ∈ l, |x| ≤ H) :
    lowerRun bits b lsh l =
      ((middleRun bits b lsh l 0).1, if l = [] then none else some (middleRun bits b lsh l 0).2) := by
  induction l with
  | nil => simp [lowerRun, middleRun]
  | cons x rest ih =>
    have ih' := ih (fun y hy => hl y (by simp [hy]))
    simp only [lowerRun, ih', middleRun]
    by_cases hre : rest = []
    · subst hre
      simp [middleRun, firstStepS_eq_middle hr (hl x (by simp))]
    · simp [hre]

/-- the first / middle / final pattern of `normalize_assign`, `lsh_assign`, `encode_*` is a final-top
run started with a zero carry -/
theorem assignRun_eq (hr : HeadRoom bits b lsh H) (l : List Int) (hl : ∀ x ∈ l, |x| ≤ H) :
    assignRun bits b lsh l = finalTopRun bits b lsh l 0 := by
  cases l with
  | nil => rfl
  | cons x rest =>
    have hb : 1 ≤ b := by have := hr.hlsh; omega
    have hx := hl x (by simp)
    simp only [assignRun, finalTopRun, lowerRun_eq hr rest (fun y hy => hl y (by simp [hy]))]
    by_cases hre : rest = []
    · subst hre
      have h0 : |(0 : Int)| ≤ H + 3 := by have := hr.hH0; simp; linarith
      simp only [if_true, middleRun]
      rw [firstStepS_eq hr hx, finalStepS_eq hr h0]
      have hs := shifted_digit_range hr.hlsh x
      simp only [add_zero]
      rw [bmod_of_range hb hs.1 hs.2]
    · simp [hre]

end

end NormL
