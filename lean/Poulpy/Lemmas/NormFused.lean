/-
Helper lemmas for C08: the fused `res ±= normalise(a)` forms that are "normalise into a temporary,
then limb-wise wrapping add / sub" (HAL default of `vec_znx_big_normalize_{add,sub}_assign`, NTT120
for different radices, and — as shown here — `vec_znx_lsh_add_into` / `vec_znx_lsh_sub`).
-/
import Poulpy.Lemmas.NormInter

namespace NormL

theorem w64_eq_of_abs_lt {x : Int} (h : |x| < 2 ^ 63) : w64 x = x := by
  have : w64 x = wrapN 64 x := rfl
  rw [this]
  exact wrapN_eq_abs (by norm_num) (by simpa using h)

theorem valI_zipWith_add (b : Nat) : ∀ (l1 l2 : List Int), l1.length = l2.length →
    valI b (List.zipWith (fun r x => r + x) l1 l2) = valI b l1 + valI b l2
  | [], [], _ => by simp [valI]
  | [], _ :: _, h => by simp at h
  | _ :: _, [], h => by simp at h
  | x :: l1, y :: l2, h => by
    have h' : l1.length = l2.length := by simpa using h
    simp only [List.zipWith_cons_cons, valI, List.length_zipWith, h', Nat.min_self,
      valI_zipWith_add b l1 l2 h']
    ring

theorem valI_zipWith_sub (b : Nat) : ∀ (l1 l2 : List Int), l1.length = l2.length →
    valI b (List.zipWith (fun r x => r - x) l1 l2) = valI b l1 - valI b l2
  | [], [], _ => by simp [valI]
  | [], _ :: _, h => by simp at h
  | _ :: _, [], h => by simp at h
  | x :: l1, y :: l2, h => by
    have h' : l1.length = l2.length := by simpa using h
    simp only [List.zipWith_cons_cons, valI, List.length_zipWith, h', Nat.min_self,
      valI_zipWith_sub b l1 l2 h']
    ring

/-- limb-wise wrapping add is the exact add when no limb sum leaves the `i64` range -/
theorem zipWith_w64_add (l1 l2 : List Int) (h : ∀ p ∈ List.zip l1 l2, |p.1 + p.2| < 2 ^ 63) :
    List.zipWith (fun r x => w64 (r + x)) l1 l2 = List.zipWith (fun r x => r + x) l1 l2 := by
  induction l1 generalizing l2 with
  | nil => simp
  | cons x l1 ih =>
    cases l2 with
    | nil => simp
    | cons y l2 =>
      simp only [List.zipWith_cons_cons]
      rw [w64_eq_of_abs_lt (h (x, y) (by simp)), ih l2 (fun p hp => h p (by simp [hp]))]

theorem zipWith_w64_sub (l1 l2 : List Int) (h : ∀ p ∈ List.zip l1 l2, |p.1 - p.2| < 2 ^ 63) :
    List.zipWith (fun r x => w64 (r - x)) l1 l2 = List.zipWith (fun r x => r - x) l1 l2 := by
  induction l1 generalizing l2 with
  | nil => simp
  | cons x l1 ih =>
    cases l2 with
    | nil => simp
    | cons y l2 =>
      simp only [List.zipWith_cons_cons]
      rw [w64_eq_of_abs_lt (h (x, y) (by simp)), ih l2 (fun p hp => h p (by simp [hp]))]

theorem TorusNear.neg {X Y : Int} {px py : Nat} (h : TorusNear X px Y py) : TorusNear (-X) px (-Y) py := by
  obtain ⟨k, e, h1, h2⟩ := h
  exact ⟨-k, -e, by linarith, by rwa [abs_neg]⟩

/-- **fused add**: if the temporary `t` represents `Y/2^py` within one unit, then
`res' = res + t` (limb-wise, no wrap) satisfies `res' − res ≈ Y/2^py` within one unit. -/
theorem fused_add_value (b : Nat) (res t : List Int) (hl : res.length = t.length)
    (hw : ∀ p ∈ List.zip res t, |p.1 + p.2| < 2 ^ 63) {Y : Int} {py : Nat}
    (h : TorusNear (valI b t) (b * t.length) Y py) :
    TorusNear (valI b (List.zipWith (fun r x => w64 (r + x)) res t) - valI b res) (b * res.length) Y py := by
  rw [zipWith_w64_add res t hw, valI_zipWith_add b res t hl, hl]
  simpa using h

/-- **fused sub** -/
theorem fused_sub_value (b : Nat) (res t : List Int) (hl : res.length = t.length)
    (hw : ∀ p ∈ List.zip res t, |p.1 - p.2| < 2 ^ 63) {Y : Int} {py : Nat}
    (h : TorusNear (valI b t) (b * t.length) Y py) :
    TorusNear (valI b (List.zipWith (fun r x => w64 (r - x)) res t) - valI b res) (b * res.length) (-Y) py := by
  rw [zipWith_w64_sub res t hw, valI_zipWith_sub b res t hl, hl]
  have := h.neg
  simpa using this

/-- adding a zero limb leaves an in-range limb unchanged -/
theorem zipWith_w64_zeros (f : Int → Int → Int) (hf : ∀ r, |r| < 2 ^ 63 → f r 0 = r)
    (l : List Int) (hl : ∀ r ∈ l, |r| < 2 ^ 63) (n : Nat) (hn : n = l.length) :
    List.zipWith f l (List.replicate n 0) = l := by
  subst hn
  induction l with
  | nil => simp
  | cons x l ih =>
    simp only [List.length_cons, List.replicate_succ, List.zipWith_cons_cons]
    rw [hf x (hl x (by simp)), ih (fun r hr => hl r (by simp [hr]))]

/-- **`vec_znx_lsh_add_into` / `vec_znx_lsh_sub` are the fall-back form**: the fused kernels give
`res ± (vec_znx_lsh into a temporary)` limb for limb (for `res` limbs in the `i64` range). -/
theorem lshCoef_fused_eq (f : Fuse) (hf : f ≠ .overwrite) (b k : Nat) (a res : List Int)
    (hres : ∀ r ∈ res, |r| < 2 ^ 63) :
    lshCoef f b k a res = List.zipWith (fun r d => f.apply r d) res (lshCoef .overwrite b k a res) := by
  have hf0 : ∀ r, |r| < 2 ^ 63 → f.apply r 0 = r := by
    intro r hr
    cases f with
    | overwrite => exact absurd rfl hf
    | add => simp only [Fuse.apply, add_zero]; exact w64_eq_of_abs_lt hr
    | sub => simp only [Fuse.apply, sub_zero]; exact w64_eq_of_abs_lt hr
  unfold lshCoef
  simp only [if_neg hf, if_true]
  by_cases hbig : k / b ≥ max res.length a.length
  · simp only [if_pos hbig]
    exact (zipWith_w64_zeros _ hf0 res hres _ rfl).symm
  · simp only [if_neg hbig]
    set m := min res.length (a.length - k / b) with hm
    set ds := finalTopRun 64 b (k % b) ((a.drop (k / b)).take m)
      ((carryOnlyRun 64 b (k % b) (a.drop (min (k / b + m) a.length))).getD 0) with hds
    have hdsl : ds.length = m := by
      rw [hds, finalTopRun_eq_middleRun, middleRun_length]
      simp only [List.length_take, List.length_drop]
      omega
    have htl : (res.take m).length = m := by simp only [List.length_take]; omega
    have hD : List.zipWith (fun (r : Int) d => Fuse.apply .overwrite r d) (res.take m) ds = ds := by
      simp only [Fuse.apply]
      exact zipWith_snd_eq _ _ (by rw [htl, hdsl])
    rw [hD]
    conv_rhs => rw [← List.take_append_drop m res]
    rw [List.zipWith_append (by rw [htl, hdsl])]
    congr 1
    exact (zipWith_w64_zeros _ hf0 _ (fun r hr => hres r (List.mem_of_mem_drop hr)) _ (by simp)).symm

end NormL

namespace NormL

/-- **`vec_znx_lsh_assign` is `vec_znx_lsh` with `res = a`** (within head-room) -/
theorem lshAssignCoef_eq {b : Nat} {H : Int} (k : Nat) (hr : HeadRoom 64 b (k % b) H) (a : List Int)
    (ha : ∀ x ∈ a, |x| ≤ H) : lshAssignCoef b k a = lshCoef .overwrite b k a a := by
  unfold lshAssignCoef lshCoef
  simp only [Nat.max_self, if_true]
  generalize hs : k / b = s
  generalize hrr : k % b = r at hr ⊢
  by_cases hbig : s ≥ a.length
  · rw [if_pos hbig, if_pos hbig]
  · rw [if_neg hbig, if_neg hbig]
    have hm : min a.length (a.length - s) = a.length - s := by omega
    have hc : min (s + (a.length - s)) a.length = a.length := by omega
    rw [hm, hc]
    have hd : a.drop a.length = [] := by simp
    have hcarry : (carryOnlyRun 64 b r ([] : List Int)).getD 0 = 0 := rfl
    rw [hd, hcarry]
    have htk : (a.drop s).take (a.length - s) = a.drop s := by
      apply List.take_of_length_le; simp
    rw [htk]
    have hdb : ∀ x ∈ a.drop s, |x| ≤ H := fun x hx => ha x (List.mem_of_mem_drop hx)
    rw [assignRun_eq hr _ hdb]
    have hl : (finalTopRun 64 b r (a.drop s) 0).length = a.length - s := by
      rw [finalTopRun_eq_middleRun, middleRun_length]; simp
    have hz : List.zipWith (fun (x : Int) d => Fuse.apply .overwrite x d) (a.take (a.length - s))
        (finalTopRun 64 b r (a.drop s) 0) = finalTopRun 64 b r (a.drop s) 0 := by
      simp only [Fuse.apply]
      apply zipWith_snd_eq
      rw [hl]; simp
    rw [hz]
    congr 2
    omega

end NormL

namespace NormL

theorem torusNear_of_cong {X X' Y : Int} {px py : Nat} (h : ∃ t : Int, X = X' + t * 2 ^ px)
    (hn : TorusNear X' px Y py) : TorusNear X px Y py := by
  obtain ⟨t, ht⟩ := h
  obtain ⟨k, e, h1, h2⟩ := hn
  refine ⟨k + t, e, ?_, h2⟩
  rw [ht, pow_add]
  linear_combination h1

/-- list-level core of `vec_znx_rsh_add_into` / `vec_znx_rsh_sub`: top limbs of `res` re-normalised
together with the (signed) carry, middle limbs `± digit`, bottom limbs untouched -/
theorem rsh_fused_core {b : Nat} {H : Int} (hr : HeadRoom 64 b 0 H) (sub : Bool)
    (R1 R2 R3 TopO M : List Int) (c2 : Int)
    (hR1 : ∀ x ∈ R1, |x| ≤ H) (hc2 : |c2| ≤ H + 3)
    (hTopO : ∃ q : Int, valI b TopO + q * 2 ^ (b * R1.length) = c2) (hTl : TopO.length = R1.length)
    (hMl : M.length = R2.length)
    (hw : ∀ p ∈ List.zip R2 M, |p.1 + p.2| < 2 ^ 63 ∧ |p.1 - p.2| < 2 ^ 63) :
    let cS := if sub then w64 (-c2) else c2
    let res' := finalTopRun 64 b 0 R1 cS
        ++ List.zipWith (fun r d => if sub then w64 (r - d) else w64 (r + d)) R2 M ++ R3
    res'.length = (R1 ++ R2 ++ R3).length ∧
    ∃ t : Int, valI b res' - valI b (R1 ++ R2 ++ R3)
      = (if sub then -1 else 1) * valI b (TopO ++ M ++ List.replicate R3.length 0)
        + t * 2 ^ (b * (R1 ++ R2 ++ R3).length) := by
  intro cS res'
  have hcS : cS = (if sub then -c2 else c2) := by
    cases sub with
    | false => simp only [cS, Bool.false_eq_true, if_false]
    | true =>
      simp only [cS, if_true]
      apply w64_eq_of_abs_lt
      rw [abs_neg]
      have h1 := hr.hH
      have e : (2 : Int) ^ (64 - 1) = 2 ^ 63 := by norm_num
      rw [e] at h1
      have h2 := two_pow_pos b
      linarith
  have hcSb : |cS| ≤ H + 3 := by
    rw [hcS]
    cases sub with
    | false => simpa using hc2
    | true => simp only [if_true]; rw [abs_neg]; exact hc2
  obtain ⟨⟨q, hq⟩, hlen, _⟩ := finalTopRun_spec hr R1 hR1 cS hcSb
  obtain ⟨q', hq'⟩ := hTopO
  simp only [pow_zero, mul_one] at hq
  have hzl : (List.zipWith (fun r d => if sub then w64 (r - d) else w64 (r + d)) R2 M).length = R2.length := by
    simp [hMl]
  refine ⟨by simp [res', hlen, hMl], ?_⟩
  have hmid : valI b (List.zipWith (fun r d => if sub then w64 (r - d) else w64 (r + d)) R2 M)
      = valI b R2 + (if sub then -1 else 1) * valI b M := by
    cases sub with
    | false =>
      simp only [Bool.false_eq_true, if_false, one_mul]
      rw [zipWith_w64_add R2 M (fun p hp => (hw p hp).1), valI_zipWith_add b R2 M hMl.symm]
    | true =>
      simp only [if_true]
      rw [zipWith_w64_sub R2 M (fun p hp => (hw p hp).2), valI_zipWith_sub b R2 M hMl.symm]; ring
  refine ⟨(if sub then -1 else 1) * q' - q, ?_⟩
  simp only [res']
  rw [valI_append, valI_append, valI_append, valI_append, valI_append, valI_append, valI_replicate_zero,
    hmid, hzl, List.length_replicate]
  simp only [List.length_append, hMl]
  have e1 : (2 : Int) ^ (b * (R1.length + R2.length + R3.length))
      = 2 ^ (b * R1.length) * 2 ^ (b * R2.length) * 2 ^ (b * R3.length) := by
    rw [← pow_add, ← pow_add]; congr 1; ring
  rw [e1]
  have hTA : valI b (finalTopRun 64 b 0 R1 cS) = valI b R1 + cS - q * 2 ^ (b * R1.length) := by linarith
  have hTO : valI b TopO = c2 - q' * 2 ^ (b * R1.length) := by linarith
  rw [hTA, hTO, hcS]
  cases sub with
  | false => simp only [Bool.false_eq_true, if_false]; ring
  | true => simp only [if_true]; ring

end NormL

namespace NormL

theorem take_split3 (res : List Int) (e s : Nat) (hes : e ≤ s) :
    res = res.take e ++ (res.take s).drop e ++ res.drop s := by
  have h1 : res.take s = (res.take s).take e ++ (res.take s).drop e := (List.take_append_drop e _).symm
  have h2 : (res.take s).take e = res.take e := by rw [List.take_take]; congr 1; omega
  rw [h2] at h1
  conv_lhs => rw [← List.take_append_drop s res, h1]

/-- **`vec_znx_rsh_add_into` / `vec_znx_rsh_sub`**: `res' − res` equals `± (vec_znx_rsh into a
temporary)` modulo one full turn of the torus (`2^(b·rs)`), limbs of `res` within head-room. -/
theorem rshCoef_fused_cong {b : Nat} {H : Int} (hr : HeadRoom 64 b 0 H) (hb62 : b ≤ 62) (sub : Bool) (k : Nat)
    (a res : List Int) (ha : ∀ x ∈ a, |x| ≤ H) (hres : ∀ r ∈ res, |r| ≤ H) (hres62 : ∀ r ∈ res, |r| ≤ 2 ^ 62) :
    (rshCoef (if sub then Fuse.sub else Fuse.add) b k a res).length = res.length ∧
    ∃ t : Int, valI b (rshCoef (if sub then Fuse.sub else Fuse.add) b k a res) - valI b res
      = (if sub then -1 else 1) * valI b (rshCoef .overwrite b k a res) + t * 2 ^ (b * res.length) := by
  have hb : 1 ≤ b := by have := hr.hlsh; omega
  obtain ⟨_, hl⟩ := rshSteps_spec hb k
  have hrl := hr.with_lsh hl
  have h0 : |(0 : Int)| ≤ H + 3 := by have := hr.hH0; simp; linarith
  generalize hsteps : (rshSteps b k).1 = steps
  generalize hlsh : (rshSteps b k).2 = lsh at hrl
  set resEnd := min res.length steps with hresEnd
  set resStart := min res.length (a.length + steps) with hresStart
  set aStart := min a.length (res.length - steps) with haStart
  have hmr : resStart - resEnd = aStart := by omega
  set D := a.drop aStart with hD
  set M' := (a.take aStart).drop (aStart - (resStart - resEnd)) with hM'
  have hM'eq : M' = a.take aStart := by rw [hM', hmr]; simp
  have hDb : ∀ x ∈ D, |x| ≤ H := fun x hx => ha x (List.mem_of_mem_drop hx)
  have hMb : ∀ x ∈ M', |x| ≤ H := fun x hx => by rw [hM'eq] at hx; exact ha x (List.mem_of_mem_take hx)
  set c0 := (carryOnlyRun 64 b lsh D).getD 0 with hc0
  have hc0b : |c0| ≤ H + 3 := by
    rw [hc0, carryOnlyRun_getD hrl D hDb]; exact (middleRun_spec hrl D hDb 0 h0).2.2.2
  set c1 := gapRun 64 b lsh (min (steps - res.length) (gapCap 64 b)) c0 with hc1
  have hc1b : |c1| ≤ H + 3 := (gapRun_spec hrl hc0b _).1
  obtain ⟨_, mlen, mbal, mcb⟩ := middleRun_spec hrl M' hMb c1 hc1b
  set mid := middleRun 64 b lsh M' c1 with hmid
  have hzb : ∀ x ∈ List.replicate resEnd (0 : Int), |x| ≤ H := by
    intro x hx; rw [(List.mem_replicate.mp hx).2]; simpa using hr.hH0
  obtain ⟨⟨qO, hqO⟩, tlen, _⟩ := finalTopRun_spec hrl (List.replicate resEnd 0) hzb mid.2 mcb
  rw [valI_replicate_zero, List.length_replicate, zero_mul, zero_add] at hqO
  rw [List.length_replicate] at tlen
  set R1 := res.take resEnd with hR1
  set R2 := (res.take resStart).drop resEnd with hR2
  set R3 := res.drop resStart with hR3
  have hsplit : res = R1 ++ R2 ++ R3 := take_split3 res resEnd resStart (by omega)
  have hR1l : R1.length = resEnd := by simp [hR1]; omega
  have hR2l : R2.length = resStart - resEnd := by simp [hR2]; omega
  have hR3l : R3.length = res.length - resStart := by simp [hR3]
  have hMl : mid.1.length = R2.length := by
    rw [mlen, hM'eq, hR2l, hmr]; simp; omega
  have hw : ∀ p ∈ List.zip R2 mid.1, |p.1 + p.2| < 2 ^ 63 ∧ |p.1 - p.2| < 2 ^ 63 := by
    intro p hp
    have hm := List.of_mem_zip hp
    have h1 : |p.1| ≤ 2 ^ 62 := hres62 _ (by
      have : p.1 ∈ res.take resStart := List.mem_of_mem_drop hm.1
      exact List.mem_of_mem_take this)
    have h2 := (mbal _ hm.2).abs_le
    have h3 : (2 : Int) ^ (b - 1) ≤ 2 ^ 61 := two_pow_le (by omega)
    have h4 := abs_add_le p.1 p.2
    have h5 := abs_sub p.1 p.2
    have : (2 : Int) ^ 62 + 2 ^ 61 < 2 ^ 63 := by norm_num
    constructor <;> linarith
  have hcore := rsh_fused_core hr sub R1 R2 R3 (finalTopRun 64 b lsh (List.replicate resEnd 0) mid.2) mid.1 mid.2
    (fun x hx => hres x (List.mem_of_mem_take hx)) mcb ⟨qO, by rw [hR1l]; exact hqO⟩ (by rw [tlen, hR1l]) hMl hw
  obtain ⟨hlen, t, ht⟩ := hcore
  rw [← hsplit] at hlen ht
  -- identify the two `rshCoef` unfoldings
  have hO : rshCoef .overwrite b k a res
      = finalTopRun 64 b lsh (List.replicate resEnd 0) mid.2 ++ mid.1 ++ List.replicate R3.length 0 := by
    unfold rshCoef
    simp only [hsteps, hlsh, hR3l]
    rfl
  have hF : rshCoef (if sub then Fuse.sub else Fuse.add) b k a res
      = finalTopRun 64 b 0 R1 (if sub then w64 (-mid.2) else mid.2)
          ++ List.zipWith (fun r d => if sub then w64 (r - d) else w64 (r + d)) R2 mid.1 ++ R3 := by
    unfold rshCoef
    cases sub <;> simp only [hsteps, hlsh, Bool.false_eq_true, if_false, if_true] <;> rfl
  rw [hO, hF]
  exact ⟨hlen, t, ht⟩

end NormL

namespace NormL

/-- the four limb ranges of the same-radix routine tile the result -/
theorem interRanges_facts (lo : Int) (rs as : Nat) :
    (interRanges lo rs as).1 ≤ (interRanges lo rs as).2.1 ∧ (interRanges lo rs as).2.1 ≤ rs ∧
    (interRanges lo rs as).2.2.1 ≤ (interRanges lo rs as).2.2.2 ∧ (interRanges lo rs as).2.2.2 ≤ as ∧
    (interRanges lo rs as).2.1 - (interRanges lo rs as).1 = (interRanges lo rs as).2.2.2 - (interRanges lo rs as).2.2.1 := by
  unfold interRanges clampNat
  simp only
  omega

/-- on zero limbs the carry propagation does not depend on the intra-limb shift -/
theorem finalTopRun_zeros_lsh {bits b lsh : Nat} {H : Int} (hr : HeadRoom bits b lsh H) :
    ∀ (n : Nat) (c : Int), |c| ≤ H + 3 →
      finalTopRun bits b lsh (List.replicate n 0) c = finalTopRun bits b 0 (List.replicate n 0) c := by
  have hb : 1 ≤ b := by have := hr.hlsh; omega
  have hr0 : HeadRoom bits b 0 H := hr.with_lsh (by omega)
  have h0 : |(0 : Int)| ≤ H := by simpa using hr.hH0
  have hm : 1 ≤ b - lsh := by have := hr.hlsh; omega
  -- one step
  have hstep : ∀ c : Int, |c| ≤ H + 3 → middleStepS bits b lsh 0 c = middleStepS bits b 0 0 c := by
    intro c hc
    rw [(middleStepS_eq hr h0 hc).1, (middleStepS_eq hr0 h0 hc).1]
    simp only [bmod_zero (b - lsh) hm, bcarry_zero (b - lsh) hm, Nat.sub_zero, bmod_zero b hb, bcarry_zero b hb,
      zero_mul]
  have hmid : ∀ (n : Nat) (c : Int), |c| ≤ H + 3 →
      middleRun bits b lsh (List.replicate n 0) c = middleRun bits b 0 (List.replicate n 0) c := by
    intro n
    induction n with
    | zero => intro c _; rfl
    | succ n ih =>
      intro c hc
      simp only [List.replicate_succ, middleRun]
      rw [ih c hc]
      have hcb : |(middleRun bits b 0 (List.replicate n 0) c).2| ≤ H + 3 := by
        have hz : ∀ x ∈ List.replicate n (0 : Int), |x| ≤ H := by
          intro x hx; rw [(List.mem_replicate.mp hx).2]; exact h0
        exact (middleRun_spec hr0 _ hz c hc).2.2.2
      rw [hstep _ hcb]
  intro n c hc
  rw [finalTopRun_eq_middleRun, finalTopRun_eq_middleRun, hmid n c hc]

theorem zipWith_map_right' {α : Type} (f : α → Int → Int) (g : Int → Int) (l : List α) (m : List Int) :
    List.zipWith (fun r d => f r (g d)) l m = List.zipWith f l (m.map g) := by
  rw [List.zipWith_map_right]

/-- **the NTT120 same-radix fused kernels are the fall-back form**: within head-room,
`ntt120_vec_znx_big_normalize_inter_assign::<O>` returns `res[j] ± tmp[j]` limb for limb, where `tmp` is
what `ntt120_vec_znx_big_normalize` writes into a temporary of `res`'s size. -/
theorem normalizeInterAssignCoef128_eq {b : Nat} {H : Int} (hr : HeadRoom 128 b 0 H) (op : AccOp) (off : Int)
    (a res : List Int) (ha : ∀ x ∈ a, |x| ≤ H) (hres : ∀ r ∈ res, |r| < 2 ^ 63) :
    normalizeInterAssignCoef128 op b off a res
      = List.zipWith (fun r x => op.apply r x) res ((normalizeInterCoef 128 b res.length off a).map w64) := by
  have hb : 1 ≤ b := by have := hr.hlsh; omega
  obtain ⟨_, hl⟩ := splitOffset_spec hb off
  have hrl := hr.with_lsh hl
  have h0 : |(0 : Int)| ≤ H + 3 := by have := hr.hH0; simp; linarith
  have hop0 : ∀ r, |r| < 2 ^ 63 → op.apply r (w64 0) = r := by
    intro r hr'
    have hw0 : w64 0 = 0 := by decide
    cases op with
    | add => simp only [AccOp.apply, hw0, add_zero]; exact w64_eq_of_abs_lt hr'
    | sub => simp only [AccOp.apply, hw0, sub_zero]; exact w64_eq_of_abs_lt hr'
  unfold normalizeInterAssignCoef128 normalizeInterCoef
  simp only
  obtain ⟨f1, f2, f3, f4, f5⟩ := interRanges_facts (splitOffset b off).2 res.length a.length
  generalize (splitOffset b off).1 = lsh at hrl ⊢
  generalize hrg : interRanges (splitOffset b off).2 res.length a.length = rg at f1 f2 f3 f4 f5 ⊢
  obtain ⟨resEnd, resStart, aEnd, aStart⟩ := rg
  simp only at f1 f2 f3 f4 f5 ⊢
  set D := a.drop aStart with hD
  set M' := (a.take aStart).drop aEnd with hM'
  have hDb : ∀ x ∈ D, |x| ≤ H := fun x hx => ha x (List.mem_of_mem_drop hx)
  have hMb : ∀ x ∈ M', |x| ≤ H := fun x hx => ha x (List.mem_of_mem_take (List.mem_of_mem_drop hx))
  set c0 := (carryOnlyRun 128 b lsh D).getD 0 with hc0
  have hc0b : |c0| ≤ H + 3 := by
    rw [hc0, carryOnlyRun_getD hrl D hDb]; exact (middleRun_spec hrl D hDb 0 h0).2.2.2
  set c1 := gapRun 128 b lsh (min (Int.toNat (-(splitOffset b off).2 - ↑res.length)) (gapCap 128 b)) c0 with hc1
  have hc1b : |c1| ≤ H + 3 := (gapRun_spec hrl hc0b _).1
  obtain ⟨_, mlen, _, mcb⟩ := middleRun_spec hrl M' hMb c1 hc1b
  set mid := middleRun 128 b lsh M' c1 with hmid
  have hM'l : M'.length = aStart - aEnd := by simp [hM']; omega
  have hml : mid.1.length = resStart - resEnd := by rw [mlen, hM'l]; omega
  have hmidLo : resStart - mid.1.length = resEnd := by rw [hml]; omega
  rw [hmidLo, ← finalTopRun_zeros_lsh hrl resEnd mid.2 mcb]
  have hemp : (res.take resEnd).drop resEnd = [] := by
    apply List.drop_eq_nil_of_le; simp
  rw [hemp, List.append_nil]
  set top := finalTopRun 128 b lsh (List.replicate resEnd 0) mid.2 with htop
  have htl : top.length = resEnd := by
    rw [htop, finalTopRun_eq_middleRun, middleRun_length]; simp
  -- split `res`
  have hsplit := take_split3 res resEnd resStart f1
  conv_rhs => rw [hsplit]
  rw [List.map_append, List.map_append, List.map_replicate]
  have hl1 : (res.take resEnd).length = (top.map w64).length := by simp [htl]; omega
  have hl2 : ((res.take resStart).drop resEnd).length = (mid.1.map w64).length := by simp [hml]; omega
  rw [List.zipWith_append (by simp [hl1, hl2]), List.zipWith_append hl1]
  have hgen : ∀ (l : List Int), (∀ r ∈ l, |r| < 2 ^ 63) → ∀ n, n = l.length →
      List.zipWith (fun r x => op.apply r x) l (List.replicate n (w64 0)) = l := by
    intro l hl n hn
    subst hn
    induction l with
    | nil => simp
    | cons x l ih =>
      simp only [List.length_cons, List.replicate_succ, List.zipWith_cons_cons]
      rw [hop0 x (hl x (by simp)), ih (fun r hr' => hl r (by simp [hr']))]
  congr 1
  · congr 1
    · exact zipWith_map_right' (fun r x => op.apply r x) w64 _ _
    · exact zipWith_map_right' (fun r x => op.apply r x) w64 _ _
  · symm
    apply hgen _ (fun r hr' => hres r (List.mem_of_mem_drop hr'))
    simp only [List.length_append, List.length_take, List.length_drop]
    omega

end NormL
