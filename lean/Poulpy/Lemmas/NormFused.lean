/-
Helper lemmas for C08: the fused `res ±= normalise(a)` forms that are "normalise into a temporary,
then limb-wise wrapping add / sub" (HAL default of `vec_znx_big_normalize_{add,sub}_assign`, NTT120
for different radices, and — as shown here — `vec_znx_lsh_add_into` / `vec_znx_lsh_sub`).
-/
import Poulpy.Lemmas.NormInter

namespace NormL

theorem w64_eq_of_abs_lt {x : Int} (h : |x| < 2 ^ 63) : w64 x = x := by
  have : w64 x = wrapN 64 x := rfl
  rw [this]
  exact wrapN_eq_abs (by norm_num) (by simpa using h)

theorem valI_zipWith_add (b : Nat) : ∀ (l1 l2 : List Int), l1.length = l2.length →
    valI b (List.zipWith (fun r x => r + x) l1 l2) = valI b l1 + valI b l2
  | [], [], _ => by simp [valI]
  | [], _ :: _, h => by simp at h
  | _ :: _, [], h => by simp at h
  | x :: l1, y :: l2, h => by
    have h' : l1.length = l2.length := by simpa using h
    simp only [List.zipWith_cons_cons, valI, List.length_zipWith, h', Nat.min_self,
      valI_zipWith_add b l1 l2 h']
    ring

theorem valI_zipWith_sub (b : Nat) : ∀ (l1 l2 : List Int), l1.length = l2.length →
    valI b (List.zipWith (fun r x => r - x) l1 l2) = valI b l1 - valI b l2
  | [], [], _ => by simp [valI]
  | [], _ :: _, h => by simp at h
  | _ :: _, [], h => by simp at h
  | x :: l1, y :: l2, h => by
    have h' : l1.length = l2.length := by simpa using h
    simp only [List.zipWith_cons_cons, valI, List.length_zipWith, h', Nat.min_self,
      valI_zipWith_sub b l1 l2 h']
    ring

/-- limb-wise wrapping add is the exact add when no limb sum leaves the `i64` range -/
theorem zipWith_w64_add (l1 l2 : List Int) (h : ∀ p ∈ List.zip l1 l2, |p.1 + p.2| < 2 ^ 63) :
    List.zipWith (fun r x => w64 (r + x)) l1 l2 = List.zipWith (fun r x => r + x) l1 l2 := by
  induction l1 generalizing l2 with
  | nil => simp
  | cons x l1 ih =>
    cases l2 with
    | nil => simp
    | cons y l2 =>
      simp only [List.zipWith_cons_cons]
      rw [w64_eq_of_abs_lt (h (x, y) (by simp)), ih l2 (fun p hp => h p (by simp [hp]))]

theorem zipWith_w64_sub (l1 l2 : List Int) (h : ∀ p ∈ List.zip l1 l2, |p.1 - p.2| < 2 ^ 63) :
    List.zipWith (fun r x => w64 (r - x)) l1 l2 = List.zipWith (fun r x => r - x) l1 l2 := by
  induction l1 generalizing l2 with
  | nil => simp
  | cons x l1 ih =>
    cases l2 with
    | nil => simp
    | cons y l2 =>
      simp only [List.zipWith_cons_cons]
      rw [w64_eq_of_abs_lt (h (x, y) (by simp)), ih l2 (fun p hp => h p (by simp [hp]))]

theorem TorusNear.neg {X Y : Int} {px py : Nat} (h : TorusNear X px Y py) : TorusNear (-X) px (-Y) py := by
  obtain ⟨k, e, h1, h2⟩ := h
  exact ⟨-k, -e, by linarith, by rwa [abs_neg]⟩

/-- **fused add**: if the temporary `t` represents `Y/2^py` within one unit, then
`res' = res + t` (limb-wise, no wrap) satisfies `res' − res ≈ Y/2^py` within one unit. -/
theorem fused_add_value (b : Nat) (res t : List Int) (hl : res.length = t.length)
    (hw : ∀ p ∈ List.zip res t, |p.1 + p.2| < 2 ^ 63) {Y : Int} {py : Nat}
    (h : TorusNear (valI b t) (b * t.length) Y py) :
    TorusNear (valI b (List.zipWith (fun r x => w64 (r + x)) res t) - valI b res) (b * res.length) Y py := by
  rw [zipWith_w64_add res t hw, valI_zipWith_add b res t hl, hl]
  simpa using h

/-- **fused sub** -/
theorem fused_sub_value (b : Nat) (res t : List Int) (hl : res.length = t.length)
    (hw : ∀ p ∈ List.zip res t, |p.1 - p.2| < 2 ^ 63) {Y : Int} {py : Nat}
    (h : TorusNear (valI b t) (b * t.length) Y py) :
    TorusNear (valI b (List.zipWith (fun r x => w64 (r - x)) res t) - valI b res) (b * res.length) (-Y) py := by
  rw [zipWith_w64_sub res t hw, valI_zipWith_sub b res t hl, hl]
  have := h.neg
  simpa using this

/-- adding a zero limb leaves an in-range limb unchanged -/
theorem zipWith_w64_zeros (f : Int → Int → Int) (hf : ∀ r, |r| < 2 ^ 63 → f r 0 = r)
    (l : List Int) (hl : ∀ r ∈ l, |r| < 2 ^ 63) (n : Nat) (hn : n = l.length) :
    List.zipWith f l (List.replicate n 0) = l := by
  subst hn
  induction l with
  | nil => simp
  | cons x l ih =>
    simp only [List.length_cons, List.replicate_succ, List.zipWith_cons_cons]
    rw [hf x (hl x (by simp)), ih (fun r hr => hl r (by simp [hr]))]

/-- **`vec_znx_lsh_add_into` / `vec_znx_lsh_sub` are the fall-back form**: the fused kernels give
`res ± (vec_znx_lsh into a temporary)` limb for limb (for `res` limbs in the `i64` range). -/
theorem lshCoef_fused_eq (f : Fuse) (hf : f ≠ .overwrite) (b k : Nat) (a res : List Int)
    (hres : ∀ r ∈ res, |r| < 2 ^ 63) :
    lshCoef f b k a res = List.zipWith (fun r d => f.apply r d) res (lshCoef .overwrite b k a res) := by
  have hf0 : ∀ r, |r| < 2 ^ 63 → f.apply r 0 = r := by
    intro r hr
    cases f with
    | overwrite => exact absurd rfl hf
    | add => simp only [Fuse.apply, add_zero]; exact w64_eq_of_abs_lt hr
    | sub => simp only [Fuse.apply, sub_zero]; exact w64_eq_of_abs_lt hr
  unfold lshCoef
  simp only [if_neg hf, if_true]
  by_cases hbig : k / b ≥ max res.length a.length
  · simp only [if_pos hbig]
    exact (zipWith_w64_zeros _ hf0 res hres _ rfl).symm
  · simp only [if_neg hbig]
    set m := min res.length (a.length - k / b) with hm
    set ds := finalTopRun 64 b (k % b) ((a.drop (k / b)).take m)
      ((carryOnlyRun 64 b (k % b) (a.drop (min (k / b + m) a.length))).getD 0) with hds
    have hdsl : ds.length = m := by
      rw [hds, finalTopRun_eq_middleRun, middleRun_length]
      simp only [List.length_take, List.length_drop]
      omega
    have htl : (res.take m).length = m := by simp only [List.length_take]; omega
    have hD : List.zipWith (fun (r : Int) d => Fuse.apply .overwrite r d) (res.take m) ds = ds := by
      simp only [Fuse.apply]
      exact zipWith_snd_eq _ _ (by rw [htl, hdsl])
    rw [hD]
    conv_rhs => rw [← List.take_append_drop m res]
    rw [List.zipWith_append (by rw [htl, hdsl])]
    congr 1
    exact (zipWith_w64_zeros _ hf0 _ (fun r hr => hres r (List.mem_of_mem_drop hr)) _ (by simp)).symm

end NormL
