import Poulpy.Lemmas.RingCoeff

/-! Rotation (`X^p`) : length, range preservation, extension formula, group laws. -/

theorem znxNegateW_length (w : Int → Int) (a : Poly) : (znxNegateW w a).length = a.length := by
  simp [znxNegateW]

theorem rotate_length (w : Int → Int) (p : Int) (a : Poly) : (znxRotateW w p a).length = a.length := by
  rcases Nat.eq_zero_or_pos a.length with h | h
  · have : a = [] := List.eq_nil_of_length_eq_zero h
    subst this; simp [znxRotateW, znxNegateW]
  · unfold znxRotateW
    dsimp only
    have : (p % (2 * (a.length : Int))).toNat % a.length ≤ a.length := Nat.le_of_lt (Nat.mod_lt _ h)
    split <;> simp [znxNegateW_length]

theorem allP_append {P : Int → Prop} {a b : Poly} (ha : AllP P a) (hb : AllP P b) : AllP P (a ++ b) := by
  intro x hx; rcases List.mem_append.mp hx with h | h
  · exact ha x h
  · exact hb x h

theorem allP_negate {w : Int → Int} {P : Int → Prop} (hw : NegOn w P) {a : Poly} (ha : AllP P a) :
    AllP P (znxNegateW w a) := by
  intro x hx
  simp only [znxNegateW, List.mem_map] at hx
  obtain ⟨y, hy, rfl⟩ := hx
  exact hw.closed y (ha y hy)

theorem allP_take {P : Int → Prop} {a : Poly} (ha : AllP P a) (k : Nat) : AllP P (a.take k) :=
  fun x hx => ha x (List.mem_of_mem_take hx)

theorem allP_drop {P : Int → Prop} {a : Poly} (ha : AllP P a) (k : Nat) : AllP P (a.drop k) :=
  fun x hx => ha x (List.mem_of_mem_drop hx)

theorem rotate_allP {w : Int → Int} {P : Int → Prop} (hw : NegOn w P) (p : Int) {a : Poly} (ha : AllP P a) :
    AllP P (znxRotateW w p a) := by
  unfold znxRotateW
  dsimp only
  split
  · exact allP_append (allP_negate hw (allP_drop ha _)) (allP_take ha _)
  · exact allP_append (allP_drop ha _) (allP_negate hw (allP_take ha _))

/-- `rotate_spec`, extension form: coefficient `k` of `X^p · a` is coefficient `k - p` of `a`, for all `k, p ∈ ℤ` -/
theorem rotate_coeffZ {w : Int → Int} {P : Int → Prop} (hw : NegOn w P) (p : Int) (a : Poly) (ha : AllP P a)
    (hn : 0 < a.length) (k : Int) :
    coeffZ w (znxRotateW w p a) k = coeffZ w a (k - p) := by
  have hl := rotate_length w p a
  apply eq_of_window a.length hn (fun k => coeffZ w (znxRotateW w p a) k) (fun k => coeffZ w a (k - p)) (fun x => w (-x))
  · intro k; have := coeffZ_period w (znxRotateW w p a) k; rw [hl] at this; exact this
  · intro k; show coeffZ w a (k + 2 * (a.length : Int) - p) = _
    rw [show k + 2 * (a.length : Int) - p = (k - p) + 2 * (a.length : Int) by ring, coeffZ_period]
  · intro k
    have := coeffZ_add_n hw (znxRotateW w p a) (rotate_allP hw p ha) (by omega) k
    rw [hl] at this; exact this
  · intro k; show coeffZ w a (k + (a.length : Int) - p) = _
    rw [show k + (a.length : Int) - p = (k - p) + (a.length : Int) by ring, coeffZ_add_n hw a ha hn]
  · intro j hj
    show coeffZ w (znxRotateW w p a) j = coeffZ w a (j - p)
    rw [coeffZ_of_lt w _ j (by omega), rotate_getD w p a j hj]

theorem rotate_add {w : Int → Int} {P : Int → Prop} (hw : NegOn w P) (p q : Int) (a : Poly) (ha : AllP P a) :
    znxRotateW w p (znxRotateW w q a) = znxRotateW w (p + q) a := by
  rcases Nat.eq_zero_or_pos a.length with h0 | hn
  · have : a = [] := List.eq_nil_of_length_eq_zero h0
    subst this; simp [znxRotateW, znxNegateW]
  · apply coeffZ_ext w
    · simp [rotate_length]
    · intro j _
      rw [rotate_coeffZ hw p _ (rotate_allP hw q ha) (by rw [rotate_length]; exact hn),
        rotate_coeffZ hw q a ha hn, rotate_coeffZ hw (p + q) a ha hn]
      congr 1; ring

/-- rotation only depends on `p mod 2n` -/
theorem rotate_congr (w : Int → Int) (p q : Int) (a : Poly)
    (h : p % (2 * (a.length : Int)) = q % (2 * (a.length : Int))) : znxRotateW w p a = znxRotateW w q a := by
  unfold znxRotateW; dsimp only; rw [h]

theorem rotate_zero (w : Int → Int) (a : Poly) : znxRotateW w 0 a = a := by
  unfold znxRotateW; dsimp only
  rcases Nat.eq_zero_or_pos a.length with h0 | hn
  · have : a = [] := List.eq_nil_of_length_eq_zero h0
    subst this; simp [znxNegateW]
  · simp [hn, znxNegateW]

/-- `X^{2n} = 1` -/
theorem rotate_2N (w : Int → Int) (m : Int) (a : Poly) : znxRotateW w (2 * (a.length : Int) * m) a = a := by
  rw [rotate_congr w _ 0 a (by simp), rotate_zero]

theorem rotate_neg_inv {w : Int → Int} {P : Int → Prop} (hw : NegOn w P) (p : Int) (a : Poly) (ha : AllP P a) :
    znxRotateW w (-p) (znxRotateW w p a) = a := by
  rw [rotate_add hw _ _ a ha, show -p + p = 0 by ring, rotate_zero]

/-- `X^n = -1` -/
theorem rotate_N {w : Int → Int} {P : Int → Prop} (hw : NegOn w P) (a : Poly) (ha : AllP P a) :
    znxRotateW w (a.length : Int) a = znxNegateW w a := by
  rcases Nat.eq_zero_or_pos a.length with h0 | hn
  · have : a = [] := List.eq_nil_of_length_eq_zero h0
    subst this; simp [znxRotateW, znxNegateW]
  · apply coeffZ_ext w
    · simp [rotate_length, znxNegateW_length]
    · intro j hj
      rw [rotate_length] at hj
      rw [rotate_coeffZ hw _ a ha hn, coeffZ_of_lt w _ j (by rw [znxNegateW_length]; exact hj)]
      have e : ((j : Int) - (a.length : Int)) = ((j : Int) - 2 * (a.length : Int)) + (a.length : Int) := by ring
      rw [e, coeffZ_add_n hw a ha hn]
      have e2 : (j : Int) - 2 * (a.length : Int) = (j : Int) + 2 * (a.length : Int) * (-1) := by ring
      rw [coeffZ_congr w a _ (j : Int) (by rw [e2, Int.add_mul_emod_self_left]), coeffZ_of_lt w a j hj]
      simp [znxNegateW, List.getD_eq_getElem?_getD, List.getElem?_eq_getElem hj]
