import Poulpy.Model.Core.Mul
import Poulpy.Lemmas.GadgetExec
import Poulpy.Lemmas.EpBridge
import Poulpy.Lemmas.ExpandIdx

/-!
C03's executed-product theorems (`Ks.keyswitch_phase`, `Ks.keyswitch_value`) restated for `Core.gglweProductDft`
— the wrapper through which row expansion (`Core.expandRowCols`) and relinearisation (`Core.relinearize`) call
`gglwe_product_dft` — with the secret factor split as `m · σ_i` (`m = s_col` for row expansion, `m = 1` for relinearisation).
-/

namespace Core
open Hal Ks

/-- phase of limb `l` of the executed gadget product, every digit size -/
theorem gglweProductDft_phase (N : Nat) (sk : List Poly) (a : List Col) (g : GGLWE) (res0 : List Col) (l : Nat)
    (hd : 1 ≤ g.dsize) (hN : 0 < N) (hn : g.n = N) (hc : 0 < g.colsOut)
    (h0 : shapeOk g.n g.colsOut g.size res0 = true) (hM : ∀ j q, (g.toPMat.entry j q).length = N) :
    ι N (phaseRow sk ((Core.gglweProductDft a g g.size res0).map (fun col => limbOr0 N col l)))
      = ∑ i ∈ Finset.range g.colsIn,
          Gadget.acc g.size g.dsize g.dnum (a.getD 0 []).length
            (inLimb N (mkBuf g.n g.colsIn (a.getD 0 []).length a) i) (keyPhase N sk g.toPMat i) l := by
  have s0 := (mkBuf_shape g.n g.colsOut g.size res0 h0).1
  unfold Core.gglweProductDft
  simp only [List.map_map]
  exact keyswitch_phase N sk (mkBuf g.n g.colsOut g.size res0) (mkBuf g.n g.colsIn (a.getD 0 []).length a) g.toKey l
    hd hN s0.1 rfl rfl rfl hc hn hn rfl hM

/-- value of the phase of the executed gadget product when key row `r`, input column `i` has phase value
`m·σ_i·β^{S−(r+1)·dsize} + E_{i,r}` -/
theorem gglweProductDft_value (N : Nat) (sk : List Poly) (a : List Col) (g : GGLWE) (res0 : List Col)
    (β m : R N) (σ : ℕ → R N) (E : ℕ → ℕ → R N)
    (hd : 1 ≤ g.dsize) (hN : 0 < N) (hn : g.n = N) (hc : 0 < g.colsOut)
    (h0 : shapeOk g.n g.colsOut g.size res0 = true) (hM : ∀ j q, (g.toPMat.entry j q).length = N)
    (hS : g.dnum * g.dsize ≤ g.size)
    (hkey : ∀ i, i < g.colsIn → ∀ r, r < g.dnum →
      Gadget.val β g.size (keyPhase N sk g.toPMat i r) = m * σ i * β ^ (g.size - (r + 1) * g.dsize) + E i r) :
    ∑ l ∈ Finset.range g.size,
        ι N (phaseRow sk ((Core.gglweProductDft a g g.size res0).map (fun col => limbOr0 N col l))) * β ^ (g.size - 1 - l)
      = m * ∑ i ∈ Finset.range g.colsIn,
            σ i * Gadget.usedVal β g.size g.dsize g.dnum (a.getD 0 []).length (inLimb N (mkBuf g.n g.colsIn (a.getD 0 []).length a) i)
        + ∑ i ∈ Finset.range g.colsIn,
            (∑ r ∈ Finset.range g.dnum,
                Gadget.digit β g.dsize g.dnum (a.getD 0 []).length (inLimb N (mkBuf g.n g.colsIn (a.getD 0 []).length a) i) r * E i r
              - Gadget.dropped β g.size g.dsize g.dnum (a.getD 0 []).length
                  (inLimb N (mkBuf g.n g.colsIn (a.getD 0 []).length a) i) (keyPhase N sk g.toPMat i)
              - β ^ g.size * Gadget.head β g.dsize g.dnum (a.getD 0 []).length
                  (inLimb N (mkBuf g.n g.colsIn (a.getD 0 []).length a) i) (keyPhase N sk g.toPMat i)) := by
  have s0 := (mkBuf_shape g.n g.colsOut g.size res0 h0).1
  have h := keyswitch_value N sk (mkBuf g.n g.colsOut g.size res0) (mkBuf g.n g.colsIn (a.getD 0 []).length a) g.toKey β
    (fun i => m * σ i) E hd hN s0.1 rfl rfl rfl hc hn hn rfl hM hS hkey
  unfold Core.gglweProductDft
  simp only [List.map_map]
  refine Eq.trans h ?_
  show ∑ i ∈ Finset.range g.colsIn, _ = _
  rw [Finset.mul_sum, ← Finset.sum_add_distrib]
  apply Finset.sum_congr rfl
  intro i _
  exact ring_regroup _ _ _ _ _ _

end Core
