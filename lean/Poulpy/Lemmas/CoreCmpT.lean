/-
Helper lemmas for C19: the scratch temporary of the matrix encryption routines is irrelevant
(`…T` routines = the routines that build every gadget plaintext from a fresh zero column).
-/
import Poulpy.Lemmas.CoreCmp

namespace CoreEnc

theorem zeroLike_eq {n size : Nat} (prev : Col) (hl : prev.length = size) (hw : WF n prev) : Core.zeroLike prev = Core.zeroCol n size := by
  unfold Core.zeroLike Core.zeroCol Poly.zero
  apply List.ext_getElem
  · simp [hl]
  · intro j h1 h2
    simp only [List.getElem_map, List.getElem_replicate]
    have := hw _ (List.getElem_mem (by simpa using h1))
    apply List.ext_getElem
    · simp [this]
    · intro i _ _; simp

theorem gadgetPtFrom_eq {n size : Nat} (prev : Col) (hl : prev.length = size) (hw : WF n prev) (b dsize row : Nat) (s : Poly) (hs : s.length = n) :
    Core.gadgetPtFrom prev b n dsize row s = Core.gadgetPt b n size dsize row s := by
  unfold Core.gadgetPtFrom Core.gadgetPt
  simp only [zeroLike_eq prev hl hw]
  have hzl : (Core.zeroCol n size).length = size := by simp [Core.zeroCol]
  rw [hzl]
  by_cases h : dsize - 1 + row * dsize < size
  · simp only [h, ↓reduceIte]
    congr 2
    have hg : (Core.zeroCol n size).getD (dsize - 1 + row * dsize) [] = List.replicate n 0 := by
      simp [Core.zeroCol, Poly.zero, List.getD_eq_getElem?_getD, h]
    rw [hg]
    have hz : List.zipWith (fun x y => w64 (x + y)) (List.replicate n 0) s = s.map (fun x => w64 (0 + x)) := by
      apply List.ext_getElem
      · simp [hs]
      · intro i h1 h2; simp
    rw [hz]
  · simp [h]

theorem gadgetPt_shape {b n size dsize row : Nat} {s : Poly} {p : Col} (h : Core.gadgetPt b n size dsize row s = some p) :
    p.length = size ∧ WF n p := by
  unfold Core.gadgetPt at h
  simp only at h
  by_cases hc : dsize - 1 + row * dsize < size
  · rw [if_pos hc] at h
    simp only [Option.some.injEq] at h
    subst h
    unfold normalizeAssignCol
    refine ⟨by simp [mapCoefs_length, Core.zeroCol], mapCoefs_WF _ _ _⟩
  · rw [if_neg hc] at h; simp at h

/-- the reference descriptors of a cell list: every gadget plaintext built from a fresh zero column -/
def specDescs (b n size dsize : Nat) (spec : List (Nat × Nat × Poly × Nat)) : List (Nat × Option (Option (Col × Nat))) :=
  spec.map (fun q => (q.1, (Core.gadgetPt b n size dsize q.2.1 q.2.2.1).map (fun p => some (p, q.2.2.2))))

theorem gadgetSeq_eq {n size : Nat} (b dsize : Nat) : ∀ (spec : List (Nat × Nat × Poly × Nat)) (tmp : Col), tmp.length = size → WF n tmp →
    (∀ q ∈ spec, q.2.2.1.length = n) →
    Core.gadgetSeq b n dsize tmp spec = Core.descsOk (specDescs b n size dsize spec) := by
  intro spec
  induction spec with
  | nil => intro tmp _ _ _; simp [Core.gadgetSeq, Core.descsOk, specDescs]
  | cons q rest ih =>
    intro tmp hl hw hs
    obtain ⟨idx, row, s, c⟩ := q
    have hsl : s.length = n := hs (idx, row, s, c) (by simp)
    simp only [Core.gadgetSeq, gadgetPtFrom_eq tmp hl hw b dsize row s hsl, Core.descsOk, specDescs, List.map_cons, List.mapM_cons]
    cases hg : Core.gadgetPt b n size dsize row s with
    | none => simp
    | some p =>
      obtain ⟨pl, pw⟩ := gadgetPt_shape hg
      have := ih p pl pw (fun q hq => hs q (by simp [hq]))
      simp only [Core.descsOk, specDescs] at this
      simp only [this, Option.map_some, Option.bind_eq_bind]
      cases List.mapM (fun d => Option.map (fun p => (d.1, p)) d.2)
          (List.map (fun q => (q.1, Option.map (fun p => some (p, q.2.2.2)) (Core.gadgetPt b n size dsize q.2.1 q.2.2.1))) rest) <;> rfl

theorem gglweSpec_descs (b n size dsize rankIn dnum : Nat) (pt : List Poly) :
    specDescs b n size dsize (Core.gglweCellSpec rankIn dnum pt) = Core.gglweDescs b n size dsize rankIn dnum pt := by
  simp only [specDescs, Core.gglweCellSpec, Core.gglweDescs, List.map_flatMap, List.map_map]
  rfl

/-- **the scratch temporary of `gglwe_compressed_encrypt_sk` is irrelevant** -/
theorem gglweEncryptCompressedT_eq {n size : Nat} (tmp0 : Col) (hl : tmp0.length = size) (hw : WF n tmp0)
    (bits b kxe rankOut rankIn dnum dsize : Nat) (pt : List Poly) (hpt : ∀ col, col < rankIn → (pt.getD col []).length = n)
    (sk : List Poly) (expand : List Nat → List Nat) (seedXa : List Nat) (es : List Poly) :
    Core.gglweEncryptCompressedT tmp0 bits b n size kxe rankOut rankIn dnum dsize pt sk expand seedXa es
      = Core.gglweEncryptCompressed bits b n size kxe rankOut rankIn dnum dsize pt sk expand seedXa es := by
  unfold Core.gglweEncryptCompressedT Core.gglweEncryptCompressed
  rw [gadgetSeq_eq b dsize _ tmp0 hl hw ?_, gglweSpec_descs]
  intro q hq
  simp only [Core.gglweCellSpec, List.mem_flatMap, List.mem_map, List.mem_range] at hq
  obtain ⟨col, hc, row, _, rfl⟩ := hq
  exact hpt col hc

theorem descsOk_append (l1 l2 : List (Nat × Option (Option (Col × Nat)))) :
    Core.descsOk (l1 ++ l2) = (Core.descsOk l1).bind (fun a => (Core.descsOk l2).map (fun c => a ++ c)) := by
  unfold Core.descsOk
  rw [List.mapM_append]
  cases List.mapM (fun d => Option.map (fun p => (d.1, p)) d.2) l1 with
  | none => rfl
  | some a =>
    cases List.mapM (fun d => Option.map (fun p => (d.1, p)) d.2) l2 with
    | none => rfl
    | some c => rfl

theorem descsOk_row_some (rank row : Nat) (p : Col) :
    Core.descsOk ((List.range (rank + 1)).map (fun col => (row * (rank + 1) + col, (some p).map (fun p => some (p, col)))))
      = some ((List.range (rank + 1)).map (fun col => (row * (rank + 1) + col, some (p, col)))) := by
  unfold Core.descsOk
  rw [List.mapM_map]
  exact mapM_some' _ _ _ (fun i _ => rfl)

theorem descsOk_row_none (rank row : Nat) :
    Core.descsOk ((List.range (rank + 1)).map (fun col => (row * (rank + 1) + col, (none : Option Col).map (fun p => some (p, col))))) = none := by
  unfold Core.descsOk
  rw [List.range_succ_eq_map]
  simp [List.mapM_cons]

theorem ggswRowSeq_eq {n size : Nat} (b dsize rank : Nat) (pt : Poly) (hpt : pt.length = n) : ∀ (rows : List Nat) (tmp : Col), tmp.length = size → WF n tmp →
    Core.ggswRowSeq b n dsize rank pt tmp rows = Core.descsOk (rows.flatMap (fun row => (List.range (rank + 1)).map (fun col =>
      (row * (rank + 1) + col, (Core.gadgetPt b n size dsize row pt).map (fun p => some (p, col)))))) := by
  intro rows
  induction rows with
  | nil => intro tmp _ _; simp [Core.ggswRowSeq, Core.descsOk]
  | cons row rows ih =>
    intro tmp hl hw
    simp only [Core.ggswRowSeq, gadgetPtFrom_eq tmp hl hw b dsize row pt hpt, List.flatMap_cons, descsOk_append]
    cases hg : Core.gadgetPt b n size dsize row pt with
    | none =>
      have := descsOk_row_none rank row
      simp only [Option.map_none] at this
      simp [this]
    | some p =>
      obtain ⟨pl, pw⟩ := gadgetPt_shape hg
      have h1 := descsOk_row_some rank row p
      simp only [Option.map_some] at h1
      simp only [Option.map_some, h1, Option.bind_some]
      rw [ih p pl pw]
      cases Core.descsOk (rows.flatMap (fun row => (List.range (rank + 1)).map (fun col =>
        (row * (rank + 1) + col, (Core.gadgetPt b n size dsize row pt).map (fun p => some (p, col)))))) <;> rfl

/-- **the scratch temporary of `ggsw_compressed_encrypt_sk` is irrelevant** -/
theorem ggswEncryptCompressedT_eq {n size : Nat} (tmp0 : Col) (hl : tmp0.length = size) (hw : WF n tmp0)
    (bits b kxe rank dnum dsize : Nat) (pt : Poly) (hpt : pt.length = n)
    (sk : List Poly) (expand : List Nat → List Nat) (seedXa : List Nat) (es : List Poly) :
    Core.ggswEncryptCompressedT tmp0 bits b n size kxe rank dnum dsize pt sk expand seedXa es
      = Core.ggswEncryptCompressed bits b n size kxe rank dnum dsize pt sk expand seedXa es := by
  unfold Core.ggswEncryptCompressedT Core.ggswEncryptCompressed
  rw [ggswRowSeq_eq b dsize rank pt hpt _ tmp0 hl hw]
  rfl

theorem mapM_some_mem {α β : Type} (f : α → Option β) : ∀ (l : List α) (out : List β), l.mapM f = some out →
    ∀ p ∈ out, ∃ a ∈ l, f a = some p := by
  intro l
  induction l with
  | nil => intro out h p hp; simp at h; subst h; simp at hp
  | cons a r ih =>
    intro out h p hp
    rw [List.mapM_cons] at h
    cases hfa : f a with
    | none => simp [hfa] at h
    | some x =>
      cases hr : r.mapM f with
      | none => simp [hfa, hr] at h
      | some xs =>
        simp [hfa, hr] at h
        subst h
        rcases List.mem_cons.mp hp with rfl | hp
        · exact ⟨a, by simp, hfa⟩
        · obtain ⟨a', ha', h'⟩ := ih xs hr p hp
          exact ⟨a', by simp [ha'], h'⟩

/-- every polynomial of the tensor secret has `n` coefficients -/
theorem tensorSecret_length (bits n : Nat) (hbits : bits = 64 ∨ bits = 128) (sk : List Poly) (pts : List Poly)
    (h : Core.tensorSecret bits n sk = some pts) : ∀ p ∈ pts, p.length = n := by
  intro p hp
  obtain ⟨ij, _, hf⟩ := mapM_some_mem _ _ _ h p hp
  rw [bigNormalize_eq bits 17 1 n hbits] at hf
  simp only [Option.map_some, Option.some.injEq] at hf
  subst hf
  simp [mapCoefs, ofCoefs, List.range_succ]

end CoreEnc
