import Poulpy.Lemmas.Fft64AvxLaneNumeric

open Complex

namespace Fft64Cnv
open F64 Fft64 Fft64Avx NttMath Hal

/-- prepared integer limbs inside the asserted input range of `reim_from_znx_i64_bnd50_fma` -/
def PrepOKA (K : Nat) (M : ℝ) (A : Col) : Prop :=
  ∀ limb ∈ A, limb.length = 2 ^ (K + 1) ∧ ∀ c ∈ limb, c.natAbs ≤ 2 ^ 50 - 1 ∧ |(c:ℝ)| ≤ M

theorem prepOK_of_A (K : Nat) (M : ℝ) (A : Col) (h : PrepOKA K M A) : PrepOK K M A := by
  intro l hl
  obtain ⟨h1, h2⟩ := h l hl
  refine ⟨h1, fun c hc => ⟨?_, (h2 c hc).2⟩⟩
  have := (h2 c hc).1
  have : (2:Nat) ^ 50 - 1 < 2 ^ 53 := by norm_num
  omega

/-- the inverse transform and output conversion of the all-`+0` vector on FFT64Avx -/
theorem idftAvx_zero (K : Nat) (iomg : Array Nat) (τ Ma Mb : ℝ) (hacci : AccI τ (twOf (invIdx K) iomg) K 0 0 (1 / 4))
    (hdom : LaneDomainAvx K 1 τ Ma Mb) :
    idftOfAvx K iomg (List.replicate (2 ^ K) ((0:Nat), (0:Nat))) = Hal.zeroP (2 ^ (K + 1)) := by
  have hγ := γf_nonneg τ hdom.τ0
  have hAFa : 1 ≤ AF K Ma := by
    unfold AF A0; have : (1:ℝ) ≤ 2 ^ K := one_le_pow₀ (by norm_num); have := hdom.Ma1; nlinarith
  have hAFb : 1 ≤ AF K Mb := by
    unfold AF A0; have : (1:ℝ) ≤ 2 ^ K := one_le_pow₀ (by norm_num); have := hdom.Mb1; nlinarith
  have hEFa : 0 ≤ EF K τ Ma := errB_nonneg _ hγ _ _ _ (by unfold A0; have := hdom.Ma1; linarith) le_rfl
  have hEFb : 0 ≤ EF K τ Mb := errB_nonneg _ hγ _ _ _ (by unfold A0; have := hdom.Mb1; linarith) le_rfl
  have hq : 0 ≤ EPL K τ Ma Mb := epL_nonneg _ _ _ _ hAFa hAFb hEFa hEFb
  have hap : 0 ≤ AP K Ma Mb := by unfold AP; positivity
  obtain ⟨hg0, hA0', _⟩ := accIterN_mono ν2 _ _ ν2_nonneg hq hap 1 (0, 0) le_rfl le_rfl
  change 0 ≤ (accRL K 1 τ Ma Mb).1 at hg0
  have hA1 : 1 ≤ (accRL K 1 τ Ma Mb).2 := by
    unfold accRL; rw [accIterN_snd]; simp only [zero_add, Nat.cast_one, one_mul]
    unfold AP; nlinarith
  have hE0 : 0 ≤ EaccL K 1 τ Ma Mb := by unfold EaccL; positivity
  have hz := close_zero_vec K (EaccL K 1 τ Ma Mb) (accRL K 1 τ Ma Mb).2 hE0 (by linarith)
  have hfe : fwdE K (1 / 4) (packC (2 ^ K) ((Hal.zeroP (2 ^ (K + 1))).map cc)) = List.replicate (2 ^ K) 0 := by
    rw [packC_zero, fwdE_zero]
  rw [← hfe] at hz
  exact idftAvx_of_close K hdom.K900 iomg τ hdom.τ0 hdom.τ1 _ _ hA1 hE0 hacci hdom.ri hdom.r62 hdom.main _ (by simp [Hal.zeroP]) _ hz

/-- `convolution_prepare` on FFT64Avx: no range assertion fires (also not in the unmasked pass over the top limb) and the
prepared limbs are close to the transforms of `Hal.cnvPrepareCol` -/
theorem cnvPrepareAvx_rel (K : Nat) (omg : Array Nat) (τ M : ℝ) (rs : Nat) (mask : Int) (a : Col)
    (hτ0 : 0 ≤ τ) (hτ1 : τ ≤ 1) (hM : 1 ≤ M) (hacc : AccF τ (twOf (fwdIdx K) omg) K 0 0 (1 / 4))
    (hr : 2 ^ K * (1 + γf τ / 2) ^ K * (A0 M + 0) ≤ (2:ℝ) ^ (999:Int))
    (hraw : ∀ j, j < min rs a.length → ∀ c ∈ limbOr0 (2 * 2 ^ K) a j, c.natAbs ≤ 2 ^ 50 - 1)
    (hok : PrepOKA K M (cnvPrepareCol (2 * 2 ^ K) rs mask a)) :
    ∃ pa, cnvPrepare avxOps K omg rs mask a = .ok pa ∧ PrepRel K τ M pa (cnvPrepareCol (2 * 2 ^ K) rs mask a) := by
  set n := 2 * 2 ^ K with hn
  set ms := min rs a.length with hms
  set g := fun l : Poly => fwdAvx K omg (halves K (fromZnx l)) with hg
  have hun : allOk ((List.range ms).map (fun j => avxOps.dft K omg (limbOr0 n a j))) =
      .ok ((List.range ms).map (fun j => g (limbOr0 n a j))) :=
    allOk_map _ (fun j => g (limbOr0 n a j)) _ (fun j hj => dftOfAvx_eq K omg _ (hraw j (List.mem_range.mp hj)))
  have hAlen : (cnvPrepareCol n rs mask a).length = rs := by simp [cnvPrepareCol]
  have hAj : ∀ j, j < rs → limbOr0 n (cnvPrepareCol n rs mask a) j =
      (if j + 1 = ms then (limbOr0 n a j).map (maskCoeff mask) else if j < ms then limbOr0 n a j else zeroP n) := by
    intro j hj
    unfold limbOr0 cnvPrepareCol
    simp only [← hms]
    rw [mapRange_getD _ _ _ _ hj]
    rfl
  have hAge : ∀ j, rs ≤ j → limbOr0 n (cnvPrepareCol n rs mask a) j = zeroP n := by
    intro j hj
    unfold limbOr0 cnvPrepareCol
    rw [mapRange_getD_ge _ _ _ _ hj]
  have hlimb : ∀ j, j < rs → (limbOr0 n (cnvPrepareCol n rs mask a) j).length = 2 ^ (K + 1) ∧
      ∀ c ∈ limbOr0 n (cnvPrepareCol n rs mask a) j, c.natAbs ≤ 2 ^ 50 - 1 ∧ |(c:ℝ)| ≤ M := by
    intro j hj
    apply hok
    unfold limbOr0
    have hjl : j < (cnvPrepareCol n rs mask a).length := by rw [hAlen]; exact hj
    have : (cnvPrepareCol n rs mask a).getD j (zeroP n) = (cnvPrepareCol n rs mask a)[j] := by
      rw [List.getD_eq_getElem?_getD, List.getElem?_eq_getElem hjl]; rfl
    rw [this]
    exact List.getElem_mem _
  have dclose : ∀ (l : Poly), l.length = 2 ^ (K + 1) → (∀ c ∈ l, c.natAbs ≤ 2 ^ 50 - 1 ∧ |(c:ℝ)| ≤ M) →
      Close (EF K τ M) (AF K M) (g l) (fwdE K (1 / 4) (packC (2 ^ K) (l.map cc))) := by
    intro l h1 h2
    obtain ⟨fc, q, _, c⟩ := dftAvx_close K omg τ M l hτ0 hτ1 hM hacc h1 h2 hr
    rw [dftOfAvx_eq K omg l (fun x hx => (h2 x hx).1)] at q
    cases q; exact c
  unfold cnvPrepare
  simp only [← hn, ← hms]
  rw [hun]
  simp only
  by_cases h0 : ms = 0
  · rw [if_pos h0]
    refine ⟨_, rfl, by simp [hAlen], ?_⟩
    intro j
    by_cases hj : j < rs
    · rw [hAj j hj, if_neg (by omega), if_neg (by omega)]
      have : (List.replicate rs (zeroVec K)).getD j (zeroVec K) = zeroVec K := by simp [List.getD, hj]
      rw [this]
      exact close_zero_limb K τ M hτ0 hM
    · have : (List.replicate rs (zeroVec K)).getD j (zeroVec K) = zeroVec K := by simp [List.getD, hj]
      rw [hAge j (by omega), this]
      exact close_zero_limb K τ M hτ0 hM
  · rw [if_neg h0]
    have hms1 : ms - 1 < rs := by omega
    have hlast := hlimb (ms - 1) hms1
    rw [hAj (ms - 1) hms1, if_pos (by omega)] at hlast
    have hd : avxOps.dft K omg ((limbOr0 n a (ms - 1)).map (maskCoeff mask)) = .ok (g ((limbOr0 n a (ms - 1)).map (maskCoeff mask))) :=
      dftOfAvx_eq K omg _ (fun x hx => (hlast.2 x hx).1)
    rw [hd]
    simp only
    refine ⟨_, rfl, by simp [hAlen], ?_⟩
    intro j
    by_cases hj : j < rs
    · rw [mapRange_getD _ _ _ _ hj]
      have hl := hlimb j hj
      rw [hAj j hj] at hl ⊢
      by_cases c1 : j + 1 = ms
      · rw [if_pos c1] at hl ⊢
        rw [if_pos c1]
        have : ms - 1 = j := by omega
        rw [this]
        exact dclose _ hl.1 hl.2
      · rw [if_neg c1] at hl ⊢
        rw [if_neg c1]
        by_cases c2 : j < ms
        · rw [if_pos c2] at hl ⊢
          rw [if_pos c2, mapRange_getD _ _ _ _ c2]
          exact dclose _ hl.1 hl.2
        · rw [if_neg c2, if_neg c2]
          exact close_zero_limb K τ M hτ0 hM
    · rw [hAge j (by omega), mapRange_getD_ge _ _ _ _ (by omega)]
      exact close_zero_limb K τ M hτ0 hM

/-- one output limb of the convolution on FFT64Avx -/
theorem cnvLimbAvx_exact (K : Nat) (iomg : Array Nat) (τ Ma Mb : ℝ) (pa pb : List (List C64)) (A B : Col) (kk : Nat)
    (hacci : AccI τ (twOf (invIdx K) iomg) K 0 0 (1 / 4))
    (hA : ∀ j, (limbOr0 (2 * 2 ^ K) A j).length = 2 ^ (K + 1)) (hB : ∀ j, (limbOr0 (2 * 2 ^ K) B j).length = 2 ^ (K + 1))
    (hra : PrepRel K τ Ma pa A) (hrb : PrepRel K τ Mb pb B)
    (hA1 : 1 ≤ A.length) (hB1 : 1 ≤ B.length)
    (hdom : ∀ R, 1 ≤ R → R ≤ min A.length B.length → LaneDomainAvx K R τ Ma Mb) :
    idftOfAvx K iomg (cnvLimb avxOps K pa pb kk) = cnvCoeff (2 * 2 ^ K) A B kk := by
  have hd1 := hdom 1 le_rfl (by omega)
  have hMa0 : (0:ℝ) ≤ Ma := by have := hd1.Ma1; linarith
  have hMb0 : (0:ℝ) ≤ Mb := by have := hd1.Mb1; linarith
  have hz : zeroVec K = List.replicate (2 ^ K) ((0:Nat), (0:Nat)) := rfl
  have hzp : zeroP (2 * 2 ^ K) = zeroP (2 ^ (K + 1)) := by rw [two_mul_pow]
  unfold cnvLimb cnvCoeff
  rw [hra.1, hrb.1]
  by_cases hge : A.length + B.length ≤ kk
  · rw [if_pos hge, if_pos hge, hz, idftAvx_zero K iomg τ Ma Mb hacci hd1, hzp]
  · rw [if_neg hge, if_neg hge]
    simp only
    set jMin := kk - (A.length - 1) with hjMin
    set jMax := min (kk + 1) B.length with hjMax
    set T := jMax - jMin with hT
    set rowsC := (List.range T).map (fun t => (pa.getD (kk - (jMin + t)) (zeroVec K), pb.getD (jMin + t) (zeroVec K))) with hrC
    set rows : List (Poly × Poly) := (List.range T).map (fun t => (limbOr0 (2 * 2 ^ K) A (kk - (jMin + t)), limbOr0 (2 * 2 ^ K) B (jMin + t))) with hrI
    have hfold : (List.range T).foldl (fun acc t =>
          List.zipWith (fun s uv => avxOps.step s uv.1 uv.2) acc ((pa.getD (kk - (jMin + t)) (zeroVec K)).zip (pb.getD (jMin + t) (zeroVec K)))) (zeroVec K) =
        rowsC.foldl (fun acc r => List.zipWith (fun s uv => caddmulLaneAvx s uv.1 uv.2) acc (r.1.zip r.2)) (List.replicate (2 ^ K) ((0:Nat), (0:Nat))) := by
      rw [hrC, List.foldl_map]; rfl
    rw [hfold]
    have hsum : sumPolys (2 * 2 ^ K) ((List.range T).map (fun t => negMul (limbOr0 (2 * 2 ^ K) A (kk - (jMin + t))) (limbOr0 (2 * 2 ^ K) B (jMin + t)))) =
        sumPolys (2 ^ (K + 1)) (rows.map (fun r => negMul r.1 r.2)) := by
      rw [hrI, List.map_map, two_mul_pow]; rfl
    rw [hsum]
    by_cases hT0 : T = 0
    · have e1 : rowsC = [] := by rw [hrC, hT0]; rfl
      have e2 : rows = [] := by rw [hrI, hT0]; rfl
      rw [e1, e2]
      simp only [List.foldl_nil, List.map_nil]
      rw [idftAvx_zero K iomg τ Ma Mb hacci hd1]; rfl
    · have hTlen : rows.length = T := by rw [hrI]; simp
      have hTle : T ≤ min A.length B.length := by omega
      apply lane_core K iomg τ Ma Mb rows rowsC hacci
      · intro r hr
        rw [hrI] at hr
        simp only [List.mem_map, List.mem_range] at hr
        obtain ⟨t, _, rfl⟩ := hr
        exact ⟨hA _, hB _⟩
      · rw [hrC, hrI, List.forall₂_map_left_iff, List.forall₂_map_right_iff, List.forall₂_same]
        intro t _
        exact ⟨hra.2 _, hrb.2 _⟩
      · rw [hTlen]; exact hdom T (by omega) hTle

/-- **`fft64avx_cnv_matches_spec`** (over the model): `cnv_prepare_left/right` + `cnv_apply_dft` + `idft` on FFT64Avx -/
theorem cnvAvx_pipeline_exact (K : Nat) (hK2 : 2 ≤ K) (omg iomg : Array Nat) (τ Ma Mb : ℝ) (rs off sl sr : Nat) (ml mr : Int)
    (a b : Col) (hacc : TableAccurate τ K omg iomg) (hsl : 1 ≤ sl) (hsr : 1 ≤ sr)
    (hrawA : ∀ j, j < min sl a.length → ∀ c ∈ limbOr0 (2 * 2 ^ K) a j, c.natAbs ≤ 2 ^ 50 - 1)
    (hrawB : ∀ j, j < min sr b.length → ∀ c ∈ limbOr0 (2 * 2 ^ K) b j, c.natAbs ≤ 2 ^ 50 - 1)
    (hA : PrepOKA K Ma (cnvPrepareCol (2 * 2 ^ K) sl ml a)) (hB : PrepOKA K Mb (cnvPrepareCol (2 * 2 ^ K) sr mr b))
    (hdom : ∀ R, 1 ≤ R → R ≤ min sl sr → LaneDomainAvx K R τ Ma Mb) :
    cnvPipeline avxOps K omg iomg rs off sl sr ml mr a b =
      .ok (cnvApplyCol (2 * 2 ^ K) rs off (cnvPrepareCol (2 * 2 ^ K) sl ml a) (cnvPrepareCol (2 * 2 ^ K) sr mr b)) := by
  have a1 := accF_of_flat τ _ K hacc.1 K 0 0 (by omega) (by norm_num)
  have a2 := accI_of_flat τ _ K hacc.2 K 0 0 (by omega) (by norm_num)
  rw [jval_zero] at a1 a2
  have hd1 := hdom 1 le_rfl (by omega)
  set A := cnvPrepareCol (2 * 2 ^ K) sl ml a with hAdef
  set B := cnvPrepareCol (2 * 2 ^ K) sr mr b with hBdef
  have hAlen : A.length = sl := by simp [hAdef, cnvPrepareCol]
  have hBlen : B.length = sr := by simp [hBdef, cnvPrepareCol]
  obtain ⟨pa, epa, rpa⟩ := cnvPrepareAvx_rel K omg τ Ma sl ml a hd1.τ0 hd1.τ1 hd1.Ma1 a1 hd1.ra hrawA hA
  obtain ⟨pb, epb, rpb⟩ := cnvPrepareAvx_rel K omg τ Mb sr mr b hd1.τ0 hd1.τ1 hd1.Mb1 a1 hd1.rb hrawB hB
  have h8 : ¬ (2 * 2 ^ K < 8) := by
    have : 2 ^ 2 ≤ 2 ^ K := Nat.pow_le_pow_right (by norm_num) hK2
    omega
  unfold cnvPipeline
  rw [epa, epb]; simp only
  unfold cnvApply
  rw [if_neg h8, if_neg (by rw [rpa.1, rpb.1, hAlen, hBlen]; omega)]
  unfold cnvApplyCol
  simp only [rpa.1, rpb.1]
  congr 1
  apply List.map_congr_left
  intro k _
  split
  · exact cnvLimbAvx_exact K iomg τ Ma Mb pa pb A B _ a2 (limbOr0_ok K Ma (by have := hd1.Ma1; linarith) A (prepOK_of_A K Ma A hA))
      (limbOr0_ok K Mb (by have := hd1.Mb1; linarith) B (prepOK_of_A K Mb B hB)) rpa rpb (by omega) (by omega)
      (by rw [hAlen, hBlen]; exact hdom)
  · rfl

/-- **FFT64Ref and FFT64Avx compute the same convolution column** inside the intersection of the two domains -/
theorem cnv_ref_avx_agree (K : Nat) (hK2 : 2 ≤ K) (omg iomg : Array Nat) (τ Ma Mb : ℝ) (rs off sl sr : Nat) (ml mr : Int)
    (a b : Col) (hacc : TableAccurate τ K omg iomg) (hsl : 1 ≤ sl) (hsr : 1 ≤ sr)
    (hrawA : ∀ j, j < min sl a.length → ∀ c ∈ limbOr0 (2 * 2 ^ K) a j, c.natAbs ≤ 2 ^ 50 - 1)
    (hrawB : ∀ j, j < min sr b.length → ∀ c ∈ limbOr0 (2 * 2 ^ K) b j, c.natAbs ≤ 2 ^ 50 - 1)
    (hA : PrepOKA K Ma (cnvPrepareCol (2 * 2 ^ K) sl ml a)) (hB : PrepOKA K Mb (cnvPrepareCol (2 * 2 ^ K) sr mr b))
    (hdomR : ∀ R, 1 ≤ R → R ≤ min sl sr → VmpDomain K R τ Ma Mb)
    (hdomA : ∀ R, 1 ≤ R → R ≤ min sl sr → LaneDomainAvx K R τ Ma Mb) :
    cnvPipeline avxOps K omg iomg rs off sl sr ml mr a b = cnvPipeline refOps K omg iomg rs off sl sr ml mr a b := by
  rw [cnvAvx_pipeline_exact K hK2 omg iomg τ Ma Mb rs off sl sr ml mr a b hacc hsl hsr hrawA hrawB hA hB hdomA,
    cnv_pipeline_exact K hK2 omg iomg τ Ma Mb rs off sl sr ml mr a b hacc hsl hsr (prepOK_of_A K Ma _ hA) (prepOK_of_A K Mb _ hB) hdomR]

end Fft64Cnv
