import Mathlib.Data.Int.ModEq
import Mathlib.Data.Nat.ModEq
import Mathlib.Tactic.Ring
import Mathlib.Tactic.Linarith
import Poulpy.Lemmas.Ntt120Crt

/-!
NTT120 lazy accumulation (`mat_vec.rs`): the 64-bit accumulators of
`vec_mat1col_product_bbc_ref` (and its x2 / 2-column twins, which run the same per-prime kernel)
never wrap for fewer than 10 000 rows, for **every** admissible split point `16 ≤ h < 32` and all
reduction constants below `2^31` (so the statement does not depend on the floating-point search of
`BbcMeta::new`), and the collapsed value is congruent to the exact dot product modulo the prime.
Likewise for the `bbb` kernel (constants below `2^30`: Primes29 / Primes30) and the lazy
add / sub / negate family (`Q_SHIFTED`).
-/

namespace Ntt120

/-! ### bit operations as arithmetic -/

theorem land_m32 (x : Nat) : x &&& m32 = x % 2 ^ 32 := by
  unfold m32; exact Nat.and_two_pow_sub_one_eq_mod x 32

theorem shr_eq (x k : Nat) : x >>> k = x / 2 ^ k := Nat.shiftRight_eq_div_pow x k

theorem maskOf_eq (h : Nat) (hh : h < 64) : maskOf h = 2 ^ h - 1 := by
  unfold maskOf subU64 wu64
  have h1 : 2 ^ h < 2 ^ 64 := Nat.pow_lt_pow_right (by decide) hh
  have h2 : 0 < 2 ^ h := Nat.two_pow_pos h
  rw [Nat.mod_eq_of_lt h1]
  omega

theorem land_maskOf (x h : Nat) (hh : h < 64) : x &&& maskOf h = x % 2 ^ h := by
  rw [maskOf_eq h hh]; exact Nat.and_two_pow_sub_one_eq_mod x h

theorem mul_u32_lt (a b : Nat) (ha : a < 2 ^ 32) (hb : b < 2 ^ 32) : a * b < 2 ^ 64 := by
  calc a * b < 2 ^ 32 * 2 ^ 32 := Nat.mul_lt_mul'' ha hb
    _ = 2 ^ 64 := by norm_num

theorem mul_u32_le (a b : Nat) (ha : a < 2 ^ 32) (hb : b < 2 ^ 32) : a * b ≤ (2 ^ 32 - 1) * (2 ^ 32 - 1) :=
  Nat.mul_le_mul (by omega) (by omega)

/-! ### (c) the bbc kernel -/

abbrev Term := Nat × Nat × Nat × Nat

def Term.u32 (t : Term) : Prop := t.1 < 2 ^ 32 ∧ t.2.1 < 2 ^ 32 ∧ t.2.2.1 < 2 ^ 32 ∧ t.2.2.2 < 2 ^ 32

/-- exact contribution of one row to the product of prime `k`: `x_lo·y_lo + x_hi·y_hi` -/
def Term.prod (t : Term) : Nat := t.1 * t.2.2.1 + t.2.1 * t.2.2.2
def Term.lo (t : Term) : Nat := t.1 * t.2.2.1 % 2 ^ 32 + t.2.1 * t.2.2.2 % 2 ^ 32
def Term.hi (t : Term) : Nat := t.1 * t.2.2.1 / 2 ^ 32 + t.2.1 * t.2.2.2 / 2 ^ 32

def sumLo (ts : List Term) : Nat := (ts.map Term.lo).sum
def sumHi (ts : List Term) : Nat := (ts.map Term.hi).sum
/-- the exact dot product `Σ (x_lo·y_lo + x_hi·y_hi)` -/
def dot (ts : List Term) : Nat := (ts.map Term.prod).sum

theorem Term.prod_split (t : Term) : t.prod = t.lo + 2 ^ 32 * t.hi := by
  unfold Term.prod Term.lo Term.hi
  have a := Nat.div_add_mod (t.1 * t.2.2.1) (2 ^ 32)
  have b := Nat.div_add_mod (t.2.1 * t.2.2.2) (2 ^ 32)
  omega

theorem dot_split (ts : List Term) : dot ts = sumLo ts + 2 ^ 32 * sumHi ts := by
  induction ts with
  | nil => rfl
  | cons t ts ih =>
    simp only [dot, sumLo, sumHi, List.map_cons, List.sum_cons] at *
    rw [ih, Term.prod_split]; ring

theorem Term.lo_lt (t : Term) : t.lo < 2 ^ 33 := by
  unfold Term.lo
  have := Nat.mod_lt (t.1 * t.2.2.1) (by decide : 0 < 2 ^ 32)
  have := Nat.mod_lt (t.2.1 * t.2.2.2) (by decide : 0 < 2 ^ 32)
  omega

theorem Term.hi_lt (t : Term) (h : t.u32) : t.hi < 2 ^ 33 := by
  unfold Term.hi
  have a := mul_u32_lt _ _ h.1 h.2.2.1
  have b := mul_u32_lt _ _ h.2.1 h.2.2.2
  omega

theorem sumLo_le (ts : List Term) : sumLo ts ≤ ts.length * 2 ^ 33 := by
  induction ts with
  | nil => simp [sumLo]
  | cons t ts ih =>
    simp only [sumLo, List.map_cons, List.sum_cons, List.length_cons] at *
    have := t.lo_lt
    rw [Nat.add_mul]; omega

theorem sumHi_le (ts : List Term) (h : ∀ t ∈ ts, t.u32) : sumHi ts ≤ ts.length * 2 ^ 33 := by
  induction ts with
  | nil => simp [sumHi]
  | cons t ts ih =>
    simp only [sumHi, List.map_cons, List.sum_cons, List.length_cons] at *
    have := t.hi_lt (h t (by simp))
    have := ih (fun t' ht' => h t' (by simp [ht']))
    rw [Nat.add_mul]; omega

/-- one `accum_mul_q120_bc` step adds the low and high 32-bit parts, without wrapping, while the
accumulators have `2^33` of head-room -/
theorem accumMulBcK_eq (s : Nat × Nat) (t : Term) (ht : t.u32) (h1 : s.1 + 2 ^ 33 ≤ 2 ^ 64) (h2 : s.2 + 2 ^ 33 ≤ 2 ^ 64) :
    accumMulBcK s t.1 t.2.1 t.2.2.1 t.2.2.2 = (s.1 + t.lo, s.2 + t.hi) := by
  unfold accumMulBcK
  have a := mul_u32_lt _ _ ht.1 ht.2.2.1
  have b := mul_u32_lt _ _ ht.2.1 ht.2.2.2
  simp only [wu64_of_lt _ a, wu64_of_lt _ b, land_m32, shr_eq]
  have hl := t.lo_lt
  have hh := t.hi_lt ht
  unfold Term.lo at hl
  unfold Term.hi at hh
  have e1 : wu64 (t.1 * t.2.2.1 % 2 ^ 32 + t.2.1 * t.2.2.2 % 2 ^ 32) = t.lo := by
    unfold Term.lo; exact wu64_of_lt _ (by omega)
  have e2 : wu64 (t.1 * t.2.2.1 / 2 ^ 32 + t.2.1 * t.2.2.2 / 2 ^ 32) = t.hi := by
    unfold Term.hi; exact wu64_of_lt _ (by omega)
  rw [e1, e2]
  have hl' := t.lo_lt
  have hh' := t.hi_lt ht
  rw [wu64_of_lt (s.1 + t.lo) (by omega), wu64_of_lt (s.2 + t.hi) (by omega)]

/-- the whole accumulation loop: exact sums, no wrap, for any number of rows that leaves head-room -/
theorem accum_fold (ts : List Term) (h : ∀ t ∈ ts, t.u32) (s : Nat × Nat)
    (h1 : s.1 + ts.length * 2 ^ 33 ≤ 2 ^ 64) (h2 : s.2 + ts.length * 2 ^ 33 ≤ 2 ^ 64) :
    ts.foldl (fun s t => accumMulBcK s t.1 t.2.1 t.2.2.1 t.2.2.2) s = (s.1 + sumLo ts, s.2 + sumHi ts) := by
  induction ts generalizing s with
  | nil => simp [sumLo, sumHi]
  | cons t ts ih =>
    rw [List.foldl_cons]
    have ht := h t (by simp)
    have hlen : (t :: ts).length * 2 ^ 33 = ts.length * 2 ^ 33 + 2 ^ 33 := by
      rw [List.length_cons, Nat.add_mul, Nat.one_mul]
    rw [hlen, ← Nat.add_assoc] at h1 h2
    have a1 : s.1 + 2 ^ 33 ≤ 2 ^ 64 := by omega
    have a2 : s.2 + 2 ^ 33 ≤ 2 ^ 64 := by omega
    rw [accumMulBcK_eq s t ht a1 a2]
    have hl := t.lo_lt
    have hh := t.hi_lt ht
    have b1 : s.1 + t.lo + ts.length * 2 ^ 33 ≤ 2 ^ 64 := by omega
    have b2 : s.2 + t.hi + ts.length * 2 ^ 33 ≤ 2 ^ 64 := by omega
    rw [ih (fun t' ht' => h t' (by simp [ht'])) (s.1 + t.lo, s.2 + t.hi) b1 b2]
    simp only [sumLo, sumHi, List.map_cons, List.sum_cons]
    congr 1 <;> omega

/-- the un-wrapped value of `accum_to_q120b` -/
def collapse (h p1 p2 s1 s2 : Nat) : Nat := s1 + s2 % 2 ^ h * p1 + s2 / 2 ^ h * p2

/-- `accum_to_q120b` does not wrap when `s1, s2 < 2^47` (fewer than `2^14` rows), `16 ≤ h < 32`,
constants below `2^31`; the value stays below `2^63 + 2^47` -/
theorem accumToQ120bK_eq (h p1 p2 : Nat) (s : Nat × Nat) (hh : 16 ≤ h) (hh2 : h < 32) (hp1 : p1 < 2 ^ 31) (hp2 : p2 < 2 ^ 31)
    (hs1 : s.1 < 2 ^ 47) (hs2 : s.2 < 2 ^ 47) :
    accumToQ120bK h p1 p2 s = collapse h p1 p2 s.1 s.2 ∧ collapse h p1 p2 s.1 s.2 < 2 ^ 63 + 2 ^ 47 := by
  unfold accumToQ120bK collapse
  simp only [land_maskOf _ h (by omega), shr_eq]
  have hl : s.2 % 2 ^ h < 2 ^ 31 := by
    have : s.2 % 2 ^ h < 2 ^ h := Nat.mod_lt _ (Nat.two_pow_pos h)
    have : 2 ^ h ≤ 2 ^ 31 := Nat.pow_le_pow_right (by decide) (by omega)
    omega
  have hhi : s.2 / 2 ^ h < 2 ^ 31 := by
    have h16 : 2 ^ 16 ≤ 2 ^ h := Nat.pow_le_pow_right (by decide) hh
    have : s.2 / 2 ^ h ≤ s.2 / 2 ^ 16 := Nat.div_le_div_left h16 (by decide)
    omega
  have m1 : s.2 % 2 ^ h * p1 < 2 ^ 62 := by
    calc s.2 % 2 ^ h * p1 < 2 ^ 31 * 2 ^ 31 := Nat.mul_lt_mul'' hl hp1
      _ = 2 ^ 62 := by norm_num
  have m2 : s.2 / 2 ^ h * p2 < 2 ^ 62 := by
    calc s.2 / 2 ^ h * p2 < 2 ^ 31 * 2 ^ 31 := Nat.mul_lt_mul'' hhi hp2
      _ = 2 ^ 62 := by norm_num
  rw [wu64_of_lt _ (by omega : s.2 % 2 ^ h * p1 < 2 ^ 64), wu64_of_lt _ (by omega : s.2 / 2 ^ h * p2 < 2 ^ 64)]
  rw [wu64_of_lt _ (by omega : s.1 + s.2 % 2 ^ h * p1 < 2 ^ 64)]
  rw [wu64_of_lt _ (by omega)]
  exact ⟨rfl, by omega⟩

/-- the collapse is congruent to `s1 + 2^32·s2` when the constants are `2^32` and `2^(32+h)` mod `q` -/
theorem collapse_modEq (q h p1 p2 s1 s2 : Nat) (e1 : p1 ≡ 2 ^ 32 [MOD q]) (e2 : p2 ≡ 2 ^ (32 + h) [MOD q]) :
    collapse h p1 p2 s1 s2 ≡ s1 + 2 ^ 32 * s2 [MOD q] := by
  unfold collapse
  have hs : s2 = s2 % 2 ^ h + 2 ^ h * (s2 / 2 ^ h) := (Nat.mod_add_div s2 (2 ^ h)).symm
  have t1 : s2 % 2 ^ h * p1 ≡ s2 % 2 ^ h * 2 ^ 32 [MOD q] := Nat.ModEq.mul_left _ e1
  have t2 : s2 / 2 ^ h * p2 ≡ s2 / 2 ^ h * 2 ^ (32 + h) [MOD q] := Nat.ModEq.mul_left _ e2
  have := (Nat.ModEq.add_left s1 t1).add t2
  have e : s1 + s2 % 2 ^ h * 2 ^ 32 + s2 / 2 ^ h * 2 ^ (32 + h) = s1 + 2 ^ 32 * (s2 % 2 ^ h + 2 ^ h * (s2 / 2 ^ h)) := by
    rw [pow_add]; ring
  rw [← hs] at e
  rw [e] at this
  exact this

/-- **`vec_mat1col_product_bbc_ref`, one prime**: for fewer than 10 000 rows of arbitrary `u32`
inputs, every split point `16 ≤ h < 32` and constants `p1 ≡ 2^32`, `p2 ≡ 2^(32+h)` below `2^31`:
no 64-bit wrap anywhere, the result is below `2^63 + 2^47`, and it is congruent to the exact dot
product `Σ (x_lo·y_lo + x_hi·y_hi)` modulo the prime -/
theorem bbcK_spec (q h p1 p2 : Nat) (ts : List Term) (hts : ∀ t ∈ ts, t.u32) (hell : ts.length < 10000)
    (hh : 16 ≤ h) (hh2 : h < 32) (hp1 : p1 < 2 ^ 31) (hp2 : p2 < 2 ^ 31)
    (e1 : p1 ≡ 2 ^ 32 [MOD q]) (e2 : p2 ≡ 2 ^ (32 + h) [MOD q]) :
    bbcK h p1 p2 ts = collapse h p1 p2 (sumLo ts) (sumHi ts) ∧
    bbcK h p1 p2 ts < 2 ^ 63 + 2 ^ 47 ∧
    bbcK h p1 p2 ts ≡ dot ts [MOD q] := by
  unfold bbcK
  have hl := sumLo_le ts
  have hhi := sumHi_le ts hts
  have hb : ts.length * 2 ^ 33 < 2 ^ 47 := by omega
  rw [accum_fold ts hts (0, 0) (by simp only []; omega) (by simp only []; omega)]
  simp only [Nat.zero_add]
  obtain ⟨ev, eb⟩ := accumToQ120bK_eq h p1 p2 (sumLo ts, sumHi ts) hh hh2 hp1 hp2 (by simp only []; omega) (by simp only []; omega)
  simp only [] at ev eb
  rw [ev]
  refine ⟨rfl, eb, ?_⟩
  rw [dot_split]
  exact collapse_modEq q h p1 p2 _ _ e1 e2

/-! ### `pow2_mod` -/

theorem pow2ModLoop_spec (fuel q result base e k : Nat) (hq : 1 < q) (he : e < 2 ^ fuel)
    (hb : base = 2 ^ k % q) :
    pow2ModLoop fuel q result base e ≡ result * 2 ^ (k * e) [MOD q] := by
  induction fuel generalizing result base e k with
  | zero =>
    have : e = 0 := by omega
    subst this; simp [pow2ModLoop]; exact Nat.ModEq.refl _
  | succ f ih =>
    unfold pow2ModLoop
    by_cases h0 : e > 0
    · simp only [h0, if_true]
      have hbb : base * base % q = 2 ^ (2 * k) % q := by
        rw [hb, ← Nat.mul_mod, ← pow_add]
        have : k + k = 2 * k := by omega
        rw [this]
      have he2 : e >>> 1 < 2 ^ f := by
        rw [Nat.shiftRight_eq_div_pow]; rw [pow_succ] at he; omega
      have hdiv : e >>> 1 = e / 2 := by rw [Nat.shiftRight_eq_div_pow, pow_one]
      have hodd : e &&& 1 = e % 2 := Nat.and_one_is_mod e
      by_cases hbit : e &&& 1 ≠ 0
      · simp only [hbit, if_true, ne_eq, not_false_eq_true]
        have := ih (result * base % q) (base * base % q) (e >>> 1) (2 * k) he2 hbb
        refine this.trans ?_
        have e1 : e = 2 * (e / 2) + 1 := by omega
        have : result * base % q * 2 ^ (2 * k * (e >>> 1)) ≡ result * 2 ^ k * 2 ^ (2 * k * (e / 2)) [MOD q] := by
          rw [hdiv]
          apply Nat.ModEq.mul_right
          rw [hb]
          exact (Nat.mod_modEq _ _).trans (Nat.ModEq.mul_left _ (Nat.mod_modEq _ _))
        refine this.trans ?_
        have hke : k * e = k + 2 * k * (e / 2) := by
          have : k * e = k * (2 * (e / 2) + 1) := by rw [← e1]
          rw [this]; ring
        rw [hke, pow_add]; ring_nf; exact Nat.ModEq.refl _
      · have hbit' : ¬ (e &&& 1 ≠ 0) := hbit
        simp only [hbit', if_false]
        have := ih result (base * base % q) (e >>> 1) (2 * k) he2 hbb
        refine this.trans ?_
        have e1 : e = 2 * (e / 2) := by omega
        rw [hdiv]
        have : 2 * k * (e / 2) = k * (2 * (e / 2)) := by ring
        rw [this, ← e1]
    · have : e = 0 := by omega
      subst this; simp; exact Nat.ModEq.refl _

/-- `pow2_mod(exp, q) = 2^exp mod q` for every `u64` exponent and modulus `q > 1` -/
theorem pow2Mod_spec (exp q : Nat) (hq : 1 < q) (he : exp < 2 ^ 64) : pow2Mod exp q ≡ 2 ^ exp [MOD q] := by
  unfold pow2Mod
  have := pow2ModLoop_spec 64 q 1 (2 % q) exp 1 hq he (by simp)
  simpa using this

/-! ### lazy add / sub / negate (`Q_SHIFTED`) -/

theorem qShifted_eq (q : Nat) (hq : q < 2 ^ 31) : qShifted q = q * 2 ^ 33 := by
  unfold qShifted; exact wu64_of_lt _ (by omega)

/-- `x % (q·2^33) ≡ x (mod q)` -/
theorem mod_qShifted_modEq (q x : Nat) : x % (q * 2 ^ 33) ≡ x [MOD q] :=
  Nat.ModEq.of_mul_right (2 ^ 33) (Nat.mod_modEq x (q * 2 ^ 33))

/-- `add_bbb_ref` / `NttAdd`: for a prime below `2^30` (Primes29, Primes30) the sum of the two
reduced operands does not wrap, is below `2·Q_SHIFTED`, and is congruent to `x + y` -/
theorem addBbbK_spec (q x y : Nat) (hq0 : 0 < q) (hq : q < 2 ^ 30) :
    addBbbK q x y = x % (q * 2 ^ 33) + y % (q * 2 ^ 33) ∧ addBbbK q x y < 2 * (q * 2 ^ 33) ∧ addBbbK q x y ≡ x + y [MOD q] := by
  unfold addBbbK
  rw [qShifted_eq q (by omega)]
  have hx := Nat.mod_lt x (by omega : 0 < q * 2 ^ 33)
  have hy := Nat.mod_lt y (by omega : 0 < q * 2 ^ 33)
  rw [wu64_of_lt _ (by omega)]
  exact ⟨rfl, by omega, (mod_qShifted_modEq q x).add (mod_qShifted_modEq q y)⟩

/-- `NttSub`: `a % q_s + (q_s − b % q_s)`, in `(0, 2·Q_SHIFTED)`, congruent to `a − b` -/
theorem subBbbK_spec (q a b : Nat) (hq0 : 0 < q) (hq : q < 2 ^ 30) :
    subBbbK q a b = a % (q * 2 ^ 33) + (q * 2 ^ 33 - b % (q * 2 ^ 33)) ∧ subBbbK q a b < 2 * (q * 2 ^ 33) ∧
    subBbbK q a b + b ≡ a [MOD q] := by
  unfold subBbbK subU64
  rw [qShifted_eq q (by omega)]
  have hx := Nat.mod_lt a (by omega : 0 < q * 2 ^ 33)
  have hy := Nat.mod_lt b (by omega : 0 < q * 2 ^ 33)
  have e : (q * 2 ^ 33 + (2 ^ 64 - b % (q * 2 ^ 33) % 2 ^ 64)) % 2 ^ 64 = q * 2 ^ 33 - b % (q * 2 ^ 33) := by omega
  rw [e, wu64_of_lt _ (by omega)]
  refine ⟨rfl, by omega, ?_⟩
  have hb := mod_qShifted_modEq q b
  have ha := mod_qShifted_modEq q a
  have : a % (q * 2 ^ 33) + (q * 2 ^ 33 - b % (q * 2 ^ 33)) + b % (q * 2 ^ 33) = a % (q * 2 ^ 33) + q * 2 ^ 33 := by omega
  have h1 : a % (q * 2 ^ 33) + (q * 2 ^ 33 - b % (q * 2 ^ 33)) + b ≡ a % (q * 2 ^ 33) + (q * 2 ^ 33 - b % (q * 2 ^ 33)) + b % (q * 2 ^ 33) [MOD q] :=
    Nat.ModEq.add_left _ hb.symm
  rw [this] at h1
  refine h1.trans ?_
  have : a % (q * 2 ^ 33) + q * 2 ^ 33 ≡ a % (q * 2 ^ 33) + 0 [MOD q] :=
    Nat.ModEq.add_left _ ((Nat.modEq_zero_iff_dvd).mpr ⟨2 ^ 33, rfl⟩)
  exact this.trans ha

/-- `NttNegate`: `q_s − a % q_s`, in `(0, Q_SHIFTED]`, congruent to `−a` -/
theorem negBK_spec (q a : Nat) (hq0 : 0 < q) (hq : q < 2 ^ 30) :
    negBK q a = q * 2 ^ 33 - a % (q * 2 ^ 33) ∧ 0 < negBK q a ∧ negBK q a ≤ q * 2 ^ 33 ∧ negBK q a + a ≡ 0 [MOD q] := by
  have h := subBbbK_spec q 0 a hq0 hq
  have e : negBK q a = subBbbK q 0 a := by
    unfold negBK subBbbK
    rw [qShifted_eq q (by omega)]
    have hy := Nat.mod_lt a (by omega : 0 < q * 2 ^ 33)
    have : 0 % (q * 2 ^ 33) = 0 := Nat.zero_mod _
    rw [this, Nat.zero_add]
    unfold subU64 wu64; omega
  rw [e]
  have hy := Nat.mod_lt a (by omega : 0 < q * 2 ^ 33)
  have h0 : 0 % (q * 2 ^ 33) = 0 := Nat.zero_mod _
  rw [h0, Nat.zero_add] at h
  exact ⟨h.1, by omega, by omega, h.2.2⟩

/-- the AVX2 kernels' single conditional subtraction equals `% Q_SHIFTED` exactly on the
documented input range `x < 2·Q_SHIFTED` -/
theorem lazyReduceAvx_eq (q x : Nat) (hq0 : 0 < q) (hq : q < 2 ^ 30) (hx : x < 2 * (q * 2 ^ 33)) :
    lazyReduceAvx q x = x % qShifted q := by
  unfold lazyReduceAvx subU64
  rw [qShifted_eq q (by omega)]
  split
  · rename_i hge
    have : x % (q * 2 ^ 33) = x - q * 2 ^ 33 := by
      rw [Nat.mod_eq_sub_mod hge, Nat.mod_eq_of_lt (by omega)]
    rw [this]; omega
  · rename_i hlt
    rw [Nat.mod_eq_of_lt (by omega)]

theorem addBbbAvxK_eq (q x y : Nat) (hq0 : 0 < q) (hq : q < 2 ^ 30) (hx : x < 2 * (q * 2 ^ 33)) (hy : y < 2 * (q * 2 ^ 33)) :
    addBbbAvxK q x y = addBbbK q x y := by
  unfold addBbbAvxK addBbbK
  rw [lazyReduceAvx_eq q x hq0 hq hx, lazyReduceAvx_eq q y hq0 hq hy]

theorem subBbbAvxK_eq (q x y : Nat) (hq0 : 0 < q) (hq : q < 2 ^ 30) (hx : x < 2 * (q * 2 ^ 33)) (hy : y < 2 * (q * 2 ^ 33)) :
    subBbbAvxK q x y = subBbbK q x y := by
  unfold subBbbAvxK subBbbK
  rw [lazyReduceAvx_eq q x hq0 hq hx, lazyReduceAvx_eq q y hq0 hq hy]

theorem negBAvxK_eq (q x : Nat) (hq0 : 0 < q) (hq : q < 2 ^ 30) (hx : x < 2 * (q * 2 ^ 33)) :
    negBAvxK q x = negBK q x := by
  unfold negBAvxK negBK
  rw [lazyReduceAvx_eq q x hq0 hq hx]

/-! ### `modq_red`, `split_precompmul` -/

/-- `modq_red` with `cst ≡ 2^h`: congruent to the input; no wrap when `x < 2^bs`, `cst < 2^31`,
`bs ≤ 64`, `bs − h + 31 ≤ 63`, `h ≤ 63` -/
theorem modqRed_spec (q x h cst : Nat) (hh : h < 64) (hc : cst < 2 ^ 31) (hx : x < 2 ^ 64) (hroom : 33 ≤ h)
    (e : cst ≡ 2 ^ h [MOD q]) :
    modqRed x h (2 ^ h - 1) cst = x % 2 ^ h + x / 2 ^ h * cst ∧ modqRed x h (2 ^ h - 1) cst ≡ x [MOD q] := by
  unfold modqRed
  rw [Nat.and_two_pow_sub_one_eq_mod, shr_eq]
  have h1 : x % 2 ^ h < 2 ^ h := Nat.mod_lt _ (Nat.two_pow_pos h)
  have h2 : 2 ^ h ≤ 2 ^ 63 := Nat.pow_le_pow_right (by decide) (by omega)
  have h3 : x / 2 ^ h < 2 ^ 31 := by
    have h33 : 2 ^ 33 ≤ 2 ^ h := Nat.pow_le_pow_right (by decide) hroom
    have : x / 2 ^ h ≤ x / 2 ^ 33 := Nat.div_le_div_left h33 (by decide)
    omega
  have m : x / 2 ^ h * cst < 2 ^ 62 := by
    calc x / 2 ^ h * cst < 2 ^ 31 * 2 ^ 31 := Nat.mul_lt_mul'' h3 hc
      _ = 2 ^ 62 := by norm_num
  rw [wu64_of_lt _ (by omega : x / 2 ^ h * cst < 2 ^ 64), wu64_of_lt _ (by omega)]
  refine ⟨rfl, ?_⟩
  have hs : x = x % 2 ^ h + 2 ^ h * (x / 2 ^ h) := (Nat.mod_add_div x (2 ^ h)).symm
  have t : x / 2 ^ h * cst ≡ x / 2 ^ h * 2 ^ h [MOD q] := Nat.ModEq.mul_left _ e
  have := Nat.ModEq.add_left (x % 2 ^ h) t
  refine this.trans ?_
  have : x % 2 ^ h + x / 2 ^ h * 2 ^ h = x % 2 ^ h + 2 ^ h * (x / 2 ^ h) := by ring
  rw [this, ← hs]

/-- `split_precompmul`: with `po = (t1 << 32) | t`, `t1 ≡ t·2^half_bs`, both below `2^31`, `half_bs ≤ 32` and an
input of at most `2·half_bs` bits, the result is `inp_low·t + inp_high·t1` without wrap (it is below
`2^(half_bs+33)`), congruent to `inp·t` -/
theorem splitPrecompmul_spec (q inp t t1 hb : Nat) (ht : t < 2 ^ 31) (ht1 : t1 < 2 ^ 31) (hhb : hb ≤ 32)
    (hinp : inp < 2 ^ (2 * hb)) (e : t1 ≡ t * 2 ^ hb [MOD q]) :
    splitPrecompmul inp (t1 * 2 ^ 32 + t) hb (2 ^ hb - 1) = inp % 2 ^ hb * t + inp / 2 ^ hb * t1 ∧
    splitPrecompmul inp (t1 * 2 ^ 32 + t) hb (2 ^ hb - 1) ≡ inp * t [MOD q] := by
  unfold splitPrecompmul
  have em : (0xFFFFFFFF : Nat) = 2 ^ 32 - 1 := by norm_num
  simp only [em, Nat.and_two_pow_sub_one_eq_mod, shr_eq]
  have et : (t1 * 2 ^ 32 + t) % 2 ^ 32 = t := by omega
  have et1 : (t1 * 2 ^ 32 + t) / 2 ^ 32 = t1 := by omega
  rw [et, et1]
  have hpos : 0 < 2 ^ hb := Nat.two_pow_pos hb
  have h1 : inp % 2 ^ hb < 2 ^ hb := Nat.mod_lt _ hpos
  have h2 : inp / 2 ^ hb < 2 ^ hb := by
    rw [Nat.div_lt_iff_lt_mul hpos, ← pow_add]
    have : hb + hb = 2 * hb := by ring
    rw [this]; exact hinp
  have hle : 2 ^ hb ≤ 2 ^ 32 := Nat.pow_le_pow_right (by decide) hhb
  have m1 : inp % 2 ^ hb * t < 2 ^ 63 := by
    calc inp % 2 ^ hb * t < 2 ^ 32 * 2 ^ 31 := Nat.mul_lt_mul'' (by omega) ht
      _ = 2 ^ 63 := by norm_num
  have m2 : inp / 2 ^ hb * t1 < 2 ^ 63 := by
    calc inp / 2 ^ hb * t1 < 2 ^ 32 * 2 ^ 31 := Nat.mul_lt_mul'' (by omega) ht1
      _ = 2 ^ 63 := by norm_num
  rw [wu64_of_lt _ (by omega : inp % 2 ^ hb * t < 2 ^ 64), wu64_of_lt _ (by omega : inp / 2 ^ hb * t1 < 2 ^ 64),
    wu64_of_lt _ (by omega)]
  refine ⟨rfl, ?_⟩
  have hs : inp = inp % 2 ^ hb + 2 ^ hb * (inp / 2 ^ hb) := (Nat.mod_add_div inp (2 ^ hb)).symm
  have tt : inp / 2 ^ hb * t1 ≡ inp / 2 ^ hb * (t * 2 ^ hb) [MOD q] := Nat.ModEq.mul_left _ e
  have := Nat.ModEq.add_left (inp % 2 ^ hb * t) tt
  refine this.trans ?_
  have : inp % 2 ^ hb * t + inp / 2 ^ hb * (t * 2 ^ hb) = (inp % 2 ^ hb + 2 ^ hb * (inp / 2 ^ hb)) * t := by ring
  rw [this, ← hs]

end Ntt120
