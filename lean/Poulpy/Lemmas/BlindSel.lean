import Poulpy.Model.BlindSel
import Mathlib.Tactic.Ring
import Mathlib.Tactic.Positivity

namespace BlindSel

theorem val_lt : ∀ bs : List Bool, val bs < 2 ^ bs.length := by
  intro bs
  induction bs with
  | nil => simp [val]
  | cons b rest ih =>
    simp only [val, List.length_cons, pow_succ]
    split <;> omega

theorem level_length {V : Type} (cs : Bool → V → V → V × V) (t : Nat) (b : Bool) (a : List V) :
    (level cs t b a).length = a.length := by simp [level]

theorem fwd_length {V : Type} (cs : Bool → V → V → V × V) : ∀ (bs : List Bool) (a : List V), (fwd cs bs a).length = a.length := by
  intro bs
  induction bs with
  | nil => intro a; rfl
  | cons b rest ih => intro a; simp only [fwd]; rw [ih, level_length]

/-- the `Cswap` contract (C04): swap iff the selector bit is 1 -/
def CswapContract {V : Type} (cs : Bool → V → V → V × V) : Prop := ∀ b x y, cs b x y = if b then (y, x) else (x, y)

theorem level_low {V : Type} (cs : Bool → V → V → V × V) (hcs : CswapContract cs) (t : Nat) (b : Bool) (a : List V)
    (p : Nat) (hp : p < t) (hpl : p < a.length) (hb : b = true → p + t < a.length) :
    (level cs t b a)[p]? = if b then a[p + t]? else a[p]? := by
  unfold level
  rw [List.getElem?_mapIdx, List.getElem?_eq_getElem hpl]
  simp only [Option.map_some, hp, if_true]
  cases b
  · simp only [Bool.false_eq_true, if_false]
    cases a[p + t]? <;> simp [hcs false]
  · have h := hb rfl
    rw [List.getElem?_eq_getElem h]
    simp [hcs true]

/-- **forward pass**: the element addressed by the bit list ends up in position 0 -/
theorem fwd_get0 {V : Type} (cs : Bool → V → V → V × V) (hcs : CswapContract cs) :
    ∀ (bs : List Bool) (a : List V), val bs < a.length → (fwd cs bs a)[0]? = a[val bs]? := by
  intro bs
  induction bs with
  | nil => intro a _; simp [fwd, val]
  | cons b rest ih =>
    intro a h
    have hr := val_lt rest
    simp only [fwd]
    have hrl : val rest < a.length := by simp only [val] at h; omega
    rw [ih _ (by rw [level_length]; exact hrl)]
    rw [level_low cs hcs _ b a (val rest) hr hrl (by intro hb; subst hb; simp only [val, if_true] at h; omega)]
    cases b
    · simp [val]
    · simp only [val, if_true]; congr 1; omega

theorem level_get {V : Type} (cs : Bool → V → V → V × V) (hcs : CswapContract cs) (t : Nat) (b : Bool) (a : List V)
    (p : Nat) (hpl : p < a.length) :
    (level cs t b a)[p]? =
      if b = true ∧ p < t ∧ p + t < a.length then a[p + t]?
      else if b = true ∧ t ≤ p ∧ p < 2 * t then a[p - t]?
      else a[p]? := by
  have hcs' : ∀ b x y, cs b x y = if b then (y, x) else (x, y) := hcs
  unfold level
  rw [List.getElem?_mapIdx, List.getElem?_eq_getElem hpl]
  simp only [Option.map_some]
  by_cases h1 : p < t
  · simp only [h1, if_true]
    by_cases h2 : p + t < a.length
    · rw [List.getElem?_eq_getElem h2]
      cases b <;> simp [hcs', h1, h2]
    · rw [List.getElem?_eq_none (by omega)]
      have : ¬ (t ≤ p) := by omega
      simp [h2, this]
  · simp only [h1, if_false]
    by_cases h2 : p < 2 * t
    · have h3 : p - t < a.length := by omega
      rw [if_pos h2, List.getElem?_eq_getElem h3]
      have : t ≤ p := by omega
      cases b <;> simp [hcs', h1, h2, this]
    · simp [h1, h2]

theorem level_involutive {V : Type} (cs : Bool → V → V → V × V) (hcs : CswapContract cs) (t : Nat) (b : Bool) (a : List V) :
    level cs t b (level cs t b a) = a := by
  apply List.ext_getElem?
  intro p
  by_cases hp : p < a.length
  · have hl := level_length cs t b a
    rw [level_get cs hcs t b _ p (by rw [hl]; exact hp), hl]
    cases b
    · simp only [Bool.false_eq_true, false_and, if_false]
      rw [level_get cs hcs t false a p hp]; simp
    · by_cases h1 : p < t ∧ p + t < a.length
      · rw [if_pos ⟨by simp, h1⟩, level_get cs hcs t true a (p + t) h1.2]
        have : ¬ (p + t < t) := by omega
        simp only [this, false_and, and_false, if_false]
        rw [if_pos ⟨by simp, by omega, by omega⟩]
        congr 1; omega
      · rw [if_neg (by intro h; exact h1 h.2)]
        by_cases h2 : t ≤ p ∧ p < 2 * t
        · rw [if_pos ⟨by simp, h2⟩, level_get cs hcs t true a (p - t) (by omega)]
          rw [if_pos ⟨by simp, by omega, by omega⟩]
          congr 1; omega
        · rw [if_neg (by intro h; exact h2 h.2)]
          rw [level_get cs hcs t true a p hp, if_neg (by intro h; exact h1 h.2), if_neg (by intro h; exact h2 h.2)]
  · rw [List.getElem?_eq_none (by rw [level_length, level_length]; omega), List.getElem?_eq_none (by omega)]

/-- **reverse pass undoes the forward pass**, whatever the index (in range or not) -/
theorem rev_fwd {V : Type} (cs : Bool → V → V → V × V) (hcs : CswapContract cs) :
    ∀ (bs : List Bool) (a : List V), rev cs bs (fwd cs bs a) = a := by
  intro bs
  induction bs with
  | nil => intro a; rfl
  | cons b rest ih =>
    intro a
    simp only [fwd, rev]
    rw [ih, level_involutive cs hcs]

/-- the `cmux_assign` contract (C04) -/
def CmuxContract {V : Type} (cm : Bool → V → V → V) : Prop := ∀ b t f, cm b t f = if b then t else f

theorem select_spec {V : Type} (cm : Bool → V → V → V) (hcm : CmuxContract cm) (zero : V) :
    ∀ (bs : List Bool) (a : Nat → Option V), select cm zero bs a = (a (val bs)).getD zero := by
  intro bs
  induction bs with
  | nil => intro a; simp [select, val]
  | cons b rest ih =>
    intro a
    have hr := val_lt rest
    have hcm' : ∀ b t f, cm b t f = if b then t else f := hcm
    simp only [select]
    rw [ih]
    simp only [selLevel, hr, if_true, val]
    cases b
    · simp only [Bool.false_eq_true, if_false, Nat.zero_add]
      cases a (val rest + 2 ^ rest.length) <;> cases a (val rest) <;> simp [hcm']
    · simp only [if_true]
      have e : 2 ^ rest.length + val rest = val rest + 2 ^ rest.length := by omega
      rw [e]
      cases a (val rest + 2 ^ rest.length) <;> cases a (val rest) <;> simp [hcm']

theorem bitsMSB_succ (idx rsh m : Nat) : bitsMSB idx rsh (m + 1) = idx.testBit (rsh + m) :: bitsMSB idx rsh m := by
  unfold bitsMSB
  rw [List.range_succ_eq_map]
  simp only [List.map_cons, List.map_map]
  congr 1
  apply List.map_congr_left
  intro i hi
  simp only [Function.comp]
  congr 1; omega

theorem bitsMSB_length (idx rsh m : Nat) : (bitsMSB idx rsh m).length = m := by simp [bitsMSB]

/-- the bit list of the field `[rsh, rsh+m)` has the field's value -/
theorem val_bitsMSB (idx rsh : Nat) : ∀ m, val (bitsMSB idx rsh m) = (idx >>> rsh) % 2 ^ m := by
  intro m
  induction m with
  | zero => simp [bitsMSB, val, Nat.mod_one]
  | succ m ih =>
    rw [bitsMSB_succ, val, ih, bitsMSB_length, Nat.mod_pow_succ]
    have ht : idx.testBit (rsh + m) = (idx >>> rsh).testBit m := by
      rw [Nat.testBit_shiftRight]
    rw [ht, Nat.testBit_eq_decide_div_mod_eq]
    have h2 := Nat.mod_two_eq_zero_or_one (idx >>> rsh / 2 ^ m)
    rcases h2 with h | h <;> simp [h] <;> omega


/-! ### `glwe_blind_rotation(_assign)`: the ping-pong loop -/

/-- value of the `mask`-bit field starting at bit `rsh` -/
def fieldVal (bit : Nat → Bool) (rsh : Nat) : Nat → Nat
  | 0 => 0
  | k + 1 => fieldVal bit rsh k + (if bit (k + rsh) then 2 ^ k else 0)

theorem fieldVal_testBit (idx rsh mask : Nat) :
    fieldVal (fun k => idx.testBit k) rsh mask = (idx >>> rsh) % 2 ^ mask := by
  induction mask with
  | zero => simp [fieldVal, Nat.mod_one]
  | succ k ih =>
    rw [fieldVal, ih, Nat.mod_pow_succ]
    have : idx.testBit (k + rsh) = ((idx >>> rsh).testBit k) := by
      rw [Nat.testBit_shiftRight, Nat.add_comm]
    rw [this, Nat.testBit_eq_decide_div_mod_eq]
    rcases Nat.mod_two_eq_zero_or_one (idx >>> rsh / 2 ^ k) with h | h <;> simp [h]

/-- the signed amount: `+v·2^lsh` for `sign = true` -/
def signedAmt (sign : Bool) (v lsh : Nat) : Int := if sign then ((v * 2 ^ lsh : Nat) : Int) else -((v * 2 ^ lsh : Nat) : Int)

theorem brFold_inv {P : Type} (rot : Int → P → P) (cm : Bool → P → P → P)
    (hadd : ∀ p q x, rot p (rot q x) = rot (q + p) x)
    (hzero : ∀ x, rot 0 x = x)
    (hcm : ∀ b x y, cm b x y = if b then x else y)
    (sign : Bool) (bit : Nat → Bool) (rsh lsh : Nat) (res tmp0 : P) (k : Nat) :
    let st := (List.range k).foldl (brStep rot cm sign bit rsh lsh) { res := res, tmp := tmp0, aIsRes := true }
    st.aIsRes = decide (k % 2 = 0) ∧
    (if st.aIsRes then st.res else st.tmp) = rot (signedAmt sign (fieldVal bit rsh k) lsh) res := by
  induction k with
  | zero => simp [signedAmt, fieldVal, hzero]
  | succ k ih =>
    rw [List.range_succ, List.foldl_append]
    simp only [List.foldl_cons, List.foldl_nil]
    generalize (List.range k).foldl (brStep rot cm sign bit rsh lsh) { res := res, tmp := tmp0, aIsRes := true } = st at ih ⊢
    obtain ⟨hp, hv⟩ := ih
    have hval : cm (bit (k + rsh)) (rot (if sign then 2 ^ (k + lsh) else -(2 ^ (k + lsh))) (if st.aIsRes then st.res else st.tmp))
        (if st.aIsRes then st.res else st.tmp) = rot (signedAmt sign (fieldVal bit rsh (k + 1)) lsh) res := by
      rw [hcm, hv]
      by_cases hb : bit (k + rsh) = true
      · rw [if_pos hb, hadd]
        congr 1
        simp only [signedAmt, fieldVal, if_pos hb]
        cases sign <;> simp <;> ring
      · rw [if_neg hb]
        simp only [signedAmt, fieldVal, if_neg hb, Nat.add_zero]
    unfold brStep
    by_cases ha : st.aIsRes = true
    · simp only [ha, if_true] at hval hp ⊢
      refine ⟨?_, hval⟩
      have : k % 2 = 0 := by simpa using hp.symm
      simp; omega
    · have ha' : st.aIsRes = false := by simpa using ha
      simp only [ha'] at hval hp ⊢
      refine ⟨?_, by simpa using hval⟩
      have : ¬ k % 2 = 0 := by simpa using hp.symm
      simp; omega

end BlindSel
