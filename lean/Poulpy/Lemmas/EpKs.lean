import Poulpy.Lemmas.EpBridge
import Poulpy.Props.C07

/-!
`glwe_external_product_internal` (executed model `Core.epInternal`) computes exactly what
`gglwe_product_dft` (`Ks.gglweProductDft`, the C03 model) computes on the GGSW seen as a key:
the only difference between the two Rust loops — the external product does not clamp the digit
buffer to `dnum` rows — is immaterial because the vector-matrix product reads at most `dnum` rows
(`C07.vmp_row_truncation`).  All theorems of C03 about the product therefore hold for the external
product, for every digit size.
-/

namespace Core
open Hal Ks

/-- the prepared GGSW as a key-switching key (`rank+1` input columns) -/
def EpGGSW.toKey (g : EpGGSW) : Ks.Key := { base2k := g.base2k, dsize := g.dsize, p := 0, mat := g.toPMat }

theorem dftApplyCol_getD_clamp (n st off rs rs' : Nat) (a : Col) (j : Nat) (hj : j < rs') (hle : rs' ≤ rs) :
    (dftApplyCol n st off rs a).getD j (zeroP n) = (dftApplyCol n st off rs' a).getD j (zeroP n) := by
  unfold dftApplyCol
  rw [mapRange_getD _ _ _ _ (by omega), mapRange_getD _ _ _ _ hj]
  have hj' : j < rs := by omega
  by_cases h : j < (a.length + st - 1) / st
  · have h1 : j < min rs ((a.length + st - 1) / st) := by omega
    have h2 : j < min rs' ((a.length + st - 1) / st) := by omega
    simp only [h1, h2, if_true]
  · have h1 : ¬ j < min rs ((a.length + st - 1) / st) := by omega
    have h2 : ¬ j < min rs' ((a.length + st - 1) / st) := by omega
    simp only [h1, h2, if_false]

/-- flat view of the digit buffer of the external product in one pass (no clamp) -/
theorem epAi_flat (n cols M s step off : Nat) (a : Buf) (hs : s ≤ M) :
    (dftApplyAll step off { mkBuf n cols M (zeroCols n cols M) with size := s } a).flat =
      (List.range (s * cols)).map (fun r => limbOr0 n (dftApplyCol n step off s (a.act (r % cols))) (r / cols)) := by
  have hz : shapeOk n cols M (zeroCols n cols M) = true := by
    unfold shapeOk zeroCols
    simp [Hal.zeroP]
  have sz := (mkBuf_shape n cols M _ hz).1
  have hwf : ({ mkBuf n cols M (zeroCols n cols M) with size := s } : Buf).WF := ⟨sz.1.1, hs, sz.1.2.2⟩
  have h := foldl_setActG (fun n' s' c => dftApplyCol n' step off s' (a.act c)) (List.range cols)
    { mkBuf n cols M (zeroCols n cols M) with size := s } hwf List.nodup_range (fun c hc => List.mem_range.mp hc) (by intro c; simp)
  simp only at h
  have hfold : dftApplyAll step off { mkBuf n cols M (zeroCols n cols M) with size := s } a
      = (List.range cols).foldl (fun (acc : Buf) c => acc.setAct c (dftApplyCol acc.n step off acc.size (a.act c)))
          { mkBuf n cols M (zeroCols n cols M) with size := s } := rfl
  rw [hfold]
  unfold Buf.flat
  rw [h.2.1, h.2.2.1, h.2.2.2.1]
  apply List.map_congr_left
  intro r hr
  have hr' : r < s * cols := by simpa [mkBuf] using List.mem_range.mp hr
  have hcpos : 0 < cols := by
    rcases Nat.eq_zero_or_pos cols with h0 | h0
    · rw [h0] at hr'; simp at hr'
    · exact h0
  have hc : r % cols < cols := Nat.mod_lt _ hcpos
  have hcol := h.2.2.2.2 (r % cols)
  rw [if_pos (List.mem_range.mpr hc)] at hcol
  show limbOr0 n _ (r / cols) = limbOr0 n _ (r / cols)
  exact congrArg (fun x => limbOr0 n x (r / cols)) hcol

/-- the clamp of the digit buffer to `dnum` rows does not change the vector-matrix product -/
theorem vmpFlat_clamp (a : Buf) (key : Key) (n di lo len : Nat) (hc : a.cols = key.mat.colsIn) :
    vmpFlat n ((List.range ((a.size + di) / key.dsize * a.cols)).map (fun r =>
        limbOr0 n (dftApplyCol n key.dsize (key.dsize - di - 1) ((a.size + di) / key.dsize) (a.act (r % a.cols))) (r / a.cols)))
      key.mat lo len = vmpFlat n (aiFlatOf a key n di) key.mat lo len := by
  rw [C07.vmp_row_truncation, C07.vmp_row_truncation n (aiFlatOf a key n di)]
  congr 1
  unfold aiFlatOf aiSize
  rw [← List.map_take, ← List.map_take, List.take_range, List.take_range, ← hc]
  have hm1 : min (a.cols * key.mat.rows) ((a.size + di) / key.dsize * a.cols)
      = min ((a.size + di) / key.dsize) key.mat.rows * a.cols := by
    rw [Nat.mul_comm a.cols, Nat.min_comm, Nat.mul_min_mul_right]
  have hm2 : min (a.cols * key.mat.rows) (min ((a.size + di) / key.dsize) key.mat.rows * a.cols)
      = min ((a.size + di) / key.dsize) key.mat.rows * a.cols := by
    rw [Nat.mul_comm a.cols]
    have : min ((a.size + di) / key.dsize) key.mat.rows * a.cols ≤ key.mat.rows * a.cols :=
      Nat.mul_le_mul_right _ (Nat.min_le_right _ _)
    omega
  rw [hm1, hm2]
  apply List.map_congr_left
  intro r hr
  have hr' : r < min ((a.size + di) / key.dsize) key.mat.rows * a.cols := List.mem_range.mp hr
  have hpos : 0 < a.cols := by
    rcases Nat.eq_zero_or_pos a.cols with h0 | h0
    · rw [h0] at hr'; simp at hr'
    · exact h0
  have hq : r / a.cols < min ((a.size + di) / key.dsize) key.mat.rows := (Nat.div_lt_iff_lt_mul hpos).mpr hr'
  exact dftApplyCol_getD_clamp n _ _ _ _ _ _ hq (Nat.min_le_left _ _)

/-- the digit buffer of the external product, pass `di` -/
def epAi (a : Buf) (g : EpGGSW) (aSize di : Nat) : Buf :=
  dftApplyAll g.dsize (g.dsize - 1 - di)
    { mkBuf g.n (g.rank + 1) ((aSize + g.dsize - 1) / g.dsize) (zeroCols g.n (g.rank + 1) ((aSize + g.dsize - 1) / g.dsize))
      with size := (aSize + di) / g.dsize } a

/-- both loops feed the same vector to the vector-matrix product -/
theorem ai_vmp_eq (a : Buf) (g : EpGGSW) (st : ProdSt) (R : Buf) (di lo len : Nat) (hdi : di < g.dsize)
    (ha : a.cols = g.rank + 1) (hs : Shapes R a g.toKey st) (hRn : R.n = g.n) :
    vmpFlat g.n (epAi a g a.size di).flat g.toPMat lo len = vmpFlat g.n (aiStep a g.toKey st di).flat g.toPMat lo len := by
  have hle : (a.size + di) / g.dsize ≤ (a.size + g.dsize - 1) / g.dsize :=
    Nat.div_le_div_right (by omega)
  unfold epAi
  rw [epAi_flat g.n (g.rank + 1) _ _ g.dsize (g.dsize - 1 - di) a hle]
  have sp := aiStep_spec a g.toKey st di hs.awf hs.acols (by rw [hs.amax]; exact aiSize_le a g.toKey di hdi)
  rw [sp.2.2.2.2, hs.an, hRn]
  have e : g.dsize - 1 - di = g.dsize - di - 1 := by omega
  rw [e, ← ha]
  exact vmpFlat_clamp a g.toKey g.n di lo len ha

/-- **one pass of the external-product loop = one pass of `gglwe_product_dft`** on equal `res` / `tmp` buffers -/
theorem pass_eq (a : Buf) (g : EpGGSW) (st : ProdSt) (R : Buf) (di : Nat) (hdi : di < g.dsize)
    (ha : a.cols = g.rank + 1) (hs : Shapes R a g.toKey st) (hRn : R.n = g.n) (hRc : R.cols = g.rank + 1) :
    epDigitPass a g a.size (st.res, st.tmp) di
      = ((productStep a g.toKey st di).res, (productStep a g.toKey st di).tmp) := by
  have hrn : st.res.n = g.n := hs.rn.trans hRn
  have htn : st.tmp.n = g.n := hs.tn.trans hRn
  have hrc : st.res.cols = g.rank + 1 := hs.rcols.trans hRc
  have htc : st.tmp.cols = g.rank + 1 := hs.tcols.trans hRc
  by_cases h0 : di = 0
  · subst h0
    rw [productStep_zero_eq]
    have hps : passSize g.toKey 0 = g.size - (g.dsize - 0 - 2) := rfl
    have hv : opVmp (resize st.res (passSize g.toKey 0)) (epAi a g a.size 0) g.toPMat 0
        = opVmp (resize st.res (passSize g.toKey 0)) (aiStep a g.toKey st 0) g.toKey.mat 0 := by
      unfold opVmp
      simp only [resize_n, hrn]
      rw [ai_vmp_eq a g st R 0 0 _ hdi ha hs hRn]
      rfl
    have hwf : (resize st.res (passSize g.toKey 0)).WF :=
      resize_WF _ _ hs.rwf (by rw [hs.rmax]; exact passSize_le g.toKey 0)
    have hsz := (opVmp_spec (resize st.res (passSize g.toKey 0)) (aiStep a g.toKey st 0) g.toKey.mat 0 hwf).2.2.1
    unfold epDigitPass
    simp only [if_true]
    apply Prod.ext
    · show zeroTail (opVmp (resize st.res (passSize g.toKey 0)) (epAi a g a.size 0) g.toPMat 0) (passSize g.toKey 0) g.size = _
      rw [hv, hsz]
      rfl
    · rfl
  · rw [productStep_pos_eq a g.toKey st di h0]
    have hv : opVmp (resize st.tmp (passSize g.toKey di)) (epAi a g a.size di) g.toPMat di
        = opVmp (resize st.tmp (passSize g.toKey di)) (aiStep a g.toKey st di) g.toKey.mat di := by
      unfold opVmp
      simp only [resize_n, htn]
      rw [ai_vmp_eq a g st R di di _ hdi ha hs hRn]
      rfl
    unfold epDigitPass
    simp only [if_neg h0]
    apply Prod.ext
    · show dftAddAssignAll (resize st.res (passSize g.toKey di))
          (opVmp (resize st.tmp (passSize g.toKey di)) (epAi a g a.size di) g.toPMat di) = _
      rw [hv]
      rfl
    · show opVmp (resize st.tmp (passSize g.toKey di)) (epAi a g a.size di) g.toPMat di = _
      rw [hv]

/-- the two loops agree after any number of passes -/
theorem loop_eq (a : Buf) (g : EpGGSW) (st0 : ProdSt) (R : Buf) (ha : a.cols = g.rank + 1)
    (hs : Shapes R a g.toKey st0) (hRn : R.n = g.n) (hRc : R.cols = g.rank + 1) (hcols : R.cols = g.toKey.mat.colsOut)
    (k : Nat) (hk : k ≤ g.dsize) :
    (List.range k).foldl (epDigitPass a g a.size) (st0.res, st0.tmp)
      = (((List.range k).foldl (productStep a g.toKey) st0).res, ((List.range k).foldl (productStep a g.toKey) st0).tmp) := by
  induction k with
  | zero => rfl
  | succ k ih =>
    rw [List.range_succ, List.foldl_append, List.foldl_append, ih (by omega)]
    simp only [List.foldl_cons, List.foldl_nil]
    have hkd : k ≤ g.toKey.dsize := by show k ≤ g.dsize; omega
    have sh := (product_loop R a g.toKey st0 hcols hs k hkd).1
    exact pass_eq a g _ R k (by omega) ha sh hRn hRc

/-- active size of `res_dft` after a pass `di ≥ 1` -/
theorem passPos_size (a : Buf) (g : EpGGSW) (aSize di : Nat) (hdi : di ≠ 0) (r t : Buf)
    (hr : BufShape g.n (g.rank + 1) g.size r) (ht : BufShape g.n (g.rank + 1) g.size t) :
    (epDigitPass a g aSize (r, t) di).1.size = g.size - (g.dsize - di - 2) := by
  unfold epDigitPass
  simp only [if_neg hdi]
  generalize dftApplyAll g.dsize (g.dsize - 1 - di)
      { mkBuf g.n (g.rank + 1) ((aSize + g.dsize - 1) / g.dsize)
          (zeroCols g.n (g.rank + 1) ((aSize + g.dsize - 1) / g.dsize)) with size := (aSize + di) / g.dsize } a = ai
  have hs : g.size - (g.dsize - di - 2) ≤ g.size := Nat.sub_le _ _
  obtain ⟨hwf, hn, hc, hm⟩ := hr
  obtain ⟨twf, tn, tc, tm⟩ := ht
  have hR : (resize r (g.size - (g.dsize - di - 2))).WF := resize_WF r _ hwf (by rw [hm]; exact hs)
  have hT : (resize t (g.size - (g.dsize - di - 2))).WF := resize_WF t _ twf (by rw [tm]; exact hs)
  have v := opVmp_spec (resize t (g.size - (g.dsize - di - 2))) ai g.toPMat di hT
  have w := addAssign_spec (resize r (g.size - (g.dsize - di - 2))) (opVmp (resize t (g.size - (g.dsize - di - 2))) ai g.toPMat di)
    g.n hR v.1 (v.2.1.trans (tc.trans hc.symm)) v.2.2.1
  exact w.2.2.1

/-- **The executed external product is C03's gadget product**, every digit size: what
`glwe_external_product_internal` returns (`Core.epInternal`) is, column by column, what `gglwe_product_dft`
(`Ks.gglweProductDft`) returns on the GGSW seen as a key with `rank+1` input columns. -/
theorem epInternal_eq_ks (a : List Col) (g : EpGGSW) (res0 tmp0 : List Col) (hd : 1 ≤ g.dsize)
    (ha : shapeOk g.n (g.rank + 1) (a.getD 0 []).length a = true)
    (h0 : shapeOk g.n (g.rank + 1) g.size res0 = true) (ht : shapeOk g.n (g.rank + 1) g.size tmp0 = true) :
    epInternal a g res0 tmp0 =
      (List.range (g.rank + 1)).map
        (Ks.gglweProductDft (mkBuf g.n (g.rank + 1) g.size res0) (mkBuf g.n (g.rank + 1) (a.getD 0 []).length a) g.toKey).act := by
  have hz : shapeOk g.n (g.rank + 1) g.size (zeroCols g.n (g.rank + 1) g.size) = true := by
    unfold shapeOk zeroCols
    simp [Hal.zeroP]
  rw [epInternal_determined a g res0 res0 tmp0 (zeroCols g.n (g.rank + 1) g.size) hd h0 h0 ht hz]
  have s0 := (mkBuf_shape g.n (g.rank + 1) g.size res0 h0).1
  by_cases h1 : g.dsize = 1
  · unfold epInternal Ks.gglweProductDft
    have h1' : g.toKey.dsize = 1 := h1
    simp only [h1, h1', if_true]
    apply List.map_congr_left
    intro c _
    unfold opVmp
    rw [dftApplyAll_id_flat g.n (g.rank + 1) _ a ha]
    rfl
  · unfold epInternal
    simp only [h1, if_false]
    have hsh := initial_shapes (mkBuf g.n (g.rank + 1) g.size res0) (mkBuf g.n (g.rank + 1) (a.getD 0 []).length a) g.toKey
      s0.1 rfl rfl
    have hl := loop_eq (mkBuf g.n (g.rank + 1) (a.getD 0 []).length a) g _ (mkBuf g.n (g.rank + 1) g.size res0) rfl hsh rfl rfl rfl
      g.dsize (Nat.le_refl _)
    have hl' : (List.range g.dsize).foldl (epDigitPass (mkBuf g.n (g.rank + 1) (a.getD 0 []).length a) g (a.getD 0 []).length)
        (mkBuf g.n (g.rank + 1) g.size res0, mkBuf g.n (g.rank + 1) g.size (zeroCols g.n (g.rank + 1) g.size)) = _ := hl
    -- size of the final res_dft
    have hdd : g.dsize = (g.dsize - 1) + 1 := by omega
    have hsize : ((List.range g.dsize).foldl (epDigitPass (mkBuf g.n (g.rank + 1) (a.getD 0 []).length a) g (a.getD 0 []).length)
        (mkBuf g.n (g.rank + 1) g.size res0, mkBuf g.n (g.rank + 1) g.size (zeroCols g.n (g.rank + 1) g.size))).1.size = g.size := by
      rw [hdd, List.range_succ, List.foldl_append]
      simp only [List.foldl_cons, List.foldl_nil]
      have hp := loop_eq (mkBuf g.n (g.rank + 1) (a.getD 0 []).length a) g _ (mkBuf g.n (g.rank + 1) g.size res0) rfl hsh rfl rfl rfl
        (g.dsize - 1) (by omega)
      have hp' : (List.range (g.dsize - 1)).foldl (epDigitPass (mkBuf g.n (g.rank + 1) (a.getD 0 []).length a) g (a.getD 0 []).length)
          (mkBuf g.n (g.rank + 1) g.size res0, mkBuf g.n (g.rank + 1) g.size (zeroCols g.n (g.rank + 1) g.size)) = _ := hp
      rw [hp']
      have hkd : g.dsize - 1 ≤ g.toKey.dsize := by show g.dsize - 1 ≤ g.dsize; omega
      have sh := (product_loop (mkBuf g.n (g.rank + 1) g.size res0) (mkBuf g.n (g.rank + 1) (a.getD 0 []).length a) g.toKey _ rfl hsh
        (g.dsize - 1) hkd).1
      rw [passPos_size _ g _ (g.dsize - 1) (by omega) _ _ ⟨sh.rwf, sh.rn, sh.rcols, sh.rmax⟩ ⟨sh.twf, sh.tn, sh.tcols, sh.tmax⟩]
      omega
    have shF := (product_loop (mkBuf g.n (g.rank + 1) g.size res0) (mkBuf g.n (g.rank + 1) (a.getD 0 []).length a) g.toKey _ rfl hsh
      g.dsize (Nat.le_refl _)).1
    unfold Ks.gglweProductDft
    have h1' : ¬ g.toKey.dsize = 1 := h1
    simp only [h1', if_false]
    rw [hl'] at hsize ⊢
    simp only at hsize ⊢
    apply List.map_congr_left
    intro c _
    unfold Buf.act
    simp only
    have e : ((List.range g.toKey.dsize).foldl (productStep (mkBuf g.n (g.rank + 1) (a.getD 0 []).length a) g.toKey)
        { res := mkBuf g.n (g.rank + 1) g.size res0,
          ai := zeroBuf (mkBuf g.n (g.rank + 1) (a.getD 0 []).length a).n (mkBuf g.n (g.rank + 1) (a.getD 0 []).length a).cols
            (min (divCeil (mkBuf g.n (g.rank + 1) (a.getD 0 []).length a).size g.toKey.dsize) g.toKey.mat.rows),
          tmp := zeroBuf (mkBuf g.n (g.rank + 1) g.size res0).n (mkBuf g.n (g.rank + 1) g.size res0).cols g.toKey.mat.size }).res.maxSize
        = g.size := shF.rmax
    rw [hsize, e]
    rfl

end Core
