import Poulpy.Lemmas.Cbt

/-!
Circuit bootstrapping, exponent mode (`Model/Cbt.lean`: `expTable`, `traceP`, `packP`, `postProcess`, `expRows`).
Layer 1: `post_process` on any polynomial whose coefficients at the multiples of `2^log_gap_in` are `v` at one
multiple and zero at the others returns the monomial `v·X^{μ·2^log_gap_out}`.
Layer 2: the blind-rotation output of the exponent table has that shape for every row.
-/

namespace Cbt
open Lut

/-- the monomial `v · X^pos` (`n` coefficients of `size` limbs) -/
def mono (n size pos : Nat) (v : Vec) : List Vec :=
  (List.range n).map fun j => if j = pos then v else List.replicate size 0

theorem traceP_length (n skip : Nat) (p : List Vec) : (traceP n skip p).length = p.length := by
  simp [traceP]

theorem traceP_getElem? (n skip : Nat) (p : List Vec) (j : Nat) :
    (traceP n skip p)[j]? = (p[j]?).map fun v => if j % (n >>> skip) = 0 then v else v.map fun _ => 0 := by
  simp [traceP, List.getElem?_mapIdx]

theorem traceP_inRange (n skip : Nat) (p : List Vec) (h : InRange p) : InRange (traceP n skip p) := by
  intro v hv x hx
  obtain ⟨j, hj, hjv⟩ := List.mem_iff_getElem.1 hv
  have h1 : (traceP n skip p)[j]? = some v := by rw [List.getElem?_eq_getElem hj, hjv]
  rw [traceP_getElem?] at h1
  have hjp : j < p.length := by rw [traceP_length] at hj; exact hj
  rw [List.getElem?_eq_getElem hjp] at h1
  simp only [Option.map_some, Option.some.injEq] at h1
  split at h1
  · subst h1; exact h _ (List.getElem_mem hjp) x hx
  · subst h1
    simp only [List.mem_map] at hx
    obtain ⟨_, _, rfl⟩ := hx
    constructor <;> norm_num

theorem map_zero_of_length (v : Vec) (size : Nat) (h : v.length = size) : (v.map fun _ => (0 : Int)) = List.replicate size 0 := by
  subst h
  induction v with
  | nil => rfl
  | cons a t ih => simp [List.replicate_succ, ih]

theorem shiftRight_pow (logn k : Nat) (h : k ≤ logn) : (2 ^ logn) >>> (logn - k) = 2 ^ k := by
  rw [Nat.shiftRight_eq_div_pow]
  have : 2 ^ logn = 2 ^ k * 2 ^ (logn - k) := by rw [← pow_add]; congr 1; omega
  rw [this, Nat.mul_div_cancel _ (by positivity)]

/-- coefficient 0 of `X^{-p}·q` is coefficient `p` of `q` (`p < n`) -/
theorem coeff0_rotate_neg (q : List Vec) (hq : InRange q) (p : Nat) (hp : p < q.length) :
    (rotate (-(p : Int)) q)[0]? = q[p]? := by
  rw [getElem?_eq_sext _ 0 (by rw [rotate_length]; omega),
    sext_rotate _ _ (by omega) (fun v hv => negV_negV v (hq v hv)), getElem?_eq_sext _ p hp]
  congr 2
  simp

theorem find_key {α : Type} (g : Nat) (hg : 0 < g) (h : Nat → α) (j : Nat) : ∀ m : Nat,
    ((List.range m).map fun i => (i * g, h i)).find? (fun c => c.1 == j) =
      if j % g = 0 ∧ j / g < m then some (j, h (j / g)) else none := by
  intro m
  induction m with
  | zero => simp
  | succ m ih =>
    rw [List.range_succ, List.map_append, List.find?_append, ih]
    by_cases h1 : j % g = 0 ∧ j / g < m
    · rw [if_pos h1, if_pos ⟨h1.1, by omega⟩]; rfl
    · rw [if_neg h1]
      simp only [List.map_cons, List.map_nil, Option.none_or, List.find?_cons, List.find?_nil]
      by_cases h2 : m * g = j
      · have hd : j / g = m := by rw [← h2, Nat.mul_div_cancel _ hg]
        have hm : j % g = 0 := by rw [← h2, Nat.mul_mod_left]
        simp only [h2, beq_self_eq_true]
        rw [if_pos ⟨hm, by omega⟩, hd, ← h2]
      · have : ¬ (j % g = 0 ∧ j / g < m + 1) := by
          intro ⟨ha, hb⟩
          have hlt : ¬ j / g < m := fun hc => h1 ⟨ha, hc⟩
          have : j / g = m := by omega
          apply h2
          rw [← this, Nat.div_mul_cancel (Nat.dvd_of_mod_eq_zero ha)]
        have hne : (m * g == j) = false := by simpa using h2
        simp only [hne, this, if_false]

/-- **`post_process` (repaired) on a polynomial whose coefficients at the multiples of `2^lgi` are one `v` and zeros** -/
theorem postProcess_mono (logn size lgi lgo ld μ : Nat) (a : List Vec) (v : Vec)
    (hsh : Shaped (2 ^ logn) size a) (hr : InRange a)
    (hlg : lgo ≤ lgi) (hsum : ld + lgi = logn) (hμ : μ < 2 ^ ld)
    (H : ∀ i', i' < 2 ^ ld → a[i' * 2 ^ lgi]? = some (if i' = μ then v else List.replicate size 0)) :
    postProcess false (2 ^ logn) logn size lgi lgo ld a = mono (2 ^ logn) size (μ * 2 ^ lgo) v := by
  have hn : (2:Nat) ^ logn = 2 ^ ld * 2 ^ lgi := by rw [← pow_add, hsum]
  have hgi : 0 < 2 ^ lgi := by positivity
  have hgo : 0 < 2 ^ lgo := by positivity
  have hsk : (2 ^ logn) >>> (logn - lgi) = 2 ^ lgi := shiftRight_pow logn lgi (by omega)
  have hsko : (2 ^ logn) >>> (logn - lgo) = 2 ^ lgo := shiftRight_pow logn lgo (by omega)
  -- the traced polynomial
  have htr : ∀ j, j < 2 ^ logn → (traceP (2 ^ logn) (logn - lgi) a)[j]? =
      some (if j = μ * 2 ^ lgi then v else List.replicate size 0) := by
    intro j hj
    rw [traceP_getElem?, hsk]
    have hja : j < a.length := by rw [hsh.1]; exact hj
    by_cases hm : j % 2 ^ lgi = 0
    · have hjd : j = j / 2 ^ lgi * 2 ^ lgi := (Nat.div_mul_cancel (Nat.dvd_of_mod_eq_zero hm)).symm
      have hlt : j / 2 ^ lgi < 2 ^ ld := by
        apply Nat.div_lt_of_lt_mul; rw [Nat.mul_comm, ← hn]; exact hj
      have := H (j / 2 ^ lgi) hlt
      rw [← hjd] at this
      rw [this]
      simp only [Option.map_some, hm, if_true]
      congr 1
      by_cases he : j / 2 ^ lgi = μ
      · rw [if_pos he, if_pos (by rw [← he]; exact hjd)]
      · rw [if_neg he, if_neg (by intro h; apply he; rw [h, Nat.mul_div_cancel _ hgi])]
    · rw [List.getElem?_eq_getElem hja]
      simp only [Option.map_some, hm, if_false]
      congr 1
      rw [map_zero_of_length _ size (hsh.2 _ (List.getElem_mem hja)), if_neg]
      intro h; apply hm; rw [h, Nat.mul_mod_left]
  unfold postProcess
  simp only [Bool.false_eq_true, if_false]
  by_cases heq : lgi = lgo
  · subst heq
    simp only [ne_eq, not_true_eq_false, if_false]
    apply List.ext_getElem?
    intro j
    by_cases hj : j < 2 ^ logn
    · rw [htr j hj]; simp [mono, hj]
    · have h1 : (traceP (2 ^ logn) (logn - lgi) a).length ≤ j := by rw [traceP_length, hsh.1]; omega
      rw [List.getElem?_eq_none h1, List.getElem?_eq_none (by simp [mono]; omega)]
  · simp only [ne_eq, heq, not_false_eq_true, if_true]
    set aT := traceP (2 ^ logn) (logn - lgi) a with haT
    have haTr : InRange aT := traceP_inRange _ _ _ hr
    have haTl : aT.length = 2 ^ logn := by rw [haT, traceP_length, hsh.1]
    unfold packP
    apply List.ext_getElem?
    intro j
    by_cases hj : j < 2 ^ logn
    · rw [traceP_getElem?, hsko, List.getElem?_map, List.getElem?_range hj]
      simp only [Option.map_some, mono, List.getElem?_map, List.getElem?_range hj]
      congr 1
      rw [find_key (2 ^ lgo) hgo (fun i => (List.range i).foldl (fun p _ => rotate (-((2 ^ lgi : Nat) : Int)) p) aT) j (2 ^ ld)]
      by_cases hm : j % 2 ^ lgo = 0
      · simp only [hm, if_true, true_and]
        by_cases hlt : j / 2 ^ lgo < 2 ^ ld
        · simp only [hlt, if_true]
          rw [iterRotateBy _ _ haTr]
          have hpos : j / 2 ^ lgo * 2 ^ lgi < aT.length := by
            rw [haTl, hn]; exact Nat.mul_lt_mul_of_pos_right hlt hgi
          have e1 : ((j / 2 ^ lgo : Nat) : Int) * -((2 ^ lgi : Nat) : Int) = -((j / 2 ^ lgo * 2 ^ lgi : Nat) : Int) := by
            push_cast; ring
          rw [e1, coeff0_rotate_neg aT haTr _ hpos, htr _ (by rw [← haTl]; exact hpos)]
          simp only [Option.getD_some]
          have hjd : j = j / 2 ^ lgo * 2 ^ lgo := (Nat.div_mul_cancel (Nat.dvd_of_mod_eq_zero hm)).symm
          by_cases he : j / 2 ^ lgo = μ
          · rw [if_pos (by rw [he]), if_pos (by rw [← he]; exact hjd)]
          · rw [if_neg (by intro h; apply he; exact Nat.eq_of_mul_eq_mul_right hgi h),
              if_neg (by intro h; apply he; rw [h, Nat.mul_div_cancel _ hgo])]
        · simp only [hlt, if_false]
          rw [if_neg]
          intro h; apply hlt; rw [h, Nat.mul_div_cancel _ hgo]; exact hμ
      · simp only [hm, if_false, false_and]
        rw [if_neg (by intro h; apply hm; rw [h, Nat.mul_mod_left])]
        simp
    · rw [List.getElem?_eq_none (by rw [traceP_length]; simp; omega), List.getElem?_eq_none (by simp [mono]; omega)]

/-! ### the exponent table under the right rotation -/

theorem expTable_length (ld dnum resB : Nat) : (expTable ld dnum resB).length = 2 ^ ld * nextPow2 dnum := by
  simp [expTable]

theorem expTable_get (ld dnum resB x : Nat) (hx : x < 2 ^ ld * nextPow2 dnum) :
    (expTable ld dnum resB)[x]? = some (if x < dnum then 2 ^ (resB * (dnum - 1 - x)) else 0) := by
  unfold expTable
  simp only
  rw [List.getElem?_map, List.getElem?_range hx]
  rfl

theorem enc_zero (b size limbs : Nat) (hb : 1 ≤ b) (hb2 : b ≤ 63) : enc b size limbs 0 = List.replicate size 0 := by
  unfold enc
  have h0 : ((List.range size).map fun j => if j = limbs - 1 then (0:Int) else 0) = List.replicate size 0 := by
    apply List.ext_getElem (by simp)
    intro j h1 h2
    simp
  rw [h0]
  apply normVec_id b hb hb2
  intro x hx
  have : x = 0 := (List.mem_replicate.1 hx).2
  subst this
  have : (0:Int) < 2 ^ (b - 1) := by positivity
  constructor <;> omega

theorem negV_zeros (size : Nat) : negV (List.replicate size 0) = List.replicate size 0 := by
  simp [negV, w64]

/-- the coefficient of the rotated exponent table at the `i'`-th multiple of `X = α·step`, row `i` -/
theorem exp_cell_core (b size limbs step ld dnum resB N A X : Nat) (scale : Int) (hb : 1 ≤ b) (hb2 : b ≤ 63) (hstep : 0 < step)
    (hage : dnum ≤ A) (hapos : 0 < A) (hX : X = A * step) (hN : N = 2 ^ ld * X)
    (f : List Int) (hflen : f.length = 2 ^ ld * A)
    (hfget : ∀ x, x < 2 ^ ld * A → f[x]? = some (if x < dnum then 2 ^ (resB * (dnum - 1 - x)) else 0))
    (K : Int) (μ e : Nat) (hμ : μ < 2 ^ ld) (he : e < step)
    (hcell : (((step / 2 : Nat) : Int) - K + ((μ * X : Nat) : Int)) % (2 * (N : Int)) = (e : Int))
    (i : Nat) (hi : i < dnum) (i' : Nat) (hi' : i' < 2 ^ ld) :
    sext (tableF b size limbs step scale f)
        (((i' * X : Nat) : Int) - ((i : Int) * -(step : Int) + (K + -((step / 2 : Nat) : Int)))) =
      if i' = μ then enc b size limbs (w64 (2 ^ (resB * (dnum - 1 - i)) * scale)) else List.replicate size 0 := by
  have hXpos : 0 < X := by rw [hX]; exact Nat.mul_pos hapos hstep
  have hdom : f.length * step = N := by rw [hflen, hN, hX, Nat.mul_assoc]
  have hNpos : 0 < N := by rw [hN]; exact Nat.mul_pos (by positivity) hXpos
  have hsx := sext_tableF b size limbs step scale f hstep (by rw [hflen]; exact Nat.mul_pos (by positivity) hapos)
    (((i' * X : Nat) : Int) - ((i : Int) * -(step : Int) + (K + -((step / 2 : Nat) : Int))))
  simp only [hdom] at hsx
  obtain ⟨t, ht⟩ : ∃ t : Int, ((step / 2 : Nat) : Int) - K + ((μ * X : Nat) : Int) = (e : Int) + 2 * (N : Int) * t := by
    refine ⟨(((step / 2 : Nat) : Int) - K + ((μ * X : Nat) : Int)) / (2 * (N : Int)), ?_⟩
    have := Int.emod_add_mul_ediv (((step / 2 : Nat) : Int) - K + ((μ * X : Nat) : Int)) (2 * (N : Int))
    rw [hcell] at this
    linarith
  have histep : i * step + e < X := by
    have h1 : (i + 1) * step ≤ A * step := Nat.mul_le_mul_right _ (by omega)
    rw [Nat.succ_mul] at h1; omega
  have hw0 : w64 0 = 0 := by unfold w64; omega
  generalize hr : i * step + e = r at histep
  have hrI : (r : Int) = (i : Int) * (step : Int) + (e : Int) := by rw [← hr]; push_cast; ring
  by_cases hge : μ ≤ i'
  · obtain ⟨d, rfl⟩ : ∃ d, i' = μ + d := ⟨i' - μ, by omega⟩
    have hbound : d * X + r < N := by
      have h1 : (d + 1) * X ≤ 2 ^ ld * X := Nat.mul_le_mul_right _ (by omega)
      rw [Nat.succ_mul, ← hN] at h1; omega
    have hmod : (((μ + d) * X : Nat) : Int) - ((i : Int) * -(step : Int) + (K + -((step / 2 : Nat) : Int))) =
        ((d * X + r : Nat) : Int) + 2 * (N : Int) * t := by
      push_cast at ht ⊢
      linear_combination ht - hrI
    rw [hmod, Int.add_mul_emod_self_left, Int.emod_eq_of_lt (by positivity) (by exact_mod_cast (by omega : d * X + r < 2 * N))] at hsx
    simp only [Int.toNat_natCast] at hsx
    rw [Nat.mod_eq_of_lt hbound] at hsx
    have hdiv : (d * X + r) / step = d * A + i := by
      have e1 : (d * A + i) * step = d * (A * step) + i * step := by ring
      have e2 : (d * A + i + 1) * step = d * (A * step) + i * step + step := by ring
      apply Nat.div_eq_of_lt_le
      · rw [hX, ← hr, e1]; omega
      · rw [hX, ← hr, e2]; omega
    rw [hdiv, hfget (d * A + i) (by
      have h1 : (d + 1) * A ≤ 2 ^ ld * A := Nat.mul_le_mul_right _ (by omega)
      rw [Nat.succ_mul] at h1; omega)] at hsx
    simp only [Option.map_some, Option.some.injEq, hbound, if_true] at hsx
    rw [← hmod] at hsx
    rw [hsx]
    by_cases hd0 : d = 0
    · subst hd0
      simp only [Nat.zero_mul, Nat.zero_add, hi, if_true, Nat.add_zero]
    · have hnot : ¬ (d * A + i < dnum) := by
        have : A ≤ d * A := Nat.le_mul_of_pos_left A (by omega)
        omega
      rw [if_neg hnot, if_neg (by omega)]
      simp only [Int.zero_mul]
      rw [hw0, enc_zero b size limbs hb hb2]
  · obtain ⟨d, hd⟩ : ∃ d, μ = i' + d + 1 := ⟨μ - i' - 1, by omega⟩
    obtain ⟨c, hc⟩ : ∃ c, 2 ^ ld = (d + 1) + (c + 1) := ⟨2 ^ ld - (d + 1) - 1, by omega⟩
    have hNs : N = (d + 1) * X + (c + 1) * X := by rw [hN, hc]; ring
    have hrlt : r < (d + 1) * X := by
      have : X ≤ (d + 1) * X := Nat.le_mul_of_pos_left X (by omega)
      omega
    have hmod : ((i' * X : Nat) : Int) - ((i : Int) * -(step : Int) + (K + -((step / 2 : Nat) : Int))) =
        ((N + ((c + 1) * X + r) : Nat) : Int) + 2 * (N : Int) * (t - 1) := by
      have hNI : (N : Int) = ((d : Int) + 1) * (X : Int) + ((c : Int) + 1) * (X : Int) := by
        rw [hNs]; push_cast; ring
      rw [hd] at ht
      push_cast at ht ⊢
      linear_combination ht - hrI + hNI
    have hlt2 : N + ((c + 1) * X + r) < 2 * N := by omega
    rw [hmod, Int.add_mul_emod_self_left, Int.emod_eq_of_lt (by positivity) (by exact_mod_cast hlt2)] at hsx
    simp only [Int.toNat_natCast] at hsx
    have hlt1 : (c + 1) * X + r < N := by omega
    have hmodN : (N + ((c + 1) * X + r)) % N = (c + 1) * X + r := by
      rw [Nat.add_mod_left, Nat.mod_eq_of_lt hlt1]
    have hdiv : ((c + 1) * X + r) / step = (c + 1) * A + i := by
      have e1 : ((c + 1) * A + i) * step = (c + 1) * (A * step) + i * step := by ring
      have e2 : ((c + 1) * A + i + 1) * step = (c + 1) * (A * step) + i * step + step := by ring
      apply Nat.div_eq_of_lt_le
      · rw [hX, ← hr, e1]; omega
      · rw [hX, ← hr, e2]; omega
    rw [hmodN, hdiv, hfget ((c + 1) * A + i) (by
      have h1 : (c + 1 + 1) * A ≤ 2 ^ ld * A := Nat.mul_le_mul_right _ (by omega)
      rw [Nat.succ_mul] at h1; omega)] at hsx
    have hnot : ¬ ((c + 1) * A + i < dnum) := by
      have : A ≤ (c + 1) * A := Nat.le_mul_of_pos_left A (by omega)
      omega
    have hnlt : ¬ (N + ((c + 1) * X + r) < N) := by omega
    simp only [Option.map_some, Option.some.injEq, hnot, hnlt, if_false, Int.zero_mul] at hsx
    rw [← hmod] at hsx
    rw [hsx, if_neg (by omega), hw0, enc_zero b size limbs hb hb2, negV_zeros]

end Cbt
