import Poulpy.Lemmas.EpCoeff
import Poulpy.Lemmas.ModSize
import Poulpy.Props.C01

/-!
The BDD machine of `NoiseAlg.lean` INSTANTIATED on the executed model of `Cmux::cmux` (`Core.cmux`, C04): ciphertexts are column lists,
the phase of a ciphertext is its coefficient vector of values at full precision (scaled by `2^(b·S)`), the error measure is the largest
centred residue modulo `2^(b·rs+b·S)`, and `cmux_spec` is the THEOREM `EpCoeff.cmux_coeff` — no contract is left; what `good` asks of a
prepared bit is its shape, a digit bound / head-room, and the key relation of C01 (`KeyWellFormed`) with a bounded error.
-/

namespace CmuxMachine
open Noise Hal Core C04 KsDec Ks CoreEnc

/-- parameters shared by the evaluation: ring degree, radix, limbs of the ciphertexts, shape of the GGSWs, accumulator width, secret,
digit bound of the GGSW cells, bound on the key errors -/
structure Par where
  N : Nat
  b : Nat
  rs : Nat
  rank : Nat
  dnum : Nat
  dsize : Nat
  S : Nat
  big128 : Bool
  sk : List Poly
  Dm : Int
  BE : Int

namespace Par
variable (p : Par)

/-- digits of the ciphertexts of the evaluation: what `cmux` returns (`≤ 2^b − 1`) -/
def Hin : Int := 2 ^ p.b - 1
/-- the identities hold modulo `2^(b·rs + b·S)` -/
def modulus : ℕ := 2 ^ (p.b * p.rs + p.b * p.S)
/-- `σ_0 = 1`, `σ_{i+1} = s_i` -/
noncomputable def σ (i : ℕ) : Ks.R p.N := if i = 0 then 1 else Ks.ι p.N (p.sk.getD (i - 1) [])

/-- side conditions on the parameters (all decidable) -/
def ok : Prop :=
  0 < p.N ∧ 1 ≤ p.b ∧ p.b ≤ 60 ∧ 1 ≤ p.rs ∧ p.rs ≤ p.S ∧ p.rs ≤ p.dnum * p.dsize ∧ p.dnum * p.dsize ≤ p.S ∧
  1 ≤ p.dsize ∧ p.dsize ≤ 2 ∧ p.rank ≤ p.sk.length ∧ 0 ≤ p.Dm ∧ 0 ≤ p.BE ∧
  prodAdmissible (bitsOf p.big128) p.dsize (p.rank + 1) p.dnum p.N (p.Hin + p.Hin) p.Dm p.Hin

/-- **the explicit per-CMux bound** `Bc(N, b, dnum, dsize, rank, rs, S, ‖s‖₁, BE)`: units of `2^-(b·rs+b·S)` of the torus -/
def errBound : Int :=
  2 ^ (p.b * p.rs) * (((p.rank + 1 : Nat) : Int) * ((p.dnum : Int) *
      ((∑ di ∈ Finset.range p.dsize, (2 : Int) ^ (p.b * di)) * ((p.N : Int) * (p.Hin + p.Hin)) * p.BE)))
    + (1 + C02L.snorm (min p.rank p.sk.length) p.sk) * C02.normTol (p.b * p.rs) (p.b * p.S)

theorem errBound_nonneg (hB : 0 ≤ p.BE) : 0 ≤ p.errBound := by
  unfold errBound
  have hH : 0 ≤ p.Hin := by unfold Hin; have : (1:Int) ≤ 2 ^ p.b := one_le_pow₀ (by norm_num); linarith
  have h1 : (0:Int) ≤ ∑ di ∈ Finset.range p.dsize, (2 : Int) ^ (p.b * di) := Finset.sum_nonneg (fun _ _ => by positivity)
  have h2 : 0 ≤ C02.normTol (p.b * p.rs) (p.b * p.S) := by unfold C02.normTol; split <;> positivity
  have h3 := C02L.snorm_nonneg (min p.rank p.sk.length) p.sk
  have hNN : (0:Int) ≤ (p.N : Int) * (p.Hin + p.Hin) := mul_nonneg (by positivity) (by linarith)
  have : (0:Int) ≤ (∑ di ∈ Finset.range p.dsize, (2 : Int) ^ (p.b * di)) * ((p.N : Int) * (p.Hin + p.Hin)) * p.BE :=
    mul_nonneg (mul_nonneg h1 hNN) hB
  have h4 : (0:Int) ≤ 2 ^ (p.b * p.rs) * (((p.rank + 1 : Nat) : Int) * ((p.dnum : Int) *
      ((∑ di ∈ Finset.range p.dsize, (2 : Int) ^ (p.b * di)) * ((p.N : Int) * (p.Hin + p.Hin)) * p.BE))) := by positivity
  have h5 : 0 ≤ (1 + C02L.snorm (min p.rank p.sk.length) p.sk) * C02.normTol (p.b * p.rs) (p.b * p.S) := mul_nonneg (by linarith) h2
  linarith

end Par

/-- a prepared input bit: the GGSW, the bit it encrypts, its key error as coefficient lists and the part that is a multiple of `β^S` -/
structure GBit (N : Nat) where
  g : EpGGSW
  bit : Bool
  EL : ℕ → ℕ → Poly
  K : ℕ → ℕ → Ks.R N

/-- what the machine asks of a prepared bit: shape, digit bound, and the key relation of C01 with errors bounded by `BE` -/
def Good (p : Par) (x : GBit p.N) : Prop :=
  x.g.n = p.N ∧ x.g.wf = true ∧ x.g.base2k = p.b ∧ x.g.rank = p.rank ∧ x.g.dnum = p.dnum ∧ x.g.dsize = p.dsize ∧ x.g.size = p.S ∧
  (∀ row ∈ x.g.cells, ∀ c ∈ row, ∀ l ∈ c, ∀ y ∈ l, |y| ≤ p.Dm) ∧
  (∀ i r, (x.EL i r).length = p.N) ∧ (∀ i r, normInf (x.EL i r) ≤ p.BE) ∧
  (∀ j q, (x.g.toPMat.entry j q).length = p.N) ∧
  ∀ i, i < p.rank + 1 → ∀ r, r < p.dnum →
    Gadget.val ((2 : Ks.R p.N) ^ p.b) p.S (Ks.keyPhase p.N p.sk x.g.toPMat i r)
      = (if x.bit then 1 else 0) * p.σ i * ((2 : Ks.R p.N) ^ p.b) ^ (p.S - (r + 1) * p.dsize)
        + (Ks.ι p.N (x.EL i r) + ((2 : Ks.R p.N) ^ p.b) ^ p.S * x.K i r)

/-- ciphertexts of the evaluation: `rank + 1` columns of `rs` limbs of `N` coefficients, digits `≤ 2^b − 1` -/
def WfC (p : Par) (c : List Col) : Prop :=
  shapeOk p.N (p.rank + 1) p.rs c = true ∧ ∀ col ∈ c, ∀ l ∈ col, ∀ y ∈ l, |y| ≤ p.Hin

/-- the executed CMux as a total function (scratch buffers zeroed; the theorems hold for any scratch content) -/
def cmuxC (p : Par) (x : GBit p.N) (t f : List Col) : List Col :=
  match cmux p.big128 p.N p.b p.rs t f x.g (zeroCols p.N (p.rank + 1) p.S) (zeroCols p.N (p.rank + 1) p.S) with
  | .ok r => r
  | _ => t

/-- the phase of a ciphertext: its value at every coefficient, at the common scale `2^(b·S)` -/
def ph (p : Par) (c : List Col) : Fin p.N → ℤ :=
  fun k => 2 ^ (p.b * p.S) * Core.valCoeff p.b (Core.Ops.phase p.sk (Ks.mkCt p.b p.N c)) k

theorem bitR_apply (N : ℕ) (b : Bool) (k : Fin N) : (bitR b : Fin N → ℤ) k = if b then 1 else 0 := by
  cases b <;> rfl

/-- **the executed CMux satisfies the machine's contract** (`EpCoeff.cmux_coeff`) -/
theorem cmuxC_spec (p : Par) (hp : p.ok) (x : GBit p.N) (t f : List Col) (hx : Good p x) (ht : WfC p t) (hf : WfC p f) :
    WfC p (cmuxC p x t f) ∧
    (modSize p.modulus p.N).ν (ph p (cmuxC p x t f) - (bitR x.bit * (ph p t - ph p f) + ph p f)) ≤ p.errBound := by
  obtain ⟨hN, hb1, hb60, hrs1, hrsS, hrsd, hdS, hd1, hd2, hsk, hDm, hBE, hadm⟩ := hp
  obtain ⟨hgn, hgw, hgb, hgr, hgdn, hgds, hgS, hgd, hEL, hBEL, hM, hkey⟩ := hx
  have hH0 : 0 ≤ p.Hin := by unfold Par.Hin; have : (1:Int) ≤ 2 ^ p.b := one_le_pow₀ (by norm_num); linarith
  have hH : 2 * p.Hin < 2 ^ 62 := by
    unfold Par.Hin
    have : (2:Int) ^ p.b ≤ 2 ^ 60 := pow_le_pow_right₀ (by norm_num) hb60
    linarith
  have hz : shapeOk x.g.n (x.g.rank + 1) x.g.size (zeroCols p.N (p.rank + 1) p.S) = true := by
    rw [hgn, hgr, hgS]; exact zeroCols_shape _ _ _
  obtain ⟨res, hres, hshape, hdig, hcoef⟩ := EpCoeff.cmux_coeff (N := p.N) p.big128 p.rs t f x.g
    (zeroCols p.N (p.rank + 1) p.S) (zeroCols p.N (p.rank + 1) p.S) p.sk x.bit p.Hin p.Dm p.BE
    hgn hgw (by rw [hgr]; exact ht.1) (by rw [hgr]; exact hf.1) (by rw [hgb]; exact hb1) (by rw [hgb]; omega) hH0 hH hDm ht.2 hf.2
    (by rw [hgds, hgr, hgdn]; exact hadm) hgd p.σ x.EL x.K hEL hBEL (by rw [hgds]; exact hd1) (by rw [hgds]; exact hd2) hN hrs1 hz hz hM
    (by rw [hgdn, hgds, hgS]; exact hdS)
    (by intro i hi r hr
        have := hkey i (by rw [← hgr]; exact hi) r (by rw [← hgdn]; exact hr)
        rw [hgb, hgS, hgds]; exact this)
    (by rw [hgS]; exact hrsS) (by rw [hgdn, hgds]; exact hrsd) (by rw [hgr]; exact hsk)
    (by simp [Par.σ]) (by intro i _; simp [Par.σ])
  rw [hgb] at hres hdig hcoef
  rw [hgr] at hshape
  have hcm : cmuxC p x t f = res := by unfold cmuxC; rw [hres]
  rw [hcm]
  refine ⟨⟨hshape, fun col hc l hl y hy => by unfold Par.Hin; exact hdig col hc l hl y hy⟩, ?_⟩
  have hErr : EpCoeff.cmuxErrBound p.N p.rs x.g p.sk p.Hin p.BE = p.errBound := by
    unfold EpCoeff.cmuxErrBound Par.errBound
    rw [hgb, hgr, hgdn, hgds, hgS]
  have hBnn : 0 ≤ p.errBound := by
    obtain ⟨e, q, _, he⟩ := hcoef 0 hN
    rw [hErr] at he
    exact le_trans (abs_nonneg e) he
  apply modSize_le p.modulus p.N _ p.errBound hBnn
  intro k
  obtain ⟨e, q, heq, he⟩ := hcoef k k.isLt
  rw [hgS] at heq
  refine ⟨e, q, ?_, by rw [← hErr]; exact he⟩
  simp only [Pi.sub_apply, Pi.add_apply, Pi.mul_apply, bitR_apply, ph, Par.modulus]
  push_cast
  cases hb : x.bit
  · simp only [hb, Bool.false_eq_true, if_false] at heq ⊢
    linarith
  · simp only [hb, if_true] at heq ⊢
    linarith

/-- **the BDD machine on the executed CMux** -/
noncomputable def machine (p : Par) (hp : p.ok) (one zero : List Col) (h1 : WfC p one) (h0 : WfC p zero) :
    BddMachine (Fin p.N → ℤ) (modSize p.modulus p.N) (List Col) (GBit p.N) where
  ph := ph p
  cmux := cmuxC p
  bit := fun x => x.bit
  good := Good p
  Bc := p.errBound
  hBc := p.errBound_nonneg hp.2.2.2.2.2.2.2.2.2.2.2.1
  wfC := WfC p
  cmux_spec := fun x t f hx ht hf => cmuxC_spec p hp x t f hx ht hf
  enc := fun v => if v then ph p one else ph p zero
  one := one
  zero := zero
  one_spec := by simp
  zero_spec := by simp
  one_wf := h1
  zero_wf := h0

/-- **`Good` from C01's producer theorems**: a GGSW whose matrix satisfies `KeyWellFormed` (what `C01.ggsw_encrypt_sk_wellformed` proves for a
directly encrypted bit, `C01.blind_rotation_key_encrypt_sk_wellformed` for the elements of a bootstrapping key, with
`msg i = σ_i·ι(pt)`, `ι(pt) = bit`) with sampler errors `‖err‖_∞ ≤ Es`, `2^(b·(S−1−errLimb))·Es ≤ BE`, and the shape / digit facts of the container,
is a good input of the machine: the key relation `hkey` of `cmux_coeff` is `C01.key_hypothesis_ep`. -/
theorem good_of_wellformed (p : Par) (kxe : Nat) (g : EpGGSW) (bit : Bool) (err : ℕ → ℕ → Poly) (Es : Int)
    (hn : g.n = p.N) (hw : g.wf = true) (hb : g.base2k = p.b) (hr : g.rank = p.rank) (hdn : g.dnum = p.dnum) (hds : g.dsize = p.dsize)
    (hS : g.size = p.S) (hdig : ∀ row ∈ g.cells, ∀ c ∈ row, ∀ l ∈ c, ∀ y ∈ l, |y| ≤ p.Dm)
    (hM : ∀ j q, (g.toPMat.entry j q).length = p.N)
    (hwf : KeyWellFormed p.N p.b p.dsize p.S kxe p.dnum (p.rank + 1) g.toPMat p.sk (fun i => p.σ i * (if bit then 1 else 0)) err)
    (herr : ∀ i r, (err i r).length = p.N ∧ normInf (err i r) ≤ Es)
    (hBE : 2 ^ (p.b * (p.S - 1 - errLimb kxe p.b)) * Es ≤ p.BE) :
    ∃ EL K, Good p ⟨g, bit, EL, K⟩ := by
  obtain ⟨KL, E, _, hE, hkey⟩ := C01.key_hypothesis_ep hwf
  refine ⟨fun i r => Hal.polyScale (2 ^ (p.b * (p.S - 1 - errLimb kxe p.b))) (err i r), fun i r => Ks.ι p.N (KL i r),
    hn, hw, hb, hr, hdn, hds, hS, hdig, ?_, ?_, hM, ?_⟩
  · intro i r; simp [(herr i r).1]
  · intro i r
    rw [normInf_polyScale, abs_pow, abs_two]
    exact le_trans (mul_le_mul_of_nonneg_left (herr i r).2 (by positivity)) hBE
  · intro i hi r hr'
    have := hkey i hi r hr'
    rw [hE] at this
    rw [this]
    ring

/-- from the measure back to coefficients -/
theorem coeff_of_size (M N : ℕ) (x : Fin N → ℤ) (B : ℤ) (h : (modSize M N).ν x ≤ B) (k : Fin N) :
    ∃ e q : ℤ, x k = e + (M : ℤ) * q ∧ |e| ≤ B := by
  refine ⟨Int.bmod (x k) M, Int.bdiv (x k) M, ?_, ?_⟩
  · have := Int.bmod_add_bdiv (x k) M; linarith
  · have h1 : (Int.bmod (x k) M).natAbs ≤ modNu M N x :=
      Finset.le_sup (f := fun k => (Int.bmod (x k) M).natAbs) (Finset.mem_univ k)
    have h2 : ((modNu M N x : ℕ) : ℤ) ≤ B := h
    rw [Int.abs_eq_natAbs]
    have : ((Int.bmod (x k) M).natAbs : ℤ) ≤ (modNu M N x : ℕ) := by exact_mod_cast h1
    linarith

/-- **`bdd_eval_noise`, EXECUTED, no contract**: for ANY table on which C13's `evalFlat` returns `v`, evaluating the circuit with the executed
`Core.cmux` (C04's model of `Cmux::cmux`) on good prepared bits of the inputs returns a ciphertext `c` with, for every coefficient `k`,
`2^(b·S)·val_k(c) = 2^(b·S)·val_k(enc v) + e + 2^(b·rs+b·S)·q`, `|e| ≤ L·errBound` — `enc true` / `enc false` the trivial encryptions
`one` / `zero` in the first level, `L` the number of levels. -/
theorem bdd_eval_noise_executed (p : Par) (hp : p.ok) (one zero : List Col) (h1 : WfC p one) (h0 : WfC p zero)
    (nIn w : Nat) (nodes : List Node) (inpB : Nat → Bool) (inpG : Nat → GBit p.N)
    (hin : ∀ b, b < nIn → Good p (inpG b) ∧ (inpG b).bit = inpB b) (v : Bool) (h : evalFlat nIn w nodes inpB = some v) :
    ∃ c, (machine p hp one zero h1 h0).evalFlatC nIn w nodes inpG = some c ∧
      ∀ k, k < p.N → ∃ e q : ℤ,
        2 ^ (p.b * p.S) * Core.valCoeff p.b (Core.Ops.phase p.sk (Ks.mkCt p.b p.N c)) k
          = 2 ^ (p.b * p.S) * Core.valCoeff p.b (Core.Ops.phase p.sk (Ks.mkCt p.b p.N (if v then one else zero))) k
            + e + 2 ^ (p.b * p.rs + p.b * p.S) * q ∧
        |e| ≤ (chunks w nodes).length * p.errBound := by
  obtain ⟨c, hc, hb⟩ := (machine p hp one zero h1 h0).bdd_eval_noise nIn w nodes inpB inpG hin v h
  refine ⟨c, hc, fun k hk => ?_⟩
  obtain ⟨e, q, he, hbd⟩ := coeff_of_size p.modulus p.N _ _ hb ⟨k, hk⟩
  refine ⟨e, q, ?_, hbd⟩
  have : (machine p hp one zero h1 h0).ph c ⟨k, hk⟩ - (machine p hp one zero h1 h0).enc v ⟨k, hk⟩ = e + (p.modulus : ℤ) * q := he
  simp only [machine, ph, Par.modulus] at this
  push_cast at this
  cases v
  · simp only [Bool.false_eq_true, if_false] at this ⊢
    have e0 : ph p zero ⟨k, hk⟩ = 2 ^ (p.b * p.S) * Core.valCoeff p.b (Core.Ops.phase p.sk (Ks.mkCt p.b p.N zero)) k := rfl
    rw [e0] at this
    linarith
  · simp only [if_true] at this ⊢
    have e1 : ph p one ⟨k, hk⟩ = 2 ^ (p.b * p.S) * Core.valCoeff p.b (Core.Ops.phase p.sk (Ks.mkCt p.b p.N one)) k := rfl
    rw [e1] at this
    linarith

end CmuxMachine
