import Poulpy.Model.HalSpec

/-! Helper lemmas about the HAL specification model (core Lean only). -/

namespace Hal

theorem mapRange_length {α} (k : Nat) (f : Nat → α) : ((List.range k).map f).length = k := by simp

theorem mapRange_getD {α} (k j : Nat) (f : Nat → α) (d : α) (h : j < k) :
    ((List.range k).map f).getD j d = f j := by
  simp [List.getD, h]

theorem mapRange_getD_ge {α} (k j : Nat) (f : Nat → α) (d : α) (h : k ≤ j) :
    ((List.range k).map f).getD j d = d := by
  simp [List.getD, Nat.not_lt.mpr h]

@[simp] theorem dftApplyCol_length (n step off rs : Nat) (a : Col) : (dftApplyCol n step off rs a).length = rs := by
  simp [dftApplyCol]
@[simp] theorem idftCol_length (n rs : Nat) (a : Col) : (idftCol n rs a).length = rs := by simp [idftCol]
@[simp] theorem zipExtCol_length (f) (n rs : Nat) (a b : Col) : (zipExtCol f n rs a b).length = rs := by simp [zipExtCol]
@[simp] theorem svpApplyCol_length (n rs : Nat) (p : Poly) (b : Col) : (svpApplyCol n rs p b).length = rs := by simp [svpApplyCol]
@[simp] theorem cnvApplyCol_length (n rs off : Nat) (a b : Col) : (cnvApplyCol n rs off a b).length = rs := by simp [cnvApplyCol]
@[simp] theorem cnvPrepareCol_length (n rs : Nat) (m : Int) (a : Col) : (cnvPrepareCol n rs m a).length = rs := by simp [cnvPrepareCol]
@[simp] theorem assignCol_length (f) (r a : Col) : (assignCol f r a).length = r.length := by simp [assignCol]
@[simp] theorem subNegateAssignCol_length (r a : Col) : (subNegateAssignCol r a).length = r.length := by simp [subNegateAssignCol]
@[simp] theorem vmpFlat_length (n : Nat) (a : List Poly) (m : PMat) (lo rl : Nat) : (vmpFlat n a m lo rl).length = rl := by
  simp [vmpFlat]

/-- Well-formed buffer: `cols` columns, each with `maxSize ≥ size` limbs. -/
def Buf.WF (b : Buf) : Prop :=
  b.data.length = b.cols ∧ b.size ≤ b.maxSize ∧ ∀ c, c < b.cols → (b.data.getD c []).length = b.maxSize

theorem Buf.act_length (b : Buf) (h : b.WF) (c : Nat) (hc : c < b.cols) : (b.act c).length = b.size := by
  unfold Buf.act
  rw [List.length_take, h.2.2 c hc]
  exact Nat.min_eq_left h.2.1

theorem getD_set_same {α} (l : List α) (c : Nat) (x d : α) (h : c < l.length) : (l.set c x).getD c d = x := by
  simp [List.getD, h]

theorem getD_set_other {α} (l : List α) (c c' : Nat) (x d : α) (h : c' ≠ c) : (l.set c x).getD c' d = l.getD c' d := by
  simp [List.getD, List.getElem?_set, Ne.symm h]

/-- The selected column after a write is exactly what was written. -/
theorem Buf.act_setAct_same (b : Buf) (h : b.WF) (c : Nat) (hc : c < b.cols) (x : Col) (hx : x.length = b.size) :
    (b.setAct c x).act c = x := by
  unfold Buf.setAct Buf.act
  simp only
  rw [getD_set_same _ _ _ _ (by rw [h.1]; exact hc)]
  rw [List.take_of_length_le (by omega : (x).length ≤ b.size)] 
  rw [List.take_append_of_le_length (by omega)]
  exact List.take_of_length_le (by omega)

/-- Frame: every other column is untouched. -/
theorem Buf.act_setAct_other (b : Buf) (c c' : Nat) (x : Col) (h : c' ≠ c) : (b.setAct c x).act c' = b.act c' := by
  unfold Buf.setAct Buf.act
  simp only
  rw [getD_set_other _ _ _ _ _ h]

/-- Frame: limbs beyond the active size of the written column are untouched. -/
theorem Buf.setAct_tail (b : Buf) (h : b.WF) (c : Nat) (hc : c < b.cols) (x : Col) (hx : x.length = b.size) :
    ((b.setAct c x).data.getD c []).drop b.size = (b.data.getD c []).drop b.size := by
  unfold Buf.setAct
  simp only
  rw [getD_set_same _ _ _ _ (by rw [h.1]; exact hc)]
  rw [List.take_of_length_le (by omega : (x).length ≤ b.size)]
  rw [List.drop_append_of_le_length (by omega)]
  have : List.drop b.size x = [] := List.drop_eq_nil_of_le (by omega)
  simp [this]

theorem Buf.setAct_WF (b : Buf) (h : b.WF) (c : Nat) (hc : c < b.cols) (x : Col) (hx : x.length = b.size) : (b.setAct c x).WF := by
  refine ⟨?_, h.2.1, ?_⟩
  · simp [Buf.setAct, h.1]
  · intro c' hc'
    by_cases e : c' = c
    · subst e
      unfold Buf.setAct
      simp only
      rw [getD_set_same _ _ _ _ (by rw [h.1]; exact hc)]
      rw [List.take_of_length_le (by omega : (x).length ≤ b.size)]
      rw [List.length_append, List.length_drop, h.2.2 c' hc, hx]
      have := h.2.1
      show b.size + (b.maxSize - b.size) = b.maxSize
      omega
    · unfold Buf.setAct
      simp only
      rw [getD_set_other _ _ _ _ _ e]
      exact h.2.2 c' hc'

end Hal
