import Poulpy.Model.HalSpec

/-! Algebra of the exact negacyclic product on coefficient lists (core Lean only). -/

namespace Hal

@[simp] theorem polyAdd_length (a b : Poly) : (polyAdd a b).length = min a.length b.length := by simp [polyAdd]
@[simp] theorem polyScale_length (c : Int) (a : Poly) : (polyScale c a).length = a.length := by simp [polyScale]
@[simp] theorem polyNeg_length (a : Poly) : (polyNeg a).length = a.length := by simp [polyNeg]

theorem mulX_length (l : Poly) : (mulX l).length = l.length := by
  unfold mulX
  cases h : l.getLast? with
  | none => simp [List.getLast?_eq_none_iff.mp h]
  | some z =>
    have hne : l ≠ [] := by intro e; subst e; simp at h
    simp [List.length_dropLast]
    have : 0 < l.length := by cases l with
      | nil => exact absurd rfl hne
      | cons _ _ => simp
    omega

theorem negMul_length (a b : Poly) : (negMul a b).length = b.length := by
  induction a with
  | nil => simp [negMul]
  | cons a0 as ih => simp [negMul, mulX_length, ih]

theorem polyAdd_comm (a b : Poly) : polyAdd a b = polyAdd b a := by
  unfold polyAdd
  induction a generalizing b with
  | nil => cases b <;> simp
  | cons x xs ih => cases b with
    | nil => simp
    | cons y ys => simp [List.zipWith, Int.add_comm, ih]

theorem polyAdd_assoc (a b c : Poly) : polyAdd (polyAdd a b) c = polyAdd a (polyAdd b c) := by
  unfold polyAdd
  induction a generalizing b c with
  | nil => simp
  | cons x xs ih => cases b with
    | nil => simp
    | cons y ys => cases c with
      | nil => simp
      | cons z zs => simp [List.zipWith, Int.add_assoc, ih]

theorem polyScale_add (c : Int) (a b : Poly) : polyScale c (polyAdd a b) = polyAdd (polyScale c a) (polyScale c b) := by
  unfold polyScale polyAdd
  induction a generalizing b with
  | nil => simp
  | cons x xs ih => cases b with
    | nil => simp
    | cons y ys => simp [List.zipWith, Int.mul_add, ih]

theorem polyScale_add_left (c d : Int) (a : Poly) : polyScale (c + d) a = polyAdd (polyScale c a) (polyScale d a) := by
  unfold polyScale polyAdd
  induction a with
  | nil => simp
  | cons x xs ih => simp [List.zipWith, Int.add_mul, ih]

/-- `mulX` is additive on lists of equal length. -/
theorem mulX_add (a b : Poly) (h : a.length = b.length) : mulX (polyAdd a b) = polyAdd (mulX a) (mulX b) := by
  rcases List.eq_nil_or_concat a with rfl | ⟨a', x, rfl⟩
  · have : b = [] := by cases b <;> simp_all
    subst this; simp [mulX, polyAdd]
  · rcases List.eq_nil_or_concat b with rfl | ⟨b', y, rfl⟩
    · simp at h
    · have hl : a'.length = b'.length := by simpa using h
      have e : polyAdd (a' ++ [x]) (b' ++ [y]) = polyAdd a' b' ++ [x + y] := by
        unfold polyAdd
        rw [List.zipWith_append (by simpa using hl)]
        simp
      simp only [List.concat_eq_append] at *
      rw [e]
      simp [mulX, polyAdd, Int.neg_add]

/-- the four-way exchange used by additivity -/
theorem polyAdd_exchange (a b c d : Poly) : polyAdd (polyAdd a b) (polyAdd c d) = polyAdd (polyAdd a c) (polyAdd b d) := by
  rw [polyAdd_assoc, ← polyAdd_assoc b c d, polyAdd_comm b c, polyAdd_assoc c b d, ← polyAdd_assoc]

/-- additivity in the right operand -/
theorem negMul_add_right (a b b' : Poly) (h : b.length = b'.length) :
    negMul a (polyAdd b b') = polyAdd (negMul a b) (negMul a b') := by
  induction a with
  | nil =>
    simp only [negMul, polyAdd]
    induction b generalizing b' with
    | nil => simp
    | cons x xs ih => cases b' with
      | nil => simp at h
      | cons y ys => simp [List.zipWith]
  | cons a0 as ih =>
    simp only [negMul]
    rw [ih, polyScale_add, mulX_add _ _ (by rw [negMul_length, negMul_length]; exact h), polyAdd_exchange]

/-- additivity in the left operand (equal lengths) -/
theorem negMul_add_left (a a' b : Poly) (h : a.length = a'.length) :
    negMul (polyAdd a a') b = polyAdd (negMul a b) (negMul a' b) := by
  induction a generalizing a' with
  | nil =>
    have : a' = [] := by cases a' <;> simp_all
    subst this
    have z : ∀ b : Poly, polyAdd (b.map (fun _ => (0:Int))) (b.map (fun _ => (0:Int))) = b.map (fun _ => (0:Int)) := by
      intro b
      induction b with
      | nil => simp [polyAdd]
      | cons x xs ih => simpa [polyAdd] using ih
    simp only [negMul, polyAdd, List.zipWith_nil_left]
    exact (z b).symm
  | cons x xs ih =>
    cases a' with
    | nil => simp at h
    | cons y ys =>
      have hl : xs.length = ys.length := by simpa using h
      have e : polyAdd (x :: xs) (y :: ys) = (x + y) :: polyAdd xs ys := by simp [polyAdd]
      rw [e]
      simp only [negMul]
      rw [ih ys hl, polyScale_add_left, mulX_add _ _ (by rw [negMul_length, negMul_length]), polyAdd_exchange]


theorem mulX_append_one (l : Poly) (z : Int) : mulX (l ++ [z]) = (-z) :: l := by simp [mulX]

theorem mulX_zero (n : Nat) : mulX (zeroP n) = zeroP n := by
  cases n with
  | zero => rfl
  | succ k =>
    have e : zeroP (k + 1) = zeroP k ++ [0] := by simp [zeroP, List.replicate_succ']
    rw [e, mulX_append_one]
    have : zeroP k ++ [0] = (0 : Int) :: zeroP k := by
      rw [← e]; simp [zeroP, List.replicate_succ]
    rw [this]; simp

theorem polyAdd_zero_zero (n : Nat) : polyAdd (zeroP n) (zeroP n) = zeroP n := by
  induction n with
  | zero => rfl
  | succ k ih => simp [polyAdd, zeroP, List.replicate_succ]

theorem negMul_zero_right (p : Poly) (n : Nat) : negMul p (zeroP n) = zeroP n := by
  induction p with
  | nil => simp [negMul, zeroP]
  | cons x xs ih =>
    simp only [negMul, ih, mulX_zero]
    have e1 : polyScale x (zeroP n) = zeroP n := by simp [polyScale, zeroP]
    rw [e1, polyAdd_zero_zero]

end Hal
