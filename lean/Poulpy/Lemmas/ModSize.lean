import Poulpy.Lemmas.NoiseAlg
import Mathlib.Algebra.Ring.Pi
import Mathlib.Data.Finset.Lattice.Fold
import Mathlib.Data.Fintype.Basic

/-!
A concrete error measure for the abstract machines of `NoiseAlg.lean`: coefficient vectors `Fin N → ℤ` (pointwise ring: all that the
BDD / word machines use is multiplication by the constants `0`, `1`) modulo `M`, measured by the largest centred residue
`max_k |x_k bmod M|`.  An identity `x_k = e_k + M·q_k` with `|e_k| ≤ B` for every `k` — the shape of the coefficient readings of
C03 / C04 — gives `ν x ≤ B`.
-/

namespace Noise

theorem natAbs_bmod_le (z : ℤ) (M : ℕ) : (Int.bmod z M).natAbs ≤ z.natAbs := by
  rcases Nat.eq_zero_or_pos M with h | h
  · subst h; simp
  · have h1 := Int.bdiv_add_bmod z M
    have h2 := Int.le_bmod (x := z) h
    have h3 := Int.bmod_le (x := z) h
    set r := Int.bmod z M with hr
    set q := Int.bdiv z M with hq
    rcases lt_trichotomy q 0 with hq0 | hq0 | hq0
    · have : (M : ℤ) * q ≤ -(M : ℤ) := by nlinarith
      omega
    · rw [hq0] at h1; simp at h1; rw [h1]
    · have : (M : ℤ) ≤ (M : ℤ) * q := by nlinarith
      omega

theorem natAbs_bmod_neg (z : ℤ) (M : ℕ) : (Int.bmod (-z) M).natAbs = (Int.bmod z M).natAbs := by
  apply le_antisymm
  · rw [← Int.bmod_neg_bmod]
    refine le_trans (natAbs_bmod_le _ _) ?_
    simp
  · have : Int.bmod z M = Int.bmod (-(-z)) M := by simp
    rw [this, ← Int.bmod_neg_bmod]
    refine le_trans (natAbs_bmod_le _ _) ?_
    simp

theorem natAbs_bmod_add (x y : ℤ) (M : ℕ) : (Int.bmod (x + y) M).natAbs ≤ (Int.bmod x M).natAbs + (Int.bmod y M).natAbs := by
  rw [Int.add_bmod]
  refine le_trans (natAbs_bmod_le _ _) (Int.natAbs_add_le _ _)

/-- the largest centred residue modulo `M` of the `N` coefficients -/
def modNu (M N : ℕ) (x : Fin N → ℤ) : ℕ := (Finset.univ : Finset (Fin N)).sup fun k => (Int.bmod (x k) M).natAbs

def modSize (M N : ℕ) : Size (Fin N → ℤ) where
  ν := fun x => (modNu M N x : ℤ)
  nonneg := fun _ => Int.natCast_nonneg _
  zero := by
    show ((modNu M N 0 : ℕ) : ℤ) = 0
    have : modNu M N 0 = 0 := by
      unfold modNu
      apply Nat.eq_zero_of_le_zero
      apply Finset.sup_le
      intro k _
      simp
    rw [this]; rfl
  add_le := by
    intro x y
    show ((modNu M N (x + y) : ℕ) : ℤ) ≤ (modNu M N x : ℕ) + (modNu M N y : ℕ)
    have : modNu M N (x + y) ≤ modNu M N x + modNu M N y := by
      unfold modNu
      apply Finset.sup_le
      intro k hk
      have h1 : (Int.bmod (x k) M).natAbs ≤ (Finset.univ : Finset (Fin N)).sup fun k => (Int.bmod (x k) M).natAbs :=
        Finset.le_sup (f := fun k => (Int.bmod (x k) M).natAbs) hk
      have h2 : (Int.bmod (y k) M).natAbs ≤ (Finset.univ : Finset (Fin N)).sup fun k => (Int.bmod (y k) M).natAbs :=
        Finset.le_sup (f := fun k => (Int.bmod (y k) M).natAbs) hk
      have h3 := natAbs_bmod_add (x k) (y k) M
      simp only [Pi.add_apply]
      omega
    exact_mod_cast this
  neg := by
    intro x
    show ((modNu M N (-x) : ℕ) : ℤ) = (modNu M N x : ℕ)
    have : modNu M N (-x) = modNu M N x := by
      unfold modNu
      congr 1
      funext k
      simp only [Pi.neg_apply]
      exact natAbs_bmod_neg _ _
    rw [this]

/-- coefficient readings `x_k = e_k + M·q_k`, `|e_k| ≤ B` bound the measure -/
theorem modSize_le (M N : ℕ) (x : Fin N → ℤ) (B : ℤ) (hB : 0 ≤ B)
    (h : ∀ k : Fin N, ∃ e q : ℤ, x k = e + (M : ℤ) * q ∧ |e| ≤ B) : (modSize M N).ν x ≤ B := by
  show ((modNu M N x : ℕ) : ℤ) ≤ B
  have : modNu M N x ≤ B.toNat := by
    unfold modNu
    apply Finset.sup_le
    intro k _
    obtain ⟨e, q, he, hb⟩ := h k
    rw [he, Int.add_mul_bmod_self_left]
    refine le_trans (natAbs_bmod_le _ _) ?_
    have : (e.natAbs : ℤ) ≤ B := by rw [← Int.abs_eq_natAbs]; exact hb
    omega
  have h2 : ((B.toNat : ℕ) : ℤ) = B := Int.toNat_of_nonneg hB
  calc ((modNu M N x : ℕ) : ℤ) ≤ (B.toNat : ℤ) := by exact_mod_cast this
    _ = B := h2

end Noise
