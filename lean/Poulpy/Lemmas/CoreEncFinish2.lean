/-
Helper lemmas for C01: `encSkFinish` (error, message, final normalisation) and the exact phase.
-/
import Poulpy.Lemmas.CoreEncFinish

namespace CoreEnc
open NormL

theorem headRoom64 {b : Nat} (hb1 : 1 ≤ b) (hb : b ≤ 61) : HeadRoom 64 b 0 (2 ^ 62) where
  hbits := by norm_num
  hlsh := by omega
  hbb := by omega
  hH0 := by positivity
  hH := by
    have : (2 : Int) ^ b ≤ 2 ^ 61 := two_pow_le hb
    norm_num at this ⊢
    linarith

/-- the limb `vec_znx_add_normal` targets -/
def errLimb (kxe b : Nat) : Nat := (kxe + b - 1) / b - 1

/-- message value (at the ciphertext's size) of coefficient `t` -/
def msgVal (b size t : Nat) : Option (Col × Nat) → Int
  | none => 0
  | some (p, _) => valI b (fitLimbs size (coefAt p t))

theorem take_WF {n : Nat} {c : Col} (h : WF n c) (s : Nat) : WF n (c.take s) :=
  fun l hl => h l (List.mem_of_mem_take hl)

theorem coefAt_take (c : Col) (s t : Nat) : coefAt (c.take s) t = (coefAt c t).take s := by
  simp [coefAt, List.map_take]

theorem coefAt_drop (c : Col) (s t : Nat) : coefAt (c.drop s) t = (coefAt c t).drop s := by
  simp [coefAt, List.map_drop]

theorem coefAt_append (x y : Col) (t : Nat) : coefAt (x ++ y) t = coefAt x t ++ coefAt y t := by
  simp [coefAt]

theorem vecAddAssign_spec {n : Nat} (c1 p : Col) (h1 : WF n c1) (hp : WF n p) :
    (vecAddAssignW w64 c1 p).length = c1.length ∧ WF n (vecAddAssignW w64 c1 p) ∧
    ∀ t, t < n → coefAt (vecAddAssignW w64 c1 p) t =
      List.zipWith (fun x y => w64 (x + y)) ((coefAt c1 t).take (min p.length c1.length)) ((coefAt p t).take (min p.length c1.length))
        ++ (coefAt c1 t).drop (min p.length c1.length) := by
  unfold vecAddAssignW znxAddW
  set s := min p.length c1.length with hs
  have hl1 : (c1.take s).length = (p.take s).length := by simp [hs]
  obtain ⟨z1, z2, z3⟩ := colZip_spec (n := n) (fun x y => w64 (x + y)) (c1.take s) (p.take s) (take_WF h1 s) (take_WF hp s) hl1
  refine ⟨?_, ?_, ?_⟩
  · simp only [List.length_append, z1, List.length_take, List.length_drop]; omega
  · intro l hl
    rcases List.mem_append.mp hl with h | h
    · exact z2 l h
    · exact h1 l (List.mem_of_mem_drop h)
  · intro t ht
    rw [coefAt_append, z3 t ht, coefAt_take, coefAt_take, coefAt_drop]

theorem addMsg_spec {b n size : Nat} (c1 : Col) (hc1len : c1.length = size) (hc1wf : WF n c1) (B1 M : Int)
    (hc1B : CoefBounded n B1 c1) (hsum : B1 + M < 2 ^ 63) :
    ∀ (pt : Option (Col × Nat)), PtCol0 pt → (∀ p col, pt = some (p, col) → WF n p) →
      (∀ p col, pt = some (p, col) → CoefBounded n M p) →
      ∃ c2 : Col,
        Core.addPtCol0 pt c1 = c2 ∧ c2.length = size ∧ WF n c2 ∧ (0 ≤ M → CoefBounded n (B1 + M) c2) ∧
        ∀ t, t < n → valI b (coefAt c2 t) = valI b (coefAt c1 t) + msgVal b size t pt := by
  intro pt
  cases pt with
  | none =>
    intro _ _ _
    refine ⟨c1, rfl, hc1len, hc1wf, ?_, fun t _ => by simp [msgVal]⟩
    intro hM0 t ht v hv
    have := hc1B t ht v hv
    linarith
  | some pc =>
    obtain ⟨p, col⟩ := pc
    intro hpt hptwf hptB
    have hcol := hpt p col rfl
    subst hcol
    have hpwf := hptwf p 0 rfl
    have hpB := hptB p 0 rfl
    obtain ⟨a1, a2, a3⟩ := vecAddAssign_spec c1 p hc1wf hpwf
    have hnw : ∀ t, t < n →
        List.zipWith (fun x y => w64 (x + y)) ((coefAt c1 t).take (min p.length c1.length)) ((coefAt p t).take (min p.length c1.length))
        = List.zipWith (· + ·) ((coefAt c1 t).take (min p.length c1.length)) ((coefAt p t).take (min p.length c1.length)) := by
      intro t ht
      apply zipWith_wrap_eq w64 (· + ·) (B1 := B1) (B2 := M) _ _ _
        (fun x hx => hc1B t ht x (List.mem_of_mem_take hx)) (fun y hy => hpB t ht y (List.mem_of_mem_take hy))
      intro x y hx hy
      apply w64_id
      have := abs_add_le x y
      linarith
    refine ⟨vecAddAssignW w64 c1 p, by simp [Core.addPtCol0], by rw [a1, hc1len], a2, ?_, ?_⟩
    · intro hM0 t ht v hv
      rw [a3 t ht, hnw t ht] at hv
      rcases List.mem_append.mp hv with h | h
      · refine zipWith_bound (· + ·) (B1 := B1) (B2 := M) ?_ _ _
          (fun x hx => hc1B t ht x (List.mem_of_mem_take hx)) (fun y hy => hpB t ht y (List.mem_of_mem_take hy)) v h
        intro x y hx hy
        have := abs_add_le x y
        show |x + y| ≤ B1 + M
        linarith
      · have := hc1B t ht v (List.mem_of_mem_drop h)
        linarith
    · intro t ht
      rw [a3 t ht, hnw t ht]
      have := valI_fitLimbs_add b (coefAt c1 t) (coefAt p t)
      rw [coefAt_length, coefAt_length] at this
      rw [this, hc1len]
      simp [msgVal]

section finish
variable {b n size kxe : Nat}

theorem encSkFinish_spec (hb1 : 1 ≤ b) (hb : b ≤ 61) (hk : 1 ≤ kxe) (hlimb : errLimb kxe b < size)
    (pt : Option (Col × Nat)) (hpt : PtCol0 pt) (hptwf : ∀ p col, pt = some (p, col) → WF n p)
    (M : Int) (hM0 : 0 ≤ M) (hptB : ∀ p col, pt = some (p, col) → CoefBounded n M p)
    (e : Poly) (he : e.length = n) (E : Int) (hE0 : 0 ≤ E) (heB : ∀ x ∈ e, |x| ≤ E)
    (c0 : Col) (hc0 : c0.length = size) (hc0wf : WF n c0) (B0 : Int) (hB0 : CoefBounded n B0 c0)
    (hsum : B0 + E + M ≤ 2 ^ 62) :
    ∃ body, Core.encSkFinish b n size kxe pt e c0 = some body ∧ body.length = size ∧ WF n body ∧
      Bounded (2 ^ (b - 1)) body ∧
      ∀ t, t < n → ∃ K : Int, valI b (coefAt body t) =
        valI b (coefAt c0 t) + e.getD t 0 * 2 ^ (b * (size - 1 - errLimb kxe b)) + msgVal b size t pt + K * 2 ^ (b * size) := by
  have hr := headRoom64 hb1 hb
  have het : ∀ t, |e.getD t 0| ≤ E := by
    intro t
    rw [List.getD_eq_getElem?_getD]
    by_cases h : t < e.length
    · simp only [List.getElem?_eq_getElem h, Option.getD_some]; exact heB _ (List.getElem_mem h)
    · simp [List.getElem?_eq_none (Nat.le_of_not_lt h), hE0]
  -- error placement
  have htl : Sampling.targetLimbAndScale kxe b = some (errLimb kxe b, (errLimb kxe b + 1) * b - kxe) := by
    unfold Sampling.targetLimbAndScale errLimb
    rw [if_neg (by omega)]
  set c1 := c0.mapIdx (fun j l => if j = errLimb kxe b then List.zipWith (fun x y => w64 (x + y)) l e else l) with hc1
  have hadd : Sampling.addNormalCol w64 kxe b c0 e = some c1 := by
    unfold Sampling.addNormalCol
    simp only [htl]
    rw [if_pos (by rw [hc0]; exact hlimb)]
  have hc1len : c1.length = size := by simp [hc1, hc0]
  have hc1wf : WF n c1 := mapIdx_length_WF _ _ c0 e hc0wf he
  have hc1coef : ∀ t, t < n → coefAt c1 t = (coefAt c0 t).mapIdx (fun j x => if j = errLimb kxe b then x + e.getD t 0 else x) := by
    intro t ht
    rw [hc1, coefAt_addNormal _ _ c0 e hc0wf he t ht]
    exact mapIdx_wrap_eq (B := B0) (E := E) (by nlinarith [two_pow_pos 62]) _ _ _ (hB0 t ht) (het t)
  have hc1B : CoefBounded n (B0 + E) c1 := by
    intro t ht
    rw [hc1coef t ht]
    exact mapIdx_bound hE0 _ _ _ (hB0 t ht) (het t)
  have hc1val : ∀ t, t < n → valI b (coefAt c1 t) = valI b (coefAt c0 t) + e.getD t 0 * 2 ^ (b * (size - 1 - errLimb kxe b)) := by
    intro t ht
    rw [hc1coef t ht, valI_mapIdx_add b _ _ _ (by rw [coefAt_length, hc0]; exact hlimb), coefAt_length, hc0]
  -- message
  obtain ⟨c2, hc2def, hc2len, hc2wf, hc2B, hc2val⟩ :=
    addMsg_spec (b := b) (size := size) c1 hc1len hc1wf (B0 + E) M hc1B (by nlinarith [two_pow_pos 62]) pt hpt hptwf hptB
  -- final normalisation
  unfold Core.encSkFinish
  simp only [hadd, hc2def]
  rw [normalizeCol_eq]
  have hc2bd : Bounded (2 ^ 62) c2 := bounded_of_coef hc2wf (fun t ht v hv => le_trans (hc2B hM0 t ht v hv) hsum)
  obtain ⟨o1, o2, o3, o4⟩ := normCol_spec (Or.inl rfl) hr (by omega) size n c2 hc2bd
  refine ⟨_, rfl, o1, o2, o3, ?_⟩
  intro t ht
  have hte := (o4 t ht).2 (by rw [hc2len])
  rw [hc2len] at hte
  obtain ⟨k, hk'⟩ := torusEq_same hte
  refine ⟨k, ?_⟩
  rw [hk', hc2val t ht, hc1val t ht]

end finish

end CoreEnc
