import Poulpy.Lemmas.ScratchCore
import Poulpy.Model.ScratchOps2
/-
Facts `fits ∧ aligned ∧ reqA ≤ tmp_bytes` for the second batch of operations (Model/ScratchOps2.lean),
each from the facts of its callees; monotonicity of the key-switch formula.
-/

namespace Scratch

theorem one_mod64 {n : Nat} (h : n % 8 = 0) : oneLimbTmp n % 64 = 0 := by unfold oneLimbTmp; omega

theorem secretTensorPrepare_facts (be : BE) (n rank : Nat) (hn : n % 8 = 0) :
    fits (treeSecretTensorPrepare be n rank) = true ∧ aligned (treeSecretTensorPrepare be n rank) = true ∧
    reqA (treeSecretTensorPrepare be n rank) ≤ tbSecretTensorPrepare be n rank := by
  have h1 := svp_mod64 be hn rank
  have h2 := dft_mod64 be hn rank 1
  have h3 := big_mod64 be hn 1 1
  have h4 := dft_mod64 be hn 1 1
  have hlb := reqA_loop_le rank (treeBigNormalize be n)
  have hla : aligned (loop rank (treeBigNormalize be n)) = true := aligned_loop _ _ (by simp [treeBigNormalize])
  have hlf : fits (loop rank (treeBigNormalize be n)) = true := fits_loop _ _ (by simp [treeBigNormalize])
  have hbn : reqA (treeBigNormalize be n) = bigNormTmp be n := by simp [treeBigNormalize]
  unfold treeSecretTensorPrepare tbSecretTensorPrepare
  refine ⟨by simp [fits, hlf], by simp [aligned, hla, h1, h2, h3, h4], ?_⟩
  simp only [reqA]; omega

theorem switchingKeyEncryptSk_facts (be : BE) (n : Nat) (k : K) (hn : n % 8 = 0) :
    fits (treeSwitchingKeyEncryptSk be n k) = true ∧ aligned (treeSwitchingKeyEncryptSk be n k) = true ∧
    reqA (treeSwitchingKeyEncryptSk be n k) ≤ tbSwitchingKeyEncryptSk be n k := by
  obtain ⟨g1, g2, g3⟩ := gglweEncryptSk_facts be n k hn
  have h1 := scalar_mod64 hn k.rankIn
  have h2 := svp_mod64 be hn k.rankOut
  unfold treeSwitchingKeyEncryptSk tbSwitchingKeyEncryptSk
  refine ⟨by simp [fits, g1], by simp [aligned, g2, h1, h2], ?_⟩
  simp only [reqA, reqA_leaf]; omega

theorem automorphismKeyEncryptSk_facts (be : BE) (n : Nat) (k : K) (hn : n % 8 = 0) :
    fits (treeAutomorphismKeyEncryptSk be n k) = true ∧ aligned (treeAutomorphismKeyEncryptSk be n k) = true ∧
    reqA (treeAutomorphismKeyEncryptSk be n k) ≤ tbAutomorphismKeyEncryptSk be n k := by
  obtain ⟨g1, g2, g3⟩ := gglweEncryptSk_facts be n k hn
  have h2 := svp_mod64 be hn k.rankOut
  unfold treeAutomorphismKeyEncryptSk tbAutomorphismKeyEncryptSk
  refine ⟨by simp [fits, g1], by simp [aligned, g2, h2], ?_⟩
  simp only [reqA, reqA_leaf]; omega

theorem pairs_le_pairs_pairs (r : Nat) : pairs r ≤ pairs (pairs r) := by
  have h : ∀ m, 1 ≤ m → m ≤ pairs m := by
    intro m hm
    unfold pairs
    have : m * 2 ≤ (m + 1) * m := by
      rw [Nat.mul_comm (m + 1) m]; exact Nat.mul_le_mul_left m (by omega)
    have : m ≤ (m + 1) * m / 2 := by
      rw [Nat.le_div_iff_mul_le (by omega)]; exact this
    omega
  exact h (pairs r) (by unfold pairs; omega)

theorem scalarBytes_mono (n : Nat) {a b : Nat} (h : a ≤ b) : scalarBytes n a ≤ scalarBytes n b := by
  unfold scalarBytes
  exact Nat.mul_le_mul_right 8 (Nat.mul_le_mul_left n h)

theorem tensorKeyEncryptSk_facts (be : BE) (n : Nat) (k : K) (hn : n % 8 = 0) :
    fits (treeTensorKeyEncryptSk be n k) = true ∧ aligned (treeTensorKeyEncryptSk be n k) = true ∧
    reqA (treeTensorKeyEncryptSk be n k) ≤ tbTensorKeyEncryptSk be n k := by
  obtain ⟨g1, g2, g3⟩ := gglweEncryptSk_facts be n { k with rankIn := pairs k.rankOut } hn
  obtain ⟨s1, s2, s3⟩ := secretTensorPrepare_facts be n k.rankOut hn
  have h1 := svp_mod64 be hn k.rankOut
  have h2 := scalar_mod64 hn (pairs k.rankOut)
  have hp := scalarBytes_mono n (pairs_le_pairs_pairs k.rankOut)
  unfold treeTensorKeyEncryptSk tbTensorKeyEncryptSk
  refine ⟨by simp [fits, g1, s1], by simp [aligned, g2, s2, h1, h2], ?_⟩
  simp only [reqA] at *; omega

theorem gglweToGgswKeyEncryptSk_facts (be : BE) (n : Nat) (k : K) (hn : n % 8 = 0) :
    fits (treeGglweToGgswKeyEncryptSk be n k) = true ∧ aligned (treeGglweToGgswKeyEncryptSk be n k) = true ∧
    reqA (treeGglweToGgswKeyEncryptSk be n k) ≤ tbGglweToGgswKeyEncryptSk be n k := by
  obtain ⟨g1, g2, g3⟩ := gglweEncryptSk_facts be n { k with rankIn := k.rankOut } hn
  obtain ⟨s1, s2, s3⟩ := secretTensorPrepare_facts be n k.rankOut hn
  have h1 := svp_mod64 be hn k.rankOut
  have h2 := scalar_mod64 hn (pairs k.rankOut)
  have h3 := scalar_mod64 hn k.rankOut
  have hp := scalarBytes_mono n (pairs_le_pairs_pairs k.rankOut)
  have hlb := reqA_loop_le k.rankOut (treeGglweEncryptSk be n { k with rankIn := k.rankOut })
  have hla := aligned_loop k.rankOut _ g2
  have hlf := fits_loop k.rankOut _ g1
  unfold treeGglweToGgswKeyEncryptSk tbGglweToGgswKeyEncryptSk
  refine ⟨by simp [fits, hlf, s1], by simp [aligned, hla, s2, h1, h2, h3], ?_⟩
  simp only [reqA] at *; omega

theorem lweSwitchingKeyEncryptSk_facts (be : BE) (n : Nat) (k : K) (hn : n % 8 = 0) :
    fits (treeLweSwitchingKeyEncryptSk be n k) = true ∧ aligned (treeLweSwitchingKeyEncryptSk be n k) = true ∧
    reqA (treeLweSwitchingKeyEncryptSk be n k) ≤ tbLweSwitchingKeyEncryptSk be n k := by
  obtain ⟨g1, g2, g3⟩ := switchingKeyEncryptSk_facts be n k hn
  have h1 := scalar_mod64 hn 1
  unfold treeLweSwitchingKeyEncryptSk tbLweSwitchingKeyEncryptSk
  refine ⟨by simp [fits, g1, treeOneLimb], by simp [aligned, g2, h1, treeOneLimb], ?_⟩
  simp only [reqA, treeOneLimb, reqA_leaf]; omega

theorem lweToGlweKeyEncryptSk_facts (be : BE) (n : Nat) (k : K) (hn : n % 8 = 0) (hr : 1 ≤ k.rankIn) :
    fits (treeLweToGlweKeyEncryptSk be n k) = true ∧ aligned (treeLweToGlweKeyEncryptSk be n k) = true ∧
    reqA (treeLweToGlweKeyEncryptSk be n k) ≤ tbLweToGlweKeyEncryptSk be n k := by
  obtain ⟨g1, g2, g3⟩ := gglweEncryptSk_facts be n k hn
  have h1 := scalar_mod64 hn 1
  have hm := scalarBytes_mono n hr
  unfold treeLweToGlweKeyEncryptSk tbLweToGlweKeyEncryptSk
  refine ⟨by simp [fits, g1, treeOneLimb], by simp [aligned, g2, h1, treeOneLimb], ?_⟩
  simp only [reqA, treeOneLimb, reqA_leaf]; omega

theorem svpBytes_mono (be : BE) (n : Nat) {a b : Nat} (h : a ≤ b) : svpBytes be n a ≤ svpBytes be n b := by
  unfold svpBytes
  exact Nat.mul_le_mul_right _ (Nat.mul_le_mul_left n h)

theorem glweToLweKeyEncryptSk_facts (be : BE) (n : Nat) (k : K) (hn : n % 8 = 0) (hr : 1 ≤ k.rankIn) :
    fits (treeGlweToLweKeyEncryptSk be n k) = true ∧ aligned (treeGlweToLweKeyEncryptSk be n k) = true ∧
    reqA (treeGlweToLweKeyEncryptSk be n k) ≤ tbGlweToLweKeyEncryptSk be n k := by
  obtain ⟨g1, g2, g3⟩ := gglweEncryptSk_facts be n k hn
  have h1 := scalar_mod64 hn 1
  have h2 := svp_mod64 be hn 1
  have hm := scalarBytes_mono n hr
  have hs := svpBytes_mono be n hr
  unfold treeGlweToLweKeyEncryptSk tbGlweToLweKeyEncryptSk
  refine ⟨by simp [fits, g1, treeOneLimb], by simp [aligned, g2, h1, h2, treeOneLimb], ?_⟩
  simp only [reqA, treeOneLimb, reqA_leaf]; omega

theorem gglweCompressedEncryptSk_facts (be : BE) (n : Nat) (k : K) (hn : n % 8 = 0) :
    fits (treeGglweCompressedEncryptSk be n k) = true ∧ aligned (treeGglweCompressedEncryptSk be n k) = true ∧
    reqA (treeGglweCompressedEncryptSk be n k) ≤ tbGgxEncryptSk be n k.size := by
  obtain ⟨h1, h2, h3⟩ := encSkInternal_facts be n k.size (k.rankOut + 1) false hn
  have hV := vec_mod64 hn 1 k.size
  have hlb := reqA_loop_le (k.rankIn * k.dnum) (.alt (treeNormalize n) (treeEncSkInternal be n k.size (k.rankOut + 1) false))
  have hla : aligned (loop (k.rankIn * k.dnum) (.alt (treeNormalize n) (treeEncSkInternal be n k.size (k.rankOut + 1) false))) = true :=
    aligned_loop _ _ (by simp [aligned, treeNormalize, h2])
  have hlf : fits (loop (k.rankIn * k.dnum) (.alt (treeNormalize n) (treeEncSkInternal be n k.size (k.rankOut + 1) false))) = true :=
    fits_loop _ _ (by simp [fits, treeNormalize, h1])
  unfold treeGglweCompressedEncryptSk tbGgxEncryptSk
  refine ⟨by simp [fits, hlf], by simp [aligned, hla, hV], ?_⟩
  simp only [reqA, treeNormalize, reqA_leaf] at *
  omega

/-! ### monotonicity of the key-switch formula in the input size -/

theorem ceilDiv_mono {a b : Nat} (d : Nat) (h : a ≤ b) : ceilDiv a d ≤ ceilDiv b d := by
  unfold ceilDiv; exact Nat.div_le_div_right (by omega)

theorem vecBytes_mono (n c : Nat) {s s' : Nat} (h : s ≤ s') : vecBytes n c s ≤ vecBytes n c s' := by
  unfold vecBytes; exact Nat.mul_le_mul_right 8 (Nat.mul_le_mul_left _ h)

theorem tbGglweProduct_mono (be : BE) (n : Nat) (k : K) {s s' : Nat} (h : s ≤ s') :
    tbGglweProduct be n s k ≤ tbGglweProduct be n s' k := by
  unfold tbGglweProduct
  split
  · exact vmpTmp_mono _ _ h
  · have h1 : min (ceilDiv s k.dsize) k.dnum ≤ min (ceilDiv s' k.dsize) k.dnum := by
      have := ceilDiv_mono k.dsize h; omega
    have h2 := dftBytes_mono be n k.rankIn h1
    have h3 := vmpTmp_mono k.dnum k.rankIn h1
    simp only; omega

theorem tbKsInternal_mono (be : BE) (n : Nat) (k : K) (r b : Nat) {s s' : Nat} (h : s ≤ s') :
    tbKsInternal be n ⟨r, s, b⟩ k ≤ tbKsInternal be n ⟨r, s', b⟩ k := by
  unfold tbKsInternal
  have h1 := dftBytes_mono be n r h
  have h2 := tbGglweProduct_mono be n k h
  simp only; omega

/-- `glwe_keyswitch_tmp_bytes` does not depend on the size of `res` and is monotone in the size of `a` -/
theorem tbGlweKeyswitch_mono (be : BE) (n : Nat) (k : K) (rr rs rs' rb rb' ar ab : Nat) {s s' : Nat} (h : s ≤ s') :
    tbGlweKeyswitch be n ⟨rr, rs, rb⟩ ⟨ar, s, ab⟩ k ≤ tbGlweKeyswitch be n ⟨rr, rs', rb'⟩ ⟨ar, s', ab⟩ k := by
  unfold tbGlweKeyswitch
  simp only
  by_cases hx : ab ≠ k.b2k
  · simp only [if_pos hx]
    have hc : ceilDiv (G.maxK ⟨ar, s, ab⟩) k.b2k ≤ ceilDiv (G.maxK ⟨ar, s', ab⟩) k.b2k := by
      apply ceilDiv_mono; unfold G.maxK; exact Nat.mul_le_mul_right _ h
    have h1 := tbKsInternal_mono be n k ar k.b2k hc
    have h2 := vecBytes_mono n (ar + 1) hc
    simp only [G.conv, G.bytes] at *
    omega
  · simp only [if_neg hx]
    have h1 := tbKsInternal_mono be n k ar ab h
    omega

theorem le_ceilDiv_of_mul_le {s b m : Nat} (hb : 0 < b) (h : s * b ≤ m) : s ≤ ceilDiv m b := by
  have := ceilDiv_mono b h
  rwa [ceilDiv_mul_self s b hb] at this

theorem glweFromLwe_facts (be : BE) (n : Nat) (res : G) (lwe : L) (k : K) (hn : n % 8 = 0)
    (hin : k.rankIn = 1) (hres : res.rank = k.rankOut) :
    fits (treeGlweFromLwe be n res lwe k) = true ∧ aligned (treeGlweFromLwe be n res lwe k) = true ∧
    reqA (treeGlweFromLwe be n res lwe k) ≤ tbGlweFromLwe be n res lwe k := by
  obtain ⟨k1, k2, k3⟩ := keyswitch_facts be n res (lweAsGlwe lwe k) k hn (by simp [lweAsGlwe, hin]) hres
  have hG := gbytes_mod64 hn (lweAsGlwe lwe k)
  have hV := vec_mod64 hn 1 lwe.size
  have hsz : (lweAsGlwe lwe k).bytes n ≤ vecBytes n 2 (ceilDiv (max lwe.maxK res.maxK) k.b2k) := by
    simp only [lweAsGlwe, G.bytes]
    exact vecBytes_mono n 2 (ceilDiv_mono _ (by omega))
  unfold treeGlweFromLwe tbGlweFromLwe
  by_cases hb : lwe.b2k = k.b2k
  · simp only [if_pos hb]
    refine ⟨by simp [fits, k1], by simp [aligned, k2, hG], ?_⟩
    simp only [reqA, lweAsGlwe] at *; omega
  · simp only [if_neg hb]
    refine ⟨by simp [fits, k1, treeNormalize], by simp [aligned, k2, hG, hV, treeNormalize], ?_⟩
    simp only [reqA, treeNormalize, reqA_leaf, lweAsGlwe] at *; omega

theorem lweFromGlwe_facts (be : BE) (n : Nat) (lwe : L) (a : G) (k : K) (idx : Nat) (hn : n % 8 = 0)
    (ha : a.rank = k.rankIn) (hout : k.rankOut = 1) :
    fits (treeLweFromGlwe be n lwe a k idx) = true ∧ aligned (treeLweFromGlwe be n lwe a k idx) = true ∧
    reqA (treeLweFromGlwe be n lwe a k idx) ≤ tbLweFromGlwe be n lwe a k := by
  obtain ⟨k1, k2, k3⟩ := keyswitch_facts be n ⟨1, lwe.size, lwe.b2k⟩ a k hn ha (by simp [hout])
  have hG := gbytes_mod64 hn a
  have hV := vec_mod64 hn 2 lwe.size
  unfold treeLweFromGlwe tbLweFromGlwe
  by_cases hi : idx = 0
  · simp only [if_pos hi]
    refine ⟨by simp [fits, k1], by simp [aligned, k2, hV], ?_⟩
    simp only [reqA]; omega
  · simp only [if_neg hi]
    refine ⟨by simp [fits, k1], by simp [aligned, k2, hV, hG], ?_⟩
    simp only [reqA]; omega

theorem lweKeyswitch_facts (be : BE) (n : Nat) (res a : L) (k : K) (hn : n % 8 = 0)
    (hin : k.rankIn = 1) (hout : k.rankOut = 1) (hra : 0 < a.b2k) (hrr : 0 < res.b2k) :
    fits (treeLweKeyswitch be n res a k) = true ∧ aligned (treeLweKeyswitch be n res a k) = true ∧
    reqA (treeLweKeyswitch be n res a k) ≤ tbLweKeyswitch be n res a k := by
  obtain ⟨k1, k2, k3⟩ := keyswitch_facts be n ⟨1, res.size, res.b2k⟩ ⟨1, a.size, a.b2k⟩ k hn (by simp [hin]) (by simp [hout])
  have hV1 := vec_mod64 hn 2 a.size
  have hV2 := vec_mod64 hn 2 res.size
  have ha : a.size ≤ ceilDiv (max a.maxK res.maxK) a.b2k :=
    le_ceilDiv_of_mul_le hra (by unfold L.maxK; omega)
  have hr : res.size ≤ ceilDiv (max a.maxK res.maxK) res.b2k :=
    le_ceilDiv_of_mul_le hrr (by unfold L.maxK; omega)
  have hm := tbGlweKeyswitch_mono be n k 1 res.size (ceilDiv (max a.maxK res.maxK) res.b2k) res.b2k res.b2k 1 a.b2k ha
  have hb1 := vecBytes_mono n 2 ha
  have hb2 := vecBytes_mono n 2 hr
  unfold treeLweKeyswitch tbLweKeyswitch
  refine ⟨by simp [fits, k1], by simp [aligned, k2, hV1, hV2], ?_⟩
  simp only [reqA, G.bytes, Nat.reduceAdd] at *
  omega

/-! ### matrix forms -/

theorem rows_facts {t : AllocTree} {tb : Nat} (cnt : Nat) (h : fits t = true ∧ aligned t = true ∧ reqA t ≤ tb) :
    fits (treeRows tb cnt t) = true ∧ aligned (treeRows tb cnt t) = true ∧ reqA (treeRows tb cnt t) ≤ tb := by
  obtain ⟨h1, h2, h3⟩ := h
  have hlb := reqA_loop_le cnt t
  unfold treeRows
  refine ⟨by simp [fits, fits_loop cnt t h1], by simp [aligned, aligned_loop cnt t h2], ?_⟩
  simp only [reqA]; omega


theorem reqA_ite_norm' (c : Prop) [Decidable c] (n : Nat) :
    reqA (if c then AllocTree.done else treeNormalize n) ≤ (if c then 0 else normTmp n) ∧
    aligned (if c then AllocTree.done else treeNormalize n) = true ∧
    fits (if c then AllocTree.done else treeNormalize n) = true := by
  split <;> simp [reqA, aligned, fits, treeNormalize]

theorem expandRows_facts (be : BE) (n dnum : Nat) (res : G) (t : K) (hn : n % 8 = 0)
    (hin : t.rankIn = res.rank) (hout : t.rankOut = res.rank) :
    fits (treeGgswExpandRows be n dnum res t) = true ∧ aligned (treeGgswExpandRows be n dnum res t) = true ∧
    reqA (treeGgswExpandRows be n dnum res t) ≤ tbGgswExpandRows be n res t := by
  obtain ⟨p1, p2, p3⟩ := gglweProduct_facts be n res.rank (ceilDiv res.maxK t.b2k) (res.rank + 1) t hn
    (by rw [hin]) (by rw [hout])
  obtain ⟨a1, a2, a3⟩ := reqA_ite_norm' (res.b2k = t.b2k) n
  have hD1 := dft_mod64 be hn res.rank (ceilDiv res.maxK t.b2k)
  have hV := vec_mod64 hn 1 (ceilDiv res.maxK t.b2k)
  have hD2 := dft_mod64 be hn (res.rank + 1) t.size
  have hbn : reqA (treeBigNormalize be n) = bigNormTmp be n := by simp [treeBigNormalize]
  have hl0 := reqA_loop_le (res.rank + 1) (treeBigNormalize be n)
  have hl0a : aligned (loop (res.rank + 1) (treeBigNormalize be n)) = true := aligned_loop _ _ (by simp [treeBigNormalize])
  have hl0f : fits (loop (res.rank + 1) (treeBigNormalize be n)) = true := fits_loop _ _ (by simp [treeBigNormalize])
  -- the per-column body
  have hcol : reqA (AllocTree.take (dftBytes be n (res.rank + 1) t.size)
      (.alt (treeGglweProduct be n res.rank (ceilDiv res.maxK t.b2k) (res.rank + 1) t) (loop (res.rank + 1) (treeBigNormalize be n)))) ≤
      dftBytes be n (res.rank + 1) t.size + max (tbGglweProduct be n (ceilDiv res.maxK t.b2k) t) (bigNormTmp be n) := by
    simp only [reqA]; omega
  have hcola : aligned (AllocTree.take (dftBytes be n (res.rank + 1) t.size)
      (.alt (treeGglweProduct be n res.rank (ceilDiv res.maxK t.b2k) (res.rank + 1) t) (loop (res.rank + 1) (treeBigNormalize be n)))) = true := by
    simp [aligned, p2, hl0a, hD2]
  have hcolf : fits (AllocTree.take (dftBytes be n (res.rank + 1) t.size)
      (.alt (treeGglweProduct be n res.rank (ceilDiv res.maxK t.b2k) (res.rank + 1) t) (loop (res.rank + 1) (treeBigNormalize be n)))) = true := by
    simp [fits, p1, hl0f]
  have hl1 := reqA_loop_le res.rank _ |>.trans hcol
  have hl1a := aligned_loop res.rank _ hcola
  have hl1f := fits_loop res.rank _ hcolf
  unfold treeGgswExpandRows tbGgswExpandRows
  simp only
  refine ⟨?_, ?_, ?_⟩
  · simp only [fits]
    exact fits_loop _ _ (by simp [fits, a3, hl1f])
  · simp only [aligned, Bool.and_eq_true, Bool.or_eq_true, beq_iff_eq]
    exact ⟨Or.inl hD1, Or.inl hV, aligned_loop _ _ (by simp [aligned, a2, hl1a])⟩
  · have hrow := reqA_loop_le dnum (AllocTree.alt (if res.b2k = t.b2k then AllocTree.done else treeNormalize n)
        (loop res.rank (AllocTree.take (dftBytes be n (res.rank + 1) t.size)
          (.alt (treeGglweProduct be n res.rank (ceilDiv res.maxK t.b2k) (res.rank + 1) t) (loop (res.rank + 1) (treeBigNormalize be n))))))
    simp only [reqA] at *
    split at a1 <;> simp_all <;> omega

theorem ggswKeyswitch_facts (be : BE) (n dnum : Nat) (res a : G) (k t : K) (hn : n % 8 = 0)
    (ha : a.rank = k.rankIn) (hres : res.rank = k.rankOut) (hin : t.rankIn = res.rank) (hout : t.rankOut = res.rank) :
    fits (treeGgswKeyswitch be n dnum res a k t) = true ∧ aligned (treeGgswKeyswitch be n dnum res a k t) = true ∧
    reqA (treeGgswKeyswitch be n dnum res a k t) ≤ tbGgswKeyswitch be n res a k t := by
  obtain ⟨k1, k2, k3⟩ := keyswitch_facts be n res a k hn ha hres
  obtain ⟨e1, e2, e3⟩ := expandRows_facts be n dnum res t hn hin hout
  have hl := reqA_loop_le dnum (treeGlweKeyswitch be n res a k)
  unfold treeGgswKeyswitch tbGgswKeyswitch
  refine ⟨by simp [fits, fits_loop dnum _ k1, e1], by simp [aligned, aligned_loop dnum _ k2, e2], ?_⟩
  simp only [reqA]; omega

theorem ggswAutomorphism_facts (be : BE) (n dnum : Nat) (res a : G) (k t : K) (hn : n % 8 = 0)
    (ha : a.rank = k.rankIn) (hres : res.rank = k.rankOut) (hin : t.rankIn = res.rank) (hout : t.rankOut = res.rank) :
    fits (treeGgswAutomorphism be n dnum res a k t) = true ∧ aligned (treeGgswAutomorphism be n dnum res a k t) = true ∧
    reqA (treeGgswAutomorphism be n dnum res a k t) ≤ tbGgswAutomorphism be n res a k t := by
  obtain ⟨k1, k2, k3⟩ := automorphism_facts be n res a k hn ha hres
  obtain ⟨e1, e2, e3⟩ := expandRows_facts be n dnum res t hn hin hout
  have hl := reqA_loop_le dnum (treeGlweAutomorphism be n res a k)
  unfold treeGgswAutomorphism tbGgswAutomorphism
  refine ⟨by simp [fits, fits_loop dnum _ k1, e1], by simp [aligned, aligned_loop dnum _ k2, e2], ?_⟩
  simp only [reqA]; omega

theorem atkAutomorphism_facts (be : BE) (n cnt : Nat) (res a : G) (k : K) (same : Bool) (hn : n % 8 = 0)
    (ha : a.rank = k.rankIn) (hres : res.rank = k.rankOut) (hsame : same = true → a = res) :
    fits (treeAtkAutomorphism be n cnt res a k same) = true ∧ aligned (treeAtkAutomorphism be n cnt res a k same) = true ∧
    reqA (treeAtkAutomorphism be n cnt res a k same) ≤ tbAtkAutomorphism be n res a k same := by
  have hG := gbytes_mod64 hn a
  unfold treeAtkAutomorphism tbAtkAutomorphism
  cases same with
  | true =>
    have := hsame rfl; subst this
    obtain ⟨k1, k2, k3⟩ := keyswitch_facts be n a a k hn ha hres
    have hb : reqA (AllocTree.alt (treeGlweKeyswitch be n a a k) (treeOneLimb n)) ≤ max (tbGlweKeyswitch be n a a k) (oneLimbTmp n) := by
      simp only [reqA, treeOneLimb, reqA_leaf]; omega
    have hl := (reqA_loop_le cnt _).trans hb
    refine ⟨by simp [fits, fits_loop cnt _ (show fits (AllocTree.alt (treeGlweKeyswitch be n a a k) (treeOneLimb n)) = true by simp [fits, k1, treeOneLimb])],
      by simp [aligned, aligned_loop cnt _ (show aligned (AllocTree.alt (treeGlweKeyswitch be n a a k) (treeOneLimb n)) = true by simp [aligned, k2, treeOneLimb])], ?_⟩
    simp only [reqA, if_true] at *; omega
  | false =>
    obtain ⟨k1, k2, k3⟩ := keyswitch_facts be n res a k hn ha hres
    have hb : reqA (AllocTree.alt (AllocTree.take (a.bytes n) (treeGlweKeyswitch be n res a k)) (treeOneLimb n)) ≤
        max (tbGlweKeyswitch be n res a k + a.bytes n) (oneLimbTmp n) := by
      simp only [reqA, treeOneLimb, reqA_leaf]; omega
    have hl := (reqA_loop_le cnt _).trans hb
    refine ⟨by simp [fits, fits_loop cnt _ (show fits (AllocTree.alt (AllocTree.take (a.bytes n) (treeGlweKeyswitch be n res a k)) (treeOneLimb n)) = true by simp [fits, k1, treeOneLimb])],
      by simp [aligned, aligned_loop cnt _ (show aligned (AllocTree.alt (AllocTree.take (a.bytes n) (treeGlweKeyswitch be n res a k)) (treeOneLimb n)) = true by simp [aligned, k2, hG, treeOneLimb])], ?_⟩
    simp only [reqA, Bool.false_eq_true, if_false] at *; omega

theorem atkAutomorphismAssign_facts (be : BE) (n cnt : Nat) (res : G) (k : K) (hn : n % 8 = 0)
    (ha : res.rank = k.rankIn) (hres : res.rank = k.rankOut) :
    fits (treeAtkAutomorphismAssign be n cnt res k) = true ∧ aligned (treeAtkAutomorphismAssign be n cnt res k) = true ∧
    reqA (treeAtkAutomorphismAssign be n cnt res k) ≤ tbAtkAutomorphism be n res res k true := by
  obtain ⟨k1, k2, k3⟩ := keyswitch_facts be n res res k hn ha hres
  have hb : reqA (AllocTree.alt (treeOneLimb n) (treeGlweKeyswitch be n res res k)) ≤ max (tbGlweKeyswitch be n res res k) (oneLimbTmp n) := by
    simp only [reqA, treeOneLimb, reqA_leaf]; omega
  have hl := (reqA_loop_le cnt _).trans hb
  unfold treeAtkAutomorphismAssign tbAtkAutomorphism
  refine ⟨by simp [fits, fits_loop cnt _ (show fits (AllocTree.alt (treeOneLimb n) (treeGlweKeyswitch be n res res k)) = true by simp [fits, k1, treeOneLimb])],
    by simp [aligned, aligned_loop cnt _ (show aligned (AllocTree.alt (treeOneLimb n) (treeGlweKeyswitch be n res res k)) = true by simp [aligned, k2, treeOneLimb])], ?_⟩
  simp only [reqA, if_true] at *; omega

/-! ### mul_const -/

theorem bigBytes_mono (be : BE) (n c : Nat) {s s' : Nat} (h : s ≤ s') : bigBytes be n c s ≤ bigBytes be n c s' := by
  unfold bigBytes; exact Nat.mul_le_mul_right _ (Nat.mul_le_mul_left _ h)

theorem cnvByConstTmp_mono (be : BE) (a b : Nat) {r r' : Nat} (h : r ≤ r') : cnvByConstTmp be r a b ≤ cnvByConstTmp be r' a b := by
  cases be
  · simp only [cnvByConstTmp]
    have : min r (a + b - 1) ≤ min r' (a + b - 1) := by omega
    omega
  · simp [cnvByConstTmp]

theorem mulConst_facts (be : BE) (n off : Nat) (res a : G) (bSize : Nat) (hn : n % 8 = 0) :
    fits (treeGlweMulConst be n off res a bSize) = true ∧ aligned (treeGlweMulConst be n off res a bSize) = true ∧
    reqA (treeGlweMulConst be n off res a bSize) ≤ tbGlweMulConst be n res a bSize := by
  unfold treeGlweMulConst tbGlweMulConst
  simp only
  generalize hhi : (if off < a.b2k then 0 else off / a.b2k - 1) = hi
  have hle : a.size + bSize - hi ≤ max (ceilDiv (res.size * res.b2k) a.b2k) (a.size + bSize) := by omega
  have hB := big_mod64 be hn 1 (a.size + bSize - hi)
  have hm1 := bigBytes_mono be n 1 hle
  have hm2 := cnvByConstTmp_mono be a.size bSize hle
  have hbody : reqA (AllocTree.alt (leaf (cnvByConstTmp be (a.size + bSize - hi) a.size bSize)) (treeBigNormalize be n)) ≤
      max (cnvByConstTmp be (a.size + bSize - hi) a.size bSize) (bigNormTmp be n) := by
    simp [reqA, treeBigNormalize]
  have hl := (reqA_loop_le (res.rank + 1) _).trans hbody
  refine ⟨by simp [fits, fits_loop (res.rank + 1) _ (show fits (AllocTree.alt (leaf (cnvByConstTmp be (a.size + bSize - hi) a.size bSize)) (treeBigNormalize be n)) = true by simp [fits, treeBigNormalize])],
    by simp [aligned, hB, aligned_loop (res.rank + 1) _ (show aligned (AllocTree.alt (leaf (cnvByConstTmp be (a.size + bSize - hi) a.size bSize)) (treeBigNormalize be n)) = true by simp [aligned, treeBigNormalize])], ?_⟩
  simp only [reqA]; omega

theorem mulConstAssign_facts (be : BE) (n : Nat) (res : G) (bSize : Nat) (hn : n % 8 = 0) :
    fits (treeGlweMulConstAssign be n res bSize) = true ∧ aligned (treeGlweMulConstAssign be n res bSize) = true ∧
    reqA (treeGlweMulConstAssign be n res bSize) ≤ tbGlweMulConst be n res res bSize := by
  unfold treeGlweMulConstAssign tbGlweMulConst
  simp only
  have hle : res.size ≤ max (ceilDiv (res.size * res.b2k) res.b2k) (res.size + bSize) := by omega
  have hB := big_mod64 be hn 1 res.size
  have hm1 := bigBytes_mono be n 1 hle
  have hm2 := cnvByConstTmp_mono be res.size bSize hle
  have hbody : reqA (AllocTree.alt (leaf (cnvByConstTmp be res.size res.size bSize)) (treeBigNormalize be n)) ≤
      max (cnvByConstTmp be res.size res.size bSize) (bigNormTmp be n) := by
    simp [reqA, treeBigNormalize]
  have hl := (reqA_loop_le (res.rank + 1) _).trans hbody
  refine ⟨by simp [fits, fits_loop (res.rank + 1) _ (show fits (AllocTree.alt (leaf (cnvByConstTmp be res.size res.size bSize)) (treeBigNormalize be n)) = true by simp [fits, treeBigNormalize])],
    by simp [aligned, hB, aligned_loop (res.rank + 1) _ (show aligned (AllocTree.alt (leaf (cnvByConstTmp be res.size res.size bSize)) (treeBigNormalize be n)) = true by simp [aligned, treeBigNormalize])], ?_⟩
  simp only [reqA]; omega

/-! ### noise helpers, tensor decryption, packing -/

theorem glweDecrypt_facts (be : BE) (n : Nat) (g : G) (hn : n % 8 = 0) :
    fits (treeGlweDecrypt be n g) = true ∧ aligned (treeGlweDecrypt be n g) = true ∧
    reqA (treeGlweDecrypt be n g) ≤ tbGlweDecrypt be n g.size := by
  have hV := big_mod64 be hn 1 g.size
  refine ⟨?_, ?_, ?_⟩
  · simp only [treeGlweDecrypt, treeBigNormalize, leaf, loop, fits]
    split <;> simp [fits]
  · simp only [treeGlweDecrypt, treeBigNormalize, leaf, loop]
    split <;> simp [aligned, reqA, hV]
  · simp only [treeGlweDecrypt, treeBigNormalize, leaf, loop, tbGlweDecrypt]
    generalize bigBytes be n 1 g.size = V at *
    generalize dftBytes be n 1 g.size = D at *
    generalize bigNormTmp be n = B at *
    split <;> simp only [reqA] <;> omega

theorem glweNoise_facts (be : BE) (n : Nat) (g : G) (hn : n % 8 = 0) :
    fits (treeGlweNoise be n g) = true ∧ aligned (treeGlweNoise be n g) = true ∧
    reqA (treeGlweNoise be n g) ≤ tbGlweNoise be n g.size := by
  obtain ⟨d1, d2, d3⟩ := glweDecrypt_facts be n g hn
  obtain ⟨n1, n2, n3⟩ := glweNormalize_facts n
  have hV := vec_mod64 hn 1 g.size
  unfold treeGlweNoise tbGlweNoise
  refine ⟨by simp [fits, d1, n1], by simp [aligned, d2, n2, hV], ?_⟩
  simp only [reqA, n3, tbGlweNormalize]; omega

theorem gglweNoise_facts (be : BE) (n : Nat) (g : G) (hn : n % 8 = 0) :
    fits (treeGglweNoise be n g) = true ∧ aligned (treeGglweNoise be n g) = true ∧
    reqA (treeGglweNoise be n g) ≤ tbGglweNoise be n g.size := by
  obtain ⟨d1, d2, d3⟩ := glweNoise_facts be n g hn
  have hV := vec_mod64 hn 1 g.size
  unfold treeGglweNoise tbGglweNoise
  refine ⟨by simp [fits, d1], by simp [aligned, d2, hV], ?_⟩
  simp only [reqA]; omega

theorem ggswNoise_facts (be : BE) (n : Nat) (g : G) (col : Nat) (hn : n % 8 = 0) :
    fits (treeGgswNoise be n g col) = true ∧ aligned (treeGgswNoise be n g col) = true ∧
    reqA (treeGgswNoise be n g col) ≤ tbGgswNoise be n g.size := by
  obtain ⟨d1, d2, d3⟩ := glweNoise_facts be n g hn
  have hV := vec_mod64 hn 1 g.size
  have hD := dft_mod64 be hn 1 g.size
  unfold treeGgswNoise tbGgswNoise
  by_cases hc : col = 0
  · simp only [if_pos hc]
    refine ⟨by simp [fits, d1], by simp [aligned, d2, hV], ?_⟩
    simp only [reqA]; omega
  · simp only [if_neg hc]
    refine ⟨by simp [fits, d1, treeBigNormalize], by simp [aligned, d2, hV, hD, treeBigNormalize], ?_⟩
    simp only [reqA, treeBigNormalize, reqA_leaf]; omega

theorem glweTensorDecrypt_facts (be : BE) (n : Nat) (g : G) (hn : n % 8 = 0) :
    fits (treeGlweTensorDecrypt be n g) = true ∧ aligned (treeGlweTensorDecrypt be n g) = true ∧
    reqA (treeGlweTensorDecrypt be n g) ≤ tbGlweTensorDecrypt be n g := by
  obtain ⟨d1, d2, d3⟩ := glweDecrypt_facts be n ⟨pairs g.rank + g.rank, g.size, g.b2k⟩ hn
  have hS := svp_mod64 be hn (pairs g.rank + g.rank)
  unfold treeGlweTensorDecrypt tbGlweTensorDecrypt
  refine ⟨by simp [fits, d1], by simp [aligned, d2, hS], ?_⟩
  simp only [reqA] at *; omega

theorem packStep_facts (be : BE) (n : Nat) (a : G) (k : K) (hn : n % 8 = 0) (hin : a.rank = k.rankIn) (hout : a.rank = k.rankOut) :
    fits (treePackStep be n a k) = true ∧ aligned (treePackStep be n a k) = true ∧
    reqA (treePackStep be n a k) ≤ a.bytes n + max (tbGlweShift n) (tbGlweAutomorphism be n a a k) := by
  obtain ⟨u1, u2, u3⟩ := automorphism_facts be n a a k hn hin hout
  obtain ⟨v1, v2, v3⟩ := automorphismAdd_facts be n a a k hn hin hout
  obtain ⟨n1, n2, n3⟩ := glweNormalize_facts n
  have hG := gbytes_mod64 hn a
  have hb := tbAuto_ge_bigNorm be n a a k
  have hbn : normTmp n ≤ bigNormTmp be n := by unfold normTmp bigNormTmp; cases be <;> simp only [BE.big] <;> omega
  have hrot : reqA (treeGlweRotateAssign n) = oneLimbTmp n := by simp [treeGlweRotateAssign, treeOneLimb, reqA, tbGlweRotate]
  have hrsh : reqA (treeGlweRsh n) = tbGlweShift n := by
    simp only [treeGlweRsh, treeRsh, reqA, reqA_leaf, tbGlweShift, rshTmp, lshTmp]; omega
  have hol : oneLimbTmp n ≤ normTmp n := by unfold oneLimbTmp normTmp; omega
  unfold treePackStep
  refine ⟨?_, ?_, ?_⟩
  · simp [altList, fits, u1, v1, n1, treeGlweRotateAssign, treeGlweRsh, treeRsh, treeOneLimb]
  · simp [altList, aligned, u2, v2, n2, hG, treeGlweRotateAssign, treeGlweRsh, treeRsh, treeOneLimb]
  · simp only [altList, reqA, hrot, hrsh, n3]
    omega

theorem glwePack_facts (be : BE) (n rounds iters : Nat) (res : G) (k : K) (hn : n % 8 = 0)
    (hin : res.rank = k.rankIn) (hout : res.rank = k.rankOut) :
    fits (treeGlwePack be n rounds iters res res k) = true ∧ aligned (treeGlwePack be n rounds iters res res k) = true ∧
    reqA (treeGlwePack be n rounds iters res res k) ≤ tbGlwePack be n res k := by
  obtain ⟨p1, p2, p3⟩ := packStep_facts be n res k hn hin hout
  obtain ⟨t1, t2, t3⟩ := trace_facts be n iters res res k hn hin hout
  have hl := reqA_loop_le rounds (treePackStep be n res k)
  unfold treeGlwePack tbGlwePack
  refine ⟨by simp [fits, fits_loop rounds _ p1, t1], by simp [aligned, aligned_loop rounds _ p2, t2], ?_⟩
  simp only [reqA]; omega

theorem glwePackerAdd_facts (be : BE) (n : Nat) (res : G) (k : K) (hn : n % 8 = 0)
    (hin : res.rank = k.rankIn) (hout : res.rank = k.rankOut) :
    fits (treeGlwePackerAdd be n res k) = true ∧ aligned (treeGlwePackerAdd be n res k) = true ∧
    reqA (treeGlwePackerAdd be n res k) ≤ tbGlwePacker be n res k := by
  obtain ⟨p1, p2, p3⟩ := packStep_facts be n res k hn hin hout
  obtain ⟨n1, n2, n3⟩ := glweNormalize_facts n
  have hb := tbAuto_ge_bigNorm be n res res k
  have hbn : normTmp n ≤ bigNormTmp be n := by unfold normTmp bigNormTmp; cases be <;> simp only [BE.big] <;> omega
  unfold treeGlwePackerAdd tbGlwePacker
  refine ⟨by simp [fits, p1, n1], by simp [aligned, p2, n2], ?_⟩
  simp only [reqA, n3]; omega

/-! ### relinearisation, cswap, CKKS -/

theorem relinConv_facts (n : Nat) (c : Prop) [Decidable c] (aD : Nat) (hn : n % 8 = 0) :
    fits (if c then AllocTree.take (vecBytes n 1 aD) (treeNormalize n) else .done) = true ∧
    aligned (if c then AllocTree.take (vecBytes n 1 aD) (treeNormalize n) else .done) = true ∧
    reqA (if c then AllocTree.take (vecBytes n 1 aD) (treeNormalize n) else .done) = (if c then vecBytes n 1 aD + normTmp n else 0) := by
  have hV := vec_mod64 hn 1 aD
  split <;> simp [fits, aligned, reqA, treeNormalize, hV]

theorem relinearize_facts (be : BE) (n tskSize : Nat) (a : G) (t : K) (hn : n % 8 = 0) (hs : tskSize ≤ t.size) :
    fits (treeGlweTensorRelinearize be n tskSize a t) = true ∧ aligned (treeGlweTensorRelinearize be n tskSize a t) = true ∧
    reqA (treeGlweTensorRelinearize be n tskSize a t) ≤ tbGlweTensorRelinearize be n a t := by
  obtain ⟨p1, p2, p3⟩ := gglweProduct_facts be n t.rankIn (ceilDiv (a.size * a.b2k) t.b2k) (t.rankOut + 1) t hn rfl rfl
  obtain ⟨c1, c2, c3⟩ := relinConv_facts n (a.b2k ≠ t.b2k) (ceilDiv (a.size * a.b2k) t.b2k) hn
  have hD1 := dft_mod64 be hn t.rankIn (ceilDiv (a.size * a.b2k) t.b2k)
  have hD2 := dft_mod64 be hn (t.rankOut + 1) tskSize
  have hm := dftBytes_mono be n (t.rankOut + 1) hs
  have hl := reqA_loop_le (t.rankOut + 1) (treeBigNormalize be n)
  have hla : aligned (loop (t.rankOut + 1) (treeBigNormalize be n)) = true := aligned_loop _ _ (by simp [treeBigNormalize])
  have hlf : fits (loop (t.rankOut + 1) (treeBigNormalize be n)) = true := fits_loop _ _ (by simp [treeBigNormalize])
  have hbn : reqA (treeBigNormalize be n) = bigNormTmp be n := by simp [treeBigNormalize]
  unfold treeGlweTensorRelinearize tbGlweTensorRelinearize
  simp only
  generalize (if a.b2k ≠ t.b2k then AllocTree.take (vecBytes n 1 (ceilDiv (a.size * a.b2k) t.b2k)) (treeNormalize n) else AllocTree.done) = cv at *
  generalize (if a.b2k ≠ t.b2k then vecBytes n 1 (ceilDiv (a.size * a.b2k) t.b2k) + normTmp n else 0) = cb at *
  refine ⟨by simp [fits, altList, p1, c1, hlf], by simp [aligned, altList, p2, c2, hla, hD1, hD2], ?_⟩
  simp only [reqA, altList, c3]
  omega


theorem cswapCore_facts (be : BE) (n : Nat) (ra rb : G) (k : K) (hn : n % 8 = 0)
    (hb0 : 0 < k.b2k) (hd : 1 ≤ k.dsize) :
    fits (treeCswapCore be n ra rb k) = true ∧ aligned (treeCswapCore be n ra rb k) = true ∧
    reqA (treeCswapCore be n ra rb k) ≤
      dftBytes be n (k.rankOut + 1) k.size +
        max (tbExtInternal be n ⟨k.rankOut, ceilDiv (max ra.maxK rb.maxK) k.b2k, k.b2k⟩ k +
              G.bytes n ⟨k.rankOut, ceilDiv (max ra.maxK rb.maxK) k.b2k, k.b2k⟩) (bigNormTmp be n) + bigBytes be n 1 k.size := by
  obtain ⟨e1, e2, e3⟩ := extInternal_facts be n (k.rankOut + 1) ⟨k.rankOut, ceilDiv (max ra.maxK rb.maxK) k.b2k, k.b2k⟩ k hn rfl hb0 hd rfl
  have hD := dft_mod64 be hn (k.rankOut + 1) k.size
  have hG := gbytes_mod64 hn (⟨k.rankOut, ceilDiv (max ra.maxK rb.maxK) k.b2k, k.b2k⟩ : G)
  have hB := big_mod64 be hn 1 k.size
  have hl := reqA_loop_le (ra.rank + 1) (treeBigNormalize be n)
  have hla : aligned (loop (ra.rank + 1) (treeBigNormalize be n)) = true := aligned_loop _ _ (by simp [treeBigNormalize])
  have hlf : fits (loop (ra.rank + 1) (treeBigNormalize be n)) = true := fits_loop _ _ (by simp [treeBigNormalize])
  have hbn : reqA (treeBigNormalize be n) = bigNormTmp be n := by simp [treeBigNormalize]
  unfold treeCswapCore
  simp only
  refine ⟨by simp [fits, e1, hlf], by simp [aligned, e2, hla, hD, hG, hB], ?_⟩
  simp only [reqA]; omega

/-- `cswap` with both operands in the selector's radix -/
theorem cswap_facts (be : BE) (n : Nat) (ra rb : G) (k : K) (hn : n % 8 = 0)
    (hrad : ra.b2k = k.b2k) (hb0 : 0 < k.b2k) (hd : 1 ≤ k.dsize) :
    fits (treeCswap be n ra rb k) = true ∧ aligned (treeCswap be n ra rb k) = true ∧
    reqA (treeCswap be n ra rb k) ≤ tbCswap be n ra rb k := by
  obtain ⟨c1, c2, c3⟩ := cswapCore_facts be n ra rb k hn hb0 hd
  unfold treeCswap tbCswap
  have hne : ¬ (ra.b2k ≠ k.b2k) := by simp [hrad]
  simp only [if_pos hrad, if_neg hne]
  refine ⟨c1, c2, ?_⟩
  omega

theorem ckksRotate_facts (be : BE) (n : Nat) (ct : G) (k : K) (hn : n % 8 = 0) (hin : ct.rank = k.rankIn) (hout : ct.rank = k.rankOut) :
    fits (treeCkksRotate be n ct k) = true ∧ aligned (treeCkksRotate be n ct k) = true ∧
    reqA (treeCkksRotate be n ct k) ≤ tbCkksRotate be n ct k := by
  obtain ⟨a1, a2, a3⟩ := automorphism_facts be n ct ct k hn hin hout
  have hb := tbAuto_ge_bigNorm be n ct ct k
  have hr := rsh_le_bigNorm be n
  unfold treeCkksRotate tbCkksRotate
  refine ⟨by simp [fits, a1, treeGlweLsh, treeLsh], by simp [aligned, a2, treeGlweLsh, treeLsh], ?_⟩
  simp only [reqA, treeGlweLsh, treeLsh, reqA_leaf, tbGlweShift, lshTmp, rshTmp] at *
  omega

theorem ckksPtVecZnx_facts (n : Nat) :
    fits (treeCkksPtVecZnx n) = true ∧ aligned (treeCkksPtVecZnx n) = true ∧ reqA (treeCkksPtVecZnx n) ≤ tbCkksPtVecZnx n := by
  unfold treeCkksPtVecZnx tbCkksPtVecZnx
  refine ⟨by simp [altList, fits, treeGlweLsh, treeLsh, treeRsh, treeGlweNormalize, treeNormalize],
    by simp [altList, aligned, treeGlweLsh, treeLsh, treeRsh, treeGlweNormalize, treeNormalize], ?_⟩
  simp only [altList, reqA, treeGlweLsh, treeLsh, treeRsh, treeGlweNormalize, treeNormalize, reqA_leaf, tbGlweShift, tbGlweNormalize, lshTmp, rshTmp, normTmp]
  omega

theorem ckksEncryptSk_facts (be : BE) (n : Nat) (ct : G) (hn : n % 8 = 0) :
    fits (treeCkksEncryptSk be n ct) = true ∧ aligned (treeCkksEncryptSk be n ct) = true ∧
    reqA (treeCkksEncryptSk be n ct) ≤ tbCkksEncryptSk be n ct.size := by
  obtain ⟨e1, e2, e3⟩ := glweEncryptSk_facts be n ct hn
  obtain ⟨p1, p2, p3⟩ := ckksPtVecZnx_facts n
  unfold treeCkksEncryptSk tbCkksEncryptSk
  refine ⟨by simp [fits, e1, p1], by simp [aligned, e2, p2], ?_⟩
  simp only [reqA]; omega

theorem ckksDecrypt_facts (be : BE) (n : Nat) (ct : G) (hn : n % 8 = 0) :
    fits (treeCkksDecrypt be n ct) = true ∧ aligned (treeCkksDecrypt be n ct) = true ∧
    reqA (treeCkksDecrypt be n ct) ≤ tbCkksDecrypt be n ct.size := by
  obtain ⟨d1, d2, d3⟩ := glweDecrypt_facts be n ct hn
  have hV := vec_mod64 hn 1 ct.size
  unfold treeCkksDecrypt tbCkksDecrypt tbCkksExtractPt
  refine ⟨by simp [fits, altList, d1, treeRsh, treeLsh], by simp [aligned, altList, d2, hV, treeRsh, treeLsh], ?_⟩
  simp only [reqA, altList, treeRsh, treeLsh, reqA_leaf]; omega

end Scratch
