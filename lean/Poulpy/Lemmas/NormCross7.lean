/-
Helper lemmas for C08: the cross-radix `vec_znx_normalize`, part 7 — the classes (N1), (N2) and the
value theorem for negative limb offsets.
-/
import Poulpy.Lemmas.NormCross6

namespace NormL

section
variable {bits ab rb rs lsh : Nat} {H : Int} {a : List Int}

/-- class (N1) after the clamps: the shifted input lies entirely below the result
(`Ln·ab ≥ rb·rs`): the carry of the whole input, rounded down by `g = Ln·ab − rb·rs` bits, is the result -/
theorem crossCore_N1 (c : CrossCtx bits ab rb rs lsh H a) (Ln p g take pad resStart : Nat)
    (hp : p + lsh = Ln * ab) (hg : g + rb * rs = Ln * ab) {out : List Int}
    (h : crossCore bits ab rb rs lsh a 0 0 take pad resStart rs
          (if g ≠ 0 then (if g < bits then (if bits = 64 then mulPow2NegRef ((carryOnlyRun bits ab lsh (a.drop 0)).getD 0) g
              else mulPow2Neg128 ((carryOnlyRun bits ab lsh (a.drop 0)).getD 0) g) else 0)
            else (carryOnlyRun bits ab lsh (a.drop 0)).getD 0) = some out) :
    out.length = rs ∧ (∀ d ∈ out, |d| ≤ 2 ^ rb - 1) ∧
    TorusNear (valI rb out) (rb * rs) (valI ab a) (ab * a.length + p) ∧
    (a = [] → TorusEq (valI rb out) (rb * rs) (valI ab a) (ab * a.length + p)) := by
  obtain ⟨hcD, dD, hdD, hdD0, hva⟩ := cross_discard c 0 (Nat.zero_le _)
  have hcz : a = [] → (carryOnlyRun bits ab lsh (a.drop 0)).getD 0 = 0 := by
    intro ha; subst ha; rfl
  generalize (carryOnlyRun bits ab lsh (a.drop 0)).getD 0 = cD at h hcD hva hcz
  obtain ⟨ρ, hρe, hρ, hρ0, hc0⟩ := cross_gap_carry c g hcD
  generalize (if g ≠ 0 then (if g < bits then (if bits = 64 then mulPow2NegRef cD g else mulPow2Neg128 cD g) else 0)
            else cD) = c0 at h hρe hc0
  obtain ⟨hlen, hlims, q, hv⟩ := crossCore_noloop c take pad resStart rs c0 hc0 (le_refl _) h
  rw [Nat.sub_self, Nat.mul_zero, pow_zero, mul_one] at hv
  rw [crossTop_zero, Nat.sub_zero] at hva
  have hEb := cross_err_bound (two_pow_pos (ab * a.length)) hρ hρ0 (by rw [Nat.sub_zero] at hdD; exact hdD)
  have eg : (2 : Int) ^ (ab * a.length + Ln * ab) = 2 ^ g * 2 ^ (ab * a.length) * 2 ^ (rb * rs) := by
    rw [← pow_add, ← pow_add]; congr 1; omega
  have hrel : valI ab a * 2 ^ lsh * 2 ^ (rb * rs)
      = (valI rb out + q * 2 ^ (rb * rs)) * 2 ^ (ab * a.length + Ln * ab)
        + (ρ * 2 ^ (ab * a.length) + dD) * 2 ^ (rb * rs) := by
    rw [hva, hv, eg, hρe]; ring
  have hE : |ρ * 2 ^ (ab * a.length) + dD| * 2 ^ (rb * rs) ≤ 2 ^ (ab * a.length + Ln * ab) := by
    rw [eg]; exact mul_le_mul_of_nonneg_right hEb (le_of_lt (two_pow_pos _))
  obtain ⟨hn, hx⟩ := neg_final_arith (valI rb out) (valI ab a) q _ ab rb rs a.length lsh Ln p hp hrel hE
  refine ⟨hlen, hlims, hn, fun ha => hx ?_⟩
  have hc0' := hcz ha
  subst hc0'
  have hρz : ρ = 0 :=
    cross_rho_zero (take := g) (pinit := 0) (K := c0) (T := 0) (ρ := ρ) (by simp only [pow_zero, one_mul]; linarith) rfl hρ
      (dvd_zero _)
  rw [hρz, hdD0 (by rw [ha]; rfl)]; ring

/-- class (N2) after the clamps: overlap; `m = min(R, a_bits)` bits of `a` are used, `R = rb·rs − Ln·ab` -/
theorem crossCore_N2_value (c : CrossCtx bits ab rb rs lsh H a) (Ln p m Sa Sr take pad resEnd : Nat)
    (hp : p + lsh = Ln * ab) (hLn1 : 1 ≤ Ln) (hLn : Ln * ab < rb * rs)
    (hm : m = min (rb * rs - Ln * ab) (a.length * ab))
    (ha1 : 1 ≤ Sa) (ha2 : Sa ≤ a.length) (ha3 : Sa * ab = m + take) (ha5 : take < ab)
    (hr1 : 1 ≤ Sr) (hr2 : Sr ≤ rs) (hr4 : rb * (rs - Sr) + pad = rs * rb - (Ln * ab + m)) (hr5 : pad < rb)
    (htake : take = (a.length * ab - m) % ab) (hpad : pad = (rs * rb - (Ln * ab + m)) % rb)
    (hresEnd : resEnd = Ln * ab / rb) {out : List Int}
    (h : crossCore bits ab rb rs lsh a Sa 0 take pad Sr resEnd
          ((carryOnlyRun bits ab lsh (a.drop Sa)).getD 0) = some out) :
    out.length = rs ∧ (∀ d ∈ out, |d| ≤ 2 ^ rb - 1) ∧
    TorusNear (valI rb out) (rb * rs) (valI ab a) (ab * a.length + p) ∧
    (ab * a.length + Ln * ab ≤ rb * rs + lsh → TorusEq (valI rb out) (rb * rs) (valI ab a) (ab * a.length + p)) := by
  have hab1 : 1 ≤ ab := by have := c.hlsh; omega
  have hlsh := c.hlsh
  have hcomm : rb * rs = rs * rb := Nat.mul_comm _ _
  have hcomm2 : ab * a.length = a.length * ab := Nat.mul_comm _ _
  have hRe : (rb * rs - Ln * ab) + Ln * ab = rb * rs := Nat.sub_add_cancel (by omega)
  generalize rb * rs - Ln * ab = R at hm hRe ⊢
  have hboth : take = 0 ∨ pad = 0 := by
    rcases Nat.le_total (a.length * ab) R with hc | hc
    · left; have : m = a.length * ab := by omega
      rw [htake, this]; simp
    · right; have : m = R := by omega
      have : rs * rb - (Ln * ab + m) = 0 := by omega
      rw [hpad, this]; simp
  have hcase : (take = 0 ∧ a.length - Sa = 0) ∨ rb * (rs - Sr) + pad = 0 := by
    rcases Nat.le_total (a.length * ab) R with hc | hc
    · left
      have hme : m = a.length * ab := by omega
      have ht0 : take = 0 := by rw [htake, hme]; simp
      refine ⟨ht0, ?_⟩
      have : Sa * ab = a.length * ab := by omega
      have : Sa = a.length := Nat.eq_of_mul_eq_mul_right (by omega) this
      omega
    · right
      have hme : m = R := by omega
      have : rs * rb - (Ln * ab + m) = 0 := by omega
      omega
  have hexf : ab * a.length + Ln * ab ≤ rb * rs + lsh →
      a.length - Sa = 0 ∧ (take = 0 ∨ (rb * (rs - Sr) + pad = 0 ∧ take ≤ lsh)) := by
    intro hle
    rcases Nat.le_total (a.length * ab) R with hc | hc
    · have hme : m = a.length * ab := by omega
      have ht0 : take = 0 := by rw [htake, hme]; simp
      have : Sa * ab = a.length * ab := by omega
      have : Sa = a.length := Nat.eq_of_mul_eq_mul_right (by omega) this
      exact ⟨by omega, Or.inl ht0⟩
    · have hme : m = R := by omega
      have hlt : a.length * ab - m < ab := by omega
      have hte : take = a.length * ab - m := by rw [htake]; exact Nat.mod_eq_of_lt hlt
      have : Sa * ab = a.length * ab := by omega
      have : Sa = a.length := Nat.eq_of_mul_eq_mul_right (by omega) this
      exact ⟨by omega, Or.inr ⟨by omega, by omega⟩⟩
  have hcD0 : a.length - Sa = 0 → (carryOnlyRun bits ab lsh (a.drop Sa)).getD 0 = 0 := by
    intro h0
    rw [List.drop_eq_nil_of_le (by omega)]; rfl
  have hq : crossQ (rb * (rs - Sr) + pad) ab take Sa = R := by unfold crossQ; omega
  have hre : resEnd = (rb * rs - R) / rb := by
    rw [hresEnd]; congr 1; omega
  have hP1 : a.length = Sa + (a.length - Sa) := by omega
  have hP3 : rb * (rs - Sr) + pad + Sa * ab + Ln * ab = rb * rs + take := by omega
  have hP4 : a.length - Sa = 0 → Sa = a.length := by omega
  have hLn' : Ln * ab ≤ rb * rs := by omega
  have hRlt : R < rb * rs := by
    have : 1 ≤ Ln * ab := Nat.mul_pos (by omega) (by omega)
    omega
  obtain ⟨hcD, dD, hdD, hdD0, hva⟩ := cross_discard c Sa ha2
  generalize (carryOnlyRun bits ab lsh (a.drop Sa)).getD 0 = cD at h hcD hva hcD0
  obtain ⟨hlen, hlims, K, ρ, q, hK, hρ, hρ0, hZ⟩ := crossCore_N2 c Sa Sr take pad resEnd R cD
    ha1 ha2 ha5 hr5 hboth hr1 hr2 hcD hq hRlt hre h
  have hEb := cross_err_bound (two_pow_pos (ab * (a.length - Sa))) hρ hρ0 hdD
  obtain ⟨E, hrel, hE, hE0⟩ := neg_rel_arith (valI rb out) (valI ab a) (crossTop ab lsh a Sa cD) K q ρ dD ab rb rs lsh Ln
    Sa (a.length - Sa) take (rb * (rs - Sr) + pad) a.length hP1 hLn' hP3 hcase hva (fun h0 => hdD0 (hP4 h0)) hK hρ0 hEb hZ
  obtain ⟨hn, hx⟩ := neg_final_arith (valI rb out) (valI ab a) q E ab rb rs a.length lsh Ln p hp hrel hE
  refine ⟨hlen, hlims, hn, fun hle => hx ?_⟩
  obtain ⟨hd0, hc⟩ := hexf hle
  apply hE0 hd0
  rcases hc with ht0 | ⟨hp0, htl⟩
  · exact hρ0 ht0
  · have hcz := hcD0 hd0
    subst hcz
    have hdvd : (2 : Int) ^ take ∣ crossTop ab lsh a Sa 0 := by
      unfold crossTop; rw [zero_add]
      exact Dvd.dvd.mul_right (pow_dvd_pow 2 htl) _
    exact cross_rho_zero hK hp0 hρ hdvd

end

end NormL

namespace NormL

section
variable {bits ab rb rs lsh : Nat} {H : Int} {a : List Int}

/-- **classes (N1), (N2): `limbs_offset = −Ln < 0`** (offset `−Ln·ab + lsh < 0`, `p = Ln·ab − lsh = −offset`) -/
theorem normalizeCrossCoef_value_N (c : CrossCtx bits ab rb rs lsh H a) (off : Int) (Ln p : Nat) (hLn1 : 1 ≤ Ln)
    (hso : splitOffset ab off = (lsh, -(Ln : Int))) (hp : p + lsh = Ln * ab) {out : List Int}
    (h : normalizeCrossCoef bits rb rs off ab a = some out) :
    out.length = rs ∧ (∀ d ∈ out, |d| ≤ 2 ^ rb - 1) ∧
    TorusNear (valI rb out) (rb * rs) (valI ab a) (ab * a.length + p) ∧
    (ab * a.length + Ln * ab ≤ rb * rs + lsh → TorusEq (valI rb out) (rb * rs) (valI ab a) (ab * a.length + p)) := by
  have hab1 : 1 ≤ ab := by have := c.hlsh; omega
  have hlsh := c.hlsh
  have hrb1 := c.hrb1
  have hRb := two_pow_pos rb
  have hLnab : 1 ≤ Ln * ab := Nat.mul_pos (by omega) (by omega)
  have hLab : ab ≤ Ln * ab := Nat.le_mul_of_pos_left ab (by omega)
  rw [normalizeCrossCoef_core, hso] at h
  simp only at h
  have f1 : -(-(Ln : Int)) * (ab : Int) = ((Ln * ab : Nat) : Int) := by push_cast; ring
  have f2 : ((a.length * ab : Nat) : Int) - -(Ln : Int) * (ab : Int) = ((a.length * ab : Nat) : Int) + ((Ln * ab : Nat) : Int) := by
    push_cast; ring
  have f3 : -(Ln : Int) * (ab : Int) = -((Ln * ab : Nat) : Int) := by push_cast; ring
  have f4 : ((rs * rb : Nat) : Int) + -((Ln * ab : Nat) : Int) = ((rs * rb : Nat) : Int) - ((Ln * ab : Nat) : Int) := by ring
  have f5 : Int.toNat (((Ln * ab : Nat) : Int) - ((rs * rb : Nat) : Int)) = Ln * ab - rs * rb := by omega
  rw [f1, f2, f3, f4, clampNat_natCast, clampNat_add, clampNat_neg, clampNat_sub, f5] at h
  simp only [Nat.zero_div] at h
  have hcomm : rb * rs = rs * rb := Nat.mul_comm _ _
  have hzl : ∀ d ∈ List.replicate rs (0 : Int), |d| ≤ 2 ^ rb - 1 := by
    intro d hd; rw [(List.mem_replicate.mp hd).2]; simp; linarith
  by_cases hrs0 : rs = 0
  · subst hrs0
    have h0 : min (a.length * ab + Ln * ab) (0 * rb) = 0 := by simp
    rw [h0] at h
    have hz : (0 + rb - 1) / rb = 0 := Nat.div_eq_of_lt (by omega)
    rw [if_pos hz] at h
    cases h
    exact ⟨by simp, hzl, by simpa using torusNear_zero_prec _ _ _, fun hle => by omega⟩
  · have hrs1 : 1 ≤ rs := by omega
    have hR1 : 1 ≤ rs * rb := Nat.mul_pos (by omega) (by omega)
    by_cases hgap : rs * rb ≤ Ln * ab
    · -- (N1)
      have e1 : min (Ln * ab) (rs * rb) = rs * rb := by omega
      have e2 : min (a.length * ab + Ln * ab) (rs * rb) = rs * rb := by omega
      have e3 : min (rs * rb - Ln * ab) (a.length * ab) = 0 := by omega
      rw [e1, e2, e3] at h
      have e4 : (rs * rb + rb - 1) / rb = rs := by
        have := ceil_div_mul_add rb rs 0 hrb1 (by omega); simpa using this
      have e5 : (0 + ab - 1) / ab = 0 := Nat.div_eq_of_lt (by omega)
      have e6 : rs * rb / rb = rs := Nat.mul_div_cancel rs (by omega)
      rw [e4, e5, e6, if_neg (by omega)] at h
      obtain ⟨h1, h2, h3, h4⟩ := crossCore_N1 c Ln p (Ln * ab - rs * rb) _ _ _ hp (by omega) h
      refine ⟨h1, h2, h3, fun hle => h4 ?_⟩
      have : a.length * ab < ab := by
        have : ab * a.length = a.length * ab := Nat.mul_comm _ _
        omega
      have : a.length = 0 := by
        by_contra hne
        have : ab * 1 ≤ ab * a.length := Nat.mul_le_mul_left ab (by omega)
        have : ab * a.length = a.length * ab := Nat.mul_comm _ _
        omega
      exact List.eq_nil_of_length_eq_zero this
    · have hlt : Ln * ab < rs * rb := by omega
      have e1 : min (Ln * ab) (rs * rb) = Ln * ab := by omega
      have e0 : Ln * ab - rs * rb = 0 := by omega
      rw [e1, e0] at h
      simp only [ne_eq, not_true_eq_false, if_false] at h
      by_cases has0 : a.length = 0
      · -- empty input
        have ha : a = [] := List.eq_nil_of_length_eq_zero has0
        subst ha
        simp only [List.length_nil, Nat.zero_mul, Nat.zero_add, Nat.min_zero, Nat.sub_zero] at h
        have e5 : (ab - 1) / ab = 0 := Nat.div_eq_of_lt (by omega)
        have e7 : min (Ln * ab) (rs * rb) = Ln * ab := by omega
        rw [e5, e7] at h
        have hne : ¬ (Ln * ab + rb - 1) / rb = 0 := by
          intro h0
          have := (Nat.div_eq_zero_iff).mp h0
          omega
        rw [if_neg hne] at h
        have hc0 : (carryOnlyRun bits ab lsh (([] : List Int).drop 0)).getD 0 = 0 := rfl
        rw [hc0] at h
        have hre : Ln * ab / rb ≤ rs := by
          have : Ln * ab / rb ≤ rs * rb / rb := Nat.div_le_div_right (by omega)
          rwa [Nat.mul_div_cancel rs (by omega)] at this
        obtain ⟨h1, h2, q, h3⟩ := crossCore_noloop c _ _ _ _ 0 (by have := c.hH0; simp; linarith) hre h
        have heq : TorusEq (valI rb out) (rb * rs) (valI ab []) (ab * 0 + p) :=
          ⟨-q, by rw [h3]; simp [valI]; ring⟩
        exact ⟨h1, h2, heq.near, fun _ => heq⟩
      · -- (N2)
        have has1 : 1 ≤ a.length := by omega
        have haT1 : 1 ≤ a.length * ab := Nat.mul_pos (by omega) (by omega)
        obtain ⟨m, hm⟩ : ∃ m, m = min (rs * rb - Ln * ab) (a.length * ab) := ⟨_, rfl⟩
        have hm1 : 1 ≤ m := by omega
        have e2 : min (a.length * ab + Ln * ab) (rs * rb) = Ln * ab + m := by omega
        rw [e2, ← hm] at h
        obtain ⟨ha1, ha2, ha3, _, ha5⟩ := ceil_facts ab a.length m hab1 hm1 (by omega)
        obtain ⟨hr1, hr2, _, hr4, hr5⟩ := ceil_facts rb rs (Ln * ab + m) hrb1 (by omega) (by omega)
        rw [if_neg (by omega)] at h
        exact crossCore_N2_value c Ln p m _ _ _ _ _ hp hLn1 (by omega) (by rw [hm, hcomm]) ha1 ha2 ha3 ha5 hr1 hr2 hr4 hr5
          rfl rfl rfl h

end

end NormL

namespace NormL

theorem CrossCtx.with_lsh {bits ab rb rs lsh l' : Nat} {H : Int} {a : List Int}
    (c : CrossCtx bits ab rb rs lsh H a) (h : l' < ab) : CrossCtx bits ab rb rs l' H a :=
  { c with hlsh := h }

/-- **value theorem of the cross-radix `vec_znx_normalize` / `vec_znx_big_normalize`, every offset**:
`rs` limbs with `|d| ≤ 2^rb − 1`, representing `a·2^off` on the torus within one unit of the last
limb; exact when the shifted input needs no more bits than the result has (`ab·a_size − off ≤ rb·rs`). -/
theorem normalizeCrossCoef_value {bits ab rb rs : Nat} {H : Int} {a : List Int}
    (c : CrossCtx bits ab rb rs 0 H a) (off : Int) {out : List Int}
    (h : normalizeCrossCoef bits rb rs off ab a = some out) :
    out.length = rs ∧ (∀ d ∈ out, |d| ≤ 2 ^ rb - 1) ∧
    TorusNear (valI rb out) (rb * rs) (valI ab a * 2 ^ off.toNat) (ab * a.length + (-off).toNat) ∧
    (((ab * a.length : Nat) : Int) - off ≤ ((rb * rs : Nat) : Int) →
      TorusEq (valI rb out) (rb * rs) (valI ab a * 2 ^ off.toNat) (ab * a.length + (-off).toNat)) := by
  have hab1 : 1 ≤ ab := by have := c.hlsh; omega
  obtain ⟨hoff, hl⟩ := splitOffset_spec hab1 off
  generalize hso : splitOffset ab off = so at hoff hl ⊢
  obtain ⟨lsh, lo⟩ := so
  simp only at hoff hl ⊢
  have cl := c.with_lsh hl
  rcases le_or_gt 0 lo with hlo | hlo
  · obtain ⟨L, rfl⟩ := Int.eq_ofNat_of_zero_le hlo
    have hLab : (L : Int) * (ab : Int) = ((L * ab : Nat) : Int) := by push_cast; ring
    have e1 : off.toNat = L * ab + lsh := by omega
    have e2 : (-off).toNat = 0 := by omega
    obtain ⟨h1, h2, h3, h4⟩ := normalizeCrossCoef_value_P cl off L hso h
    rw [e1, e2, Nat.add_zero]
    refine ⟨h1, h2, h3, fun hle => h4 ?_⟩
    rw [hoff, hLab] at hle
    have h5 : ((ab * a.length : Nat) : Int) ≤ ((rb * rs : Nat) : Int) + ((L * ab : Nat) : Int) + (lsh : Int) := by linarith
    exact_mod_cast h5
  · obtain ⟨Ln, rfl⟩ := Int.exists_eq_neg_ofNat (le_of_lt hlo)
    have hLn1 : 1 ≤ Ln := by omega
    have hLab : (Ln : Int) * (ab : Int) = ((Ln * ab : Nat) : Int) := by push_cast; ring
    have hbl : lsh ≤ Ln * ab := by
      have : ab * 1 ≤ ab * Ln := Nat.mul_le_mul_left ab hLn1
      have : ab * Ln = Ln * ab := Nat.mul_comm _ _
      omega
    have hoff' : off = -((Ln * ab : Nat) : Int) + lsh := by rw [hoff]; push_cast; ring
    have e1 : off.toNat = 0 := by omega
    have e2 : (-off).toNat = Ln * ab - lsh := by omega
    obtain ⟨h1, h2, h3, h4⟩ := normalizeCrossCoef_value_N cl off Ln (Ln * ab - lsh) hLn1 hso (by omega) h
    rw [e1, e2, pow_zero, mul_one]
    refine ⟨h1, h2, h3, fun hle => h4 ?_⟩
    rw [hoff'] at hle
    have h5 : ((ab * a.length : Nat) : Int) + ((Ln * ab : Nat) : Int) ≤ ((rb * rs : Nat) : Int) + (lsh : Int) := by linarith
    exact_mod_cast h5

end NormL
