/-
L0 — digit / carry extraction on two's-complement machine integers (import-free).

Rust anchors
  poulpy-cpu-ref/src/reference/znx/normalization.rs : get_digit_i64, get_carry_i64,
                                                      get_digit_i128, get_carry_i128
  poulpy-hal/src/layouts/encoding.rs               : the private copies of the same four, div_round_i64/i128
  poulpy-cpu-ref/src/reference/znx/mul.rs          : the negative-`k` branch of znx_mul_power_of_two_assign_ref

Conventions: a machine integer of width `bits` (64 or 128) is an `Int` in
`[-2^(bits-1), 2^(bits-1))`; every Rust operator is the `Int` operator followed by `wrapN bits`
(the harness builds with overflow-checks off, so this *is* the release behaviour).  All kernels are
written once, generically in `bits`; `bits = 64` is the `i64` family, `bits = 128` the `i128` one.
-/
import Poulpy.Model.Basic

/-- two's-complement wrap to `bits` bits; `wrapN 64 = w64`, `wrapN 128 = w128`. -/
def wrapN (bits : Nat) (x : Int) : Int := (x + 2 ^ (bits - 1)) % 2 ^ bits - 2 ^ (bits - 1)

/-- Rust `x << s` on a signed `bits`-bit integer (`s < bits`): multiply, then wrap. -/
def shlW (bits : Nat) (x : Int) (s : Nat) : Int := wrapN bits (x * 2 ^ s)

/-- Rust `x >> s` on a signed integer: arithmetic shift = floor division. -/
def sarI (x : Int) (s : Nat) : Int := x / 2 ^ s

/-- `get_digit_i64` / `get_digit_i128`: `(x << (BITS - b)) >> (BITS - b)`, the balanced residue of
`x` modulo `2^b` in `[-2^(b-1), 2^(b-1))`.  Requires `1 ≤ b ≤ bits`. -/
def getDigitW (bits b : Nat) (x : Int) : Int := sarI (shlW bits x (bits - b)) (bits - b)

/-- `get_carry_i64` / `get_carry_i128`: `x.wrapping_sub(digit) >> b`. -/
def getCarryW (bits b : Nat) (x d : Int) : Int := sarI (wrapN bits (x - d)) b

/-- mathematical balanced residue (the specification of `getDigitW`) -/
def bmod (b : Nat) (x : Int) : Int := (x + 2 ^ (b - 1)) % 2 ^ b - 2 ^ (b - 1)

/-- mathematical carry: `(x - bmod b x) / 2^b` (the division is exact) -/
def bcarry (b : Nat) (x : Int) : Int := (x - bmod b x) / 2 ^ b

/-- Rust `i64`/`i128` `signum` -/
def sgn (x : Int) : Int := if x > 0 then 1 else if x < 0 then -1 else 0

/-- `div_round_i64` / `div_round_i128` (round to nearest, ties away from zero); Rust `/`, `%`
truncate toward zero.  `b = 0` is a Rust panic (`assert!(b != 0)`): `none`. -/
def divRound (bits : Nat) (a b : Int) : Option Int :=
  if b = 0 then none
  else
    let q := Int.tdiv a b
    let r := Int.tmod a b
    if wrapN bits (2 * r.natAbs) ≥ (b.natAbs : Int) then some (wrapN bits (q + sgn a * sgn b)) else some q

/-- the negative-power branch of `znx_mul_power_of_two_assign_ref` (`k ≥ 1` is the shift amount):
`(x + ((1 << (k-1)) - sign_bit)) >> k`, round to nearest with ties toward +∞ for x ≥ 0 … exactly as
written in the Rust. -/
def mulPow2NegRef (x : Int) (k : Nat) : Int :=
  let signBit : Int := (sarI x 63) % 2            -- (x >> 63) & 1
  let bias := w64 (shlW 64 1 (k - 1) - signBit)
  sarI (w64 (x + bias)) k

/-- `nfc_mul_pow2_assign` with a negative power on `i128` (poulpy commit eb1c1ea: rounding shift,
the `i128` twin of `mulPow2NegRef`): `(x.wrapping_add((1 << (k-1)) - sign_bit)) >> k`. -/
def mulPow2Neg128 (x : Int) (k : Nat) : Int :=
  let signBit : Int := (sarI x 127) % 2           -- (x >> 127) & 1
  let bias := wrapN 128 (shlW 128 1 (k - 1) - signBit)
  sarI (wrapN 128 (x + bias)) k
