/-
Key bundles of poulpy-bin-fhe (`CircuitBootstrappingKey`, `BDDKey`): the order in which the sub-keys
read the two sources handed to `…_encrypt_sk`, and the segment of each stream every sub-key consumes.

  circuit_bootstrapping_key_encrypt_sk (circuit_bootstrapping/key.rs:224)
      let gal_els: Vec<i64> = res.atk.keys().sorted().copied().collect();
      for p in gal_els { glwe_automorphism_key_encrypt_sk(atk[p], p, …, source_xe, source_xa) }
      blind_rotation_key_encrypt_sk(brk, …, source_xe, source_xa)
      gglwe_to_ggsw_key_encrypt_sk(tsk, …, source_xe, source_xa)
  bdd_key_encrypt_sk (bdd_arithmetic/key.rs:171)
      if ks_glwe is some { sk_out.fill_ternary_prob(0.5, source_xe); glwe_switching_key_encrypt_sk(ks_glwe, …) }
      glwe_to_lwe_key_encrypt_sk(ks_lwe, …)
      circuit_bootstrapping_key_encrypt_sk(cbt, …)

`atk` is a `HashMap<i64, _>`: its iteration order is unspecified; the routine iterates the SORTED keys.
Every sub-key routine draws, per GLWE cell in its own loop order, `rank_out·size·n` words of `source_xa`
(`vec_znx_fill_uniform`, one word per coefficient — C06 `fill_uniform_never_rejects`) and one error
polynomial of `source_xe`.
-/
namespace Core

inductive SubKey where
  | ksGlwe
  | ksLwe
  | atk (p : Int)
  | brk
  | tsk
deriving DecidableEq, Repr

/-- insertion into an ascending list -/
def insertGal (x : Int) : List Int → List Int
  | [] => [x]
  | y :: r => if x ≤ y then x :: y :: r else y :: insertGal x r

/-- `res.atk.keys().sorted()` (ascending `i64`; the keys of a map are distinct, so the sorting algorithm is immaterial) -/
def sortedGal (gal : List Int) : List Int := gal.foldr insertGal []

/-- encryption order of a `CircuitBootstrappingKey`; `gal` = the keys of the `atk` map in ANY (iteration) order -/
def cbtOrder (gal : List Int) : List SubKey := (sortedGal gal).map SubKey.atk ++ [SubKey.brk, SubKey.tsk]

/-- encryption order of a `BDDKey` (`ksg` = the optional GLWE→GLWE switching key is present) -/
def bddOrder (ksg : Bool) (gal : List Int) : List SubKey :=
  (if ksg then [SubKey.ksGlwe] else []) ++ [SubKey.ksLwe] ++ cbtOrder gal

/-- what one sub-key consumes: words of `source_xa`, error polynomials of `source_xe` (one per cell) -/
structure Use where
  maskWords : Nat
  errPolys : Nat
deriving DecidableEq, Repr

/-- the segments of the two streams read by the sub-keys, in order:
`(sub-key, first mask word, mask words, first error polynomial, error polynomials)` -/
def segments (use : SubKey → Use) : List SubKey → Nat → Nat → List (SubKey × Nat × Nat × Nat × Nat)
  | [], _, _ => []
  | k :: r, ma, er =>
    (k, ma, (use k).maskWords, er, (use k).errPolys) :: segments use r (ma + (use k).maskWords) (er + (use k).errPolys)

end Core
