import Poulpy.Model.Core.Ks

/-!
# Key-switching and automorphism of GGLWE matrices (executable model, C03)

* `poulpy-core/src/keyswitching/gglwe.rs` : `gglwe_keyswitch`, `gglwe_keyswitch_assign`
* `poulpy-core/src/automorphism/gglwe_atk.rs` : `glwe_automorphism_key_automorphism{,_assign}`

Both are loops of the GLWE forms of `Model/Core/Ks.lean` over the `dnum × rank_in` ciphertexts of the
matrix.  A GGLWE is its list of ciphertexts, row-major (row `r`, input column `i` at `r·rank_in + i`).
The GGSW forms (`keyswitching/ggsw.rs`, `automorphism/ggsw_ct.rs`) additionally need the row expansion
`ggsw_expand_row` (C04) and are not modelled here.
-/

namespace Ks
open Hal

/-- a GGLWE operand: layout + ciphertexts -/
structure Mat where
  base2k : Nat
  dsize : Nat
  dnum : Nat
  rankIn : Nat
  rankOut : Nat
  cts : List Ct          -- dnum * rankIn ciphertexts of rank rankOut
deriving Repr

/-- **`gglwe_keyswitch(res, a, b)`**: `res` given by its layout (radix, limbs, ranks, dnum, dsize) -/
def gglweKeyswitch (big128 : Bool) (resBase2k resSize resRankIn resRankOut resDnum resDsize : Nat) (a : Mat) (b : Key) :
    Outcome (List Ct) :=
  if resRankIn ≠ a.rankIn then .panic "assert"
  else if a.rankOut ≠ b.rankIn then .panic "assert"
  else if resRankOut ≠ b.rankOut then .panic "assert"
  else if resDnum > a.dnum then .panic "assert"
  else if resDsize ≠ a.dsize then .panic "assert"
  else if resBase2k ≠ a.base2k then .panic "assert"
  else
    -- for row in 0..res.dnum { for col in 0..res.rank_in { glwe_keyswitch(res.at(row, col), a.at(row, col), b) } }
    oall ((List.range (resDnum * resRankIn)).map (fun idx =>
      match a.cts[idx]? with
      | none => Outcome.panic "bounds"
      | some x => keyswitch big128 resBase2k resSize resRankOut x b))

/-- **`gglwe_keyswitch_assign(res, a)`** -/
def gglweKeyswitchAssign (big128 : Bool) (res : Mat) (b : Key) : Outcome (List Ct) :=
  if res.rankOut ≠ b.rankOut then .panic "assert"
  else oall (res.cts.map (fun x => keyswitch big128 x.base2k x.size x.rank x b))

/-- `p * q % cyclotomic_order` with Rust's truncating `%` on `i64` -/
def mulGalois (p q : Int) (n : Nat) : Int := Int.tmod (p * q) (cyclotomicOrder n)

/-- one ciphertext of `glwe_automorphism_key_automorphism`: `σ_p` on every column, key-switch, `σ_{p⁻¹}` -/
def atkAutoCt (big128 : Bool) (resBase2k resSize : Nat) (p pInv : Int) (x : Ct) (key : Key) : Outcome Ct :=
  let colsOut := key.rankOut + 1
  -- vec_znx_automorphism(p, tmp, i, a_ct, i) for i in 0..cols_out (tmp has the layout of `a`)
  let tmp : Ct := { x with cols := (List.range colsOut).map (fun i => vecAutomorphism p x.n x.size (x.cols.getD i [])) }
  obind (keyswitch big128 resBase2k resSize key.rankOut tmp key) fun r =>
    .ok (ctMapCols r (vecAutomorphismAssignW w64 pInv))

/-- **`glwe_automorphism_key_automorphism(res, a, key)`** (`a.p = pA`); returns the new Galois element and the
ciphertexts.  The two code paths (`same_layout` or not) compute the same thing. -/
def atkAutomorphism (big128 : Bool) (n : Nat) (resBase2k resSize resDnum resDsize : Nat) (pA : Int) (a : Mat) (key : Key) :
    Outcome (Int × List Ct) :=
  if resDnum > a.dnum then .panic "assert"
  else if resDsize ≠ a.dsize then .panic "assert"
  else if resBase2k ≠ a.base2k then .panic "assert"
  else
    obind (galoisElementInv pA (cyclotomicOrder n)) fun pInv =>
    obind (oall ((List.range (resDnum * key.rankIn)).map (fun idx =>
      match a.cts[idx]? with
      | none => Outcome.panic "bounds"
      | some x => atkAutoCt big128 resBase2k resSize pA pInv x key))) fun cts =>
    .ok (mulGalois pA key.p n, cts)

/-- **`glwe_automorphism_key_automorphism_assign(res, key)`** -/
def atkAutomorphismAssign (big128 : Bool) (n : Nat) (pRes : Int) (res : Mat) (key : Key) : Outcome (Int × List Ct) :=
  if res.rankOut ≠ key.rankOut then .panic "assert"
  else
    obind (galoisElementInv pRes (cyclotomicOrder n)) fun pInv =>
    obind (oall ((List.range (res.dnum * key.rankIn)).map (fun idx =>
      match res.cts[idx]? with
      | none => Outcome.panic "bounds"
      | some x => atkAutoCt big128 x.base2k x.size pRes pInv x key))) fun cts =>
    .ok (mulGalois pRes key.p n, cts)

end Ks
