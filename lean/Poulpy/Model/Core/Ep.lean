import Poulpy.Model.Basic
import Poulpy.Model.HalSpec
import Poulpy.Model.VecNorm
import Poulpy.Model.Ring
import Poulpy.Model.Core.Basic
import Poulpy.Model.Core.Ks

/-!
External products and CMux (`poulpy-core/src/external_product/{glwe,gglwe,ggsw}.rs`,
`poulpy-bin-fhe/src/bdd_arithmetic/eval.rs::{Cmux,Cswap}`), line by line.

Representation
* a GLWE ciphertext is its `rank+1` columns (`List Col`), every column `size` limbs, every limb `n`
  coefficients; radix and shapes travel as explicit parameters (as in `Core.GLWE`);
* a EpGGSW ciphertext is the `MatZnx` it is stored in: `dnum` rows × `rank+1` input columns, each
  cell a GLWE (`rank+1` output columns × `size` limbs).  `GGSWPrepared` is the same content
  (`vmp_prepare` is the identity on content in the exact-integer HAL model, see `HalSpec`);
* the DFT-domain temporaries are `Hal.Buf`s, so that `set_size` has its exact meaning: limbs beyond
  the active size are *not* written and become visible again when the size grows.  The initial
  content of the `res_dft` scratch buffer is a parameter (`res0`): `glwe_external_product` zeroes
  it, `Cmux`/`Cswap` do not (it is whatever the scratch arena holds).  Since poulpy d3c2e96 the
  `dsize > 1` loop zeroes the limbs its first pass skips, so `res0` no longer influences the result
  (before that commit it did for `dsize ≥ 3`: see docs/C04.md).
* the big accumulator is `i64` on the FFT64 back ends and `i128` on the NTT120 ones: `big128`
  selects the normalisation / addition kernels (they agree whenever nothing wraps).
-/

namespace Core

/-- un-prepared / prepared EpGGSW: `cells[row*(rank+1) + ci]` is the GLWE of row `row`, input column `ci` -/
structure EpGGSW where
  base2k : Nat
  n : Nat
  rank : Nat
  dsize : Nat
  dnum : Nat
  size : Nat
  cells : List (List Col)
deriving Repr

def EpGGSW.toPMat (g : EpGGSW) : Hal.PMat :=
  { n := g.n, rows := g.dnum, colsIn := g.rank + 1, colsOut := g.rank + 1, size := g.size, data := g.cells }

/-- shape check of a container: `cols` columns × `size` limbs × `n` coefficients -/
def shapeOk (n cols size : Nat) (x : List Col) : Bool :=
  x.length == cols && x.all (fun c => c.length == size && c.all (fun l => l.length == n))

def EpGGSW.wf (g : EpGGSW) : Bool :=
  g.cells.length == g.dnum * (g.rank + 1) && g.cells.all (shapeOk g.n (g.rank + 1) g.size)

def zeroCols (n cols size : Nat) : List Col := List.replicate cols (List.replicate size (Hal.zeroP n))

def mkBuf (n cols size : Nat) (data : List Col) : Hal.Buf :=
  { n := n, cols := cols, size := size, maxSize := size, data := data }

/-- `for j in 0..cols { vec_znx_dft_apply(step, off, a_dft, j, a, j) }` -/
def dftApplyAll (step off : Nat) (d : Hal.Buf) (a : Hal.Buf) : Hal.Buf :=
  (List.range d.cols).foldl (fun acc j => Hal.opDftApply step off acc j a j) d

/-- `for col in 0..cols { vec_znx_dft_add_assign(res, col, tmp, col) }` -/
def dftAddAssignAll (d : Hal.Buf) (t : Hal.Buf) : Hal.Buf :=
  (List.range d.cols).foldl (fun acc j => Hal.opAssign Hal.polyAdd acc j t j) d

/-- `res.set_size(full); for col { for j in written..full { res.zero_at(col, j) } }` (poulpy d3c2e96: the
limbs skipped by the `di = 0` product start from zero) -/
def zeroTail (b : Hal.Buf) (written full : Nat) : Hal.Buf :=
  let b' := { b with size := full }
  (List.range b'.cols).foldl (fun (acc : Hal.Buf) col => Ks.zeroFrom acc col written) b'

/-- one pass `di` of the `dsize > 1` loop of `glwe_external_product_internal`; state = `(res_dft, res_dft_tmp)` -/
def epDigitPass (a : Hal.Buf) (g : EpGGSW) (aSize : Nat) (st : Hal.Buf × Hal.Buf) (di : Nat) : Hal.Buf × Hal.Buf :=
  let cols := g.rank + 1
  let dsize := g.dsize
  let aDft0 : Hal.Buf := mkBuf g.n cols ((aSize + dsize - 1) / dsize) (zeroCols g.n cols ((aSize + dsize - 1) / dsize))
  -- a_dft.set_size((a.size() + di) / dsize)
  let aDft1 := { aDft0 with size := (aSize + di) / dsize }
  -- res_dft.set_size(ggsw.size() - max(dsize - di - 2, 0))
  let resDft := { st.1 with size := g.size - (dsize - di - 2) }
  let aDft := dftApplyAll dsize (dsize - 1 - di) aDft1 a
  if di = 0 then
    (zeroTail (Hal.opVmp resDft aDft g.toPMat 0) resDft.size g.size, st.2)
  else
    let tmp := { st.2 with size := resDft.size }
    let tmp := Hal.opVmp tmp aDft g.toPMat di
    (dftAddAssignAll resDft tmp, tmp)

/-- `glwe_external_product_internal(res_dft, a, ggsw)`: `a` in the radix of the EpGGSW; `res0` / `tmp0`
are the prior contents of the two scratch DFT buffers (`cols × ggsw.size` each).  Returns the big
accumulator (`vec_znx_idft_apply_consume`), `cols` columns of `ggsw.size` limbs. -/
def epInternal (a : List Col) (g : EpGGSW) (res0 tmp0 : List Col) : List Col :=
  let cols := g.rank + 1
  let aSize := (a.getD 0 []).length
  let aBuf := mkBuf g.n cols aSize a
  let resDft0 := mkBuf g.n cols g.size res0
  if g.dsize = 1 then
    let aDft0 := mkBuf g.n cols aSize (zeroCols g.n cols aSize)
    let aDft := dftApplyAll 1 0 aDft0 aBuf
    let resDft := Hal.opVmp resDft0 aDft g.toPMat 0
    (List.range cols).map resDft.act
  else
    let tmpDft0 := mkBuf g.n cols g.size tmp0
    let st := (List.range g.dsize).foldl (epDigitPass aBuf g aSize) (resDft0, tmpDft0)
    (List.range cols).map st.1.act

/-- `glwe_normalize(res, a)`: `vec_znx_normalize` column by column into `resSize` limbs of radix `resBase2k` -/
def epGlweNormalize (n resBase2k resSize : Nat) (a : List Col) (aBase2k : Nat) : Option (List Col) :=
  a.mapM (fun c => normalizeCol? resBase2k resSize 0 c aBase2k n)

/-- `vec_znx_big_normalize(res, res_base2k, 0, j, res_big, a_base2k, j)` on the back end's accumulator type -/
def epBigNormalize (big128 : Bool) (n resBase2k resSize : Nat) (a : Col) (aBase2k : Nat) : Option Col :=
  if big128 then bigNormalizeCol128? resBase2k resSize 0 a aBase2k n
  else bigNormalizeCol64? resBase2k resSize 0 a aBase2k n

/-- `vec_znx_big_add_small_assign(res_big, j, a, j)` -/
def bigAddSmallAssign (big128 : Bool) (res a : Col) : Col :=
  vecAddAssignW (if big128 then w128 else w64) res a

def optOutcome {α} (o : Option α) : Outcome α :=
  match o with
  | some v => .ok v
  | none => .err "fuel"

/-- radix conversion step shared by the external products: `a_conv` has `⌈a.size·a_base2k / ggsw_base2k⌉`
limbs (`k: a.max_k()`), obtained with `glwe_normalize`; skipped when the radices agree -/
def epConvert (n : Nat) (a : List Col) (aBase2k : Nat) (g : EpGGSW) : Option (List Col) :=
  if aBase2k ≠ g.base2k then
    let aSize := (a.getD 0 []).length
    epGlweNormalize n g.base2k ((aSize * aBase2k + g.base2k - 1) / g.base2k) a aBase2k
  else some a

/-- **`glwe_external_product(res, a, ggsw)`** (and `_assign` with `a = res`): result columns in radix
`resBase2k`, `resSize` limbs.  Entry assertions (`rank`, `n`) are `panic "assert"`. -/
def glweExternalProduct (big128 : Bool) (n resBase2k resSize : Nat) (a : List Col) (aBase2k : Nat) (g : EpGGSW) :
    Outcome (List Col) :=
  let cols := g.rank + 1
  let aSize := (a.getD 0 []).length
  if !(g.n == n && g.wf && shapeOk n cols aSize a) then .panic "assert"
  else
    match epConvert n a aBase2k g with
    | none => .err "fuel"
    | some aConv =>
      -- res_dft.zero()
      let resBig := epInternal aConv g (zeroCols n cols g.size) (zeroCols n cols g.size)
      optOutcome (resBig.mapM (fun c => epBigNormalize big128 n resBase2k resSize c g.base2k))

/-- `glwe_sub(res, a, b)` for operands of equal rank -/
def glweSubSameRank (n resSize : Nat) (a b : List Col) : List Col :=
  (List.range a.length).map (fun i => vecSub n resSize (a.getD i []) (b.getD i []))

/-- the common tail of the three CMux forms: `res_big = internal(d, s); res_big[j] += add[j]; normalize` -/
def cmuxTail (big128 : Bool) (n resBase2k resSize : Nat) (d add : List Col) (g : EpGGSW) (res0 tmp0 : List Col) :
    Outcome (List Col) :=
  let resBig := epInternal d g res0 tmp0
  optOutcome ((List.range (g.rank + 1)).mapM (fun j =>
    epBigNormalize big128 n resBase2k resSize (bigAddSmallAssign big128 (resBig.getD j []) (add.getD j [])) g.base2k))

/-- **`Cmux::cmux(res, t, f, s)`**: `res = (t − f) ⊡ s + f`.  `resSize` = limb count of `res`;
`glwe_external_product_internal` asserts `res.base2k == s.base2k`. -/
def cmux (big128 : Bool) (n resBase2k resSize : Nat) (t f : List Col) (g : EpGGSW) (res0 tmp0 : List Col) :
    Outcome (List Col) :=
  let cols := g.rank + 1
  if !(g.n == n && g.wf && resBase2k == g.base2k && shapeOk n cols (t.getD 0 []).length t
       && shapeOk n cols (f.getD 0 []).length f) then .panic "assert"
  else
    let d := glweSubSameRank n resSize t f
    cmuxTail big128 n resBase2k resSize d f g res0 tmp0

/-- **`Cmux::cmux_assign(res, a, s)`**: `res = (res − a) ⊡ s + a` (`glwe_sub_assign`: only the common limbs change) -/
def cmuxAssign (big128 : Bool) (n resBase2k : Nat) (res a : List Col) (g : EpGGSW) (res0 tmp0 : List Col) :
    Outcome (List Col) :=
  let cols := g.rank + 1
  let resSize := (res.getD 0 []).length
  if !(g.n == n && g.wf && resBase2k == g.base2k && shapeOk n cols resSize res
       && shapeOk n cols (a.getD 0 []).length a) then .panic "assert"
  else
    let d := (List.range cols).map (fun i => vecSubAssignW w64 (res.getD i []) (a.getD i []))
    cmuxTail big128 n resBase2k resSize d a g res0 tmp0

/-- **`Cmux::cmux_assign_neg(res, a, s)`**: `res = (a − res) ⊡ s + res`; the difference lives in a
temporary of `max(res.size, a.size)` limbs -/
def cmuxAssignNeg (big128 : Bool) (n resBase2k : Nat) (res a : List Col) (g : EpGGSW) (res0 tmp0 : List Col) :
    Outcome (List Col) :=
  let cols := g.rank + 1
  let resSize := (res.getD 0 []).length
  let aSize := (a.getD 0 []).length
  if !(g.n == n && g.wf && resBase2k == g.base2k && shapeOk n cols resSize res && shapeOk n cols aSize a) then .panic "assert"
  else
    let d := glweSubSameRank n (max resSize aSize) a res
    cmuxTail big128 n resBase2k resSize d res g res0 tmp0

/-- **`ggsw_external_product(res, a, b)`** / **`gglwe_external_product`**: cell by cell over the
common rows, the remaining rows of `res` zeroed.  `a` and `res` are given as lists of cells
(`rowsA·colsIn`, `rowsRes·colsIn`). -/
def matExternalProduct (big128 : Bool) (n resBase2k resSize rowsRes rowsA colsIn : Nat)
    (a : List (List Col)) (aBase2k : Nat) (g : EpGGSW) (gglwe : Bool := false) : Outcome (List (List Col)) :=
  if resBase2k ≠ aBase2k then .panic "assert"
  -- `gglwe_external_product` loops `for row in 0..res.dnum()` and indexes `a.at(row, col)`: a result with more
  -- rows than the operand trips the bounds assertion of `MatZnx::at` (the GGSW form loops over `min`)
  else if gglwe && rowsRes > rowsA then .panic "assert"
  else
    (List.range (rowsRes * colsIn)).foldl (fun (acc : Outcome (List (List Col))) q =>
      match acc with
      | .ok cells =>
        if q / colsIn < min rowsRes rowsA then
          match glweExternalProduct big128 n resBase2k resSize (a.getD q []) aBase2k g with
          | .ok c => .ok (cells ++ [c])
          | .err e => .err e
          | .panic p => .panic p
        else .ok (cells ++ [zeroCols n (g.rank + 1) resSize])
      | o => o) (.ok [])

/-- `vec_znx_big_add_small_into(res, 0, a_big, j, b_small, j)` into an accumulator of `resSize` limbs -/
def bigAddSmallInto (big128 : Bool) (n resSize : Nat) (a b : Col) : Col :=
  if big128 then ntt120BigAddSmall n resSize a b else vecAdd n resSize a b

/-- `vec_znx_big_sub_small_a(res, 0, a_small, j, b_big, j)`: `a − b` -/
def bigSubSmallA (big128 : Bool) (n resSize : Nat) (a b : Col) : Col :=
  if big128 then ntt120BigSubSmallA n resSize a b else vecSub n resSize a b

/-- **`Cswap::cswap(res_a, res_b, s)`**: `(res_a, res_b) ← (res_a + (res_b − res_a)⊡s, res_b − (res_b − res_a)⊡s)`.
The difference lives in a temporary of `max(size_a, size_b)` limbs; `res_dft` is taken from scratch
un-zeroed (`res0`, `tmp0`).  Only the same-radix branch is reachable: in the branch
`res_base2k != s_base2k` the code calls `glwe_sub(&mut tmp_c, res_b, res_a)` with `tmp_c` in the GGSW radix
and the operands in their own, which trips `assert_eq!(a.base2k(), res.base2k())` of `glwe_sub`. -/
def cswap (big128 : Bool) (n resBase2k : Nat) (ra rb : List Col) (g : EpGGSW) (res0 tmp0 : List Col) :
    Outcome (List Col × List Col) :=
  let cols := g.rank + 1
  let sa := (ra.getD 0 []).length
  let sb := (rb.getD 0 []).length
  if !(g.n == n && g.wf && shapeOk n cols sa ra && shapeOk n cols sb rb) then .panic "assert"
  else if resBase2k ≠ g.base2k then .panic "assert"
  else
    let d := glweSubSameRank n (max sa sb) rb ra
    let resBig := epInternal d g res0 tmp0
    let outA := (List.range cols).mapM (fun j =>
      epBigNormalize big128 n resBase2k sa (bigAddSmallInto big128 n g.size (resBig.getD j []) (ra.getD j [])) g.base2k)
    let outB := (List.range cols).mapM (fun j =>
      epBigNormalize big128 n resBase2k sb (bigSubSmallA big128 n g.size (rb.getD j []) (resBig.getD j [])) g.base2k)
    match outA, outB with
    | some x, some y => .ok (x, y)
    | _, _ => .err "fuel"

end Core
