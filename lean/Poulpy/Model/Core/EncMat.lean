import Poulpy.Model.Core.Enc
import Poulpy.Model.Galois

/-!
Seed-compressed matrices of GLWE ciphertexts (`poulpy-core/src/encryption/compressed/{gglwe,ggsw,
gglwe_to_ggsw_key}.rs`, `layouts/compressed/{gglwe,ggsw,gglwe_to_ggsw_key}.rs`) and the standard
routines they are compared with (`encryption/{gglwe,ggsw}.rs`).

A `Source` is the list of raw `u64` words it will deliver.  `branch()` draws a 32-byte seed (four
words, `Sampling.newSeed`) and continues with `Source::new(seed)`, whose stream is `expand seed`
(ChaCha8 itself is outside the model: `expand` is a parameter; the harness supplies its values).
Every cell is `glwe_encrypt_sk_internal(…, compressed = true, Some((tmp_pt, col)), …)`, i.e.
`Core.encryptSkStream`; what the matrix routines add is *which* seed and *which* error each cell
gets and *where* the seed is stored.
-/

namespace Core

/-- `tmp_pt` of the gadget rows: the scalar placed on limb `(dsize-1) + row·dsize` of a zeroed
plaintext (`vec_znx_add_scalar_assign`), then `vec_znx_normalize_assign`.  `none` = the bounds
assertion of the limb index. -/
def gadgetPt (b n size dsize row : Nat) (s : Poly) : Option Col :=
  let limb := (dsize - 1) + row * dsize
  if limb < size then some (normalizeAssignCol b ((zeroCol n size).set limb (s.map (fun x => w64 (0 + x)))) n)
  else none

/-- one compressed cell: the body and the four seed words `branch()` drew for it -/
structure CellC where
  body : Col
  seed : List Nat
deriving Repr

/-- what every compressed matrix routine does for a list of cells in its loop order: `branch()` the
top source, encrypt the cell with the child source, take the next error.  A cell descriptor is
`(storage index, plaintext of the cell with its column)`. -/
def compressedCells (bits b n size kxe rank : Nat) (sk : List Poly) (expand : List Nat → List Nat) :
    List (Nat × Option (Col × Nat)) → List Nat → List Poly → Option (List (Nat × CellC))
  | [], _, _ => some []
  | _ :: _, _, [] => none
  | (idx, pt) :: rest, top, e :: es =>
    match Sampling.newSeed top with
    | none => none
    | some (seed, top') =>
      match encryptSkStream bits b n size kxe rank pt sk (expand seed) e with
      | none => none
      | some (body, _, _) =>
        match compressedCells bits b n size kxe rank sk expand rest top' es with
        | none => none
        | some out => some ((idx, { body := body, seed := seed }) :: out)

/-- `decompress_glwe` on one stored cell -/
def decompressCell (b n rank : Nat) (expand : List Nat → List Nat) (c : CellC) : Option (List Col) :=
  (drawMasks b n c.body.length rank (expand c.seed)).map (fun r => c.body :: r.1)

/-- the standard encryption of one cell: `glwe_encrypt_sk_internal(…, compressed = false, …)` with the
mask source `xa`: all columns -/
def standardCell (bits b n size kxe rank : Nat) (pt : Option (Col × Nat)) (sk : List Poly) (xa : List Nat) (e : Poly) :
    Option (List Col) :=
  (encryptSkStream bits b n size kxe rank pt sk xa e).map (fun r => r.1 :: r.2.1)

/-- loop order and storage index of `gglwe_compressed_encrypt_sk`: `for col in 0..rank_in { for row in 0..dnum }`,
seed stored at `row·rank_in + col`; plaintext `tmp_pt(row, pt[col])` in column 0.  `none` inside = gadget limb out of range. -/
def gglweDescs (b n size dsize rankIn dnum : Nat) (pt : List Poly) : List (Nat × Option (Option (Col × Nat))) :=
  (List.range rankIn).flatMap (fun col => (List.range dnum).map (fun row =>
    (row * rankIn + col, (gadgetPt b n size dsize row (pt.getD col [])).map (fun p => some (p, 0)))))

/-- loop order and storage index of `ggsw_compressed_encrypt_sk`: `for row in 0..dnum { for col in 0..=rank }`,
seed stored at `row·(rank+1) + col`; plaintext `tmp_pt(row, pt)` in column `col`. -/
def ggswDescs (b n size dsize rank dnum : Nat) (pt : Poly) : List (Nat × Option (Option (Col × Nat))) :=
  (List.range dnum).flatMap (fun row => (List.range (rank + 1)).map (fun col =>
    (row * (rank + 1) + col, (gadgetPt b n size dsize row pt).map (fun p => some (p, col)))))

/-- all gadget plaintexts exist (the `dnum·dsize·base2k ≤ k` assertion of the routines) -/
def descsOk (ds : List (Nat × Option (Option (Col × Nat)))) : Option (List (Nat × Option (Col × Nat))) :=
  ds.mapM (fun d => d.2.map (fun p => (d.1, p)))

/-- **`gglwe_compressed_encrypt_sk`**: cells in loop order with their storage index -/
def gglweEncryptCompressed (bits b n size kxe rankOut rankIn dnum dsize : Nat) (pt : List Poly) (sk : List Poly)
    (expand : List Nat → List Nat) (seedXa : List Nat) (es : List Poly) : Option (List (Nat × CellC)) :=
  match descsOk (gglweDescs b n size dsize rankIn dnum pt) with
  | none => none
  | some ds => compressedCells bits b n size kxe rankOut sk expand ds (expand seedXa) es

/-- **`ggsw_compressed_encrypt_sk`** -/
def ggswEncryptCompressed (bits b n size kxe rank dnum dsize : Nat) (pt : Poly) (sk : List Poly)
    (expand : List Nat → List Nat) (seedXa : List Nat) (es : List Poly) : Option (List (Nat × CellC)) :=
  match descsOk (ggswDescs b n size dsize rank dnum pt) with
  | none => none
  | some ds => compressedCells bits b n size kxe rank sk expand ds (expand seedXa) es


/-! ### the temporary plaintext as the Rust handles it

`gglwe_compressed_encrypt_sk` / `gglwe_encrypt_sk` keep ONE temporary `tmp_pt` (taken from scratch: arbitrary
content on entry) across all cells: every iteration does `tmp_pt.data.zero()` (all limbs),
`vec_znx_add_scalar_assign` on the gadget limb, `vec_znx_normalize_assign` (which may carry into the limb
above when the scalar has coefficients ≥ 2^(base2k−1)).  The `…T` routines below thread that temporary, so a
change of the zeroing pattern (e.g. clearing only the gadget limb) is a disagreement with this model. -/

/-- `tmp_pt.data.zero()` -/
def zeroLike (c : Col) : Col := c.map (fun l => l.map (fun _ => (0 : Int)))

/-- one iteration on the temporary: zero everything, add the scalar on limb `(dsize-1)+row·dsize`, normalise in place -/
def gadgetPtFrom (prev : Col) (b n dsize row : Nat) (s : Poly) : Option Col :=
  let limb := (dsize - 1) + row * dsize
  let z := zeroLike prev
  if limb < z.length then
    some (normalizeAssignCol b (z.set limb (List.zipWith (fun x y => w64 (x + y)) (z.getD limb []) s)) n)
  else none

/-- cells of `gglwe_compressed_encrypt_sk` in loop order: (storage index, row, scalar, plaintext column) -/
def gglweCellSpec (rankIn dnum : Nat) (pt : List Poly) : List (Nat × Nat × Poly × Nat) :=
  (List.range rankIn).flatMap (fun col => (List.range dnum).map (fun row => (row * rankIn + col, row, pt.getD col [], 0)))

/-- the temporary threaded through the cells: every cell's plaintext is what the temporary holds after its iteration -/
def gadgetSeq (b n dsize : Nat) : Col → List (Nat × Nat × Poly × Nat) → Option (List (Nat × Option (Col × Nat)))
  | _, [] => some []
  | tmp, (idx, row, s, c) :: rest =>
    match gadgetPtFrom tmp b n dsize row s with
    | none => none
    | some p =>
      match gadgetSeq b n dsize p rest with
      | none => none
      | some ds => some ((idx, some (p, c)) :: ds)

/-- **`gglwe_compressed_encrypt_sk`** with its temporary (`tmp0` = content of the scratch temporary on entry) -/
def gglweEncryptCompressedT (tmp0 : Col) (bits b n size kxe rankOut rankIn dnum dsize : Nat) (pt : List Poly) (sk : List Poly)
    (expand : List Nat → List Nat) (seedXa : List Nat) (es : List Poly) : Option (List (Nat × CellC)) :=
  match gadgetSeq b n dsize tmp0 (gglweCellSpec rankIn dnum pt) with
  | none => none
  | some ds => compressedCells bits b n size kxe rankOut sk expand ds (expand seedXa) es

/-- rows of `ggsw_compressed_encrypt_sk`: the temporary is rebuilt once per row and shared by the `rank+1` cells of the row -/
def ggswRowSeq (b n dsize rank : Nat) (pt : Poly) : Col → List Nat → Option (List (Nat × Option (Col × Nat)))
  | _, [] => some []
  | tmp, row :: rows =>
    match gadgetPtFrom tmp b n dsize row pt with
    | none => none
    | some p =>
      match ggswRowSeq b n dsize rank pt p rows with
      | none => none
      | some ds => some ((List.range (rank + 1)).map (fun col => (row * (rank + 1) + col, some (p, col))) ++ ds)

/-- **`ggsw_compressed_encrypt_sk`** with its temporary -/
def ggswEncryptCompressedT (tmp0 : Col) (bits b n size kxe rank dnum dsize : Nat) (pt : Poly) (sk : List Poly)
    (expand : List Nat → List Nat) (seedXa : List Nat) (es : List Poly) : Option (List (Nat × CellC)) :=
  match ggswRowSeq b n dsize rank pt tmp0 (List.range dnum) with
  | none => none
  | some ds => compressedCells bits b n size kxe rank sk expand ds (expand seedXa) es

/-! ### keys built on the two matrix routines -/

/-- `glwe_secret_tensor_prepare`: `s_i·s_j` for `i ≤ j` at index `i·rank + j − i(i+1)/2` (row-major upper triangle), each
normalised to one limb of radix 2^17 -/
def tensorSecret (bits n : Nat) (sk : List Poly) : Option (List Poly) :=
  ((List.range sk.length).flatMap (fun i => ((List.range sk.length).drop i).map (fun j => (i, j)))).mapM (fun ij =>
    (bigNormalize bits 17 1 [Hal.negMul (sk.getD ij.2 []) (sk.getD ij.1 [])] 17 n).map (fun c => c.getD 0 []))

/-- **`glwe_tensor_key_compressed_encrypt_sk`**: the compressed GGLWE of the tensor secret (`rank_in` = number of pairs) -/
def tensorKeyEncryptCompressedT (tmp0 : Col) (bits b n size kxe rank dnum dsize : Nat) (sk : List Poly)
    (expand : List Nat → List Nat) (seedXa : List Nat) (es : List Poly) : Option (List (Nat × CellC)) :=
  match tensorSecret bits n sk with
  | none => none
  | some pts => gglweEncryptCompressedT tmp0 bits b n size kxe rank pts.length dnum dsize pts sk expand seedXa es

/-- **`blind_rotation_key_compressed_encrypt_sk`** (CGGI, standard and block-binary — the distribution tag is copied, the
encryption is the same): GGSW `i` encrypts the constant polynomial `sk_lwe[i]` under the seed `source_xa.new_seed()` draws
for it from `Source::new(seed_xa)`; the error source runs on across the GGSWs.  `tmps` = content of the scratch
temporary on entry of each `ggsw_compressed_encrypt_sk` call. -/
def brkLoop (bits b n size kxe rank dnum : Nat) (sk : List Poly) (expand : List Nat → List Nat) (tmp0 : Col) :
    List Int → List Nat → List Poly → Option (List (List (Nat × CellC)))
  | [], _, _ => some []
  | si :: rest, top, es =>
    match Sampling.newSeed top with
    | none => none
    | some (seedI, top') =>
      match ggswEncryptCompressedT tmp0 bits b n size kxe rank dnum 1 (si :: List.replicate (n - 1) 0) sk expand seedI es with
      | none => none
      | some cells =>
        match brkLoop bits b n size kxe rank dnum sk expand tmp0 rest top' (es.drop cells.length) with
        | none => none
        | some out => some (cells :: out)

def brkEncryptCompressed (bits b n size kxe rank dnum : Nat) (skLwe : List Int) (sk : List Poly)
    (expand : List Nat → List Nat) (tmp0 : Col) (seedXa : List Nat) (es : List Poly) : Option (List (List (Nat × CellC))) :=
  brkLoop bits b n size kxe rank dnum sk expand tmp0 skLwe (expand seedXa) es

/-- **`decompress_lwe`**: every limb's `n+1` coefficients are regenerated from `Source::new(seed)`, then coefficient 0 of
every limb is overwritten with the stored body -/
def decompressLwe (b nl : Nat) (body : List Int) (seedStream : List Nat) : Option Col :=
  (Sampling.vecFillUniform b (nl + 1) body.length seedStream).map
    (fun r => List.zipWith (fun l x => x :: l.drop 1) r.1 body)

/-- **`decompress_lwe` as it is** (layouts/compressed/lwe.rs:124, after repair e6c90e8): the receiver (radix `resB`, `resSize` limbs,
LWE dimension `nl`) must have the compressed object's radix and number of limbs — `assert_eq!(res.base2k(), other.base2k());
assert_eq!(res.size(), other.size())`, a panic otherwise; the LWE dimension is the receiver's (the compressed object does not record it). -/
def decompressLweRust (resB resSize b nl : Nat) (body : List Int) (seedStream : List Nat) : Option Col :=
  if resB ≠ b ∨ resSize ≠ body.length then none else decompressLwe b nl body seedStream

/-- the assertion before the repair: `assert_eq!(res.lwe_layout(), other.lwe_layout())`, where `LWECompressed::n()` is the ring degree of the
body buffer (always 1): every LWE dimension other than 1 was refused.  Kept as documentation of the repaired finding only. -/
def decompressLweOldAssert (b nl : Nat) (body : List Int) (seedStream : List Nat) : Option Col :=
  if nl ≠ 1 then none else decompressLwe b nl body seedStream

/-- compressing a standard LWE ciphertext: keep coefficient 0 of every limb (and the mask seed) -/
def lweBodies (ct : Col) : List Int := ct.map (fun l => l.getD 0 0)

/-- the stored object: cell at storage index `i` (what `at(row, col)` reads) -/
def storedCell (cells : List (Nat × CellC)) (i : Nat) : Option CellC :=
  (cells.find? (fun c => c.1 == i)).map (·.2)

/-- **`GGLWEToGGSWKeyCompressedEncryptSk::gglwe_to_ggsw_key_encrypt_sk`** (two levels of `branch()`): for
`i` in `0..rank` the top source `Source::new(seed_xa)` is branched once, and sub-key `i` is
`gglwe_compressed_encrypt_sk(res.at_mut(i), [s_i·s_0 … s_i·s_{rank-1}], sk, seed_i, …)`, i.e. its own
cells branch `Source::new(seed_i)`; the error source runs on across the sub-keys.  `pts[i]` = the
plaintext columns of sub-key `i`.  Since the repair the per-cell seeds are copied from the borrowed
view into the object, so the stored sub-keys are exactly what `gglweEncryptCompressed` returns. -/
def g2gLoop (bits b n size kxe rank dnum dsize : Nat) (sk : List Poly) (expand : List Nat → List Nat) :
    List (List Poly) → List Nat → List Poly → Option (List (List (Nat × CellC)))
  | [], _, _ => some []
  | pti :: rest, top, es =>
    match Sampling.newSeed top with
    | none => none
    | some (seedI, top') =>
      match gglweEncryptCompressed bits b n size kxe rank rank dnum dsize pti sk expand seedI es with
      | none => none
      | some cells =>
        match g2gLoop bits b n size kxe rank dnum dsize sk expand rest top' (es.drop cells.length) with
        | none => none
        | some out => some (cells :: out)

def g2gEncryptCompressed (bits b n size kxe rank dnum dsize : Nat) (pts : List (List Poly)) (sk : List Poly)
    (expand : List Nat → List Nat) (seedXa : List Nat) (es : List Poly) : Option (List (List (Nat × CellC))) :=
  g2gLoop bits b n size kxe rank dnum dsize sk expand pts (expand seedXa) es


/-! ### the standard (uncompressed) matrix routines and the key wrappers built on them

`gglwe_encrypt_sk` (encryption/gglwe.rs:60) and `ggsw_encrypt_sk` (encryption/ggsw.rs:60) run the same loops as their compressed
forms with ONE mask source for all cells (no `branch()`): every cell is `glwe_encrypt_sk_internal(…, compressed = false, …)`,
i.e. `encryptSkStream` on the running `source_xa`, with the next error of `source_xe`.  A key is the list of its cells
`(storage index, [body, mask₁ … mask_rank])`. -/

/-- the cells of a standard routine in loop order; returns the cells and what is left of the two sources -/
def standardCells (bits b n size kxe rank : Nat) (sk : List Poly) :
    List (Nat × Option (Col × Nat)) → List Nat → List Poly → Option (List (Nat × List Col) × List Nat × List Poly)
  | [], xa, es => some ([], xa, es)
  | _ :: _, _, [] => none
  | (idx, pt) :: rest, xa, e :: es =>
    match encryptSkStream bits b n size kxe rank pt sk xa e with
    | none => none
    | some (body, ms, xa') =>
      match standardCells bits b n size kxe rank sk rest xa' es with
      | none => none
      | some (out, xa'', es') => some ((idx, body :: ms) :: out, xa'', es')

/-- **`gglwe_encrypt_sk`** (`tmp0` = content of the scratch temporary on entry; `assert_eq!(res.rank_out(), sk.rank())`,
`assert_eq!(res.rank_in(), pt.cols())`) -/
def gglweEncryptSkT (tmp0 : Col) (bits b n size kxe rankOut rankIn dnum dsize : Nat) (pt : List Poly) (sk : List Poly)
    (xa : List Nat) (es : List Poly) : Option (List (Nat × List Col) × List Nat × List Poly) :=
  if rankOut ≠ sk.length ∨ rankIn ≠ pt.length then none else
  match gadgetSeq b n dsize tmp0 (gglweCellSpec rankIn dnum pt) with
  | none => none
  | some ds => standardCells bits b n size kxe rankOut sk ds xa es

/-- **`ggsw_encrypt_sk`** -/
def ggswEncryptSkT (tmp0 : Col) (bits b n size kxe rank dnum dsize : Nat) (pt : Poly) (sk : List Poly)
    (xa : List Nat) (es : List Poly) : Option (List (Nat × List Col) × List Nat × List Poly) :=
  if rank ≠ sk.length then none else
  match ggswRowSeq b n dsize rank pt tmp0 (List.range dnum) with
  | none => none
  | some ds => standardCells bits b n size kxe rank sk ds xa es

/-- **`decompress_gglwe` / `decompress_ggsw`**: `decompress_glwe` on every stored cell -/
def decompressCells (b n rank : Nat) (expand : List Nat → List Nat) (cells : List (Nat × CellC)) : Option (List (Nat × List Col)) :=
  cells.mapM (fun c => (decompressCell b n rank expand c.2).map (fun cols => (c.1, cols)))

/-- the columns stored at index `j` (`at(row, col)` with `j = row·cols_in + col`) -/
def cellCols (cells : List (Nat × List Col)) (j : Nat) : List Col :=
  ((cells.find? (fun c => c.1 == j)).map (·.2)).getD []

/-- the key as the matrix the consumers (`Ks.Key.mat`, `EpGGSW.toPMat`, `GGLWE.toPMat`) work on: `rows = dnum`, `colsIn` input
columns, `colsOut = rank_out + 1`, row `row·colsIn + col` = the cell's columns -/
def keyMat (n rows colsIn colsOut size : Nat) (cells : List (Nat × List Col)) : Hal.PMat :=
  { n := n, rows := rows, colsIn := colsIn, colsOut := colsOut, size := size, data := (List.range (rows * colsIn)).map (cellCols cells) }

/-- **`glwe_switching_key_encrypt_sk`**: both secrets are brought to the module's degree by `vec_znx_switch_ring`
(`assert!(sk.n() <= module.n())`), then `gglwe_encrypt_sk(res, sk_in, sk_out)` -/
def glweSwitchingKeyEncryptSk (tmp0 : Col) (bits b n size kxe rankOut rankIn dnum dsize : Nat) (skIn skOut : List Poly)
    (xa : List Nat) (es : List Poly) : Option (List (Nat × List Col) × List Nat × List Poly) :=
  if (skIn.any (fun s => decide (n < s.length))) || (skOut.any (fun s => decide (n < s.length))) then none else
  gglweEncryptSkT tmp0 bits b n size kxe rankOut rankIn dnum dsize (skIn.map (znxSwitchRing n)) (skOut.map (znxSwitchRing n)) xa es

/-- **`glwe_switching_key_compressed_encrypt_sk`**: the compressed twin — the same embedding of every column of both secrets
(`vec_znx_switch_ring(tmp, 0, sk_out, i)` for column `i`), then `gglwe_compressed_encrypt_sk` -/
def glweSwitchingKeyEncryptCompressedT (tmp0 : Col) (bits b n size kxe rankOut rankIn dnum dsize : Nat) (skIn skOut : List Poly)
    (expand : List Nat → List Nat) (seedXa : List Nat) (es : List Poly) : Option (List (Nat × CellC)) :=
  if (skIn.any (fun s => decide (n < s.length))) || (skOut.any (fun s => decide (n < s.length))) then none else
  if rankOut ≠ skOut.length ∨ rankIn ≠ skIn.length then none else
  gglweEncryptCompressedT tmp0 bits b n size kxe rankOut rankIn dnum dsize (skIn.map (znxSwitchRing n)) (skOut.map (znxSwitchRing n))
    expand seedXa es

/-- the two degree fields a switching key records (`*res.input_degree() = sk_in.n(); *res.output_degree() = sk_out.n()`) -/
def switchingKeyDegrees (skIn skOut : List Poly) : Nat × Nat := ((skIn.getD 0 []).length, (skOut.getD 0 []).length)

/-- **`glwe_automorphism_key_encrypt_sk`**: the plaintext columns are the secret, the encryption secret is its image under
`X ↦ X^(p⁻¹)` (`galois_element_inv(p)` modulo the cyclotomic order `2n`) -/
def glweAutomorphismKeyEncryptSk (tmp0 : Col) (bits b n size kxe rank dnum dsize : Nat) (p : Int) (sk : List Poly)
    (xa : List Nat) (es : List Poly) : Option (List (Nat × List Col) × List Nat × List Poly) :=
  match _root_.galoisElementInv p (2 * (n : Int)) with
  | Outcome.ok gInv => gglweEncryptSkT tmp0 bits b n size kxe rank rank dnum dsize sk (sk.map (znxAutomorphism gInv)) xa es
  | _ => none

/-- **`glwe_tensor_key_encrypt_sk`**: plaintext columns = the tensor secret (`rank·(rank+1)/2` pairs) -/
def glweTensorKeyEncryptSk (tmp0 : Col) (bits b n size kxe rank dnum dsize : Nat) (sk : List Poly)
    (xa : List Nat) (es : List Poly) : Option (List (Nat × List Col) × List Nat × List Poly) :=
  match tensorSecret bits n sk with
  | none => none
  | some pts => gglweEncryptSkT tmp0 bits b n size kxe rank pts.length dnum dsize pts sk xa es

/-- `GLWESecretTensor::at(i, j)`: the pair `(min, max)` at the packed index -/
def tensorAt (rank : Nat) (pts : List Poly) (i j : Nat) : Poly :=
  let a := min i j
  let c := max i j
  pts.getD (a * rank + c - a * (a + 1) / 2) []

/-- **`gglwe_to_ggsw_key_encrypt_sk`**: sub-key `i` = `gglwe_encrypt_sk` of the columns `s_i·s_0 … s_i·s_{rank−1}`; both sources run on -/
def g2gStdLoop (tmp0 : Col) (bits b n size kxe rank dnum dsize : Nat) (sk pts : List Poly) :
    List Nat → List Nat → List Poly → Option (List (List (Nat × List Col)) × List Nat × List Poly)
  | [], xa, es => some ([], xa, es)
  | i :: rest, xa, es =>
    match gglweEncryptSkT tmp0 bits b n size kxe rank rank dnum dsize ((List.range rank).map (tensorAt rank pts i)) sk xa es with
    | none => none
    | some (cells, xa', es') =>
      match g2gStdLoop tmp0 bits b n size kxe rank dnum dsize sk pts rest xa' es' with
      | none => none
      | some (out, xa'', es'') => some (cells :: out, xa'', es'')

def gglweToGgswKeyEncryptSk (tmp0 : Col) (bits b n size kxe rank dnum dsize : Nat) (sk : List Poly)
    (xa : List Nat) (es : List Poly) : Option (List (List (Nat × List Col)) × List Nat × List Poly) :=
  match tensorSecret bits n sk with
  | none => none
  | some pts => g2gStdLoop tmp0 bits b n size kxe rank dnum dsize sk pts (List.range rank) xa es

/-- the GLWE secret an LWE secret is embedded to by the LWE-related key routines: copied to the first `n_lwe` coefficients,
the rest filled with zeros (`[..n_lwe].copy_from_slice`, `[n_lwe..].fill(0)`: a slice panic when `n_lwe > n`), then
`vec_znx_automorphism_assign(−1)` -/
def embedLweSecret (n : Nat) (skLwe : Poly) : Option Poly :=
  if n < skLwe.length then none else some (znxAutomorphism (-1) (skLwe ++ List.replicate (n - skLwe.length) 0))

/-- **`lwe_switching_key_encrypt_sk`**: both LWE secrets embedded (each with ITS OWN dimension), then the rank-1 switching key -/
def lweSwitchingKeyEncryptSk (tmp0 : Col) (bits b n size kxe dnum : Nat) (skLweIn skLweOut : Poly)
    (xa : List Nat) (es : List Poly) : Option (List (Nat × List Col) × List Nat × List Poly) :=
  match embedLweSecret n skLweIn, embedLweSecret n skLweOut with
  | some sIn, some sOut => glweSwitchingKeyEncryptSk tmp0 bits b n size kxe 1 1 dnum 1 [sIn] [sOut] xa es
  | _, _ => none

/-- **`glwe_to_lwe_key_encrypt_sk`**: GLWE secret (rank_in columns) under the embedded LWE secret -/
def glweToLweKeyEncryptSk (tmp0 : Col) (bits b n size kxe rankIn dnum : Nat) (skLwe : Poly) (skGlwe : List Poly)
    (xa : List Nat) (es : List Poly) : Option (List (Nat × List Col) × List Nat × List Poly) :=
  match embedLweSecret n skLwe with
  | some s => gglweEncryptSkT tmp0 bits b n size kxe 1 rankIn dnum 1 skGlwe [s] xa es
  | none => none

/-- **`lwe_to_glwe_key_encrypt_sk`**: the embedded LWE secret under the GLWE secret (rank_out columns) -/
def lweToGlweKeyEncryptSk (tmp0 : Col) (bits b n size kxe rankOut dnum : Nat) (skLwe : Poly) (skGlwe : List Poly)
    (xa : List Nat) (es : List Poly) : Option (List (Nat × List Col) × List Nat × List Poly) :=
  match embedLweSecret n skLwe with
  | some s => gglweEncryptSkT tmp0 bits b n size kxe rankOut 1 dnum 1 [s] skGlwe xa es
  | none => none

/-- **`blind_rotation_key_encrypt_sk`** (CGGI, standard and block-binary): GGSW `i` = `ggsw_encrypt_sk` of the constant polynomial
`sk_lwe[i]` (dsize 1), both sources running on -/
def brkStdLoop (tmp0 : Col) (bits b n size kxe rank dnum : Nat) (sk : List Poly) :
    List Int → List Nat → List Poly → Option (List (List (Nat × List Col)) × List Nat × List Poly)
  | [], xa, es => some ([], xa, es)
  | si :: rest, xa, es =>
    match ggswEncryptSkT tmp0 bits b n size kxe rank dnum 1 (si :: List.replicate (n - 1) 0) sk xa es with
    | none => none
    | some (cells, xa', es') =>
      match brkStdLoop tmp0 bits b n size kxe rank dnum sk rest xa' es' with
      | none => none
      | some (out, xa'', es'') => some (cells :: out, xa'', es'')

def blindRotationKeyEncryptSk (tmp0 : Col) (bits b n size kxe rank dnum : Nat) (skLwe : List Int) (sk : List Poly)
    (xa : List Nat) (es : List Poly) : Option (List (List (Nat × List Col)) × List Nat × List Poly) :=
  brkStdLoop tmp0 bits b n size kxe rank dnum sk skLwe xa es

end Core
