import Poulpy.Model.Basic
import Poulpy.Model.HalSpec
import Poulpy.Model.VecNorm
import Poulpy.Model.Ring
import Poulpy.Model.Core.Basic
import Poulpy.Model.Core.Ep
import Poulpy.Model.Core.Ks

/-!
Ciphertext multiplication (`poulpy-core/src/operations/glwe.rs`): `glwe_mul_const(_assign)`,
`glwe_mul_plain(_assign)`, `glwe_tensor_apply`, `glwe_tensor_square_apply`,
`glwe_tensor_apply_add_assign`, `glwe_tensor_relinearize` (with `gglwe_product_dft` of
`keyswitching/glwe.rs`), line by line, on the exact-integer HAL model (`Hal.cnvPrepareCol`,
`Hal.cnvApplyCol`, the pairwise form of `Hal.opCnvPairwise`).

A GLWE tensor of rank `r` has `cols·(cols+1)/2` columns (`cols = r+1`): column `colIdx cols i j`
(`i ≤ j`) multiplies `σ_i·σ_j` (`σ_0 = 1`).
-/

namespace Core

/-- `cnv_offset → (cnv_offset_hi, cnv_offset_lo)`: limbs skipped by the convolution, bit offset
handed to the normalisation (negative when `cnv_offset < base2k`: "the convolution doesn't support
negative offset") -/
def cnvOffsetSplit (base2k cnvOffset : Nat) : Nat × Int :=
  if cnvOffset < base2k then (0, -(((base2k - cnvOffset % base2k : Nat)) : Int))
  else (cnvOffset / base2k - 1, ((cnvOffset % base2k : Nat) : Int))

/-- `msb_mask_bottom_limb(base2k, k)`: `!0` if `k % base2k == 0`, else `(!0i64) << (base2k − k % base2k)` -/
def msbMaskBottomLimb (base2k k : Nat) : Int :=
  if k % base2k = 0 then -1 else w64 (-(2 ^ (base2k - k % base2k)))

/-- `normalize_input_limb_bound` -/
def limbBound (fullSize resSize resBase2k inBase2k offsetBits : Nat) : Nat :=
  min fullSize ((resSize * resBase2k + offsetBits + inBase2k - 1) / inBase2k)

/-- `normalize_input_limb_bound_with_offset` (Rust `%` truncates toward zero) -/
def limbBoundWithOffset (fullSize resSize resBase2k inBase2k : Nat) (resOffset : Int) : Nat :=
  let ob := Int.tmod resOffset inBase2k
  let ob := if resOffset < 0 ∧ ob ≠ 0 then ob + inBase2k else ob
  limbBound fullSize resSize resBase2k inBase2k ob.toNat

/-- `vec_znx_big_normalize(res, res_base2k, off, ·, res_big, a_base2k, ·)` -/
def bigNormalizeOff (big128 : Bool) (n resBase2k resSize : Nat) (off : Int) (a : Col) (aBase2k : Nat) : Option Col :=
  if big128 then bigNormalizeCol128? resBase2k resSize off a aBase2k n
  else bigNormalizeCol64? resBase2k resSize off a aBase2k n

/-- column of the tensor holding the `σ_i σ_j` term, `i ≤ j` -/
def colIdx (cols i j : Nat) : Nat := i * cols - i * (i + 1) / 2 + j

def prepAll (n : Nat) (mask : Int) (a : List Col) : List Col :=
  a.map (fun c => Hal.cnvPrepareCol n c.length mask c)

/-- `cnv_apply_dft(hi, res_dft(1 col, dftSize), 0, a_prep, i, b_prep, j)` + idft + `vec_znx_big_normalize` -/
def cnvNorm (big128 : Bool) (n resBase2k resSize base2k dftSize hi : Nat) (lo : Int) (x y : Col) : Option Col :=
  bigNormalizeOff big128 n resBase2k resSize lo (Hal.cnvApplyCol n dftSize hi x y) base2k

def mulUpdCol (st : List Col) (c : Nat) (f : Col → Col) : List Col := st.set c (f (st.getD c []))

/-- the diagonal loop of `glwe_tensor_apply` (`acc = false`) / `glwe_tensor_apply_add_assign` (`acc = true`) for one `i` -/
def tensorDiagStep (acc : Bool) (n cols resSize : Nat) (tmp : Col) (st : List Col) (i : Nat) : List Col :=
  let colI := colIdx cols i 0
  let st :=
    if acc then mulUpdCol st (colI + i) (fun r => vecAddAssignW w64 r tmp)
    else mulUpdCol st (colI + i) (fun _ => vecCopy n resSize tmp)
  (List.range cols).foldl (fun st j =>
    if j = i then st
    else if j < i then mulUpdCol st (colIdx cols j 0 + i) (fun r => vecSubAssignW w64 r tmp)
    else if acc then mulUpdCol st (colI + j) (fun r => vecSubAssignW w64 r tmp)
    else mulUpdCol st (colI + j) (fun _ => vecNegate n resSize tmp)) st

/-- the two loops of `glwe_tensor_apply` / `_add_assign` over the normalised diagonal products `D i`
(`cnv_apply_dft(i, i)` + normalise) and pairwise products `P i j` (`cnv_pairwise_apply_dft(i, j)` + normalise) -/
def tensorApplyCore (acc : Bool) (n cols resSize : Nat) (D : Nat → Option Col) (P : Nat → Nat → Option Col)
    (res0 : List Col) : Option (List Col) :=
  let st1 := (List.range cols).foldl (fun (st : Option (List Col)) i =>
    st.bind (fun st => (D i).map (fun tmp => tensorDiagStep acc n cols resSize tmp st i))) (some res0)
  (List.range cols).foldl (fun (st : Option (List Col)) i =>
    (List.range cols).foldl (fun (st : Option (List Col)) j =>
      if i < j then
        st.bind (fun st =>
          (P i j).map (fun tmp => mulUpdCol st (colIdx cols i 0 + j) (fun r => vecAddAssignW w64 r tmp)))
      else st) st) st1

/-- the loops of `glwe_tensor_square_apply`: `diag_terms`, the copies, then per pair normalise into `res`
and two `sub_assign` -/
def tensorSquareCore (n cols resSize : Nat) (D : Nat → Option Col) (P : Nat → Nat → Option Col)
    (res0 : List Col) : Option (List Col) :=
  let d := (List.range cols).mapM D
  d.bind (fun diag =>
    let st0 := (List.range cols).foldl (fun st i =>
      mulUpdCol st (colIdx cols i 0 + i) (fun _ => vecCopy n resSize (diag.getD i []))) res0
    (List.range cols).foldl (fun (st : Option (List Col)) i =>
      (List.range cols).foldl (fun (st : Option (List Col)) j =>
        if i < j then
          st.bind (fun st =>
            (P i j).map (fun p =>
              let st := mulUpdCol st (colIdx cols i 0 + j) (fun _ => p)
              let st := mulUpdCol st (colIdx cols i 0 + j) (fun r => vecSubAssignW w64 r (diag.getD i []))
              mulUpdCol st (colIdx cols i 0 + j) (fun r => vecSubAssignW w64 r (diag.getD j []))))
        else st) st) (some st0))

/-- **`glwe_tensor_apply`** / **`glwe_tensor_apply_add_assign`**: `res0` is the prior content of the
tensor (`cols(cols+1)/2` columns of `resSize` limbs; only read by the accumulate form). -/
def tensorApply (acc big128 : Bool) (n resBase2k resSize cnvOffset base2k : Nat) (a : List Col) (aK : Nat)
    (b : List Col) (bK : Nat) (res0 : List Col) : Option (List Col) :=
  let cols := a.length
  let aSize := (a.getD 0 []).length
  let bSize := (b.getD 0 []).length
  let aP := prepAll n (msbMaskBottomLimb base2k aK) a
  let bP := prepAll n (msbMaskBottomLimb base2k bK) b
  let hl := cnvOffsetSplit base2k cnvOffset
  let dftSize := limbBoundWithOffset (aSize + bSize - hl.1) resSize resBase2k base2k hl.2
  tensorApplyCore acc n cols resSize
    (fun i => cnvNorm big128 n resBase2k resSize base2k dftSize hl.1 hl.2 (aP.getD i []) (bP.getD i []))
    (fun i j => cnvNorm big128 n resBase2k resSize base2k dftSize hl.1 hl.2
      (Hal.colAdd n (aP.getD i []) (aP.getD j [])) (Hal.colAdd n (bP.getD i []) (bP.getD j []))) res0

/-- **`glwe_tensor_square_apply`** (`cnv_prepare_self`: both prepared vectors come from `a`) -/
def tensorSquare (big128 : Bool) (n resBase2k resSize cnvOffset base2k : Nat) (a : List Col) (aK : Nat)
    (res0 : List Col) : Option (List Col) :=
  let cols := a.length
  let aSize := (a.getD 0 []).length
  let aP := prepAll n (msbMaskBottomLimb base2k aK) a
  let hl := cnvOffsetSplit base2k cnvOffset
  let dftSize := limbBoundWithOffset (2 * aSize - hl.1) resSize resBase2k base2k hl.2
  tensorSquareCore n cols resSize
    (fun i => cnvNorm big128 n resBase2k resSize base2k dftSize hl.1 hl.2 (aP.getD i []) (aP.getD i []))
    (fun i j => cnvNorm big128 n resBase2k resSize base2k dftSize hl.1 hl.2
      (Hal.colAdd n (aP.getD i []) (aP.getD j [])) (Hal.colAdd n (aP.getD i []) (aP.getD j []))) res0

/-- **`glwe_mul_plain`** (and `_assign` with `a = res`, `resBase2k = base2k`): `b` is the single
plaintext column -/
def mulPlain (big128 : Bool) (n resBase2k resSize cnvOffset base2k : Nat) (a : List Col) (aK : Nat) (b : Col) (bK : Nat) :
    Option (List Col) :=
  let aSize := (a.getD 0 []).length
  let aP := prepAll n (msbMaskBottomLimb base2k aK) a
  let bP := Hal.cnvPrepareCol n b.length (msbMaskBottomLimb base2k bK) b
  let (hi, lo) := cnvOffsetSplit base2k cnvOffset
  let dftSize := aSize + b.length - hi
  aP.mapM (fun x => cnvNorm big128 n resBase2k resSize base2k dftSize hi lo x bP)

/-- one output limb of `cnv_by_const_apply`: `Σ_j b[j]·a[k−j]` (scalar constants), `k` already offset -/
def cnvConstCoeff (n : Nat) (a : Col) (b : List Int) (k : Nat) : Poly :=
  if k ≥ a.length + b.length then Hal.zeroP n
  else
    let jMin := k - (a.length - 1)
    let jMax := min (k + 1) b.length
    Hal.sumPolys n ((List.range (jMax - jMin)).map (fun t =>
      let j := jMin + t
      Hal.polyScale (b.getD j 0) (Hal.limbOr0 n a (k - j))))

/-- `cnv_by_const_apply(cnv_offset, res_big, 0, a, i, b)` on one column -/
def cnvByConstCol (n resSize cnvOffset : Nat) (a : Col) (b : List Int) : Col :=
  let bound := a.length + b.length - 1
  let minSize := min resSize bound
  let off := min cnvOffset bound
  (List.range resSize).map (fun k => if k < minSize then cnvConstCoeff n a b (k + off) else Hal.zeroP n)

/-- **`glwe_mul_const`** (`assign = false`: accumulator of `a.size + b.len − hi` limbs) and
**`glwe_mul_const_assign`** (`assign = true`: accumulator of `res.size` limbs, `a = res`) -/
def mulConst (assign big128 : Bool) (n resBase2k resSize cnvOffset base2k : Nat) (a : List Col) (b : List Int) :
    Option (List Col) :=
  let aSize := (a.getD 0 []).length
  let (hi, lo) := cnvOffsetSplit base2k cnvOffset
  let bigSize := if assign then resSize else aSize + b.length - hi
  a.mapM (fun x => bigNormalizeOff big128 n resBase2k resSize lo (cnvByConstCol n bigSize hi x b) base2k)

/-- prepared GGLWE (tensor key): `cells[row*colsIn + ci]` = `colsOut` columns of `size` limbs -/
structure GGLWE where
  base2k : Nat
  n : Nat
  colsIn : Nat
  colsOut : Nat
  dsize : Nat
  dnum : Nat
  size : Nat
  cells : List (List Col)
deriving Repr

def GGLWE.toPMat (g : GGLWE) : Hal.PMat :=
  { n := g.n, rows := g.dnum, colsIn := g.colsIn, colsOut := g.colsOut, size := g.size, data := g.cells }

def GGLWE.toKey (g : GGLWE) : Ks.Key := { base2k := g.base2k, dsize := g.dsize, p := 0, mat := g.toPMat }

/-- `gglwe_product_dft(res, a, key)` — the function C03 models (`Ks.gglweProductDft`, `keyswitching/glwe.rs`),
applied to `a` = `colsIn` DFT columns and `res` = a `colsOut × resSize` buffer with prior content `res0`;
returns the active columns.  C03's theorems (`keyswitch_phase_dsize1`, `keyswitch_phase_dsize_gt1`,
`product_determined`) are therefore statements about what relinearisation and row expansion execute. -/
def gglweProductDft (a : List Col) (g : GGLWE) (resSize : Nat) (res0 : List Col) : List Col :=
  let aSize := (a.getD 0 []).length
  let r := Ks.gglweProductDft (mkBuf g.n g.colsOut resSize res0) (mkBuf g.n g.colsIn aSize a) g.toKey
  (List.range g.colsOut).map r.act

/-- **`glwe_tensor_relinearize(res, a, tsk, tsk_size)`**: `a` = the tensor (`cols + pairs` columns,
radix `aBase2k`), key radix `g.base2k`; `res0` = prior content of the `res_dft` scratch buffer. -/
def relinearize (big128 : Bool) (n resBase2k resSize : Nat) (a : List Col) (aBase2k : Nat) (g : GGLWE) (tskSize : Nat)
    (res0 : List Col) : Option (List Col) :=
  let cols := g.colsOut
  let pairs := g.colsIn
  let aSize := (a.getD 0 []).length
  let aDftSize := (aSize * aBase2k + g.base2k - 1) / g.base2k
  -- a_dft: columns cols..cols+pairs of the tensor, converted to the key radix if needed
  let aD : Option (List Col) := (List.range pairs).mapM (fun i =>
    if aBase2k ≠ g.base2k then
      (normalizeCol? g.base2k aDftSize 0 (a.getD (cols + i) []) aBase2k n).map (fun c => Hal.dftApplyCol n 1 0 aDftSize c)
    else some (Hal.dftApplyCol n 1 0 aDftSize (a.getD (cols + i) [])))
  aD.bind (fun aD =>
    let resBig := gglweProductDft aD g tskSize res0
    -- `if a_base2k == key_base2k`: res_big is in the key radix, the tensor's first columns are added as they
    -- are only if the tensor is in that radix too (before the repair the Rust tested `res_base2k`)
    let added : Option (List Col) := (List.range cols).mapM (fun i =>
      if aBase2k = g.base2k then some (bigAddSmallAssign big128 (resBig.getD i []) (a.getD i []))
      else (normalizeCol? g.base2k aDftSize 0 (a.getD i []) aBase2k n).map
        (fun c => bigAddSmallAssign big128 (resBig.getD i []) c))
    added.bind (fun xs => xs.mapM (fun c => bigNormalizeOff big128 n resBase2k resSize 0 c g.base2k)))

end Core
