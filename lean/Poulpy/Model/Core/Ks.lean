import Poulpy.Model.Basic
import Poulpy.Model.HalSpec
import Poulpy.Model.VecNorm
import Poulpy.Model.Ring
import Poulpy.Model.Galois
import Poulpy.Model.Core.Basic

/-!
# Key-switching family of `poulpy-core` (executable model, C03)

Rust anchors (mirrored line by line, `&mut` buffers become returned values, scratch buffers become
explicit `Hal.Buf` values with their `size` / `max_size`):

* `poulpy-core/src/keyswitching/glwe.rs`  : `gglwe_product_dft`, `glwe_keyswitch_internal`,
  `glwe_keyswitch`, `glwe_keyswitch_assign`
* `poulpy-core/src/automorphism/glwe_ct.rs`: `glwe_automorphism{,_assign}`, and the fused
  `glwe_automorphism_{add,sub,sub_negate}{,_assign}`
* `poulpy-core/src/glwe_trace.rs`          : `glwe_trace`, `glwe_trace_assign`
* `poulpy-core/src/keyswitching/lwe.rs`    : `lwe_keyswitch`
* `poulpy-core/src/conversion/{glwe_to_lwe,lwe_to_glwe}.rs`, `api/conversion.rs::lwe_sample_extract`
* `poulpy-core/src/operations/glwe.rs`     : `glwe_normalize`, `glwe_copy`, `glwe_rsh`, `glwe_rotate`

Conventions.
* The DFT domain is the exact-integer one of `Model/HalSpec.lean` (one model for the four back ends);
  a prepared key is the exact `Hal.PMat` of its `dnum × rank_in` rows of `rank_out+1` columns.
* The only back-end dependent ingredient is the width of the big accumulator (`i64` for FFT64, `i128`
  for NTT120): parameter `big128`.
* The `res_dft` scratch buffer of the fused automorphism forms is not zeroed by them (unlike
  `glwe_keyswitch`); its previous content is the explicit parameter `dft0`.  Since poulpy d3c2e96
  `gglwe_product_dft` zeroes the limbs its first pass skips, so the result no longer depends on `dft0`
  (theorem `C03.product_determined`).  Scratch that is written before it is read is created zeroed.
* `assert!`s of the API entry points are `Outcome.panic "assert"`.
-/

namespace Ks
open Hal

/-! ### outcome plumbing -/

def obind {α β : Type} (x : Outcome α) (f : α → Outcome β) : Outcome β :=
  match x with
  | .ok v => f v
  | .err e => .err e
  | .panic c => .panic c

def ofOpt {α : Type} (x : Option α) (kind : String) : Outcome α :=
  match x with
  | some v => .ok v
  | none => .err kind

/-- sequence a list of outcomes (first failure wins) -/
def oall {α : Type} : List (Outcome α) → Outcome (List α)
  | [] => .ok []
  | x :: xs => obind x (fun v => obind (oall xs) (fun vs => .ok (v :: vs)))

/-! ### containers -/

/-- a prepared GGLWE (`GGLWEPrepared`): `rows = dnum`, `colsIn = rank_in`, `colsOut = rank_out+1`;
`p` is the Galois element of an automorphism key (unused otherwise) -/
structure Key where
  base2k : Nat
  dsize : Nat
  p : Int
  mat : PMat
deriving Repr

def Key.size (k : Key) : Nat := k.mat.size
def Key.rankIn (k : Key) : Nat := k.mat.colsIn
def Key.rankOut (k : Key) : Nat := k.mat.colsOut - 1
def Key.dnum (k : Key) : Nat := k.mat.rows

abbrev Ct := Core.GLWE

def mkCt (base2k n : Nat) (cols : List Col) : Ct := { base2k := base2k, k := 0, n := n, cols := cols }

def zeroCol (n size : Nat) : Col := List.replicate size (zeroP n)

def zeroBuf (n cols size : Nat) : Buf :=
  { n := n, cols := cols, size := size, maxSize := size, data := List.replicate cols (zeroCol n size) }

/-- a `VecZnx` seen as a buffer -/
def bufOfCols (n size : Nat) (cols : List Col) : Buf :=
  { n := n, cols := cols.length, size := size, maxSize := size, data := cols }

def divCeil (a b : Nat) : Nat := (a + b - 1) / b

/-- wrap of the big accumulator's scalar type -/
def bigW (big128 : Bool) : Int → Int := if big128 then w128 else w64

/-! ### `gglwe_product_dft` -/

/-- state of the `for di in 0..dsize` loop: `(res, ai_dft, res_dft_tmp)` -/
structure ProdSt where
  res : Buf
  ai : Buf
  tmp : Buf

/-- `for j in written..b.size { zero_at(b, col, j) }`: the active limbs `≥ written` of column `col` zeroed -/
def zeroFrom (b : Buf) (col written : Nat) : Buf :=
  b.setAct col ((b.act col).take written ++ List.replicate (b.size - written) (zeroP b.n))

/-- one pass of the `di` loop of the `dsize > 1` branch -/
def productStep (a : Buf) (key : Key) (st : ProdSt) (di : Nat) : ProdSt :=
  let dsize := key.dsize
  let pmat := key.mat
  -- ai_dft.set_size(((a_size + di) / dsize).min(dnum))
  let ai := { st.ai with size := min ((a.size + di) / dsize) pmat.rows }
  -- res.set_size(pmat.size() - ((dsize - di) as isize - 2).max(0) as usize)
  let res := { st.res with size := pmat.size - (dsize - di - 2) }
  -- for j in 0..cols { vec_znx_dft_copy(dsize, dsize - di - 1, &mut ai_dft, j, a, j) }
  let ai := (List.range a.cols).foldl (fun (acc : Buf) j => opDftApply dsize (dsize - di - 1) acc j a j) ai
  if di = 0 then
    -- res = pmat * ai_dft; then the limbs skipped at di = 0 are zeroed:
    -- let written = res.size(); res.set_size(pmat.size()); for col { for j in written..pmat.size() { zero_at(res, col, j) } }
    let r0 := opVmp res ai pmat 0
    let written := r0.size
    let r1 := { r0 with size := pmat.size }
    let r2 := (List.range r1.cols).foldl (fun (acc : Buf) col => zeroFrom acc col written) r1
    { res := r2, ai := ai, tmp := st.tmp }
  else
    -- res_dft_tmp.set_size(res.size()); vmp_apply_dft_to_dft(res_dft_tmp, ai_dft, pmat, di)
    let tmp := opVmp { st.tmp with size := res.size } ai pmat di
    -- for col in 0..cols_out { vec_znx_dft_add_assign(res, col, res_dft_tmp, col) }
    let res := (List.range res.cols).foldl (fun (acc : Buf) c => opAssign polyAdd acc c tmp c) res
    { res := res, ai := ai, tmp := tmp }

/-- `gglwe_product_dft(res, a, key)`: `res` enters with its current size and previous content. -/
def gglweProductDft (res a : Buf) (key : Key) : Buf :=
  let pmat := key.mat
  if key.dsize = 1 then
    opVmp res a pmat 0
  else
    let dsize := key.dsize
    let ai0 := zeroBuf a.n a.cols (min (divCeil a.size dsize) pmat.rows)
    let tmp0 := zeroBuf res.n res.cols pmat.size
    let st := (List.range dsize).foldl (productStep a key) { res := res, ai := ai0, tmp := tmp0 }
    -- res.set_size(res.max_size())
    { st.res with size := st.res.maxSize }

/-! ### `glwe_keyswitch_internal` -/

/-- `vec_znx_big_add_small_assign(res, res_col, a, a_col)` on one column -/
def bigAddSmallAssign (big128 : Bool) (res a : Col) : Col := vecAddAssignW (bigW big128) res a
/-- `vec_znx_big_sub_small_assign` -/
def bigSubSmallAssign (big128 : Bool) (res a : Col) : Col := vecSubAssignW (bigW big128) res a
/-- `vec_znx_big_sub_small_negate_assign`: `res = a − res` on the common limbs, the others negated -/
def bigSubSmallNegateAssign (big128 : Bool) (res a : Col) : Col :=
  if big128 then ntt120BigSubNegateAssign res a else vecSubNegateAssignW w64 res a
/-- `vec_znx_big_automorphism_assign(p, res, col)` (odd `p`) -/
def bigAutomorphismAssign (big128 : Bool) (p : Int) (res : Col) : Col := vecAutomorphismAssignW (bigW big128) p res

/-- `vec_znx_big_normalize(res, res_base2k, 0, i, res_big, key_base2k, i)` on one column -/
def bigNormalize (big128 : Bool) (resBase2k resSize : Nat) (a : Col) (aBase2k n : Nat) : Outcome Col :=
  ofOpt ((if big128 then bigNormalizeCol128? else bigNormalizeCol64?) resBase2k resSize 0 a aBase2k n) "fuel"

/-- `glwe_keyswitch_internal(res_dft, a, key)` → the big accumulator (columns of `key.size` limbs).
`a` must already be in the key's radix (`assert_eq!(a.base2k(), key.base2k())`). -/
def keyswitchInternal (big128 : Bool) (resDft : Buf) (a : Ct) (key : Key) : Outcome Buf :=
  if a.base2k ≠ key.base2k then .panic "assert"
  else
    let cols := a.rank + 1
    let aSize := a.size
    let aBuf := bufOfCols a.n aSize a.cols
    -- for col_i in 0..cols-1 { vec_znx_dft_apply(1, 0, &mut a_dft, col_i, a.data(), col_i + 1) }
    let aDft := (List.range (cols - 1)).foldl (fun (acc : Buf) ci => opDftApply 1 0 acc ci aBuf (ci + 1))
      (zeroBuf a.n (cols - 1) aSize)
    let res := gglweProductDft resDft aDft key
    -- vec_znx_idft_apply_consume: same content; vec_znx_big_add_small_assign(res_big, 0, a.data(), 0)
    .ok (res.setAct 0 (bigAddSmallAssign big128 (res.act 0) (a.cols.getD 0 [])))

/-! ### `glwe_normalize`, `glwe_copy`, `glwe_rsh`, `glwe_rotate` -/

/-- `glwe_normalize(res, a)`: `vec_znx_normalize` column by column into `resSize` limbs of radix
`2^resBase2k` -/
def glweNormalize (resBase2k resSize : Nat) (a : Ct) : Outcome Ct :=
  obind (oall (a.cols.map (fun c => ofOpt (normalizeCol? resBase2k resSize 0 c a.base2k a.n) "fuel")))
    (fun cs => .ok (mkCt resBase2k a.n cs))

/-- `glwe_copy(res, a)` for equal ranks: `vec_znx_copy` column by column -/
def glweCopy (resBase2k resSize : Nat) (a : Ct) : Ct :=
  mkCt resBase2k a.n (a.cols.map (fun c => vecCopy a.n resSize c))

/-- `glwe_rsh(k, res)`: `vec_znx_rsh_assign` on every column (`scr` = the uninitialised carry slot,
only read when `k = 0`) -/
def glweRsh (k : Nat) (res : Ct) : Outcome Ct :=
  obind (oall (res.cols.map (fun c =>
    match rshAssignCol? res.base2k k 0 c res.n with
    | some x => Outcome.ok x
    | none => Outcome.panic "bounds")))
    (fun cs => .ok { res with cols := cs })

/-- `glwe_rotate(k, res, a)` for equal ranks and sizes -/
def glweRotate (k : Int) (a : Ct) : Ct :=
  { a with cols := a.cols.map (fun c => vecRotate k a.n a.size c) }

/-! ### `glwe_keyswitch` / `glwe_keyswitch_assign` -/

/-- the radix conversion in front of the product: `take_glwe(base2k = key, k = a.max_k)` +
`glwe_normalize` when the radices differ -/
def convIn (a : Ct) (key : Key) : Outcome Ct :=
  if a.base2k ≠ key.base2k then
    glweNormalize key.base2k (divCeil (a.size * a.base2k) key.base2k) a
  else .ok a

/-- the output loop `for i in 0..res.rank()+1 { vec_znx_big_normalize(res, res_base2k, 0, i, res_big,
key_base2k, i) }` -/
def normOut (big128 : Bool) (resBase2k resSize resRank : Nat) (resBig : Buf) (key : Key) : Outcome Ct :=
  obind (oall ((List.range (resRank + 1)).map (fun i =>
      bigNormalize big128 resBase2k resSize (resBig.act i) key.base2k resBig.n)))
    (fun cs => .ok (mkCt resBase2k resBig.n cs))

/-- **`glwe_keyswitch(res, a, key)`** (`res` given by its radix, limb count and rank; its previous
content is never read).  `glwe_keyswitch_assign(res, key)` is the same function with `res`'s shape
equal to `a`'s. -/
def keyswitch (big128 : Bool) (resBase2k resSize resRank : Nat) (a : Ct) (key : Key) : Outcome Ct :=
  if a.rank ≠ key.rankIn then .panic "assert"
  else if resRank ≠ key.rankOut then .panic "assert"
  else
    -- take_vec_znx_dft(res.rank()+1, key.size()); res_dft.zero()
    let resDft := zeroBuf a.n (resRank + 1) key.size
    obind (convIn a key) (fun aConv =>
    obind (keyswitchInternal big128 resDft aConv key) (fun resBig =>
    normOut big128 resBase2k resSize resRank resBig key))

/-! ### `glwe_automorphism*` -/

def ctMapCols (c : Ct) (f : Col → Col) : Ct := { c with cols := c.cols.map f }

/-- **`glwe_automorphism(res, a, key)`** / `_assign`: key-switch, then `vec_znx_automorphism_assign(key.p)`
on every column -/
def automorphism (big128 : Bool) (resBase2k resSize resRank : Nat) (a : Ct) (key : Key) : Outcome Ct :=
  obind (keyswitch big128 resBase2k resSize resRank a key) (fun r =>
    .ok (ctMapCols r (vecAutomorphismAssignW w64 key.p)))

/-- which fused form -/
inductive Fused where
  | add | sub | subNegate
deriving DecidableEq, Repr

def Fused.apply (f : Fused) (big128 : Bool) (res a : Col) : Col :=
  match f with
  | .add => bigAddSmallAssign big128 res a
  | .sub => bigSubSmallAssign big128 res a
  | .subNegate => bigSubSmallNegateAssign big128 res a

/-- **`glwe_automorphism_{add,sub,sub_negate}(res, a, key)`** and their `_assign` forms (`a = res`):
`res = σ_p(KS(a)) ± a`.  `dft0` is the previous content of the `res_dft` scratch buffer
(`res.rank+1` columns × `key.size` limbs), which these functions do **not** zero. -/
def automorphismFused (f : Fused) (big128 : Bool) (dft0 : Buf) (resBase2k resSize resRank : Nat) (a : Ct) (key : Key) :
    Outcome Ct :=
  if a.rank ≠ key.rankIn ∨ resRank ≠ key.rankOut ∨ a.rank ≠ resRank then .panic "assert"
  else
    obind (convIn a key) (fun aConv =>
    obind (keyswitchInternal big128 dft0 aConv key) (fun resBig =>
      -- for i { big_automorphism_assign(p, res_big, i); big_{add,sub,..}_small_assign(res_big, i, a_conv, i);
      --         big_normalize(res, res_base2k, 0, i, res_big, key_base2k, i) }
      obind (oall ((List.range (resRank + 1)).map (fun i =>
        let c := bigAutomorphismAssign big128 key.p (resBig.act i)
        let c := f.apply big128 c (aConv.cols.getD i [])
        bigNormalize big128 resBase2k resSize c key.base2k resBig.n)))
      (fun cs => .ok (mkCt resBase2k resBig.n cs))))

/-! ### `glwe_trace` -/

def log2Nat (n : Nat) : Nat := Nat.log2 n

/-- the Galois element of trace level `i`: `-1` for `i = 0`, else `galois_element(1 << (i-1))` -/
def traceGalois (n i : Nat) : Outcome Int :=
  if i = 0 then .ok (-1) else galoisElement (2 ^ (i - 1) : Nat) (cyclotomicOrder n)

/-- the loop `for i in skip..log_n { glwe_rsh(1, res); glwe_automorphism_add_assign(res, keys[p_i]) }`
(radix of `res` = radix of the keys) -/
def traceLoop (big128 : Bool) (keys : List Key) (res : Ct) : List Nat → Outcome Ct
  | [] => .ok res
  | i :: rest =>
    obind (glweRsh 1 res) (fun r1 =>
    obind (traceGalois res.n i) (fun p =>
      match keys.find? (fun k => k.p == p) with
      | none => .panic "other"
      | some key =>
        obind (automorphismFused .add big128 (zeroBuf res.n (r1.rank + 1) key.size) r1.base2k r1.size r1.rank r1 key)
          (fun r2 => traceLoop big128 keys r2 rest)))

/-- **`glwe_trace_assign(res, skip, keys)`**; `keyBase2k` = `keys.automorphism_key_infos().base2k()` -/
def traceAssign (big128 : Bool) (keyBase2k : Nat) (keys : List Key) (skip : Nat) (res : Ct) : Outcome Ct :=
  let logN := log2Nat res.n
  if skip > logN then .panic "assert"
  else if keys.any (fun k => k.rankIn ≠ res.rank ∨ k.rankOut ≠ res.rank) then .panic "assert"
  else
    let levels := (List.range (logN - skip)).map (fun t => skip + t)
    if res.base2k ≠ keyBase2k then
      obind (glweNormalize keyBase2k (divCeil (res.size * res.base2k) keyBase2k) res) (fun rc =>
      obind (traceLoop big128 keys rc levels) (fun rt =>
      glweNormalize res.base2k res.size rt))
    else traceLoop big128 keys res levels

/-- **`glwe_trace(res, skip, a, keys)`** -/
def trace (big128 : Bool) (keyBase2k : Nat) (keys : List Key) (skip : Nat) (resBase2k resSize : Nat) (a : Ct) :
    Outcome Ct :=
  -- tmp: base2k = key, k = max(a.max_k, res.max_k), rank = res.rank
  let tmpSize := divCeil (max (a.size * a.base2k) (resSize * resBase2k)) keyBase2k
  obind (if a.base2k = keyBase2k then .ok (glweCopy keyBase2k tmpSize a) else glweNormalize keyBase2k tmpSize a) (fun tmp =>
  obind (traceAssign big128 keyBase2k keys skip tmp) (fun t =>
    if resBase2k = keyBase2k then .ok (glweCopy resBase2k resSize t) else glweNormalize resBase2k resSize t))

/-! ### LWE ↔ GLWE -/

/-- an LWE ciphertext: one column whose limbs have `n_lwe + 1` coefficients (`b, a₁ … a_n`) -/
structure Lwe where
  base2k : Nat
  nLwe : Nat
  data : Col
deriving Repr

def padTo (n : Nat) (l : Poly) : Poly := l.take n ++ List.replicate (n - l.length) 0

/-- the embedding used by `lwe_keyswitch` and `glwe_from_lwe` (same radix): body limb `[b, 0, …]`,
mask limb `[a₁ … a_n, 0, …]` -/
def lweToGlweCols (n : Nat) (l : Lwe) : List Col :=
  [l.data.map (fun limb => padTo n (limb.take 1)), l.data.map (fun limb => padTo n ((limb.drop 1).take l.nLwe))]

/-- **`lwe_sample_extract(res, a)`** (`res` given by radix, limb count, dimension) -/
def sampleExtract (resBase2k resSize resN : Nat) (a : Ct) : Outcome Lwe :=
  if resN > a.n ∨ resBase2k ≠ a.base2k then .panic "assert"
  else
    let minSize := min resSize a.size
    let c0 := a.cols.getD 0 []
    let c1 := a.cols.getD 1 []
    let limbs := (List.range resSize).map (fun i =>
      if i < minSize then (c0.getD i []).take 1 ++ (c1.getD i []).take resN
      else List.replicate (resN + 1) 0)
    .ok { base2k := resBase2k, nLwe := resN, data := limbs }

/-- **`lwe_keyswitch(res, a, ksk)`** -/
def lweKeyswitch (big128 : Bool) (n : Nat) (resBase2k resSize resN : Nat) (a : Lwe) (key : Key) : Outcome Lwe :=
  if resN > n ∨ a.nLwe > n then .panic "assert"
  else
    let glweIn := mkCt a.base2k n (lweToGlweCols n a)
    obind (keyswitch big128 resBase2k resSize 1 glweIn key) (fun out =>
    sampleExtract resBase2k resSize resN out)

/-- **`lwe_from_glwe(res, a, a_idx, key)`** -/
def lweFromGlwe (big128 : Bool) (resBase2k resSize resN : Nat) (a : Ct) (aIdx : Nat) (key : Key) : Outcome Lwe :=
  if resN > a.n then .panic "assert"
  else
    let aRot := if aIdx = 0 then a else glweRotate (-(aIdx : Int)) a
    obind (keyswitch big128 resBase2k resSize 1 aRot key) (fun out =>
    sampleExtract resBase2k resSize resN out)

/-- **`glwe_from_lwe(res, lwe, ksk)`** -/
def glweFromLwe (big128 : Bool) (n : Nat) (resBase2k resSize resRank : Nat) (lwe : Lwe) (key : Key) : Outcome Ct :=
  if lwe.nLwe > n then .panic "assert"
  else
    let emb := lweToGlweCols n lwe
    let tmpSize := divCeil (lwe.data.length * lwe.base2k) key.base2k
    obind (if lwe.base2k = key.base2k then .ok (mkCt key.base2k n emb)
           else glweNormalize key.base2k tmpSize (mkCt lwe.base2k n emb)) (fun glwe =>
    keyswitch big128 resBase2k resSize resRank glwe key)

end Ks
