import Poulpy.Model.Basic
import Poulpy.Model.HalSpec
import Poulpy.Model.Core.Basic
import Poulpy.Model.Ring
import Poulpy.Model.VecNorm
import Poulpy.Model.ScratchOps

/-!
# Noise-free GLWE / GGSW operations (poulpy-core `api/operations.rs`, `operations/{glwe,ggsw}.rs`)

What is modelled here is the **column / rank / size logic** of every operation: the entry
assertions, the column loops (one HAL call per column, in the order of the Rust), which operand
column feeds which result column, which columns are zeroed and which are left untouched.  The
per-column kernels are the C09 ring model (`Model/Ring.lean`: `vecAdd`, `vecSub`, `vecNegate`,
`vecCopy`, `vecRotate`, `vecMulXpMinusOne`, … with the exact limb-count rules and `i64` wrapping)
and the C08 normalisation model (`Model/VecNorm.lean`: `normalizeCol?`, `normalizeAssignCol`,
`lshCol`, `lshAddCol`, `lshSubCol`, `lshAssignCol`, `rshAssignCol?`).

Which Rust body is in effect for `Module<BE>` (checked in `delegates/operations.rs`):
* `GLWEAdd`, `GLWESub`, `GLWENegate`, `GLWECopy`: the trait default bodies in `api/operations.rs`
  (`operations/glwe.rs` only has the empty blanket impls);
* `GLWERotate`, `GLWEMulXpMinusOne`, `GLWEShift`, `GLWENormalize`, `GGSWRotate`: delegated through
  `oep::CoreImpl` to the `…Default` twins in `operations/{glwe,ggsw}.rs`.

A Rust function `op(&self, res, a, …)` becomes `op N res a … : Outcome GLWE` returning the new
value of `res` (`N` = `module.n()`).  Every `assert!` / index check reachable from the arguments is a
`panic` outcome.  The `scratch.available() >= …_tmp_bytes` assertions are modelled by the `…S` wrappers
at the end of each section (`checkS`, outcome `panic "scratch"`; thresholds = the C12 formulas
`Scratch.tbGlweRotate / tbGlweShift / tbGlweNormalize`; `sc` = bytes available in the arena), which
are what the program interpreter `step` executes; the un-suffixed functions are the operations given
enough scratch.  The *content* of scratch is an input of the interpreter — the harness fills the
arena with a pattern before every operation — and no operation depends on it.  `GLWE` has no `k` field in the Rust (`size = data.size()`); the `k` field of
`Core.GLWE` is carried along unchanged.
-/

namespace Core.Ops
open Core

/-- sequencing of outcomes (`?`-style early exit on `err` / `panic`) -/
def bind {α β : Type} (x : Outcome α) (f : α → Outcome β) : Outcome β :=
  match x with
  | .ok v => f v
  | .err e => .err e
  | .panic c => .panic c

/-- `assert!(c)` -/
def check (c : Bool) (k : Outcome α) : Outcome α := if c then k else .panic "assert"

/-- `a.data().at(i, _)`: column `i` of an operand; an index ≥ `cols` is the bounds panic of `at()` -/
def colOf (a : GLWE) (i : Nat) : Outcome Col :=
  match a.cols[i]? with
  | some c => .ok c
  | none => .panic "bounds"

/-- one HAL call on column `i` of `res`: the kernel `k` receives the previous content of the column -/
def updCol (i : Nat) (k : Col → Outcome Col) (res : GLWE) : Outcome GLWE :=
  match res.cols[i]? with
  | none => .panic "bounds"
  | some old => bind (k old) (fun c => .ok { res with cols := res.cols.set i c })

/-- `for i in lo..lo+cnt { body(i) }` -/
def forCols : (cnt lo : Nat) → (body : Nat → GLWE → Outcome GLWE) → GLWE → Outcome GLWE
  | 0, _, _, g => .ok g
  | cnt + 1, lo, body, g => bind (body lo g) (forCols cnt (lo + 1) body)

/-- `for i in lo..hi` (empty when `hi ≤ lo`) -/
def forRange (lo hi : Nat) (body : Nat → GLWE → Outcome GLWE) (g : GLWE) : Outcome GLWE :=
  forCols (hi - lo) lo body g

/-- HAL call reading column `i` of `a` and overwriting column `i` of `res` with `k a_i` -/
def fromCol (a : GLWE) (k : Col → Col) (i : Nat) (res : GLWE) : Outcome GLWE :=
  bind (colOf a i) (fun ai => updCol i (fun _ => .ok (k ai)) res)

/-- HAL call reading column `i` of `a` and updating column `i` of `res` with `k res_i a_i` -/
def withCol (a : GLWE) (k : Col → Col → Col) (i : Nat) (res : GLWE) : Outcome GLWE :=
  bind (colOf a i) (fun ai => updCol i (fun ri => .ok (k ri ai)) res)

/-- HAL call rewriting column `i` of `res` in place -/
def selfCol (k : Col → Col) (i : Nat) (res : GLWE) : Outcome GLWE :=
  updCol i (fun ri => .ok (k ri)) res

/-- the rank rule of `glwe_add_into` / `glwe_sub` -/
def rankRule3 (res a b : GLWE) : Bool :=
  if a.rank = 0 then res.rank == b.rank
  else if b.rank = 0 then res.rank == a.rank
  else res.rank == a.rank && res.rank == b.rank

/-! ## GLWEAdd -/

/-- `glwe_add_into(res, a, b)` -/
def glweAddInto (N : Nat) (res a b : GLWE) : Outcome GLWE :=
  check (a.n == N) <| check (b.n == N) <| check (res.n == N) <|
  check (a.base2k == b.base2k) <| check (res.base2k == b.base2k) <|
  check (rankRule3 res a b) <|
  let minCol := min a.rank b.rank + 1
  let maxCol := max a.rank b.rank + 1
  let selfCols := res.rank + 1
  let rs := res.size
  bind (forRange 0 minCol (fun i r =>
      bind (colOf a i) (fun ai => bind (colOf b i) (fun bi =>
        updCol i (fun _ => .ok (vecAdd N rs ai bi)) r))) res) fun r1 =>
  bind (if a.rank > b.rank then forRange minCol maxCol (fromCol a (vecCopy N rs)) r1
        else forRange minCol maxCol (fromCol b (vecCopy N rs)) r1) fun r2 =>
  forRange maxCol selfCols (selfCol (fun _ => vecZero N rs)) r2

/-- `glwe_add_assign(res, a)` -/
def glweAddAssign (N : Nat) (res a : GLWE) : Outcome GLWE :=
  check (res.n == N) <| check (a.n == N) <| check (res.base2k == a.base2k) <|
  check (decide (res.rank ≥ a.rank)) <|
  forRange 0 (a.rank + 1) (withCol a (vecAddAssignW w64)) res

/-! ## GLWESub -/

/-- `glwe_sub(res, a, b)` -/
def glweSub (N : Nat) (res a b : GLWE) : Outcome GLWE :=
  check (a.n == N) <| check (b.n == N) <| check (res.n == N) <|
  check (a.base2k == res.base2k) <| check (b.base2k == res.base2k) <|
  check (rankRule3 res a b) <|
  let minCol := min a.rank b.rank + 1
  let maxCol := max a.rank b.rank + 1
  let selfCols := res.rank + 1
  let rs := res.size
  bind (forRange 0 minCol (fun i r =>
      bind (colOf a i) (fun ai => bind (colOf b i) (fun bi =>
        updCol i (fun _ => .ok (vecSub N rs ai bi)) r))) res) fun r1 =>
  bind (if a.rank > b.rank then forRange minCol maxCol (fromCol a (vecCopy N rs)) r1
        else forRange minCol maxCol (fromCol b (vecNegate N rs)) r1) fun r2 =>
  forRange maxCol selfCols (selfCol (fun _ => vecZero N rs)) r2

/-- `glwe_sub_assign(res, a)` -/
def glweSubAssign (N : Nat) (res a : GLWE) : Outcome GLWE :=
  check (res.n == N) <| check (a.n == N) <| check (res.base2k == a.base2k) <|
  check (res.rank == a.rank || a.rank == 0) <|
  forRange 0 (a.rank + 1) (withCol a (vecSubAssignW w64)) res

/-- `glwe_sub_negate_assign(res, a)`: `res = a - res`; the columns `a` does not have are negated -/
def glweSubNegateAssign (N : Nat) (res a : GLWE) : Outcome GLWE :=
  check (res.n == N) <| check (a.n == N) <| check (res.base2k == a.base2k) <|
  check (res.rank == a.rank || a.rank == 0) <|
  bind (forRange 0 (a.rank + 1) (withCol a (vecSubNegateAssignW w64)) res) fun r1 =>
  forRange (a.rank + 1) (res.rank + 1) (selfCol (vecNegateAssignW w64)) r1

/-! ## GLWENegate -/

/-- `glwe_negate(res, a)` -/
def glweNegate (N : Nat) (res a : GLWE) : Outcome GLWE :=
  check (a.n == N) <| check (res.n == N) <| check (res.base2k == a.base2k) <| check (a.rank == res.rank) <|
  forRange 0 (res.rank + 1) (fromCol a (vecNegate N res.size)) res

/-- `glwe_negate_assign(res)` -/
def glweNegateAssign (N : Nat) (res : GLWE) : Outcome GLWE :=
  check (res.n == N) <|
  forRange 0 (res.rank + 1) (selfCol (vecNegateAssignW w64)) res

/-! ## GLWECopy -/

/-- `glwe_copy(res, a)` -/
def glweCopy (N : Nat) (res a : GLWE) : Outcome GLWE :=
  check (res.n == N) <| check (a.n == N) <| check (res.base2k == a.base2k) <|
  check (res.rank == a.rank || a.rank == 0) <|
  let minRank := min res.rank a.rank + 1
  bind (forRange 0 minRank (fromCol a (vecCopy N res.size)) res) fun r1 =>
  forRange minRank (res.rank + 1) (selfCol (fun _ => vecZero N res.size)) r1

/-! ## GLWERotate -/

/-- `glwe_rotate(k, res, a)` -/
def glweRotate (N : Nat) (k : Int) (res a : GLWE) : Outcome GLWE :=
  check (a.n == N) <| check (res.n == N) <| check (res.base2k == a.base2k) <|
  check (res.rank == a.rank || a.rank == 0) <|
  bind (forRange 0 (a.rank + 1) (fromCol a (vecRotate k N res.size)) res) fun r1 =>
  forRange (a.rank + 1) (res.rank + 1) (selfCol (fun _ => vecZero N res.size)) r1

/-- `glwe_rotate_assign(k, res, scratch)` (no degree assertion at this level) -/
def glweRotateAssign (_N : Nat) (k : Int) (res : GLWE) : Outcome GLWE :=
  forRange 0 (res.rank + 1) (selfCol (vecRotateAssignW w64 k)) res

/-! ## GLWEMulXpMinusOne -/

/-- `glwe_mul_xp_minus_one(k, res, a)` -/
def glweMulXpMinusOne (N : Nat) (k : Int) (res a : GLWE) : Outcome GLWE :=
  check (res.n == N) <| check (a.n == N) <| check (res.base2k == a.base2k) <| check (res.rank == a.rank) <|
  forRange 0 (res.rank + 1) (fromCol a (vecMulXpMinusOne k N res.size)) res

/-- `glwe_mul_xp_minus_one_assign(k, res, scratch)` -/
def glweMulXpMinusOneAssign (N : Nat) (k : Int) (res : GLWE) : Outcome GLWE :=
  check (res.n == N) <|
  forRange 0 (res.rank + 1) (selfCol (vecMulXpMinusOneAssignW w64 k)) res

/-! ## GLWEShift -/

/-- `glwe_rsh(k, res, scratch)`: `vec_znx_rsh_assign` on every column (every `k`: the kernel zeroes
its carry when `k = 0` and walks the gap when `⌈k/base2k⌉ > size`; the content `scr` of the scratch
arena is not read any more and is only passed on to the kernel model, which ignores it).
`rshAssignCol?` is total on well-formed columns; its `none` is mapped to a panic so that no default
does real work. -/
def glweRsh (N : Nat) (scr : Int) (k : Nat) (res : GLWE) : Outcome GLWE :=
  forRange 0 (res.rank + 1) (fun i r =>
    updCol i (fun ri => match rshAssignCol? res.base2k k scr ri N with
      | some c => .ok c
      | none => .panic "other") r) res

/-- `glwe_lsh_assign(res, k, scratch)` -/
def glweLshAssign (N : Nat) (res : GLWE) (k : Nat) : Outcome GLWE :=
  forRange 0 (res.rank + 1) (selfCol (fun ri => lshAssignCol res.base2k k ri N)) res

/-- `glwe_lsh(res, a, k, scratch)`; the columns `a` does not have are zeroed limb by limb -/
def glweLsh (N : Nat) (res a : GLWE) (k : Nat) : Outcome GLWE :=
  check (res.n == N) <| check (a.n == N) <| check (res.base2k == a.base2k) <|
  check (decide (res.rank ≥ a.rank)) <|
  bind (forRange 0 (a.rank + 1) (withCol a (fun ri ai => lshCol res.base2k k ri ai N)) res) fun r1 =>
  forRange (a.rank + 1) (res.rank + 1) (selfCol (fun _ => vecZero N res.size)) r1

/-- `glwe_lsh_add(res, a, k, scratch)` -/
def glweLshAdd (N : Nat) (res a : GLWE) (k : Nat) : Outcome GLWE :=
  check (res.n == N) <| check (a.n == N) <| check (res.base2k == a.base2k) <|
  check (decide (res.rank ≥ a.rank)) <|
  forRange 0 (a.rank + 1) (withCol a (fun ri ai => lshAddCol res.base2k k ri ai N)) res

/-- `glwe_lsh_sub(res, a, k, scratch)` -/
def glweLshSub (N : Nat) (res a : GLWE) (k : Nat) : Outcome GLWE :=
  check (res.n == N) <| check (a.n == N) <| check (res.base2k == a.base2k) <|
  check (decide (res.rank ≥ a.rank)) <|
  forRange 0 (a.rank + 1) (withCol a (fun ri ai => lshSubCol res.base2k k ri ai N)) res

/-! ## GLWENormalize -/

/-- `glwe_normalize(res, a, scratch)`: `vec_znx_normalize(res, res.base2k, 0, i, a, a.base2k, i)` per
column (same or different radix).  `normalizeCol?` is total on well-formed columns; its `none`
is mapped to a panic so that no default does real work. -/
def glweNormalize (N : Nat) (res a : GLWE) : Outcome GLWE :=
  check (res.n == N) <| check (a.n == N) <| check (res.rank == a.rank) <|
  forRange 0 (res.rank + 1) (fun i r =>
    bind (colOf a i) (fun ai => updCol i (fun _ =>
      match normalizeCol? res.base2k res.size 0 ai a.base2k N with
      | some c => .ok c
      | none => .panic "other") r)) res

/-- `glwe_normalize_assign(res, scratch)` -/
def glweNormalizeAssign (N : Nat) (res : GLWE) : Outcome GLWE :=
  forRange 0 (res.rank + 1) (selfCol (fun ri => normalizeAssignCol res.base2k ri N)) res

/-! ## GGSW -/

/-- a GGSW ciphertext: `dnum` rows of `rank+1` GLWE ciphertexts of rank `rank` (row-major) -/
structure GGSW where
  base2k : Nat
  n : Nat
  rank : Nat
  dnum : Nat
  dsize : Nat
  cts : List GLWE
deriving Repr

/-- `for idx in 0..cnt` over the `(row, col)` entries in row-major order, entry `idx` of `res`
rewritten by `f idx res_entry` -/
def forEntries : (cnt lo : Nat) → (f : Nat → GLWE → Outcome GLWE) → List GLWE → Outcome (List GLWE)
  | 0, _, _, l => .ok l
  | cnt + 1, lo, f, l =>
    match l[lo]? with
    | none => .panic "assert"        -- `MatZnx::at_mut`: `row < rows` assertion
    | some e => bind (f lo e) (fun e' => forEntries cnt (lo + 1) f (l.set lo e'))

/-- `ggsw_rotate(k, res, a)`: `glwe_rotate` on every `(row, col)` entry of the first `res.dnum` rows -/
def ggswRotate (N : Nat) (k : Int) (res a : GGSW) : Outcome GGSW :=
  check (decide (res.dnum ≤ a.dnum)) <| check (res.dsize == a.dsize) <| check (res.rank == a.rank) <|
  bind (forEntries (res.dnum * (res.rank + 1)) 0 (fun idx e =>
      match a.cts[idx]? with
      | none => .panic "assert"
      | some ae => glweRotate N k e ae) res.cts) fun cts => .ok { res with cts := cts }

/-- `ggsw_rotate_assign(k, res, scratch)` -/
def ggswRotateAssign (N : Nat) (k : Int) (res : GGSW) : Outcome GGSW :=
  bind (forEntries (res.dnum * (res.rank + 1)) 0 (fun _ e => glweRotateAssign N k e) res.cts)
    fun cts => .ok { res with cts := cts }

/-! ## the scratch-size assertions

`assert!(scratch.available() >= self.…_tmp_bytes())` of every operation that takes a scratch arena,
at its position among the other assertions of the Rust body: first for the shifts, the in-place
rotation / normalisation and `ggsw_rotate_assign`; after the shape assertions for `glwe_normalize`;
`glwe_mul_xp_minus_one_assign` has none — its kernel takes one limb from the arena and panics there. -/

/-- `assert!(scratch.available() >= need)` (or the failing `take_slice` of `need` bytes) -/
def checkS (need avail : Nat) (k : Outcome α) : Outcome α := if need ≤ avail then k else .panic "scratch"

/-- bytes available in `ScratchOwned::alloc(sb)`: `alloc_aligned` rounds the size up to the next
multiple of `DEFAULTALIGN = 64`, and the arena starts aligned -/
def scratchCap (sb : Nat) : Nat := (sb + 63) / 64 * 64

def glweRotateAssignS (N sc : Nat) (k : Int) (res : GLWE) : Outcome GLWE :=
  checkS (Scratch.tbGlweRotate N) sc <| glweRotateAssign N k res

def glweMulXpMinusOneAssignS (N sc : Nat) (k : Int) (res : GLWE) : Outcome GLWE :=
  check (res.n == N) <| checkS (Scratch.oneLimbTmp N) sc <| glweMulXpMinusOneAssign N k res

def glweRshS (N sc : Nat) (scr : Int) (k : Nat) (res : GLWE) : Outcome GLWE :=
  checkS (Scratch.tbGlweShift N) sc <| glweRsh N scr k res

def glweLshAssignS (N sc : Nat) (res : GLWE) (k : Nat) : Outcome GLWE :=
  checkS (Scratch.tbGlweShift N) sc <| glweLshAssign N res k

def glweLshS (N sc : Nat) (res a : GLWE) (k : Nat) : Outcome GLWE :=
  checkS (Scratch.tbGlweShift N) sc <| glweLsh N res a k

def glweLshAddS (N sc : Nat) (res a : GLWE) (k : Nat) : Outcome GLWE :=
  checkS (Scratch.tbGlweShift N) sc <| glweLshAdd N res a k

def glweLshSubS (N sc : Nat) (res a : GLWE) (k : Nat) : Outcome GLWE :=
  checkS (Scratch.tbGlweShift N) sc <| glweLshSub N res a k

def glweNormalizeS (N sc : Nat) (res a : GLWE) : Outcome GLWE :=
  check (res.n == N) <| check (a.n == N) <| check (res.rank == a.rank) <|
  checkS (Scratch.tbGlweNormalize N) sc <| glweNormalize N res a

def glweNormalizeAssignS (N sc : Nat) (res : GLWE) : Outcome GLWE :=
  checkS (Scratch.tbGlweNormalize N) sc <| glweNormalizeAssign N res

def ggswRotateAssignS (N sc : Nat) (k : Int) (res : GGSW) : Outcome GGSW :=
  checkS (Scratch.tbGlweRotate N) sc <| ggswRotateAssign N k res

/-! ## straight-line programs over a pool -/

inductive Obj where
  | ct (c : GLWE)
  | gg (g : GGSW)
deriving Repr

/-- the pool of a program: module degree, scratch fill pattern, objects -/
structure Pool where
  N : Nat
  scr : Int
  objs : List Obj
  /-- size in bytes requested for the scratch arena (`ScratchOwned::alloc(sb)`) -/
  sb : Nat := 65536
deriving Repr

inductive Op where
  | add (r a b : Nat) | addAssign (r a : Nat)
  | sub (r a b : Nat) | subAssign (r a : Nat) | subNegateAssign (r a : Nat)
  | negate (r a : Nat) | negateAssign (r : Nat)
  | copy (r a : Nat)
  | rotate (k : Int) (r a : Nat) | rotateAssign (k : Int) (r : Nat)
  | mulXpMinusOne (k : Int) (r a : Nat) | mulXpMinusOneAssign (k : Int) (r : Nat)
  | rsh (k r : Nat) | lshAssign (r k : Nat)
  | lsh (r a k : Nat) | lshAdd (r a k : Nat) | lshSub (r a k : Nat)
  | normalize (r a : Nat) | normalizeAssign (r : Nat)
  | ggswRotate (k : Int) (r a : Nat) | ggswRotateAssign (k : Int) (r : Nat)
deriving Repr

/-- result index of an operation -/
def Op.dst : Op → Nat
  | .add r _ _ | .addAssign r _ | .sub r _ _ | .subAssign r _ | .subNegateAssign r _
  | .negate r _ | .negateAssign r | .copy r _ | .rotate _ r _ | .rotateAssign _ r
  | .mulXpMinusOne _ r _ | .mulXpMinusOneAssign _ r | .rsh _ r | .lshAssign r _
  | .lsh r _ _ | .lshAdd r _ _ | .lshSub r _ _ | .normalize r _ | .normalizeAssign r
  | .ggswRotate _ r _ | .ggswRotateAssign _ r => r

def getCt (p : Pool) (i : Nat) : Outcome GLWE :=
  match p.objs[i]? with
  | some (.ct c) => .ok c
  | some (.gg _) => .err "kind"
  | none => .err "index"

def getGg (p : Pool) (i : Nat) : Outcome GGSW :=
  match p.objs[i]? with
  | some (.gg g) => .ok g
  | some (.ct _) => .err "kind"
  | none => .err "index"

def putObj (p : Pool) (i : Nat) (o : Obj) : Pool := { p with objs := p.objs.set i o }

/-- a result that is also an operand of an out-of-place form: not expressible in safe Rust -/
def noAlias (c : Bool) (k : Outcome α) : Outcome α := if c then .err "alias" else k

/-- unary-in-place operation on pool entry `r` -/
def un (p : Pool) (r : Nat) (f : GLWE → Outcome GLWE) : Outcome Pool :=
  bind (getCt p r) fun res => bind (f res) fun x => .ok (putObj p r (.ct x))

/-- operation with result `r` and one operand `a` -/
def bin (p : Pool) (r a : Nat) (f : GLWE → GLWE → Outcome GLWE) : Outcome Pool :=
  noAlias (r == a) <|
  bind (getCt p r) fun res => bind (getCt p a) fun ca => bind (f res ca) fun x => .ok (putObj p r (.ct x))

/-- one step of a program -/
def step (p : Pool) : Op → Outcome Pool
  | .add r a b =>
    noAlias (r == a || r == b) <|
    bind (getCt p r) fun res => bind (getCt p a) fun ca => bind (getCt p b) fun cb =>
      bind (glweAddInto p.N res ca cb) fun x => .ok (putObj p r (.ct x))
  | .sub r a b =>
    noAlias (r == a || r == b) <|
    bind (getCt p r) fun res => bind (getCt p a) fun ca => bind (getCt p b) fun cb =>
      bind (glweSub p.N res ca cb) fun x => .ok (putObj p r (.ct x))
  | .addAssign r a => bin p r a (glweAddAssign p.N)
  | .subAssign r a => bin p r a (glweSubAssign p.N)
  | .subNegateAssign r a => bin p r a (glweSubNegateAssign p.N)
  | .negate r a => bin p r a (glweNegate p.N)
  | .negateAssign r => un p r (glweNegateAssign p.N)
  | .copy r a => bin p r a (glweCopy p.N)
  | .rotate k r a => bin p r a (glweRotate p.N k)
  | .rotateAssign k r => un p r (glweRotateAssignS p.N (scratchCap p.sb) k)
  | .mulXpMinusOne k r a => bin p r a (glweMulXpMinusOne p.N k)
  | .mulXpMinusOneAssign k r => un p r (glweMulXpMinusOneAssignS p.N (scratchCap p.sb) k)
  | .rsh k r => un p r (glweRshS p.N (scratchCap p.sb) p.scr k)
  | .lshAssign r k => un p r (fun res => glweLshAssignS p.N (scratchCap p.sb) res k)
  | .lsh r a k => bin p r a (fun res ca => glweLshS p.N (scratchCap p.sb) res ca k)
  | .lshAdd r a k => bin p r a (fun res ca => glweLshAddS p.N (scratchCap p.sb) res ca k)
  | .lshSub r a k => bin p r a (fun res ca => glweLshSubS p.N (scratchCap p.sb) res ca k)
  | .normalize r a => bin p r a (glweNormalizeS p.N (scratchCap p.sb))
  | .normalizeAssign r => un p r (glweNormalizeAssignS p.N (scratchCap p.sb))
  | .ggswRotate k r a =>
    noAlias (r == a) <|
    bind (getGg p r) fun res => bind (getGg p a) fun ga =>
      bind (ggswRotate p.N k res ga) fun x => .ok (putObj p r (.gg x))
  | .ggswRotateAssign k r =>
    bind (getGg p r) fun res => bind (ggswRotateAssignS p.N (scratchCap p.sb) k res) fun x => .ok (putObj p r (.gg x))

/-- run a program; stops at the first failing step -/
def run : Pool → List Op → Outcome Pool
  | p, [] => .ok p
  | p, op :: rest => bind (step p op) (fun p' => run p' rest)

/-! ## phases -/

/-- decryption phase of a ciphertext of rank `r` under the first `r` polynomials of a secret
(a rank-0 operand is a plaintext: its phase is its body) -/
def phase (sk : List Poly) (ct : GLWE) : Col := phaseBig (sk.take ct.rank) ct

end Core.Ops
