import Poulpy.Model.Basic
import Poulpy.Model.HalSpec
import Poulpy.Model.Ring
import Poulpy.Model.VecNorm
import Poulpy.Model.Core.Basic
import Poulpy.Model.Core.Ks
import Poulpy.Model.Core.Ep
import Poulpy.Model.Core.Ops
import Poulpy.Model.Lut

/-!
The three accumulator loops of the CGGI blind rotation **on ciphertexts**
(`poulpy-bin-fhe/src/blind_rotation/algorithms/cggi/algorithm.rs`:
`execute_standard`, `execute_block_binary`, `execute_block_binary_extended`, and the dispatch
`blind_rotation_execute`), call by call on the already modelled layers:

* `mod_switch_2n`                                      → `Lut.modSwitch2n`
* `vec_znx_rotate`, `glwe_mul_xp_minus_one_assign`,
  `glwe_add_assign`, `glwe_normalize_assign`           → `Model/Ring.lean`, `Core.Ops`
* `glwe_external_product`                              → `Core.glweExternalProduct` (C04)
* `vec_znx_dft_apply`, `vec_znx_dft_zero`, `vmp_apply_dft_to_dft`, `svp_apply_dft_to_dft`,
  `vec_znx_dft_{add,sub}_assign`, `vec_znx_idft_apply` → `Hal.op…` (exact-integer HAL model)
* `vec_znx_big_add_small_assign`, `vec_znx_big_normalize` → `Core.bigAddSmallAssign`, `Core.epBigNormalize`
* `x_pow_a[k]` (`set_xai_plus_y(k, 0)` then `svp_prepare`) → `Lut.setXaiPlusY n k 0`

The blind rotation key is the list of its (prepared) GGSW ciphertexts, `Core.EpGGSW`, in the order of
`brk.data`; `vmp_prepare` / `svp_prepare` are the identity on content in the exact-integer HAL model.

The DFT temporaries (`acc_dft`, `vmp_res`, `acc_add_dft`, `vmp_xai`, `acc_add_big`) come un-zeroed out
of the scratch arena.  Every one of them is completely overwritten before it is read
(`vec_znx_dft_apply` / `vmp_apply_dft_to_dft` / `svp_apply_dft_to_dft` / `vec_znx_idft_apply` write all
the active limbs, `acc_add_dft` is zeroed column by column at the start of every block), so the model
starts them from zero.

Radices as the code has them: `execute_standard` converts through `glwe_external_product` (any radix),
`execute_block_binary` normalises with `brk.base2k()` and `execute_block_binary_extended` with
`res.base2k()`, neither looks at the other radix (the crate always calls them with
`res.base2k = brk.base2k = lut.base2k`).
-/

namespace Core.Blind
open Core Hal

/-- `brk.dist` as far as the dispatch looks at it -/
inductive Dist where
  | binaryBlock (b : Nat)
  | binaryOther            -- `BinaryFixed(_) | BinaryProb(_) | ZERO`
  | other                  -- ternary / `NONE`: "invalid CGGI distribution"
deriving Repr

/-- `BlindRotationKeyPrepared::block_size` -/
def Dist.blockSize : Dist → Nat
  | .binaryBlock b => b
  | _ => 1

/-- `BlindRotationKeyPrepared`: distribution tag + `data` -/
structure Brk where
  dist : Dist
  keys : List EpGGSW
deriving Repr

def emptyG : EpGGSW := { base2k := 0, n := 0, rank := 0, dsize := 0, dnum := 0, size := 0, cells := [] }

/-- `self.data[0]` (the layout accessors of the prepared key read the first GGSW) -/
def Brk.k0 (k : Brk) : EpGGSW := k.keys.getD 0 emptyG

/-- the LWE ciphertext as `mod_switch_2n` reads it: radix and the rows `lwe.data().at(0, i)` -/
structure Lwe where
  base2k : Nat
  limbs : List (List Int)
deriving Repr

/-- `lwe.n()` -/
def Lwe.n (l : Lwe) : Nat := (l.limbs.getD 0 []).length - 1

/-- `LookupTable`: `data` (one single-column `VecZnx` per extension polynomial), degree of each, direction -/
structure LutIn where
  n : Nat
  data : List Col
  left : Bool
deriving Repr

def LutIn.ext (l : LutIn) : Nat := l.data.length
/-- `lut.domain_size()` -/
def LutIn.domain (l : LutIn) : Nat := l.data.length * l.n

def liftCols (o : Outcome (List Col)) (c : GLWE) : Outcome GLWE :=
  match o with
  | .ok v => .ok { c with cols := v }
  | .err e => .err e
  | .panic p => .panic p

/-- `x_pow_a[k]` -/
def xPowA (N k : Nat) : Poly := Lut.setXaiPlusY N k 0

/-! ## `execute_standard` -/

/-- one iteration: `acc_tmp = out ⊡ brk_i; acc_tmp *= X^{a_i} − 1; out += acc_tmp` -/
def stdStep (big128 : Bool) (N : Nat) (out : GLWE) (ai : Int) (g : EpGGSW) : Outcome GLWE :=
  Ops.bind (liftCols (glweExternalProduct big128 N out.base2k out.size out.cols out.base2k g) out) fun accTmp =>
  Ops.bind (Ops.glweMulXpMinusOneAssign N ai accTmp) fun accTmp =>
  Ops.glweAddAssign N out accTmp

/-- the accumulator before the loop: `out.zero(); vec_znx_rotate(b, out, 0, lut.data[0], 0)` -/
def initAcc (N resB resSize rank : Nat) (b : Int) (lut0 : Col) : GLWE :=
  Ks.mkCt resB N (vecRotate b N resSize lut0 :: List.replicate rank (vecZero N resSize))

/-- `izip!(a.iter(), brk.data.iter()).for_each(…)` from the accumulator `out` -/
def stdLoop (big128 : Bool) (N : Nat) (out : GLWE) (pairs : List (Int × EpGGSW)) : Outcome GLWE :=
  pairs.foldl (fun o p => Ops.bind o fun out => stdStep big128 N out p.1 p.2) (.ok out)

/-- **`execute_standard`**: result columns of `res` (`resB`, `resSize`, `rank` = its layout) -/
def executeStandard (big128 : Bool) (N resB resSize rank : Nat) (lwe : Lwe) (lut : LutIn) (brk : Brk) : Outcome (List Col) :=
  if brk.keys.isEmpty then .panic "bounds"
  else
    -- the four debug assertions
    Ops.check (N == brk.k0.n) <| Ops.check (lut.domain == brk.k0.n) <| Ops.check (rank == brk.k0.rank) <|
    Ops.check (lwe.n == brk.keys.length) <|
    Ops.bind (Lut.modSwitch2n (2 * lut.domain) lwe.base2k lwe.limbs lut.left) fun lwe2n =>
    match lwe2n with
    | [] => .panic "bounds"
    | b :: a =>
      Ops.bind (stdLoop big128 N (initAcc N resB resSize rank b (lut.data.getD 0 [])) (List.zip a brk.keys)) fun out =>
      Ops.bind (Ops.glweNormalizeAssign N out) fun r => .ok r.cols

/-! ## `execute_block_binary` -/

/-- `svp_apply_dft_to_dft(vmp_xai, 0, x_pow_a[p], 0, src, k); vec_znx_dft_add_assign(add, k, vmp_xai, 0);
vec_znx_dft_sub_assign(add, k, sub, k)`; state `(add, vmp_xai)` -/
def termStep (N p : Nat) (add xai src sub : Buf) (k : Nat) : Buf × Buf :=
  let xai' := opSvpApply xai 0 (xPowA N p) src k
  let add' := opAssign polyAdd add k xai' 0
  (opAssign polySub add' k sub k, xai')

/-- one key bit of a block: `vmp_res = acc_dft × brk_i`, then per column `add += X^{a_i}·vmp_res − vmp_res` -/
def bbBit (N cols S : Nat) (accDft : Buf) (st : Buf × Buf) (ai : Int) (g : EpGGSW) : Buf × Buf :=
  let aiPos := Lut.posMod ai (2 * N)
  let vmpRes := opVmp (mkBuf N cols S (zeroCols N cols S)) accDft g.toPMat 0
  (List.range cols).foldl (fun st i => termStep N aiPos st.1 st.2 vmpRes vmpRes i) st

/-- end of a block, column `i`: `idft(acc_add_dft, i) + acc_i`, normalised in radix `b` into `resSize` limbs -/
def blockFinishCol (big128 : Bool) (N b resSize S : Nat) (acc : List Col) (add : Buf) (i : Nat) : Option Col :=
  let big := opIdft (mkBuf N 1 S (zeroCols N 1 S)) 0 add i
  epBigNormalize big128 N b resSize (bigAddSmallAssign big128 (big.act 0) (acc.getD i [])) b

def blockFinish (big128 : Bool) (N b resSize S cols : Nat) (acc : List Col) (add : Buf) : Option (List Col) :=
  (List.range cols).mapM (blockFinishCol big128 N b resSize S acc add)

/-- `for j in 0..cols { vec_znx_dft_apply(1, 0, acc_dft, j, acc, j) }` into the `cols × dnum` buffer -/
def accToDft (N cols dnum resSize : Nat) (acc : List Col) : Buf :=
  dftApplyAll 1 0 (mkBuf N cols dnum (zeroCols N cols dnum)) (mkBuf N cols resSize acc)

/-- the sum collected in `acc_add_dft` over one block -/
def bbAdd (N cols S dnum resSize : Nat) (out : List Col) (blk : List (Int × EpGGSW)) : Buf :=
  let accDft := accToDft N cols dnum resSize out
  (blk.foldl (fun st p => bbBit N cols S accDft st p.1 p.2)
    (mkBuf N cols S (zeroCols N cols S), mkBuf N 1 S (zeroCols N 1 S))).1

/-- one block of `execute_block_binary` -/
def bbBlock (big128 : Bool) (N b resSize S cols dnum : Nat) (out : List Col) (blk : List (Int × EpGGSW)) : Option (List Col) :=
  blockFinish big128 N b resSize S cols out (bbAdd N cols S dnum resSize out blk)

def bbLoop (big128 : Bool) (N b resSize S cols dnum : Nat) (out : List Col) (blocks : List (List (Int × EpGGSW))) :
    Option (List Col) :=
  blocks.foldl (fun o blk => o.bind fun out => bbBlock big128 N b resSize S cols dnum out blk) (some out)

/-- `izip!(a.chunks_exact(block), brk.data.chunks_exact(block))` with the inner `izip!(ai, ski)` -/
def blocksOf (block : Nat) (a : List Int) (keys : List EpGGSW) : List (List (Int × EpGGSW)) :=
  List.zipWith List.zip (Lut.chunksExact block a.length a) (Lut.chunksExact block keys.length keys)

/-- **`execute_block_binary`** (`block = brk.block_size() > 1`, `lut.extension_factor() = 1`) -/
def executeBlockBinary (big128 : Bool) (N resSize rank : Nat) (lwe : Lwe) (lut : LutIn) (brk : Brk) : Outcome (List Col) :=
  if brk.keys.isEmpty then .panic "bounds"
  else
    let g0 := brk.k0
    let cols := rank + 1
    -- shape assertions of `vmp_apply_dft_to_dft` / the module degree
    Ops.check (N == g0.n) <| Ops.check (rank == g0.rank) <|
    Ops.bind (Lut.modSwitch2n (2 * lut.domain) lwe.base2k lwe.limbs lut.left) fun lwe2n =>
    match lwe2n with
    | [] => .panic "bounds"
    | b :: a =>
      if brk.dist.blockSize = 0 then .panic "other"       -- `chunks_exact(0)`
      else
        let out0 := (initAcc N g0.base2k resSize rank b (lut.data.getD 0 [])).cols
        optOutcome (bbLoop big128 N g0.base2k resSize g0.size cols g0.dnum out0 (blocksOf brk.dist.blockSize a brk.keys))

/-! ## `execute_block_binary_extended` -/

/-- `(lo..hi).zip(j0..)` -/
def zipRange (lo hi j0 : Nat) : List (Nat × Nat) := (List.range (hi - lo)).map fun t => (lo + t, j0 + t)

/-- the `extension_factor` accumulators before the loop: `acc[i] = X^{b_hi (+1)} · lut.data[j]` in column 0 -/
def extInit (N ext resSize rank : Nat) (bPos : Nat) (lut : List Col) : List (List Col) :=
  let bHi := bPos / ext
  let bLo := bPos % ext
  (List.range ext).map fun i =>
    let c0 := if i < bLo then vecRotate ((bHi : Int) + 1) N resSize (lut.getD (ext - bLo + i) [])
              else vecRotate (bHi : Int) N resSize (lut.getD (i - bLo) [])
    c0 :: List.replicate rank (vecZero N resSize)

structure ExtSt where
  add : List Buf        -- `acc_add_dft[ext]`
  xai : Buf             -- `vmp_xai`

def zb : Buf := { n := 0, cols := 0, size := 0, maxSize := 0, data := [] }

/-- the three HAL calls on `acc_add_dft[i]` column `k` with source `vmp_res[j]` and monomial `x_pow_a[p]` -/
def extUpd (N : Nat) (vmpRes : List Buf) (st : ExtSt) (i j p k : Nat) : ExtSt :=
  let r := termStep N p (st.add.getD i zb) st.xai (vmpRes.getD j zb) (vmpRes.getD i zb) k
  { add := st.add.set i r.1, xai := r.2 }

/-- one key bit of a block of the extended loop -/
def extBit (N ext cols S : Nat) (accDft : List Buf) (st : ExtSt) (ai : Int) (g : EpGGSW) : ExtSt :=
  let twoN := 2 * N
  let aiPos := Lut.posMod ai (twoN * ext)
  let aiHi := aiPos / ext
  let aiLo := aiPos % ext
  let vmpRes := accDft.map fun d => opVmp (mkBuf N cols S (zeroCols N cols S)) d g.toPMat 0
  if aiLo = 0 then
    if aiHi ≠ 0 then
      (List.range ext).foldl (fun st j => (List.range cols).foldl (fun st i => extUpd N vmpRes st j j aiHi i) st) st
    else st
  else
    let p1 := (aiHi + 1) % twoN
    let st := (zipRange 0 aiLo (ext - aiLo)).foldl
      (fun st ij => (List.range cols).foldl (fun st k => extUpd N vmpRes st ij.1 ij.2 p1 k) st) st
    (zipRange aiLo ext 0).foldl
      (fun st ij => (List.range cols).foldl (fun st k => extUpd N vmpRes st ij.1 ij.2 aiHi k) st) st

/-- one block of the extended loop (`b` = `res.base2k()`) -/
def extBlock (big128 : Bool) (N ext b resSize S cols dnum : Nat) (acc : List (List Col)) (blk : List (Int × EpGGSW)) :
    Option (List (List Col)) :=
  let accDft := acc.map (accToDft N cols dnum resSize)
  let st0 : ExtSt := { add := List.replicate ext (mkBuf N cols S (zeroCols N cols S)), xai := mkBuf N 1 S (zeroCols N 1 S) }
  let st := blk.foldl (fun st p => extBit N ext cols S accDft st p.1 p.2) st0
  (List.range ext).mapM fun j => blockFinish big128 N b resSize S cols (acc.getD j []) (st.add.getD j zb)

def extLoop (big128 : Bool) (N ext b resSize S cols dnum : Nat) (acc : List (List Col)) (blocks : List (List (Int × EpGGSW))) :
    Option (List (List Col)) :=
  blocks.foldl (fun o blk => o.bind fun acc => extBlock big128 N ext b resSize S cols dnum acc blk) (some acc)

/-- **`execute_block_binary_extended`** (`lut.extension_factor() > 1`): `res ← acc[0]` -/
def executeExtended (big128 : Bool) (N resB resSize rank : Nat) (lwe : Lwe) (lut : LutIn) (brk : Brk) : Outcome (List Col) :=
  if brk.keys.isEmpty then .panic "bounds"
  else
    let g0 := brk.k0
    let cols := rank + 1
    let ext := lut.ext
    Ops.check (N == g0.n) <| Ops.check (rank == g0.rank) <|
    Ops.bind (Lut.modSwitch2n (2 * lut.domain) lwe.base2k lwe.limbs lut.left) fun lwe2n =>
    match lwe2n with
    | [] => .panic "bounds"
    | b :: a =>
      if brk.dist.blockSize = 0 then .panic "other"
      else
        let acc0 := extInit N ext resSize rank (Lut.posMod b (2 * lut.domain)) lut.data
        match extLoop big128 N ext resB resSize g0.size cols g0.dnum acc0 (blocksOf brk.dist.blockSize a brk.keys) with
        | none => .err "fuel"
        | some acc => .ok (acc.getD 0 [])

/-! ## dispatch -/

/-- **`blind_rotation_execute(res, lwe, lut, brk)`**: the new content of `res` -/
def execute (big128 : Bool) (N resB resSize rank : Nat) (lwe : Lwe) (lut : LutIn) (brk : Brk) : Outcome (List Col) :=
  match brk.dist with
  | .other => .panic "other"
  | .binaryBlock _ =>
    if lut.ext > 1 then executeExtended big128 N resB resSize rank lwe lut brk
    else if brk.dist.blockSize > 1 then executeBlockBinary big128 N resSize rank lwe lut brk
    else executeStandard big128 N resB resSize rank lwe lut brk
  | .binaryOther =>
    if lut.ext > 1 then .panic "assert" else executeStandard big128 N resB resSize rank lwe lut brk

end Core.Blind
