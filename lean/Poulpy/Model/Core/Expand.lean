import Poulpy.Model.Basic
import Poulpy.Model.HalSpec
import Poulpy.Model.VecNorm
import Poulpy.Model.Ring
import Poulpy.Model.Core.Ep
import Poulpy.Model.Core.Mul

/-!
GGLWE → GGSW row expansion (`poulpy-core/src/conversion/gglwe_to_ggsw.rs`: `ggsw_from_gglwe`,
`ggsw_expand_row`, `ggsw_expand_rows_internal`), the index map of the secret tensor
(`layouts/glwe_secret_tensor.rs::GLWESecretTensor::at`) and what the key of
`encryption/gglwe_to_ggsw_key.rs` contains.

* `GLWESecretTensor` stores the products `s_i·s_j`, `i ≤ j < rank`, at the packed-triangle index
  `secretTensorIdx rank i j` (`at(i, j)` swaps its arguments when `i > j`).
* `GGLWEToGGSWKey` is `rank` GGLWEs; key `i` (used for output column `i+1`) has `rank` input columns,
  input column `j` encrypting `sk_tensor.at(i, j) = s_i·s_j` — produced by the real code and an
  *input* of the model (`ToGGSWKey.keys`), checked cell by cell by the Python oracle.
* row expansion: column 0 of every row is copied from the GGLWE; column `col ≥ 1` is the gadget
  product of the mask columns with key `col−1`, plus the body added to column `col`.
-/

namespace Core

/-- `GLWESecretTensor::at(i, j)`: `if i > j { swap }; i * rank + j - (i * (i + 1) / 2)` -/
def secretTensorIdx (rank i j : Nat) : Nat :=
  let lo := if i > j then j else i
  let hi := if i > j then i else j
  lo * rank + hi - lo * (lo + 1) / 2

/-- `GLWESecretTensor::pairs(rank)` -/
def secretTensorPairs (rank : Nat) : Nat := max ((rank + 1) * rank / 2) 1

/-- prepared `GGLWEToGGSWKey`: `keys[i]` = GGLWE with `rank` input columns and `rank+1` output columns -/
structure ToGGSWKey where
  base2k : Nat
  n : Nat
  rank : Nat
  dsize : Nat
  dnum : Nat
  size : Nat
  keys : List (List (List Col))
deriving Repr

def ToGGSWKey.at (t : ToGGSWKey) (i : Nat) : GGLWE :=
  { base2k := t.base2k, n := t.n, colsIn := t.rank, colsOut := t.rank + 1, dsize := t.dsize, dnum := t.dnum,
    size := t.size, cells := t.keys.getD i [] }

/-- `ggsw_expand_rows_internal` for one row: `a0` = body converted to the key radix (`res_conv_size`
limbs), `aDft` = the `rank` mask columns (transforms); returns the cells of columns `1..rank`. -/
def expandRowCols (big128 : Bool) (n resBase2k resSize : Nat) (a0 : Col) (aDft : List Col) (t : ToGGSWKey) :
    Option (List (List Col)) :=
  let cols := t.rank + 1
  (List.range t.rank).mapM (fun c =>
    let col := c + 1
    -- res_dft.zero(); gglwe_product_dft(res_dft, a_dft, tsk.at(col - 1)); idft
    let resBig := gglweProductDft aDft (t.at c) t.size (zeroCols n cols t.size)
    -- vec_znx_big_add_small_assign(res_big, col, a_0, 0)
    let resBig := resBig.set col (bigAddSmallAssign big128 (resBig.getD col []) a0)
    resBig.mapM (fun x => bigNormalizeOff big128 n resBase2k resSize 0 x t.base2k))

/-- `ggsw_expand_row` for one row whose column-0 cell is `glwe` (`rank+1` columns of `resSize` limbs) -/
def expandRow (big128 : Bool) (n resBase2k resSize : Nat) (glwe : List Col) (t : ToGGSWKey) : Option (List (List Col)) :=
  let convSize := (resSize * resBase2k + t.base2k - 1) / t.base2k
  let pre : Option (Col × List Col) :=
    if resBase2k = t.base2k then
      some (vecCopy n convSize (glwe.getD 0 []),
            (List.range t.rank).map (fun i => Hal.dftApplyCol n 1 0 convSize (glwe.getD (i + 1) [])))
    else
      ((List.range t.rank).mapM (fun i =>
          (normalizeCol? t.base2k convSize 0 (glwe.getD (i + 1) []) resBase2k n).map
            (fun c => Hal.dftApplyCol n 1 0 convSize c))).bind (fun ad =>
        (normalizeCol? t.base2k convSize 0 (glwe.getD 0 []) resBase2k n).map (fun a0 => (a0, ad)))
  pre.bind (fun p => expandRowCols big128 n resBase2k resSize p.1 p.2 t)

/-- **`ggsw_from_gglwe(res, a, tsk)`**: `a` = the GGLWE rows (`a.at(row, 0)`, `rank+1` columns each);
result = the GGSW cells in (row, column) order.  `glwe_copy` into a result of `resSize` limbs. -/
def ggswFromGGLWE (big128 : Bool) (n resBase2k resSize : Nat) (aRows : List (List Col)) (t : ToGGSWKey) :
    Option (List (List Col)) :=
  (aRows.mapM (fun row =>
    let cell0 := row.map (fun c => vecCopy n resSize c)
    (expandRow big128 n resBase2k resSize cell0 t).map (fun rest => cell0 :: rest))).map List.flatten

end Core
