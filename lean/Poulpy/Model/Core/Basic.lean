import Poulpy.Model.Basic
import Poulpy.Model.HalSpec

/-!
Shared vocabulary of the core-layer models (`poulpy-core`): ciphertext containers and the exact
decryption phase.  Everything is exact integer arithmetic; products use `Hal.negMul`.

* A GLWE ciphertext of rank `r` is `r+1` columns: column 0 the body, columns `1..r` the mask.
* A GLWE secret of rank `r` is `r` polynomials (`s₁ … s_r`).
* The **phase** of a ciphertext under a secret is `body + Σ maskᵢ ⋆ sᵢ`, limb by limb, *without*
  the final normalisation (exact "big" accumulator): this is what `glwe_decrypt` computes before
  `vec_znx_big_normalize`.
* Torus value of a limb column at radix `2^b`: `x = Σ_j limb_j · 2^{-(j+1)·b}`; two columns
  represent the same torus element iff their integer values `valCol` agree modulo `2^{b·size}`.
-/

namespace Core

structure GLWE where
  base2k : Nat
  k : Nat                  -- torus precision in bits (metadata only)
  n : Nat
  cols : List Col          -- rank+1 columns, each `size` limbs of `n` coefficients
deriving Repr

def GLWE.rank (c : GLWE) : Nat := c.cols.length - 1
def GLWE.size (c : GLWE) : Nat := (c.cols.getD 0 []).length

/-- limb-wise sum of two columns of equal size -/
def colAddSame (a b : Col) : Col := List.zipWith Hal.polyAdd a b

/-- `s ⋆ col`: exact negacyclic product applied to every limb -/
def colMulPoly (s : Poly) (a : Col) : Col := a.map (fun l => Hal.negMul s l)

/-- exact phase `body + Σ maskᵢ ⋆ sᵢ` (one big-accumulator limb per ciphertext limb) -/
def phaseBig (sk : List Poly) (ct : GLWE) : Col :=
  let body := ct.cols.getD 0 []
  (List.range sk.length).foldl (fun acc i => colAddSame acc (colMulPoly (sk.getD i []) (ct.cols.getD (i + 1) []))) body

/-- integer value of coefficient `t` of a limb column at radix `2^b`, last limb weight 1 -/
def valCoeff (b : Nat) (a : Col) (t : Nat) : Int :=
  a.foldl (fun acc l => acc * 2 ^ b + l.getD t 0) 0

end Core
