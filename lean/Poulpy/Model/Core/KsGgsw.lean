import Poulpy.Model.Core.Ks
import Poulpy.Model.Core.Expand

/-!
# Key-switching and automorphism of GGSW ciphertexts (executable model, C03)

* `poulpy-core/src/keyswitching/ggsw.rs`  : `ggsw_keyswitch`, `ggsw_keyswitch_assign`
* `poulpy-core/src/automorphism/ggsw_ct.rs`: `ggsw_automorphism`, `ggsw_automorphism_assign`

Both apply the GLWE form (`Ks.keyswitch` / `Ks.automorphism`) to column 0 of every row and then rebuild
columns `1..rank` with the row expansion `ggsw_expand_row` (`Core.expandRow`, Model/Core/Expand.lean,
C04) and the GGLWE→GGSW tensor key.  A GGSW is the list of its column-0 cells (one `Ct` per row) on the way in
and the list of all its cells in (row, column) order on the way out.

`ggsw_keyswitch` loops over `res.dnum()` rows (since poulpy 4a48098; before, it looped over `a.dnum()` and
panicked for `res.dnum() < a.dnum()` although its entry assertion admits it — found by this slice).
-/

namespace Ks
open Hal Core

/-- `ggsw_expand_row(res, tsk)` on every row: column-0 cells ↦ all cells in (row, column) order -/
def expandRows (big128 : Bool) (n resBase2k resSize : Nat) (col0 : List Ct) (t : ToGGSWKey) : Outcome (List (List Col)) :=
  obind (oall (col0.map (fun c =>
      ofOpt ((expandRow big128 n resBase2k resSize c.cols t).map (fun rest => c.cols :: rest)) "fuel")))
    (fun rows => .ok rows.flatten)

/-- **`ggsw_keyswitch(res, a, key, tsk)`**: `aCol0` = the column-0 cells of `a` (one per row of `a`) -/
def ggswKeyswitch (big128 : Bool) (n resBase2k resSize resDnum resDsize : Nat) (aBase2k aDsize : Nat) (aCol0 : List Ct)
    (key : Key) (t : ToGGSWKey) : Outcome (List (List Col)) :=
  if resDnum > aCol0.length then .panic "assert"
  else if resDsize ≠ aDsize then .panic "assert"
  else if resBase2k ≠ aBase2k then .panic "assert"
  else
    -- for row in 0..res.dnum() { glwe_keyswitch(res.at_mut(row, 0), a.at(row, 0), key) }   (poulpy 4a48098)
    obind (oall ((List.range resDnum).map (fun row =>
      match aCol0[row]? with
      | none => Outcome.panic "bounds"
      | some x => keyswitch big128 resBase2k resSize key.rankOut x key))) fun col0 =>
    expandRows big128 n resBase2k resSize col0 t

/-- **`ggsw_keyswitch_assign(res, key, tsk)`** -/
def ggswKeyswitchAssign (big128 : Bool) (n : Nat) (resCol0 : List Ct) (key : Key) (t : ToGGSWKey) : Outcome (List (List Col)) :=
  match resCol0 with
  | [] => .ok []
  | x0 :: _ =>
    obind (oall (resCol0.map (fun x => keyswitch big128 x.base2k x.size x.rank x key))) fun col0 =>
    expandRows big128 n x0.base2k x0.size col0 t

/-- **`ggsw_automorphism(res, a, key, tsk)`** (loops over `res.dnum()` rows) -/
def ggswAutomorphism (big128 : Bool) (n resBase2k resSize resDnum resDsize : Nat) (aBase2k aDsize : Nat) (aCol0 : List Ct)
    (key : Key) (t : ToGGSWKey) : Outcome (List (List Col)) :=
  if resDsize ≠ aDsize then .panic "assert"
  else if resBase2k ≠ aBase2k then .panic "assert"
  else if resDnum > aCol0.length then .panic "assert"
  else
    obind (oall ((List.range resDnum).map (fun row =>
      match aCol0[row]? with
      | none => Outcome.panic "bounds"
      | some x => automorphism big128 resBase2k resSize key.rankOut x key))) fun col0 =>
    expandRows big128 n resBase2k resSize col0 t

/-- **`ggsw_automorphism_assign(res, key, tsk)`** -/
def ggswAutomorphismAssign (big128 : Bool) (n : Nat) (resCol0 : List Ct) (key : Key) (t : ToGGSWKey) : Outcome (List (List Col)) :=
  match resCol0 with
  | [] => .ok []
  | x0 :: _ =>
    obind (oall (resCol0.map (fun x => automorphism big128 x.base2k x.size x.rank x key))) fun col0 =>
    expandRows big128 n x0.base2k x0.size col0 t

end Ks
