import Poulpy.Model.Basic
import Poulpy.Model.HalSpec
import Poulpy.Model.VecNorm
import Poulpy.Model.Ring
import Poulpy.Model.Sampling
import Poulpy.Model.Core.Basic

/-!
Encryption and decryption of LWE / GLWE ciphertexts (`poulpy-core/src/encryption/{glwe,lwe,
glwe_public_key}.rs`, `encryption/compressed/glwe_ct.rs`, `decryption/{glwe,lwe}.rs`,
`layouts/compressed/glwe.rs::decompress_glwe`).

Inputs of the model (see `Model/Sampling.lean`): the mask columns (or the raw `u64` stream they
are drawn from), the rounded Gaussian integers `e` the sampler adds, the secret.  `bits` is the
width of the back end's big accumulator: 64 for FFT64 (`ScalarBig = i64`), 128 for NTT120.

DFT-domain steps are exact (`Model/HalSpec.lean`): `vec_znx_dft_apply(1, 0, …)` is
`Hal.dftApplyCol`, `svp_apply_dft_to_dft{,_assign}` is the exact negacyclic product
(`Core.colMulPoly` = `Hal.svpAssignCol`), `vec_znx_idft_apply_consume` is the identity.
`none` stands for a Rust panic (bounds / assertion), reported as such by the driver.
-/

namespace Core

/-- `vec_znx_big_normalize(res, res_base2k, 0, col, a, a_base2k, col)` on one column for the
back end's accumulator width -/
def bigNormalize (bits rb rs : Nat) (a : Col) (ab n : Nat) : Option Col :=
  if bits = 64 then bigNormalizeCol64? rb rs 0 a ab n else bigNormalizeCol128? rb rs 0 a ab n

def zeroCol (n size : Nat) : Col := List.replicate size (Poly.zero n)

/-- body of the `(1..cols).for_each(|i| …)` loop of `glwe_encrypt_sk_internal` for mask column `i`
(`a` = the column just filled by `vec_znx_fill_uniform`, `s` = `sk[i-1]`): returns the new `c0`.
`pt = some (p, col)`: when `col = i` the plaintext is subtracted from the mask copy first
(`vec_znx_sub`, `vec_znx_normalize_assign`). -/
def encSkStep (bits b n size : Nat) (pt : Option (Col × Nat)) (i : Nat) (a : Col) (s : Poly) (c0 : Col) : Option Col :=
  let src : Col :=
    match pt with
    | some (p, col) => if i = col then normalizeAssignCol b (vecSub n size a p) n else a
    | none => a
  let ciDft := Hal.dftApplyCol n 1 0 size src          -- vec_znx_dft_apply(1, 0, ci_dft, 0, …)
  let ciBig := colMulPoly s ciDft                      -- svp_apply_dft_to_dft_assign + idft consume
  match bigNormalize bits b size ciBig b n with        -- vec_znx_big_normalize(ci, base2k, 0, 0, ci_big, base2k, 0)
  | none => none
  | some ci => some (vecSubAssignW w64 c0 ci)          -- vec_znx_sub_assign(c0, 0, ci, 0)

/-- the loop over the mask columns, `i` = index of the first remaining column; a missing secret
column is the bounds panic of `sk.data` -/
def encSkLoop (bits b n size : Nat) (pt : Option (Col × Nat)) : Nat → List Col → List Poly → Col → Option Col
  | _, [], _, c0 => some c0
  | _, _ :: _, [], _ => none
  | i, a :: as, s :: ss, c0 =>
    match encSkStep bits b n size pt i a s c0 with
    | none => none
    | some c1 => encSkLoop bits b n size pt (i + 1) as ss c1

/-- `if let Some((pt, col)) = pt && col == 0 { vec_znx_add_assign(c0, 0, pt, 0) }` -/
def addPtCol0 (pt : Option (Col × Nat)) (c1 : Col) : Col :=
  match pt with
  | some (p, col) => if col = 0 then vecAddAssignW w64 c1 p else c1
  | none => c1

/-- what follows the loop: `c0 += e` on the target limb, `c0 += pt` if the plaintext goes to
column 0, `ct[0] = normalize(c0)` -/
def encSkFinish (b n size kxe : Nat) (pt : Option (Col × Nat)) (e : Poly) (c0 : Col) : Option Col :=
  match Sampling.addNormalCol w64 kxe b c0 e with      -- vec_znx_add_normal(base2k, c0, 0, noise, source_xe)
  | none => none
  | some c1 =>
    normalizeCol? b size 0 (addPtCol0 pt c1) b n                      -- vec_znx_normalize(ct, base2k, 0, 0, c0, base2k, 0)

/-- **`glwe_encrypt_sk_internal`** given the mask columns: returns the body (column 0).
`size` = number of limbs of the ciphertext, `kxe` = precision of the noise (`NoiseInfos::k`). -/
def encryptSkBody (bits b n size kxe : Nat) (masks : List Col) (pt : Option (Col × Nat)) (sk : List Poly) (e : Poly) :
    Option Col :=
  match encSkLoop bits b n size pt 1 masks sk (zeroCol n size) with
  | none => none
  | some c0 => encSkFinish b n size kxe pt e c0

/-- the first statement of `glwe_encrypt_sk_internal` once a plaintext is given:
`assert_eq!(pt.base2k(), base2k)` — the plaintext limbs are added as they are, so they must be in the
ciphertext's radix (`ptB` = the plaintext's `base2k`; irrelevant without a plaintext).  The matrix
routines build their `tmp_pt` with `take_glwe_plaintext(res)`, i.e. in the ciphertext's radix, so the
guard only matters for the routines that take a caller's plaintext. -/
def ptRadixOk {α : Type} (pt : Option α) (ptB b : Nat) : Bool := pt.isNone || ptB == b

/-- **`glwe_encrypt_sk`** (`pt = some m`, plaintext radix `ptB`) / **`glwe_encrypt_zero_sk`** (`pt = none`): the full
ciphertext `body :: masks`.  The wrappers assert `res.rank() == sk.rank()`. -/
def glweEncryptSk (bits b k n size kxe : Nat) (masks : List Col) (pt : Option Col) (ptB : Nat) (sk : List Poly) (e : Poly) :
    Option GLWE :=
  if masks.length ≠ sk.length then none
  else if !ptRadixOk pt ptB b then none
  else
    match encryptSkBody bits b n size kxe masks (pt.map (fun p => (p, 0))) sk e with
    | none => none
    | some body => some { base2k := b, k := k, n := n, cols := body :: masks }

/-- **`glwe_decrypt`**: exact phase in the big accumulator, then one `vec_znx_big_normalize` into
the plaintext's radix and size -/
def glweDecrypt (bits : Nat) (ct : GLWE) (sk : List Poly) (ptBase2k ptSize : Nat) : Option Col :=
  if ct.rank ≠ sk.length then none
  else bigNormalize bits ptBase2k ptSize (phaseBig sk ct) ct.base2k ct.n

/-- `if let Some((pt, col)) = pt && col == i { vec_znx_big_add_small_assign(ci_big, 0, pt, 0) }` -/
def addPtBig (bits : Nat) (pt : Option Col) (c1 : Col) : Col :=
  match pt with
  | some p => vecAddAssignW (wrapN bits) c1 p
  | none => c1

/-- one column of **`glwe_encrypt_pk_internal`**: `ct[i] = normalize(u ⋆ pk[i] + e_i (+ m if i = col))` -/
def encPkCol (bits b n size kxe : Nat) (u : Poly) (pki : Col) (ei : Poly) (pt : Option Col) : Option Col :=
  let ciBig := Hal.svpApplyCol n pki.length u pki       -- ci_dft (size_pk limbs) = DFT(u) · pk[i]; idft consume
  match Sampling.addNormalCol (wrapN bits) kxe b ciBig ei with   -- vec_znx_big_add_normal
  | none => none
  | some c1 =>
    bigNormalize bits b size (addPtBig bits pt c1) b n                     -- vec_znx_big_normalize(res, base2k, 0, i, ci_big, base2k, 0)

/-- the plaintext goes to column `col` only -/
def ptForCol (pt : Option (Col × Nat)) (i : Nat) : Option Col :=
  match pt with
  | some (p, col) => if col = i then some p else none
  | none => none

def encPkLoop (bits b n size kxe : Nat) (u : Poly) (pt : Option (Col × Nat)) : Nat → List Col → List Poly → Option (List Col)
  | _, [], _ => some []
  | _, _ :: _, [] => none
  | i, pki :: pks, ei :: es =>
    match encPkCol bits b n size kxe u pki ei (ptForCol pt i) with
    | none => none
    | some ci =>
      match encPkLoop bits b n size kxe u pt (i + 1) pks es with
      | none => none
      | some rest => some (ci :: rest)

/-- **`glwe_encrypt_pk`**: `pk` = the `rank+1` columns of the public key (`size_pk` limbs each),
`u` = the ephemeral secret drawn from `source_xu`, `es` = the `rank+1` error polynomials in
column order -/
def glweEncryptPk (bits b k n size kxe : Nat) (pk : List Col) (u : Poly) (pt : Option Col) (es : List Poly) : Option GLWE :=
  match encPkLoop bits b n size kxe u (pt.map (fun p => (p, 0))) 0 pk es with
  | none => none
  | some cols => some { base2k := b, k := k, n := n, cols := cols }

/-! ### seed-compressed GLWE -/

/-- draw `r` mask columns from the raw word stream in column order `1 … r` -/
def drawMasks (b n size : Nat) : Nat → List Nat → Option (List Col × List Nat)
  | 0, s => some ([], s)
  | r + 1, s =>
    match Sampling.vecFillUniform b n size s with
    | none => none
    | some (c, s1) =>
      match drawMasks b n size r s1 with
      | none => none
      | some (cs, s2) => some (c :: cs, s2)

/-- `glwe_encrypt_sk_internal` as written: every iteration first fills the mask column from
`source_xa` (`xa` = its raw words), then uses it.  Returns `(c0, masks drawn, rest of xa)`. -/
def encSkLoopS (bits b n size : Nat) (pt : Option (Col × Nat)) :
    Nat → List Poly → Nat → List Nat → Col → Option (Col × List Col × List Nat)
  | _, _, 0, xa, c0 => some (c0, [], xa)
  | _, [], _ + 1, _, _ => none
  | i, s :: ss, r + 1, xa, c0 =>
    match Sampling.vecFillUniform b n size xa with
    | none => none
    | some (a, xa1) =>
      match encSkStep bits b n size pt i a s c0 with
      | none => none
      | some c1 =>
        match encSkLoopS bits b n size pt (i + 1) ss r xa1 c1 with
        | none => none
        | some (c2, ms, xa2) => some (c2, a :: ms, xa2)

/-- `glwe_encrypt_sk_internal(…, compressed, …)` from the streams: returns (body, masks, rest of xa) -/
def encryptSkStream (bits b n size kxe rank : Nat) (pt : Option (Col × Nat)) (sk : List Poly) (xa : List Nat) (e : Poly) :
    Option (Col × List Col × List Nat) :=
  match encSkLoopS bits b n size pt 1 sk rank xa (zeroCol n size) with
  | none => none
  | some (c0, ms, xa1) =>
    match encSkFinish b n size kxe pt e c0 with
    | none => none
    | some body => some (body, ms, xa1)

/-- **`glwe_encrypt_sk`** from the mask stream -/
def glweEncryptSkS (bits b k n size kxe rank : Nat) (pt : Option Col) (ptB : Nat) (sk : List Poly) (xa : List Nat) (e : Poly) :
    Option (GLWE × List Nat) :=
  if rank ≠ sk.length then none
  else if !ptRadixOk pt ptB b then none
  else (encryptSkStream bits b n size kxe rank (pt.map (fun p => (p, 0))) sk xa e).map
    (fun r => ({ base2k := b, k := k, n := n, cols := r.1 :: r.2.1 }, r.2.2))

/-- a seed-compressed GLWE: the body and the stream `Source::new(seed)` delivers -/
structure GLWECompressed where
  base2k : Nat
  k : Nat
  n : Nat
  rank : Nat
  body : Col
  seedStream : List Nat

/-- **`glwe_compressed_encrypt_sk`**: the mask columns are written over column 0 of the one-column
buffer and only the body survives; the seed is stored -/
def glweEncryptCompressed (bits b k n size kxe rank : Nat) (pt : Option Col) (ptB : Nat) (sk : List Poly) (seedStream : List Nat)
    (e : Poly) : Option GLWECompressed :=
  if rank ≠ sk.length then none
  else if !ptRadixOk pt ptB b then none
  else (encryptSkStream bits b n size kxe rank (pt.map (fun p => (p, 0))) sk seedStream e).map
    (fun r => { base2k := b, k := k, n := n, rank := rank, body := r.1, seedStream := seedStream })

/-- **`decompress_glwe`**: copy the body, regenerate columns `1 … rank` from `Source::new(seed)` -/
def decompressGlwe (c : GLWECompressed) : Option GLWE :=
  (drawMasks c.base2k c.n c.body.length c.rank c.seedStream).map
    (fun r => { base2k := c.base2k, k := c.k, n := c.n, cols := c.body :: r.1 })

/-! ### LWE -/

/-- `Σ_j x_j · y_j` over `zip` (wrapping `i64` products and sum) -/
def dotW (x y : List Int) : Int := w64 ((List.zipWith (· * ·) x y).foldl (· + ·) 0)

/-- **`lwe_encrypt_sk`**: `ct` limbs have `n+1` coefficients (coefficient 0 = body); `filled` is the
buffer after `vec_znx_fill_uniform` (its coefficient 0 is overwritten), `pt` the plaintext limbs
(one integer each, radix `2^ptB`), `e` the error integer. -/
def lweEncryptSk (b size kxe : Nat) (filled : Col) (pt : List Int) (ptB : Nat) (sk : Poly) (e : Int) : Option Col :=
  if ptB ≠ b then none else                                -- assert_eq!(pt.base2k(), res.base2k())
  let minSize := min size pt.length
  let tmp : Col := (List.range size).map (fun i =>
    let l := filled.getD i []
    let dot := dotW (l.drop 1) sk
    if i < minSize then [w64 (pt.getD i 0 - dot)] else [w64 (0 - dot)])
  match Sampling.addNormalCol w64 kxe b tmp [e] with
  | none => none
  | some t1 =>
    let t2 := normalizeAssignCol b t1 1
    some ((List.range size).map (fun i => ((t2.getD i []).getD 0 0) :: (filled.getD i []).drop 1))

/-- **`lwe_decrypt`** -/
def lweDecrypt (b : Nat) (ct : Col) (sk : Poly) (ptBase2k ptSize : Nat) : Option Col :=
  let tmp : Col := ct.map (fun l => [w64 (l.getD 0 0 + dotW (l.drop 1) sk)])
  normalizeCol? ptBase2k ptSize 0 tmp b 1

end Core
