import Poulpy.Model.Core.Ks
import Poulpy.Model.Core.Ops

/-!
# Ring packing (executable model, C03)

Rust anchors, mirrored line by line on top of the key-switch / automorphism models of
`Model/Core/Ks.lean` and the noise-free operations of `Model/Core/Ops.lean`:

* `poulpy-core/src/glwe_packing.rs` : `pack_internal`, `glwe_pack`
* `poulpy-core/src/glwe_packer.rs`  : `GLWEPacker` (`Accumulator`), `pack_core`, `combine`,
  `glwe_packer_add`, `glwe_packer_flush`

`pack_internal(a, b, i, key)` merges the ciphertexts of slots `j` (`a`) and `j + t` (`b`), `t = N/2^{i+1}`:
`a ← (a + X^t·b)/2 + σ_g((a − X^t·b)/2)`, with three code paths according to which of the two is present
(both: rotate / sub / add / rsh / automorphism / sub / rotate; only `a`: `rsh` + `automorphism_add_assign`;
only `b`: rotate + `rsh` + `automorphism_sub_negate`).  The `HashMap<usize, &mut A>` of `glwe_pack` is an
association list; `unwrap()` on a missing entry is `panic "other"`.
-/

namespace Ks
open Hal Core

/-- a zero ciphertext with the layout of `a` (`scratch.take_glwe(a)`; every use below overwrites it fully) -/
def zeroLike (a : Ct) : Ct := { a with cols := a.cols.map (fun c => c.map (fun l => l.map (fun _ => (0 : Int)))) }

/-- `glwe_automorphism_assign(res, key)` -/
def autoAssign (big128 : Bool) (x : Ct) (key : Key) : Outcome Ct :=
  automorphism big128 x.base2k x.size x.rank x key

/-- `glwe_automorphism_add_assign(res, key)` (the un-zeroed `res_dft` is irrelevant: `C03.product_determined`) -/
def autoAddAssign (big128 : Bool) (x : Ct) (key : Key) : Outcome Ct :=
  automorphismFused .add big128 (zeroBuf x.n (x.rank + 1) key.size) x.base2k x.size x.rank x key

/-- `glwe_automorphism_sub_negate(res, a, key)`: `res = a − σ(KS(a))`, `res` given by its shape -/
def autoSubNegate (big128 : Bool) (res a : Ct) (key : Key) : Outcome Ct :=
  automorphismFused .subNegate big128 (zeroBuf a.n (res.rank + 1) key.size) res.base2k res.size res.rank a key

/-- the three code paths shared by `pack_internal` (glwe_packing.rs) and `combine` (glwe_packer.rs):
`a` = lower slot / accumulator (if present), `b` = upper slot / incoming (if present); returns the new `a`
(for the "only `b`" path of `pack_internal` the result is written into `b`; the caller decides where it goes).
`aShape` = the ciphertext whose layout `take_glwe` and the destination use when `a` is absent. -/
def mergeStep (big128 : Bool) (N : Nat) (i : Nat) (key : Key) (a b : Option Ct) (aShape : Ct) : Outcome (Option Ct) :=
  let t : Int := (2 ^ (log2Nat N - i - 1) : Nat)
  match a, b with
  | some a, some b =>
    -- a = a * X^-t
    obind (Core.Ops.glweRotateAssign N (-t) a) fun a1 =>
    -- tmp_b = a * X^-t - b ; rsh 1
    obind (Core.Ops.glweSub N (zeroLike a) a1 b) fun tmp1 =>
    obind (Core.Ops.glweRsh N 0 1 tmp1) fun tmp2 =>
    -- a = a * X^-t + b ; rsh 1
    obind (Core.Ops.glweAddAssign N a1 b) fun a2 =>
    obind (Core.Ops.glweRsh N 0 1 a2) fun a3 =>
    obind (Core.Ops.glweNormalizeAssign N tmp2) fun tmp3 =>
    -- tmp_b = phi(a * X^-t - b)
    obind (autoAssign big128 tmp3 key) fun tmp4 =>
    -- a = a * X^-t + b - phi(a * X^-t - b)
    obind (Core.Ops.glweSubAssign N a3 tmp4) fun a4 =>
    obind (Core.Ops.glweNormalizeAssign N a4) fun a5 =>
    obind (Core.Ops.glweRotateAssign N t a5) fun a6 => .ok (some a6)
  | some a, none =>
    obind (Core.Ops.glweRsh N 0 1 a) fun a1 =>
    obind (autoAddAssign big128 a1 key) fun a2 => .ok (some a2)
  | none, some b =>
    obind (Core.Ops.glweRotate N t (zeroLike aShape) b) fun tmp1 =>
    obind (Core.Ops.glweRsh N 0 1 tmp1) fun tmp2 =>
    obind (autoSubNegate big128 aShape tmp2 key) fun r => .ok (some r)
  | none, none => .ok none

/-! ### `glwe_pack` -/

abbrev SlotMap := List (Nat × Ct)

def SlotMap.get (m : SlotMap) (j : Nat) : Option Ct := (m.find? (fun p => p.1 == j)).map (·.2)
def SlotMap.remove (m : SlotMap) (j : Nat) : SlotMap := m.filter (fun p => p.1 != j)
def SlotMap.insert (m : SlotMap) (j : Nat) (c : Ct) : SlotMap := (j, c) :: m.remove j

/-- the key of level `i`: `keys.get_automorphism_key(p_i).unwrap()` -/
def levelKey (n : Nat) (keys : List Key) (i : Nat) : Outcome Key :=
  obind (traceGalois n i) fun p =>
    match keys.find? (fun k => k.p == p) with
    | some k => .ok k
    | none => .panic "other"

/-- the inner loop `for j in 0..t { lo = a.remove(j); hi = a.remove(j+t); pack_internal(lo, hi, i, key); insert }` -/
def packLevel (big128 : Bool) (N i t : Nat) (key : Key) : List Nat → SlotMap → Outcome SlotMap
  | [], m => .ok m
  | j :: js, m =>
    let lo := m.get j
    let hi := m.get (j + t)
    let m1 := (m.remove j).remove (j + t)
    -- pack_internal: the "only hi" path writes into `hi` itself (its own layout)
    obind (mergeStep big128 N i key lo hi (hi.getD (mkCt 0 N []))) fun r =>
      packLevel big128 N i t key js (match r with
        | some c => m1.insert j c
        | none => m1)

/-- the loop over the levels `for i in 0..(log_n - log_gap_out)` -/
def packLevels (big128 : Bool) (N : Nat) (keys : List Key) : List Nat → SlotMap → Outcome SlotMap
  | [], m => .ok m
  | i :: is, m =>
    let t := 2 ^ (log2Nat N - 1 - i)
    obind (levelKey N keys i) fun key =>
    obind (packLevel big128 N i t key (List.range t) m) fun m' =>
    packLevels big128 N keys is m'

/-- **`glwe_pack(res, a, log_gap_out, keys)`**: `res` given by radix and limb count; `a` = the map
slot index ↦ ciphertext; `keyBase2k` = radix of the automorphism keys. -/
def pack (big128 : Bool) (N keyBase2k : Nat) (keys : List Key) (resBase2k resSize : Nat) (a : SlotMap) (logGapOut : Nat) :
    Outcome Ct :=
  match a with
  | [] => .panic "other"                                   -- a.keys().max().unwrap()
  | _ =>
    if a.any (fun p => p.1 ≥ N) then .panic "assert"
    else
      let logN := log2Nat N
      obind (packLevels big128 N keys (List.range (logN - logGapOut)) a) fun m =>
        match m.get 0 with
        | none => .panic "other"                           -- a.get(&0).unwrap()
        | some a0 => trace big128 keyBase2k keys (logN - logGapOut) resBase2k resSize a0

/-! ### the streaming `GLWEPacker` -/

structure Acc where
  data : Ct
  value : Bool
  control : Bool

structure Packer where
  accs : List Acc
  logBatch : Nat
  counter : Nat

/-- `GLWEPacker::alloc(infos, log_batch)`: `log_n − log_batch` zeroed accumulators of the given layout -/
def Packer.alloc (N base2k size rank logBatch : Nat) : Packer :=
  { accs := List.replicate (log2Nat N - logBatch)
      { data := mkCt base2k N (List.replicate (rank + 1) (zeroCol N size)), value := false, control := false },
    logBatch := logBatch, counter := 0 }

/-- `combine(acc, b, i, keys)` -/
def combine (big128 : Bool) (N : Nat) (keys : List Key) (acc : Acc) (b : Option Ct) (i : Nat) : Outcome Acc :=
  if acc.value then
    match b with
    | some _ =>
      obind (levelKey N keys i) fun key =>
      obind (mergeStep big128 N i key (some acc.data) b acc.data) fun r =>
        .ok { acc with data := r.getD acc.data }
    | none =>
      obind (levelKey N keys i) fun key =>
      obind (mergeStep big128 N i key (some acc.data) none acc.data) fun r =>
        .ok { acc with data := r.getD acc.data }
  else
    match b with
    | some _ =>
      -- tmp_b = take_glwe(a) (layout of the accumulator); result written into the accumulator
      obind (levelKey N keys i) fun key =>
      obind (mergeStep big128 N i key none b acc.data) fun r =>
        .ok { acc with data := r.getD acc.data, value := true }
    | none => .ok acc

/-- `pack_core(a, accumulators, i, keys)` -/
def packCore (big128 : Bool) (N : Nat) (keys : List Key) : List Acc → Option Ct → Nat → Outcome (List Acc)
  | [], _, i => if i = log2Nat N then .ok [] else .panic "assert"     -- split_at_mut(1) on an empty slice
  | acc :: rest, a, i =>
    if i = log2Nat N then .ok (acc :: rest)
    else if !acc.control then
      match a with
      | some x =>
        obind (if x.base2k = acc.data.base2k then Core.Ops.glweCopy N acc.data x else Core.Ops.glweNormalize N acc.data x) fun d =>
          .ok ({ data := d, value := true, control := true } :: rest)
      | none => .ok ({ acc with value := false, control := true } :: rest)
    else
      obind (combine big128 N keys acc a i) fun acc1 =>
        let acc2 := { acc1 with control := false }
        obind (packCore big128 N keys rest (if acc2.value then some acc2.data else none) (i + 1)) fun rest' =>
          .ok (acc2 :: rest')

/-- `glwe_packer_add(packer, a, keys)` -/
def packerAdd (big128 : Bool) (N : Nat) (keys : List Key) (p : Packer) (a : Option Ct) : Outcome Packer :=
  if p.counter ≥ N then .panic "assert"
  else
    obind (packCore big128 N keys p.accs a p.logBatch) fun accs =>
      .ok { p with accs := accs, counter := p.counter + 2 ^ p.logBatch }

/-- `glwe_packer_flush(packer, res)`: `res` given by its previous value (shape) -/
def packerFlush (N : Nat) (p : Packer) (res : Ct) : Outcome Ct :=
  if p.counter ≠ N then .panic "assert"
  else
    match p.accs[log2Nat N - p.logBatch - 1]? with
    | none => .panic "bounds"
    | some out =>
      if out.data.base2k = res.base2k then Core.Ops.glweCopy N res out.data else Core.Ops.glweNormalize N res out.data

/-- the whole stream: `N / 2^log_batch` calls of `glwe_packer_add` (`inputs k` = the `k`-th arrival), then flush -/
def packerRun (big128 : Bool) (N : Nat) (keys : List Key) (accBase2k accSize rank logBatch : Nat) (inputs : Nat → Option Ct)
    (res : Ct) : Outcome Ct :=
  let p0 := Packer.alloc N accBase2k accSize rank logBatch
  let r := (List.range (N / 2 ^ logBatch)).foldl (fun (acc : Outcome Packer) k =>
    obind acc (fun p => packerAdd big128 N keys p (inputs k))) (.ok p0)
  obind r (fun p => packerFlush N p res)

end Ks
