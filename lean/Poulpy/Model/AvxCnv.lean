import Poulpy.Model.Avx
import Poulpy.Model.AvxNtt
/-
C10: the `i64` by-constant convolution kernels of FFT64Avx (`poulpy-cpu-avx/src/fft64/convolution.rs`, after repair 34) next to
the reference kernels of `poulpy-cpu-ref/src/reference/fft64/convolution.rs`, on `BitVec 64` lanes.
A block `a` holds `a_size` rows of 8 coefficients (`a[8·row + i]`); reads outside the slice (impossible under the callers'
`a.len() ≥ 8·a_size`) are modelled as 0 on both sides.
-/
namespace Avx.Cnv
open Avx

/-- `mul_i64_wrapping_avx2(a, b)`: `a_lo·b_lo + ((a_lo·b_hi + a_hi·b_lo) << 32)` from three `_mm256_mul_epu32` -/
def mulI64WrappingAvx2 (a b : W) : W :=
  let aHi := srli_epi64 a 32
  let bHi := srli_epi64 b 32
  let loLo := Ntt.mul_epu32 a b
  let cross := add_epi64 (Ntt.mul_epu32 a bHi) (Ntt.mul_epu32 aHi b)
  add_epi64 loLo (Ntt.slli_epi64 cross 32)

/-- the kernel before the repair: `_mm256_mul_epi32(a, set1_epi32(b as i32))`, sign-extended low halves -/
def mulEpi32Old (a b : W) : W := (a.truncate 32).signExtend 64 * (b.truncate 32).signExtend 64

/-- one accumulation loop `for _ in 0..cnt { acc[i] += mul(a[8·(k−j)+i], b[j]); j += 1 }` on the 8 lanes of a block row -/
def accLoop (mul : W → W → W) (a b : List W) (k : Nat) : Nat → Nat → List W → List W
  | 0, _, acc => acc
  | cnt + 1, j, acc =>
    accLoop mul a b k cnt (j + 1) ((List.range 8).map (fun i => add_epi64 (acc.getD i 0#64) (mul (a.getD (8 * (k - j) + i) 0#64) (b.getD j 0#64))))

def zeros8 : List W := List.replicate 8 0#64

/-- `i64_convolution_by_const_1coeff_{ref,avx}` (`mul` = `wrapping_mul` / `mul_i64_wrapping_avx2`) -/
def coeff1 (mul : W → W → W) (k : Nat) (a : List W) (aSize : Nat) (b : List W) : List W :=
  if k ≥ aSize + b.length then zeros8
  else
    let jMin := k - (aSize - 1)
    let jMax := min (k + 1) b.length
    accLoop mul a b k (jMax - jMin) jMin zeros8

/-- `i64_convolution_by_const_2coeffs_ref`: two calls of the one-coefficient kernel -/
def coeff2Ref (k : Nat) (a : List W) (aSize : Nat) (b : List W) : List W :=
  coeff1 (· * ·) k a aSize b ++ coeff1 (· * ·) (k + 1) a aSize b

/-- the overlap loop of `i64_convolution_by_real_const_2coeffs_avx` (region 2): one broadcast of `b[j]` feeds both accumulators -/
def accLoop2 (mul : W → W → W) (a b : List W) (k0 k1 : Nat) : Nat → Nat → List W × List W → List W × List W
  | 0, _, acc => acc
  | cnt + 1, j, acc =>
    accLoop2 mul a b k0 k1 cnt (j + 1)
      ((List.range 8).map (fun i => add_epi64 (acc.1.getD i 0#64) (mul (a.getD (8 * (k0 - j) + i) 0#64) (b.getD j 0#64))),
       (List.range 8).map (fun i => add_epi64 (acc.2.getD i 0#64) (mul (a.getD (8 * (k1 - j) + i) 0#64) (b.getD j 0#64))))

/-- `i64_convolution_by_real_const_2coeffs_avx`: outputs `k0 = k`, `k1 = k + 1`; zero / `k0`-only / three-region cases -/
def coeff2Avx (mul : W → W → W) (k : Nat) (a : List W) (aSize : Nat) (b : List W) : List W :=
  let k0 := k
  let k1 := k + 1
  let bound := aSize + b.length
  if k0 ≥ bound then zeros8 ++ zeros8
  else
    let j0Min := (k0 + 1) - aSize
    let j0Max := min (k0 + 1) b.length
    if k1 ≥ bound then accLoop mul a b k0 (j0Max - j0Min) j0Min zeros8 ++ zeros8
    else
      let j1Min := (k1 + 1) - aSize
      let j1Max := min (k1 + 1) b.length
      let acc0 := accLoop mul a b k0 (j1Min - j0Min) j0Min zeros8                       -- region 1: k0 only
      let acc := accLoop2 mul a b k0 k1 (j0Max - j1Min) j1Min (acc0, zeros8)              -- region 2: both
      let acc1 := accLoop mul a b k1 (j1Max - j0Max) j0Max acc.2                          -- region 3: k1 only
      acc.1 ++ acc1

/-- `I64Ops::i64_convolution_by_const(dst, dst_size, offset, a, a_size, b)`: rows `0, 2, 4, …` in pairs by the two-coefficient
kernel, an odd last row by the one-coefficient kernel; result = the `8·dst_size` words written (`pairs` = `dst_size / 2`) -/
def byConstRows (c2 : Nat → List W) (c1 : Nat → List W) (offset : Nat) : Nat → Nat → List W
  | 0, _ => []
  | pairs + 1, k => c2 (k + offset) ++ byConstRows c2 c1 offset pairs (k + 2)

def byConst (c2 : Nat → List W) (c1 : Nat → List W) (dstSize offset : Nat) : List W :=
  byConstRows c2 c1 offset (dstSize / 2) 0 ++ (if dstSize % 2 = 1 then c1 (dstSize - 1 + offset) else [])

/-- FFT64Avx (after repair 34) and FFT64Ref -/
def byConstAvx (dstSize offset : Nat) (a : List W) (aSize : Nat) (b : List W) : List W :=
  byConst (fun k => coeff2Avx mulI64WrappingAvx2 k a aSize b) (fun k => coeff1 mulI64WrappingAvx2 k a aSize b) dstSize offset
def byConstRef (dstSize offset : Nat) (a : List W) (aSize : Nat) (b : List W) : List W :=
  byConst (fun k => coeff2Ref k a aSize b) (fun k => coeff1 (· * ·) k a aSize b) dstSize offset
/-- FFT64Avx before the repair -/
def byConstAvxOld (dstSize offset : Nat) (a : List W) (aSize : Nat) (b : List W) : List W :=
  byConst (fun k => coeff2Avx mulEpi32Old k a aSize b) (fun k => coeff1 mulEpi32Old k a aSize b) dstSize offset

end Avx.Cnv
