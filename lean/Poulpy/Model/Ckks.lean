import Poulpy.Model.Basic
/-!
# CKKS evaluator: metadata / outcome state machine (C16)

Model of `poulpy-ckks` (pinned tree) at the level of **shapes, metadata and outcomes**:
`CKKSMeta {log_delta, log_budget}`, the limb count of every ciphertext, the `Result` error value or
the panic of every leveled operation.  The numeric data path is *not* modelled here (C02/C05/C08);
what is recorded of it is which core entry point is reached with which shape parameters, so that
the entry assertions of `poulpy-core/src/operations/glwe.rs` and every unchecked `usize`
subtraction can be evaluated (`tensorCheck`, `squareCheck`, `plainCheck`, `constCheck`, `usub`).  The model follows the tree *with*
the repairs of docs/fixes/ applied (01–08).

Rust → Lean
* `CKKSMeta`, `effective_k`, `min_k`                      → `Meta`, `Meta.effK`, `Meta.minK`
* `CKKSCiphertext` (`max_k = size·base2k`, `lwe.rs:23`)    → `Ct`, `Ct.maxK`
* `CKKSOffset::{offset_unary, offset_binary}`             → `offsetUnary`, `offsetBinary`
* `error.rs` (`checked_log_budget_sub`, `ensure_base2k_match`, `ensure_plaintext_alignment`,
  `checked_mul_ct_log_budget`, `checked_mul_pt_log_budget`) → the `if … then … else .err …` heads, `Err`
* `leveled/default/{add,sub}.rs`                          → `addCtInto`, `addCtAssign`, `addPtZnx*`, `addPtRnx*`,
                                                            `addCstRnx*`, `addCstZnx*` (add and sub have the same
                                                            metadata/outcome behaviour; one model serves both)
* `leveled/default/pt_znx.rs`                             → `ptAlign`, `decrypt`
* `leveled/default/mul.rs` (`get_mul_*_params`)           → `mulCtParams`, `mulPtParams`, `mulInto`, `squareInto`, `mulPt*`, `mulCst*`
* `leveled/delegates/composite.rs` (`ckks_mul_add_*`, `ckks_mul_sub_*`) → `mulAdd*`
* `leveled/default/{neg,pow2,rotate,conjugate,rescale}.rs` → `negInto`, `mulPow2Into`, `divPow2Into`, `divPow2Assign`,
                                                            `rotateInto`, `rescaleInto`, `rescaleAssign`, `alignAssign`
* `layouts/ciphertext.rs` (`set_meta_checked`, `CKKSMaintainOps`) → `setMeta`, `realloc`, `compact`, `compactCopy`
* `leveled/delegates/encryption.rs`                       → `encrypt`, `decrypt`
* `layouts/plaintext/{vec,cst}.rs` (`to_znx`, `to_znx_at_k`) → the `maxLogDeltaPrec` / zero-precision heads

Scope restrictions (stated, not hidden): all ciphertexts of a program and the evaluation keys share
one radix `env.base2k` and rank 1; scratch space is ample (C12); `usize`/`u32` ranges are not
modelled (all quantities far below `2^32`); float → integer conversion of slot values succeeds
(values finite and inside the plaintext magnitude range).
-/

namespace Ckks

structure Meta where
  logDelta : Nat
  logBudget : Nat
deriving Repr, DecidableEq

/-- `CKKSInfos::effective_k` -/
def Meta.effK (m : Meta) : Nat := m.logDelta + m.logBudget

/-- Rust `usize::div_ceil` (divisor > 0) -/
def divCeil (x b : Nat) : Nat := (x + (b - 1)) / b

/-- `CKKSInfos::min_k`: `effective_k().next_multiple_of(base2k)` -/
def Meta.minK (m : Meta) (b : Nat) : Nat := divCeil m.effK b * b

/-- A ciphertext as far as this slice sees it: metadata and number of limbs. -/
structure Ct where
  md : Meta
  size : Nat
deriving Repr, DecidableEq

structure Env where
  /-- common radix of ciphertexts and keys -/
  base2k : Nat
  /-- rotation indices for which the key map holds an automorphism key -/
  rotKeys : List Int
  /-- `CKKSPlaintextConversion::max_log_delta_prec()` of the element type: 53 for f64, 113 for f128 -/
  maxLogDeltaPrec : Nat
deriving Repr

/-- `LWEInfos::max_k` -/
def Ct.maxK (env : Env) (c : Ct) : Nat := c.size * env.base2k

/-- a `CKKSPlaintextVecZnx` allocated by `alloc(n, base2k, meta)`: `size = ⌈effK/base2k⌉` -/
structure Pt where
  md : Meta
  base2k : Nat
deriving Repr, DecidableEq

def Pt.size (p : Pt) : Nat := divCeil p.md.effK p.base2k
def Pt.maxK (p : Pt) : Nat := p.size * p.base2k

/-- a `CKKSPlaintextCstZnx` as produced by `to_znx_at_k` -/
structure Cst where
  md : Meta
  limbs : Nat
  re : Bool
  im : Bool
deriving Repr, DecidableEq

/-- `CKKSCompositionError` variants with their numeric fields (the `op` string is not modelled);
`other` = an `anyhow` error that is not a `CKKSCompositionError` (float precision bound);
`badSlot` = the program names a slot outside the pool (interpreter-level, not a library error). -/
inductive Err where
  | insufficient (avail req : Nat)
  | base2kMismatch (ct pt : Nat)
  | missingKey (rot : Int)
  | alignment (ctBudget ptDelta ptMaxK : Nat)
  | mulUnderflow (lb rb ld rd : Nat)
  | realloc (maxK logDelta base2k limbs : Nat)
  | other
  | badSlot
deriving Repr, DecidableEq

/-- panic sites; `Panic.cls` maps them to the wire classes -/
inductive Panic where
  /-- `poulpy-core/src/operations/glwe.rs::effective_limbs` (reached from `glwe_tensor_apply`,
  `glwe_tensor_square_apply`, `glwe_mul_plain[_assign]`): `effective_k` needs more limbs than the
  operand has — only possible for a ciphertext whose metadata do not fit its storage -/
  | effLimbsA
  | effLimbsB
  /-- an operand with `effective_k = 0` (a buffer that was never encrypted) narrows to zero limbs:
  the FFT64 convolution then evaluates `size - 1` / asserts `a_size > 0` (NTT120 accepts it); the
  model takes the conservative reading -/
  | zeroLimbs
  /-- `ckks_compact_limbs_copy`: slice `[..dst_len]` longer than the source -/
  | copyBounds
  /-- an unchecked `usize` subtraction underflows (overflow-checks profile) -/
  | usizeSub
deriving Repr, DecidableEq

def Panic.cls : Panic → String
  | .effLimbsA | .effLimbsB => "assert"
  | .copyBounds => "bounds"
  | .usizeSub | .zeroLimbs => "overflow"

/-- result of one call: `ok`, `Err(e)` together with the state the failed call leaves behind, panic -/
inductive Res (σ : Type) where
  | ok (s : σ)
  | err (e : Err) (s : σ)
  | panic (p : Panic)
deriving Repr

def Res.bind {σ : Type} (r : Res σ) (f : σ → Res σ) : Res σ :=
  match r with
  | .ok s => f s
  | .err e s => .err e s
  | .panic p => .panic p

def Err.toString : Err → String
  | .insufficient a r => s!"InsufficientHomomorphicCapacity:{a}:{r}"
  | .base2kMismatch c p => s!"PlaintextBase2KMismatch:{c}:{p}"
  | .missingKey r => s!"MissingAutomorphismKey:{r}"
  | .alignment b d k => s!"PlaintextAlignmentImpossible:{b}:{d}:{k}"
  | .mulUnderflow lb rb ld rd => s!"MultiplicationPrecisionUnderflow:{lb}:{rb}:{ld}:{rd}"
  | .realloc k d b l => s!"LimbReallocationShrinksBelowMetadata:{k}:{d}:{b}:{l}"
  | .other => "other"
  | .badSlot => "bad-slot"

/-- the spec-level view: Basic's `Outcome` (the state after an error is dropped) -/
def Res.toOutcome {σ : Type} : Res σ → Outcome σ
  | .ok s => .ok s
  | .err e _ => .err e.toString
  | .panic p => .panic p.cls

/-- an unchecked Rust `x - y` on `usize`: `none` = underflow -/
def usub (x y : Nat) : Option Nat := if y ≤ x then some (x - y) else none

/-- `CKKSOffset::offset_unary` (`saturating_sub`) -/
def offsetUnary (env : Env) (dst a : Ct) : Nat := a.md.effK - dst.maxK env
/-- `CKKSOffset::offset_binary` -/
def offsetBinary (env : Env) (dst a b : Ct) : Nat := min a.md.effK b.md.effK - dst.maxK env

/-! ## add / sub -/

/-- the two shift amounts of `ckks_{add,sub}_into_unsafe_default`; `none` = an unchecked
`log_budget` subtraction underflows -/
def addShifts (a b : Meta) (off : Nat) : Option (Nat × Nat) :=
  if off = 0 ∧ a.logBudget = b.logBudget then some (0, 0)
  else if a.logBudget ≤ b.logBudget then (usub b.logBudget a.logBudget).map (fun d => (off, d + off))
  else (usub a.logBudget b.logBudget).map (fun d => (off, d + off))

/-- `ckks_add_into` / `ckks_sub_into` -/
def addCtInto (env : Env) (dst a b : Ct) : Res Ct :=
  let off := offsetBinary env dst a b
  match addShifts a.md b.md off with
  | none => .panic .usizeSub
  | some _ =>
    if off ≤ min a.md.logBudget b.md.logBudget then
      .ok { dst with md := ⟨min a.md.logDelta b.md.logDelta, min a.md.logBudget b.md.logBudget - off⟩ }
    else .err (.insufficient (min a.md.logBudget b.md.logBudget) off) dst

/-- shift of `ckks_{add,sub}_assign_unsafe_default` -/
def assignShift (dstB aB : Nat) : Option Nat :=
  if dstB < aB then usub aB dstB else if dstB > aB then usub dstB aB else some 0

/-- `ckks_add_assign` / `ckks_sub_assign` (no error path) -/
def addCtAssign (_env : Env) (dst a : Ct) : Res Ct :=
  match assignShift dst.md.logBudget a.md.logBudget with
  | none => .panic .usizeSub
  | some _ => .ok { dst with md := ⟨min dst.md.logDelta a.md.logDelta, min dst.md.logBudget a.md.logBudget⟩ }

/-- `log_budget = checked_sub(a.log_budget, offset + extra)?`, `glwe_lsh(dst, a, offset [+…])`,
`dst.md = a.meta()` with that budget: the common head of every unary `_into` operation.  The budget
is checked before the destination is touched (docs/fixes/08). -/
def shiftInto (env : Env) (dst a : Ct) (extra : Nat) : Res Ct :=
  let off := offsetUnary env dst a
  if off + extra ≤ a.md.logBudget then
    .ok { dst with md := ⟨a.md.logDelta, a.md.logBudget - (off + extra)⟩ }
  else .err (.insufficient a.md.logBudget (off + extra)) dst

/-- `CKKSPlaintextZnxDefault::ckks_{add,sub}_pt_vec_znx_into_default` (radix check, alignment, rsh-add) -/
def ptAlign (env : Env) (dst : Ct) (pt : Pt) : Res Ct :=
  if env.base2k ≠ pt.base2k then .err (.base2kMismatch env.base2k pt.base2k) dst
  else if dst.md.logBudget + pt.md.logDelta < pt.maxK then
    .err (.alignment dst.md.logBudget pt.md.logDelta pt.maxK) dst
  else
    match usub (dst.md.logBudget + pt.md.logDelta) pt.maxK with
    | none => .panic .usizeSub
    | some _ => .ok dst

def addPtZnxInto (env : Env) (dst a : Ct) (pt : Pt) : Res Ct :=
  (shiftInto env dst a 0).bind (fun d => ptAlign env d pt)

def addPtZnxAssign (env : Env) (dst : Ct) (pt : Pt) : Res Ct := ptAlign env dst pt

/-- building a ZNX plaintext operand: `CKKSPlaintextVecZnx::alloc(n, base2k, meta)` followed by
`CKKSPlaintextVecRnx::to_znx` (`ensure!(log_delta <= max_log_delta_prec())`,
`ensure!(other.size() > 0)`).  `none` = built. -/
def ptBuild (env : Env) (pt : Pt) (dst : Ct) : Option (Res Ct) :=
  if pt.md.logDelta > env.maxLogDeltaPrec then some (.err .other dst)
  else if pt.md.effK = 0 then some (.err .other dst)
  else none

/-- run `f` once the plaintext operand has been built -/
def withPt (env : Env) (pt : Pt) (dst : Ct) (f : Res Ct) : Res Ct :=
  match ptBuild env pt dst with
  | some r => r
  | none => f

/-- `CKKSPlaintextVecRnx::to_znx` into a scratch plaintext of meta `prec` and the ciphertext radix:
`none` = conversion fine; the errors are `ensure!(log_delta <= max_log_delta_prec())` and
`ensure!(other.size() > 0)` (zero precision), both plain `anyhow` errors. -/
def rnxToZnx (env : Env) (prec : Meta) (dst : Ct) : Option (Res Ct) :=
  if prec.logDelta > env.maxLogDeltaPrec then some (.err .other dst)
  else if prec.minK env.base2k = 0 then some (.err .other dst)
  else none

def addPtRnxInto (env : Env) (dst a : Ct) (prec : Meta) : Res Ct :=
  match rnxToZnx env prec dst with
  | some r => r
  | none => addPtZnxInto env dst a ⟨prec, env.base2k⟩

def addPtRnxAssign (env : Env) (dst : Ct) (prec : Meta) : Res Ct :=
  match rnxToZnx env prec dst with
  | some r => r
  | none => addPtZnxAssign env dst ⟨prec, env.base2k⟩

/-- `ckks_{add,sub}_pt_const_znx_assign_unsafe_default` -/
def cstAssign (_env : Env) (dst : Ct) (cst : Cst) : Res Ct :=
  if !cst.re && !cst.im then .ok dst
  else if dst.md.logBudget + cst.md.logDelta < cst.md.effK then
    .err (.alignment dst.md.logBudget cst.md.logDelta cst.md.effK) dst
  else .ok dst      -- only the leading `dst.size()` digits of the constant are injected

/-- `CKKSPlaintextCstRnx::to_znx_at_k(base2k, k, log_delta)`: `.inl` = the constant, `.inr` = the failure -/
def toZnxAtK (env : Env) (k ld : Nat) (re im : Bool) (dst : Ct) : Sum Cst (Res Ct) :=
  if ld > env.maxLogDeltaPrec then .inr (.err .other dst)
  else if (re || im) && k = 0 then .inr (.err .other dst)
  else .inl ⟨⟨ld, k - ld⟩, divCeil k env.base2k, re, im⟩

def addCstZnxInto (env : Env) (dst a : Ct) (cst : Cst) : Res Ct :=
  (shiftInto env dst a 0).bind (fun d => cstAssign env d cst)

/-- `ckks_{add,sub}_pt_const_rnx_into` -/
def addCstRnxInto (env : Env) (dst a : Ct) (prec : Meta) (re im : Bool) : Res Ct :=
  let off := offsetUnary env dst a
  if !re && !im then shiftInto env dst a 0
  else if off ≤ a.md.logBudget then
    match toZnxAtK env (a.md.logBudget - off + prec.logDelta) prec.logDelta re im dst with
    | .inr r => r
    | .inl cst => addCstZnxInto env dst a cst
  else .err (.insufficient a.md.logBudget off) dst

/-- `ckks_{add,sub}_pt_const_rnx_assign` -/
def addCstRnxAssign (env : Env) (dst : Ct) (prec : Meta) (re im : Bool) : Res Ct :=
  if !re && !im then .ok dst
  else
    match toZnxAtK env (dst.md.logBudget + prec.logDelta) prec.logDelta re im dst with
    | .inr r => r
    | .inl cst => cstAssign env dst cst

/-- harness op: build the constant with `to_znx_at_k(base2k, k, ld)` then `ckks_{add,sub}_pt_const_znx_into` -/
def addCstZnxIntoK (env : Env) (dst a : Ct) (k ld : Nat) (re im : Bool) : Res Ct :=
  match toZnxAtK env k ld re im dst with
  | .inr r => r
  | .inl cst => addCstZnxInto env dst a cst

def addCstZnxAssignK (env : Env) (dst : Ct) (k ld : Nat) (re im : Bool) : Res Ct :=
  match toZnxAtK env k ld re im dst with
  | .inr r => r
  | .inl cst => cstAssign env dst cst

/-! ## neg, pow2, rotate, conjugate, rescale -/

/-- `ckks_neg_into` -/
def negInto (env : Env) (dst a : Ct) : Res Ct :=
  if offsetUnary env dst a ≠ 0 then shiftInto env dst a 0
  else .ok { dst with md := a.md }

/-- `ckks_mul_pow2_into` (also the metadata behaviour of `ckks_conjugate_into`) -/
def mulPow2Into (env : Env) (dst a : Ct) (_bits : Nat) : Res Ct := shiftInto env dst a 0

/-- `ckks_div_pow2_into`: `log_budget -= bits + offset`, `log_delta += bits` -/
def divPow2Into (env : Env) (dst a : Ct) (bits : Nat) : Res Ct :=
  (shiftInto env dst a bits).bind (fun d => .ok { d with md := ⟨d.md.logDelta + bits, d.md.logBudget⟩ })

/-- `ckks_div_pow2_assign`: only `log_budget -= bits` (no data touched, `log_delta` unchanged) -/
def divPow2Assign (_env : Env) (dst : Ct) (bits : Nat) : Res Ct :=
  if bits ≤ dst.md.logBudget then .ok { dst with md := ⟨dst.md.logDelta, dst.md.logBudget - bits⟩ }
  else .err (.insufficient dst.md.logBudget bits) dst

/-- `ckks_rotate_into`: key lookup first -/
def rotateInto (env : Env) (dst a : Ct) (k : Int) : Res Ct :=
  if env.rotKeys.contains k then shiftInto env dst a 0 else .err (.missingKey k) dst

def rotateAssign (env : Env) (dst : Ct) (k : Int) : Res Ct :=
  if env.rotKeys.contains k then .ok dst else .err (.missingKey k) dst

/-- `ckks_rescale_assign` -/
def rescaleAssign (_env : Env) (ct : Ct) (k : Nat) : Res Ct :=
  if k ≤ ct.md.logBudget then .ok { ct with md := ⟨ct.md.logDelta, ct.md.logBudget - k⟩ }
  else .err (.insufficient ct.md.logBudget k) ct

/-- `ckks_rescale_into`: rescale by `k`, then pay what does not fit the destination from the budget -/
def rescaleInto (env : Env) (dst : Ct) (k : Nat) (src : Ct) : Res Ct :=
  if k ≤ src.md.logBudget then
    let lb := src.md.logBudget - k
    let off := (src.md.logDelta + lb) - dst.maxK env
    if off ≤ lb then .ok { dst with md := ⟨src.md.logDelta, lb - off⟩ }
    else .err (.insufficient lb off) dst
  else .err (.insufficient src.md.logBudget k) dst

/-! ## multiplication -/

structure MulP where
  budget : Nat
  delta : Nat
  cnv : Nat
deriving Repr, DecidableEq

/-- `get_mul_ct_params` -/
def mulCtParams (env : Env) (res a b : Ct) : Except Err MulP :=
  let mb := min a.md.logBudget b.md.logBudget
  let md := max a.md.logDelta b.md.logDelta
  if md ≤ mb then
    let rlb0 := mb - md
    let rld := min a.md.logDelta b.md.logDelta
    let ro := (rlb0 + rld) - res.maxK env
    if ro ≤ rlb0 then
      .ok ⟨rlb0 - ro, rld, max a.md.logBudget b.md.logBudget + max a.md.logDelta b.md.logDelta + ro⟩
    else .error (.insufficient rlb0 ro)
  else .error (.mulUnderflow a.md.logBudget b.md.logBudget a.md.logDelta b.md.logDelta)

/-- `get_mul_pt_params` / `get_mul_const_params`; `cnvBase` = `pt.max_k` resp. `prec.min_k(base2k)` -/
def mulPtParams (env : Env) (res a : Ct) (p : Meta) (cnvBase : Nat) : Except Err MulP :=
  if p.logDelta ≤ a.md.logBudget then
    let rlb0 := a.md.logBudget - p.logDelta
    let rld := a.md.logDelta
    let ro := (rlb0 + rld) - res.maxK env
    if ro ≤ rlb0 then .ok ⟨rlb0 - ro, rld, cnvBase + ro⟩
    else .error (.insufficient rlb0 ro)
  else .error (.mulUnderflow a.md.logBudget p.logBudget a.md.logDelta p.logDelta)

/-- `cnv_offset_hi` of the core multiplications -/
def cnvHi (b cnv : Nat) : Nat := if cnv < b then 0 else cnv / b - 1

/-- `effective_limbs`: number of leading limbs that cover `effective_k` bits -/
def effLimbs (env : Env) (c : Ct) : Nat := divCeil c.md.effK env.base2k

/-- `glwe_tensor_apply`: `effective_limbs` of both operands (assertion `limbs ≤ size`) and
`a_size + b_size - cnv_offset_hi` on the narrowed sizes -/
def tensorCheck (env : Env) (a b : Ct) (cnv : Nat) : Option Panic :=
  if effLimbs env a > a.size then some .effLimbsA
  else if effLimbs env b > b.size then some .effLimbsB
  else if effLimbs env a = 0 ∨ effLimbs env b = 0 then some .zeroLimbs
  else if cnvHi env.base2k cnv > effLimbs env a + effLimbs env b then some .usizeSub
  else none

/-- `glwe_tensor_square_apply`: the same with `2 * a_size - cnv_offset_hi` -/
def squareCheck (env : Env) (a : Ct) (cnv : Nat) : Option Panic :=
  if effLimbs env a > a.size then some .effLimbsA
  else if effLimbs env a = 0 then some .zeroLimbs
  else if cnvHi env.base2k cnv > 2 * effLimbs env a then some .usizeSub
  else none

/-- `glwe_mul_plain[_assign]` with ciphertext operand `a` and a plaintext `pt` of the same radix
(`b_effective_k = pt.max_k`) -/
def plainCheck (env : Env) (a : Ct) (pt : Pt) (cnv : Nat) : Option Panic :=
  if effLimbs env a > a.size then some .effLimbsA
  else if divCeil pt.maxK env.base2k > pt.size then some .effLimbsB
  else if effLimbs env a = 0 then some .zeroLimbs
  else if cnvHi env.base2k cnv > effLimbs env a + divCeil pt.maxK env.base2k then some .usizeSub
  else none

/-- `glwe_mul_const`: `a.size() + b.len() - cnv_offset_hi` (no compactness assertion) -/
def constCheck (env : Env) (a : Ct) (len cnv : Nat) : Option Panic :=
  if cnvHi env.base2k cnv > a.size + len then some .usizeSub else none

def finishMul (dst : Ct) (p : MulP) (chk : Option Panic) : Res Ct :=
  match chk with
  | some pn => .panic pn
  | none => .ok { dst with md := ⟨p.delta, p.budget⟩ }

/-- `ckks_mul_into` (`ckks_mul_assign dst a` is `mulInto env dst dst a`) -/
def mulInto (env : Env) (dst a b : Ct) : Res Ct :=
  match mulCtParams env dst a b with
  | .error e => .err e dst
  | .ok p => finishMul dst p (tensorCheck env a b p.cnv)

/-- `ckks_square_into` (`ckks_square_assign dst` is `squareInto env dst dst`) -/
def squareInto (env : Env) (dst a : Ct) : Res Ct :=
  match mulCtParams env dst a a with
  | .error e => .err e dst
  | .ok p => finishMul dst p (squareCheck env a p.cnv)

/-- `ckks_mul_pt_vec_znx_into` (`…_assign dst pt` is `mulPtZnxInto env dst dst pt`) -/
def mulPtZnxInto (env : Env) (dst a : Ct) (pt : Pt) : Res Ct :=
  if env.base2k ≠ pt.base2k then .err (.base2kMismatch env.base2k pt.base2k) dst
  else
    match mulPtParams env dst a pt.md pt.maxK with
    | .error e => .err e dst
    | .ok p => finishMul dst p (plainCheck env a pt p.cnv)

def mulPtRnxInto (env : Env) (dst a : Ct) (prec : Meta) : Res Ct :=
  match rnxToZnx env prec dst with
  | some r => r
  | none => mulPtZnxInto env dst a ⟨prec, env.base2k⟩

/-- `ckks_mul_pt_const_rnx_into` / `_assign` (`assign = true`: `a` is `dst`; with a single
component the in-place core routine has no size subtraction) -/
def mulCstRnx (env : Env) (dst a : Ct) (prec : Meta) (re im assign : Bool) : Res Ct :=
  if !re && !im then
    match mulPtParams env dst a prec (prec.minK env.base2k) with
    | .error e => .err e dst
    | .ok p => .ok { dst with md := ⟨p.delta, p.budget⟩ }
  else
    match toZnxAtK env (prec.minK env.base2k) prec.logDelta re im dst with
    | .inr r => r
    | .inl cst =>
      match mulPtParams env dst a cst.md (cst.md.minK env.base2k) with
      | .error e => .err e dst
      | .ok p =>
        finishMul dst p (if assign && !(re && im) then none else constCheck env a cst.limbs p.cnv)

/-- `take_mul_tmp(dst)`: scratch ciphertext with `dst`'s layout and default metadata -/
def mulTmp (dst : Ct) : Ct := ⟨⟨0, 0⟩, dst.size⟩

/-- `ckks_mul_{add,sub}_*_into`: product into the temporary, then `ckks_{add,sub}_assign(dst, tmp)` -/
def mulAddWith (env : Env) (dst : Ct) (prod : Ct → Res Ct) : Res Ct :=
  match prod (mulTmp dst) with
  | .ok t => addCtAssign env dst t
  | .err e _ => .err e dst
  | .panic p => .panic p

def mulAddCt (env : Env) (dst a b : Ct) : Res Ct := mulAddWith env dst (fun t => mulInto env t a b)
def mulAddPtZnx (env : Env) (dst a : Ct) (pt : Pt) : Res Ct := mulAddWith env dst (fun t => mulPtZnxInto env t a pt)
def mulAddPtRnx (env : Env) (dst a : Ct) (prec : Meta) : Res Ct := mulAddWith env dst (fun t => mulPtRnxInto env t a prec)
def mulAddCstRnx (env : Env) (dst a : Ct) (prec : Meta) (re im : Bool) : Res Ct :=
  if !re && !im then .ok dst else mulAddWith env dst (fun t => mulCstRnx env t a prec re im false)

/-! ## maintenance, encryption -/

/-- `set_meta_checked` -/
def setMeta (env : Env) (ct : Ct) (m : Meta) : Res Ct :=
  if m.effK ≤ ct.maxK env then .ok { ct with md := m }
  else .err (.realloc (ct.maxK env) m.logDelta env.base2k ct.size) ct

/-- `ckks_reallocate_limbs_checked` -/
def realloc (env : Env) (ct : Ct) (size : Nat) : Res Ct :=
  if size ≥ divCeil ct.md.effK env.base2k then .ok { ct with size := size }
  else .err (.realloc (ct.maxK env) ct.md.logDelta env.base2k size) ct

/-- `ckks_compact_limbs` -/
def compact (env : Env) (ct : Ct) : Res Ct := realloc env ct (divCeil ct.md.effK env.base2k)

/-- `ckks_compact_limbs_copy` (the result replaces slot `dst`) -/
def compactCopy (env : Env) (_dst a : Ct) : Res Ct :=
  if divCeil a.md.effK env.base2k > a.size then .panic .copyBounds
  else .ok ⟨a.md, divCeil a.md.effK env.base2k⟩

/-- `ckks_encrypt_sk` with `enc_infos.noise_infos().k = k`: `ensure!(k > 0)`, budget, `set_meta_checked`
(the noise position must lie inside the buffer), zero encryption, plaintext added -/
def encrypt (env : Env) (ct : Ct) (k : Nat) (pt : Pt) : Res Ct :=
  if k = 0 then .err .other ct
  else if pt.md.logDelta ≤ k then
    (setMeta env ct ⟨pt.md.logDelta, k - pt.md.logDelta⟩).bind (fun c => ptAlign env c pt)
  else .err (.insufficient k pt.md.logDelta) ct

/-- `ckks_decrypt` into a plaintext allocated with `pt` (state unchanged) -/
def decrypt (env : Env) (ct : Ct) (pt : Pt) : Res Ct :=
  if env.base2k ≠ pt.base2k then .err (.base2kMismatch env.base2k pt.base2k) ct
  else if ct.md.logBudget + pt.md.logDelta < pt.md.effK then
    .err (.alignment ct.md.logBudget pt.md.logDelta pt.maxK) ct
  else
    let avail := ct.md.logBudget + pt.md.logDelta
    let sh := if avail < pt.maxK then usub pt.maxK avail else if avail > pt.maxK then usub avail pt.maxK else some 0
    match sh with
    | none => .panic .usizeSub
    | some _ => .ok ct

/-! ## the shift amounts handed to the core (`glwe_lsh*`, `vec_znx_rsh_*`) — the data path of the linear operations -/

/-- `ckks_{add,sub}_into_unsafe`: bits by which `a` resp. `b` are shifted left into `dst` -/
def addShiftAB (env : Env) (dst a b : Ct) : Nat × Nat :=
  let off := offsetBinary env dst a b
  if off = 0 ∧ a.md.logBudget = b.md.logBudget then (0, 0)
  else if a.md.logBudget ≤ b.md.logBudget then (off, b.md.logBudget - a.md.logBudget + off)
  else (a.md.logBudget - b.md.logBudget + off, off)

/-- `ckks_{add,sub}_assign_unsafe`: (shift applied to `dst` in place, shift applied to `a`) -/
def assignShiftDA (dst a : Ct) : Nat × Nat :=
  if dst.md.logBudget < a.md.logBudget then (0, a.md.logBudget - dst.md.logBudget)
  else (dst.md.logBudget - a.md.logBudget, 0)

/-- `glwe_lsh(dst, a, bits + offset)` of `ckks_mul_pow2_into` (`bits = 0`: neg, rotate, conjugate, add/sub of a plaintext) -/
def unaryShift (env : Env) (dst a : Ct) (bits : Nat) : Nat := bits + offsetUnary env dst a

/-- `glwe_lsh(dst, src, k + offset)` of `ckks_rescale_into` -/
def rescaleIntoShift (env : Env) (dst : Ct) (k : Nat) (src : Ct) : Nat :=
  k + ((src.md.logDelta + (src.md.logBudget - k)) - dst.maxK env)

/-- `vec_znx_rsh_{add_into,sub}(offset)` of a ZNX plaintext: `ct.log_budget + pt.log_delta - pt.max_k` -/
def ptShift (dst : Ct) (pt : Pt) : Nat := (dst.md.logBudget + pt.md.logDelta) - pt.maxK

/-! ## composite operations (`leveled/delegates/composite.rs`) -/

/-- `ensure_accumulation_fits`: `base2k < 64` and `n ≤ 2^(63 - base2k)` -/
def accFits (env : Env) (n : Nat) : Bool := decide (env.base2k < 64) && decide (n ≤ 2 ^ (63 - env.base2k))

/-- `ckks_add_many`: one input is an aligned copy, otherwise `add_into_unsafe` of the first two, then
`add_assign_unsafe` of the others, one normalisation at the end -/
def addMany (env : Env) (dst : Ct) (ins : List Ct) : Res Ct :=
  match ins with
  | [] => .err .other dst
  | [a] => shiftInto env dst a 0
  | a :: b :: rest =>
    if !accFits env ins.length then .err .other dst
    else (addCtInto env dst a b).bind (fun d => rest.foldl (fun r c => r.bind (fun d' => addCtAssign env d' c)) (.ok d))

/-- `ceil_log2` -/
def ceilLog2 (n : Nat) : Nat := if n ≤ 1 then 0 else Nat.log2 (n - 1) + 1

/-- scratch ciphertext of `take_glwe` with torus precision `k` -/
def tmpOfK (env : Env) (k : Nat) : Ct := ⟨⟨0, 0⟩, divCeil k env.base2k⟩

def minEff (l : List Ct) : Nat := (l.map (fun c => c.md.effK)).foldl min (l.headD ⟨⟨0, 0⟩, 0⟩).md.effK

/-- the product tree of `mul_many_rec` for three or more inputs `ins` of common `log_delta` `δ` -/
def mulTree (env : Env) (rec : Ct → List Ct → Res Ct) (dst : Ct) (ins : List Ct) (δ : Nat) : Res Ct :=
  let mid := ins.length / 2
  let left := ins.take mid
  let right := ins.drop mid
  let lk := minEff left - ceilLog2 left.length * δ
  let rk := minEff right - ceilLog2 right.length * δ
  match rec (tmpOfK env lk) left with
  | .panic p => .panic p
  | .err e _ => .err e dst
  | .ok l =>
    match rec (tmpOfK env rk) right with
    | .panic p => .panic p
    | .err e _ => .err e dst
    | .ok r => mulInto env dst l r

/-- `mul_many_rec` (balanced product tree into scratch temporaries); `fuel` ≥ number of inputs.
Every level first requires a common `log_delta` (`ensure!`). -/
def mulManyRec (env : Env) : Nat → Ct → List Ct → Res Ct
  | 0, dst, _ => .err .other dst
  | fuel + 1, dst, ins =>
    match ins with
    | [] => .err .other dst
    | [x] => shiftInto env dst x 0
    | [x, y] => if x.md.logDelta = y.md.logDelta then mulInto env dst x y else .err .other dst
    | a :: b :: c :: rest =>
      if (a :: b :: c :: rest).all (fun z => z.md.logDelta == a.md.logDelta) then
        mulTree env (mulManyRec env fuel) dst (a :: b :: c :: rest) a.md.logDelta
      else .err .other dst

/-- `ckks_mul_many` -/
def mulMany (env : Env) (dst : Ct) (ins : List Ct) : Res Ct := mulManyRec env (ins.length + 1) dst ins

/-- one iteration of `accumulate_unnormalized`: the product into a temporary with `dst`'s layout, then
`ckks_add_assign_unsafe(dst, tmp)` -/
def accStep (env : Env) (r : Res Ct) (t : Ct → Res Ct) : Res Ct :=
  r.bind (fun d =>
    match t (mulTmp d) with
    | .ok tmp => addCtAssign env d tmp
    | .err e _ => .err e d
    | .panic p => .panic p)

/-- `accumulate_unnormalized` over the pairs `1..n` -/
def accumulate (env : Env) (dst : Ct) (terms : List (Ct → Res Ct)) : Res Ct :=
  terms.foldl (accStep env) (.ok dst)

/-- the common shape of `ckks_dot_product_pt_*`: first product into `dst`, the others accumulated -/
def dotWith (env : Env) (dst : Ct) (n : Nat) (first : Ct → Res Ct) (others : List (Ct → Res Ct)) : Res Ct :=
  if n = 0 then .err .other dst
  else if !accFits env n then .err .other dst
  else (first dst).bind (fun d => accumulate env d others)

def minBudget (l : List Ct) : Nat := (l.map (fun c => c.md.logBudget)).foldl min (l.headD ⟨⟨0, 0⟩, 0⟩).md.logBudget

/-- operand handed to the tensor product in the aligned path of `ckks_dot_product_ct`: the input itself
when the whole side is aligned, otherwise its rescaled copy in a buffer of `target` bits -/
def dotOperand (env : Env) (aligned : Bool) (target ld minB : Nat) (c : Ct) : Ct :=
  if aligned then c else ⟨⟨ld, minB⟩, divCeil target env.base2k⟩

/-- `ckks_dot_product_ct` -/
def dotCt (env : Env) (dst : Ct) (as bs : List Ct) : Res Ct :=
  if as.length = 0 then .err .other dst
  else if as.length ≠ bs.length then .err .other dst
  else if !accFits env as.length then .err .other dst
  else
    match as, bs with
    | a0 :: ta, b0 :: _ =>
      if ta.isEmpty then mulInto env dst a0 b0 else
      let aMin := minBudget as
      let bMin := minBudget bs
      let aAligned := as.all (fun c => c.md.logBudget == aMin && c.md.logDelta == a0.md.logDelta)
      let bAligned := bs.all (fun c => c.md.logBudget == bMin && c.md.logDelta == b0.md.logDelta)
      let uniform := as.all (fun c => c.md.logDelta == a0.md.logDelta) && bs.all (fun c => c.md.logDelta == b0.md.logDelta)
      if !uniform then
        (mulInto env dst a0 b0).bind (fun d =>
          accumulate env d (((as.zip bs).drop 1).map (fun (ab : Ct × Ct) => fun t => mulInto env t ab.1 ab.2)))
      else
        let aLd := a0.md.logDelta
        let bLd := b0.md.logDelta
        let aT := aMin + aLd
        let bT := bMin + bLd
        if max aLd bLd ≤ min aMin bMin then
          let lhr0 := min aMin bMin - max aLd bLd
          let rld := min aLd bLd
          let ro := (lhr0 + rld) - dst.maxK env
          if ro ≤ lhr0 then
            let cnv := max aMin bMin + max aLd bLd + ro
            let chk := (as.zip bs).findSome? (fun (ab : Ct × Ct) =>
              tensorCheck env (dotOperand env aAligned aT aLd aMin ab.1) (dotOperand env bAligned bT bLd bMin ab.2) cnv)
            finishMul dst ⟨lhr0 - ro, rld, cnv⟩ chk
          else .err (.insufficient lhr0 ro) dst
        else .err (.mulUnderflow aMin bMin aLd bLd) dst
    | _, _ => .err .other dst

def dotPtZnx (env : Env) (dst : Ct) (as : List Ct) (pt : Pt) : Res Ct :=
  match as with
  | [] => .err .other dst
  | a0 :: rest => dotWith env dst as.length (fun d => mulPtZnxInto env d a0 pt) (rest.map (fun a => fun t => mulPtZnxInto env t a pt))

def dotPtRnx (env : Env) (dst : Ct) (as : List Ct) (prec : Meta) : Res Ct :=
  match as with
  | [] => .err .other dst
  | a0 :: rest => dotWith env dst as.length (fun d => mulPtRnxInto env d a0 prec) (rest.map (fun a => fun t => mulPtRnxInto env t a prec))

def dotCstRnx (env : Env) (dst : Ct) (as : List Ct) (prec : Meta) (re im : Bool) : Res Ct :=
  match as with
  | [] => .err .other dst
  | a0 :: rest =>
    dotWith env dst as.length (fun d => mulCstRnx env d a0 prec re im false)
      (rest.map (fun a => fun t => mulCstRnx env t a prec re im false))

/-! ## programs -/

abbrev Pool := List Ct

inductive Op where
  | enc (d k : Nat) (pt : Pt)
  | addCt (d a b : Nat)
  | addCtAssign (d a : Nat)
  | addPtZnx (d a : Nat) (pt : Pt)
  | addPtZnxAssign (d : Nat) (pt : Pt)
  | addPtRnx (d a : Nat) (prec : Meta)
  | addPtRnxAssign (d : Nat) (prec : Meta)
  | addCstRnx (d a : Nat) (prec : Meta) (re im : Bool)
  | addCstRnxAssign (d : Nat) (prec : Meta) (re im : Bool)
  | addCstZnx (d a : Nat) (k ld : Nat) (re im : Bool)
  | addCstZnxAssign (d : Nat) (k ld : Nat) (re im : Bool)
  | neg (d a : Nat)
  | negAssign (d : Nat)
  | mul (d a b : Nat)
  | mulAssign (d a : Nat)
  | square (d a : Nat)
  | squareAssign (d : Nat)
  | mulPtZnx (d a : Nat) (pt : Pt)
  | mulPtZnxAssign (d : Nat) (pt : Pt)
  | mulPtRnx (d a : Nat) (prec : Meta)
  | mulPtRnxAssign (d : Nat) (prec : Meta)
  | mulCstRnx (d a : Nat) (prec : Meta) (re im : Bool)
  | mulCstRnxAssign (d : Nat) (prec : Meta) (re im : Bool)
  | mulAddCt (d a b : Nat)
  | mulAddPtZnx (d a : Nat) (pt : Pt)
  | mulAddPtRnx (d a : Nat) (prec : Meta)
  | mulAddCstRnx (d a : Nat) (prec : Meta) (re im : Bool)
  | mulPow2 (d a bits : Nat)
  | mulPow2Assign (d bits : Nat)
  | divPow2 (d a bits : Nat)
  | divPow2Assign (d bits : Nat)
  | rot (d a : Nat) (k : Int)
  | rotAssign (d : Nat) (k : Int)
  | conj (d a : Nat)
  | conjAssign (d : Nat)
  | rescale (d k a : Nat)
  | rescaleAssign (d k : Nat)
  | align (a b : Nat)
  | compact (d : Nat)
  | realloc (d size : Nat)
  | compactCopy (d a : Nat)
  | setMeta (d : Nat) (m : Meta)
  | dec (a : Nat) (pt : Pt)
  | addMany (d : Nat) (as : List Nat)
  | mulMany (d : Nat) (as : List Nat)
  | dotCt (d : Nat) (as bs : List Nat)
  | dotPtZnx (d : Nat) (as : List Nat) (pt : Pt)
  | dotPtRnx (d : Nat) (as : List Nat) (prec : Meta)
  | dotCstRnx (d : Nat) (as : List Nat) (prec : Meta) (re im : Bool)
deriving Repr, DecidableEq

/-- write the result of an operation on slot `d` back into the pool -/
def putRes (pool : Pool) (d : Nat) (r : Res Ct) : Res Pool :=
  match r with
  | .ok c => .ok (pool.set d c)
  | .err e c => .err e (pool.set d c)
  | .panic p => .panic p

def op1 (pool : Pool) (d : Nat) (f : Ct → Res Ct) : Res Pool :=
  match pool[d]? with
  | some cd => putRes pool d (f cd)
  | none => .err .badSlot pool

/-- destination and source must be distinct slots (`&mut dst` and `&a` cannot alias in Rust) -/
def op2 (pool : Pool) (d a : Nat) (f : Ct → Ct → Res Ct) : Res Pool :=
  match pool[d]?, pool[a]? with
  | some cd, some ca => if d = a then .err .badSlot pool else putRes pool d (f cd ca)
  | _, _ => .err .badSlot pool

def op3 (pool : Pool) (d a b : Nat) (f : Ct → Ct → Ct → Res Ct) : Res Pool :=
  match pool[d]?, pool[a]?, pool[b]? with
  | some cd, some ca, some cb => if d = a ∨ d = b then .err .badSlot pool else putRes pool d (f cd ca cb)
  | _, _, _ => .err .badSlot pool

/-- all source slots exist and none is the destination -/
def getAll (pool : Pool) (d : Nat) : List Nat → Option (List Ct)
  | [] => some []
  | a :: as =>
    if a = d then none
    else
      match pool[a]?, getAll pool d as with
      | some c, some cs => some (c :: cs)
      | _, _ => none

def opN (pool : Pool) (d : Nat) (as : List Nat) (f : Ct → List Ct → Res Ct) : Res Pool :=
  match pool[d]?, getAll pool d as with
  | some cd, some cs => putRes pool d (f cd cs)
  | _, _ => .err .badSlot pool

def opNN (pool : Pool) (d : Nat) (as bs : List Nat) (f : Ct → List Ct → List Ct → Res Ct) : Res Pool :=
  match pool[d]?, getAll pool d as, getAll pool d bs with
  | some cd, some ca, some cb => putRes pool d (f cd ca cb)
  | _, _, _ => .err .badSlot pool

/-- `ckks_align_assign(a, b)` (two distinct mutable ciphertexts) -/
def alignStep (env : Env) (pool : Pool) (a b : Nat) : Res Pool :=
  match pool[a]?, pool[b]? with
  | some ca, some cb =>
    if a = b then .err .badSlot pool
    else if ca.md.logBudget < cb.md.logBudget then
      match usub cb.md.logBudget ca.md.logBudget with
      | none => .panic .usizeSub
      | some k => putRes pool b (rescaleAssign env cb k)
    else
      match usub ca.md.logBudget cb.md.logBudget with
      | none => .panic .usizeSub
      | some k => putRes pool a (rescaleAssign env ca k)
  | _, _ => .err .badSlot pool

/-- one API call on the pool -/
def stepR (env : Env) (pool : Pool) : Op → Res Pool
  | .enc d k pt => op1 pool d (fun c => withPt env pt c (encrypt env c k pt))
  | .addCt d a b => op3 pool d a b (addCtInto env)
  | .addCtAssign d a => op2 pool d a (addCtAssign env)
  | .addPtZnx d a pt => op2 pool d a (fun cd ca => withPt env pt cd (addPtZnxInto env cd ca pt))
  | .addPtZnxAssign d pt => op1 pool d (fun cd => withPt env pt cd (addPtZnxAssign env cd pt))
  | .addPtRnx d a prec => op2 pool d a (fun cd ca => addPtRnxInto env cd ca prec)
  | .addPtRnxAssign d prec => op1 pool d (fun cd => addPtRnxAssign env cd prec)
  | .addCstRnx d a prec re im => op2 pool d a (fun cd ca => addCstRnxInto env cd ca prec re im)
  | .addCstRnxAssign d prec re im => op1 pool d (fun cd => addCstRnxAssign env cd prec re im)
  | .addCstZnx d a k ld re im => op2 pool d a (fun cd ca => addCstZnxIntoK env cd ca k ld re im)
  | .addCstZnxAssign d k ld re im => op1 pool d (fun cd => addCstZnxAssignK env cd k ld re im)
  | .neg d a => op2 pool d a (negInto env)
  | .negAssign d => op1 pool d (fun cd => .ok cd)
  | .mul d a b => op3 pool d a b (mulInto env)
  | .mulAssign d a => op2 pool d a (fun cd ca => mulInto env cd cd ca)
  | .square d a => op2 pool d a (squareInto env)
  | .squareAssign d => op1 pool d (fun cd => squareInto env cd cd)
  | .mulPtZnx d a pt => op2 pool d a (fun cd ca => withPt env pt cd (mulPtZnxInto env cd ca pt))
  | .mulPtZnxAssign d pt => op1 pool d (fun cd => withPt env pt cd (mulPtZnxInto env cd cd pt))
  | .mulPtRnx d a prec => op2 pool d a (fun cd ca => mulPtRnxInto env cd ca prec)
  | .mulPtRnxAssign d prec => op1 pool d (fun cd => mulPtRnxInto env cd cd prec)
  | .mulCstRnx d a prec re im => op2 pool d a (fun cd ca => mulCstRnx env cd ca prec re im false)
  | .mulCstRnxAssign d prec re im => op1 pool d (fun cd => mulCstRnx env cd cd prec re im true)
  | .mulAddCt d a b => op3 pool d a b (mulAddCt env)
  | .mulAddPtZnx d a pt => op2 pool d a (fun cd ca => withPt env pt cd (mulAddPtZnx env cd ca pt))
  | .mulAddPtRnx d a prec => op2 pool d a (fun cd ca => mulAddPtRnx env cd ca prec)
  | .mulAddCstRnx d a prec re im => op2 pool d a (fun cd ca => mulAddCstRnx env cd ca prec re im)
  | .mulPow2 d a bits => op2 pool d a (fun cd ca => mulPow2Into env cd ca bits)
  | .mulPow2Assign d _ => op1 pool d (fun cd => .ok cd)
  | .divPow2 d a bits => op2 pool d a (fun cd ca => divPow2Into env cd ca bits)
  | .divPow2Assign d bits => op1 pool d (fun cd => divPow2Assign env cd bits)
  | .rot d a k => op2 pool d a (fun cd ca => rotateInto env cd ca k)
  | .rotAssign d k => op1 pool d (fun cd => rotateAssign env cd k)
  | .conj d a => op2 pool d a (fun cd ca => mulPow2Into env cd ca 0)
  | .conjAssign d => op1 pool d (fun cd => .ok cd)
  | .rescale d k a => op2 pool d a (fun cd ca => rescaleInto env cd k ca)
  | .rescaleAssign d k => op1 pool d (fun cd => rescaleAssign env cd k)
  | .align a b => alignStep env pool a b
  | .compact d => op1 pool d (compact env)
  | .realloc d size => op1 pool d (fun cd => realloc env cd size)
  | .compactCopy d a => op2 pool d a (compactCopy env)
  | .setMeta d m => op1 pool d (fun cd => setMeta env cd m)
  | .dec a pt => op1 pool a (fun ca => decrypt env ca pt)
  | .addMany d as => opN pool d as (addMany env)
  | .mulMany d as => opN pool d as (mulMany env)
  | .dotCt d as bs => opNN pool d as bs (dotCt env)
  | .dotPtZnx d as pt => opN pool d as (fun cd cs => withPt env pt cd (dotPtZnx env cd cs pt))
  | .dotPtRnx d as prec => opN pool d as (fun cd cs => dotPtRnx env cd cs prec)
  | .dotCstRnx d as prec re im => opN pool d as (fun cd cs => dotCstRnx env cd cs prec re im)

/-- the specification-level step (Basic's `Outcome`) -/
def step (env : Env) (pool : Pool) (op : Op) : Outcome Pool := (stepR env pool op).toOutcome

/-- a straight-line program: stops at the first call that does not return `Ok` (the caller
propagates the error with `?`) -/
def run (env : Env) : Pool → List Op → Res Pool
  | s, [] => .ok s
  | s, op :: rest =>
    match stepR env s op with
    | .ok s' => run env s' rest
    | r => r

/-- the same program run by a caller that handles errors and goes on: an `Err` call is skipped and
the state it leaves is kept (this is the loop `Drv.Ckks.runAll` / the harness execute, minus the
printing); only a panic ends the run -/
def runC (env : Env) : Pool → List Op → Res Pool
  | s, [] => .ok s
  | s, op :: rest =>
    match stepR env s op with
    | .ok s' => runC env s' rest
    | .err _ s' => runC env s' rest
    | .panic p => .panic p

end Ckks
