import Poulpy.Model.Basic

/-!
# Galois elements (model of `poulpy-hal/src/layouts/module.rs`)

`GALOISGENERATOR = 5`; `cyclotomic_order = 2n`.  The masks `& (cyclotomic_order - 1)` are modelled
by `% cyclotomic_order` (equal for the powers of two that `Module` guarantees; `galois_element`
itself `debug_assert!`s it).
-/

/-- the square-and-multiply loop of `mod_exp_u64` (state `y`, `x_pow`, `exp`), `u64` wrapping -/
def modExpLoop (y xpow : Int) (exp : Nat) : Int :=
  if h : exp = 0 then y
  else modExpLoop (if exp % 2 = 1 then u64 (y * xpow) else y) (u64 (xpow * xpow)) (exp / 2)
termination_by exp
decreasing_by omega

/-- `mod_exp_u64(x, e)` = `x^e mod 2^64` -/
def modExpU64 (x : Int) (e : Nat) : Int := modExpLoop 1 x e

def galoisGenerator : Int := 5

/-- `CyclotomicOrder::cyclotomic_order` -/
def cyclotomicOrder (n : Nat) : Int := 2 * (n : Int)

def isPow2Int (m : Int) : Bool := decide (0 < m) && (m.toNat &&& (m.toNat - 1)) == 0

/-- `galois_element(generator, cyclotomic_order)`: `±5^{|generator|} mod cyclotomic_order`, sign of
`generator`; `1` for `generator = 0` -/
def galoisElement (generator order : Int) : Outcome Int :=
  if !isPow2Int order then .panic "assert"
  else if generator = 0 then .ok 1
  else .ok (modExpU64 galoisGenerator generator.natAbs % order * generator.sign)

/-- `GaloisElement::galois_element_inv(gal_el)` = `sign · |gal_el|^{order-1} mod order`;
panics on `0` -/
def galoisElementInv (galEl order : Int) : Outcome Int :=
  if galEl = 0 then .panic "other"
  else .ok (modExpU64 (galEl.natAbs : Int) (order - 1).toNat % order * galEl.sign)
