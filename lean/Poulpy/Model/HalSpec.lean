import Poulpy.Model.Basic

/-!
Exact-integer specification model of the DFT-domain part of the hardware abstraction layer
(`poulpy-hal/src/api/{vec_znx_dft,svp_ppol,vmp_pmat,convolution}.rs`, implemented in
`poulpy-cpu-ref/src/reference/{fft64,ntt120}/{vec_znx_dft,svp,vmp,convolution}.rs` and the AVX
twins).

A `VecZnxDft` / `SvpPPol` / `VmpPMat` / `CnvPVec` limb is represented by the exact integer
polynomial it stands for: the forward transform is the identity on content, products are exact
negacyclic products.  What is modelled faithfully is everything *around* the transform: which
limbs are selected (`step`, `offset`, `limb_offset`, `cnv_offset`), the "largest valid sub-shape"
rule, which limbs of the result are written, zero-filled or left untouched, and which column is
addressed.  One model serves the four back ends.

A buffer keeps its capacity limbs (`maxSize`) so that `set_size` is modelled exactly: limbs beyond
the active `size` are never touched by an operation and become visible again when the size grows.
-/

namespace Hal

def polyAdd (a b : Poly) : Poly := List.zipWith (· + ·) a b
def polySub (a b : Poly) : Poly := List.zipWith (· - ·) a b
def polyNeg (a : Poly) : Poly := a.map (fun x => -x)
def polyScale (c : Int) (a : Poly) : Poly := a.map (fun x => c * x)

/-- multiplication by `X` in `Z[X]/(X^n+1)` on coefficient lists (degree 0 first) -/
def mulX (l : Poly) : Poly :=
  match l.getLast? with
  | none => []
  | some z => (-z) :: l.dropLast

/-- exact negacyclic product, Horner form: `a * b = a₀·b + X·(a₁·b + X·(…))` -/
def negMul : Poly → Poly → Poly
  | [], b => b.map (fun _ => 0)
  | a0 :: as, b => polyAdd (polyScale a0 b) (mulX (negMul as b))

/-- a multi-column limb container with capacity -/
structure Buf where
  n : Nat
  cols : Nat
  size : Nat
  maxSize : Nat
  data : List Col          -- `cols` columns of `maxSize` limbs
deriving Repr

def zeroP (n : Nat) : Poly := List.replicate n 0

/-- the active limbs of column `c` -/
def Buf.act (b : Buf) (c : Nat) : Col := ((b.data.getD c []).take b.size)

/-- overwrite the active limbs of column `c` (limbs ≥ size are kept) -/
def Buf.setAct (b : Buf) (c : Nat) (x : Col) : Buf :=
  let old := b.data.getD c []
  { b with data := b.data.set c (x.take b.size ++ old.drop b.size) }

def limbOr0 (n : Nat) (a : Col) (j : Nat) : Poly := a.getD j (zeroP n)

/-- `vec_znx_dft_apply` / `vec_znx_dft_copy` on one column: result limb `j` is input limb
`offset + j*step`, zero when that limb does not exist or `j ≥ min(res_size, ⌈a_size/step⌉)`. -/
def dftApplyCol (n step offset resSize : Nat) (a : Col) : Col :=
  let steps := (a.length + step - 1) / step
  let minSteps := min resSize steps
  (List.range resSize).map (fun j =>
    if j < minSteps then
      let limb := offset + j * step
      if limb < a.length then a.getD limb (zeroP n) else zeroP n
    else zeroP n)

/-- `vec_znx_idft_apply`: limb-wise copy of the common limbs, zero fill. -/
def idftCol (n resSize : Nat) (a : Col) : Col :=
  (List.range resSize).map (fun j => if j < a.length then limbOr0 n a j else zeroP n)

/-- `vec_znx_dft_add_into` / `vec_znx_dft_sub`: limb-wise with the shorter operand zero-extended,
truncated / zero-filled to the result size (this is what the two-branch Rust code computes). -/
def zipExtCol (f : Poly → Poly → Poly) (n resSize : Nat) (a b : Col) : Col :=
  (List.range resSize).map (fun j => f (limbOr0 n a j) (limbOr0 n b j))

/-- `vec_znx_dft_{add,sub}_assign`: only the common limbs change. -/
def assignCol (f : Poly → Poly → Poly) (res a : Col) : Col :=
  res.mapIdx (fun j r => if j < a.length then f r (a.getD j []) else r)

/-- `vec_znx_dft_sub_negate_assign`: `res ← a − res` on common limbs, `res ← −res` on the others. -/
def subNegateAssignCol (res a : Col) : Col :=
  res.mapIdx (fun j r => if j < a.length then polySub (a.getD j []) r else polyNeg r)

/-- `vec_znx_dft_add_scaled_assign` (the limb shift `a_scale`, as the Rust computes its bounds). -/
def addScaledAssignCol (res a : Col) (scale : Int) : Col :=
  let rs := res.length
  let as := a.length
  if scale > 0 then
    let shift := min scale.toNat as
    let sum := (min as rs) - shift
    res.mapIdx (fun j r => if j < sum then polyAdd r (a.getD (j + shift) []) else r)
  else if scale < 0 then
    let shift := min (-scale).toNat rs
    let sum := min as (rs - shift)
    res.mapIdx (fun j r => if shift ≤ j ∧ j - shift < sum then polyAdd r (a.getD (j - shift) []) else r)
  else
    res.mapIdx (fun j r => if j < min as rs then polyAdd r (a.getD j []) else r)

/-- `svp_apply_dft` / `svp_apply_dft_to_dft`: `res[j] = p · b[j]` on the common limbs, zero fill. -/
def svpApplyCol (n resSize : Nat) (p : Poly) (b : Col) : Col :=
  (List.range resSize).map (fun j => if j < b.length then negMul p (limbOr0 n b j) else zeroP n)

def svpAssignCol (p : Poly) (res : Col) : Col := res.map (fun r => negMul p r)

/-- flat view of the active part of a buffer in storage order: index `j*cols + c` -/
def Buf.flat (b : Buf) : List Poly :=
  (List.range (b.size * b.cols)).map (fun r => limbOr0 b.n (b.act (r % b.cols)) (r / b.cols))

/-- prepared matrix: `rows × colsIn` rows, each a (colsOut columns × size limbs) vector -/
structure PMat where
  n : Nat
  rows : Nat
  colsIn : Nat
  colsOut : Nat
  size : Nat
  data : List (List Col)     -- data[row*colsIn + ci] = colsOut columns of `size` limbs
deriving Repr

/-- entry (flat row `j`, flat column `l*colsOut + c`) -/
def PMat.entry (m : PMat) (j q : Nat) : Poly :=
  limbOr0 m.n ((m.data.getD j []).getD (q % m.colsOut) []) (q / m.colsOut)

def sumPolys (n : Nat) (l : List Poly) : Poly := l.foldl polyAdd (zeroP n)

/-- `vmp_apply_dft_to_dft` at (limb, column) granularity: with `off = limb_offset·cols_out`,
`row_max = min(rows·cols_in, |a|)`, `col_max = min(cols_out·size, |res| + off)` flat output entry `r`
is `Σ_{j<row_max} a[j]·M[j][r+off]` for `r < col_max − off` and zero otherwise. -/
def vmpFlat (n : Nat) (aFlat : List Poly) (m : PMat) (limbOffset resFlatLen : Nat) : List Poly :=
  let off := limbOffset * m.colsOut
  let nrows := m.colsIn * m.rows
  let ncols := m.colsOut * m.size
  let rowMax := min nrows aFlat.length
  let colMax := min ncols (resFlatLen + off)
  (List.range resFlatLen).map (fun r =>
    if off < colMax ∧ r < colMax - off then
      sumPolys n ((List.range rowMax).map (fun j => negMul (aFlat.getD j (zeroP n)) (m.entry j (r + off))))
    else zeroP n)

/-- write a flat (limb-major) vector back into the active part of a buffer -/
def Buf.setFlat (b : Buf) (fl : List Poly) : Buf :=
  (List.range b.cols).foldl (fun acc c =>
    acc.setAct c ((List.range b.size).map (fun j => fl.getD (j * b.cols + c) (zeroP b.n)))) b

/-- `reim_from_znx_masked` / `ntt120 … masked`: coefficient-wise `x & mask` on two's-complement i64 -/
def maskCoeff (mask x : Int) : Int :=
  -- x & mask on 64-bit two's complement, result re-interpreted as i64
  let ux := x % 2 ^ 64
  let um := mask % 2 ^ 64
  w64 (Int.ofNat (Nat.land ux.toNat um.toNat))

/-- `cnv_prepare_left/right` on one column: copy of the common limbs, the last common limb masked,
zero fill up to the prepared size. -/
def cnvPrepareCol (n resSize : Nat) (mask : Int) (a : Col) : Col :=
  let minSize := min resSize a.length
  (List.range resSize).map (fun j =>
    if j + 1 = minSize then (limbOr0 n a j).map (maskCoeff mask)
    else if j < minSize then limbOr0 n a j
    else zeroP n)

/-- one output limb of the bivariate convolution: `Σ_j a[k−j]·b[j]`, `k` already offset -/
def cnvCoeff (n : Nat) (a b : Col) (k : Nat) : Poly :=
  if k ≥ a.length + b.length then zeroP n
  else
    let jMin := k - (a.length - 1)
    let jMax := min (k + 1) b.length
    sumPolys n ((List.range (jMax - jMin)).map (fun t =>
      let j := jMin + t
      negMul (limbOr0 n a (k - j)) (limbOr0 n b j)))

/-- `cnv_apply_dft` on one column: limbs `k < min(res_size, a+b−1)` receive coefficient
`k + min(cnv_offset, a+b−1)` of the product, the rest is zero. -/
def cnvApplyCol (n resSize cnvOffset : Nat) (a b : Col) : Col :=
  let bound := a.length + b.length - 1
  let minSize := min resSize bound
  let off := min cnvOffset bound
  (List.range resSize).map (fun k => if k < minSize then cnvCoeff n a b (k + off) else zeroP n)

/-- `cnv_by_const_apply`: convolution of a limb column with per-limb integer constants, in the
coefficient domain (big accumulator).  `wrap` is the accumulator's wrap (`w64` on FFT64 whose big
scalar is `i64` with wrapping arithmetic, `w128` on NTT120). -/
def cnvByConstCol (wrap : Int → Int) (n resSize cnvOffset : Nat) (a : Col) (b : List Int) : Col :=
  if a.length = 0 ∨ b.length = 0 then List.replicate resSize (zeroP n)
  else
    let bound := a.length + b.length - 1
    let minSize := min resSize bound
    let off := min cnvOffset bound
    (List.range resSize).map (fun k =>
      if k < minSize then
        let kk := k + off
        if kk ≥ a.length + b.length then zeroP n
        else
          let jMin := kk - (a.length - 1)
          let jMax := min (kk + 1) b.length
          (sumPolys n ((List.range (jMax - jMin)).map (fun t =>
            let j := jMin + t
            polyScale (b.getD j 0) (limbOr0 n a (kk - j))))).map wrap
      else zeroP n)

def colAdd (n : Nat) (a b : Col) : Col :=
  (List.range (max a.length b.length)).map (fun j => polyAdd (limbOr0 n a j) (limbOr0 n b j))


/-! ### Buffer transformers (one per HAL call; the driver executes exactly these) -/

/-- `vec_znx_dft_apply(step, offset, res, res_col, a, a_col)` and `vec_znx_dft_copy` -/
def opDftApply (step off : Nat) (d : Buf) (dc : Nat) (x : Buf) (xc : Nat) : Buf :=
  d.setAct dc (dftApplyCol d.n step off d.size (x.act xc))

/-- `vec_znx_idft_apply(res, res_col, a, a_col)` -/
def opIdft (b : Buf) (bc : Nat) (d : Buf) (dc : Nat) : Buf :=
  b.setAct bc (idftCol b.n b.size (d.act dc))

/-- `vec_znx_dft_add_into` (`f = polyAdd`) / `vec_znx_dft_sub` (`f = polySub`) -/
def opZipExt (f : Poly → Poly → Poly) (d : Buf) (dc : Nat) (a : Buf) (ac : Nat) (b : Buf) (bc : Nat) : Buf :=
  d.setAct dc (zipExtCol f d.n d.size (a.act ac) (b.act bc))

/-- `vec_znx_dft_{add,sub}_assign` -/
def opAssign (f : Poly → Poly → Poly) (d : Buf) (dc : Nat) (a : Buf) (ac : Nat) : Buf :=
  d.setAct dc (assignCol f (d.act dc) (a.act ac))

def opSubNegateAssign (d : Buf) (dc : Nat) (a : Buf) (ac : Nat) : Buf :=
  d.setAct dc (subNegateAssignCol (d.act dc) (a.act ac))

def opAddScaledAssign (d : Buf) (dc : Nat) (a : Buf) (ac : Nat) (scale : Int) : Buf :=
  d.setAct dc (addScaledAssignCol (d.act dc) (a.act ac) scale)

def opZero (d : Buf) (dc : Nat) : Buf := d.setAct dc (List.replicate d.size (zeroP d.n))

/-- `svp_apply_dft` / `svp_apply_dft_to_dft` with prepared scalar `p` -/
def opSvpApply (d : Buf) (dc : Nat) (p : Poly) (x : Buf) (xc : Nat) : Buf :=
  d.setAct dc (svpApplyCol d.n d.size p (x.act xc))

def opSvpAssign (d : Buf) (dc : Nat) (p : Poly) : Buf := d.setAct dc (svpAssignCol p (d.act dc))

/-- `vmp_apply_dft_to_dft(res, a, pmat, limb_offset)`: writes every column of `res` -/
def opVmp (d : Buf) (a : Buf) (m : PMat) (limbOffset : Nat) : Buf :=
  d.setFlat (vmpFlat d.n a.flat m limbOffset (d.size * d.cols))

/-- `cnv_apply_dft(cnv_offset, res, res_col, a, a_col, b, b_col)` -/
def opCnvApply (off : Nat) (d : Buf) (dc : Nat) (l : Buf) (lc : Nat) (r : Buf) (rc : Nat) : Buf :=
  d.setAct dc (cnvApplyCol d.n d.size off (l.act lc) (r.act rc))

/-- `cnv_pairwise_apply_dft(cnv_offset, res, res_col, a, b, i, j)` -/
def opCnvPairwise (off : Nat) (d : Buf) (dc : Nat) (l r : Buf) (i j : Nat) : Buf :=
  if i = j then opCnvApply off d dc l i r j
  else d.setAct dc (cnvApplyCol d.n d.size off (colAdd d.n (l.act i) (l.act j)) (colAdd d.n (r.act i) (r.act j)))

/-- `cnv_by_const_apply(cnv_offset, res, res_col, a, a_col, b)` -/
def opCnvByConst (wrap : Int → Int) (off : Nat) (d : Buf) (dc : Nat) (a : Buf) (ac : Nat) (b : List Int) : Buf :=
  d.setAct dc (cnvByConstCol wrap d.n d.size off (a.act ac) b)

/-- `cnv_prepare_left/right(res, a, mask)`: every column -/
def opCnvPrepare (l : Buf) (x : Buf) (mask : Int) : Buf :=
  (List.range l.cols).foldl (fun (acc : Buf) c => acc.setAct c (cnvPrepareCol l.n l.size mask (x.act c))) l

end Hal
