import Poulpy.Model.Basic
/-
Model of the two multi-threaded loops of poulpy-bin-fhe

  * `poulpy-bin-fhe/src/bdd_arithmetic/eval.rs::execute_bdd_circuit_multi_thread`
  * `poulpy-bin-fhe/src/bdd_arithmetic/ciphertexts/fhe_uint_prepared.rs::
     fhe_uint_prepare_custom_multi_thread`

and of `Scratch::split_mut` (`poulpy-hal/src/api/scratch.rs`) as far as the loops use it (a vector
of `threads` windows, window `s` = the `s`-th `split_at_mut`).

Both loops have the shape

    let chunk_size = items.div_ceil(threads).max(1);
    let (mut scratches, _) = scratch.split_mut(threads, per_thread);
    thread::scope(|scope| {
        for (thread_idx, (scratch_thread, chunk)) in
            scratches.iter_mut().zip(slice[base..base+items].chunks_mut(chunk_size)).enumerate()
        {
            scope.spawn(move || for (idx, dst) in chunk.iter_mut().enumerate() {
                work(base + thread_idx * chunk_size + idx) -> *dst   // using *scratch_thread
            });
        }
    });

A *work item* records the four numbers that matter: the `enumerate` index of the spawned thread,
the position of its scratch window in `split_mut`'s vector, the **physical** position of `dst` in
the output slice (fixed by `chunks_mut`) and the **computed** index handed to the body
(`base + thread_idx * chunk_size + idx`).  That the last two coincide is a theorem (C20), not a
definition.

The second half is the abstract machine of C20: a state is (output slots, scratch windows); a work
item is a sequence of micro-steps, each of which reads and writes only the item's output slot and
the thread's scratch window (shared inputs are read-only, i.e. closed over in `micro`).
-/

namespace Threads

/-- Rust `usize::div_ceil` (`b = 0` panics in Rust; every caller below checks first). -/
def divCeil (a b : Nat) : Nat :=
  let d := a / b
  let r := a % b
  if r > 0 then d + 1 else d

/-- `slice.chunks_mut(cs)` on a slice whose first element has physical index `off` and which has
`rem` elements left: `ChunksMut::next` is
`if v.is_empty() { None } else { let sz = min(v.len(), cs); split_at_mut(sz) }`.
The fuel is the slice length (each chunk removes at least one element when `cs ≥ 1`). -/
def chunksMutAux (cs : Nat) : Nat → Nat → Nat → List (List Nat)
  | 0, _, _ => []
  | fuel + 1, off, rem =>
    if rem = 0 then []
    else
      let sz := min rem cs
      List.range' off sz :: chunksMutAux cs fuel (off + sz) (rem - sz)

/-- `slice[off .. off+len].chunks_mut(cs)`; `chunks_mut(0)` panics (`assert!(chunk_size != 0)`),
at construction, whatever the slice. -/
def chunksMut (off len cs : Nat) : Outcome (List (List Nat)) :=
  if cs = 0 then .panic "assert" else .ok (chunksMutAux cs len off len)

structure Work where
  /-- `enumerate()` index of the spawned thread -/
  thread : Nat
  /-- position of the scratch window in `split_mut`'s vector -/
  scratch : Nat
  /-- physical position of `dst` in the output slice -/
  slot : Nat
  /-- index handed to the body: `base + thread_idx * chunk_size + idx` -/
  index : Nat
deriving Repr, DecidableEq

/-- `scratches.iter_mut().zip(chunks).enumerate()` and the inner `chunk.iter_mut().enumerate()`.
`zip` stops at the shorter side. -/
def spawnList (base cs threads : Nat) (cks : List (List Nat)) : List (List Work) :=
  ((List.zip (List.range threads) cks).zipIdx).map fun ((s, ck), t) =>
    ck.zipIdx.map fun (slot, idx) =>
      { thread := t, scratch := s, slot := slot, index := base + t * cs + idx }

/-- The common loop: one list of work items per spawned thread.
`threads = 0` is `div_ceil(0)` (panic "attempt to divide by zero"); `chunk_size =
items.div_ceil(threads).max(1)`, so `items = 0` spawns no thread (`chunks_mut(1)` of an empty
slice is empty) instead of panicking in `chunks_mut(0)`. -/
def parLoop (base items threads : Nat) : Outcome (List (List Work)) :=
  if threads = 0 then .panic "overflow"
  else
    let cs := max (divCeil items threads) 1
    match chunksMut base items cs with
    | .ok cks => .ok (spawnList base cs threads cks)
    | .panic c => .panic c
    | .err e => .err e

/-- `chunks items threads`: the loop of `execute_bdd_circuit_multi_thread` (`base = 0`). -/
def chunks (items threads : Nat) : Outcome (List (List Work)) := parLoop 0 items threads

/-! ### `Scratch::split_mut` over `take_slice_aligned` -/

/-- a scratch window: `start` = byte offset of its first byte from a 64-byte-aligned base
(`ScratchOwned` allocations are 64-aligned), `len` = its length in bytes -/
structure Win where
  start : Nat
  len : Nat
deriving Repr, DecidableEq

/-- `ptr.align_offset(DEFAULTALIGN)` with `DEFAULTALIGN = 64` -/
def Win.alignOffset (w : Win) : Nat := (64 - w.start % 64) % 64

/-- `scratch_available_default`: `len.saturating_sub(aligned_offset)` -/
def Win.available (w : Win) : Nat := w.len - w.alignOffset

/-- `take_slice_aligned(data, take_len)` (`poulpy-cpu-ref/src/hal_defaults/scratch.rs`): the taken
slice starts at the next 64-byte boundary; panics when the aligned remainder is too short. -/
def takeAligned (w : Win) (n : Nat) : Outcome (Win × Win) :=
  let off := w.alignOffset
  let alignedLen := w.len - off
  if alignedLen < n then .panic "scratch"
  else .ok (⟨w.start + off, n⟩, ⟨w.start + off + n, alignedLen - n⟩)

def splitLoop : Nat → Win → Nat → Outcome (List Win × Win)
  | 0, w, _ => .ok ([], w)
  | k + 1, w, len =>
    match takeAligned w len with
    | .panic c => .panic c
    | .err e => .err e
    | .ok (t, rest) =>
      match splitLoop k rest len with
      | .ok (ts, r) => .ok (t :: ts, r)
      | .panic c => .panic c
      | .err e => .err e

/-- `usize::next_multiple_of(DEFAULTALIGN)` with `DEFAULTALIGN = 64` -/
def nextMult64 (len : Nat) : Nat := len + (64 - len % 64) % 64

/-- the size check of `split_mut`: `(n - 1) * len.next_multiple_of(DEFAULTALIGN) + len` for `n > 0` -/
def splitNeeded (n len : Nat) : Nat := if n = 0 then 0 else (n - 1) * nextMult64 len + len

/-- `Scratch::split_mut(n, len)`: `assert!(self.available() >= needed)`, then `n` times
`split_at_mut(len)` (= `take_slice(len)`). -/
def splitMut (w : Win) (n len : Nat) : Outcome (List Win × Win) :=
  if w.available < splitNeeded n len then .panic "assert" else splitLoop n w len

/-- What happens to one slot of the output slice. -/
inductive Act where
  /-- written by thread `thread` (scratch window `scratch`) with the result of item `index` -/
  | item (thread scratch index : Nat)
  /-- zeroed by the sequential tail loop -/
  | zero
  /-- neither (would be stale data) -/
  | untouched
deriving Repr, DecidableEq

def actOf (ws : List Work) (j : Nat) : Option Act :=
  (ws.find? (fun w => w.slot == j)).map (fun w => Act.item w.thread w.scratch w.index)

/-- `execute_bdd_circuit_multi_thread(threads, out, inputs, circuit, scratch)`:
`outLen = out.len()`, `outputSize = circuit.output_size()`, `inBits = inputs.bit_size()`,
`circIn = circuit.input_size()`, `avail = scratch.available()`, `perThread` =
`execute_bdd_circuit_tmp_bytes`.  Order of the checks as in the source.  The scratch handed in is
taken to start 64-byte aligned (a `ScratchOwned` borrow), so `available() = len`. -/
def execBdd (threads outLen outputSize inBits circIn avail perThread : Nat) : Outcome (List Act) :=
  if inBits < circIn then .panic "assert"            -- debug assertion 1
  else if outLen < outputSize then .panic "assert"   -- debug assertion 2
  else if outLen = 0 then .panic "bounds"            -- `&out[0]`
  else if avail < threads * perThread then .panic "assert"
  else
    -- `split_mut`, then `div_ceil`, then the zip
    match splitMut ⟨0, avail⟩ threads perThread with
    | .panic c => .panic c
    | .err e => .err e
    | .ok _ =>
      match parLoop 0 outputSize threads with
      | .panic c => .panic c
      | .err e => .err e
      | .ok qs =>
        let ws := qs.flatten
        .ok ((List.range outLen).map fun j =>
          if j < outputSize then (actOf ws j).getD Act.untouched else Act.zero)

/-- `fhe_uint_prepare_custom_multi_thread(threads, res, bits, bit_start, bit_count, …)` for a
`T::BITS = bits`-bit integer. -/
def execPrepare (threads bits bitStart bitCount avail perThread : Nat) : Outcome (List Act) :=
  let bitEnd := bitStart + bitCount
  if bitEnd > bits then .panic "assert"
  else if avail < threads * perThread then .panic "assert"
  else if threads = 0 then .panic "overflow"        -- `bit_count.div_ceil(threads)` comes first here
  else
    match splitMut ⟨0, avail⟩ threads perThread with
    | .panic c => .panic c
    | .err e => .err e
    | .ok _ =>
      match parLoop bitStart bitCount threads with
      | .panic c => .panic c
      | .err e => .err e
      | .ok qs =>
        let ws := qs.flatten
        .ok ((List.range bits).map fun j =>
          if bitStart ≤ j ∧ j < bitEnd then (actOf ws j).getD Act.untouched else Act.zero)

/-! ### The abstract machine -/

/-- One micro-step of a work item. -/
structure Ev where
  thread : Nat
  scratch : Nat
  slot : Nat
  index : Nat
  pc : Nat
deriving Repr, DecidableEq

structure St (V : Type) where
  outs : Nat → V
  scr : Nat → V

def upd {V : Type} (f : Nat → V) (i : Nat) (v : V) : Nat → V := fun j => if j = i then v else f j

/-- `micro index pc (out slot content, scratch window content)`: the `pc`-th micro-step of item
`index`; everything else it depends on (module, keys, input ciphertexts) is read-only and lives in
the closure. -/
def stepEv {V : Type} (micro : Nat → Nat → V × V → V × V) (e : Ev) (st : St V) : St V :=
  let r := micro e.index e.pc (st.outs e.slot, st.scr e.scratch)
  { outs := upd st.outs e.slot r.1, scr := upd st.scr e.scratch r.2 }

def run {V : Type} (micro : Nat → Nat → V × V → V × V) (evs : List Ev) (st : St V) : St V :=
  evs.foldl (fun s e => stepEv micro e s) st

/-- the micro-steps of one work item (`plen index` of them), in program order -/
def workEvs (plen : Nat → Nat) (w : Work) : List Ev :=
  (List.range (plen w.index)).map fun pc => ⟨w.thread, w.scratch, w.slot, w.index, pc⟩

/-- the program-order sequence of one thread -/
def threadSeq (plen : Nat → Nat) (ws : List Work) : List Ev := ws.flatMap (workEvs plen)

/-- remove `e` from the head of the first queue whose head it is -/
def popHead (e : Ev) : List (List Ev) → Option (List (List Ev))
  | [] => none
  | q :: qs =>
    match q with
    | e' :: r => if e' = e then some (r :: qs) else (popHead e qs).map (q :: ·)
    | [] => (popHead e qs).map (q :: ·)

/-- `sched` is an interleaving (shuffle preserving each queue's order) of the queues `qs`. -/
def isInterleaving (qs : List (List Ev)) : List Ev → Bool
  | [] => qs.all List.isEmpty
  | e :: rest =>
    match popHead e qs with
    | some qs' => isInterleaving qs' rest
    | none => false

/-- whole program of item `i` run on (output slot content, scratch content) -/
def itemRun {V : Type} (micro : Nat → Nat → V × V → V × V) (plen : Nat → Nat) (i : Nat) (p : V × V) : V × V :=
  (List.range (plen i)).foldl (fun p pc => micro i pc p) p

/-! ### Scratch queries of the word-level multi-threaded operations -/

/-- `execute_bdd_circuit_2w_to_1w_multi_thread_tmp_bytes(threads, …)` (`bdd_2w_to_1w.rs`; the 1-word form is the same):
`glwe_slot_bytes + max(threads * bdd_per_thread, pack_bytes)` with `glwe_slot_bytes = T::BITS * bytes_of(GLWE)` -/
def mtTmpBytes (slotBytes perThread packBytes threads : Nat) : Nat :=
  slotBytes + max (threads * perThread) packBytes

end Threads
